#!/bin/bash
# tools/collect_seed.sh <prop> <n> <scratch worktree>: move a seeder's deliverables to seeded/<prop>-<n>/ and drop the worktree
set -eu
P=$1; N=$2; WT=$3
D=/verif/seeded/$P-$N
mkdir -p $D
cp $WT/.seed/patch.diff $WT/.seed/demo.diff $WT/.seed/meta.json $WT/.seed/SEED_REPORT.md $D/
git -C /repo worktree remove --force $WT; rm -rf $WT; git -C /repo worktree prune
ls $D
