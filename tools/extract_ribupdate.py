#!/usr/bin/env python3
"""extract_ribupdate.py REPO — regenerate lean/RotondaModel/Generated/RibUpdate.lean from
src/units/rib_unit/unit.rs:

* `RibUnitRunner::process_update`: for each variant of `payload::Update` what the arm of `match update` does
  (filter+insert the payload(s) / withdraw one ingress id / withdraw each id of a list with `None` /
  pass the update on unchanged / re-process a query result without touching the store);
* `signal_withdraw` is exactly `self.rib.load().withdraw_for_ingress(id, afisafi)`;
* `filter_payload`: without a roto filter every payload is inserted and kept; what is passed on is chosen by
  `match res.len()` (0 → nothing, 1 → `Update::Single`, otherwise `Update::Bulk`).

Arms are recognised by shape on comment-free, whitespace-free text; arm order, layout, comments and the
names of bound variables are immaterial. Anything not recognised is a loud failure (exit 1)."""
import os, re, sys
sys.path.insert(0, os.path.dirname(os.path.abspath(__file__)))
from extractlib import *

TOOL = "extract_ribupdate"
KINDS = ["Single", "Bulk", "Withdraw", "WithdrawBulk", "QueryResult", "UpstreamStatusChange", "OutputStream"]
LEAN_KIND = {"Single": "single", "Bulk": "bulk", "Withdraw": "withdraw", "WithdrawBulk": "withdrawBulk",
             "QueryResult": "queryResult", "UpstreamStatusChange": "upstreamStatus", "OutputStream": "outputStream"}
STORE_TOUCH = re.compile(r"filter_payload|insert_payload|signal_withdraw|withdraw_for_ingress|self\.rib\b")


def classify(kind, args, expr):
    e = norm(unbrace(expr)).rstrip(";")
    a = [re.escape(x) for x in args]
    if len(args) == 1 and e == f"self.filter_payload([{args[0]}]).await?":
        return "filterInsertOne"
    if len(args) == 1 and e == f"self.filter_payload({args[0]}).await?":
        return "filterInsertAll"
    if len(args) == 2 and e == f"self.signal_withdraw({args[0]},{args[1]})":
        return "withdrawIngress"
    if len(args) == 1 and (
            re.fullmatch(a[0] + r"\.(?:iter|into_iter)\(\)\.for_each\(\|&?(\w+)\|self\.signal_withdraw\(\*?\1,None\)\)", e)
            or re.fullmatch(r"for&?(\w+)in&?" + a[0] + r"(?:\.iter\(\)|\.into_iter\(\))?\{self\.signal_withdraw\(\*?\1,None\);?\}", e)):
        return "withdrawEach"
    if e == "self.gate.update_data(update).await":
        return "forward"
    if "self.reprocess_query_results(" in e and not STORE_TOUCH.search(e):
        return "reprocessQuery"
    raise Lost(f"process_update: arm for Update::{kind} not understood: " + re.sub(r"\s+", " ", expr)[:90])


def main():
    repo = sys.argv[1] if len(sys.argv) > 1 else "/repo"
    code = strip(drop_hooks(read_source(repo, "src/units/rib_unit/unit.rs", TOOL)))

    body = find_fn(code, "process_update")
    ms = list(re.finditer(r"\bmatch\s+update\s*\{", body))
    if len(ms) != 1:
        raise Lost("anchor lost: process_update is no longer one `match update { … }`")
    sp = block_after(body, ms[0].end() - 1)
    if body[:ms[0].start()].strip() or norm(body[sp[1]:]) not in ("Ok(())", ";Ok(())"):
        raise Lost("process_update has statements around its `match update { … }` other than the final `Ok(())`")
    table = {}
    for pat, expr in match_arms(inner(body, sp)):
        for alt in alternatives(pat):
            m = re.fullmatch(r"Update::(\w+)\s*(?:\((.*)\))?", alt, re.S)
            if not m:
                raise Lost("process_update: pattern not understood (a catch-all arm would hide new variants): " + alt[:60])
            kind = m.group(1)
            if kind not in KINDS:
                raise Lost(f"process_update names an unknown Update variant {kind}")
            if kind in table:
                raise Lost(f"process_update names Update::{kind} twice")
            args = [x.strip() for x in split_top(m.group(2) or "")] if m.group(2) else []
            args = [x for x in args if x]
            if kind == "UpstreamStatusChange":
                if not re.fullmatch(r"(?:UpstreamStatus::EndOfStream\{[^}]*\}|_|\.\.)", norm(m.group(2) or "")):
                    raise Lost("process_update: UpstreamStatusChange pattern not understood: " + alt[:70])
                args = []
            elif any(not re.fullmatch(r"\w+|\.\.", x) for x in args):
                raise Lost(f"process_update: arguments of Update::{kind} are not plain bindings: " + alt[:70])
            table[kind] = classify(kind, args, expr)
    missing = [k for k in KINDS if k not in table]
    if missing:
        raise Lost("process_update: no arm for Update::" + ", Update::".join(missing))

    # --- signal_withdraw
    sw = norm(find_fn(code, "signal_withdraw"))
    sig = re.search(r"fnsignal_withdraw\(&self,(\w+):[^,]+,(\w+):[^{]+?\)\{", norm(code))
    if not sig or sw.rstrip(";") != f"self.rib.load().withdraw_for_ingress({sig.group(1)},{sig.group(2)})":
        raise Lost("signal_withdraw is no longer exactly `self.rib.load().withdraw_for_ingress(ingress_id, specific_afisafi)`")

    # --- filter_payload
    fb = find_fn(code, "filter_payload")
    nfb = norm(fb)
    acc = re.search(r"ifletSome\(ref(\w+)\)=self\.roto_function_pre\{match\1\.call\((?:(?!\)\{roto::).)*\)\{(.*?)\}\}else\{self\.insert_payload\(&(\w+)\);res\.push\(\3(?:\.clone\(\))?\);\}", nfb)
    if not acc:
        raise Lost("filter_payload: `if let Some(ref f) = self.roto_function_pre { match f.call(…) {…} } else { self.insert_payload(&p); res.push(p) }` no longer recognised")
    p = re.escape(acc.group(3))
    varms = acc.group(2)
    if not re.search(r"roto::Verdict::Accept\(_\)=>\{self\.insert_payload\(&" + p + r"\);res\.push\(" + p + r"(?:\.clone\(\))?\);\}", varms):
        raise Lost("filter_payload: the Accept arm is no longer `self.insert_payload(&p); res.push(p)`")
    rej = re.search(r"roto::Verdict::Reject\(_\)=>\{(.*?)\}", varms)
    if not rej or re.search(r"insert_payload|res\.push", rej.group(1)):
        raise Lost("filter_payload: the Reject arm is no longer a drop")
    lm = list(re.finditer(r"\bmatch\s+res\.len\(\)\s*\{", fb))
    if len(lm) != 1:
        raise Lost("anchor lost: `match res.len() { … }` in filter_payload")
    fwd = {}
    for pat, expr in match_arms(inner(fb, block_after(fb, lm[0].end() - 1))):
        e = norm(unbrace(expr)).rstrip(";")
        if e == "":
            what = "nothing"
        elif re.fullmatch(r"self\.gate\.update_data\(Update::Single\(res\.into_iter\(\)\.next\(\)\.unwrap\(\),?\),?\)\.await", e):
            what = "single"
        elif re.fullmatch(r"self\.gate\.update_data\(Update::Bulk\(res\),?\)\.await", e):
            what = "bulk"
        else:
            raise Lost("filter_payload: arm of `match res.len()` not understood: " + e[:70])
        for alt in alternatives(pat):
            if alt != "_" and not alt.isdigit():
                raise Lost("filter_payload: pattern of `match res.len()` not understood: " + alt[:40])
            if alt in fwd:
                raise Lost(f"filter_payload: `match res.len()` has two arms for {alt}")
            fwd[alt] = what
    if "_" not in fwd:
        raise Lost("filter_payload: `match res.len()` has no catch-all arm")
    tail = norm(fb[block_after(fb, lm[0].end() - 1)[1]:])
    if tail not in ("Ok(())", ";Ok(())"):
        raise Lost("filter_payload: statements after `match res.len() { … }` other than `Ok(())`")

    actions = ["filterInsertOne", "filterInsertAll", "withdrawIngress", "withdrawEach", "forward", "reprocessQuery"]
    L = []
    L.append("/-! GENERATED by tools/extract_ribupdate.py from src/units/rib_unit/unit.rs — do not edit. -/")
    L.append("namespace Rotonda.Generated.RibUpdate")
    L.append("")
    L.append("/-- the variants of `payload::Update` (`upstreamStatus` = `UpstreamStatusChange(EndOfStream { .. })`) -/")
    L.append("inductive Kind\n  | " + " | ".join(LEAN_KIND[k] for k in KINDS) + "\n  deriving DecidableEq, Repr")
    L.append("def kindNames : List String := [" + ", ".join('"' + LEAN_KIND[k] + '"' for k in KINDS) + "]")
    L.append("")
    L.append("/-- what an arm of `process_update` does: `filterInsertOne` = `filter_payload([payload])`, `filterInsertAll` =\n"
             "    `filter_payload(payloads)`, `withdrawIngress` = `signal_withdraw(id, afisafi)`, `withdrawEach` = `signal_withdraw(id, None)`\n"
             "    for every id of the list, `forward` = `gate.update_data(update)` and nothing else, `reprocessQuery` =\n"
             "    `reprocess_query_results` then answer the waiting request or pass the result on (the store is not touched) -/")
    L.append("inductive Action\n  | " + " | ".join(actions) + "\n  deriving DecidableEq, Repr")
    L.append("")
    L.append("/-- `RibUnitRunner::process_update`, arm by arm -/")
    L.append("def table : Kind → Action")
    for k in KINDS:
        L.append(f"  | .{LEAN_KIND[k]} => .{table[k]}")
    L.append("")
    L.append("/-- `signal_withdraw(id, a)` is exactly `self.rib.load().withdraw_for_ingress(id, a)` -/")
    L.append("def signalWithdrawIsWithdrawForIngress : Bool := true")
    L.append("/-- `filter_payload` without a roto filter (and on `Verdict::Accept`): `insert_payload(&p); res.push(p)`; `Verdict::Reject` drops -/")
    L.append("def acceptInsertsAndKeeps : Bool := true")
    L.append("")
    L.append("/-- what `filter_payload` passes on, by the number of kept payloads (`match res.len()`) -/")
    L.append("inductive Fwd\n  | nothing | single | bulk\n  deriving DecidableEq, Repr")
    L.append("def forwardByCount : Nat → Fwd")
    for lit in sorted((k for k in fwd if k != "_"), key=int):
        L.append(f"  | {lit} => .{fwd[lit]}")
    L.append(f"  | _ => .{fwd['_']}")
    L.append("")
    L.append("end Rotonda.Generated.RibUpdate")
    write_if_changed(generated_path(__file__, "RibUpdate.lean"), "\n".join(L) + "\n")
    print(f"{TOOL}: ok ({len(KINDS)} Update variants: " + ", ".join(f"{k}->{table[k]}" for k in KINDS) + ")")


run(TOOL, main)
