#!/usr/bin/env bash
# Source-line coverage map of /repo/src reached by the harness engines of the claimed checks.
#
#   tools/coverage.sh [phase ...]        phases: build run export report clean   (default: build run export report)
#
# build   harness engines (every `engine` / `extra_ties[].engine` of checks/C*.json) with
#         `-C instrument-coverage` into a SEPARATE target dir ($COVTARGET, default /tmp/covtarget;
#         never harness/target). Toolchain: $COV_TOOLCHAIN (default nightly: the only installed
#         toolchain that ships the llvm-tools component; system llvm-14 cannot read the profiles).
# run     every engine once: --seed 1 --tier quick, LLVM_PROFILE_FILE=<run>/prof/<engine>-%p-%m.profraw,
#         $COV_JOBS at a time (default 3), 10 min timeout each, failures recorded, not fatal.
# export  llvm-profdata merge + llvm-cov export -format=lcov restricted to /repo/src.
# report  notes/Coverage.md + notes/coverage.json (the curated gists / ranking live in the
#         ANNOTATIONS block at the end of this file and are matched by file|function|first line).
# clean   remove $COVTARGET and $COVRUN.
#
# Nothing is written outside $COVTARGET, $COVRUN and notes/Coverage.md, notes/coverage.json
# (LLVM_PROFILE_FILE is also set for the build: instrumented proc-macros / build scripts would
# otherwise drop default_*.profraw into the package directories).
set -u
ROOT="$(cd "$(dirname "${BASH_SOURCE[0]}")/.." && pwd)"
HARNESS="$ROOT/harness"
REPO="${VERIF_REPO:-/repo}"
COVT="${COVTARGET:-/tmp/covtarget}"
RUN="${COVRUN:-/tmp/covrun}"
TC="${COV_TOOLCHAIN:-nightly}"
JOBS="${COV_JOBS:-3}"
SEED="${COV_SEED:-1}"
TIER="${COV_TIER:-quick}"
export CARGO_NET_OFFLINE=true
PHASES=("$@"); [ ${#PHASES[@]} -eq 0 ] && PHASES=(build run export report)

case "$COVT" in "$HARNESS"/*|"$ROOT"/*) echo "COVTARGET must not be inside $ROOT" >&2; exit 2;; esac
LLVMBIN="$(dirname "$(ls "$(rustc +"$TC" --print sysroot)"/lib/rustlib/*/bin/llvm-cov 2>/dev/null | head -1)" 2>/dev/null)"
if [ ! -x "$LLVMBIN/llvm-cov" ] || [ ! -x "$LLVMBIN/llvm-profdata" ]; then
  echo "toolchain '$TC' has no llvm-tools (llvm-cov / llvm-profdata)" >&2; exit 2
fi
mkdir -p "$RUN/prof" "$RUN/out" "$RUN/log" "$RUN/buildprof"

ENGINES="$(python3 - "$ROOT" <<'PY'
import json, glob, sys
s = set()
for f in glob.glob(sys.argv[1] + "/checks/C*.json"):
    d = json.load(open(f))
    s.add(d.get("engine"))
    for t in d.get("extra_ties", []):
        s.add(t.get("engine"))
print(" ".join(sorted(x for x in s if x)))
PY
)"

stray_sweep() {  # safety net: the LLVM default profile name in the two package dirs the build runs in
  rm -f "$REPO"/default_*.profraw "$HARNESS"/default_*.profraw 2>/dev/null
}

phase_build() {
  local bins=(); for e in $ENGINES; do bins+=(--bin "$e"); done
  echo "== build ($TC, $(rustc +"$TC" --version)) -> $COVT"
  # Snapshot of what gets compiled (other sessions edit /repo concurrently): the report reads the
  # sources from here so that line numbers, function names and gists match the profile.
  rm -rf "$RUN/src"; cp -r "$REPO/src" "$RUN/src"
  { git -C "$REPO" log -1 --format='%h %s'; echo "dirty: $(git -C "$REPO" status --short -- src Cargo.toml | wc -l)"; } > "$RUN/repo_head.txt"
  ( cd "$HARNESS" && \
    LLVM_PROFILE_FILE="$RUN/buildprof/build-%p-%m.profraw" CARGO_TARGET_DIR="$COVT" \
    RUSTFLAGS="-C instrument-coverage" \
    cargo +"$TC" build --offline "${bins[@]}" ) > "$RUN/log/build.log" 2>&1
  local rc=$?
  rm -rf "$RUN/buildprof"; stray_sweep
  if [ $rc -ne 0 ]; then grep -E '^error' "$RUN/log/build.log" | head; echo "build failed (see $RUN/log/build.log)"; return 1; fi
  tail -1 "$RUN/log/build.log"
  if ! diff -rq "$REPO/src" "$RUN/src" > "$RUN/log/src_drift.log" 2>&1; then
    echo "   note: /repo/src changed while building ($(wc -l < "$RUN/log/src_drift.log") files, see $RUN/log/src_drift.log)"
  fi
}

run_one() {
  local e="$1" t0 rc
  rm -rf "$RUN/out/$e" "$RUN/prof/$e"-*.profraw; mkdir -p "$RUN/out/$e"
  t0=$(date +%s)
  ( cd "$HARNESS" && LLVM_PROFILE_FILE="$RUN/prof/$e-%p-%m.profraw" \
      timeout 600 "$COVT/debug/$e" --seed "$SEED" --tier "$TIER" --out "$RUN/out/$e" ) > "$RUN/log/$e.log" 2>&1
  rc=$?
  local ok=ok; [ $rc -ne 0 ] && ok="exit$rc"; [ $rc -eq 124 ] && ok=timeout
  [ -f "$RUN/out/$e/meta.json" ] || ok="$ok,no-meta"
  local cases=0; [ -f "$RUN/out/$e/cases.txt" ] && cases=$(wc -l < "$RUN/out/$e/cases.txt")
  echo "$e $ok $(( $(date +%s) - t0 )) $cases" > "$RUN/log/$e.status"
  echo "   $e: $ok ($(( $(date +%s) - t0 )) s, $cases cases)"
}

phase_run() {
  echo "== run ($JOBS at a time): $ENGINES"
  export -f run_one; export RUN HARNESS COVT SEED TIER
  printf '%s\n' $ENGINES | xargs -P "$JOBS" -I{} bash -c 'run_one {}'
  cat "$RUN"/log/*.status > "$RUN/status.txt"
  stray_sweep
}

phase_export() {
  echo "== export"
  local objs=() first=1
  for e in $ENGINES; do
    [ -x "$COVT/debug/$e" ] || continue
    if [ $first -eq 1 ]; then objs+=("$COVT/debug/$e"); first=0; else objs+=(-object "$COVT/debug/$e"); fi
  done
  # llvm-cov prints "N functions have mismatched data" for the merged profile: a generic / inlinable
  # function that binary A instantiates has a zero-hash "unused" record in binary B; llvm-cov skips
  # that record and keeps A's. The report checks merged == union of the per-engine exports below
  # (each engine's own profile on its own binary has no mismatch).
  "$LLVMBIN/llvm-profdata" merge -sparse "$RUN"/prof/*-*.profraw -o "$RUN/all.profdata" || return 1
  "$LLVMBIN/llvm-cov" export -format=lcov -instr-profile="$RUN/all.profdata" "${objs[@]}" "$REPO/src" \
      > "$RUN/all.lcov" 2> "$RUN/log/export.log" || { tail "$RUN/log/export.log"; return 1; }
  # per-engine line hits (which engine reaches a line): one cheap export per engine
  for e in $ENGINES; do
    ls "$RUN"/prof/"$e"-*.profraw >/dev/null 2>&1 || continue
    "$LLVMBIN/llvm-profdata" merge -sparse "$RUN"/prof/"$e"-*.profraw -o "$RUN/prof/$e.profdata" 2>/dev/null && \
    "$LLVMBIN/llvm-cov" export -format=lcov -instr-profile="$RUN/prof/$e.profdata" "$COVT/debug/$e" "$REPO/src" \
        > "$RUN/prof/$e.lcov" 2>/dev/null
  done
  grep -c '^SF:' "$RUN/all.lcov"
}

phase_report() {
  echo "== report"
  sed -n '/^# ANNOTATIONS-BEGIN$/,/^# ANNOTATIONS-END$/p' "${BASH_SOURCE[0]}" | sed '1d;$d' > "$RUN/annotations.txt"
  sed -n '/^# REPORT-PY-BEGIN$/,/^# REPORT-PY-END$/p' "${BASH_SOURCE[0]}" | sed '1d;$d' > "$RUN/report.py"
  python3 "$RUN/report.py" "$ROOT" "$REPO" "$RUN" "$TC" "$(rustc +"$TC" --version)" "$ENGINES"
}

phase_clean() { rm -rf "$COVT" "$RUN"; stray_sweep; echo "== cleaned $COVT $RUN"; }

for p in "${PHASES[@]}"; do
  case "$p" in
    build) phase_build || exit 1;;
    run) phase_run;;
    export) phase_export || exit 1;;
    report) phase_report || exit 1;;
    clean) phase_clean;;
    *) echo "unknown phase $p" >&2; exit 2;;
  esac
done
exit 0

: <<'__REPORT_PY__'
# REPORT-PY-BEGIN
import sys, os, re, json, glob, subprocess, time, collections

ROOT, REPO, RUN, TC, RUSTC_V, ENGINES = sys.argv[1:7]
ENGINES = ENGINES.split()
# The sources are read from the snapshot taken right before the instrumented build (other
# sessions edit /repo while the engines run; line numbers must match what was compiled).
SNAP = os.path.join(RUN, "src")
SRC = SNAP if os.path.isdir(SNAP) else os.path.join(REPO, "src")


def snap(path):
    """/repo/src/x.rs -> the snapshot copy of it."""
    return os.path.join(SRC, os.path.relpath(path, os.path.join(REPO, "src")))


# ---------------------------------------------------------------- lexical helpers
def mask(src):
    """Same length as src; comments, string and char literals blanked (newlines kept)."""
    out = list(src); i = 0; n = len(src)
    def blank(a, b):
        for k in range(a, b):
            if out[k] != "\n": out[k] = " "
    while i < n:
        c = src[i]
        if src.startswith("//", i):
            j = src.find("\n", i); j = n if j < 0 else j
            blank(i, j); i = j
        elif src.startswith("/*", i):
            d = 1; j = i + 2
            while j < n and d:
                if src.startswith("/*", j): d += 1; j += 2
                elif src.startswith("*/", j): d -= 1; j += 2
                else: j += 1
            blank(i, j); i = j
        elif c == '"' or (c in "rb" and re.match(r'(?:br|rb|r|b)#*"', src[i:i + 12]) and (i == 0 or not (src[i - 1].isalnum() or src[i - 1] == "_"))):
            m = re.match(r'(br|rb|r|b)?(#*)"', src[i:i + 12])
            raw = m.group(1) and "r" in m.group(1)
            j = i + m.end()
            if raw:
                close = '"' + m.group(2)
                k = src.find(close, j); k = n if k < 0 else k + len(close)
            else:
                k = j
                while k < n and src[k] != '"':
                    k += 2 if src[k] == "\\" else 1
                k += 1
            blank(i + 0, min(k, n)); i = min(k, n)
        elif c == "'":
            m = re.match(r"'(\\x[0-9a-fA-F]{2}|\\u\{[0-9a-fA-F_]+\}|\\.|[^\\'])'", src[i:i + 14])
            if m: blank(i, i + m.end()); i += m.end()
            else: i += 1
        else:
            i += 1
    return "".join(out)


def match_brace(m, i):
    """m[i] == '{' -> index of the matching '}' (or len)."""
    d = 0
    for k in range(i, len(m)):
        if m[k] == "{": d += 1
        elif m[k] == "}":
            d -= 1
            if d == 0: return k
    return len(m) - 1


def item_end(m, i):
    """End index of the item / statement starting at i (after attributes)."""
    d = 0; k = i
    while k < len(m):
        c = m[k]
        if c in "([": d += 1
        elif c in ")]": d -= 1
        elif c == ";" and d <= 0: return k
        elif c == "{" and d <= 0:
            e = match_brace(m, k)
            # `let x = Foo { .. };` / `call(..) { }`-less expression statements end at the `;`
            t = e + 1
            while t < len(m) and m[t] in " \t": t += 1
            return t if t < len(m) and m[t] == ";" else e
        elif c == "}" and d <= 0: return k - 1
        k += 1
    return len(m) - 1


class Src:
    def __init__(self, path):
        self.text = open(path, errors="replace").read()
        self.m = mask(self.text)
        self.lines = self.text.split("\n")
        self.nl = [0]
        for i, c in enumerate(self.text):
            if c == "\n": self.nl.append(i + 1)
        self.excl = self._excluded()
        self.fns = self._fns()

    def line_of(self, idx):
        import bisect
        return bisect.bisect_right(self.nl, idx)

    def _excluded(self):
        """line spans of items behind #[cfg(test)] / #[cfg(feature = "verif-hooks")] (lexical)."""
        spans = []
        for a in re.finditer(r'#\[cfg\(([^\]]*)\)\]', self.text):
            if self.m[a.start()] != "#": continue
            e = a.group(1)
            if e.lstrip().startswith("not("): continue
            if not (re.search(r"\btest\b", e) or "verif-hooks" in e): continue
            i = a.end()
            while True:
                while i < len(self.m) and self.m[i].isspace(): i += 1
                if self.m.startswith("#[", i):
                    d = 0
                    while i < len(self.m):
                        if self.m[i] == "[": d += 1
                        elif self.m[i] == "]":
                            d -= 1
                            if d == 0: i += 1; break
                        i += 1
                else: break
            spans.append((self.line_of(a.start()), self.line_of(item_end(self.m, i)), "test" if re.search(r"\btest\b", e) else "hooks"))
        return spans

    def _fns(self):
        m = self.m; ctx = []
        for a in re.finditer(r"\b(impl|trait)\b", m):
            k = a.end(); d = 0
            while k < len(m):
                c = m[k]
                if c in "([": d += 1
                elif c in ")]": d -= 1
                elif c == ";" and d <= 0: k = -1; break
                elif c == "{" and d <= 0: break
                k += 1
            if k < 0 or k >= len(m): continue
            head = m[a.end():k]
            if a.group(1) == "impl":
                head = re.split(r"\bwhere\b", head)[0]
                if re.search(r"\bfor\b", head): head = re.split(r"\bfor\b", head)[-1]
                else: head = re.sub(r"^\s*<[^>]*(?:<[^>]*>[^>]*)*>", "", head)
            ids = re.findall(r"[A-Za-z_][A-Za-z0-9_]*", re.sub(r"<.*", "", head.strip()))
            if not ids: continue
            ctx.append((a.start(), match_brace(m, k), ids[-1]))
        fns = []
        for a in re.finditer(r"\bfn\s+([A-Za-z_][A-Za-z0-9_]*)", m):
            k = a.end(); d = 0
            while k < len(m):
                c = m[k]
                if c in "([": d += 1
                elif c in ")]": d -= 1
                elif c == ";" and d <= 0: k = -1; break
                elif c == "{" and d <= 0: break
                k += 1
            if k < 0 or k >= len(m): continue
            e = match_brace(m, k)
            owner = [c for c in ctx if c[0] < a.start() <= c[1]]
            name = a.group(1)
            if owner: name = max(owner, key=lambda c: c[0])[2] + "::" + name
            fns.append((self.line_of(a.start()), self.line_of(e), name))
        return fns

    def fn_of(self, line):
        best = None
        for s, e, n in self.fns:
            if s <= line <= e and (best is None or s >= best[0]): best = (s, e, n)
        return best[2] if best else "(top level)"

    def excluded(self, line):
        for s, e, k in self.excl:
            if s <= line <= e: return k
        return None


# ---------------------------------------------------------------- lcov
def read_lcov(path):
    files = {}; cur = None
    for l in open(path, errors="replace"):
        if l.startswith("SF:"): cur = files.setdefault(l[3:].strip(), {})
        elif l.startswith("DA:") and cur is not None:
            a, b = l[3:].strip().split(",")[:2]
            cur[int(a)] = cur.get(int(a), 0) + int(float(b))
    return files


def file_excluded(rel):
    b = os.path.basename(rel)
    return rel.startswith("src/verif/") or rel.startswith("src/tests/") or b.startswith("verif_hooks") or b == "tests.rs"


def relevant_files():
    s = set()
    for l in open(os.path.join(ROOT, "properties.jsonl")):
        l = l.strip()
        if l:
            for f in json.loads(l).get("anchors", {}).get("files", []):
                if f.startswith("src/") and f.endswith(".rs"): s.add(f)
    s.update(["src/comms.rs", "src/manager.rs", "src/config.rs", "src/http.rs", "src/metrics.rs", "src/payload.rs", "src/tracing.rs"])
    return s


def is_relevant(rel, rf):
    return rel in rf or rel.startswith("src/targets/") or rel.startswith("src/units/")


def main():
    allc = read_lcov(os.path.join(RUN, "all.lcov"))
    per_engine = {}
    for e in ENGINES:
        p = os.path.join(RUN, "prof", e + ".lcov")
        if os.path.exists(p): per_engine[e] = read_lcov(p)
    rf = relevant_files()
    ann = {}
    top = []
    ap = os.path.join(RUN, "annotations.txt")
    if os.path.exists(ap):
        for l in open(ap):
            l = l.rstrip("\n")
            if l.startswith("# "): l = l[2:]
            if l.startswith("G\t"):
                p = l.split("\t")
                if len(p) >= 5: ann[(p[1], p[2], p[3][:50])] = p[4]
            elif l.startswith("T\t"):
                p = l.split("\t")
                if len(p) >= 4: top.append(p[1:4])

    all_rs = sorted("src/" + os.path.relpath(p, SRC) for p in glob.glob(SRC + "/**/*.rs", recursive=True))
    files = {}; srcs = {}
    for path, da in allc.items():
        rel = os.path.relpath(path, REPO)
        if not rel.startswith("src/") or file_excluded(rel) or not os.path.exists(snap(path)): continue
        s = srcs[rel] = Src(snap(path))
        lines = {ln: c for ln, c in da.items() if not s.excluded(ln)}
        dropped = collections.Counter(s.excluded(ln) for ln in da if s.excluded(ln))
        eng = {}
        for e, fl in per_engine.items():
            n = sum(1 for ln, c in fl.get(path, {}).items() if c > 0 and ln in lines)
            if n: eng[e] = n
        # uncovered ranges: maximal runs of uncovered instrumented lines inside one function
        ranges = []; cur = None
        for ln in sorted(lines):
            if lines[ln] > 0: cur = None; continue
            fn = s.fn_of(ln)
            if cur and cur["fn"] == fn: cur["end"] = ln; cur["n"] += 1
            else:
                cur = {"start": ln, "end": ln, "n": 1, "fn": fn}; ranges.append(cur)
        for r in ranges:
            first = s.lines[r["start"] - 1].strip()
            r["first"] = first[:70]
            r["gist"] = ann.get((rel, r["fn"], first[:50])) or ann.get((rel, "*", first[:50]))
            if not r["gist"] and r["n"] >= 3:   # function-wide gists are not stretched over stray lines
                r["gist"] = ann.get((rel, r["fn"], "*")) or ann.get((rel, "*", "*"))
        if not lines: continue
        files[rel] = {"lines": len(lines), "covered": sum(1 for c in lines.values() if c > 0),
                      "excluded_lines": dict(dropped), "engines": eng, "relevant": is_relevant(rel, rf),
                      "uncovered": sorted(ranges, key=lambda r: (-r["n"], r["start"]))}
    for f in files.values(): f["pct"] = round(100.0 * f["covered"] / f["lines"], 1) if f["lines"] else None

    seen = {os.path.relpath(p, REPO) for p in allc}
    not_compiled = [r for r in all_rs if r not in seen and not file_excluded(r)
                    and re.search(r"\bfn\s+\w+", mask(open(os.path.join(SRC, r[4:]), errors="replace").read()))]
    status = []
    sp = os.path.join(RUN, "status.txt")
    if os.path.exists(sp):
        for l in open(sp):
            p = l.split()
            if len(p) >= 4: status.append({"engine": p[0], "status": p[1], "seconds": int(p[2]), "cases": int(p[3])})
    hp = os.path.join(RUN, "repo_head.txt")   # written at build time
    if os.path.exists(hp):
        hl = open(hp).read().split("\n")
        head = hl[0].strip() + (" + uncommitted changes" if len(hl) > 1 and hl[1].strip() not in ("", "dirty: 0") else "")
    else:
        head = subprocess.run(["git", "-C", REPO, "log", "-1", "--format=%h %s"], capture_output=True, text=True).stdout.strip()
    tot = sum(f["lines"] for f in files.values()); cov = sum(f["covered"] for f in files.values())
    rel_tot = sum(f["lines"] for f in files.values() if f["relevant"]); rel_cov = sum(f["covered"] for f in files.values() if f["relevant"])

    # function-level aggregation (for ranking)
    fnagg = collections.defaultdict(lambda: {"n": 0, "lo": 10 ** 9, "hi": 0})
    for rel, f in files.items():
        if not f["relevant"]: continue
        for r in f["uncovered"]:
            a = fnagg[(rel, r["fn"])]; a["n"] += r["n"]; a["lo"] = min(a["lo"], r["start"]); a["hi"] = max(a["hi"], r["end"])
    fnrank = sorted(({"file": k[0], "fn": k[1], **v} for k, v in fnagg.items()), key=lambda x: -x["n"])

    # curated ranking: each entry names functions; size and location come from this run's data
    topres = []
    for spec, what, engine in top:
        n = 0; where = []; fns = []
        for part in spec.split(";"):
            rel, names = part.split(":", 1)
            names = names.split(","); lo, hi, k = 10 ** 9, 0, 0
            for r in files.get(rel, {}).get("uncovered", []):
                if r["fn"] in names: lo = min(lo, r["start"]); hi = max(hi, r["end"]); k += r["n"]
            if k: n += k; where.append(f"{rel}:{lo}-{hi}"); fns += [x for x in names if any(r["fn"] == x for r in files[rel]["uncovered"])]
        if n: topres.append({"where": where, "functions": fns, "uncovered_lines": n, "what": what, "extend": engine})
    topres.sort(key=lambda t: -t["uncovered_lines"])
    topres = topres[:25]

    # the merged export must agree with the union of the per-engine exports (each engine's own
    # profile on its own binary has no hash mismatches; see the note in phase_export)
    union = {}
    for e, fl in per_engine.items():
        for p, da in fl.items():
            u = union.setdefault(p, set()); u.update(ln for ln, c in da.items() if c > 0)
    consistent = all({ln for ln, c in da.items() if c > 0} == union.get(p, set()) for p, da in allc.items()) if per_engine else None
    if consistent is False: print("WARNING: merged coverage differs from the union of the per-engine exports")

    out = {"generated": time.strftime("%Y-%m-%d %H:%M:%S UTC", time.gmtime()), "repo_head": head,
           "toolchain": RUSTC_V, "seed": 1, "tier": "quick", "engines": status,
           "total": {"lines": tot, "covered": cov, "pct": round(100.0 * cov / max(tot, 1), 1)},
           "property_relevant": {"lines": rel_tot, "covered": rel_cov, "pct": round(100.0 * rel_cov / max(rel_tot, 1), 1)},
           "not_in_lib_build": not_compiled, "files": files, "uncovered_functions_ranked": fnrank[:80],
           "top": topres, "merged_equals_union_of_engines": consistent}
    json.dump(out, open(os.path.join(ROOT, "notes", "coverage.json"), "w"), indent=1)

    # ------------------------------------------------------------ markdown
    w = []
    w.append("# Coverage map of the verification engines over /repo/src\n")
    w.append(f"Generated by `tools/coverage.sh` ({out['generated']}); /repo at `{head}`; {RUSTC_V}, "
             "`-C instrument-coverage` on the whole dependency graph (harness profile kept: opt-level 1, "
             "rotonda-store without overflow checks), nightly's own `llvm-profdata` / `llvm-cov`. "
             f"Every engine named by `checks/C*.json` (`engine` + `extra_ties[].engine`, {len(ENGINES)} binaries) ran once with "
             "`--seed 1 --tier quick`. Machine-readable copy: `notes/coverage.json`.\n")
    w.append("Line = a source line carrying at least one coverage region of the rotonda **library** built with feature "
             "`verif-hooks` (what the harness links); covered = executed at least once by any engine. "
             "Excluded: `src/verif/`, `verif_hooks*.rs`, `src/tests/`, `tests.rs`, and (lexically) every item behind "
             "`#[cfg(test)]` or `#[cfg(feature = \"verif-hooks\")]`. Functions that no engine binary even instantiates "
             "still count (rustc emits zero-count records for them).\n")
    w.append(f"**Overall: {cov} / {tot} lines = {out['total']['pct']} %.** "
             f"Property-relevant files (anchored by properties.jsonl, plus comms/manager/config/http/metrics/payload/tracing, "
             f"targets/**, units/**): {rel_cov} / {rel_tot} = {out['property_relevant']['pct']} %.\n")
    if not_compiled:
        w.append("Not part of the instrumented library (no line data at all): " + ", ".join(f"`{x}`" for x in not_compiled) + ".\n")
    w.append("## Engine runs\n")
    w.append("| engine | status | s | cases | rotonda lines reached |\n|---|---|---:|---:|---:|")
    for s in status:
        n = sum(f["engines"].get(s["engine"], 0) for f in files.values())
        w.append(f"| {s['engine']} | {s['status']} | {s['seconds']} | {s['cases']} | {n} |")
    w.append("\n## Per file\n")
    w.append("`*` = property-relevant file (detailed below). Engines: those reaching the most lines of the file.\n")
    w.append("| file | lines | covered | % | engines (lines reached) |\n|---|---:|---:|---:|---|")
    for rel in sorted(files):
        f = files[rel]
        eng = sorted(f["engines"].items(), key=lambda kv: -kv[1])
        es = ", ".join(f"{e} {n}" for e, n in eng[:4]) + (f", +{len(eng) - 4}" if len(eng) > 4 else "")
        w.append(f"| {rel[4:]}{' *' if f['relevant'] else ''} | {f['lines']} | {f['covered']} | {f['pct']} | {es or '-'} |")
    w.append("\n## Uncovered ranges in the property-relevant files\n")
    w.append("`Lstart-end (n)` = n uncovered instrumented lines, no covered line in between, one function. "
             "Ordered by n. Ranges of fewer than 3 lines are folded into one line per file. "
             "Gist: curated where given, otherwise the first source line of the range in backticks.\n")
    for rel in sorted(files):
        f = files[rel]
        if not f["relevant"] or not f["uncovered"]: continue
        w.append(f"### {rel} ({f['covered']}/{f['lines']}, {f['pct']} %)\n")
        small = []
        for r in f["uncovered"]:
            if r["n"] < 3 and not r["gist"]:
                small.append(f"{r['start']}" + (f"-{r['end']}" if r["end"] != r["start"] else "") + f" {r['fn'].split('::')[-1]}")
                continue
            g = r["gist"] or ("`" + r["first"].replace("|", "\\|") + "`")
            w.append(f"- L{r['start']}-{r['end']} ({r['n']}) `{r['fn']}` - {g}")
        if small: w.append(f"- small (<3 lines, {len(small)}): " + "; ".join(small))
        w.append("")
    w.append("## Largest never-executed pieces of property-relevant logic\n")
    w.append("Curated (Debug/Display impls, trace-log text and dead helpers left out), ranked by the uncovered lines of the "
             "named functions in this run. Lines = span of their uncovered ranges.\n")
    for i, t in enumerate(topres, 1):
        fns = list(dict.fromkeys(t["functions"]))
        fl = ", ".join(f"`{x}`" for x in fns[:5]) + (f", +{len(fns) - 5} more" if len(fns) > 5 else "")
        w.append(f"{i}. **{'; '.join(t['where'])}** ({t['uncovered_lines']} lines) {fl} - {t['what']} **Extend:** {t['extend']}.")
    if not topres:
        for i, x in enumerate(fnrank[:25], 1):
            w.append(f"{i}. `{x['file']}:{x['lo']}-{x['hi']}` `{x['fn']}` ({x['n']} lines)")
    w.append("")
    open(os.path.join(ROOT, "notes", "Coverage.md"), "w").write("\n".join(w))
    print(f"overall {cov}/{tot} = {out['total']['pct']} %; relevant {rel_cov}/{rel_tot} = {out['property_relevant']['pct']} %")


main()
# REPORT-PY-END
__REPORT_PY__

: <<'__ANNOTATIONS__'
# ANNOTATIONS-BEGIN
# Curated gists and ranking for notes/Coverage.md (tab separated; matched against the coverage data of the run).
# G <file> <function or *> <first 50 chars of the first uncovered source line, or *> <gist>
#   lookup order: (file, fn, first line) -> (file, fn, *) -> (file, *, first line)
# T <file:fn,fn;file:fn...> <what it does> <engine to extend>     (ranked by uncovered lines at report time)
G	src/comms.rs	*	let clone_txt = if self.is_clone() {	trace-level log text of the gate (only evaluated with Trace logging enabled)
G	src/comms.rs	*	let clone_txt = format!("{clone_id} clone of ");	trace-level log text of a clone detaching (Trace logging only)
G	src/comms.rs	Gate::wait	*	timed wait: keep running `process()` until `secs` elapsed; Err on termination (no caller in the engines)
G	src/comms.rs	Gate::update_data	for payload in update.trace_ids() {	tracing: note "sent by queue" gate event for every payload carrying a trace id
G	src/comms.rs	Gate::update_data	tracer.note_gate_event(	tracing: note "sent by direct update" gate event for every payload carrying a trace id
G	src/comms.rs	Link::query_suspended	*	suspended link: connect(suspended=true), drain updates until a UnitStatus error or sender gone (-> Gone)
G	src/comms.rs	Link::fmt	*	Debug output of a Link
G	src/comms.rs	GateStatus::fmt	*	Display name of a GateStatus (used in status-reporter log lines)
G	src/comms.rs	UnitStatus::fmt	*	Display name of a UnitStatus
G	src/comms.rs	GateCommand::fmt	*	Display name of a GateCommand (only used in Trace log lines)
G	src/comms.rs	Link::query	*	queue link: upstream reported a UnitStatus error -> record and return it
G	src/config.rs	Config::config_args	*	clap: the required `-c/--config PATH` argument + log arguments
G	src/config.rs	Config::from_arg_matches	*	CLI entry: read the config file named on the command line, `Manager::load`, apply log args, finalise
G	src/config.rs	Config::from_config_file	*	reload entry: `Manager::load` of an already read ConfigFile, then finalise
G	src/config.rs	Config::finalise	*	switch logging to the configured target, then `Manager::prepare`; returns (source, config)
G	src/config.rs	Marked::format_mark	*	"path:line:col" prefix of a marked config value in error messages
G	src/config.rs	Marked::from	*	Spanned<T> -> Marked<T> (TOML span start as index)
G	src/config.rs	Marked::fmt	*	Display of a marked value: mark + value
G	src/config.rs	ConfigFile::load	*	read a config file from disk
G	src/config.rs	ConfigError::new	*	TOML error -> ConfigError with resolved line/col
G	src/config.rs	ConfigError::fmt	*	Display of a config parse error (mark + TOML message)
G	src/http.rs	Server::run	*	production HTTP server start: bind every `http_listen` address (fatal on error), non-blocking, spawn one listener task each
G	src/http.rs	Server::single_listener	*	per-listener hyper server: service_fn -> `handle_request`, access-log line at Trace, listener/serve errors logged
G	src/http.rs	Resources::resources	*	registered processors that are not sub-resources
G	src/http.rs	Resources::resources_for_component_type	*	non-sub-resource processors of one component type (router-info page links prefixes to "rib" endpoints)
G	src/http.rs	Resources::fmt	*	Debug of Resources
G	src/http.rs	HttpAccept::poll_accept	*	hyper Accept over the tokio TcpListener
G	src/http.rs	HttpStream::poll_read	*	AsyncRead passthrough to the TcpStream
G	src/http.rs	HttpStream::poll_write	*	AsyncWrite passthrough to the TcpStream
G	src/http.rs	HttpStream::poll_flush	*	AsyncWrite flush passthrough
G	src/http.rs	HttpStream::poll_shutdown	*	AsyncWrite shutdown passthrough
G	src/ingress.rs	Register::overview	*	debug text table of all registered ingresses (id, ASN, address)
G	src/manager.rs	LinkReport::get_svg	arrow.look = StyleAttr::new(	/status/graph: link drawn blue when the selected trace has messages on that gate
G	src/manager.rs	UpstreamLinkReport::fmt	*	Debug of an upstream link report
G	src/manager.rs	UpstreamLinkReport::set_source	*	link report of a component with exactly one upstream (used by file-out)
G	src/manager.rs	TargetCommand::fmt	*	Display name of a TargetCommand
G	src/manager.rs	Manager::prepare	for mut link in load.links {	config rejected: a link names a unit that does not exist -> "unresolved link" error per link, Terminate
G	src/manager.rs	Manager::compile_roto_script	*	success path of compiling the configured roto script with the real runtime and storing it
G	src/manager.rs	Coordinator::wait_internal	*	slow start-up: after the alarm duration report the components still pending, then keep waiting
G	src/manager.rs	LoadUnit::from	*	LoadUnit for a unit whose gate was already taken (agent only)
G	src/manager.rs	get_queue_size_for_link	*	`unit:queue-len` link syntax: unparsable length -> warn and fall back to the default
G	src/metrics.rs	MetricUnit::try_from	*	parse a metric unit name ("s", "ms", "bytes", "total", ...)
G	src/metrics.rs	OutputFormat::allows_text	*	whether the output format may carry text metrics
G	src/metrics.rs	Collection::fmt	*	Debug of the metrics collection
G	src/payload.rs	RotondaRoute::fmt	*	Display of IPv6-unicast / multicast routes
G	src/payload.rs	RotondaPaMap::serialize	PathAttribute::Ipv6ExtendedCommunities(list) => {	JSON: IPv6 extended communities folded into the `communities` array
G	src/payload.rs	Update::from	*	Payload / [Payload; N] -> Update::Single / Update::Bulk
G	src/roto_runtime/runtime.rs	fmt_asn	*	roto `Asn.fmt()`
G	src/roto_runtime/runtime.rs	rr_contains_large_community	*	roto `RotondaRoute.contains_large_community(lc)`
G	src/roto_runtime/runtime.rs	rr_fmt_aspath	*	roto `RotondaRoute.fmt_aspath()`: AS_PATH as space separated ASNs
G	src/roto_runtime/runtime.rs	rr_fmt_aspath_origin	*	roto `RotondaRoute.fmt_aspath_origin()`
G	src/roto_runtime/runtime.rs	rr_fmt_communities	*	roto `RotondaRoute.fmt_communities()`: standard communities joined by ", "
G	src/roto_runtime/runtime.rs	rr_fmt_large_communities	*	roto `RotondaRoute.fmt_large_communities()`
G	src/roto_runtime/runtime.rs	bgp_contains_large_community	*	roto `BgpMsg.contains_large_community(lc)`
G	src/roto_runtime/runtime.rs	bgp_announcements_count	*	roto `BgpMsg.announcements_count()`
G	src/roto_runtime/runtime.rs	bgp_withdrawals_count	*	roto `BgpMsg.withdrawals_count()`
G	src/roto_runtime/runtime.rs	bgp_fmt_aspath	*	roto `BgpMsg.fmt_aspath()`
G	src/roto_runtime/runtime.rs	bgp_fmt_aspath_origin	*	roto `BgpMsg.fmt_aspath_origin()`
G	src/roto_runtime/runtime.rs	bgp_fmt_communities	*	roto `BgpMsg.fmt_communities()`
G	src/roto_runtime/runtime.rs	bgp_fmt_large_communities	*	roto `BgpMsg.fmt_large_communities()`
G	src/roto_runtime/runtime.rs	bgp_fmt_pcap	*	roto `BgpMsg.fmt_pcap()`: hex dump for Wireshark import
G	src/roto_runtime/runtime.rs	bmp_contains_large_community	*	roto `BmpMsg.contains_large_community(lc)`: only RouteMonitoring with a parsable UPDATE can match
G	src/roto_runtime/runtime.rs	bmp_announcements_count	*	roto `BmpMsg.announcements_count()` (0 unless RouteMonitoring parses)
G	src/roto_runtime/runtime.rs	bmp_withdrawals_count	*	roto `BmpMsg.withdrawals_count()`
G	src/roto_runtime/runtime.rs	bmp_fmt_aspath	*	roto `BmpMsg.fmt_aspath()`
G	src/roto_runtime/runtime.rs	bmp_fmt_aspath_origin	*	roto `BmpMsg.fmt_aspath_origin()`
G	src/roto_runtime/runtime.rs	bmp_fmt_communities	*	roto `BmpMsg.fmt_communities()`
G	src/roto_runtime/runtime.rs	bmp_fmt_large_communities	*	roto `BmpMsg.fmt_large_communities()`
G	src/roto_runtime/runtime.rs	bmp_fmt_pcap	*	roto `BmpMsg.fmt_pcap()`
G	src/roto_runtime/runtime.rs	print	*	roto `Log.print(msg)`: message onto the output stream
G	src/roto_runtime/runtime.rs	entry	*	roto `Log.entry()`: start a LogEntry on the output stream
G	src/roto_runtime/runtime.rs	custom	*	roto `LogEntry.custom(msg)`: custom text replaces the built-in fields
G	src/roto_runtime/runtime.rs	origin_as	*	roto `LogEntry.origin_as(bmp_msg)`: origin ASN of the UPDATE inside a RouteMonitoring
G	src/roto_runtime/runtime.rs	peer_as	*	roto `LogEntry.peer_as(bmp_msg)`: ASN of the per-peer header
G	src/roto_runtime/runtime.rs	as_path_hops	*	roto `LogEntry.as_path_hops(bmp_msg)`: number of AS_PATH hops
G	src/roto_runtime/runtime.rs	conventional_reach	*	roto `LogEntry.conventional_reach(bmp_msg)`: count of conventional announcements
G	src/roto_runtime/runtime.rs	conventional_unreach	*	roto `LogEntry.conventional_unreach(bmp_msg)`: count of conventional withdrawals
G	src/roto_runtime/runtime.rs	mp_reach	*	roto `LogEntry.mp_reach(bmp_msg)`: AFI/SAFI + count of MP_REACH announcements
G	src/roto_runtime/runtime.rs	mp_unreach	*	roto `LogEntry.mp_unreach(bmp_msg)`: AFI/SAFI + count of MP_UNREACH withdrawals
G	src/roto_runtime/runtime.rs	log_all	*	roto `LogEntry.log_all(bmp_msg)`: all built-in fields at once (peer AS, hops, origin, reach/unreach counts)
G	src/roto_runtime/runtime.rs	contains_large_community	*	helper: any large community of the UPDATE equals the wanted one
G	src/roto_runtime/runtime.rs	announcements_count	*	helper: number of announcements of an UPDATE (0 on parse error, saturating u32)
G	src/roto_runtime/runtime.rs	withdrawals_count	*	helper: number of withdrawals of an UPDATE
G	src/roto_runtime/runtime.rs	fmt_aspath	*	helper: AS_PATH of an UPDATE formatted, "" if absent
G	src/roto_runtime/runtime.rs	_fmt_aspath	*	helper: single-sequence AS_PATH as "a b c"; other shapes via Display (+ eprintln)
G	src/roto_runtime/runtime.rs	fmt_aspath_origin	*	helper: origin ASN of the UPDATE's AS_PATH
G	src/roto_runtime/runtime.rs	_fmt_aspath_origin	*	helper: origin hop -> ASN string, "" if not an ASN
G	src/roto_runtime/runtime.rs	fmt_communities	*	helper: standard communities joined by ", "
G	src/roto_runtime/runtime.rs	fmt_large_communities	*	helper: large communities joined by ", "
G	src/roto_runtime/runtime.rs	fmt_pcap	*	helper: "000000 " + hex bytes
G	src/roto_runtime/types.rs	RouteContext::new	*	fresh RouteContext from an UPDATE + status + provenance
G	src/roto_runtime/types.rs	RouteContext::ingress_id	*	ingress id of a Fresh/Mrt context (`todo!()` for Reprocess)
G	src/roto_runtime/types.rs	PeerRibType::fmt	*	Display of the BMP peer RIB type (OutPost prints "adj-RIB-out-pre")
G	src/roto_runtime/types.rs	OutputStreamMessageRecord::into_timestamped	*	wrap an output-stream record with a given timestamp
G	src/roto_runtime/types.rs	TimestampedOSMR::from	*	wrap an output-stream record / message with the current time
G	src/targets/file/target.rs	FileRunner::run	Either::Left((gate_cmd, _)) => {	file-out command arm: Reconfigure (warn: not implemented), ReportLinks (set_source), Terminate / channel closed -> leave the loop
G	src/targets/mod.rs	Target::run	*	production dispatch `Target::File/Mqtt -> run` (engines start the runners directly)
G	src/targets/mqtt/connection.rs	EventLoop::set_network_options	*	rumqttc EventLoop passthrough (the engines use a scripted event loop)
G	src/targets/mqtt/connection.rs	Connection::process	self.status_reporter.connection_error(err);	event-loop task join error -> connection_error + disconnect; state Stopped is a no-op; returns None
G	src/targets/mqtt/error.rs	MqttError::fmt	*	Display of an MQTT publish error / "MQTT Timeout"
G	src/targets/mqtt/metrics.rs	MqttMetrics::status_text	*	/status/graph label of the mqtt target: in-flight / published / errors, or "N/A" when not connected
G	src/targets/mqtt/metrics.rs	MqttMetrics::append	*	Prometheus output of the mqtt target: connection state/lost/error counts, in-flight, publish errors, per-topic publish counts
G	src/targets/mqtt/target.rs	Mqtt::run	*	production entry: MqttRunner with the real rumqttc client
G	src/targets/mqtt/target.rs	MqttRunner::run	*	connect as direct-update receiver to every source, wait at the waitpoint, enter do_run
G	src/targets/mqtt/target.rs	MqttRunner::process_events	Some(TargetCommand::Reconfigure { .. }) => unreachable!(),	ReportLinks command: report sources + graph status
G	src/targets/mqtt/target.rs	MqttRunner::reconfigure	*	reconfigure with live sources: log source change, replace the sources and reconnect to them
G	src/targets/mqtt/target.rs	MqttRunner::do_publish	*	no client: test-publish hook after a delay, else Ok
G	src/targets/mqtt/target.rs	MqttRunner::connect	*	real ConnectionFactory: MqttOptions from config (client id, host/port, queue capacity, clean session, inflight 1000, keep-alive 20 s, credentials)
G	src/tracing.rs	Tracer::note_gate_event	*	append a GATE-related message to a trace
G	src/tracing.rs	BoundTracer::note_event	*	append a component message to a trace for the bound gate
G	src/units/bgp_tcp_in/metrics.rs	BgpTcpInMetrics::status_text	*	/status/graph label of the BGP unit ("out: n")
G	src/units/bgp_tcp_in/metrics.rs	BgpTcpInMetrics::append	*	Prometheus output of the BGP unit: gate metrics, listener bound / accepted / lost / disconnect counts
G	src/units/bgp_tcp_in/peer_config.rs	PrefixOrExact::contains	*	does a peer key (exact address or prefix) contain an address
G	src/units/bgp_tcp_in/peer_config.rs	PrefixOrExact::from	*	Prefix / IpAddr -> peer key
G	src/units/bgp_tcp_in/peer_config.rs	PeerConfig::eq	*	peer configs equal iff remote_asn and hold_time equal (decides reconnect on reconfigure)
G	src/units/bgp_tcp_in/router_handler.rs	Processor::process	new_config: Unit::BgpTcpIn(new_unit),	live session on Reconfigure: unit config changed -> Disconnect(Reconfiguration); own peer config changed -> Disconnect; peer removed -> Disconnect(Deconfigured); ReportLinks -> declare_source
G	src/units/bgp_tcp_in/router_handler.rs	Processor::process	session.negotiated()	debug-log arguments of "Connection lost" (Debug logging only)
G	src/units/bgp_tcp_in/router_handler.rs	Processor::print_pcap	*	dead helper: hex dump to stdout
G	src/units/bgp_tcp_in/router_handler.rs	Processor::mk_payload	*	dead inner helper building a Payload from a route
G	src/units/bgp_tcp_in/router_handler.rs	handle_connection	Err(ref e)	outgoing PDU write: WouldBlock ignored, any other error logged and the writer loop ends
G	src/units/bgp_tcp_in/unit.rs	BgpTcpIn::eq	*	unit configs equal iff listen, my_asn, my_bgp_id equal (decides "reconnect all peers")
G	src/units/bgp_tcp_in/unit.rs	BgpTcpIn::run	*	production entry: register metrics, status reporter, wait at the waitpoint, run with the standard TCP listener factory
G	src/units/bgp_tcp_in/unit.rs	BgpTcpInRunner::run	let mut c = c.lock().unwrap();	look up the `bgp-in` filter in the compiled roto script (engines install filters through hooks)
G	src/units/bgp_tcp_in/unit.rs	BgpTcpInRunner::run	Err(err) => {	bind failure: report, sleep, double the wait, retry
G	src/units/bgp_tcp_in/unit.rs	BgpTcpInRunner::process_until	match status {	unit on Reconfigure: store the new config, trigger a re-bind when `listen` changed; ReportLinks -> declare source + graph status
G	src/units/bgp_tcp_in/unit.rs	BgpTcpInRunner::direct_update	*	"bgp-in as a target is not supported" error
G	src/units/bmp_tcp_in/http/router_info/request.rs	RouterInfoApi::process_request	*	router-info page for a router in state Updating (sysName/sysDescr/extra + peer states)
G	src/units/bmp_tcp_in/http/router_info/response.rs	RouterInfoApi::build_response_body	*	peer detail: one line per announced prefix with links to every "rib" HTTP endpoint
G	src/units/bmp_tcp_in/http/router_list/request.rs	RouterListApi::sort_routers	details,	router list: sort keys of a router in state Updating
G	src/units/bmp_tcp_in/io.rs	BmpStream::next	*	internal error: stream polled without a receiver
G	src/units/bmp_tcp_in/router_handler.rs	RouterHandler::read_from_router	*	state machine aborted while processing: connection_aborted, drop router metrics, end the read loop
G	src/units/bmp_tcp_in/router_handler.rs	RouterHandler::process_msg	*	state `_Aborted` -> Err(router id, "Aborted")
G	src/units/bmp_tcp_in/state_machine/machine.rs	PeerState::fmt	*	Debug of a PeerState
G	src/units/bmp_tcp_in/state_machine/machine.rs	BmpState::_ingress_id	*	ingress id of a state (unused)
G	src/units/bmp_tcp_in/state_machine/machine.rs	BmpStateDetails::route_monitoring	self.status_reporter.bgp_update_parse_soft_fail(	UPDATE parsed only after flipping the 4-octet-ASN assumption: count a soft failure, keep the corrected session config for this peer
G	src/units/bmp_tcp_in/state_machine/machine.rs	BmpStateDetails::route_monitoring	Err(err) => {	UPDATE header parses but an NLRI element does not: invalid-message result with the raw bytes
G	src/units/bmp_tcp_in/state_machine/machine.rs	BmpState::process_msg	*	message for an `_Aborted` state: stays Aborted
G	src/units/bmp_tcp_in/state_machine/machine.rs	PeerStates::update_peer_config	*	replace a peer's session config and peer details (only reached from the soft-fail path)
G	src/units/bmp_tcp_in/state_machine/machine.rs	PeerStates::add_announced_prefix	*	per-peer announced-NLRI set: insert (no caller)
G	src/units/bmp_tcp_in/state_machine/machine.rs	PeerStates::remove_announced_prefix	*	per-peer announced-NLRI set: remove (no caller)
G	src/units/bmp_tcp_in/state_machine/metrics.rs	ParseErrorsRingBuffer::get	*	parse-error ring buffer read after wrap-around (oldest first), or empty when unlockable
G	src/units/bmp_tcp_in/state_machine/states/dumping.rs	*	*	PeerAware passthrough to PeerStates (see machine.rs)
G	src/units/bmp_tcp_in/state_machine/states/updating.rs	*	*	PeerAware passthrough to PeerStates (see machine.rs)
G	src/units/bmp_tcp_in/state_machine/states/terminated.rs	BmpStateDetails::from	*	Initiating -> Terminated transition (Termination before any Initiation completes)
G	src/units/bmp_tcp_in/state_machine/status_reporter.rs	BmpStateMachineStatusReporter::bgp_update_parse_soft_fail	*	metric `num_bgp_updates_reparsed_due_to_incorrect_header_flags` + parse-error ring entry
G	src/units/bmp_tcp_in/status_reporter.rs	BmpTcpInStatusReporter::router_connection_aborted	*	warn + connection_lost_count + remove the router's metrics
G	src/units/bmp_tcp_in/unit.rs	TracingMode::from_str	*	parse "on" / "ifrequested" / "off" (case-insensitive)
G	src/units/bmp_tcp_in/unit.rs	TracingMode::fmt	*	Display of the tracing mode
G	src/units/bmp_tcp_in/unit.rs	BmpTcpInRunner::run	let mut c = c.lock().unwrap();	look up the `bmp-in` filter in the compiled roto script
G	src/units/bmp_tcp_in/unit.rs	BmpTcpInRunner::run	Err(err) => {	bind failure: report, sleep, double the wait, retry
G	src/units/bmp_tcp_in/unit.rs	BmpTcpInRunner::setup_router_specific_api_endpoint	*	"router info does not exist" internal error
G	src/units/filter/metrics.rs	RotoFilterMetrics::router_metrics	*	per-ingress filter metrics entry (get or create)
G	src/units/filter/metrics.rs	RotoFilterMetrics::new	*	filter metrics bound to the gate's metrics
G	src/units/filter/metrics.rs	RotoFilterMetrics::append	*	Prometheus output of the filter unit: gate metrics, filtered-message count per ingress and total
G	src/units/filter/status_reporter.rs	RotoFilterStatusReporter::new	*	status reporter of the filter unit
G	src/units/filter/status_reporter.rs	RotoFilterStatusReporter::message_filtered	*	count a filtered message per ingress and in total
G	src/units/filter/unit.rs	Filter::run	*	production entry of the filter unit
G	src/units/filter/unit.rs	RotoFilterRunner::new	*	production constructor: metrics, status reporter, tracer from the Component
G	src/units/filter/unit.rs	RotoFilterRunner::run	*	filter unit main loop: connect to sources, waitpoint, then per gate status: Reconfigure (new filter name, new sources, reconnect), ReportLinks, Terminated
G	src/units/mrt_file_in/unit.rs	MrtInRunner::process_until	*	gate status while a file is processed: Active/Dormant ignored, Reconfigure (reload of a new filename is commented out) ignored
G	src/units/rib_unit/http/request.rs	PrefixesApi::handle_prefix_query	Err(e) => {	500 "Cannot query non-existent RIB store" when match_prefix fails
G	src/units/rib_unit/http/request.rs	PrefixesApi::handle_prefix_query	Ok(Err(err)) => {	500 responses for a failed / panicked query task
G	src/units/rib_unit/http/request.rs	PrefixesApi::handle_ingress_id_query	*	per-ingress query body: prefix line + one JSON line per route
G	src/units/rib_unit/http/response.rs	PrefixesApi::sort_results	*	`sort_by` comparator: walk the JSON pointers, missing < present, ties broken by the next key
G	src/units/rib_unit/http/response.rs	PrefixesApi::cmp_json_values	*	ordering of two JSON values of the same type (numbers, strings, lexicographic arrays; mixed types -> Less)
G	src/units/rib_unit/http/response.rs	PrefixesApi::match_community	*	community filter on extended / IPv6-extended community attributes
G	src/units/rib_unit/rib.rs	Rib::new_virtual	*	a virtual RIB: no stores
G	src/units/rib_unit/rib.rs	Rib::store	*	the unicast store or StoreNotReadyError
G	src/units/rib_unit/statistics.rs	CumAvg::add	*	cumulative average update
G	src/units/rib_unit/statistics.rs	TimingBuckets::fmt	*	Display of the timing buckets
G	src/units/rib_unit/statistics.rs	RibMergeUpdateStatistics::add	*	merge-update timing: pick withdraw/other bucket, size class le1..leInf, add to its cumulative average
G	src/units/rib_unit/statistics.rs	RibMergeUpdateStatistics::fmt	*	Display of the merge-update statistics
G	src/units/rib_unit/status_reporter.rs	RibUnitStatusReporter::update_ok	*	record last_update_duration, then insert_or_update (no caller: process_update calls insert_or_update directly)
G	src/units/rib_unit/status_reporter.rs	RibUnitStatusReporter::insert_or_update	| StoreInsertionEffect::RoutesRemoved(0) => {	withdrawal of nothing: `num_route_withdrawals_without_announcement` += 1
G	src/units/rib_unit/status_reporter.rs	RibUnitStatusReporter::insert_or_update	StoreInsertionEffect::RoutesRemoved(n) => {	n routes removed: announced and item counts -= n
G	src/units/rib_unit/status_reporter.rs	RibUnitStatusReporter::unique_prefix_count_updated	*	store `num_unique_prefixes`
G	src/units/rib_unit/unit.rs	InsertionInfo::from	*	UpsertReport -> InsertionInfo
G	src/units/rib_unit/unit.rs	RibUnitRunner::new	let mut c = c.lock().unwrap();	look up the `rib-in-pre` filter in the compiled roto script
G	src/units/rib_unit/unit.rs	RibUnitRunner::reprocess_query_results	let (mui, ltime, status) =	virtual RIB: re-filter every exact-match record of an upstream query result
G	src/units/rib_unit/unit.rs	RibUnitRunner::reprocess_query_results	let is_out_prefix_meta_set =	Trace log of how many results the re-filtering discarded
G	src/units/rib_unit/unit.rs	RibUnitRunner::reprocess_rib_value	*	virtual RIB: re-run the filter on one stored value - ends in `todo!()`
G	src/units/rib_unit/unit.rs	RibUnitRunner::reprocess_record_set	*	virtual RIB: re-filter a less/more-specifics record set
T	src/roto_runtime/runtime.rs:log_all,origin_as,peer_as,as_path_hops,conventional_reach,conventional_unreach,mp_reach,mp_unreach,custom,entry,print	roto `Log` / `LogEntry` methods: what a filter writes to the output stream about a BMP message (peer AS, origin AS, hop count, conventional / MP reach and unreach counts, custom text). None is ever called by a generated program.	c10 (add the Log/LogEntry methods to the program grammar; rotorib / c17 for the stream that leaves the unit)
T	src/roto_runtime/runtime.rs:bgp_contains_large_community,bgp_announcements_count,bgp_withdrawals_count,bgp_fmt_aspath,bgp_fmt_aspath_origin,bgp_fmt_communities,bgp_fmt_large_communities,bgp_fmt_pcap,contains_large_community,announcements_count,withdrawals_count,fmt_aspath,_fmt_aspath,fmt_aspath_origin,_fmt_aspath_origin,fmt_communities,fmt_large_communities,fmt_pcap,fmt_asn	roto methods on a BGP UPDATE (`contains_large_community`, `announcements_count`, `withdrawals_count`, `fmt_*`) and the shared helpers behind them (AS_PATH / community formatting, saturating counts).	c10 (bare compiled functions on generated UPDATEs)
T	src/roto_runtime/runtime.rs:bmp_contains_large_community,bmp_announcements_count,bmp_withdrawals_count,bmp_fmt_aspath,bmp_fmt_aspath_origin,bmp_fmt_communities,bmp_fmt_large_communities,bmp_fmt_pcap	the same roto methods on a BMP message: only a RouteMonitoring whose UPDATE parses under `session_config_for` yields anything, everything else 0 / "" / false.	c10 (bmp-in verdict handler cases)
T	src/roto_runtime/runtime.rs:rr_contains_large_community,rr_fmt_aspath,rr_fmt_aspath_origin,rr_fmt_communities,rr_fmt_large_communities	roto methods on a `RotondaRoute` (the rib-in-pre input): large-community match and AS_PATH / community formatting from the owned attribute map.	rotorib (rib-in-pre programs), c10
T	src/http.rs:Server::run,Server::single_listener,HttpAccept::poll_accept,HttpStream::poll_read,HttpStream::poll_write,HttpStream::poll_flush,HttpStream::poll_shutdown,HttpStream::sock	the production HTTP server: bind all `http_listen` addresses (fatal on failure), one hyper server per listener, per-connection service -> `handle_request`, access log. Every engine calls `handle_request` / the processors directly.	httppages (already runs a real pipeline over loopback TCP: send the requests through the real listener), c12
T	src/units/filter/unit.rs:RotoFilterRunner::run,RotoFilterRunner::new,Filter::run	the filter unit's run loop: connect to the sources, waitpoint, Reconfigure (new filter name, new sources, reconnect), ReportLinks, termination. Only `process_update` / `direct_update` are driven (through the hooks constructor).	rotorib (reconfunits exists in harness/src/bin but is not attached to a check)
T	src/units/filter/metrics.rs:RotoFilterMetrics::append,RotoFilterMetrics::router_metrics,RotoFilterMetrics::new;src/units/filter/status_reporter.rs:RotoFilterStatusReporter::message_filtered,RotoFilterStatusReporter::new	the filter unit's metrics: filtered-message counters per ingress and in total, and their Prometheus output.	rotorib (count rejects), connmetrics for the Prometheus text
T	src/units/bgp_tcp_in/router_handler.rs:Processor::process	a live BGP session receiving `Reconfiguring`: unit config changed -> Disconnect(Reconfiguration); this peer's config changed -> Disconnect; peer removed from the config -> Disconnect(Deconfigured); ReportLinks.	bgpin (add reconfigure events to the connection history; reconfunits / bgpmetrics exist but are not attached)
T	src/units/bgp_tcp_in/unit.rs:BgpTcpInRunner::process_until,BgpTcpIn::eq	the BGP unit receiving `Reconfiguring`: store the new config, force a re-bind when `listen` changed; ReportLinks; config equality that decides "reconnect everybody".	bgpin, gatereconf for the gate side
T	src/units/bgp_tcp_in/unit.rs:BgpTcpIn::run	production entry of the BGP unit: metrics registration with the Component, status reporter, waitpoint handshake, standard listener factory.	httppages (add a bgp-tcp-in unit to the running pipeline), c13
T	src/units/bgp_tcp_in/metrics.rs:BgpTcpInMetrics::append,BgpTcpInMetrics::status_text	Prometheus output and /status/graph label of the BGP unit (listener bound, accepted, lost, disconnect counts).	connmetrics (Prometheus clause) with a BGP unit; bgpmetrics (not attached)
T	src/targets/mqtt/metrics.rs:MqttMetrics::append,MqttMetrics::status_text,MqttMetrics::okay	Prometheus output and graph label of the mqtt target: connection state, lost / error counts, in-flight, publish errors, per-topic publish counts.	mqttconn (it drives every counter but never renders them)
T	src/targets/mqtt/target.rs:MqttRunner::connect,MqttRunner::run,Mqtt::run	production start of mqtt-out: MqttOptions from the config (client id, credentials, keep-alive, queue capacity), connect to sources as direct-update receiver, waitpoint, do_run.	mqttconn (real factory against a loopback TCP listener), c17
T	src/units/rib_unit/http/response.rs:PrefixesApi::cmp_json_values,PrefixesApi::sort_results	`sort_by=<json pointers>` of the RIB query API: comparator over JSON pointers, missing < present, value ordering per JSON type, lexicographic arrays.	c11 (add `sort_by` to the generated query strings)
T	src/units/rib_unit/unit.rs:RibUnitRunner::reprocess_query_results,RibUnitRunner::reprocess_record_set,RibUnitRunner::reprocess_rib_value	virtual-RIB query path: re-filter an upstream query result record by record; `reprocess_rib_value` ends in `todo!()`, so a query through a vRIB with a non-empty result panics.	c11 (query a virtual RIB east of a physical one), c13 for the vRIB config shorthand
T	src/config.rs:Config::from_arg_matches,Config::finalise,Config::config_args,Config::from_config_file,ConfigFile::load	start-up / reload path around `Manager::load`: command line -> config file from disk -> load -> switch logging -> `prepare`.	c13 (it calls ConfigFile::new -> load -> prepare itself; go through `Config::from_config_file`)
T	src/config.rs:Marked::format_mark,Marked::fmt,ConfigError::new,ConfigError::fmt,Marked::from	position marks of config errors: "path:line:col: message" for rejected documents and unresolved links.	c13 (compare the error text of rejected documents)
T	src/units/rib_unit/http/request.rs:PrefixesApi::handle_prefix_query,PrefixesApi::handle_ingress_id_query	RIB query API error paths (500 when the store is missing or the query task fails) and the per-ingress listing body.	c11
T	src/units/rib_unit/statistics.rs:RibMergeUpdateStatistics::add,CumAvg::add,RibMergeUpdateStatistics::fmt,TimingBuckets::fmt,CumAvg::fmt	merge-update timing statistics: withdraw / other buckets by hash-set size class with cumulative averages (no live caller).	ribmetrics
T	src/units/rib_unit/status_reporter.rs:RibUnitStatusReporter::update_ok,RibUnitStatusReporter::insert_or_update,RibUnitStatusReporter::unique_prefix_count_updated	RIB metrics arms never taken: `update_ok` (last_update_duration), withdrawals without announcement (RoutesWithdrawn(0) / RoutesRemoved(0)), RoutesRemoved(n), unique prefix count.	ribmetrics
T	src/units/bmp_tcp_in/state_machine/machine.rs:BmpStateDetails::route_monitoring,PeerStates::update_peer_config;src/units/bmp_tcp_in/state_machine/status_reporter.rs:BmpStateMachineStatusReporter::bgp_update_parse_soft_fail	RouteMonitoring whose UPDATE only parses after flipping the 4-octet-ASN assumption: soft-fail metric, corrected session config kept for the peer; and the "NLRI element unparsable" invalid-message result.	c05 / c15 (2-octet-AS peers announced as 4-octet and vice versa), c04 for the NLRI damage
T	src/units/bmp_tcp_in/state_machine/machine.rs:PeerStates::add_announced_prefix,PeerStates::remove_announced_prefix;src/units/bmp_tcp_in/state_machine/states/dumping.rs:Dumping::add_announced_prefix,Dumping::remove_announced_prefix,Dumping::get_announced_prefixes;src/units/bmp_tcp_in/state_machine/states/updating.rs:Updating::add_announced_prefix,Updating::remove_announced_prefix,Updating::get_announced_prefixes;src/units/bmp_tcp_in/http/router_info/response.rs:RouterInfoApi::build_response_body	per-peer announced-NLRI bookkeeping and its rendering on the router-info page (prefix lines with links to the RIB endpoints). add/remove have no live caller (the call sites sit in a commented-out block), so the page's prefix list is always empty.	c19 / httppages
T	src/targets/file/target.rs:FileRunner::run	file-out command handling: Reconfigure (warn, not implemented), ReportLinks, Terminate, command channel closed.	c17 (file cases: send commands while streaming)
T	src/comms.rs:Link::query_suspended,Gate::wait	suspended-link query loop (drain until UnitStatus error / Gone) and the timed gate wait.	c08 / gatereconf
T	src/comms.rs:Gate::update_data;src/tracing.rs:Tracer::note_gate_event,BoundTracer::note_event	tracing of payloads that carry a trace id through a gate (queue and direct update) into the Tracer: no engine ever sends a traced payload through a real gate.	httppages (tracing is on there: send a traced BMP message), c12 for /status/traces
T	src/units/mrt_file_in/unit.rs:MrtInRunner::process_until,MrtInRunner::process_file,MrtInRunner::process_message	mrt-file-in: gate status during a file (Reconfigure ignored, reload commented out) and the decompression / parse error arms of process_file.	c16 / pipemrt (damaged gz / bz2 input, reconfigure while importing)
T	src/manager.rs:Coordinator::wait_internal,Manager::prepare,Manager::compile_roto_script,get_queue_size_for_link	manager corners: slow-start-up alarm, "unresolved link" rejection, success path of compiling the configured roto script, invalid `unit:queue-len`.	c13 (c10 compiles like `compile_roto_script` but does not call it)
# ANNOTATIONS-END
__ANNOTATIONS__
