#!/bin/sh
# tools/seed_wt.sh <seed-id>: scratch worktree of /repo HEAD with a warm target dir for a seed-writing sub-agent
set -e
SID=$1; WT=/tmp/seedwt/$SID
mkdir -p /tmp/seedwt /tmp/seedout
git -C /repo worktree prune
rm -rf $WT
git -C /repo worktree add -q --detach $WT HEAD
cp -r /repo/target $WT/target 2>/dev/null || true
echo $WT
