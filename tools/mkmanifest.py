#!/usr/bin/env python3
"""Regenerate /verif/MANIFEST.json from checks/*.json (one file per claimed property)."""
import json, os, glob, subprocess
ROOT = os.path.dirname(os.path.dirname(os.path.abspath(__file__)))
props = [json.loads(l)["id"] for l in open(os.path.join(ROOT, "properties.jsonl")) if l.strip()]
na_path = os.path.join(ROOT, "checks", "not_applicable.json")
na_reasons = json.load(open(na_path)) if os.path.exists(na_path) else {}
checks, engines, claimed = [], {}, set()
for pid in props:
    p = os.path.join(ROOT, "checks", pid + ".json")
    if not os.path.exists(p):
        continue
    c = json.load(open(p))
    if not c.get("claimed", True):
        continue
    claimed.add(pid)
    m = c["manifest"]
    checks.append({
        "property_id": pid,
        "quick_cmd": f"./check {pid} --tier quick",
        "thorough_cmd": f"./check {pid} --tier thorough",
        "evidence_file": f"/verif/evidence/{pid}.json",
        "replay_cmd_template": f"./check {pid} --replay {{path}}",
        "engine": c["engine"],
        "level_claimed": {"category": m.get("category", "proof"), "text": m["text"], "design_ref": m.get("design_ref", f"DESIGN.md §7 {pid}")},
        "level_note": m["note"],
        "technique": m.get("technique", "Lean 4 theorems over a hand-written model + differential correspondence with the real code"),
    })
    e = engines.setdefault(c["engine"], {"name": c["engine"], "path": f"harness/src/bin/{c['engine']}.rs + lean/Driver ({c.get('driver','-')})", "serves_properties": [], "kind_free_text": m.get("engine_kind", "differential correspondence engine: real rotonda code in-process vs compiled Lean model driver, plus an implementation-side property oracle")})
    e["serves_properties"].append(pid)
commits = subprocess.run(["git", "-C", "/repo", "log", "--format=%h %s", "e224a89..HEAD"], capture_output=True, text=True).stdout.splitlines()
hook_commits = [c.split()[0] for c in commits if c.split(" ", 1)[1].startswith("verif-hooks")]
man = {
    "version": 1,
    "setup_cmd": "./setup.sh",
    "hooks": {
        "guard": "cargo feature verif-hooks",
        "enable": "the harness crate /verif/harness depends on rotonda by path (/repo) with features = [\"verif-hooks\"]; every check rebuilds its engine with `cargo build --offline --bin <engine>` against /repo's current working tree",
        "baseline_off_cmd": "cd /repo && cargo test --workspace --no-fail-fast --offline",
        "source_commits": hook_commits,
        "add_only": True,
    },
    "engines": list(engines.values()),
    "checks": checks,
    "notes": "Machine-checked proof in Lean 4 over hand-written executable models, tied to /repo on every run by differential correspondence engines that drive the real code in-process (and by extraction for table-like code). Genuine defects: known_findings.json. See DESIGN.md.",
    "not_applicable": [{"property_id": p, "reason": na_reasons.get(p, "not claimed yet: the model, theorems and correspondence engine for this property are still being built (DESIGN.md §9); no other technique is substituted")} for p in props if p not in claimed],
}
json.dump(man, open(os.path.join(ROOT, "MANIFEST.json"), "w"), indent=1)
print("claimed:", sorted(claimed))
