#!/usr/bin/env python3
"""extract_escape.py REPO — regenerate lean/RotondaModel/Generated/Escape.lean from the HTML-producing code of
the BMP unit: src/units/bmp_tcp_in/http/router_info/response.rs and router_list/response.rs.

Every `formatdoc!` / `format!` / `writeln!` / `write!` call in those files becomes a template
`List Seg` (`lit text | hole expr cls why`): the format string is split into literal text and holes, every
hole is paired with the expression that reaches it (positional argument, named argument or inline
captured identifier) and the expression is classified by following its `let` bindings inside the function:
  escaped  it flows through html_escape::encode_safe (possibly sliced afterwards)
  safe     numeric (typed usize/u8, atomic load, len, percentage), a typed Display that cannot contain HTML
           metacharacters (IpAddr, Asn, DateTime/rfc3339, bool, PerPeerHeader's own Display, constant string
           choices), or configuration-derived (api path passed through encode_double_quoted_attribute,
           registered resource names)
  raw      anything else (Strings of external origin) — conservative default
Anchored: exits 1 with a one-line reason if a macro call cannot be parsed."""
import os, re, sys

repo = sys.argv[1] if len(sys.argv) > 1 else "/repo"
FILES = [("routerInfo", "src/units/bmp_tcp_in/http/router_info/response.rs"),
         ("routerList", "src/units/bmp_tcp_in/http/router_list/response.rs")]
out_path = os.path.join(os.path.dirname(os.path.abspath(__file__)), "..", "lean", "RotondaModel", "Generated", "Escape.lean")


def die(msg):
    print(f"extract_escape: {msg}")
    sys.exit(1)


def strip_comments(src):
    # keep string literals intact: only `//` comments that start a line or follow whitespace outside strings
    out, i, n = [], 0, len(src)
    in_str = False
    raw_hashes = None
    while i < n:
        c = src[i]
        if raw_hashes is not None:
            end = '"' + '#' * raw_hashes
            if src.startswith(end, i):
                out.append(end); i += len(end); raw_hashes = None
            else:
                out.append(c); i += 1
        elif in_str:
            if c == '\\':
                out.append(src[i:i + 2]); i += 2
            else:
                if c == '"':
                    in_str = False
                out.append(c); i += 1
        else:
            m = re.match(r'r(#*)"', src[i:])
            if m and (i == 0 or not (src[i - 1].isalnum() or src[i - 1] == '_')):
                raw_hashes = len(m.group(1)); out.append(m.group(0)); i += len(m.group(0))
            elif c == '"':
                in_str = True; out.append(c); i += 1
            elif src.startswith("//", i):
                j = src.find("\n", i)
                i = n if j < 0 else j
            elif src.startswith("/*", i):
                j = src.find("*/", i)
                i = n if j < 0 else j + 2
            else:
                out.append(c); i += 1
    return "".join(out)


def parse_macro_args(src, start):
    """src[start] is the opening ( or {. Returns (list of top-level comma separated args, end index)."""
    open_c = src[start]
    close_c = {"(": ")", "{": "}"}[open_c]
    depth, i, n = 0, start, len(src)
    args, cur = [], []
    while i < n:
        c = src[i]
        m = re.match(r'r(#*)"', src[i:])
        if m and not (src[i - 1].isalnum() or src[i - 1] == '_'):
            end = '"' + '#' * len(m.group(1))
            j = src.find(end, i + len(m.group(0)))
            if j < 0:
                die("unterminated raw string")
            cur.append(src[i:j + len(end)]); i = j + len(end); continue
        if c == '"':
            j = i + 1
            while src[j] != '"':
                j += 2 if src[j] == '\\' else 1
            cur.append(src[i:j + 1]); i = j + 1; continue
        if c in "([{":
            depth += 1
            if depth > 1:
                cur.append(c)
        elif c in ")]}":
            depth -= 1
            if depth == 0:
                if c != close_c:
                    die("unbalanced macro delimiters")
                if "".join(cur).strip():
                    args.append("".join(cur).strip())
                return args, i + 1
            cur.append(c)
        elif c == "," and depth == 1:
            args.append("".join(cur).strip()); cur = []
        else:
            cur.append(c)
        i += 1
    die("macro call not closed")


def string_literal(tok):
    m = re.fullmatch(r'r(#*)"(.*)"\1', tok, re.S)
    if m:
        return m.group(2)
    m = re.fullmatch(r'"(.*)"', tok, re.S)
    if not m:
        return None
    s, out, i = m.group(1), [], 0
    while i < len(s):
        if s[i] == "\\":
            nx = s[i + 1]
            if nx == "n": out.append("\n")
            elif nx == "t": out.append("\t")
            elif nx in '"\\\'': out.append(nx)
            elif nx == "\n":  # line continuation: skip following whitespace
                i += 2
                while i < len(s) and s[i] in " \t\n": i += 1
                continue
            else: die(f"string escape \\{nx} not handled")
            i += 2
        else:
            out.append(s[i]); i += 1
    return "".join(out)


def split_format(fmt):
    """-> list of ('lit', text) | ('hole', name-or-None)"""
    segs, lit, i = [], [], 0
    while i < len(fmt):
        c = fmt[i]
        if fmt.startswith("{{", i): lit.append("{"); i += 2
        elif fmt.startswith("}}", i): lit.append("}"); i += 2
        elif c == "{":
            j = fmt.index("}", i)
            inner = fmt[i + 1:j]
            name = inner.split(":")[0].strip()
            if lit: segs.append(("lit", "".join(lit))); lit = []
            segs.append(("hole", name if name else None))
            i = j + 1
        else:
            lit.append(c); i += 1
    if lit: segs.append(("lit", "".join(lit)))
    return segs


PPH_TYPED = {"timestamp", "address", "asn", "flags", "is_ipv6", "is_ipv4", "is_post_policy", "is_pre_policy",
             "is_legacy_format", "peer_type", "distinguisher", "bgp_id"}


def classify(expr, fn_src, pos, depth=0):
    """Classify `expr` as seen at offset `pos` of the function source `fn_src`. -> (cls, why)"""
    e = expr.strip()
    while e.startswith("&"): e = e[1:].strip()
    if depth > 6: return "raw", "binding chain too deep"
    # constant choices: if … { "lit" } else { "lit" }
    if re.fullmatch(r'if [^{}]*\{\s*"[^"<>\'&]*"\s*\}\s*else\s*\{\s*"[^"<>\'&]*"\s*\}', e):
        return "safe", "constant string choice"
    m = re.fullmatch(r"pph\.(\w+)\(\)", e)
    if m and m.group(1) in PPH_TYPED: return "safe", f"typed: PerPeerHeader::{m.group(1)}()"
    if e == "pph": return "safe", "typed: PerPeerHeader Display = address/asn/bgp-id bytes (routecore)"
    if re.fullmatch(r"[\w.]+\.len\(\)", e): return "safe", "numeric: len()"
    if re.fullmatch(r"[\w.]+\.to_rfc3339\(\)", e): return "safe", "typed: rfc3339 timestamp"
    if e == "err.recoverable": return "safe", "typed: bool"
    if e in ("resource.rel_base_url", "resource.component_name"): return "safe", "configuration: registered HTTP resource"
    if e == "prefix": return "safe", "typed: Nlri/prefix Display (routecore)"
    if e == "err.msg": return "raw", "String field of ParseError"
    if not re.fullmatch(r"\w+", e): return "raw", "expression not understood"
    before = fn_src[:pos]
    # last `let NAME[: T] = …;` before the use
    lets = list(re.finditer(r"\blet\s+(?:mut\s+)?" + re.escape(e) + r"\s*(?::\s*([^=;]+?))?\s*=\s*(.*?);", before, re.S))
    if lets:
        l = lets[-1]
        ty, rhs = (l.group(1) or "").strip(), l.group(2).strip()
        if ty in ("usize", "u8", "u16", "u32", "u64"): return "safe", f"numeric: declared {ty}"
        if "html_escape::encode_safe(" in rhs: return "escaped", "html_escape::encode_safe"
        if "html_escape::encode_double_quoted_attribute(" in rhs: return "safe", "configuration: api path through encode_double_quoted_attribute"
        if re.search(r"\.load\(SeqCst\)\s*$", rhs) or re.search(r"\.load\(SeqCst\)\s*\}\s*else\s*\{\s*0\s*\}$", rhs): return "safe", "numeric: atomic load"
        if rhs.startswith("calc_u8_pc("): return "safe", "numeric: percentage"
        if re.search(r"\.to_rfc3339\(\)$", rhs): return "safe", "typed: rfc3339 timestamp"
        if re.search(r"\.unwrap_or\(\[0, 0, 0, 0\]\.into\(\)\)$", rhs): return "safe", "typed: IpAddr"
        if rhs == '"".to_string()': return "safe", "constant empty string"
        if rhs == "String::new()" and re.search(r"(write|writeln)!\(\s*" + re.escape(e) + r"\b|\b" + re.escape(e) + r"\.push_str\(", fn_src):
            return "nested", "String assembled from other templates"
        ms = re.fullmatch(r"if (\w+)\.len\(\) > \w+ \{\s*&\1\[0\.\.=\w+\]\s*\}\s*else\s*\{\s*&\1\[\.\.\]\s*\}", rhs)
        if ms:
            cls, why = classify(ms.group(1), fn_src, l.start(), depth + 1)
            return cls, why + ", then byte-sliced"
        mc = re.fullmatch(r"(\w+)\(\s*&?\s*(\w+)\s*\)", rhs)
        if mc and is_prefix_cut_helper(mc.group(1)):
            # a helper that returns its argument or a prefix `&s[..end]` of it (cut moved to a character boundary)
            cls, why = classify(mc.group(2), fn_src, l.start(), depth + 1)
            return cls, why + ", then byte-sliced"
        return "raw", "bound to: " + re.sub(r"\s+", " ", rhs)[:50]
    # for-bindings and parameters
    if re.search(r"for\s+" + re.escape(e) + r"\s+in\s+keys\.iter\(\)", before) and re.search(r"keys:\s*&\[ingress::IngressId\]", before):
        return "safe", "numeric: IngressId"
    m = re.search(r"\b" + re.escape(e) + r":\s*([^,\n)]+)", before)
    if m:
        ty = m.group(1).strip()
        if ty in ("ingress::IngressId", "usize", "u32"): return "safe", f"numeric: parameter {ty}"
        if e == "http_api_path" and API_PATH_IS_CONFIG: return "safe", "configuration: unit's http_api_path through encode_double_quoted_attribute (router_list/request.rs)"
        return "raw", f"parameter of type {ty}"
    return "raw", "origin not found"


CUR_SRC = [""]


def is_prefix_cut_helper(name):
    """`fn name(s: &str) -> &str` whose body only measures `s` (len, is_char_boundary, integer arithmetic on a local
    index) and returns `s` or `&s[..<index>]`: the result is a prefix of the argument. Anything else: not recognised."""
    src = CUR_SRC[0]
    m = re.search(r"\bfn\s+" + re.escape(name) + r"\s*\(\s*(\w+)\s*:\s*&\s*str\s*\)\s*->\s*&\s*str\s*\{", src)
    if not m:
        return False
    p, i, depth = m.group(1), m.end(), 1
    while i < len(src) and depth:
        depth += {"{": 1, "}": -1}.get(src[i], 0); i += 1
    body = src[m.end():i - 1]
    body = re.sub(r"&\s*" + re.escape(p) + r"\s*\[\s*\.\.\s*\w+\s*\]", " CUT ", body)      # &s[..end]
    body = re.sub(re.escape(p) + r"\s*\.\s*(len|is_char_boundary)\s*\(", " MEASURE( ", body)
    toks = re.findall(r"[A-Za-z_]\w*|\d+|\S", body)
    allowed = {"CUT", "MEASURE", p, "if", "else", "while", "let", "mut", "return", "(", ")", "{", "}", ";", "=", "+", "-", ">", "<", "!", "-=", "+="}
    return "CUT" in toks and all(t in allowed or re.fullmatch(r"\d+|[A-Z][A-Z0-9_]*|[a-z_]\w*", t) and t not in ("unsafe", "as") for t in toks) \
        and "[" not in toks and "." not in toks and "&" not in toks


def fn_spans(src):
    """(start, end, name) of every `fn` with a body; nested fns are included (callers pick the outermost)."""
    out = []
    for m in re.finditer(r"\bfn\s+(\w+)\s*[<(]", src):
        i = m.end(); par = 0
        while i < len(src):                      # find the body's opening brace (skip the signature)
            c = src[i]
            if c in "(<[": par += 1
            elif c in ")>]": par -= 1 if not (c == ">" and src[i - 1] == "-") else 0
            elif c == ";" and par <= 0: i = -1; break
            elif c == "{" and par <= 0: break
            i += 1
        if i < 0 or i >= len(src):
            continue
        j, depth = i + 1, 1
        while j < len(src) and depth:
            depth += {"{": 1, "}": -1}.get(src[j], 0); j += 1
        out.append((m.start(), j, m.group(1)))
    return out


def lean_str(s):
    return '"' + s.replace("\\", "\\\\").replace('"', '\\"').replace("\n", "\\n").replace("\t", "\\t") + '"'


try:
    _req = strip_comments(open(os.path.join(repo, "src/units/bmp_tcp_in/http/router_list/request.rs")).read())
except OSError as ex:
    die(f"cannot read router_list/request.rs: {ex}")
API_PATH_IS_CONFIG = bool(re.search(r"req_path == \*self\.http_api_path\s*\{\s*let http_api_path = html_escape::encode_double_quoted_attribute\(\s*self\.http_api_path\.deref\(\),\s*\);", _req)) \
    and bool(re.search(r"Ok\(keys\) => self\.build_response\(keys, http_api_path\)\.await", _req))

templates = []   # (name, segs[(kind, a, b, c)])
for prefix, rel in FILES:
    path = os.path.join(repo, rel)
    try:
        src = strip_comments(open(path).read())
    except OSError as ex:
        die(f"cannot read {path}: {ex}")
    CUR_SRC[0] = src
    spans = fn_spans(src)
    # a template belongs to the outermost function around it: helper fns nested in a function body do not rename it
    fns = [(a, n) for a, b, n in spans if not any(a2 < a and b <= b2 for a2, b2, _ in spans)]
    if not fns:
        die(f"no functions found in {rel}")
    counters = {}
    for m in re.finditer(r"\b(formatdoc|format|writeln|write)!\s*([({])|\.(push_str)\(\s*(\"(?:[^\"\\]|\\.)*\")\s*\)", src):
        if m.group(3):
            fstart, fname = [f for f in fns if f[0] < m.start()][-1]
            k = counters.get(fname, 0); counters[fname] = k + 1
            templates.append((f"{prefix}_{fname}_{k}", [("lit", string_literal(m.group(4)))]))
            continue
        macro = m.group(1)
        args, end = parse_macro_args(src, m.end() - 1)
        if macro in ("writeln", "write"):
            args = args[1:]
        if not args:
            continue   # writeln!(x) : just a newline
        fmt = string_literal(args[0])
        if fmt is None:
            die(f"{rel}: first argument of {macro}! is not a string literal: {args[0][:40]}")
        if macro == "writeln": fmt += "\n"
        fstart, fname = [f for f in fns if f[0] < m.start()][-1]
        k = counters.get(fname, 0); counters[fname] = k + 1
        fn_src = src[fstart:]
        pos = m.start() - fstart
        positional = [a for a in args[1:] if not re.match(r"^\w+\s*=[^=]", a)]
        named = {a.split("=", 1)[0].strip(): a.split("=", 1)[1].strip() for a in args[1:] if re.match(r"^\w+\s*=[^=]", a)}
        segs, pi = [], 0
        for kind, val in split_format(fmt):
            if kind == "lit":
                segs.append(("lit", val)); continue
            if val is None:
                if pi >= len(positional): die(f"{rel}:{fname}.{k}: more holes than arguments")
                expr = positional[pi]; pi += 1
            elif val in named: expr = named[val]
            elif val.isdigit(): expr = positional[int(val)]
            else: expr = val
            expr = re.sub(r"\s+", " ", expr)
            cls, why = classify(expr, fn_src, pos)
            segs.append(("hole", expr, cls, why))
        if pi != len(positional): die(f"{rel}:{fname}.{k}: {len(positional)} arguments for {pi} positional holes")
        templates.append((f"{prefix}_{fname}_{k}", segs))

lines = ["/- GENERATED by tools/extract_escape.py from the router-info / router-list response.rs — do not edit. -/",
         "import RotondaModel.Model.Escape", "namespace Rotonda.Escape.Generated", "open Rotonda.Escape", ""]
for name, segs in templates:
    lines.append(f"def {name} : Template := [")
    body = []
    for s in segs:
        if s[0] == "lit": body.append(f"  .lit {lean_str(s[1])}")
        else: body.append(f"  .hole {lean_str(s[1])} .{s[2]} {'true' if 'byte-sliced' in s[3] else 'false'} {lean_str(s[3])}")
    lines.append(",\n".join(body) + "]")
    lines.append("")
lines.append("def templates : List (String × Template) := [")
lines.append(",\n".join(f"  ({lean_str(n)}, {n})" for n, _ in templates) + "]")
lines.append("")
lines.append("end Rotonda.Escape.Generated")
out = "\n".join(lines) + "\n"
os.makedirs(os.path.dirname(out_path), exist_ok=True)
old = open(out_path).read() if os.path.exists(out_path) else None
if old != out:
    open(out_path, "w").write(out)
nraw = sum(1 for _, segs in templates for s in segs if s[0] == "hole" and s[2] == "raw")
nh = sum(1 for _, segs in templates for s in segs if s[0] == "hole")
print(f"extract_escape: ok ({len(templates)} templates, {nh} holes, {nraw} raw)")
