#!/usr/bin/env python3
"""tools/seed_prompt.py <prop> <seed-id>  -> prints the prompt for an independent seed-writing sub-agent.
The agent gets the property text and its own scratch worktree, nothing from /verif."""
import json, sys, glob, os
pid, sid = sys.argv[1], sys.argv[2]
p = next(json.loads(l) for l in open('/verif/properties.jsonl') if json.loads(l)['id'] == pid)
prev = []
for m in sorted(glob.glob(f'/verif/seeded/{pid}-*/meta.json')):
    try: prev.append(json.load(open(m)).get('breaks', '')[:300])
    except Exception: pass
wt = f'/tmp/seedwt/{sid}'
out = f'/tmp/seedout/{sid}'
print(f"""You are helping test a verification effort for the Rust project NLnetLabs/rotonda (a modular BGP/BMP engine). Your job is to write ONE realistic, subtle code change ("mutation") to rotonda that BREAKS the semantic property below, while the crate still compiles and the project's existing test suite still passes, plus a demonstration that fails with your change and passes without it. The change will be used to find out whether independent verification machinery notices it, so it must be independent work: work ONLY inside your own scratch git worktree {wt} (a checkout of the repository with a warm build directory {wt}/target). Do NOT read or touch /verif or /repo at all, and do not look outside {wt} except the cargo registry (~/.cargo/registry/src) for dependency sources. There is no network: always pass --offline to cargo (CARGO_NET_OFFLINE=true).

THE PROPERTY ({pid}): {p['title']}
Statement: {p['statement']}
Quantified over: {p['quantifier']['text']}
Code anchors: {json.dumps(p['anchors'])}

(Code under `#[cfg(feature = "verif-hooks")]`, `src/verif/` and files named `verif_hooks*.rs` is test instrumentation that is compiled out by default: ignore it, do not change it, and do not rely on it.)

WHAT MAKES A GOOD CHANGE
* It looks like something a maintainer could plausibly commit: a refactor, an optimisation (a cache, an early return, a fast path), a "simplification", a reordering, a boundary condition, a new small feature with a flaw — NOT a blatant sabotage, not a `if input == magic`, no dead giveaway comments. Keep it small (typically 5-40 changed lines) and in non-test, non-instrumentation code.
* It must need something SPECIFIC to manifest: a particular interleaving, a fault or connection loss at a particular point, a multi-step sequence of operations, an unusual-but-legal input, a size/boundary, or two cooperating sites that each look fine alone. Ordinary simple use must keep working exactly as before (the existing tests must pass).
* It must make the property as stated above false on the real code for some input/history the property quantifies over. Be precise about which clause of the statement it breaks.
* Prefer a part of the anchored code (or code the property's behaviour depends on) and a mechanism different from these earlier ideas, which have already been used: {json.dumps(prev) if prev else 'none yet'}

DELIVERABLES — write them to {out}/ (create the directory):
1. patch.diff — `git diff` of the change alone (relative to the worktree's HEAD), applying with `git apply` at the repository root.
2. demo.diff — a separate `git diff` that adds ONLY the demonstration: an in-crate `#[cfg(test)]` test (or tests) whose function name contains `{sid.replace('-', '_').lower()}_demo`, placed in an existing source file's test module or a new test module, which FAILS (assert/panic/timeout turned into a failure) with patch.diff applied and PASSES without it. It must be deterministic (if it depends on an interleaving, force the interleaving, or bound waits with timeouts), run in well under 2 minutes, and use no network beyond loopback. demo.diff must apply on top of HEAD both with and without patch.diff (so do not put the demo inside lines the patch changes).
3. meta.json — {{"property": "{pid}", "demo_filter": "{sid.replace('-', '_').lower()}_demo", "breaks": "<one paragraph: what is now wrong, which clause>", "needs": "<what specific input/sequence/interleaving it needs to manifest>", "source": "independent sub-agent ({sid})"}}
4. SEED_REPORT.md — short: the idea, why existing tests do not notice, the exact commands you ran and their results.

YOU MUST VERIFY, in {wt}, before finishing (and state the results in SEED_REPORT.md):
 a. with patch + demo applied: `CARGO_NET_OFFLINE=true cargo test --offline --lib -- {sid.replace('-', '_').lower()}_demo` FAILS;
 b. with only the demo applied (patch reverted): the same command PASSES;
 c. with only the patch applied (demo reverted): the whole existing suite passes: `CARGO_NET_OFFLINE=true cargo test --offline --workspace --no-fail-fast -- --skip connection_accepted_count_metric_should_work --skip listener_bound_count_metric_should_work --skip retry_with_backoff_on_accept_error` (about 5-6 minutes; those three tests are known-flaky and excluded). 71+ tests must pass, 0 fail.
 d. both diffs apply cleanly to a clean HEAD (`git stash` or `git checkout -- .` then `git apply --check`).
Leave the worktree clean of build junk outside target/. Do not commit anything. Builds are slow (a rebuild of the crate after an edit takes 1-2 minutes): think first, read the code carefully, then edit. Your final message: 5-10 lines summarising the change, what it needs to manifest, and the results of a-d.""")
