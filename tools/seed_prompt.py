#!/usr/bin/env python3
"""tools/seed_prompt.py <prop> <n>: print the prompt for an independent seeding sub-agent (property text only,
own scratch worktree /tmp/seed<n>-<prop>); the worktree must exist (tools/seed_prepare.sh)."""
import json, sys, glob, os
pid, n = sys.argv[1], sys.argv[2]
prop = next(json.loads(l) for l in open('/verif/properties.jsonl') if json.loads(l)['id'] == pid)
earlier = []
for d in sorted(glob.glob(f'/verif/seeded/{pid}-*')):
    try: earlier.append(json.load(open(d + '/meta.json')).get('breaks', '')[:300])
    except Exception: pass
wt = f'/tmp/seed{n}-{pid}'
print(f"""You are an independent software engineer asked to plant one realistic, subtle regression in a Rust code base, to test a verification team's tooling. You work ONLY inside your own scratch git worktree {wt} (a checkout of NLnetLabs/rotonda, a BGP/BMP collector; it builds and tests OFFLINE: always pass --offline to cargo; a warm build directory is already in {wt}/target). Do not read or touch anything under /verif or /repo, and nothing outside {wt}. Ignore the module src/verif and anything behind `#[cfg(feature = "verif-hooks")]` (test instrumentation; do not edit it, do not rely on it). Every shell command prints a harmless conda warning first; ignore it.

The semantic property that is supposed to hold of this code base:

{json.dumps(prop, indent=1)}

YOUR TASK: make ONE change to the non-test source of rotonda (under {wt}/src, or a vendored dependency only if unavoidable) that BREAKS this property while (a) the crate still compiles without new warnings-as-errors, (b) the existing test suite still passes: `cd {wt} && cargo test --offline --workspace --no-fail-fast -- --skip connection_accepted_count_metric_should_work --skip listener_bound_count_metric_should_work --skip retry_with_backoff_on_accept_error` (those three are known flaky), and (c) the change looks like something a maintainer could plausibly commit (a refactor, an optimisation, a clean-up, a "simplification", a feature tweak) — not a marker, not dead code, not a special case on a magic value. The change must need something SPECIFIC to manifest: a particular interleaving, a fault or connection loss at a particular point, a multi-step sequence of operations, an unusual but legal input, a boundary size, or two cooperating sites that each look fine alone. Ordinary single-step use must still behave correctly, so that casual testing would not expose it.
{('Earlier planted changes for this property did the following; do something DIFFERENT in mechanism and location: ' + ' || '.join(earlier)) if earlier else ''}

Then write a DEMONSTRATION: a new `#[cfg(test)]` test (or test module) inside the crate, in a separate diff, whose name contains `seed{n}_demo`, that FAILS with your change and PASSES without it, run as `cargo test --offline --lib -- seed{n}_demo`. Verify all of this yourself (demo fails with the change, passes without, suite passes with the change only).

DELIVERABLES, in {wt}/.seed/ (create the directory): `patch.diff` (git diff of the source change only, applies with `git apply` to a clean checkout), `demo.diff` (git diff of the demonstration only, applies on top of a clean checkout AND on top of patch.diff), `meta.json` with keys "property" ("{pid}"), "demo_filter" (the test name filter), "breaks" (one or two sentences: what no longer holds), "needs" (what it takes to manifest), "source" ("independent sub-agent (seeder{n}-{pid})"), and `SEED_REPORT.md` (what you changed, why it is plausible, why the suite does not notice, the exact commands you ran and their results). Leave the worktree with both diffs applied or not, it does not matter. Final message: ≤ 120 words summarising the change and confirming the three verifications.""")
