#!/usr/bin/env python3
"""extract_codecafi.py REPO — regenerate lean/RotondaModel/Generated/CodecAfi.lean from
src/roto_runtime/types.rs:

* `impl TryFrom<(Nlri<O>, RotondaPaMap)> for RotondaRoute`: which `Nlri` variants become a `RotondaRoute`
  (the arm must build the variant of the same name from the NLRI and the attribute map) and which are
  rejected with `Err(())`; emitted as (AFI, SAFI) numbers, plain and ADD-PATH variants separately;
* `explode_announcements` / `explode_withdrawals`: a rejected NLRI is skipped (`if let Ok(r) = (x, pamap.clone()).try_into()
  { res.push(r) } else { debug!(…) }`), it does not fail the UPDATE.

The AFI/SAFI numbers of the variant names are those of routecore's `afisafi!` table; they are hard-coded here and
pinned to the real `AfiSafiType` by the engine `xextract` (exhaustive Rust match + `From<AfiSafiType> for (u16, u8)`).
Arm order, `|`-grouping, comments and layout are immaterial; an unknown variant name, a variant named twice,
or a supported arm that builds anything but the same-named `RotondaRoute` is a loud failure."""
import os, re, sys
sys.path.insert(0, os.path.dirname(os.path.abspath(__file__)))
from extractlib import *

TOOL = "extract_codecafi"
AFI = {"Ipv4": 1, "Ipv6": 2, "L2Vpn": 25}
SAFI = {"Unicast": 1, "Multicast": 2, "MplsUnicast": 4, "MplsVpnUnicast": 128, "RouteTarget": 132, "FlowSpec": 133, "Vpls": 65, "Evpn": 70}
TABLE = [("Ipv4", s) for s in ["Unicast", "Multicast", "MplsUnicast", "MplsVpnUnicast", "RouteTarget", "FlowSpec"]] + \
        [("Ipv6", s) for s in ["Unicast", "Multicast", "MplsUnicast", "MplsVpnUnicast", "FlowSpec"]] + \
        [("L2Vpn", "Vpls"), ("L2Vpn", "Evpn")]
NAMES = {a + s: (AFI[a], SAFI[s]) for a, s in TABLE}


def main():
    repo = sys.argv[1] if len(sys.argv) > 1 else "/repo"
    code = strip(drop_hooks(read_source(repo, "src/roto_runtime/types.rs", TOOL)))
    body = find_fn(code, "try_from", within=r"\bimpl\s*<\s*(\w+)\s*>\s*TryFrom\s*<\s*\(\s*Nlri\s*<\s*\1\s*>\s*,\s*RotondaPaMap\s*\)\s*>\s*for\s+RotondaRoute\b",
                   what="impl<O> TryFrom<(Nlri<O>, RotondaPaMap)> for RotondaRoute")
    ms = list(re.finditer(r"\bmatch\s+value\.0\s*\{", body))
    if len(ms) != 1:
        raise Lost("anchor lost: `match value.0 { … }` in TryFrom<(Nlri, RotondaPaMap)> for RotondaRoute")
    sp = block_after(body, ms[0].end() - 1)
    pre, post = norm(body[:ms[0].start()]), norm(body[sp[1]:])
    if not re.fullmatch(r"let(\w+)=", pre) or post != ";Ok(" + re.fullmatch(r"let(\w+)=", pre).group(1) + ")":
        raise Lost("try_from is no longer `let res = match value.0 { … }; Ok(res)`")
    verdict, default = {}, None
    for pat, expr in match_arms(inner(body, sp)):
        e = norm(unbrace(expr)).rstrip(";")
        for alt in alternatives(pat):
            m = re.fullmatch(r"Nlri::(\w+)\s*\(\s*(\w+|\.\.)\s*\)", alt)
            if m:
                name, var = m.group(1), m.group(2)
                base = name[:-7] if name.endswith("Addpath") else name
                if base not in NAMES:
                    raise Lost(f"TryFrom<(Nlri, …)>: unknown Nlri variant {name}")
                if name in verdict:
                    raise Lost(f"TryFrom<(Nlri, …)>: Nlri::{name} named twice")
                if e == f"RotondaRoute::{name}({var},value.1)":
                    verdict[name] = True
                elif re.fullmatch(r"(?:debug!\(.*?\);)?returnErr\(\(\)\)", e):
                    verdict[name] = False
                elif re.fullmatch(r"RotondaRoute::\w+\(.*\)", e):
                    raise Lost(f"TryFrom<(Nlri, …)>: Nlri::{name} builds {e[:50]} (not the RotondaRoute variant of the same name)")
                else:
                    raise Lost(f"TryFrom<(Nlri, …)>: arm for Nlri::{name} not understood: {e[:60]}")
            elif re.fullmatch(r"[a-z_]\w*", alt):
                if not re.fullmatch(r"(?:debug!\(.*?\);)?returnErr\(\(\)\)", e):
                    raise Lost("TryFrom<(Nlri, …)>: the catch-all arm does not `return Err(())`")
                default = False
            else:
                raise Lost("TryFrom<(Nlri, …)>: pattern not understood: " + alt[:60])
    universe = [n + suf for n in NAMES for suf in ("", "Addpath")]
    for n in universe:
        if n not in verdict:
            if default is None:
                raise Lost(f"TryFrom<(Nlri, …)>: no arm for Nlri::{n} and no catch-all")
            verdict[n] = default

    # --- a rejected NLRI is skipped, not an error
    for fn, it in [("explode_announcements", "announcements"), ("explode_withdrawals", "withdrawals")]:
        b = norm(find_fn(code, fn))
        if not re.search(r"for(\w+)inbgp_update\." + it + r"\(\)\?\{let(\w+)=\1\?;ifletOk\((\w+)\)=\(\2,(\w+)\.clone\(\)\)\.try_into\(\)\{(\w+)\.push\(\3\);\}(?:else\{(?:debug!\(.*?\);)?\})?\}Ok\(\5\)$", b):
            raise Lost(f"{fn}: the loop `for x in bgp_update.{it}()? {{ let x = x?; if let Ok(r) = (x, pamap.clone()).try_into() {{ res.push(r) }} else {{ debug!(…) }} }} Ok(res)` is no longer recognised")

    pair = lambda n: "(%d, %d)" % NAMES[n]
    plain = [n for n in NAMES]
    L = []
    L.append("/-! GENERATED by tools/extract_codecafi.py from src/roto_runtime/types.rs — do not edit. -/")
    L.append("namespace Rotonda.Generated.CodecAfi")
    L.append("")
    L.append("/-- the address families of routecore's `afisafi!` table: name, AFI, SAFI (each has a plain and an ADD-PATH `Nlri` variant) -/")
    L.append("def families : List (String × Nat × Nat) := [" + ", ".join(f'("{n}", {NAMES[n][0]}, {NAMES[n][1]})' for n in plain) + "]")
    L.append("def kindNames : List String := families.map (fun f => s!\"{f.1}:{f.2.1}:{f.2.2}\")")
    L.append("")
    L.append("/-- `TryFrom<(Nlri, RotondaPaMap)> for RotondaRoute`: the (AFI, SAFI) whose plain `Nlri` variant becomes the `RotondaRoute` of the same name -/")
    L.append("def accepted : List (Nat × Nat) := [" + ", ".join(pair(n) for n in plain if verdict[n]) + "]")
    L.append("def acceptedNames : List String := [" + ", ".join(f'"{n}"' for n in plain if verdict[n]) + "]")
    L.append("/-- … whose plain variant is rejected with `Err(())` -/")
    L.append("def rejected : List (Nat × Nat) := [" + ", ".join(pair(n) for n in plain if not verdict[n]) + "]")
    L.append("/-- the same two lists for the ADD-PATH variants -/")
    L.append("def acceptedAddpath : List (Nat × Nat) := [" + ", ".join(pair(n) for n in plain if verdict[n + "Addpath"]) + "]")
    L.append("def rejectedAddpath : List (Nat × Nat) := [" + ", ".join(pair(n) for n in plain if not verdict[n + "Addpath"]) + "]")
    L.append("")
    L.append("/-- `explode_announcements` / `explode_withdrawals`: an NLRI the conversion rejects is skipped; the UPDATE's other routes are kept -/")
    L.append("def rejectedIsSkipped : Bool := true")
    L.append("")
    L.append("end Rotonda.Generated.CodecAfi")
    write_if_changed(generated_path(__file__, "CodecAfi.lean"), "\n".join(L) + "\n")
    print(f"{TOOL}: ok ({len(universe)} Nlri variants, accepted: " + ", ".join(n for n in universe if verdict[n]) + ")")


run(TOOL, main)
