#!/usr/bin/env python3
"""Regenerate DESIGN.md §10.2 (findings and their disposition) and §10.3 (seeded changes: which check
catches which) from known_findings.json and seeded/*/{meta.json,eval.log}. Idempotent (between markers)."""
import glob, json, os, re
ROOT = os.path.dirname(os.path.dirname(os.path.abspath(__file__)))
p = os.path.join(ROOT, "DESIGN.md")
s = open(p).read()
B, E = "<!-- BEGIN GENERATED TABLES -->", "<!-- END GENERATED TABLES -->"
out = [B, "", "### 10.2 Genuine defects found by the machinery and their disposition", "",
       "Generated from `known_findings.json`. *fixed* = repaired by the named unguarded `fix:` commit in /repo (the",
       "entry suppresses nothing: the check passes because the engine detects the repaired variant; a regression",
       "reproduces the witness and is a VIOLATION). *known* = recorded, printed as `KNOWN-FINDING`, suppressed only",
       "for that exact signature.", "", "| property | status | signature | what fails | commit |", "|---|---|---|---|---|"]
k = json.load(open(os.path.join(ROOT, "known_findings.json")))["findings"]
for f in sorted(k, key=lambda f: (f["property"], f["status"], f["signature"])):
    what = f["what"].replace("|", "\\|").replace("\n", " ")
    out.append(f"| {f['property']} | {f['status']} | `{f['signature']}` | {what[:260]} | {f.get('commit','')} |")
nf = sum(1 for f in k if f["status"] == "fixed"); nk = len(k) - nf
out += ["", f"Totals: {nf} fixed, {nk} known.", "", "### 10.3 Seeded changes (independent sub-agents) and which checks catch them", "",
        "Each change was written by a fresh sub-agent that saw only the property text and its own scratch worktree.",
        "`tools/seed_eval.sh` confirmed in a scratch worktree: the demonstration fails with the change and passes",
        "without it, rotonda's own suite (minus the three tests BASELINE.json lists as flaky) passes with the change, and ran",
        "the listed checks against the changed tree (`VERIF_REPO=`). Everything is kept under `seeded/<id>/`.", "",
        "| seed | property | what the change breaks | needs | demo fails with / passes without | suite with change | checks run → result |", "|---|---|---|---|---|---|---|"]
for d in sorted(glob.glob(os.path.join(ROOT, "seeded", "*", ""))):
    sid = os.path.basename(d.rstrip("/"))
    mp = os.path.join(d, "meta.json")
    if not os.path.exists(mp):
        continue
    m = json.load(open(mp))
    log = open(os.path.join(d, "eval.log")).read() if os.path.exists(os.path.join(d, "eval.log")) else ""
    demo = re.search(r"demo with change rc=(\S+) .*without rc=(\S+)", log)
    suite = re.search(r"existing suite with change rc=(\d+): (test result: \w+\. \d+ passed; \d+ failed)", log)
    checks = []
    for c in re.finditer(r"check (C\d+) rc=(\d+): ?(.*)", log):
        res = "caught (VIOLATION, failing input replayed)" if c.group(2) == "1" and "no-failing-input-found" not in c.group(3) else \
              "caught (no-failing-input-found)" if c.group(2) == "1" else "MISSED" if c.group(1) == m["property"] else "silent (other property)"
        checks.append(f"{c.group(1)}: {res}")
    extra = m.get("after_strengthening", "")
    if extra:
        checks.append(extra)
    out.append("| {} | {} | {} | {} | {} | {} | {} |".format(
        sid, m["property"], m["breaks"].replace("|", "\\|")[:300], m["needs"].replace("|", "\\|")[:200],
        f"rc {demo.group(1)} / rc {demo.group(2)}" if demo else "not yet evaluated",
        f"rc {suite.group(1)}, {suite.group(2)}" if suite else "-", "; ".join(checks) or "not yet evaluated"))
out += ["", E]
block = "\n".join(out)
if B in s:
    s = s[:s.index(B)] + block + s[s.index(E) + len(E):]
else:
    marker = "\n--------------------------------------------------------------------------\n\n## Appendix C."
    i = s.index(marker) if marker in s else len(s)
    s = s[:i].rstrip("\n") + "\n\n" + block + "\n" + s[i:]
open(p, "w").write(s)
print("tables written")
