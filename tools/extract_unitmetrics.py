#!/usr/bin/env python3
"""extract_unitmetrics.py REPO — regenerate lean/RotondaModel/Generated/UnitMetrics.lean from the source text:

* every `Metric::new("name", "help", MetricType::X, MetricUnit::Y)` of the library (`src/**/*.rs`, verification hooks
  and test modules excluded), with the name of the constant it defines and its file: the table of all metric
  families a rotonda process can expose;
* the metric constants `Source::append` of `MqttMetrics`, `RotoFilterMetrics` and `GateMetrics` hands to
  `Target::append*`, in source order (the shape of those three sources);
* `TokioTaskMetrics::append`: for every `append_simple(&Self::CONST, Some(unit_name), metrics.<field>[.as_millis()])`
  the pair (CONST, field).

A `Metric::new` whose arguments are not two string literals, a `MetricType::` and a `MetricUnit::` path is a loud
failure (exit 1), as is a source whose `append` is not found."""
import os, re, sys
sys.path.insert(0, os.path.dirname(os.path.abspath(__file__)))
from extractlib import *

TOOL = "extract_unitmetrics"
OUT = os.path.join(os.path.dirname(os.path.abspath(__file__)), "..", "lean", "RotondaModel", "Generated", "UnitMetrics.lean")


def rust_str(lit):
    """The value of a Rust string literal (only the escapes that occur in help texts)."""
    assert lit[0] == '"' and lit[-1] == '"'
    s, out, i = lit[1:-1], [], 0
    while i < len(s):
        if s[i] == "\\":
            i += 1
            c = s[i]
            if c == "n": out.append("\n")
            elif c == "t": out.append("\t")
            elif c in "\\\"'": out.append(c)
            elif c == "\n":  # line continuation: skip the newline and the following indentation
                i += 1
                while i < len(s) and s[i] in " \t\n": i += 1
                continue
            else: raise Lost("escape not understood in a Metric::new string: \\" + c)
            i += 1
        else:
            out.append(s[i]); i += 1
    return "".join(out)


def lean_str(s):
    return '"' + s.replace("\\", "\\\\").replace('"', '\\"').replace("\n", "\\n").replace("\t", "\\t") + '"'


def lean_chars(s):
    def ch(c):
        if c == "'": return "'\\''"
        if c == "\\": return "'\\\\'"
        if c == "\n": return "'\\n'"
        if c == "\t": return "'\\t'"
        return "'" + c + "'"
    return "[" + ", ".join(ch(c) for c in s) + "]"


def split_args(text):
    args, depth, cur, i = [], 0, [], 0
    while i < len(text):
        c = text[i]
        if c == '"':
            j = i + 1
            while text[j] != '"':
                j += 2 if text[j] == "\\" else 1
            cur.append(text[i:j + 1]); i = j + 1; continue
        if c in "([{": depth += 1
        if c in ")]}": depth -= 1
        if c == "," and depth == 0:
            args.append("".join(cur).strip()); cur = []
        else:
            cur.append(c)
        i += 1
    if "".join(cur).strip():
        args.append("".join(cur).strip())
    return args


def paren_after(code, i):
    depth, j = 0, i
    while j < len(code):
        if code[j] == '"':
            j += 1
            while code[j] != '"':
                j += 2 if code[j] == "\\" else 1
        elif code[j] == "(": depth += 1
        elif code[j] == ")":
            depth -= 1
            if depth == 0:
                return i, j + 1
        j += 1
    raise Lost("unbalanced parentheses")


def drop_cfg_test(code):
    """Remove `#[cfg(test)] mod … { … }` blocks and items behind `#[cfg(feature = "verif-hooks")]` modules."""
    out, i = [], 0
    for m in re.finditer(r"#\[cfg\((?:test|feature\s*=\s*\"verif-hooks\")\)\]\s*(?:#\[[^\]]*\]\s*)*(?:pub\s+)?mod\s+\w+\s*\{", code):
        if m.start() < i:
            continue
        s, e = block_after(code, m.end() - 1)
        out.append(code[i:m.start()]); i = e
    out.append(code[i:])
    return "".join(out)


def main():
    repo = sys.argv[1] if len(sys.argv) > 1 else "/repo"
    entries = []
    files = []
    for root, _, names in os.walk(os.path.join(repo, "src")):
        for n in names:
            p = os.path.relpath(os.path.join(root, n), repo)
            if n.endswith(".rs") and "verif" not in p and not n.startswith("tests") and "/tests/" not in p:
                files.append(p)
    for p in sorted(files):
        code = drop_cfg_test(strip(read_source(repo, p, TOOL)))
        for m in re.finditer(r"\bMetric::new\s*\(", code):
            s, e = paren_after(code, m.end() - 1)
            args = split_args(code[s + 1:e - 1])
            if len(args) != 4 or args[0][:1] != '"' or args[1][:1] != '"':
                raise Lost(f"{p}: Metric::new with arguments that are not (string, string, MetricType::_, MetricUnit::_)")
            t = re.fullmatch(r"MetricType::(\w+)", args[2]); u = re.fullmatch(r"MetricUnit::(\w+)", args[3])
            if not t or not u:
                raise Lost(f"{p}: Metric::new type / unit not understood: {args[2]} / {args[3]}")
            before = code[:m.start()]
            c = re.search(r"\bconst\s+(\w+)\s*:\s*Metric\s*=\s*$", before)
            entries.append((c.group(1) if c else "-", p, rust_str(args[0]), rust_str(args[1]), t.group(1), u.group(1)))
    if len(entries) < 20:
        raise Lost("fewer than 20 Metric::new found: the anchor no longer matches")

    shapes = []
    for name, path, ty in [("mqtt", "src/targets/mqtt/metrics.rs", "MqttMetrics"), ("filter", "src/units/filter/metrics.rs", "RotoFilterMetrics"), ("gate", "src/comms.rs", "GateMetrics")]:
        code = strip(drop_hooks(read_source(repo, path, TOOL)))
        body = find_fn(code, "append", within=r"\bimpl\s+(?:\w+::)*Source\s+for\s+" + ty + r"\b", what=f"impl Source for {ty}")
        consts = re.findall(r"Self::(\w+_METRIC)\b", body)
        extra = re.findall(r"self\.(\w+)\.append\(", body)
        shapes.append((name, consts, extra))
        if not consts:
            raise Lost(f"{ty}::append names no metric constant")

    # TokioTaskMetrics::append: which field of the task monitor's interval each constant is fed
    code = strip(drop_hooks(read_source(repo, "src/tokio.rs", TOOL)))
    body = find_fn(code, "append", within=r"\bimpl\s+(?:\w+::)*Source\s+for\s+TokioTaskMetrics\b", what="impl Source for TokioTaskMetrics")
    tokio = []
    for m in re.finditer(r"\bappend_simple\s*\(", body):
        s0, e0 = paren_after(body, m.end() - 1)
        a = split_args(body[s0 + 1:e0 - 1])
        c = re.fullmatch(r"&Self::(\w+)", a[0]) if len(a) == 3 else None
        f = re.fullmatch(r"metrics\.(\w+)(\.as_millis\(\))?", norm(a[2])) if len(a) == 3 else None
        if not c or not f or norm(a[1]) != "Some(unit_name)":
            raise Lost("TokioTaskMetrics::append: an append_simple call is not (&Self::CONST, Some(unit_name), metrics.field[.as_millis()])")
        tokio.append((c.group(1), f.group(1)))
    if len(tokio) < 10:
        raise Lost("TokioTaskMetrics::append: fewer than 10 append_simple calls found")

    L = ["/-! GENERATED by tools/extract_unitmetrics.py from src/**/*.rs — do not edit. -/", "namespace Rotonda.Generated.UnitMetrics", "",
         "/-- one `Metric::new`: the constant it defines, its file, name and help text (as characters), `MetricType` and `MetricUnit` variant -/",
         "structure Entry where", "  const : String", "  file : String", "  name : List Char", "  help : List Char", "  mtype : String", "  unit : String", "  deriving DecidableEq, Repr", "",
         "/-- every metric family of the library -/", "def table : List Entry := ["]
    L += ["  ⟨" + ", ".join([lean_str(e[0]), lean_str(e[1]), lean_chars(e[2]), lean_chars(e[3]), lean_str(e[4]), lean_str(e[5])]) + "⟩" + ("," if i + 1 < len(entries) else "") for i, e in enumerate(entries)]
    L += ["]", ""]
    for name, consts, extra in shapes:
        L.append(f"/-- the metric constants `Source::append` of the {name} source hands to `Target`, in source order -/")
        L.append(f"def {name}Appends : List String := [" + ", ".join(lean_str(c) for c in consts) + "]")
        L.append(f"/-- the nested sources it appends (`self.<field>.append(..)`) -/")
        L.append(f"def {name}Nested : List String := [" + ", ".join(lean_str(c) for c in extra) + "]")
        L.append("")
    L.append("/-- `TokioTaskMetrics::append`: (constant, field of the task monitor's interval it is fed), in source order -/")
    L.append("def tokioAppends : List (String × String) := [" + ", ".join("(" + lean_str(c) + ", " + lean_str(f) + ")" for c, f in tokio) + "]")
    L.append("")
    L += ["end Rotonda.Generated.UnitMetrics", ""]
    write_if_changed(OUT, "\n".join(L))
    print(f"{TOOL}: {len(entries)} metrics, shapes " + "; ".join(f"{n}={len(c)}" for n, c, _ in shapes) + f"; tokio={len(tokio)}")


if __name__ == "__main__":
    try:
        main()
    except Lost as e:
        print(f"{TOOL}: {e}")
        sys.exit(1)
