#!/usr/bin/env python3
"""extract_bmpdispatch.py REPO — regenerate lean/RotondaModel/Generated/BmpDispatch.lean from
src/units/bmp_tcp_in/state_machine/{machine.rs,states/{initiating,dumping,updating,terminated}.rs}:

* per phase, which handler `BmpStateDetails<Phase>::process_msg` runs for each of the seven BMP message
  types (the arms of its `match bmp_msg`, the catch-all arm expanded over the types it does not name);
* `BmpState::process_msg` (machine.rs): which phase's `process_msg` each `BmpState` variant is sent to and
  the wrapper that reports every `InvalidMessage` through `bgp_update_parse_hard_fail`;
* `initiate` always ends in `mk_other_result()`;
* the phase a completed End-of-RIB moves to (`route_monitoring_preprocessing`: Dumping breaks to Updating,
  Updating continues) and the phase `terminate` moves to.

The arms are recognised by shape on comment-free, whitespace-free text (arm order, comments, layout and the
names of bound variables are immaterial); an arm whose shape is not one of the known handlers, a message
type named twice, an unknown message type, or a missing catch-all with unnamed types is a loud failure
(exit 1, reason on the last line), never a smaller table."""
import os, re, sys
sys.path.insert(0, os.path.dirname(os.path.abspath(__file__)))
from extractlib import *

TOOL = "extract_bmpdispatch"
KINDS = ["InitiationMessage", "PeerUpNotification", "PeerDownNotification", "RouteMonitoring",
         "StatisticsReport", "RouteMirroring", "TerminationMessage"]
LEAN_KIND = {"InitiationMessage": "init", "PeerUpNotification": "peerUp", "PeerDownNotification": "peerDown",
             "RouteMonitoring": "routeMon", "StatisticsReport": "stats", "RouteMirroring": "mirror",
             "TerminationMessage": "term"}
PHASES = ["Initiating", "Dumping", "Updating", "Terminated"]
BASE = "src/units/bmp_tcp_in/state_machine/"


def classify(expr, var, phase):
    """Handler name of one arm's expression; `var` is the name bound by the arm's pattern (or None)."""
    e = norm(unbrace(expr))
    v = re.escape(var) if var else r"\w+"
    if e == f"self.initiate({var})":
        return "initiate"
    if e == f"self.peer_up({var})":
        return "peerUp"
    if e == f"self.peer_down({var})":
        return "peerDown"
    if e == f"self.terminate(Some({var}))":
        return "terminate"
    if e == "self.mk_other_result()":
        return "other"
    if re.fullmatch(r"self\.mk_invalid_message_result\(.*\)", e) and "self." not in e[5:]:
        return "invalid"
    if re.fullmatch(r"self\.route_monitoring\(received," + v + r",trace_id,\|(\w+),(\w+),(\w+)\|\{?\1\.route_monitoring_preprocessing\(\2,\3\),?\}?,?\)", e):
        return "routeMon"
    if re.fullmatch(r"let(\w+)=self\.peer_up\(" + v + r"\);ifletBmpState::" + phase + r"\((\w+)\)=&\1\.next_state\{"
                    r"let(\w+)=\2\.details\.peer_states\.num_pending_eors\(\);"
                    r"\2\.status_reporter\.pending_eors_update\(\2\.router_id\.clone\(\),\3,?\);\}\1", e):
        return "peerUpGauge"
    if re.fullmatch(r"(?:self\.ingress_register\.update_info\(self\.ingress_id,ingress::IngressInfo::new\(\)(?:(?!;let).)*\);)?"
                    r"let(\w+)=self\.initiate\(" + v + r"\);match\1\.message_type\{"
                    r"MessageType::InvalidMessage\{\.\.\}=>\1,"
                    r"_=>\{?ifletBmpState::Initiating\((\w+)\)=\1\.next_state\{"
                    r"Self::mk_state_transition_result\(BmpStateIdx::Initiating,BmpState::Dumping\(\2\.into\(\)\),?\)"
                    r"\}else\{unreachable!\(.*?\)\}\}?,?\}", e):
        return "initiateThenDump"
    raise Lost(f"{phase}::process_msg: arm not understood: " + re.sub(r"\s+", " ", expr)[:90])


def phase_table(repo, phase):
    code = strip(drop_hooks(read_source(repo, BASE + f"states/{phase.lower()}.rs", TOOL)))
    body = find_fn(code, "process_msg", within=r"\bimpl\s+BmpStateDetails\s*<\s*" + phase + r"\s*>", what=f"impl BmpStateDetails<{phase}>")
    table = {}
    ms = list(re.finditer(r"\bmatch\s+bmp_msg\s*\{", body))
    if not ms:
        # no dispatch at all: the whole body is one handler for every message type
        h = classify(body, None, phase)
        return {k: h for k in KINDS}
    if len(ms) != 1 or body[:ms[0].start()].strip() or body[block_after(body, ms[0].end() - 1)[1]:].strip():
        raise Lost(f"{phase}::process_msg is no longer exactly one `match bmp_msg {{ … }}`")
    default = None
    for pat, expr in match_arms(inner(body, block_after(body, ms[0].end() - 1))):
        for alt in alternatives(pat):
            m = re.fullmatch(r"(?:BmpMsg|Message)::(\w+)\s*\(\s*(\w+)\s*\)", alt)
            if m:
                kind, var = m.group(1), m.group(2)
                if kind not in KINDS:
                    raise Lost(f"{phase}::process_msg names an unknown BMP message type {kind}")
                if kind in table:
                    raise Lost(f"{phase}::process_msg names {kind} twice")
                if default is not None:
                    raise Lost(f"{phase}::process_msg: arm for {kind} after the catch-all arm (unreachable)")
                table[kind] = classify(expr, var if var != "_" else None, phase)
            elif re.fullmatch(r"[a-z_]\w*", alt):
                if default is not None:
                    raise Lost(f"{phase}::process_msg has two catch-all arms")
                default = classify(expr, None, phase)
            else:
                raise Lost(f"{phase}::process_msg: pattern not understood: {alt[:60]}")
    for k in KINDS:
        if k not in table:
            if default is None:
                raise Lost(f"{phase}::process_msg: no arm for {k} and no catch-all")
            table[k] = default
    return table


def main():
    repo = sys.argv[1] if len(sys.argv) > 1 else "/repo"
    tables = {p: phase_table(repo, p) for p in PHASES}

    mcode = strip(drop_hooks(read_source(repo, BASE + "machine.rs", TOOL)))
    # --- BmpState::process_msg: routing of each variant + the InvalidMessage wrapper
    body = find_fn(mcode, "process_msg", within=r"\bimpl\s+BmpState\b", what="impl BmpState")
    m = re.search(r"\blet\s+(\w+)\s*=\s*match\s+self\s*\{", body)
    if not m:
        raise Lost("anchor lost: `let res = match self { … }` in BmpState::process_msg")
    res = m.group(1)
    sp = block_after(body, m.end() - 1)
    routed = {}
    for pat, expr in match_arms(inner(body, sp)):
        pm = re.fullmatch(r"BmpState::(\w+)\s*\((.*)\)", pat, re.S)
        if not pm:
            raise Lost("BmpState::process_msg: pattern not understood: " + pat[:60])
        e = norm(unbrace(expr))
        if pm.group(1) in PHASES:
            inner_var = pm.group(2).strip()
            if not re.fullmatch(re.escape(inner_var) + r"\.process_msg\((?:received,)?bmp_msg(?:\.into\(\))?,trace_id,?\)", e):
                raise Lost(f"BmpState::process_msg: {pm.group(1)} is not sent to its own process_msg: " + e[:70])
            routed[pm.group(1)] = True
        elif pm.group(1) == "_Aborted":
            if "MessageType::Aborted" not in e:
                raise Lost("BmpState::process_msg: the _Aborted arm no longer answers MessageType::Aborted")
        else:
            raise Lost(f"BmpState::process_msg: unknown BmpState variant {pm.group(1)}")
    missing = [p for p in PHASES if p not in routed]
    if missing:
        raise Lost("BmpState::process_msg: no arm for " + ", ".join(missing))
    tail = norm(body[sp[1]:])
    if not re.fullmatch(r";ifletProcessingResult\{message_type:MessageType::InvalidMessage\{[^}]*\},next_state,?\}=" + res +
                        r"\{ifletSome\((\w+)\)=next_state\.status_reporter\(\)\{\1\.bgp_update_parse_hard_fail\(.*?\);\}"
                        r"ProcessingResult::new\(MessageType::InvalidMessage\{[^}]*\},next_state,?\)\}else\{" + res + r"\}", tail):
        raise Lost("BmpState::process_msg: the wrapper `if let … InvalidMessage … = res { reporter.bgp_update_parse_hard_fail(…); … } else { res }` is no longer recognised")

    # --- initiate always answers Other
    ibody = find_fn(mcode, "initiate")
    if not norm(ibody).endswith("self.mk_other_result()") or "mk_invalid_message_result" in ibody or re.search(r"\breturn\b", ibody):
        raise Lost("`initiate` no longer ends in `self.mk_other_result()` on every path")

    # --- End-of-RIB completion and terminate targets
    eor_to, term_to = {}, {}
    for p in ["Dumping", "Updating"]:
        code = strip(drop_hooks(read_source(repo, BASE + f"states/{p.lower()}.rs", TOOL)))
        imp = r"\bimpl\s+BmpStateDetails\s*<\s*" + p + r"\s*>"
        pre = norm(find_fn(code, "route_monitoring_preprocessing", within=imp, what=f"impl BmpStateDetails<{p}>"))
        if not pre.endswith("ControlFlow::Continue(self)"):
            raise Lost(f"{p}::route_monitoring_preprocessing no longer ends in ControlFlow::Continue(self)")
        brk = re.findall(r"ControlFlow::Break\((.*?)\);", pre)
        if not brk:
            eor_to[p] = None
        else:
            bm = re.fullmatch(r"Self::mk_state_transition_result\(BmpStateIdx::" + p + r",BmpState::(\w+)\(self\.into\(\)\),?\)", brk[0]) if len(brk) == 1 else None
            if not bm or bm.group(1) not in PHASES:
                raise Lost(f"{p}::route_monitoring_preprocessing: `ControlFlow::Break(…)` not understood")
            if not re.search(r"ifself\.details\.remove_pending_eor\([^{]*\)\{(?:(?!\}\}).)*returnControlFlow::Break", pre):
                raise Lost(f"{p}::route_monitoring_preprocessing: the Break is no longer under `if self.details.remove_pending_eor(…)`")
            eor_to[p] = bm.group(1)
        tb = norm(find_fn(code, "terminate", within=imp, what=f"impl BmpStateDetails<{p}>"))
        tm = re.search(r"let(\w+)=BmpState::(\w+)\(self\.into\(\)\);if(\w+)\.is_empty\(\)\{Self::mk_state_transition_result\(BmpStateIdx::\w+,\1,?\)\}"
                       r"else\{let(\w+)=Update::WithdrawBulk\(\3\);Self::mk_final_routing_update_result\(\1,\4,?\)\}$", tb)
        if not tm or tm.group(2) not in PHASES:
            raise Lost(f"{p}::terminate no longer has the shape `let next = BmpState::X(self.into()); if ids.is_empty() {{ transition }} else {{ WithdrawBulk(ids) }}`")
        term_to[p] = tm.group(2)

    handlers = ["initiateThenDump", "initiate", "peerUp", "peerUpGauge", "peerDown", "routeMon", "terminate", "other", "invalid"]
    lp = lambda p: p.lower()
    opt = lambda x: "none" if x is None else f"some .{lp(x)}"
    L = []
    L.append("/-! GENERATED by tools/extract_bmpdispatch.py from src/units/bmp_tcp_in/state_machine/{machine.rs,states/*.rs} — do not edit. -/")
    L.append("namespace Rotonda.Generated.BmpDispatch")
    L.append("")
    L.append("/-- the variants of `BmpState` that carry a state machine (`_Aborted` answers `MessageType::Aborted`) -/")
    L.append("inductive Phase\n  | " + " | ".join(lp(p) for p in PHASES) + "\n  deriving DecidableEq, Repr")
    L.append("")
    L.append("/-- the variants of routecore's `bmp::message::Message` -/")
    L.append("inductive Kind\n  | " + " | ".join(LEAN_KIND[k] for k in KINDS) + "\n  deriving DecidableEq, Repr")
    L.append("def kindNames : List String := [" + ", ".join('"' + LEAN_KIND[k] + '"' for k in KINDS) + "]")
    L.append("")
    L.append("/-- what an arm of `process_msg` does: `initiateThenDump` = `initiate` then the transition to Dumping;\n"
             "    `peerUpGauge` = `peer_up` followed by `pending_eors_update`; the others are the function of that name,\n"
             "    `other` = `mk_other_result()`, `invalid` = `mk_invalid_message_result(…)` -/")
    L.append("inductive Handler\n  | " + " | ".join(handlers) + "\n  deriving DecidableEq, Repr")
    L.append("")
    L.append("/-- `BmpStateDetails<Phase>::process_msg`, arm by arm (catch-all arms expanded) -/")
    L.append("def table : Phase → Kind → Handler")
    for p in PHASES:
        for k in KINDS:
            L.append(f"  | .{lp(p)}, .{LEAN_KIND[k]} => .{tables[p][k]}")
    L.append("")
    L.append("/-- `BmpState::process_msg` sends each phase to its own `process_msg` and reports every `InvalidMessage`\n    result through `bgp_update_parse_hard_fail` -/")
    L.append("def invalidCountsHardFail : Bool := true")
    L.append("/-- `initiate` ends in `mk_other_result()` on every path -/")
    L.append("def initiateAnswersOther : Bool := true")
    L.append("")
    L.append("/-- `route_monitoring_preprocessing`: the phase entered when the last pending End-of-RIB is removed (`none` = `ControlFlow::Continue`) -/")
    L.append("def eorCompletesTo : Phase → Option Phase")
    for p in PHASES:
        L.append(f"  | .{lp(p)} => {opt(eor_to.get(p))}")
    L.append("")
    L.append("/-- `terminate`: the phase it moves to (with `Update::WithdrawBulk(ids)` when a peer is up, a plain state transition otherwise) -/")
    L.append("def terminateTo : Phase → Option Phase")
    for p in PHASES:
        L.append(f"  | .{lp(p)} => {opt(term_to.get(p))}")
    L.append("")
    L.append("end Rotonda.Generated.BmpDispatch")
    write_if_changed(generated_path(__file__, "BmpDispatch.lean"), "\n".join(L) + "\n")
    ninv = sum(1 for p in PHASES for k in KINDS if tables[p][k] == "invalid")
    print(f"{TOOL}: ok (4 phases x 7 message types, {ninv} rejected)")


run(TOOL, main)
