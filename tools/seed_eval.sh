#!/bin/bash
# Confirm a seeded change and run our checks against it, all in a scratch worktree.
#   tools/seed_eval.sh <seed-id> <property ids to check...>
# expects /verif/seeded/<seed-id>/{patch.diff,demo.diff,meta.json}; demo filter in meta.json "demo_filter".
# Writes /verif/seeded/<seed-id>/eval.log and prints a summary. Never touches /repo's working tree.
set -u
SID=$1; shift
VR=${VERIF_ROOT:-/verif}   # where the checks are run from (a snapshot of /verif keeps an evaluation independent of edits in progress)
D=/verif/seeded/$SID
WT=/tmp/seedeval/$SID
LOG=$D/eval.log
: > $LOG
rm -rf $WT; git -C /repo worktree prune
git -C /repo worktree add -q --detach $WT HEAD >>$LOG 2>&1 || { echo "worktree failed"; exit 2; }
cp -r /repo/target $WT/target 2>/dev/null
FILTER=$(python3 -c "import json;print(json.load(open('$D/meta.json')).get('demo_filter',''))")
cd $WT
run() { echo "--- $*" >>$LOG; "$@" >>$LOG 2>&1; }
# 1. change + demo: demo must FAIL
git apply $D/patch.diff >>$LOG 2>&1 || { echo "patch does not apply"; exit 2; }
DEMO_OK=1
git apply $D/demo.diff >>$LOG 2>&1 || { DEMO_OK=0; echo "demo no longer applies to this tree (later hook/fix commits touched its context); it was confirmed when the seed was collected" | tee -a $LOG; }
if [ -n "$FILTER" ] && [ $DEMO_OK = 1 ]; then
  CARGO_NET_OFFLINE=true timeout 900 cargo test --offline --lib -- $FILTER >$D/demo_with.log 2>&1; WITH=$?
  git apply -R $D/patch.diff
  CARGO_NET_OFFLINE=true timeout 900 cargo test --offline --lib -- $FILTER >$D/demo_without.log 2>&1; WITHOUT=$?
  git apply $D/patch.diff
else WITH=skip; WITHOUT=skip; fi
echo "demo with change rc=$WITH (expect non-zero); without rc=$WITHOUT (expect 0)" | tee -a $LOG
# 2. change only: existing suite must pass
[ $DEMO_OK = 1 ] && git apply -R $D/demo.diff
# the three tests BASELINE.json lists as flaky (they can spin forever and eat memory on a loaded machine) are skipped
CARGO_NET_OFFLINE=true timeout 1200 cargo test --offline --workspace --no-fail-fast -- --skip connection_accepted_count_metric_should_work --skip listener_bound_count_metric_should_work --skip retry_with_backoff_on_accept_error >$D/suite.log 2>&1; SUITE=$?
echo "existing suite with change rc=$SUITE: $(grep -E '^test result' $D/suite.log | head -1)" | tee -a $LOG
# 3. our checks against the changed tree
for P in "$@"; do
  (cd $VR && VERIF_REPO=$WT ./check $P > $D/check_$P.log 2>&1); RC=$?
  echo "check $P rc=$RC: $(grep -E '^VIOLATION' $D/check_$P.log | head -2 | tr '\n' ' ')" | tee -a $LOG
done
cd /
TAG=$(python3 -c "import hashlib;print(hashlib.md5(b'$WT').hexdigest()[:8])")
rm -rf $VR/out/alt-$TAG
git -C /repo worktree remove --force $WT; rm -rf $WT
