#!/usr/bin/env python3
"""tools/attach_extract.py <prop> <area> <Props module> <obligation prefix> [--tie]
Attach an extraction tie of checks/Xextract.json to a claimed property's config."""
import json, sys
prop, area, mod, prefix = sys.argv[1:5]
x = json.load(open('/verif/checks/Xextract.json'))
p = f'/verif/checks/{prop}.json'; c = json.load(open(p))
ex = c.setdefault('extract', [])
if area not in ex: ex.append(area)
if mod not in c['lean_props']: c['lean_props'].append(mod)
for o in x['obligations']:
    if o.startswith(prefix) and o not in c['obligations']: c['obligations'].append(o)
for t in x['trusted_base'][1:]:
    if t not in c['trusted_base']: c['trusted_base'].append(t)
if '--tie' in sys.argv:
    ties = c.setdefault('extra_ties', [])
    if not any(t['name'] == 'xextract' for t in ties):
        ties.append({"name": "xextract", "engine": "xextract", "driver": "rmodel-extract"})
json.dump(c, open(p, 'w'), indent=1)
print(prop, 'extract', ex, 'obligations', len(c['obligations']))
