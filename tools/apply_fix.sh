#!/bin/bash
# Apply one proposed fix to /repo as a single unguarded "fix:" commit containing only its hunks
# (other builders may have unrelated uncommitted edits in the same files).
#   tools/apply_fix.sh <diff> <commit message file>
set -e
DIFF=$(realpath $1); MSG=$(realpath $2)
cd /repo
git apply --check $DIFF
FILES=$(git apply --numstat $DIFF | awk '{print $3}')
export GIT_INDEX_FILE=/tmp/applyfix.$$.index
git read-tree HEAD
git apply --cached $DIFF
git commit -q -F $MSG
unset GIT_INDEX_FILE
rm -f /tmp/applyfix.$$.index
git apply $DIFF
git reset -q -- $FILES
git log --format='%h %s' -1
