"""Shared helpers of the dispatch-table extractors (tools/extract_<area>.py).

A deliberately small Rust *lexical* toolkit, enough to find a function body and split a `match` into
arms without depending on line layout, comments, or indentation:

  strip(src)            comments (line, nested block) -> spaces; string/char literal *contents* kept
  block_after(code, i)  the balanced `{ … }` starting at the first `{` at or after offset i
  find_fn(code, …)      body of `fn name(` inside an optional `impl …` block
  match_arms(body)      [(pattern, expr)] of a match body, split at top level only
  norm(s)               whitespace-free text (for shape comparison)

Every helper raises Lost(reason) when the shape is not recognised; extractors turn that into
`exit 1` with the reason as the last output line (never a silently smaller table)."""
import os, re, sys


class Lost(Exception):
    pass


def strip(src):
    """Replace comments by spaces (newlines kept, so offsets/line numbers survive). Strings are kept."""
    out = []
    i, n = 0, len(src)
    while i < n:
        c = src[i]
        two = src[i:i + 2]
        if two == "//":
            j = src.find("\n", i)
            j = n if j < 0 else j
            out.append(" " * (j - i)); i = j
        elif two == "/*":
            depth, j = 1, i + 2
            while j < n and depth:
                if src[j:j + 2] == "/*": depth += 1; j += 2
                elif src[j:j + 2] == "*/": depth -= 1; j += 2
                else: j += 1
            if depth:
                raise Lost("unterminated block comment")
            out.append("".join(ch if ch == "\n" else " " for ch in src[i:j])); i = j
        elif c == '"':
            j = i + 1
            while j < n and src[j] != '"':
                j += 2 if src[j] == "\\" else 1
            out.append(src[i:j + 1]); i = j + 1
        elif c == "r" and re.match(r'r#*"', src[i:]) and (i == 0 or not (src[i - 1].isalnum() or src[i - 1] == "_")):
            m = re.match(r'r(#*)"', src[i:])
            close = '"' + m.group(1)
            j = src.find(close, i + len(m.group(0)))
            if j < 0:
                raise Lost("unterminated raw string")
            out.append(src[i:j + len(close)]); i = j + len(close)
        elif c == "'":
            m = re.match(r"'(\\.[^']*|[^'\\])'", src[i:])
            if m:           # char literal ('{', '\n', '\u{1F}')
                out.append(m.group(0)); i += len(m.group(0))
            else:           # lifetime
                out.append(c); i += 1
        else:
            out.append(c); i += 1
    return "".join(out)


OPEN, CLOSE = "([{", ")]}"


def _skip_literal(code, i):
    """If a string/char literal starts at i return the offset after it, else i."""
    c = code[i]
    if c == '"':
        j = i + 1
        while j < len(code) and code[j] != '"':
            j += 2 if code[j] == "\\" else 1
        return j + 1
    if c == "'":
        m = re.match(r"'(\\.[^']*|[^'\\])'", code[i:])
        if m:
            return i + len(m.group(0))
    return i


def block_after(code, i):
    """(start, end) offsets of the balanced `{…}` whose `{` is the first one at or after i (end exclusive)."""
    s = code.find("{", i)
    if s < 0:
        raise Lost("no `{` found")
    depth, j = 0, s
    while j < len(code):
        k = _skip_literal(code, j)
        if k != j:
            j = k; continue
        if code[j] == "{": depth += 1
        elif code[j] == "}":
            depth -= 1
            if depth == 0:
                return s, j + 1
        j += 1
    raise Lost("unbalanced braces")


def inner(code, span):
    return code[span[0] + 1:span[1] - 1]


def find_all_blocks(code, header_re):
    """Inner text of every `{…}` block that follows a match of header_re (header must end before the `{`)."""
    res = []
    for m in re.finditer(header_re, code):
        between = code[m.end():code.find("{", m.end())] if "{" in code[m.end():] else "x"
        if between.strip() and not re.fullmatch(r"\s*where\b[^{;]*", between):
            continue
        res.append(inner(code, block_after(code, m.end())))
    return res


def find_fn(code, name, within=None, what=None):
    """Body (inner text) of the unique `fn name` (optionally inside blocks opened by regex `within`)."""
    scopes = [code]
    if within is not None:
        scopes = find_all_blocks(code, within)
        if not scopes:
            raise Lost(f"anchor lost: `{what or within}` block")
    found = []
    for sc in scopes:
        for m in re.finditer(r"\bfn\s+" + re.escape(name) + r"\s*(?:<[^{;]*?>)?\s*\(", sc):
            # the parameter list and return type end at the first `{` that is not inside (), <> is ignored
            j, depth = m.end() - 1, 0
            while j < len(sc):
                if sc[j] in "([": depth += 1
                elif sc[j] in ")]": depth -= 1
                elif sc[j] == "{" and depth == 0: break
                elif sc[j] == ";" and depth == 0: j = -1; break
                j += 1
            if j < 0 or j >= len(sc):
                continue
            found.append(inner(sc, block_after(sc, j)))
    if len(found) != 1:
        raise Lost(f"anchor lost: expected exactly one `fn {name}`" + (f" in `{what or within}`" if within else "") + f", found {len(found)}")
    return found[0]


def split_top(text, sep=","):
    """Split at top-level occurrences of the single character sep."""
    parts, depth, cur, j = [], 0, [], 0
    while j < len(text):
        k = _skip_literal(text, j)
        if k != j:
            cur.append(text[j:k]); j = k; continue
        c = text[j]
        if c in OPEN: depth += 1
        elif c in CLOSE: depth -= 1
        if c == sep and depth == 0:
            parts.append("".join(cur)); cur = []
        else:
            cur.append(c)
        j += 1
    parts.append("".join(cur))
    return parts


def match_arms(body):
    """[(pattern, expr)] of the inside of a `match x { … }`; both stripped. Guards stay in the pattern."""
    arms, j, n = [], 0, len(body)
    while True:
        while j < n and body[j] in " \t\r\n,":
            j += 1
        if j >= n:
            return arms
        # pattern: up to the top-level `=>`
        depth, s = 0, j
        while j < n:
            k = _skip_literal(body, j)
            if k != j:
                j = k; continue
            c = body[j]
            if c in OPEN: depth += 1
            elif c in CLOSE: depth -= 1
            elif depth == 0 and body[j:j + 2] == "=>":
                break
            j += 1
        if j >= n:
            raise Lost("match arm without `=>`: " + body[s:s + 50].strip())
        pat = body[s:j].strip()
        j += 2
        while j < n and body[j] in " \t\r\n":
            j += 1
        if j < n and body[j] == "{":
            sp = block_after(body, j)
            # `{ … }.method()` / `{…} as T` are not used in the anchored code; a block arm ends at its brace
            expr = body[sp[0]:sp[1]]
            j = sp[1]
            if re.match(r"\s*(?:[.?]|as\b)", body[j:]):
                raise Lost("block arm followed by an operator: " + body[j:j + 30].strip())
        else:
            depth, s = 0, j
            while j < n:
                k = _skip_literal(body, j)
                if k != j:
                    j = k; continue
                c = body[j]
                if c in OPEN: depth += 1
                elif c in CLOSE: depth -= 1
                elif c == "," and depth == 0:
                    break
                j += 1
            expr = body[s:j].strip()
        arms.append((pat, expr))


def find_match(code, scrutinee_re, what):
    """Arms of the unique `match <scrutinee> {…}` in code."""
    ms = list(re.finditer(r"\bmatch\s+" + scrutinee_re + r"\s*\{", code))
    if len(ms) != 1:
        raise Lost(f"anchor lost: expected exactly one `match {what}`, found {len(ms)}")
    return match_arms(inner(code, block_after(code, ms[0].end() - 1)))


def norm(s):
    return re.sub(r"\s+", "", s)


def unbrace(expr):
    """`{ e }` -> `e` (repeatedly), stripped; trailing `;`-less single expression blocks only."""
    e = expr.strip()
    while e.startswith("{") and block_after(e, 0)[1] == len(e):
        e = e[1:-1].strip()
    return e


def alternatives(pat):
    """Top-level `|` alternatives of a pattern (guards not supported: raise)."""
    if re.search(r"\bif\b", pat):
        raise Lost("match arm with a guard: " + pat[:60])
    return [p.strip() for p in split_top(pat, "|") if p.strip()]


def read_source(repo, rel, tool):
    p = os.path.join(repo, rel)
    try:
        return open(p).read()
    except OSError as e:
        print(f"{tool}: cannot read {p}: {e}")
        sys.exit(1)


def drop_hooks(src):
    """cfg(feature = "verif-hooks") items are pause points / harness access, not behaviour: drop the
    attribute together with the statement or item that follows it."""
    out, i = [], 0
    pat = re.compile(r'[ \t]*#\[cfg\(feature\s*=\s*"verif-hooks"\)\]\s*')
    while True:
        m = pat.search(src, i)
        if not m:
            out.append(src[i:]); break
        out.append(src[i:m.start()])
        j = m.end()
        # the guarded thing ends at the first top-level `;` or at the end of its first `{…}` block
        depth, k = 0, j
        while k < len(src):
            q = _skip_literal(src, k)
            if q != k:
                k = q; continue
            c = src[k]
            if c in "([": depth += 1
            elif c in ")]": depth -= 1
            elif c == ";" and depth == 0:
                k += 1; break
            elif c == "{" and depth == 0:
                k = block_after(src, k)[1]; break
            k += 1
        i = k
    return "".join(out)


def write_if_changed(path, text):
    os.makedirs(os.path.dirname(path), exist_ok=True)
    old = open(path).read() if os.path.exists(path) else None
    if old != text:
        open(path, "w").write(text)


def generated_path(tool_file, name):
    return os.path.join(os.path.dirname(os.path.abspath(tool_file)), "..", "lean", "RotondaModel", "Generated", name)


def run(tool, main):
    try:
        main()
    except Lost as e:
        print(f"{tool}: {e}")
        sys.exit(1)
