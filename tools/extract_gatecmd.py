#!/usr/bin/env python3
"""extract_gatecmd.py REPO — regenerate lean/RotondaModel/Generated/GateCmd.lean from src/comms.rs:

* the variants of `enum GateCommand` (read from the source, not hard-coded);
* `Gate::process`, arm by arm: who may receive the command (`assert!(!self.is_clone())` = root gate only,
  `assert!(self.is_clone())` = clone only, `GateState::Clone(_) => unreachable!()` = root only, otherwise any), how the
  arm leaves the loop (falls through to the status check / `return Ok(GateStatus::…)` / `return Err(Terminated)`) and
  which command it hands to `notify_clones` (directly or through `subscribe` / `unsubscribe`);
* `impl Clone for GateCommand`: the clonable variants (every other one panics "Unclonable GateCommand").

Arm order, comments, layout are immaterial; a catch-all arm in `process`, a variant without an arm, or an arm with two
different guards is a loud failure (exit 1)."""
import os, re, sys
sys.path.insert(0, os.path.dirname(os.path.abspath(__file__)))
from extractlib import *

TOOL = "extract_gatecmd"


def main():
    repo = sys.argv[1] if len(sys.argv) > 1 else "/repo"
    code = strip(drop_hooks(read_source(repo, "src/comms.rs", TOOL)))
    em = re.search(r"\benum\s+GateCommand\s*\{", code)
    if not em:
        raise Lost("anchor lost: `enum GateCommand`")
    variants = []
    for part in split_top(inner(code, block_after(code, em.end() - 1))):
        m = re.match(r"\s*(?:#\[[^\]]*\]\s*)*([A-Z]\w*)\b", part)
        if m:
            variants.append(m.group(1))
        elif part.strip():
            raise Lost("enum GateCommand: variant not understood: " + part.strip()[:40])
    if len(variants) != len(set(variants)) or not variants:
        raise Lost("enum GateCommand: no or duplicate variants")

    gate_impl = r"\bimpl\s+Gate\b"
    via = {}
    for fn in ["subscribe", "unsubscribe"]:
        b = norm(find_fn(code, fn, within=gate_impl, what="impl Gate"))
        ns = set(re.findall(r"self\.notify_clones\(GateCommand::(\w+)", b))
        if len(ns) != 1:
            raise Lost(f"Gate::{fn} no longer notifies its clones of exactly one command")
        via[fn] = ns.pop()

    body = find_fn(code, "process", within=gate_impl, what="impl Gate")
    ms = list(re.finditer(r"\bmatch\s+command\s*\{", body))
    if len(ms) != 1:
        raise Lost("anchor lost: `match command { … }` in Gate::process")
    after = norm(body[block_after(body, ms[0].end() - 1)[1]:])
    if not re.match(r"let(\w+)=self\.get_gate_status\(\);if\1!=status\{returnOk\(\1\);\}\}$", after):
        raise Lost("Gate::process: the status check after `match command { … }` is no longer recognised")
    guard, exit_, notif = {}, {}, {}
    for pat, expr in match_arms(inner(body, block_after(body, ms[0].end() - 1))):
        e = norm(expr)
        for alt in alternatives(pat):
            m = re.fullmatch(r"GateCommand::(\w+)\s*(?:\{.*\})?", alt, re.S)
            if not m:
                raise Lost("Gate::process: pattern not understood (a catch-all arm would hide new commands): " + alt[:50])
            name = m.group(1)
            if name not in variants:
                raise Lost(f"Gate::process names GateCommand::{name}, which the enum does not have")
            if name in guard:
                raise Lost(f"Gate::process names GateCommand::{name} twice")
            gs = set()
            if re.search(r"assert!\(!self\.is_clone\(\)", e): gs.add("rootOnly")
            if re.search(r"assert!\(self\.is_clone\(\)", e): gs.add("cloneOnly")
            if re.search(r"GateState::Clone\(_\)=>unreachable!\(\)", e): gs.add("rootOnly")
            if re.search(r"GateState::Normal\(_\)=>unreachable!\(\)", e): gs.add("cloneOnly")
            if len(gs) > 1:
                raise Lost(f"Gate::process: the arm for {name} has contradictory guards")
            guard[name] = gs.pop() if gs else "any"
            rets = set(re.findall(r"return(Ok\(GateStatus::|Err\(Terminated\))", e))
            if len(rets) > 1:
                raise Lost(f"Gate::process: the arm for {name} returns in two different ways")
            exit_[name] = "cont" if not rets else "ret" if rets.pop().startswith("Ok") else "term"
            ns = set(re.findall(r"self\.notify_clones\(GateCommand::(\w+)", e))
            for fn in via:
                if re.search(r"self\." + fn + r"\(", e):
                    ns.add(via[fn])
            if len(ns) > 1:
                raise Lost(f"Gate::process: the arm for {name} notifies clones of two commands")
            notif[name] = ns.pop() if ns else None
            if notif[name] is not None and notif[name] not in variants:
                raise Lost(f"Gate::process: {name} notifies an unknown command")
    missing = [v for v in variants if v not in guard]
    if missing:
        raise Lost("Gate::process has no arm for GateCommand::" + ", ".join(missing))

    cb = find_fn(code, "clone", within=r"\bimpl\s+Clone\s+for\s+GateCommand\b", what="impl Clone for GateCommand")
    cm = list(re.finditer(r"\bmatch\s+self\s*\{", cb))
    if len(cm) != 1:
        raise Lost("anchor lost: `match self { … }` in impl Clone for GateCommand")
    clonable, others_panic = [], False
    for pat, expr in match_arms(inner(cb, block_after(cb, cm[0].end() - 1))):
        e = norm(unbrace(expr))
        for alt in alternatives(pat):
            m = re.fullmatch(r"Self::(\w+)\s*(?:\{.*\})?", alt, re.S)
            if m:
                if not re.match(r"Self::" + m.group(1) + r"\b", e) or m.group(1) not in variants:
                    raise Lost(f"impl Clone for GateCommand: the arm for {m.group(1)} does not rebuild the same variant")
                clonable.append(m.group(1))
            elif alt == "_":
                if not e.startswith("panic!("):
                    raise Lost("impl Clone for GateCommand: the catch-all arm no longer panics")
                others_panic = True
            else:
                raise Lost("impl Clone for GateCommand: pattern not understood: " + alt[:40])
    if not others_panic and sorted(clonable) != sorted(variants):
        raise Lost("impl Clone for GateCommand covers neither every variant nor has a catch-all")

    lo = lambda v: v[0].lower() + v[1:]
    L = []
    L.append("/-! GENERATED by tools/extract_gatecmd.py from src/comms.rs — do not edit. -/")
    L.append("namespace Rotonda.Generated.GateCmd")
    L.append("")
    L.append("/-- the variants of `enum GateCommand`, in declaration order -/")
    L.append("inductive Cmd\n  | " + " | ".join(lo(v) for v in variants) + "\n  deriving DecidableEq, Repr")
    L.append("def all : List Cmd := [" + ", ".join("." + lo(v) for v in variants) + "]")
    L.append("def kindNames : List String := [" + ", ".join('"' + lo(v) + '"' for v in variants) + "]")
    L.append("")
    L.append("/-- who may receive the command in `Gate::process` (anyone else panics on an `assert!` / `unreachable!`) -/")
    L.append("inductive Guard\n  | rootOnly | cloneOnly | any\n  deriving DecidableEq, Repr")
    L.append("def guard : Cmd → Guard")
    for v in variants:
        L.append(f"  | .{lo(v)} => .{guard[v]}")
    L.append("")
    L.append("/-- how the arm leaves: `cont` = on to the status check and the next command, `ret` = `return Ok(GateStatus::…)`, `term` = `return Err(Terminated)` -/")
    L.append("inductive Exit\n  | cont | ret | term\n  deriving DecidableEq, Repr")
    L.append("def exit : Cmd → Exit")
    for v in variants:
        L.append(f"  | .{lo(v)} => .{exit_[v]}")
    L.append("")
    L.append("/-- the command the arm hands to `notify_clones` (directly, or inside `subscribe` / `unsubscribe`) -/")
    L.append("def notifies : Cmd → Option Cmd")
    for v in variants:
        L.append(f"  | .{lo(v)} => " + ("none" if notif[v] is None else f"some .{lo(notif[v])}"))
    L.append("")
    L.append("/-- `impl Clone for GateCommand`: `false` = `panic!(\"Internal error: Unclonable GateCommand\")`; `notify_clones` clones the command once per open clone sender -/")
    L.append("def clonable : Cmd → Bool")
    for v in variants:
        L.append(f"  | .{lo(v)} => " + ("true" if v in clonable else "false"))
    L.append("")
    L.append("end Rotonda.Generated.GateCmd")
    write_if_changed(generated_path(__file__, "GateCmd.lean"), "\n".join(L) + "\n")
    print(f"{TOOL}: ok ({len(variants)} commands; root only: " + ",".join(v for v in variants if guard[v] == "rootOnly") + "; clone only: " + ",".join(v for v in variants if guard[v] == "cloneOnly") + ")")


run(TOOL, main)
