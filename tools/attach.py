#!/usr/bin/env python3
"""tools/attach.py <prop> <scratch cfg id> <tie name> --obl a,b,c|all [--known_from A,B] [--seen_from A,B] [--text "..."]
Attach a bridge tie (engine/driver/lean_props of checks/<scratch>.json) to a claimed property's check config."""
import json, sys, argparse
ap = argparse.ArgumentParser()
ap.add_argument('prop'); ap.add_argument('scratch'); ap.add_argument('tie')
ap.add_argument('--obl', default='all'); ap.add_argument('--known_from', default=''); ap.add_argument('--seen_from', default='')
ap.add_argument('--text', default=''); ap.add_argument('--trusted', default='')
a = ap.parse_args()
x = json.load(open(f'/verif/checks/{a.scratch}.json'))
p = f'/verif/checks/{a.prop}.json'; c = json.load(open(p))
ties = c.setdefault('extra_ties', [])
if not any(t['name'] == a.tie for t in ties):
    ties.append({"name": a.tie, "engine": x['engine'], "driver": x['driver']})
for m in x['lean_props']:
    if m not in c['lean_props']: c['lean_props'].append(m)
want = x['obligations'] if a.obl == 'all' else []
if a.obl != 'all':
    for n in a.obl.split(','):
        n = n.strip()
        m = [o for o in x['obligations'] if o == n or o.endswith('.' + n)]
        if not m: sys.exit(f'obligation {n} not in {a.scratch}')
        want += m
for o in want:
    if o not in c['obligations']: c['obligations'].append(o)
for key, val in (('known_from', a.known_from), ('seen_from', a.seen_from)):
    if val:
        k = c.setdefault(key, [])
        for q in val.split(','):
            if q and q != a.prop and q not in k: k.append(q)
if a.text and a.text[:40] not in c['manifest']['text']: c['manifest']['text'] += ' ' + a.text
if a.trusted and a.trusted not in c['trusted_base']: c['trusted_base'].append(a.trusted)
json.dump(c, open(p, 'w'), indent=1)
print(a.prop, 'ties', [t['name'] for t in ties], 'obligations', len(c['obligations']), 'known_from', c.get('known_from'), 'seen_from', c.get('seen_from'))
