#!/usr/bin/env python3
"""Dispatcher: `extract.py <area>... --repo PATH` runs tools/extract_<area>.py PATH for each area.
Each extractor regenerates lean/RotondaModel/Generated/<Area>.lean from the source text with anchored
regexes and must exit non-zero with a one-line reason on its last output line when an anchor no longer matches."""
import os, subprocess, sys
args = sys.argv[1:]
repo = "/repo"
if "--repo" in args:
    i = args.index("--repo"); repo = args[i + 1]; del args[i:i + 2]
here = os.path.dirname(os.path.abspath(__file__))
for area in args:
    rc = subprocess.call([sys.executable, os.path.join(here, f"extract_{area}.py"), repo])
    if rc != 0:
        sys.exit(rc)
