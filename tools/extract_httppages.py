#!/usr/bin/env python3
"""extract_httppages.py REPO — regenerate lean/RotondaModel/Generated/HttpPages.lean from the HTML-producing
code of the manager's `/status/graph[/traces/<n>]` processor (`Manager::mk_svg_http_processor`, src/manager.rs).

Every `format!(r###"…"###, args…)` and `push_str("…")` of that function becomes a `Template` (the `Seg` type
of Model/Escape.lean): literal text and holes, every hole paired with the expression that reaches it and
classified
  escaped  the expression is (a let-binding of) `html_escape::encode_safe(…)`
  safe     numeric by construction: the `u8` parsed from the path, the `enumerate()` index, a `DateTime<Utc>`
           field (checked in src/tracing.rs)
  nested   a String assembled by other code (`svg` = LinkReport::get_svg, `traces` = the table built above)
  raw      anything else — conservative default (a `String` field interpolated as it is)
Anchored: exits 1 with a one-line reason when the function, its macro calls or the expected holes are not found.
Also records how the trace id is taken from the path (the `strip_prefix("/traces/")` + `parse::<u8>()` anchor)."""
import os, re, sys

repo = sys.argv[1] if len(sys.argv) > 1 and not sys.argv[1].startswith("--") else "/repo"
if "--repo" in sys.argv:
    repo = sys.argv[sys.argv.index("--repo") + 1]
out_path = os.path.join(os.path.dirname(os.path.abspath(__file__)), "..", "lean", "RotondaModel", "Generated", "HttpPages.lean")


def die(msg):
    print(f"extract_httppages: {msg}")
    sys.exit(1)


try:
    src = open(os.path.join(repo, "src/manager.rs"), encoding="utf-8").read()
    tracing = open(os.path.join(repo, "src/tracing.rs"), encoding="utf-8").read()
except OSError as e:
    die(f"cannot read source: {e}")

m = re.search(r"fn mk_svg_http_processor\(", src)
if not m:
    die("fn mk_svg_http_processor not found in src/manager.rs")
end = src.find("fn mk_tracer_http_processor(", m.end())
if end < 0:
    die("fn mk_tracer_http_processor (end anchor) not found")
body = src[m.end():end]
# drop line comments (none of the literals of this function contains `//` outside the xmlns URL, which is in a raw string)
def strip_line_comments(text):
    out = []
    in_raw = False
    for line in text.split("\n"):
        if not in_raw:
            if 'r###"' in line and '"###' not in line.split('r###"', 1)[1]:
                in_raw = True
                out.append(line)
                continue
            s = line.lstrip()
            if s.startswith("//"):
                continue
            out.append(line)
        else:
            out.append(line)
            if '"###' in line:
                in_raw = False
    return "\n".join(out)


body = strip_line_comments(body)

# --- how the trace id is read from the path
if not re.search(r'\.strip_prefix\("/traces/"\)\s*\.and_then\(\|id\|\s*id\.parse::<u8>\(\)\.ok\(\)\)', body):
    die('anchor `.strip_prefix("/traces/").and_then(|id| id.parse::<u8>().ok())` not found (trace id parsing changed)')
if not re.search(r'const REL_BASE_URL: &str = "/status/graph";', body):
    die('anchor REL_BASE_URL = "/status/graph" not found')
if 'header("Content-Type", "text/html")' not in body:
    die('anchor Content-Type text/html not found')
if not re.search(r"for \(idx, msg\) in trace\.msgs\(\)\.iter\(\)\.enumerate\(\)", body):
    die("anchor `for (idx, msg) in trace.msgs().iter().enumerate()` not found")
if not re.search(r"pub timestamp: DateTime<Utc>", tracing):
    die("anchor TraceMsg.timestamp: DateTime<Utc> not found in src/tracing.rs")
if not re.search(r"pub msg: String", tracing):
    die("anchor TraceMsg.msg: String not found in src/tracing.rs")

# --- macro calls, in source order
calls = []
for mm in re.finditer(r'format!\(\s*r###"(.*?)"###\s*(?:,(.*?))?\)\s*[;)]', body, re.S):
    args = [a.strip() for a in (mm.group(2) or "").split(",") if a.strip()]
    calls.append((mm.start(), "format", mm.group(1), args))
for mm in re.finditer(r'push_str\(\s*"((?:[^"\\]|\\.)*)"\s*\)', body):
    text = mm.group(1).replace("\\n", "\n").replace('\\"', '"').replace("\\\\", "\\")
    calls.append((mm.start(), "push_str", text, []))
calls.sort()
if len(calls) != 4:
    die(f"expected 4 text-producing calls in mk_svg_http_processor (table head, row, table end, page), found {len(calls)}")

# let-bindings `let x = html_escape::encode_safe(...)`
escaped_lets = set(re.findall(r"let\s+(\w+)\s*=\s*html_escape::encode_safe\(", body))


def classify(expr):
    e = expr.strip().lstrip("&")
    if re.fullmatch(r"html_escape::encode_safe\(.*\)", e) or e in escaped_lets:
        return "escaped", "html_escape::encode_safe"
    if e == "trace_id":
        return "safe", "numeric: u8 parsed from the request path"
    if e == "idx":
        return "safe", "numeric: enumerate() index"
    if e == "msg.timestamp":
        return "safe", "typed: DateTime<Utc> Display"
    if e == "svg":
        return "nested", "String produced by LinkReport::get_svg (layout-rs)"
    if e == "traces":
        return "nested", "String assembled from the table templates"
    return "raw", "String interpolated as it is"


def split_fmt(fmt, args):
    segs, lit, i, pos = [], [], 0, 0
    while i < len(fmt):
        c = fmt[i]
        if c == "{":
            if fmt.startswith("{{", i):
                lit.append("{"); i += 2; continue
            j = fmt.find("}", i)
            if j < 0:
                die("unterminated hole")
            inner = fmt[i + 1:j].split(":")[0].strip()
            if lit:
                segs.append(("lit", "".join(lit))); lit = []
            if inner == "":
                if pos >= len(args):
                    die("positional hole without argument")
                expr = args[pos]; pos += 1
            else:
                expr = inner
                for a in args:
                    mm = re.match(rf"{re.escape(inner)}\s*=\s*(.*)", a)
                    if mm:
                        expr = mm.group(1)
            segs.append(("hole", expr))
            i = j + 1
        elif c == "}":
            if fmt.startswith("}}", i):
                lit.append("}"); i += 2; continue
            die("stray }")
        else:
            lit.append(c); i += 1
    if lit:
        segs.append(("lit", "".join(lit)))
    return segs


def lean_str(s):
    return '"' + s.replace("\\", "\\\\").replace('"', '\\"').replace("\n", "\\n").replace("\t", "\\t") + '"'


names = ["graphTracesHead", "graphTracesRow", "graphTracesEnd", "graphPage"]
expect_holes = [["trace_id"], ["idx", "msg.timestamp", None], [], ["svg", "traces"]]
out = ["/- GENERATED by tools/extract_httppages.py from Manager::mk_svg_http_processor (src/manager.rs) — do not edit. -/",
       "import RotondaModel.Model.Escape", "namespace Rotonda.HttpPages.Generated", "open Rotonda.Escape", ""]
n_holes = n_raw = 0
for (name, (_, kind, fmt, args), exp) in zip(names, calls, expect_holes):
    segs = split_fmt(fmt, args) if kind == "format" else [("lit", fmt)]
    holes = [s[1] for s in segs if s[0] == "hole"]
    if len(holes) != len(exp) or any(e is not None and e != h.lstrip("&") for e, h in zip(exp, holes)):
        die(f"template {name}: holes {holes} do not match the expected shape {exp}")
    lines = []
    for s in segs:
        if s[0] == "lit":
            lines.append(f"  .lit {lean_str(s[1])}")
        else:
            cls, why = classify(s[1])
            n_holes += 1
            n_raw += cls == "raw"
            lines.append(f"  .hole {lean_str(s[1])} .{cls} false {lean_str(why)}")
    out.append(f"def {name} : Template := [\n" + ",\n".join(lines) + "]\n")
# the expression of the row's message hole, by name, for the page assembly
row_segs = split_fmt(calls[1][2], calls[1][3])
msg_expr = [s[1] for s in row_segs if s[0] == "hole"][2]
out.append(f"/-- the expression that reaches the `What` column of a trace row -/\ndef traceMsgExpr : String := {lean_str(msg_expr)}\n")
out.append("def templates : List (String × Template) := [\n" + ",\n".join(f'  ("{n}", {n})' for n in names) + "]\n")
out.append("end Rotonda.HttpPages.Generated")
text = "\n".join(out) + "\n"
old = open(out_path, encoding="utf-8").read() if os.path.exists(out_path) else None
if old != text:
    open(out_path, "w", encoding="utf-8").write(text)
print(f"extract_httppages: 4 templates, {n_holes} holes, {n_raw} raw")
