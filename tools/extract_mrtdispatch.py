#!/usr/bin/env python3
"""extract_mrtdispatch.py REPO — regenerate lean/RotondaModel/Generated/MrtDispatch.lean from

* src/units/mrt_file_in/unit.rs `process_file`: the decoder chosen by file extension; which `AfiSafiType` of a
  TABLE_DUMP_V2 RIB entry is imported (as the `RotondaRoute` of the same name) and which is skipped (`continue`);
  which handler each `Bgp4Mp` variant is given to (`process_state_change` / `process_message`);
* the dependency routecore (version of /repo's Cargo.lock, source under $CARGO_HOME/registry/src/*/routecore-<v>/src/mrt.rs
  or <repo>/vendor/routecore*/src/mrt.rs): the numbers of `TableDumpv2SubType` / `Bgp4MpSubType`, which TABLE_DUMP_V2
  subtypes `RibEntryIterator::next` turns into entries (and of which family) and which hit `todo!()`, which BGP4MP
  subtypes `UpdateIterator::next` parses and which hit `todo!()`, and that other MRT types are skipped there.

Arm order, `|`-grouping, comments, layout are immaterial; unknown shapes are loud failures (exit 1)."""
import glob, os, re, sys
sys.path.insert(0, os.path.dirname(os.path.abspath(__file__)))
from extractlib import *

TOOL = "extract_mrtdispatch"
AFISAFI = ["Ipv4Unicast", "Ipv4Multicast", "Ipv4MplsUnicast", "Ipv4MplsVpnUnicast", "Ipv4RouteTarget", "Ipv4FlowSpec",
           "Ipv6Unicast", "Ipv6Multicast", "Ipv6MplsUnicast", "Ipv6MplsVpnUnicast", "Ipv6FlowSpec", "L2VpnVpls", "L2VpnEvpn", "Unsupported"]
BGP4MP = ["StateChange", "Message", "MessageAs4", "StateChangeAs4"]


def routecore_source(repo):
    lock = read_source(repo, "Cargo.lock", TOOL)
    m = re.search(r'name = "routecore"\s*\nversion = "([^"]+)"', lock)
    if not m:
        raise Lost("Cargo.lock has no routecore entry")
    ver = m.group(1)
    home = os.environ.get("CARGO_HOME", os.path.expanduser("~/.cargo"))
    cands = sorted(glob.glob(os.path.join(repo, "vendor", "routecore*", "src", "mrt.rs"))
                   + glob.glob(os.path.join(home, "registry", "src", "*", f"routecore-{ver}", "src", "mrt.rs")))
    if not cands:
        raise Lost(f"source of the dependency routecore {ver} (src/mrt.rs) not found under {home}/registry/src or {repo}/vendor")
    return ver, open(cands[0]).read()


def typeenum(code, name):
    m = re.search(r"typeenum!\(\s*" + name + r"\s*,\s*u16\s*,\s*\{", code)
    if not m:
        raise Lost(f"routecore: anchor lost: typeenum!({name}, u16, {{ … }})")
    pairs = re.findall(r"(\d+)\s*=>\s*(\w+)", inner(code, block_after(code, m.end() - 1)))
    if not pairs:
        raise Lost(f"routecore: typeenum!({name}) is empty")
    return [(int(n), v) for n, v in pairs]


def main():
    repo = sys.argv[1] if len(sys.argv) > 1 else "/repo"
    code = strip(drop_hooks(read_source(repo, "src/units/mrt_file_in/unit.rs", TOOL)))
    pf = find_fn(code, "process_file")

    # --- decoder by extension
    comp, comp_default = {}, None
    em = list(re.finditer(r"\bmatch\s+filename\s*\.as_path\(\)\s*\.extension\(\)\s*\.and_then\(\s*std::ffi::OsStr::to_str\s*\)\s*\{", pf))
    if len(em) != 1:
        raise Lost("anchor lost: `match filename.as_path().extension().and_then(OsStr::to_str) { … }` in process_file")
    for pat, expr in match_arms(inner(pf, block_after(pf, em[0].end() - 1))):
        e = norm(expr)
        kind = "gzip" if "GzDecoder::new(" in e else "bzip2" if "BzDecoder::new(" in e else "plain" if re.fullmatch(r"\{?MrtFile::new\(&mmap\[\.\.\]\)\}?", e) else None
        if kind is None or (kind != "plain" and not re.search(r"\.read_to_end\(&mutbuf\).*MrtFile::new\(&buf\[\.\.\]\)", e)):
            raise Lost("process_file: decoder arm not understood: " + e[:70])
        for alt in alternatives(pat):
            lm = re.fullmatch(r'Some\(\s*"([^"]+)"\s*\)', alt)
            if lm:
                if lm.group(1) in comp:
                    raise Lost(f"process_file: extension \"{lm.group(1)}\" named twice")
                comp[lm.group(1)] = kind
            elif alt == "_":
                comp_default = kind
            else:
                raise Lost("process_file: extension pattern not understood: " + alt[:40])
    if comp_default is None:
        raise Lost("process_file: the extension match has no catch-all arm")

    # --- dump part: families
    if not re.search(r"ifletOk\((\w+)\)=mrt_file\.pi\(\)\{", norm(pf)):
        raise Lost("process_file: `if let Ok(peer_index_table) = mrt_file.pi() {` lost (the dump part is no longer conditional on a peer index table)")
    am = list(re.finditer(r"\bmatch\s+afisafi\s*\{", pf))
    if len(am) != 1:
        raise Lost("anchor lost: `match afisafi { … }` in process_file")
    fam, fam_default = {}, None
    for pat, expr in match_arms(inner(pf, block_after(pf, am[0].end() - 1))):
        e = norm(unbrace(expr)).rstrip(";")
        for alt in alternatives(pat):
            m = re.fullmatch(r"AfiSafiType::(\w+)\s*(?:\(.*\))?", alt)
            if m:
                if m.group(1) not in AFISAFI:
                    raise Lost(f"process_file: unknown AfiSafiType::{m.group(1)}")
                if m.group(1) in fam:
                    raise Lost(f"process_file: AfiSafiType::{m.group(1)} named twice")
                if re.fullmatch(r"(?:debug!\(.*?\);)?continue", e):
                    fam[m.group(1)] = False
                elif re.fullmatch(r"RotondaRoute::" + m.group(1) + r"\(prefix\.try_into\(\)\.map_err\(MrtError::other\)\?,RotondaPaMap\(.*raw_attr\)\),?\)", e):
                    fam[m.group(1)] = True
                else:
                    raise Lost(f"process_file: arm for AfiSafiType::{m.group(1)} not understood: {e[:60]}")
            elif alt == "_":
                if not re.fullmatch(r"(?:debug!\(.*?\);)?continue", e):
                    raise Lost("process_file: the catch-all arm of `match afisafi` is not a skip")
                fam_default = False
            else:
                raise Lost("process_file: pattern of `match afisafi` not understood: " + alt[:50])
    for a in AFISAFI:
        if a not in fam:
            if fam_default is None:
                raise Lost(f"process_file: `match afisafi` has no arm for {a}")
            fam[a] = fam_default
    if "Update::Single(Payload::new(" not in norm(pf):
        raise Lost("process_file: a dump entry is no longer sent as `Update::Single(Payload::new(rr, ctx, None))`")

    # --- messages part
    mm = list(re.finditer(r"\bfor\s+(\w+)\s+in\s+mrt_file\.messages\(\)\s*\{\s*match\s+\1\s*\{", pf))
    if len(mm) != 1:
        raise Lost("anchor lost: `for msg in mrt_file.messages() { match msg { … } }`")
    handler = {}
    for pat, expr in match_arms(inner(pf, block_after(pf, mm[0].end() - 1))):
        e = norm(unbrace(expr))
        for alt in alternatives(pat):
            m = re.fullmatch(r"Bgp4Mp::(\w+)\s*\(\s*(\w+)\s*\)", alt)
            if not m or m.group(1) not in BGP4MP:
                raise Lost("process_file: pattern of `match msg` not understood (a catch-all would hide new variants): " + alt[:50])
            v = re.escape(m.group(2))
            if re.match(r"MrtInRunner::process_state_change\(&gate,&ingresses,parent_id," + v + r"(?:\.into\(\))?,?\)\.await;?$", e):
                h = "stateChange"
            elif re.match(r"let\((\w+),(\w+)\)=MrtInRunner::process_message\(&gate,&ingresses,parent_id," + v + r"(?:\.into\(\))?,?\)\.await\?;", e) \
                    and "process_state_change" not in e:
                h = "message"
            else:
                raise Lost(f"process_file: arm for Bgp4Mp::{m.group(1)} not understood: {e[:70]}")
            if m.group(1) in handler:
                raise Lost(f"process_file: Bgp4Mp::{m.group(1)} named twice")
            handler[m.group(1)] = h
    if sorted(handler) != sorted(BGP4MP):
        raise Lost("process_file: `match msg` does not name every Bgp4Mp variant")

    # --- routecore
    ver, rsrc = routecore_source(repo)
    rc = strip(rsrc)
    td_nums = typeenum(rc, "TableDumpv2SubType")
    mp_nums = typeenum(rc, "Bgp4MpSubType")
    em2 = re.search(r"pub\s+enum\s+Bgp4Mp\s*<[^>]*>\s*\{", rc)
    if not em2 or sorted(re.findall(r"\b([A-Z]\w*)\s*\(", inner(rc, block_after(rc, em2.end() - 1)))) != sorted(BGP4MP):
        raise Lost("routecore: `pub enum Bgp4Mp` no longer has exactly the variants " + ", ".join(BGP4MP))
    ui = find_fn(rc, "next", within=r"\bimpl\s*<[^>]*>\s*Iterator\s+for\s+UpdateIterator\s*<[^>]*>", what="impl Iterator for UpdateIterator")
    tm = list(re.finditer(r"\bmatch\s+m\.msg_type\s*\{", ui))
    if len(tm) != 1:
        raise Lost("routecore: anchor lost: `match m.msg_type { … }` in UpdateIterator::next")
    mrt_types, other_skipped = [], False
    for pat, expr in match_arms(inner(ui, block_after(ui, tm[0].end() - 1))):
        e = norm(unbrace(expr)).rstrip(";")
        for alt in alternatives(pat):
            m = re.fullmatch(r"MessageType::(\w+)", alt)
            if m and e == "":
                mrt_types.append(m.group(1))
            elif alt == "_" and e == "continue":
                other_skipped = True
            else:
                raise Lost("routecore: UpdateIterator::next: arm of `match m.msg_type` not understood: " + alt[:40])
    if not other_skipped or not mrt_types:
        raise Lost("routecore: UpdateIterator::next no longer skips MRT types other than the BGP4MP ones")
    sm = list(re.finditer(r"\bmatch\s+subtype\s*\{", ui))
    if len(sm) != 1:
        raise Lost("routecore: anchor lost: `match subtype { … }` in UpdateIterator::next")
    mp_act, mp_unknown = {}, None
    for pat, expr in match_arms(inner(ui, block_after(ui, sm[0].end() - 1))):
        e = norm(unbrace(expr))
        for alt in alternatives(pat):
            m = re.fullmatch(r"Bgp4MpSubType::(\w+)\s*(\(_\))?", alt)
            if not m:
                raise Lost("routecore: UpdateIterator::next: pattern not understood: " + alt[:50])
            act = "todo" if e == "todo!()" else "parsed" if e.startswith(m.group(1) + "::parse(&mutm.message)") and e.endswith(".ok().map(Into::into)") else None
            if act is None:
                raise Lost(f"routecore: UpdateIterator::next: arm for Bgp4MpSubType::{m.group(1)} not understood: {e[:60]}")
            if m.group(1) == "Unimplemented":
                mp_unknown = act
            else:
                mp_act[m.group(1)] = act
    if mp_unknown is None or sorted(mp_act) != sorted(v for _, v in mp_nums):
        raise Lost("routecore: UpdateIterator::next does not name every Bgp4MpSubType")
    ri = find_fn(rc, "next", within=r"\bimpl\s*<[^>]*>\s*Iterator\s+for\s+RibEntryIterator\s*<[^>]*>", what="impl Iterator for RibEntryIterator")
    dm = list(re.finditer(r"\bmatch\s+tdv2\s*\{", ri))
    if len(dm) != 1:
        raise Lost("routecore: anchor lost: `match tdv2 { … }` in RibEntryIterator::next")
    td_act, td_default = {}, None
    for pat, expr in match_arms(inner(ri, block_after(ri, dm[0].end() - 1))):
        e = norm(unbrace(expr))
        for alt in alternatives(pat):
            m = re.fullmatch(r"TableDumpv2SubType::(\w+)", alt)
            fm = re.search(r"self\.current_afisafi=Some\(AfiSafiType::(\w+)\);?$", e)
            if m and fm and "self.current_table=Some(" in e:
                td_act[m.group(1)] = fm.group(1)
            elif m and e == "todo!()":
                td_act[m.group(1)] = None
            elif alt == "_" and e == "todo!()":
                td_default = "todo"
            else:
                raise Lost("routecore: RibEntryIterator::next: arm not understood: " + alt[:40] + " => " + e[:40])
    for _, v in td_nums:
        if v not in td_act:
            if td_default is None:
                raise Lost(f"routecore: RibEntryIterator::next has no arm for TableDumpv2SubType::{v}")
            td_act[v] = None

    s = lambda x: '"' + x + '"'
    L = []
    L.append(f"/-! GENERATED by tools/extract_mrtdispatch.py from src/units/mrt_file_in/unit.rs and routecore {ver} src/mrt.rs — do not edit. -/")
    L.append("namespace Rotonda.Generated.MrtDispatch")
    L.append("")
    L.append("inductive Comp\n  | gzip | bzip2 | plain\n  deriving DecidableEq, Repr")
    L.append("/-- `process_file`: decoder by file extension (sorted); any other extension or none: `compDefault` -/")
    L.append("def compOfExt : List (String × Comp) := [" + ", ".join(f"({s(k)}, .{comp[k]})" for k in sorted(comp)) + "]")
    L.append(f"def compDefault : Comp := .{comp_default}")
    L.append("")
    L.append("/-- `process_file`, dump part (only when the file starts with a peer index table): `AfiSafiType`s sent on as `Update::Single` of the same-named `RotondaRoute` / skipped -/")
    L.append("def dumpImported : List String := [" + ", ".join(s(a) for a in AFISAFI if fam[a]) + "]")
    L.append("def dumpSkipped : List String := [" + ", ".join(s(a) for a in AFISAFI if not fam[a]) + "]")
    L.append("")
    L.append("inductive MsgHandler\n  | stateChange | message\n  deriving DecidableEq, Repr")
    L.append("/-- `process_file`, messages part: the handler of each `Bgp4Mp` variant -/")
    L.append("def bgp4mpHandler : List (String × MsgHandler) := [" + ", ".join(f"({s(k)}, .{handler[k]})" for k in BGP4MP) + "]")
    L.append("def kindNames : List String := bgp4mpHandler.map (·.1)")
    L.append("")
    L.append("/-- routecore `UpdateIterator::next`: MRT types looked into (all others are skipped) -/")
    L.append("def messageMrtTypes : List String := [" + ", ".join(s(t) for t in sorted(mrt_types)) + "]")
    L.append("inductive SubAct\n  | parsed | todo\n  deriving DecidableEq, Repr")
    L.append("/-- routecore `UpdateIterator::next`: BGP4MP subtype number, name, parsed into the `Bgp4Mp` variant of that name or `todo!()` -/")
    L.append("def bgp4mpSubtypes : List (Nat × String × SubAct) := [" + ", ".join(f"({n}, {s(v)}, .{mp_act[v]})" for n, v in sorted(mp_nums)) + "]")
    L.append(f"def bgp4mpUnknownSubtype : SubAct := .{mp_unknown}")
    L.append("/-- routecore `RibEntryIterator::next`: TABLE_DUMP_V2 subtype number, name, the family its entries are given (`none` = `todo!()`) -/")
    L.append("def tableDumpSubtypes : List (Nat × String × Option String) := [" + ", ".join(f"({n}, {s(v)}, " + ("none" if td_act[v] is None else f"some {s(td_act[v])}") + ")" for n, v in sorted(td_nums)) + "]")
    L.append("")
    L.append("end Rotonda.Generated.MrtDispatch")
    write_if_changed(generated_path(__file__, "MrtDispatch.lean"), "\n".join(L) + "\n")
    print(f"{TOOL}: ok (routecore {ver}; dump imports " + ",".join(a for a in AFISAFI if fam[a]) + "; BGP4MP todo: " + ",".join(v for _, v in mp_nums if mp_act[v] == "todo") + ")")


run(TOOL, main)
