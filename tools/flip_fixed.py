#!/usr/bin/env python3
"""tools/flip_fixed.py <property> <signature> <commit>  — mark a known finding as repaired by a fix: commit."""
import json, sys
pid, sig, commit = sys.argv[1:4]
p = "/verif/known_findings.json"
k = json.load(open(p))
n = 0
for f in k["findings"]:
    if f["property"] == pid and f["signature"] == sig:
        f["status"] = "fixed"; f["commit"] = commit
        f["line"] = f"fixed: property={pid} {commit} {f['what']}"
        n += 1
json.dump(k, open(p, "w"), indent=1)
print("flipped", n)
