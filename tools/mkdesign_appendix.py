#!/usr/bin/env python3
"""Regenerate DESIGN.md's 'Appendix C' from notes/C*.md (idempotent): the builders' as-built notes
per property — model scope, theorem list, assumptions, findings, false alarms corrected, mutations."""
import glob, os, re
ROOT = os.path.dirname(os.path.dirname(os.path.abspath(__file__)))
p = os.path.join(ROOT, "DESIGN.md")
s = open(p).read()
marker = "\n--------------------------------------------------------------------------\n\n## Appendix C. As-built notes per property"
if marker in s:
    s = s[:s.index(marker)]
out = [marker, "\n\n(Generated from `notes/*.md` — the twenty properties first, then the bridges and further areas — by `tools/mkdesign_appendix.py`; each section was written by the\nbuilder of that property after its check passed. Headings are demoted by two levels.)\n"]
files = sorted(glob.glob(os.path.join(ROOT, "notes", "C[0-9][0-9].md")))
files += [f for f in sorted(glob.glob(os.path.join(ROOT, "notes", "*.md"))) if f not in files]  # bridges / areas
for f in files:
    t = open(f).read().rstrip() + "\n"
    t = re.sub(r"^(#+) ", lambda m: "#" * (len(m.group(1)) + 2) + " ", t, flags=re.M)
    out.append("\n" + t)
open(p, "w").write(s.rstrip("\n") + "\n" + "".join(out))
print("appendix C:", len(out) - 2, "properties")
