#!/usr/bin/env python3
"""extract_ribhttp.py REPO — regenerate lean/RotondaModel/Generated/RibHttp.lean from
src/units/rib_unit/http/{request.rs,response.rs,types.rs}:

* the query parameter names `handle_prefix_query` consumes, in the order of its `parse_*` calls, each with
  `get_param` (first occurrence) or `get_all_params` (every occurrence);
* the accepted values of `include` / `details` / `filter_op` (+ the `#[default]` of `FilterOp`) and the filter
  families of `extract_filter_kind`, each with what the arm sets / builds; everything else is an `Err`;
* `include_item_in_results`: no filters → include; per `FilterOp` variant which quantifier (`any`/`all`) ranges
  over the selects and over the (negated) discards; `Filters::new` partitions by `FilterMode`.

Value lists are emitted sorted by literal (arm order is immaterial for distinct string literals), parameter
uses in source order (the order decides which error is reported). Unknown shapes are loud failures."""
import os, re, sys
sys.path.insert(0, os.path.dirname(os.path.abspath(__file__)))
from extractlib import *

TOOL = "extract_ribhttp"
BASE = "src/units/rib_unit/http/"


def lit_arms(body, scrutinee_re, what):
    ms = list(re.finditer(r"\bmatch\s+" + scrutinee_re + r"\s*\{", body))
    if len(ms) != 1:
        raise Lost(f"anchor lost: `match {what} {{ … }}`")
    return match_arms(inner(body, block_after(body, ms[0].end() - 1)))


def set_true_values(body, var, target, what):
    """{literal: field} of `match <var> { "lit" => <target>.field = true, …, _ => return Err }`."""
    out, saw_default = {}, False
    for pat, expr in lit_arms(body, var, var):
        e = norm(unbrace(expr)).rstrip(";")
        for alt in alternatives(pat):
            lm = re.fullmatch(r'"([^"\\]*)"', alt)
            if lm:
                fm = re.fullmatch(re.escape(target) + r"\.(\w+)=true", e)
                if not fm:
                    raise Lost(f"{what}: arm for \"{lm.group(1)}\" is not `{target}.<field> = true`: {e[:60]}")
                if lm.group(1) in out:
                    raise Lost(f"{what}: value \"{lm.group(1)}\" named twice")
                out[lm.group(1)] = fm.group(1)
            elif re.fullmatch(r"[a-z_]\w*", alt):
                if not e.startswith("returnErr("):
                    raise Lost(f"{what}: the catch-all arm no longer returns Err")
                saw_default = True
            else:
                raise Lost(f"{what}: pattern not understood: {alt[:50]}")
    if not saw_default:
        raise Lost(f"{what}: no catch-all arm")
    return out


def main():
    repo = sys.argv[1] if len(sys.argv) > 1 else "/repo"
    req = strip(drop_hooks(read_source(repo, BASE + "request.rs", TOOL)))
    resp = strip(drop_hooks(read_source(repo, BASE + "response.rs", TOOL)))
    types = strip(drop_hooks(read_source(repo, BASE + "types.rs", TOOL)))
    # the unit tests of response.rs/request.rs are not behaviour
    cut = lambda code: code[:m.start()] if (m := re.search(r"#\[cfg\(test\)\]\s*mod\s+\w+", code)) else code
    req, resp = cut(req), cut(resp)

    # --- parameter uses, in order
    hq = find_fn(req, "handle_prefix_query")
    nhq = norm(hq)
    uses = []
    param_call = r'get_(all_)?params?\(&?params,"([^"]+)"\)'
    for m in re.finditer(r"Self::(parse_\w+)\(&params|" + param_call, nhq):
        if m.group(1):
            sub = norm(find_fn(req, m.group(1)))
            found = [(x.group(2), bool(x.group(1))) for x in re.finditer(param_call, sub)]
            if not found:
                raise Lost(f"{m.group(1)} consumes no query parameter")
            uses += found
        else:
            uses.append((m.group(3), bool(m.group(2))))
    if len(uses) != len(set(n for n, _ in uses)):
        raise Lost("handle_prefix_query consumes a query parameter name twice")
    if not uses:
        raise Lost("anchor lost: the `Self::parse_*(&params …)` calls of handle_prefix_query")
    if not re.search(r"params\.iter\(\)\.filter\(\|(\w+)\|!\1\.used\(\)\)", nhq) or "Unrecognizedqueryparameters" not in nhq:
        raise Lost("handle_prefix_query no longer rejects unused query parameters")
    if not re.search(r'get_param\(&?params,"format"\).*\.filter\(\|\w+\|!\w+\.used\(\)\)', nhq):
        raise Lost("handle_prefix_query: `format` is no longer looked up before the unused-parameter check")

    # --- include / details
    inc = set_true_values(find_fn(req, "parse_include_param"), "include", "includes", "parse_include_param")
    det = set_true_values(find_fn(req, "parse_details_param"), "detail", "details", "parse_details_param")

    # --- filter_op
    fp = find_fn(req, "parse_filter_params")
    ops, op_none, op_other = {}, None, False
    for pat, expr in lit_arms(fp, r'get_param\(\s*params\s*,\s*"filter_op"\s*\)\s*\.as_ref\(\)\s*\.map\(\s*MatchedParam::value\s*\)', 'get_param(params, "filter_op")…'):
        e = norm(unbrace(expr)).rstrip(";")
        p = norm(pat)
        lm = re.fullmatch(r'Some\("([^"\\]*)"\)', p)
        if lm:
            om = re.fullmatch(r"FilterOp::(\w+)", e)
            if not om:
                raise Lost(f"parse_filter_params: filter_op=\"{lm.group(1)}\" is not a FilterOp variant: {e[:50]}")
            if lm.group(1) in ops:
                raise Lost(f"parse_filter_params: filter_op value \"{lm.group(1)}\" named twice")
            ops[lm.group(1)] = om.group(1)
        elif p == "None":
            if e != "FilterOp::default()":
                om = re.fullmatch(r"FilterOp::(\w+)", e)
                if not om:
                    raise Lost("parse_filter_params: the None arm of filter_op is not a FilterOp")
                op_none = om.group(1)
            else:
                op_none = "default"
        elif re.fullmatch(r"Some\([a-z_]\w*\)", p):
            if not e.startswith("returnErr("):
                raise Lost("parse_filter_params: an unknown filter_op value is no longer an Err")
            op_other = True
        else:
            raise Lost("parse_filter_params: filter_op pattern not understood: " + pat[:50])
    if op_none is None or not op_other:
        raise Lost("parse_filter_params: the filter_op match lost its None arm or its unknown-value arm")
    em = re.search(r"pub\s+enum\s+FilterOp\s*\{", types)
    if not em:
        raise Lost("anchor lost: `pub enum FilterOp` in types.rs")
    ebody = inner(types, block_after(types, em.end() - 1))
    variants = re.findall(r"(#\[default\]\s*)?\b([A-Z]\w*)\s*,", ebody)
    op_variants = [v for _, v in variants]
    defaults = [v for d, v in variants if d]
    if op_none == "default":
        if len(defaults) != 1:
            raise Lost("FilterOp has no single `#[default]` variant")
        op_none = defaults[0]
    if sorted(set(ops.values())) != sorted(op_variants):
        raise Lost("the filter_op values do not name every FilterOp variant exactly: " + str(ops))
    for lit, _ in [("select", 0), ("discard", 0)]:
        mode = {"select": "Select", "discard": "Discard"}[lit]
        if not re.search(r'for(\w+)inget_all_params\(params,"' + lit + r'"\)\{let(\w+)=extract_filter_kind\(\1\)\?;(\w+)\.push\(Filter::new\(\2,FilterMode::' + mode + r"\)\);\}", norm(fp)):
            raise Lost(f"parse_filter_params: the `{lit}` loop no longer builds Filter::new(kind, FilterMode::{mode})")

    # --- filter families
    fk = find_fn(req, "extract_filter_kind")
    fams, fam_other = {}, False
    for pat, expr in lit_arms(fk, "filter", "filter"):
        p = norm(pat)
        fm = re.fullmatch(r'MatchedParam::Family\("([^"\\]*)",(\w+)\)', p)
        if fm:
            kinds = set(re.findall(r"Ok\(FilterKind::(\w+)\(", norm(expr)))
            if len(kinds) != 1:
                raise Lost(f"extract_filter_kind: the arm for family \"{fm.group(1)}\" does not build exactly one FilterKind")
            if fm.group(1) in fams:
                raise Lost(f"extract_filter_kind: family \"{fm.group(1)}\" named twice")
            fams[fm.group(1)] = kinds.pop()
        elif re.fullmatch(r"[a-z_]\w*", p):
            if not norm(unbrace(expr)).startswith("Err("):
                raise Lost("extract_filter_kind: an unknown family is no longer an Err")
            fam_other = True
        else:
            raise Lost("extract_filter_kind: pattern not understood: " + pat[:60])
    if not fam_other:
        raise Lost("extract_filter_kind: no arm for unknown families")
    km = re.search(r"pub\s+enum\s+FilterKind\s*\{", types)
    if not km:
        raise Lost("anchor lost: `pub enum FilterKind`")
    kind_variants = re.findall(r"\b([A-Z]\w*)\s*\(", inner(types, block_after(types, km.end() - 1)))
    KNOWN = {"AsPath": "asPath", "PeerAs": "peerAs", "Community": "community"}
    if sorted(kind_variants) != sorted(KNOWN) or sorted(fams.values()) != sorted(KNOWN):
        raise Lost(f"FilterKind variants {kind_variants} / families {fams} are not the three known ones one-to-one")

    # --- include_item_in_results
    ii = find_fn(resp, "include_item_in_results")
    nii = norm(ii)
    for need, why in [(r"let(\w+)=filter_cfg\.selects\(\)\.is_empty\(\);", "no_selects"), (r"let(\w+)=filter_cfg\.discards\(\)\.is_empty\(\);", "no_discards")]:
        if not re.search(need, nii):
            raise Lost(f"include_item_in_results: `let {why} = filter_cfg.….is_empty()` lost")
    ns = re.search(r"let(\w+)=filter_cfg\.selects\(\)\.is_empty\(\);", nii).group(1)
    nd = re.search(r"let(\w+)=filter_cfg\.discards\(\)\.is_empty\(\);", nii).group(1)
    if not re.search(r"if" + ns + "&&" + nd + r"\{returntrue;\}", nii):
        raise Lost("include_item_in_results: `if no_selects && no_discards { return true; }` lost")
    sm = re.search(r"letmut(\w+)=filter_cfg\.selects\(\)\.iter\(\);", nii)
    dm = re.search(r"letmut(\w+)=filter_cfg\.discards\(\)\.iter\(\);", nii)
    mm = re.search(r"let(\w+)=\|(\w+):&Filter\|match\2\.kind\(\)\{", nii)
    if not sm or not dm or not mm:
        raise Lost("include_item_in_results: the `selects` / `discards` iterators or the `matches` closure are no longer recognised")
    sel, dis, mat = sm.group(1), dm.group(1), mm.group(1)
    quant = {}
    for pat, expr in lit_arms(ii, r"filter_cfg\.op\(\)", "filter_cfg.op()"):
        e = norm(unbrace(expr))
        qm = re.fullmatch(r"\(" + ns + r"\|\|" + sel + r"\.(any|all)\(" + mat + r"\)\)&&\(" + nd + r"\|\|!" + dis + r"\.(any|all)\(" + mat + r"\)\)", e)
        for alt in alternatives(pat):
            vm = re.fullmatch(r"FilterOp::(\w+)", alt)
            if not vm or vm.group(1) not in op_variants:
                raise Lost("include_item_in_results: pattern of `match filter_cfg.op()` not understood: " + alt[:40])
            if not qm:
                raise Lost(f"include_item_in_results: the FilterOp::{vm.group(1)} arm is not `(no_selects || selects.Q(matches)) && (no_discards || !discards.Q(matches))`")
            if vm.group(1) in quant:
                raise Lost(f"include_item_in_results: FilterOp::{vm.group(1)} named twice")
            quant[vm.group(1)] = (qm.group(1), qm.group(2))
    if sorted(quant) != sorted(op_variants):
        raise Lost("include_item_in_results: `match filter_cfg.op()` does not cover every FilterOp variant by name")
    fn = norm(find_fn(types, "new", within=r"\bimpl\s+Filters\b", what="impl Filters"))
    if not re.search(r"let\((\w+),(\w+)\)=filters\.into_iter\(\)\.partition\(\|(\w+)\|match\3\.mode\(\)\{(?:FilterMode::Select=>true,FilterMode::Discard=>false|FilterMode::Discard=>false,FilterMode::Select=>true),?\}\);Self\{op,selects,discards,?\}", fn) \
            or not re.search(r"let\(selects,discards\)", fn):
        raise Lost("Filters::new no longer partitions into (selects, discards) by FilterMode::Select")

    lo = lambda v: v[0].lower() + v[1:]
    s = lambda x: '"' + x + '"'
    b = lambda x: "[" + ", ".join(str(c) for c in x.encode()) + "]"
    L = []
    L.append("/-! GENERATED by tools/extract_ribhttp.py from src/units/rib_unit/http/{request.rs,response.rs,types.rs} — do not edit. -/")
    L.append("namespace Rotonda.Generated.RibHttp")
    L.append("")
    L.append("/-- the query parameters `handle_prefix_query` consumes, in the order of the code; `true` = `get_all_params`\n    (every occurrence is used), `false` = `get_param` (the first occurrence only). Any other parameter is an error. -/")
    L.append("def paramUses : List (String × Bool) := [" + ", ".join(f"({s(n)}, {'true' if a else 'false'})" for n, a in uses) + "]")
    L.append("def paramNamesB : List (List Nat) := [" + ", ".join(b(n) for n, _ in uses) + "]")
    L.append("")
    L.append("inductive IncludeField\n  | " + " | ".join(sorted(set(inc.values()))) + "\n  deriving DecidableEq, Repr")
    L.append("/-- `parse_include_param`: accepted pieces of `include=` and the flag each sets (anything else: `Err`) -/")
    L.append("def includeValues : List (String × IncludeField) := [" + ", ".join(f"({s(k)}, .{inc[k]})" for k in sorted(inc)) + "]")
    L.append("def includeValuesB : List (List Nat) := [" + ", ".join(b(k) for k in sorted(inc)) + "]")
    L.append("/-- `parse_details_param`: accepted pieces of `details=` -/")
    L.append("def detailsValues : List String := [" + ", ".join(s(k) for k in sorted(det)) + "]")
    L.append("def detailsValuesB : List (List Nat) := [" + ", ".join(b(k) for k in sorted(det)) + "]")
    L.append("")
    L.append("/-- `types.rs::FilterOp` -/")
    L.append("inductive FilterOp\n  | " + " | ".join(lo(v) for v in op_variants) + "\n  deriving DecidableEq, Repr")
    L.append("/-- `parse_filter_params`: accepted values of `filter_op=` (anything else: `Err`), and the value when absent -/")
    L.append("def filterOpValues : List (String × FilterOp) := [" + ", ".join(f"({s(k)}, .{lo(ops[k])})" for k in sorted(ops)) + "]")
    L.append("def filterOpValuesB : List (List Nat) := [" + ", ".join(b(k) for k in sorted(ops)) + "]")
    L.append(f"def filterOpDefault : FilterOp := .{lo(op_none)}")
    L.append("")
    L.append("inductive FilterKindName\n  | asPath | peerAs | community\n  deriving DecidableEq, Repr")
    L.append("/-- `extract_filter_kind`: the families of `select[…]` / `discard[…]` and the `FilterKind` each builds -/")
    L.append("def filterFamilies : List (String × FilterKindName) := [" + ", ".join(f"({s(k)}, .{KNOWN[fams[k]]})" for k in sorted(fams)) + "]")
    L.append("def filterFamiliesB : List (List Nat) := [" + ", ".join(b(k) for k in sorted(fams)) + "]")
    L.append("")
    L.append("inductive Quant\n  | any | all\n  deriving DecidableEq, Repr")
    L.append("/-- `include_item_in_results`: `if no_selects && no_discards { return true }`, then per `FilterOp`\n    `(no_selects || selects.Q(matches)) && (no_discards || !discards.Q'(matches))` -/")
    L.append("def emptyFiltersIncludeAll : Bool := true")
    L.append("def selectQuant : FilterOp → Quant")
    for v in op_variants:
        L.append(f"  | .{lo(v)} => .{quant[v][0]}")
    L.append("def discardQuant : FilterOp → Quant")
    for v in op_variants:
        L.append(f"  | .{lo(v)} => .{quant[v][1]}")
    L.append("")
    L.append("end Rotonda.Generated.RibHttp")
    write_if_changed(generated_path(__file__, "RibHttp.lean"), "\n".join(L) + "\n")
    print(f"{TOOL}: ok (params " + ",".join(n + ("*" if a else "") for n, a in uses) + f"; include {sorted(inc)}; details {sorted(det)}; filter_op {sorted(ops)} default {op_none}; families {sorted(fams)})")


run(TOOL, main)
