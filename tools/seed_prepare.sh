#!/bin/bash
# tools/seed_prepare.sh <prop> <n>: scratch worktree /tmp/seed<n>-<prop> of /repo HEAD with a warm target dir
set -eu
WT=/tmp/seed$2-$1
rm -rf $WT; git -C /repo worktree prune
git -C /repo worktree add -q --detach $WT HEAD
cp -r /repo/target $WT/target
echo $WT
