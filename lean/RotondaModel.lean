-- Root of the `RotondaModel` library: models, helper proofs, property theorems.
import RotondaModel.Model.Frim
import RotondaModel.Props.C18
import RotondaModel.Model.BmpIo
import RotondaModel.Props.C06
