-- Root of the `RotondaModel` library: models, helper proofs, property theorems.
import RotondaModel.Model.Frim
import RotondaModel.Props.C18
import RotondaModel.Model.Codec
import RotondaModel.Model.Gate
import RotondaModel.Model.BmpIo
import RotondaModel.Props.C06
import RotondaModel.Model.MrtApi
import RotondaModel.Props.C20
import RotondaModel.Model.Ingress
import RotondaModel.Props.C14
import RotondaModel.Props.C04
import RotondaModel.Model.Http
import RotondaModel.Props.C12
import RotondaModel.Props.C05
import RotondaModel.Model.OutStream
import RotondaModel.Props.C17
import RotondaModel.Model.Rib
