import RotondaModel.Model.HttpServer
import RotondaModel.Proofs.Http
/-! Helper lemmas for the HttpServer theorems. -/
namespace Rotonda.HttpServer
open Rotonda.Http

end Rotonda.HttpServer
