import RotondaModel.Model.HttpServer
import RotondaModel.Proofs.HttpServerWire
import RotondaModel.Props.C12
/-! Helper lemmas for the HttpServer theorems: what `answer` (the handler behind the service function,
    in both readings of `Accept-Encoding`) inherits from C12's theorems about `Http.handle`. -/
namespace Rotonda.HttpServer
open Rotonda.Http

theorem toReq_method_get (m : Msg) : (toReq m).method = .get ↔ m.method = sGET := by
  unfold toReq; by_cases h : m.method = sGET <;> simp [h]

theorem specStatus_compress (d : Deps) (reg : Registry) (req : Req) :
    specStatus d { reg with compress := false } req = specStatus d reg req := rfl

/-- the status law of C12 holds behind the listener, for both readings of Accept-Encoding -/
theorem answer_status (c : Cfg) (m : Msg) (r : Resp) (h : answer c m = .ok r) :
    r.status = specStatus c.d c.reg (toReq m) ∧ (r.status = 400 → r.reason = true) := by
  unfold answer at h
  by_cases hv : c.v.aeGzip = true
  · simp only [hv, if_true] at h
    exact C12_status_law _ _ _ _ _ h
  · simp only [hv, Bool.false_eq_true, if_false] at h
    cases hh : handle c.v.http c.d { c.reg with compress := false } (toReq m) with
    | panic s => simp [hh] at h
    | ok r0 =>
      simp only [hh, Outcome.ok.injEq] at h
      have := C12_status_law _ _ _ _ _ hh
      rw [specStatus_compress] at this
      subst h; exact this

theorem specStatus_mem (d : Deps) (reg : Registry) (req : Req) :
    specStatus d reg req = 200 ∨ specStatus d reg req = 400 ∨ specStatus d reg req = 404 ∨ specStatus d reg req = 405 := by
  unfold specStatus
  cases req.method with
  | other => simp
  | get =>
    simp only
    split
    · simp
    · split
      · simp
      · split <;> simp

/-- code as written: gzip iff GET, compression configured, header readable and containing `gzip` -/
theorem answer_gzip_as_written (c : Cfg) (m : Msg) (r : Resp) (hv : c.v.aeGzip = true) (h : answer c m = .ok r) :
    r.gzip = true ↔ (m.method = sGET ∧ c.reg.compress = true ∧ acceptsGzip m.acceptEnc = true) := by
  unfold answer at h
  simp only [hv, if_true] at h
  have := C12_gzip _ _ _ _ _ h
  rw [this, toReq_method_get]; rfl

/-- repaired: gzip iff GET, compression configured, and gzip acceptable per RFC 9110 -/
theorem answer_gzip_repaired (c : Cfg) (m : Msg) (r : Resp) (hv : c.v.aeGzip = false) (h : answer c m = .ok r) :
    r.gzip = true ↔ (m.method = sGET ∧ c.reg.compress = true ∧ acceptsGzipRfc m.acceptEnc = true) := by
  unfold answer at h
  simp only [hv, Bool.false_eq_true, if_false] at h
  cases hh : handle c.v.http c.d { c.reg with compress := false } (toReq m) with
  | panic s => simp [hh] at h
  | ok r0 =>
    simp only [hh, Outcome.ok.injEq] at h
    subst h
    simp [and_left_comm, and_assoc]

/-- no handler panic once the four C12 sites are repaired, in both readings -/
theorem answer_no_panic (c : Cfg) (m : Msg) (hv : c.v.http = Http.repaired) : ∃ r, answer c m = .ok r := by
  unfold answer
  by_cases ha : c.v.aeGzip = true
  · simp only [ha, if_true, hv]; exact C12_no_panic_repaired _ _ _
  · simp only [ha, Bool.false_eq_true, if_false, hv]
    obtain ⟨r, hr⟩ := C12_no_panic_repaired c.d { c.reg with compress := false } (toReq m)
    exact ⟨_, by rw [hr]⟩

theorem answer_non_get (c : Cfg) (m : Msg) (hm : m.method ≠ sGET) : answer c m = .ok r405 := by
  have hreq : (toReq m).method = .other := by unfold toReq; simp [hm]
  unfold answer
  by_cases ha : c.v.aeGzip = true
  · simp only [ha, if_true]; exact C12_non_get_405 _ _ _ _ hreq
  · simp only [ha, Bool.false_eq_true, if_false, C12_non_get_405 _ _ _ _ hreq]
    simp [r405, hm]

/-- a dropped connection in the model is a handler panic -/
theorem serveAux_dropped_mem (c : Cfg) (s : Site) :
    ∀ (fuel : Nat) (lv : Bool) (buf : Bytes), Out.dropped s ∈ serveAux c fuel lv buf →
      ∃ m, answer c m = .panic s := by
  intro fuel
  induction fuel with
  | zero => intro lv buf hm; simp [serveAux] at hm
  | succ f ih =>
    intro lv buf hm
    rw [serveAux] at hm
    cases hw : headWindow buf with
    | none => simp [hw] at hm
    | some ph =>
      cases ph with
      | more => simp [hw] at hm
      | bad code => simp [hw, onParseError] at hm; split at hm <;> simp at hm
      | ok h rest =>
        simp only [hw] at hm
        cases hi : interpret h with
        | bad code => simp [hi, onParseError] at hm; split at hm <;> simp at hm
        | unsupported => simp [hi] at hm
        | ok m =>
          simp only [hi] at hm
          cases ha : answer c m with
          | panic s' => simp [ha] at hm; exact ⟨m, by rw [ha, hm]⟩
          | ok r =>
            simp only [ha] at hm
            split at hm
            · simp at hm
            · simp only [List.mem_cons] at hm
              cases hm with
              | inl e => cases e
              | inr hm => exact ih _ _ hm

end Rotonda.HttpServer
