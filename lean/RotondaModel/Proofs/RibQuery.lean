import RotondaModel.Model.RibQuery
/-!
# RIB HTTP query API (C11) — specification vocabulary and helper lemmas

`Spec.*` is what the property says, written without reference to the code's control flow:
which stored entries belong to which section, and what the documented select/discard filters
mean. The lemmas relate the transliterated code (`Model/RibQuery.lean`) to it.
-/
namespace Rotonda.RibQuery

/-! ## What the property says -/

namespace Spec

/-- The documented meaning of one filter: AS-path **equality**, community **membership**,
peer AS of the ingress. -/
def matchesKind (reg : Register) (r : Rec) : FilterKind → Prop
  | .asPath want => r.attrs.asPath = some (want.map Hop.asn)
  | .community c => c ∈ r.attrs.communities
  | .peerAs a => reg.get r.mui = some (some a)

/-- select/discard with `any` (default) or `all`, as in the retired `http/tests.rs`:
an entry is kept iff the selects admit it and the discards do not remove it; an empty list of
selects admits everything, an empty list of discards removes nothing. -/
def passes (reg : Register) (f : Filters) (r : Rec) : Prop :=
  if f.all then
    (f.selects = [] ∨ ∀ k ∈ f.selects, matchesKind reg r k) ∧
    (f.discards = [] ∨ ¬ ∀ k ∈ f.discards, matchesKind reg r k)
  else
    (f.selects = [] ∨ ∃ k ∈ f.selects, matchesKind reg r k) ∧
    (f.discards = [] ∨ ¬ ∃ k ∈ f.discards, matchesKind reg r k)

def inData (q : Prefix) (r : Rec) : Prop := r.pfx = q
/-- stored prefixes that strictly cover the queried one -/
def inLess (q : Prefix) (r : Rec) : Prop := r.pfx ≠ q ∧ covers r.pfx q = true
/-- stored prefixes the queried one strictly covers -/
def inMore (q : Prefix) (r : Rec) : Prop := r.pfx ≠ q ∧ covers q r.pfx = true

end Spec

/-! ## Guards: what each as-written variant excludes -/

def FilterKind.isCommunity : FilterKind → Bool
  | .community _ => true
  | _ => false

/-- No community filter is used. -/
def NoCommunityFilter (f : Filters) : Prop :=
  ∀ k, k ∈ f.selects ++ f.discards → k.isCommunity = false

/-- The dependency's more-specifics answer meets its contract for this store and prefix. -/
def ObsContract (s : Store) (q : Prefix) (obs : List Prefix) : Prop :=
  ∀ p, p ∈ obs ↔ (∃ r ∈ s.items, r.pfx = p) ∧ p ≠ q ∧ covers q p = true

/-! ## Filters -/

theorem matchHops_iff (hops : List Hop) (want : List Nat) :
    matchHops hops want = true ↔ hops = want.map Hop.asn := by
  induction hops generalizing want with
  | nil => cases want <;> simp [matchHops]
  | cons h hs ih =>
    cases want with
    | nil => cases h <;> simp [matchHops]
    | cons w ws =>
      cases h with
      | asn a => simp [matchHops, ih]
      | other => simp [matchHops]

theorem matchAsPath_iff (r : Rec) (want : List Nat) :
    matchAsPath r want = true ↔ r.attrs.asPath = some (want.map Hop.asn) := by
  unfold matchAsPath
  cases h : r.attrs.asPath with
  | none => simp
  | some hops => simp [matchHops_iff]

theorem matchPeerAs_iff (reg : Register) (r : Rec) (a : Nat) :
    matchPeerAs reg r a = true ↔ reg.get r.mui = some (some a) := by
  unfold matchPeerAs
  cases h : reg.get r.mui with
  | none => simp
  | some x => simp

theorem matchesKind_iff (v : Variant) (reg : Register) (r : Rec) (k : FilterKind)
    (h : v.community = true ∨ k.isCommunity = false) :
    matchesKind v reg r k = true ↔ Spec.matchesKind reg r k := by
  cases k with
  | asPath want => simpa [matchesKind, Spec.matchesKind] using matchAsPath_iff r want
  | peerAs a => simpa [matchesKind, Spec.matchesKind] using matchPeerAs_iff reg r a
  | community c =>
    rcases h with h | h
    · simp [matchesKind, Spec.matchesKind, matchCommunity, h]
    · simp [FilterKind.isCommunity] at h

theorem all_matches_iff (v : Variant) (reg : Register) (r : Rec) (ks : List FilterKind)
    (h : v.community = true ∨ ∀ k ∈ ks, k.isCommunity = false) :
    ks.all (matchesKind v reg r) = true ↔ ∀ k ∈ ks, Spec.matchesKind reg r k := by
  rw [List.all_eq_true]
  constructor
  · intro hk k hmem
    exact (matchesKind_iff v reg r k (h.imp id (fun h => h k hmem))).1 (hk k hmem)
  · intro hk k hmem
    exact (matchesKind_iff v reg r k (h.imp id (fun h => h k hmem))).2 (hk k hmem)

theorem any_matches_iff (v : Variant) (reg : Register) (r : Rec) (ks : List FilterKind)
    (h : v.community = true ∨ ∀ k ∈ ks, k.isCommunity = false) :
    ks.any (matchesKind v reg r) = true ↔ ∃ k ∈ ks, Spec.matchesKind reg r k := by
  rw [List.any_eq_true]
  constructor
  · rintro ⟨k, hmem, hk⟩
    exact ⟨k, hmem, (matchesKind_iff v reg r k (h.imp id (fun h => h k hmem))).1 hk⟩
  · rintro ⟨k, hmem, hk⟩
    exact ⟨k, hmem, (matchesKind_iff v reg r k (h.imp id (fun h => h k hmem))).2 hk⟩

/-- The code's `include_item_in_results` decides exactly the documented filter semantics,
provided community filters work (`v.community`) or none is used. -/
theorem includeItem_iff (v : Variant) (reg : Register) (f : Filters) (r : Rec)
    (h : v.community = true ∨ NoCommunityFilter f) :
    includeItem v reg f r = true ↔ Spec.passes reg f r := by
  have hs : v.community = true ∨ ∀ k ∈ f.selects, k.isCommunity = false :=
    h.imp id (fun h k hk => h k (List.mem_append_left _ hk))
  have hd : v.community = true ∨ ∀ k ∈ f.discards, k.isCommunity = false :=
    h.imp id (fun h k hk => h k (List.mem_append_right _ hk))
  have ha := all_matches_iff v reg r f.selects hs
  have hb := all_matches_iff v reg r f.discards hd
  have hc := any_matches_iff v reg r f.selects hs
  have he := any_matches_iff v reg r f.discards hd
  have hne : f.discards ≠ [] → ∃ x, x ∈ f.discards := List.exists_mem_of_ne_nil _
  simp only [includeItem, Spec.passes]
  generalize f.selects.all (matchesKind v reg r) = A at ha
  generalize f.discards.all (matchesKind v reg r) = B at hb
  generalize f.selects.any (matchesKind v reg r) = C at hc
  generalize f.discards.any (matchesKind v reg r) = E at he
  by_cases hsel : f.selects = [] <;> by_cases hdis : f.discards = [] <;> by_cases hall : f.all = true <;>
    cases A <;> cases B <;> cases C <;> cases E <;> simp_all [List.isEmpty_iff]

/-! ## The store's answer -/

theorem mem_items (s : Store) (r : Rec) : r ∈ s.items ↔ ∃ r0 ∈ s.recs, s.item r0 = r := by
  simp [Store.items]

theorem strictlyCovers_iff (p q : Prefix) :
    strictlyCovers p q = true ↔ p ≠ q ∧ covers p q = true := by
  simp [strictlyCovers]

theorem strictlyCovers_iff' (q p : Prefix) :
    strictlyCovers q p = true ↔ p ≠ q ∧ covers q p = true := by
  simp only [strictlyCovers, Bool.and_eq_true, bne_iff_ne, ne_eq]
  constructor
  · rintro ⟨h, c⟩; exact ⟨fun e => h e.symm, c⟩
  · rintro ⟨h, c⟩; exact ⟨fun e => h e.symm, c⟩

/-- The sections of an answer, as membership predicates over what is stored. -/
structure SectionsOf (items : List Rec) (v : Variant) (q : Prefix) (incLess incMore : Bool)
    (inObs : Rec → Prop) (reached : Rec → Prop) (res : QueryResult) : Prop where
  pfx_none : res.pfx = none → res.pfxMeta = []
  data : ∀ r, r ∈ res.pfxMeta ↔ r ∈ items ∧ r.pfx = q
  less_some : res.less.isSome = incLess
  less : ∀ r, r ∈ res.less.getD [] ↔
    incLess = true ∧ r ∈ items ∧ (r.pfx ≠ q ∧ covers r.pfx q = true) ∧ (v.lesszero = true ∨ r.pfx.len ≠ 0)
      ∧ (v.lessstop = true ∨ reached r)
  more_some : res.more.isSome = incMore
  more : ∀ r, r ∈ res.more.getD [] ↔
    incMore = true ∧ r ∈ items ∧ (if v.more then r.pfx ≠ q ∧ covers q r.pfx = true else inObs r)

theorem Store.matchPrefix_sections (v : Variant) (s : Store) (q : Prefix) (incLess incMore : Bool)
    (obs : List Prefix) :
    SectionsOf s.items v q incLess incMore (fun r => r.pfx ∈ obs) (fun r => s.cutShort q r = false)
      (s.matchPrefix v q incLess incMore obs) := by
  constructor
  · intro h
    simp only [Store.matchPrefix] at h ⊢
    by_cases he : (s.items.filter fun r => r.pfx == q).isEmpty = true
    · exact List.isEmpty_iff.mp he
    · simp [he] at h
  · intro r; simp [Store.matchPrefix]
  · simp only [Store.matchPrefix]; cases incLess <;> simp
  · intro r
    simp only [Store.matchPrefix]
    cases incLess <;> simp [strictlyCovers_iff, and_assoc]
  · simp only [Store.matchPrefix]; cases incMore <;> simp
  · intro r
    simp only [Store.matchPrefix]
    cases incMore
    · simp
    · cases hv : v.more
      · simp only [Bool.false_eq_true, if_false, if_true, Option.getD_some, List.mem_flatMap,
          List.mem_filter, beq_iff_eq, true_and]
        constructor
        · rintro ⟨p, hp, hr, rfl⟩; exact ⟨hr, hp⟩
        · rintro ⟨hr, hp⟩; exact ⟨r.pfx, hp, hr, rfl⟩
      · simp only [if_true, Option.getD_some, List.mem_filter, strictlyCovers_iff', true_and]

theorem optAppend_isSome (a b : Option (List Rec)) :
    (optAppend a b).isSome = (a.isSome || b.isSome) := by
  cases a <;> cases b <;> simp [optAppend]

theorem mem_optAppend (a b : Option (List Rec)) (r : Rec) :
    r ∈ (optAppend a b).getD [] ↔ r ∈ a.getD [] ∨ r ∈ b.getD [] := by
  cases a <;> cases b <;> simp [optAppend]

/-- With an empty multicast store the as-written `Rib::match_prefix` is the unicast answer. -/
theorem Rib.matchPrefix_unicast_only (v : Variant) (rib : Rib) (q : Prefix) (l m : Bool)
    (obsU obsM : List Prefix) (hv : v.mcast = false) (hm : rib.multicast.recs = []) :
    rib.matchPrefix v q l m obsU obsM = rib.unicast.matchPrefix v q l m obsU := by
  unfold Rib.matchPrefix
  simp only [hv]
  by_cases hn : (rib.unicast.matchPrefix v q l m obsU).nothing = true
  · have hl : l = false ∧ m = false := by
      have := hn
      simp only [QueryResult.nothing, Store.matchPrefix, Bool.and_eq_true] at this
      obtain ⟨⟨_, h1⟩, h2⟩ := this
      cases l <;> cases m <;> simp_all
    obtain ⟨rfl, rfl⟩ := hl
    have : (rib.multicast.matchPrefix v q false false obsM).nothing = true := by
      simp [QueryResult.nothing, Store.matchPrefix, Store.items, hm]
    simp [hn, this]
  · simp [hn]

theorem Rib.matchPrefix_sections (v : Variant) (rib : Rib) (q : Prefix) (l m : Bool)
    (obsU obsM : List Prefix)
    (Gm : v.mcast = true ∨ rib.multicast.recs = []) :
    SectionsOf rib.stored v q l m
      (fun r => (r ∈ rib.unicast.items ∧ r.pfx ∈ obsU) ∨ (r ∈ rib.multicast.items ∧ r.pfx ∈ obsM))
      (fun r => (r ∈ rib.unicast.items ∧ rib.unicast.cutShort q r = false) ∨
                (r ∈ rib.multicast.items ∧ rib.multicast.cutShort q r = false))
      (rib.matchPrefix v q l m obsU obsM) := by
  have hu := Store.matchPrefix_sections v rib.unicast q l m obsU
  have hmc := Store.matchPrefix_sections v rib.multicast q l m obsM
  by_cases hv : v.mcast = true
  · -- repaired: both stores, concatenated
    unfold Rib.matchPrefix
    simp only [hv, if_true]
    constructor
    · intro h
      have h1 : (rib.unicast.matchPrefix v q l m obsU).pfx = none := by
        cases hp : (rib.unicast.matchPrefix v q l m obsU).pfx <;> simp_all
      have h2 : (rib.multicast.matchPrefix v q l m obsM).pfx = none := by
        simp_all
      simp [hu.pfx_none h1, hmc.pfx_none h2]
    · intro r; simp only [List.mem_append, hu.data, hmc.data, Rib.stored]; grind
    · rw [optAppend_isSome, hu.less_some, hmc.less_some]; simp
    · intro r; rw [mem_optAppend, hu.less, hmc.less]; simp only [Rib.stored, List.mem_append]; grind
    · rw [optAppend_isSome, hu.more_some, hmc.more_some]; simp
    · intro r; rw [mem_optAppend, hu.more, hmc.more]; simp only [Rib.stored, List.mem_append]
      cases v.more <;> simp <;> grind
  · have hv' : v.mcast = false := by simpa using hv
    have hm : rib.multicast.recs = [] := Gm.resolve_left hv
    rw [Rib.matchPrefix_unicast_only v rib q l m obsU obsM hv' hm]
    have hst : rib.stored = rib.unicast.items := by simp [Rib.stored, Store.items, hm]
    have hmi : rib.multicast.items = [] := by simp [Store.items, hm]
    constructor
    · exact hu.pfx_none
    · intro r; rw [hu.data, hst]
    · exact hu.less_some
    · intro r; rw [hu.less, hst, hmi]; simp only [List.not_mem_nil, false_and, or_false]; grind
    · exact hu.more_some
    · intro r; rw [hu.more, hst, hmi]; cases v.more <;> simp

/-! ## Request parsing -/

theorem parseRequest_q (lim : Limits) (url : Url) (req : Request)
    (h : parseRequest lim url = .ok req) : url.pfx = some req.q := by
  unfold parseRequest at h
  cases hp : url.pfx with
  | none => simp [hp] at h
  | some q =>
    simp only [hp] at h
    split at h <;> try cases h
    split at h <;> try cases h
    split at h <;> try cases h
    split at h <;> cases h
    rfl

/-- Does the first `include` parameter list `moreSpecifics`? -/
def requestsMore (ps : List Param) : Bool :=
  match firstIdx "include".toList ps 0 with
  | some (_, _, v) => (splitComma v).contains "moreSpecifics".toList
  | none => false

theorem parseIncludeItems_more (xs : List Str) (inc inc' : Includes)
    (h : parseIncludeItems xs inc = .ok inc') (hm : xs.contains "moreSpecifics".toList = true ∨ inc.more = true) :
    inc'.more = true := by
  induction xs generalizing inc with
  | nil =>
    simp [parseIncludeItems] at h
    subst h
    simpa using hm
  | cons x xs ih =>
    unfold parseIncludeItems at h
    by_cases h1 : x = "lessSpecifics".toList
    · rw [if_pos (by simpa using h1)] at h
      refine ih _ h ?_
      rcases hm with hm | hm
      · left
        have hne : ("moreSpecifics".toList == "lessSpecifics".toList) = false := by decide
        subst h1
        simpa [List.contains_cons, hne] using hm
      · right; simpa using hm
    · rw [if_neg (by simpa using h1)] at h
      by_cases h2 : x = "moreSpecifics".toList
      · rw [if_pos (by simpa using h2)] at h
        exact ih _ h (Or.inr rfl)
      · rw [if_neg (by simpa using h2)] at h
        cases h


/-! ## Responses -/

def Resp.data : Resp → List Rec
  | .json d _ _ => d
  | _ => []

def Resp.less : Resp → Option (List Rec)
  | .json _ l _ => l
  | _ => none

def Resp.more : Resp → Option (List Rec)
  | .json _ _ m => m
  | _ => none

def Resp.isJson : Resp → Bool
  | .json .. => true
  | _ => false

theorem handle_json (v : Variant) (rib : Rib) (lim : Limits) (reg : Register) (url : Url)
    (obsU obsM : List Prefix) (req : Request)
    (hreq : parseRequest lim url = .ok req) (hfmt : req.format = .json) :
    handle v rib lim reg url obsU obsM =
      mkJson v reg req (rib.matchPrefix v req.q req.inc.less req.inc.more obsU obsM) := by
  simp [handle, hreq, hfmt]

theorem mkJson_isJson (v : Variant) (reg : Register) (req : Request) (res : QueryResult) :
    (mkJson v reg req res).isJson = true := rfl

theorem mem_mkJson_data (v : Variant) (reg : Register) (req : Request) (res : QueryResult)
    (hp : res.pfx = none → res.pfxMeta = []) (r : Rec) :
    r ∈ (mkJson v reg req res).data ↔ r ∈ res.pfxMeta ∧ includeItem v reg req.filters r = true := by
  simp only [mkJson, Resp.data]
  cases h : res.pfx with
  | none => simp [hp h]
  | some _ => simp

theorem mkJson_less (v : Variant) (reg : Register) (req : Request) (res : QueryResult) :
    (mkJson v reg req res).less =
      if req.inc.less then some ((res.less.getD []).filter (includeItem v reg req.filters)) else none := rfl

theorem mkJson_more (v : Variant) (reg : Register) (req : Request) (res : QueryResult) :
    (mkJson v reg req res).more =
      if req.inc.more then some ((res.more.getD []).filter (includeItem v reg req.filters)) else none := rfl

/-- Whatever the variant, `Rib::match_prefix` only ever reports stored records. -/
theorem Rib.matchPrefix_stored (v : Variant) (rib : Rib) (q : Prefix) (l m : Bool)
    (obsU obsM : List Prefix) (r : Rec)
    (h : r ∈ (rib.matchPrefix v q l m obsU obsM).pfxMeta ∨
         r ∈ (rib.matchPrefix v q l m obsU obsM).less.getD [] ∨
         r ∈ (rib.matchPrefix v q l m obsU obsM).more.getD []) :
    r ∈ rib.stored := by
  have hu := Store.matchPrefix_sections v rib.unicast q l m obsU
  have hmc := Store.matchPrefix_sections v rib.multicast q l m obsM
  have inU : ∀ r, (r ∈ (rib.unicast.matchPrefix v q l m obsU).pfxMeta ∨
      r ∈ (rib.unicast.matchPrefix v q l m obsU).less.getD [] ∨
      r ∈ (rib.unicast.matchPrefix v q l m obsU).more.getD []) → r ∈ rib.stored := by
    intro r h
    simp only [Rib.stored, List.mem_append]
    rcases h with h | h | h
    · exact Or.inl ((hu.data r).1 h).1
    · exact Or.inl ((hu.less r).1 h).2.1
    · exact Or.inl ((hu.more r).1 h).2.1
  have inM : ∀ r, (r ∈ (rib.multicast.matchPrefix v q l m obsM).pfxMeta ∨
      r ∈ (rib.multicast.matchPrefix v q l m obsM).less.getD [] ∨
      r ∈ (rib.multicast.matchPrefix v q l m obsM).more.getD []) → r ∈ rib.stored := by
    intro r h
    simp only [Rib.stored, List.mem_append]
    rcases h with h | h | h
    · exact Or.inr ((hmc.data r).1 h).1
    · exact Or.inr ((hmc.less r).1 h).2.1
    · exact Or.inr ((hmc.more r).1 h).2.1
  unfold Rib.matchPrefix at h
  by_cases hv : v.mcast = true
  · simp only [hv, if_true, List.mem_append, mem_optAppend] at h
    rcases h with (h | h) | (h | h) | (h | h)
    · exact inU r (Or.inl h)
    · exact inM r (Or.inl h)
    · exact inU r (Or.inr (Or.inl h))
    · exact inM r (Or.inr (Or.inl h))
    · exact inU r (Or.inr (Or.inr h))
    · exact inM r (Or.inr (Or.inr h))
  · have hv' : v.mcast = false := by simpa using hv
    simp only [hv', Bool.false_eq_true, if_false] at h
    split at h
    · split at h
      · exact inM r h
      · exact inU r h
    · exact inU r h

/-- The more-specifics answer a store that meets its contract would give. -/
def contractObs (s : Store) (q : Prefix) : List Prefix :=
  (s.items.filter fun r => strictlyCovers q r.pfx).map (·.pfx)

theorem contractObs_ok (s : Store) (q : Prefix) : ObsContract s q (contractObs s q) := by
  intro p
  simp only [contractObs, List.mem_map, List.mem_filter, strictlyCovers_iff']
  constructor
  · rintro ⟨r, ⟨hr, hne, hc⟩, rfl⟩; exact ⟨⟨r, hr, rfl⟩, hne, hc⟩
  · rintro ⟨⟨r, hr, rfl⟩, hne, hc⟩; exact ⟨r, ⟨hr, hne, hc⟩, rfl⟩

instance (reg : Register) (r : Rec) (k : FilterKind) : Decidable (Spec.matchesKind reg r k) := by
  cases k <;> simp only [Spec.matchesKind] <;> exact inferInstance

instance (reg : Register) (f : Filters) (r : Rec) : Decidable (Spec.passes reg f r) := by
  unfold Spec.passes; exact inferInstance

instance (q : Prefix) (r : Rec) : Decidable (Spec.inData q r) := by
  unfold Spec.inData; exact inferInstance
instance (q : Prefix) (r : Rec) : Decidable (Spec.inLess q r) := by
  unfold Spec.inLess; exact inferInstance
instance (q : Prefix) (r : Rec) : Decidable (Spec.inMore q r) := by
  unfold Spec.inMore; exact inferInstance

end Rotonda.RibQuery
