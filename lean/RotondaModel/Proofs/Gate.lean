import RotondaModel.Model.Gate
/-!
Helper lemmas and the inductive invariants for the Gate/Link LTS (C08).

* `InvB` : what has been pushed to the links (`hist`) in relation to the publishers'
  sequence numbers and in-flight snapshots  -> exactly-once / in-order / completeness of
  one `update_data` call with respect to its snapshot.
* `InvL` : a connected, not unsubscribed, not suspended slot is in `updates`
  -> every snapshot taken while the link is live contains it.
* `InvT` : termination bookkeeping for clones.
-/
namespace Rotonda.Gate

@[simp] theorem upd_same {α : Type} (f : Nat → α) (i : Nat) (x : α) : upd f i x i = x := by
  simp [upd]

@[simp] theorem upd_other {α : Type} (f : Nat → α) (i j : Nat) (x : α) (h : j ≠ i) : upd f i x j = f j := by
  simp [upd, h]

theorem upd_apply {α : Type} (f : Nat → α) (i j : Nat) (x : α) : upd f i x j = if j = i then x else f j := rfl

theorem mem_ins {s x : Slot} {l : List Slot} : x ∈ ins s l ↔ x = s ∨ x ∈ l := by
  simp only [ins, List.mem_append, List.mem_filter, List.mem_singleton, bne_iff_ne, ne_eq]
  constructor
  · rintro (⟨h, _⟩ | h)
    · exact Or.inr h
    · exact Or.inl h
  · rintro (h | h)
    · exact Or.inr h
    · by_cases hx : x = s
      · exact Or.inr hx
      · exact Or.inl ⟨h, hx⟩

theorem nodup_ins {s : Slot} {l : List Slot} (h : l.Nodup) : (ins s l).Nodup := by
  simp only [ins]
  rw [List.nodup_append]
  refine ⟨h.sublist List.filter_sublist, by simp, ?_⟩
  intro a ha b hb
  simp only [List.mem_filter, bne_iff_ne, ne_eq] at ha
  simp only [List.mem_singleton] at hb
  rw [hb]; exact ha.2

theorem nodup_del {s : Slot} {l : List Slot} (h : l.Nodup) : (del s l).Nodup := h.erase s

theorem mem_del_of_ne {s x : Slot} {l : List Slot} (h : x ≠ s) : x ∈ del s l ↔ x ∈ l :=
  List.mem_erase_of_ne h

theorem mem_of_mem_del {s x : Slot} {l : List Slot} (h : x ∈ del s l) : x ∈ l :=
  (List.erase_sublist).subset h

theorem seqsOf_append (p : Pub) (l₁ l₂ : List Msg) : seqsOf p (l₁ ++ l₂) = seqsOf p l₁ ++ seqsOf p l₂ := by
  simp [seqsOf, List.filter_append]

theorem mem_seqsOf {p : Pub} {q : Nat} {l : List Msg} : q ∈ seqsOf p l ↔ (p, q) ∈ l := by
  simp only [seqsOf, List.mem_map, List.mem_filter, beq_iff_eq]
  constructor
  · rintro ⟨⟨a, b⟩, ⟨hm, ha⟩, hb⟩
    simp only at ha hb
    subst ha; subst hb; exact hm
  · intro h
    exact ⟨(p, q), ⟨h, rfl⟩, rfl⟩

@[simp] theorem notify_seq (pubs : Pub → PubSt) (x : Cmd) (c : Pub) : (notify pubs x c).seq = (pubs c).seq := by
  unfold notify; split <;> rfl
@[simp] theorem notify_sending (pubs : Pub → PubSt) (x : Cmd) (c : Pub) : (notify pubs x c).sending = (pubs c).sending := by
  unfold notify; split <;> rfl
@[simp] theorem notify_snap (pubs : Pub → PubSt) (x : Cmd) (c : Pub) : (notify pubs x c).snap = (pubs c).snap := by
  unfold notify; split <;> rfl
@[simp] theorem notify_alive (pubs : Pub → PubSt) (x : Cmd) (c : Pub) : (notify pubs x c).alive = (pubs c).alive := by
  unfold notify; split <;> rfl
@[simp] theorem notify_attached (pubs : Pub → PubSt) (x : Cmd) (c : Pub) : (notify pubs x c).attached = (pubs c).attached := by
  unfold notify; split <;> rfl
@[simp] theorem notify_terminated (pubs : Pub → PubSt) (x : Cmd) (c : Pub) : (notify pubs x c).terminated = (pubs c).terminated := by
  unfold notify; split <;> rfl
theorem notify_cmdq (pubs : Pub → PubSt) (x : Cmd) (c : Pub) :
    (notify pubs x c).cmdq = if (pubs c).attached && (pubs c).alive then (pubs c).cmdq ++ [x] else (pubs c).cmdq := by
  unfold notify; split <;> rfl

@[simp] theorem send_updates (st : St) (x : Cmd) : (st.send x).updates = st.updates := by unfold St.send; split <;> rfl
@[simp] theorem send_suspended (st : St) (x : Cmd) : (st.send x).suspended = st.suspended := by unfold St.send; split <;> rfl
@[simp] theorem send_pubs (st : St) (x : Cmd) : (st.send x).pubs = st.pubs := by unfold St.send; split <;> rfl
@[simp] theorem send_chans (st : St) (x : Cmd) : (st.send x).chans = st.chans := by unfold St.send; split <;> rfl
@[simp] theorem send_responding (st : St) (x : Cmd) : (st.send x).responding = st.responding := by unfold St.send; split <;> rfl
@[simp] theorem send_rootTerminated (st : St) (x : Cmd) : (st.send x).rootTerminated = st.rootTerminated := by unfold St.send; split <;> rfl
@[simp] theorem send_rootDropped (st : St) (x : Cmd) : (st.send x).rootDropped = st.rootDropped := by unfold St.send; split <;> rfl
@[simp] theorem send_cap (st : St) (x : Cmd) : (st.send x).cap = st.cap := by unfold St.send; split <;> rfl

/-! ### InvB -/

structure InvB (st : St) : Prop where
  nodup : st.updates.Nodup
  le_seq : ∀ s p q, (p, q) ∈ (st.chans s).hist → q ≤ (st.pubs p).seq
  sorted : ∀ s p, (seqsOf p (st.chans s).hist).Pairwise (· < ·)
  sendR : ∀ p R, (st.pubs p).sending = some R →
      R.Nodup ∧ (∀ s ∈ R, s ∈ (st.pubs p).snap) ∧
      (∀ s ∈ R, ∀ q, (p, q) ∈ (st.chans s).hist → q < (st.pubs p).seq) ∧
      (∀ s ∈ (st.pubs p).snap, s ∉ R → (p, (st.pubs p).seq) ∈ (st.chans s).hist ∨ (st.chans s).open_ = false)

/-- Steps that touch neither sequence numbers, in-flight snapshots nor histories. -/
structure FrameB (st st' : St) : Prop where
  nodup : st.updates.Nodup → st'.updates.Nodup
  seq : ∀ p, (st'.pubs p).seq = (st.pubs p).seq
  sending : ∀ p, (st'.pubs p).sending = (st.pubs p).sending
  snap : ∀ p, (st'.pubs p).snap = (st.pubs p).snap
  hist : ∀ s, (st'.chans s).hist = (st.chans s).hist
  open_ : ∀ s, (st'.chans s).open_ = (st.chans s).open_ ∨ (st'.chans s).open_ = false

theorem InvB.frame {st st' : St} (f : FrameB st st') (h : InvB st) : InvB st' := by
  refine ⟨f.nodup h.nodup, ?_, ?_, ?_⟩
  · intro s p q hm
    rw [f.hist] at hm; rw [f.seq]; exact h.le_seq s p q hm
  · intro s p
    rw [f.hist]; exact h.sorted s p
  · intro p R hR
    rw [f.sending] at hR
    obtain ⟨h1, h2, h3, h4⟩ := h.sendR p R hR
    refine ⟨h1, ?_, ?_, ?_⟩
    · intro s hs; rw [f.snap]; exact h2 s hs
    · intro s hs q hm; rw [f.hist] at hm; rw [f.seq]; exact h3 s hs q hm
    · intro s hs hn
      rw [f.snap] at hs
      rw [f.hist, f.seq]
      rcases h4 s hs hn with h | h
      · exact Or.inl h
      · right
        rcases f.open_ s with h' | h'
        · rw [h', h]
        · exact h'

theorem invB_init (cap : Nat) : InvB (init cap) := by
  refine ⟨by simp [init], ?_, ?_, ?_⟩
  · intro s p q hm; simp [init] at hm
  · intro s p; simp [init, seqsOf]
  · intro p R hR
    simp only [init] at hR
    split at hR <;> simp at hR


theorem FrameB.refl (st : St) : FrameB st st :=
  ⟨fun h => h, fun _ => rfl, fun _ => rfl, fun _ => rfl, fun _ => rfl, fun _ => Or.inl rfl⟩

theorem FrameB.trans {a b c : St} (h1 : FrameB a b) (h2 : FrameB b c) : FrameB a c := by
  refine ⟨fun h => h2.nodup (h1.nodup h), fun p => (h2.seq p).trans (h1.seq p), fun p => (h2.sending p).trans (h1.sending p),
    fun p => (h2.snap p).trans (h1.snap p), fun s => (h2.hist s).trans (h1.hist s), ?_⟩
  intro s
  rcases h2.open_ s with h | h
  · rcases h1.open_ s with h' | h'
    · exact Or.inl (h.trans h')
    · exact Or.inr (h.trans h')
  · exact Or.inr h

theorem frameB_send (st : St) (x : Cmd) : FrameB st (st.send x) :=
  ⟨fun h => by simpa using h, fun _ => by simp, fun _ => by simp, fun _ => by simp, fun _ => by simp, fun _ => Or.inl (by simp)⟩

theorem frameB_cloneHandle (st : St) (c : Pub) (x : Cmd) : FrameB st (cloneHandle st c x) := by
  cases x <;> simp only [cloneHandle] <;> try exact FrameB.refl st
  · refine ⟨fun h => h, ?_, ?_, ?_, fun _ => rfl, fun _ => Or.inl rfl⟩ <;>
      (intro p; simp only [upd_apply]; split <;> simp_all)
  · exact ⟨fun h => nodup_ins h, fun _ => rfl, fun _ => rfl, fun _ => rfl, fun _ => rfl, fun _ => Or.inl rfl⟩
  · exact ⟨fun h => nodup_del h, fun _ => rfl, fun _ => rfl, fun _ => rfl, fun _ => rfl, fun _ => Or.inl rfl⟩


theorem frameB_rootHandle (st : St) (x : Cmd) : FrameB st (rootHandle st x) := by
  cases x with
  | subscribe s b =>
    simp only [rootHandle]
    split
    · refine ⟨fun h => h, fun _ => rfl, fun _ => rfl, fun _ => rfl, ?_, ?_⟩
      · intro s'; simp only [upd_apply]; split <;> simp_all
      · intro s'; simp only [upd_apply]; split <;> simp_all
    · exact ⟨fun h => nodup_ins h, fun _ => rfl, fun _ => rfl, fun _ => rfl, fun _ => rfl, fun _ => Or.inl rfl⟩
  | unsubscribe s =>
    simp only [rootHandle]
    refine ⟨fun h => nodup_del h, fun _ => by simp, fun _ => by simp, fun _ => by simp, ?_, ?_⟩
    · intro s'; simp only [upd_apply]; split <;> simp_all
    · intro s'; simp only [upd_apply]; split <;> simp_all
  | suspension s b =>
    cases b
    · simp only [rootHandle]
      split
      · refine ⟨fun h => nodup_ins h, fun _ => rfl, fun _ => rfl, fun _ => rfl, ?_, ?_⟩
        · intro s'; simp only [upd_apply]; split <;> simp_all
        · intro s'; simp only [upd_apply]; split <;> simp_all
      · exact ⟨fun h => h, fun _ => rfl, fun _ => rfl, fun _ => rfl, fun _ => rfl, fun _ => Or.inl rfl⟩
    · simp only [rootHandle]
      split
      · refine ⟨fun h => nodup_del h, fun _ => rfl, fun _ => rfl, fun _ => rfl, ?_, ?_⟩
        · intro s'; simp only [upd_apply]; split <;> simp_all
        · intro s'; simp only [upd_apply]; split <;> simp_all
      · refine ⟨fun h => h, fun _ => rfl, fun _ => rfl, fun _ => rfl, ?_, ?_⟩
        · intro s'; simp only [upd_apply]; split <;> simp_all
        · intro s'; simp only [upd_apply]; split <;> simp_all
  | attach c =>
    simp only [rootHandle]
    refine ⟨fun h => h, ?_, ?_, ?_, fun _ => rfl, fun _ => Or.inl rfl⟩ <;>
      (intro p; simp only [upd_apply]; split <;> simp_all)
  | detach c =>
    simp only [rootHandle]
    refine ⟨fun h => h, ?_, ?_, ?_, fun _ => rfl, fun _ => Or.inl rfl⟩ <;>
      (intro p; simp only [upd_apply]; split <;> simp_all)
  | terminate =>
    simp only [rootHandle]
    exact ⟨fun h => h, fun _ => by simp, fun _ => by simp, fun _ => by simp, fun _ => rfl, fun _ => Or.inl rfl⟩
  | followSub s => exact ⟨fun h => h, fun _ => rfl, fun _ => rfl, fun _ => rfl, fun _ => rfl, fun _ => Or.inl rfl⟩
  | followUnsub s => exact ⟨fun h => h, fun _ => rfl, fun _ => rfl, fun _ => rfl, fun _ => rfl, fun _ => Or.inl rfl⟩


macro "frameB_tac" : tactic => `(tactic|
  (refine ⟨?_, ?_, ?_, ?_, ?_, ?_⟩ <;> intros <;> simp only [send_updates, send_pubs, send_chans, upd_apply] <;> (try split) <;> simp_all))

/-- Every step other than the three publisher steps leaves histories, sequence numbers and
    in-flight snapshots alone. -/
theorem frameB_step {st st' : St} {x : Step} (hs : step st x = some st')
    (hx : ∀ p, x ≠ .pubBegin p) (hy : ∀ p s, x ≠ .pubDeliver p s) (hz : ∀ p, x ≠ .pubEnd p) : FrameB st st' := by
  cases x with
  | pubBegin p => exact absurd rfl (hx p)
  | pubDeliver p s => exact absurd rfl (hy p s)
  | pubEnd p => exact absurd rfl (hz p)
  | linkSubscribe s k b =>
    simp only [step] at hs
    split at hs
    · cases hs; frameB_tac
    · cases hs
  | linkCancel s =>
    simp only [step] at hs
    split at hs
    · cases hs; frameB_tac
    · cases hs
  | linkSuspend s b =>
    simp only [step] at hs
    split at hs
    · cases hs; frameB_tac
    · cases hs
  | linkDisconnect s =>
    simp only [step] at hs
    split at hs
    · cases hs; frameB_tac
    · cases hs
  | linkClose s =>
    simp only [step] at hs
    split at hs
    · cases hs; frameB_tac
    · cases hs
  | linkRecv s =>
    simp only [step] at hs
    split at hs
    · cases hs; frameB_tac
    · cases hs
  | linkGone s =>
    simp only [step] at hs
    split at hs
    · cases hs; frameB_tac
    · cases hs
  | agentTerminate =>
    simp only [step] at hs
    cases hs; exact frameB_send _ _
  | rootProc =>
    simp only [step] at hs
    split at hs
    · cases hs
    · split at hs
      · cases hs
      · cases hs
        refine FrameB.trans ?_ (frameB_rootHandle _ _)
        exact ⟨fun h => h, fun _ => rfl, fun _ => rfl, fun _ => rfl, fun _ => rfl, fun _ => Or.inl rfl⟩
  | rootRespond =>
    simp only [step] at hs
    split at hs
    · cases hs
    · split at hs
      · cases hs
        split
        · exact ⟨fun h => h, fun _ => rfl, fun _ => rfl, fun _ => rfl, fun _ => rfl, fun _ => Or.inl rfl⟩
        · exact ⟨fun h => nodup_del h, fun _ => rfl, fun _ => rfl, fun _ => rfl, fun _ => rfl, fun _ => Or.inl rfl⟩
      · cases hs; frameB_tac
  | rootDrop =>
    simp only [step] at hs
    split at hs
    · cases hs; frameB_tac
    · cases hs
  | cloneNew c =>
    simp only [step] at hs
    split at hs
    · cases hs; frameB_tac
    · cases hs
  | cloneProc c =>
    simp only [step] at hs
    split at hs
    · split at hs
      · cases hs
      · cases hs
        refine FrameB.trans ?_ (frameB_cloneHandle _ _ _)
        frameB_tac
    · cases hs
  | cloneClosed c =>
    simp only [step] at hs
    split at hs
    · cases hs; frameB_tac
    · cases hs
  | cloneDrop c =>
    simp only [step] at hs
    split at hs
    · cases hs; frameB_tac
    · cases hs


theorem invB_pubBegin {st st' : St} {p : Pub} (hs : step st (.pubBegin p) = some st') (h : InvB st) : InvB st' := by
  simp only [step] at hs
  split at hs
  · cases hs
    refine ⟨h.nodup, ?_, ?_, ?_⟩
    · intro s p' q hm
      have := h.le_seq s p' q hm
      simp only [upd_apply]; split
      · subst_vars; simp only; omega
      · exact this
    · intro s p'; exact h.sorted s p'
    · intro p' R hR
      simp only [upd_apply] at hR ⊢
      split at hR
      · rename_i hp; subst hp
        simp only [Option.some.injEq] at hR; subst hR
        simp only [if_true]
        refine ⟨h.nodup, fun s hs => hs, ?_, fun s hs hn => absurd hs hn⟩
        intro s _ q hm
        have := h.le_seq s p' q hm; omega
      · rename_i hp; simp only [hp, if_false]
        exact h.sendR p' R hR
  · cases hs

/-- A delivery that pushes `(p, seq p)` onto slot `s`'s history. -/
theorem invB_deliver_push {st st' : St} {p : Pub} {s : Slot} {R : List Slot} (h : InvB st)
    (hR : (st.pubs p).sending = some R) (hsR : s ∈ R)
    (hU : st'.updates = st.updates)
    (hseq : ∀ p', (st'.pubs p').seq = (st.pubs p').seq)
    (hsnap : ∀ p', (st'.pubs p').snap = (st.pubs p').snap)
    (hsp : (st'.pubs p).sending = some (R.erase s))
    (hso : ∀ p', p' ≠ p → (st'.pubs p').sending = (st.pubs p').sending)
    (hhs : (st'.chans s).hist = (st.chans s).hist ++ [(p, (st.pubs p).seq)])
    (hho : ∀ s', s' ≠ s → (st'.chans s').hist = (st.chans s').hist)
    (hop : ∀ s', (st'.chans s').open_ = (st.chans s').open_) : InvB st' := by
  obtain ⟨h1, h2, h3, h4⟩ := h.sendR p R hR
  refine ⟨hU ▸ h.nodup, ?_, ?_, ?_⟩
  · intro s' p' q hm
    rw [hseq]
    by_cases hss : s' = s
    · subst hss; rw [hhs] at hm
      simp only [List.mem_append, List.mem_singleton, Prod.mk.injEq] at hm
      rcases hm with hm | ⟨rfl, rfl⟩
      · exact h.le_seq _ _ _ hm
      · exact Nat.le_refl _
    · rw [hho s' hss] at hm; exact h.le_seq _ _ _ hm
  · intro s' p'
    by_cases hss : s' = s
    · subst hss; rw [hhs, seqsOf_append]
      by_cases hpp : p' = p
      · subst hpp
        have : seqsOf p' [(p', (st.pubs p').seq)] = [(st.pubs p').seq] := by simp [seqsOf]
        rw [this, List.pairwise_append]
        refine ⟨h.sorted _ _, by simp, ?_⟩
        intro a ha b hb
        simp only [List.mem_singleton] at hb; subst hb
        exact h3 s' hsR a (mem_seqsOf.mp ha)
      · have : seqsOf p' [(p, (st.pubs p).seq)] = [] := by
          simp only [seqsOf, List.filter_cons, List.filter_nil]
          have : (p == p') = false := by simp; exact fun e => hpp e.symm
          simp [this]
        rw [this, List.append_nil]; exact h.sorted _ _
    · rw [hho s' hss]; exact h.sorted _ _
  · intro p' R' hR'
    by_cases hpp : p' = p
    · subst hpp
      rw [hsp] at hR'; simp only [Option.some.injEq] at hR'; subst hR'
      rw [hseq, hsnap]
      refine ⟨h1.erase s, ?_, ?_, ?_⟩
      · intro s' hs'; exact h2 s' ((List.erase_sublist).subset hs')
      · intro s' hs' q hm
        have hne : s' ≠ s := ((h1.mem_erase_iff).mp hs').1
        rw [hho s' hne] at hm
        exact h3 s' ((List.erase_sublist).subset hs') q hm
      · intro s' hs' hn
        by_cases hss : s' = s
        · subst hss; left; rw [hhs]; simp
        · have : s' ∉ R := fun hin => hn ((h1.mem_erase_iff).mpr ⟨hss, hin⟩)
          rw [hho s' hss, hop]
          exact h4 s' hs' this
    · rw [hso p' hpp] at hR'
      obtain ⟨g1, g2, g3, g4⟩ := h.sendR p' R' hR'
      rw [hseq, hsnap]
      refine ⟨g1, g2, ?_, ?_⟩
      · intro s' hs' q hm
        by_cases hss : s' = s
        · subst hss; rw [hhs] at hm
          simp only [List.mem_append, List.mem_singleton, Prod.mk.injEq] at hm
          rcases hm with hm | ⟨e, _⟩
          · exact g3 s' hs' q hm
          · exact absurd e hpp
        · rw [hho s' hss] at hm; exact g3 s' hs' q hm
      · intro s' hs' hn
        rw [hop]
        rcases g4 s' hs' hn with g | g
        · left
          by_cases hss : s' = s
          · subst hss; rw [hhs]; exact List.mem_append_left _ g
          · rw [hho s' hss]; exact g
        · exact Or.inr g

/-- A delivery to a closed link: nothing is pushed. -/
theorem invB_deliver_skip {st st' : St} {p : Pub} {s : Slot} {R : List Slot} (h : InvB st)
    (hR : (st.pubs p).sending = some R)
    (hcl : (st.chans s).open_ = false)
    (hU : st'.updates = st.updates)
    (hseq : ∀ p', (st'.pubs p').seq = (st.pubs p').seq)
    (hsnap : ∀ p', (st'.pubs p').snap = (st.pubs p').snap)
    (hsp : (st'.pubs p).sending = some (R.erase s))
    (hso : ∀ p', p' ≠ p → (st'.pubs p').sending = (st.pubs p').sending)
    (hho : ∀ s', (st'.chans s').hist = (st.chans s').hist)
    (hop : ∀ s', (st'.chans s').open_ = (st.chans s').open_) : InvB st' := by
  obtain ⟨h1, h2, h3, h4⟩ := h.sendR p R hR
  refine ⟨hU ▸ h.nodup, ?_, ?_, ?_⟩
  · intro s' p' q hm; rw [hseq]; rw [hho] at hm; exact h.le_seq _ _ _ hm
  · intro s' p'; rw [hho]; exact h.sorted _ _
  · intro p' R' hR'
    by_cases hpp : p' = p
    · subst hpp
      rw [hsp] at hR'; simp only [Option.some.injEq] at hR'; subst hR'
      rw [hseq, hsnap]
      refine ⟨h1.erase s, ?_, ?_, ?_⟩
      · intro s' hs'; exact h2 s' ((List.erase_sublist).subset hs')
      · intro s' hs' q hm
        rw [hho] at hm
        exact h3 s' ((List.erase_sublist).subset hs') q hm
      · intro s' hs' hn
        rw [hho, hop]
        by_cases hss : s' = s
        · subst hss; exact Or.inr hcl
        · have : s' ∉ R := fun hin => hn ((h1.mem_erase_iff).mpr ⟨hss, hin⟩)
          exact h4 s' hs' this
    · rw [hso p' hpp] at hR'
      obtain ⟨g1, g2, g3, g4⟩ := h.sendR p' R' hR'
      rw [hseq, hsnap]
      refine ⟨g1, g2, ?_, ?_⟩
      · intro s' hs' q hm; rw [hho] at hm; exact g3 s' hs' q hm
      · intro s' hs' hn; rw [hho, hop]; exact g4 s' hs' hn



theorem invB_pubDeliver {st st' : St} {p : Pub} {s : Slot} (hs : step st (.pubDeliver p s) = some st') (h : InvB st) : InvB st' := by
  simp only [step] at hs
  split at hs
  · cases hs
  · rename_i R hR
    split at hs
    · rename_i hc
      have hsR : s ∈ R := by simpa using hc
      split at hs
      · split at hs
        · split at hs
          · cases hs
            refine invB_deliver_push h hR hsR rfl ?_ ?_ ?_ ?_ ?_ ?_ ?_
            · intro p'; simp only [upd_apply]; split <;> simp_all
            · intro p'; simp only [upd_apply]; split <;> simp_all
            · simp
            · intro p' hp; simp [hp]
            · simp
            · intro s' hs'; simp [hs']
            · intro s'; simp only [upd_apply]; split <;> simp_all
          · cases hs
        · cases hs
          refine invB_deliver_push h hR hsR rfl ?_ ?_ ?_ ?_ ?_ ?_ ?_
          · intro p'; simp only [upd_apply]; split <;> simp_all
          · intro p'; simp only [upd_apply]; split <;> simp_all
          · simp
          · intro p' hp; simp [hp]
          · simp
          · intro s' hs'; simp [hs']
          · intro s'; simp only [upd_apply]; split <;> simp_all
      · rename_i hcl
        cases hs
        refine invB_deliver_skip (s := s) h hR (by simpa using hcl) rfl ?_ ?_ ?_ ?_ (fun _ => rfl) (fun _ => rfl)
        · intro p'; simp only [upd_apply]; split <;> simp_all
        · intro p'; simp only [upd_apply]; split <;> simp_all
        · simp
        · intro p' hp; simp [hp]
    · cases hs

theorem invB_pubEnd {st st' : St} {p : Pub} (hs : step st (.pubEnd p) = some st') (h : InvB st) : InvB st' := by
  simp only [step] at hs
  split at hs
  · cases hs
    refine ⟨h.nodup, ?_, h.sorted, ?_⟩
    · intro s p' q hm
      have := h.le_seq s p' q hm
      simp only [upd_apply]; split <;> simp_all
    · intro p' R hR
      simp only [upd_apply] at hR ⊢
      split at hR
      · simp at hR
      · rename_i hp; simp only [hp, if_false]; exact h.sendR p' R hR
  · cases hs

theorem invB_step {st st' : St} {x : Step} (hs : step st x = some st') (h : InvB st) : InvB st' := by
  cases x with
  | pubBegin p => exact invB_pubBegin hs h
  | pubDeliver p s => exact invB_pubDeliver hs h
  | pubEnd p => exact invB_pubEnd hs h
  | _ => exact h.frame (frameB_step hs (by intros; intro e; cases e) (by intros; intro e; cases e) (by intros; intro e; cases e))

theorem invB_run {st st' : St} {tr : List Step} (hs : run st tr = some st') (h : InvB st) : InvB st' := by
  induction tr generalizing st with
  | nil => simp only [run] at hs; cases hs; exact h
  | cons x xs ih =>
    simp only [run] at hs
    split at hs
    · rename_i st1 h1; exact ih hs (invB_step h1 h)
    · cases hs



structure InvL (st : St) : Prop where
  live_mem : ∀ s, st.live s → s ∈ st.updates
  funsub : ∀ c s, Cmd.followUnsub s ∈ (st.pubs c).cmdq → (st.chans s).unsubbed = true
  resp : ∀ s b, st.responding = some (s, b) →
    (st.chans s).susp = false → (st.chans s).unsubbed = false → s ∈ st.updates
  canc : ∀ s, (st.chans s).cancelled = true → (st.chans s).acked = false

theorem invL_init (cap : Nat) : InvL (init cap) := by
  refine ⟨?_, ?_, ?_, ?_⟩
  · intro s h; simp [St.live, init] at h
  · intro c s h; simp only [init] at h; split at h <;> simp at h
  · intro s b h; simp [init] at h
  · intro s h; simp [init] at h

/-- Steps that change neither the maps, the ghost flags, `responding` nor any clone queue
    (except by dropping/truncating it). -/
structure FrameL (st st' : St) : Prop where
  updates : st'.updates = st.updates
  responding : st'.responding = st.responding
  acked : ∀ s, (st'.chans s).acked = (st.chans s).acked
  unsubbed : ∀ s, (st'.chans s).unsubbed = (st.chans s).unsubbed
  susp : ∀ s, (st'.chans s).susp = (st.chans s).susp
  cancelled : ∀ s, (st'.chans s).cancelled = (st.chans s).cancelled ∨
      ((st'.chans s).cancelled = true ∧ (st.chans s).acked = false)
  cmdq : ∀ c, (st'.pubs c).cmdq = (st.pubs c).cmdq ∨ (st'.pubs c).cmdq = []

theorem InvL.frame {st st' : St} (f : FrameL st st') (h : InvL st) : InvL st' := by
  refine ⟨?_, ?_, ?_, ?_⟩
  · intro s hl
    rw [f.updates]; apply h.live_mem
    simpa [St.live, f.acked, f.unsubbed, f.susp] using hl
  · intro c s hm; rw [f.unsubbed]
    rcases f.cmdq c with e | e
    · rw [e] at hm; exact h.funsub c s hm
    · rw [e] at hm; simp at hm
  · intro s b hr; rw [f.responding] at hr; rw [f.susp, f.unsubbed, f.updates]; exact h.resp s b hr
  · intro s hc
    rw [f.acked]
    rcases f.cancelled s with e | ⟨_, e⟩
    · rw [e] at hc; exact h.canc s hc
    · exact e

macro "frameL_tac" : tactic => `(tactic|
  (refine ⟨?_, ?_, ?_, ?_, ?_, ?_, ?_⟩ <;> intros <;>
    simp only [send_updates, send_pubs, send_chans, send_responding, upd_apply] at * <;> (try split) <;> simp_all))


theorem frameL_step {st st' : St} {x : Step} (hs : step st x = some st')
    (h1 : x ≠ .rootProc) (h2 : x ≠ .rootRespond) (h3 : ∀ c, x ≠ .cloneProc c) : FrameL st st' := by
  cases x with
  | rootProc => exact absurd rfl h1
  | rootRespond => exact absurd rfl h2
  | cloneProc c => exact absurd rfl (h3 c)
  | pubBegin p =>
    simp only [step] at hs
    split at hs
    · cases hs; frameL_tac
    · cases hs
  | pubDeliver p s =>
    simp only [step] at hs
    split at hs
    · cases hs
    · split at hs
      · split at hs
        · split at hs
          · split at hs
            · cases hs; frameL_tac
            · cases hs
          · cases hs; frameL_tac
        · cases hs; frameL_tac
      · cases hs
  | pubEnd p =>
    simp only [step] at hs
    split at hs
    · cases hs; frameL_tac
    · cases hs
  | linkSubscribe s k b =>
    simp only [step] at hs
    split at hs
    · cases hs; frameL_tac
    · cases hs
  | linkCancel s =>
    simp only [step] at hs
    split at hs
    · cases hs; frameL_tac
    · cases hs
  | linkSuspend s b =>
    simp only [step] at hs
    split at hs
    · cases hs; frameL_tac
    · cases hs
  | linkDisconnect s =>
    simp only [step] at hs
    split at hs
    · cases hs; frameL_tac
    · cases hs
  | linkClose s =>
    simp only [step] at hs
    split at hs
    · cases hs; frameL_tac
    · cases hs
  | linkRecv s =>
    simp only [step] at hs
    split at hs
    · cases hs; frameL_tac
    · cases hs
  | linkGone s =>
    simp only [step] at hs
    split at hs
    · cases hs; frameL_tac
    · cases hs
  | agentTerminate =>
    simp only [step] at hs
    cases hs; frameL_tac
  | rootDrop =>
    simp only [step] at hs
    split at hs
    · cases hs; frameL_tac
    · cases hs
  | cloneNew c =>
    simp only [step] at hs
    split at hs
    · cases hs; frameL_tac
    · cases hs
  | cloneClosed c =>
    simp only [step] at hs
    split at hs
    · cases hs; frameL_tac
    · cases hs
  | cloneDrop c =>
    simp only [step] at hs
    split at hs
    · cases hs; frameL_tac
    · cases hs


theorem mem_notify_cmdq {pubs : Pub → PubSt} {x y : Cmd} {c : Pub} (h : y ∈ (notify pubs x c).cmdq) :
    y ∈ (pubs c).cmdq ∨ y = x := by
  rw [notify_cmdq] at h
  split at h
  · simp only [List.mem_append, List.mem_singleton] at h; exact h
  · exact Or.inl h

/-- the root gate handles a command while it is not in the middle of a subscribe -/
theorem invL_rootHandle {st : St} (x : Cmd) (hr : st.responding = none) (h : InvL st) : InvL (rootHandle st x) := by
  cases x with
  | subscribe s b =>
    simp only [rootHandle]
    split
    · rename_i hb; subst hb
      refine ⟨?_, ?_, ?_, ?_⟩
      · intro s' hl
        apply h.live_mem
        simp only [St.live, upd_apply] at hl ⊢
        split at hl <;> simp_all
      · intro c s' hm
        have := h.funsub c s' hm
        simp only [upd_apply]; split <;> simp_all
      · intro s' b' hr' hsu
        simp only [Option.some.injEq, Prod.mk.injEq] at hr'
        obtain ⟨rfl, rfl⟩ := hr'
        simp at hsu
      · intro s' hc
        simp only [upd_apply] at hc ⊢
        split <;> simp_all [h.canc]
    · rename_i hb
      refine ⟨?_, h.funsub, ?_, h.canc⟩
      · intro s' hl; exact mem_ins.mpr (Or.inr (h.live_mem s' hl))
      · intro s' b' hr' _ _
        simp only [Option.some.injEq, Prod.mk.injEq] at hr'
        obtain ⟨rfl, rfl⟩ := hr'
        exact mem_ins.mpr (Or.inl rfl)
  | unsubscribe s =>
    simp only [rootHandle]
    refine ⟨?_, ?_, ?_, ?_⟩
    · intro s' hl
      simp only [St.live, upd_apply] at hl
      by_cases e : s' = s
      · simp [e] at hl
      · simp only [e, if_false] at hl
        exact (mem_del_of_ne e).mpr (h.live_mem s' hl)
    · intro c s' hm
      simp only [upd_apply]
      rcases mem_notify_cmdq hm with hm | hm
      · have := h.funsub c s' hm; split <;> simp_all
      · simp only [Cmd.followUnsub.injEq] at hm; simp [hm]
    · intro s' b' hr'; simp [hr] at hr'
    · intro s' hc
      simp only [upd_apply] at hc ⊢
      split <;> simp_all [h.canc]
  | suspension s b =>
    cases b
    · simp only [rootHandle]
      split
      · refine ⟨?_, ?_, ?_, ?_⟩
        · intro s' hl
          simp only [St.live, upd_apply] at hl
          by_cases e : s' = s
          · exact mem_ins.mpr (Or.inl e)
          · simp only [e, if_false] at hl
            exact mem_ins.mpr (Or.inr (h.live_mem s' hl))
        · intro c s' hm
          have := h.funsub c s' hm
          simp only [upd_apply]; split <;> simp_all
        · intro s' b' hr'; simp [hr] at hr'
        · intro s' hc
          simp only [upd_apply] at hc ⊢
          split <;> simp_all [h.canc]
      · exact h
    · simp only [rootHandle]
      split
      · refine ⟨?_, ?_, ?_, ?_⟩
        · intro s' hl
          simp only [St.live, upd_apply] at hl
          by_cases e : s' = s
          · simp [e] at hl
          · simp only [e, if_false] at hl
            exact (mem_del_of_ne e).mpr (h.live_mem s' hl)
        · intro c s' hm
          have := h.funsub c s' hm
          simp only [upd_apply]; split <;> simp_all
        · intro s' b' hr'; simp [hr] at hr'
        · intro s' hc
          simp only [upd_apply] at hc ⊢
          split <;> simp_all [h.canc]
      · refine ⟨?_, ?_, ?_, ?_⟩
        · intro s' hl
          simp only [St.live, upd_apply] at hl
          by_cases e : s' = s
          · simp [e] at hl
          · simp only [e, if_false] at hl
            exact h.live_mem s' hl
        · intro c s' hm
          have := h.funsub c s' hm
          simp only [upd_apply]; split <;> simp_all
        · intro s' b' hr'; simp [hr] at hr'
        · intro s' hc
          simp only [upd_apply] at hc ⊢
          split <;> simp_all [h.canc]
  | attach c =>
    simp only [rootHandle]
    refine ⟨h.live_mem, ?_, h.resp, h.canc⟩
    intro c' s' hm
    simp only [upd_apply] at hm
    split at hm
    · subst_vars; exact h.funsub _ s' hm
    · exact h.funsub c' s' hm
  | detach c =>
    simp only [rootHandle]
    refine ⟨h.live_mem, ?_, h.resp, h.canc⟩
    intro c' s' hm
    simp only [upd_apply] at hm
    split at hm
    · subst_vars; exact h.funsub _ s' hm
    · exact h.funsub c' s' hm
  | terminate =>
    simp only [rootHandle]
    refine ⟨h.live_mem, ?_, h.resp, h.canc⟩
    intro c' s' hm
    rcases mem_notify_cmdq hm with hm | hm
    · exact h.funsub c' s' hm
    · cases hm
  | followSub s => exact h
  | followUnsub s => exact h


theorem invL_rootProc {st st' : St} (hs : step st .rootProc = some st') (h : InvL st) : InvL st' := by
  simp only [step] at hs
  split at hs
  · cases hs
  · rename_i hg
    split at hs
    · cases hs
    · rename_i x q hq
      cases hs
      have hr : st.responding = none := by
        cases hres : st.responding <;> simp_all
      exact invL_rootHandle (st := { st with rootq := q }) x hr ⟨h.live_mem, h.funsub, h.resp, h.canc⟩

theorem invL_rootRespond {st st' : St} (hs : step st .rootRespond = some st') (h : InvL st) : InvL st' := by
  simp only [step] at hs
  split at hs
  · cases hs
  · rename_i s b hr
    split at hs
    · rename_i hc
      cases hs
      have hack : (st.chans s).acked = false := h.canc s hc
      split
      · exact ⟨h.live_mem, h.funsub, by intro s' b' e; simp at e, h.canc⟩
      · refine ⟨?_, h.funsub, by intro s' b' e; simp at e, h.canc⟩
        intro s' hl
        by_cases e : s' = s
        · subst e; simp [St.live, hack] at hl
        · exact (mem_del_of_ne e).mpr (h.live_mem s' hl)
    · rename_i hc
      cases hs
      refine ⟨?_, ?_, by intro s' b' e; simp at e, ?_⟩
      · intro s' hl
        simp only [St.live, upd_apply] at hl
        by_cases e : s' = s
        · subst e
          simp only [if_true] at hl
          exact h.resp s' b hr hl.2.2 hl.2.1
        · simp only [e, if_false] at hl
          exact h.live_mem s' hl
      · intro c s' hm
        simp only [upd_apply]
        rcases mem_notify_cmdq hm with hm | hm
        · have := h.funsub c s' hm; split <;> simp_all
        · cases hm
      · intro s' hc'
        simp only [upd_apply] at hc' ⊢
        split at hc'
        · subst_vars; simp_all
        · rename_i e; simp only [e, if_false]; exact h.canc s' hc'

theorem invL_cloneProc {st st' : St} {c : Pub} (hs : step st (.cloneProc c) = some st') (h : InvL st) : InvL st' := by
  simp only [step] at hs
  split at hs
  · split at hs
    · cases hs
    · rename_i x q hq
      cases hs
      have hfun : ∀ c' s', Cmd.followUnsub s' ∈ ((upd st.pubs c { st.pubs c with cmdq := q }) c').cmdq →
          (st.chans s').unsubbed = true := by
        intro c' s' hm
        simp only [upd_apply] at hm
        split at hm
        · exact h.funsub c s' (by rw [hq]; exact List.mem_cons_of_mem _ hm)
        · exact h.funsub c' s' hm
      cases x with
      | followSub s =>
        simp only [cloneHandle]
        refine ⟨?_, hfun, ?_, h.canc⟩
        · intro s' hl; exact mem_ins.mpr (Or.inr (h.live_mem s' hl))
        · intro s' b' hr h1 h2; exact mem_ins.mpr (Or.inr (h.resp s' b' hr h1 h2))
      | followUnsub s =>
        simp only [cloneHandle]
        have hu : (st.chans s).unsubbed = true := by
          apply h.funsub c s; rw [hq]; exact List.mem_cons_self
        refine ⟨?_, hfun, ?_, h.canc⟩
        · intro s' hl
          by_cases e : s' = s
          · subst e; simp [St.live, hu] at hl
          · exact (mem_del_of_ne e).mpr (h.live_mem s' hl)
        · intro s' b' hr h1 h2
          by_cases e : s' = s
          · subst e; simp [hu] at h2
          · exact (mem_del_of_ne e).mpr (h.resp s' b' hr h1 h2)
      | terminate =>
        simp only [cloneHandle]
        refine ⟨h.live_mem, ?_, h.resp, h.canc⟩
        intro c' s' hm
        simp only [upd_apply] at hm
        split at hm
        · exact h.funsub c s' (by rw [hq]; exact List.mem_cons_of_mem _ hm)
        · exact h.funsub c' s' hm
      | _ => exact ⟨h.live_mem, hfun, h.resp, h.canc⟩
  · cases hs

theorem invL_step {st st' : St} {x : Step} (hs : step st x = some st') (h : InvL st) : InvL st' := by
  cases x with
  | rootProc => exact invL_rootProc hs h
  | rootRespond => exact invL_rootRespond hs h
  | cloneProc c => exact invL_cloneProc hs h
  | _ => exact h.frame (frameL_step hs (by intro e; cases e) (by intro e; cases e) (by intros; intro e; cases e))

theorem invL_run {st st' : St} {tr : List Step} (hs : Gate.run st tr = some st') (h : InvL st) : InvL st' := by
  induction tr generalizing st with
  | nil => simp only [Gate.run] at hs; cases hs; exact h
  | cons x xs ih =>
    simp only [Gate.run] at hs
    split at hs
    · rename_i st1 h1; exact ih hs (invL_step h1 h)
    · cases hs



/-- While publisher `p` is inside `update_data`, no step other than its own `pubEnd` changes its
    sequence number or its snapshot, and it stays inside. -/
theorem keep_step {st st' : St} {x : Step} {p : Pub} (hs : step st x = some st')
    (hsend : (st.pubs p).sending.isSome = true) (hx : x ≠ .pubEnd p) :
    (st'.pubs p).seq = (st.pubs p).seq ∧ (st'.pubs p).snap = (st.pubs p).snap ∧
    (st'.pubs p).sending.isSome = true := by
  cases x with
  | pubBegin p' =>
    simp only [step] at hs
    split at hs
    · rename_i hc
      cases hs
      by_cases e : p = p'
      · subst e; simp_all
      · simp [e, hsend]
    · cases hs
  | pubDeliver p' s =>
    simp only [step] at hs
    split at hs
    · cases hs
    · split at hs
      · split at hs
        · split at hs
          · split at hs
            · cases hs
              by_cases e : p = p' <;> simp_all
            · cases hs
          · cases hs
            by_cases e : p = p' <;> simp_all
        · cases hs
          by_cases e : p = p' <;> simp_all
      · cases hs
  | pubEnd p' =>
    have e : p ≠ p' := fun e => hx (by rw [e])
    simp only [step] at hs
    split at hs
    · cases hs; simp [e, hsend]
    · cases hs
  | _ =>
    have f := frameB_step hs (by intros; intro e; cases e) (by intros; intro e; cases e) (by intros; intro e; cases e)
    exact ⟨f.seq p, f.snap p, by rw [f.sending p]; exact hsend⟩

theorem keep_run {st st' : St} {tr : List Step} {p : Pub} (hs : Gate.run st tr = some st')
    (hsend : (st.pubs p).sending.isSome = true) (hx : ∀ x ∈ tr, x ≠ .pubEnd p) :
    (st'.pubs p).seq = (st.pubs p).seq ∧ (st'.pubs p).snap = (st.pubs p).snap ∧
    (st'.pubs p).sending.isSome = true := by
  induction tr generalizing st with
  | nil => simp only [Gate.run] at hs; cases hs; exact ⟨rfl, rfl, hsend⟩
  | cons x xs ih =>
    simp only [Gate.run] at hs
    split at hs
    · rename_i st1 h1
      obtain ⟨a, b, c⟩ := keep_step h1 hsend (hx x List.mem_cons_self)
      obtain ⟨a', b', c'⟩ := ih hs c (fun y hy => hx y (List.mem_cons_of_mem _ hy))
      exact ⟨a'.trans a, b'.trans b, c'⟩
    · cases hs

theorem run_append {st : St} {t1 t2 : List Step} :
    Gate.run st (t1 ++ t2) = (Gate.run st t1).bind (fun s => Gate.run s t2) := by
  induction t1 generalizing st with
  | nil => simp [Gate.run]
  | cons x xs ih =>
    simp only [List.cons_append, Gate.run]
    split
    · exact ih
    · simp

/-! ### Termination bookkeeping -/

structure InvT (st : St) : Prop where
  term : st.rootTerminated = true → ∀ c, c ≠ 0 → (st.pubs c).attached = true → (st.pubs c).alive = true →
    Cmd.terminate ∈ (st.pubs c).cmdq ∨ (st.pubs c).terminated = true

theorem invT_init (cap : Nat) : InvT (init cap) := ⟨by simp [init]⟩

theorem invT_same {st st' : St} (h : InvT st) (hr : st'.rootTerminated = st.rootTerminated)
    (hp : ∀ c, (st'.pubs c).attached = (st.pubs c).attached ∧ (st'.pubs c).alive = (st.pubs c).alive ∧
      (st'.pubs c).cmdq = (st.pubs c).cmdq ∧ (st'.pubs c).terminated = (st.pubs c).terminated) :
    st'.rootTerminated = true → ∀ c, c ≠ 0 → (st'.pubs c).attached = true → (st'.pubs c).alive = true →
    Cmd.terminate ∈ (st'.pubs c).cmdq ∨ (st'.pubs c).terminated = true := by
  intro ht c hc ha hal
  obtain ⟨a, b, c', d⟩ := hp c
  rw [a] at ha; rw [b] at hal; rw [c', d]; rw [hr] at ht
  exact h.term ht c hc ha hal

theorem invT_step {st st' : St} {x : Step} (hs : step st x = some st') (h : InvT st) : InvT st' := by
  constructor
  cases x with
  | rootProc =>
    simp only [step] at hs
    split at hs
    · cases hs
    · rename_i hg
      split at hs
      · cases hs
      · rename_i x q hq
        cases hs
        have hnt : st.rootTerminated = false := by
          cases e : st.rootTerminated <;> simp_all
        cases x with
        | terminate =>
          intro _ c _ ha hal
          simp only [rootHandle, notify_attached, notify_alive] at ha hal ⊢
          left; rw [notify_cmdq]; simp [ha, hal]
        | subscribe s b => simp only [rootHandle]; split <;> simp [hnt]
        | unsubscribe s => simp [rootHandle, hnt]
        | suspension s b => cases b <;> (simp only [rootHandle]; split <;> simp [hnt])
        | attach c => simp [rootHandle, hnt]
        | detach c => simp [rootHandle, hnt]
        | followSub s => simp [rootHandle, hnt]
        | followUnsub s => simp [rootHandle, hnt]
  | rootRespond =>
    simp only [step] at hs
    split at hs
    · cases hs
    · split at hs
      · cases hs; split <;> exact h.term
      · cases hs
        intro ht c hc ha hal
        simp only [notify_attached, notify_alive, notify_terminated] at ha hal ⊢
        rcases h.term ht c hc ha hal with g | g
        · left; rw [notify_cmdq]; split
          · exact List.mem_append_left _ g
          · exact g
        · exact Or.inr g
  | cloneProc c =>
    simp only [step] at hs
    split at hs
    · split at hs
      · cases hs
      · rename_i hg x q hq
        cases hs
        have key : ∀ c', c' ≠ 0 → ((upd st.pubs c { st.pubs c with cmdq := q }) c').attached = true →
            ((upd st.pubs c { st.pubs c with cmdq := q }) c').alive = true → st.rootTerminated = true → x ≠ .terminate →
            Cmd.terminate ∈ ((upd st.pubs c { st.pubs c with cmdq := q }) c').cmdq ∨
            ((upd st.pubs c { st.pubs c with cmdq := q }) c').terminated = true := by
          intro c' hc' ha hal ht hx
          simp only [upd_apply] at ha hal ⊢
          split
          · rename_i e; subst e
            simp only [if_true] at ha hal
            rcases h.term ht c' hc' ha hal with g | g
            · rw [hq] at g
              simp only [List.mem_cons] at g
              rcases g with g | g
              · exact absurd g.symm hx
              · exact Or.inl g
            · exact Or.inr g
          · rename_i e
            simp only [e, if_false] at ha hal
            exact h.term ht c' hc' ha hal
        cases x with
        | terminate =>
          intro ht c' hc' ha hal
          simp only [cloneHandle, upd_apply] at ha hal ⊢
          split
          · simp
          · rename_i e
            simp only [e, if_false] at ha hal
            exact h.term ht c' hc' ha hal
        | followSub s => intro ht c' hc' ha hal; exact key c' hc' ha hal ht (by simp)
        | followUnsub s => intro ht c' hc' ha hal; exact key c' hc' ha hal ht (by simp)
        | subscribe s b => intro ht c' hc' ha hal; exact key c' hc' ha hal ht (by simp)
        | unsubscribe s => intro ht c' hc' ha hal; exact key c' hc' ha hal ht (by simp)
        | suspension s b => intro ht c' hc' ha hal; exact key c' hc' ha hal ht (by simp)
        | attach s => intro ht c' hc' ha hal; exact key c' hc' ha hal ht (by simp)
        | detach s => intro ht c' hc' ha hal; exact key c' hc' ha hal ht (by simp)
    · cases hs
  | pubBegin p =>
    simp only [step] at hs
    split at hs
    · cases hs
      refine invT_same h rfl ?_
      intro c; simp only [upd_apply]; split <;> simp_all
    · cases hs
  | pubDeliver p s =>
    simp only [step] at hs
    split at hs
    · cases hs
    · split at hs
      · split at hs
        · split at hs
          · split at hs
            · cases hs
              refine invT_same h rfl ?_
              intro c; simp only [upd_apply]; split <;> simp_all
            · cases hs
          · cases hs
            refine invT_same h rfl ?_
            intro c; simp only [upd_apply]; split <;> simp_all
        · cases hs
          refine invT_same h rfl ?_
          intro c; simp only [upd_apply]; split <;> simp_all
      · cases hs
  | pubEnd p =>
    simp only [step] at hs
    split at hs
    · cases hs
      refine invT_same h rfl ?_
      intro c; simp only [upd_apply]; split <;> simp_all
    · cases hs
  | linkSubscribe s k b =>
    simp only [step] at hs
    split at hs
    · cases hs; simpa using h.term
    · cases hs
  | linkCancel s =>
    simp only [step] at hs
    split at hs
    · cases hs; exact h.term
    · cases hs
  | linkSuspend s b =>
    simp only [step] at hs
    split at hs
    · cases hs; simpa using h.term
    · cases hs
  | linkDisconnect s =>
    simp only [step] at hs
    split at hs
    · cases hs; simpa using h.term
    · cases hs
  | linkClose s =>
    simp only [step] at hs
    split at hs
    · cases hs; exact h.term
    · cases hs
  | linkRecv s =>
    simp only [step] at hs
    split at hs
    · cases hs; exact h.term
    · cases hs
  | linkGone s =>
    simp only [step] at hs
    split at hs
    · cases hs; exact h.term
    · cases hs
  | agentTerminate =>
    simp only [step] at hs
    cases hs; simpa using h.term
  | rootDrop =>
    simp only [step] at hs
    split at hs
    · cases hs
      intro ht c hc ha hal
      simp only [upd_apply, hc, if_false] at ha hal ⊢
      exact h.term ht c hc ha hal
    · cases hs
  | cloneNew c =>
    simp only [step] at hs
    split at hs
    · cases hs
      intro ht c' hc ha hal
      simp only [send_rootTerminated, upd_apply] at ht ha hal ⊢
      split
      · rename_i e; simp [e] at ha
      · rename_i e; simp only [e, if_false] at ha hal; exact h.term ht c' hc ha hal
    · cases hs
  | cloneClosed c =>
    simp only [step] at hs
    split at hs
    · cases hs
      intro ht c' hc ha hal
      simp only [upd_apply] at ha hal ⊢
      split
      · simp
      · rename_i e; simp only [e, if_false] at ha hal; exact h.term ht c' hc ha hal
    · cases hs
  | cloneDrop c =>
    simp only [step] at hs
    split at hs
    · cases hs
      intro ht c' hc ha hal
      simp only [send_rootTerminated, upd_apply] at ht ha hal ⊢
      split
      · rename_i e; simp [e] at hal
      · rename_i e; simp only [e, if_false] at ha hal; exact h.term ht c' hc ha hal
    · cases hs



theorem cloneHandle_pubs {st : St} {c : Pub} {x : Cmd} (hx : x ≠ .terminate) : (cloneHandle st c x).pubs = st.pubs := by
  cases x <;> simp_all [cloneHandle]

theorem cloneHandle_rootDropped (st : St) (c : Pub) (x : Cmd) : (cloneHandle st c x).rootDropped = st.rootDropped := by
  cases x <;> simp [cloneHandle]

/-- The state after a clone took `x` off its queue (leaving `q`) and handled it. -/
def afterPop (st : St) (c : Pub) (x : Cmd) (q : List Cmd) : St :=
  cloneHandle { st with pubs := upd st.pubs c { st.pubs c with cmdq := q } } c x

theorem cloneProc_enabled {st : St} {c : Pub} {x : Cmd} {q : List Cmd} (hc : c ≠ 0)
    (hal : (st.pubs c).alive = true) (hnt : (st.pubs c).terminated = false) (hq : (st.pubs c).cmdq = x :: q) :
    step st (.cloneProc c) = some (afterPop st c x q) := by
  simp [step, hc, hal, hnt, hq, afterPop]

/-- A clone with `Terminate` in its command queue reaches `Err(Terminated)` by its own `process()`
    steps alone, after at most as many commands as are queued. -/
theorem clone_reaches_terminate {c : Pub} (hc : c ≠ 0) : ∀ (q : List Cmd) (st : St),
    (st.pubs c).cmdq = q → (st.pubs c).alive = true → (st.pubs c).terminated = false → Cmd.terminate ∈ q →
    ∃ n st', n ≤ q.length ∧ Gate.run st (List.replicate n (.cloneProc c)) = some st' ∧
      (st'.pubs c).terminated = true := by
  intro q
  induction q with
  | nil => intro st _ _ _ hm; simp at hm
  | cons x q ih =>
    intro st hq hal hnt hm
    have hstep := cloneProc_enabled hc hal hnt hq
    by_cases hx : x = .terminate
    · subst hx
      refine ⟨1, afterPop st c .terminate q, by simp, ?_, ?_⟩
      · simp only [List.replicate, Gate.run, hstep]
      · simp [afterPop, cloneHandle]
    · have hm' : Cmd.terminate ∈ q := by
        simp only [List.mem_cons] at hm
        rcases hm with hm | hm
        · exact absurd hm.symm hx
        · exact hm
      obtain ⟨n, st', hn, hrun, ht⟩ := ih (afterPop st c x q)
        (by simp only [afterPop]; rw [cloneHandle_pubs hx]; simp) (by simp only [afterPop]; rw [cloneHandle_pubs hx]; simp [hal]) (by simp only [afterPop]; rw [cloneHandle_pubs hx]; simp [hnt]) hm'
      refine ⟨n + 1, st', by simp; omega, ?_, ht⟩
      simp only [List.replicate, Gate.run, hstep]
      exact hrun

/-- After the root gate has been dropped every clone reaches `Err(Terminated)` by its own
    `process()` steps alone: it works off its queue and then finds its command channel closed. -/
theorem clone_reaches_closed {c : Pub} (hc : c ≠ 0) : ∀ (q : List Cmd) (st : St),
    (st.pubs c).cmdq = q → (st.pubs c).alive = true → (st.pubs c).terminated = false → st.rootDropped = true →
    ∃ tr st', tr.length ≤ q.length + 1 ∧ (∀ x ∈ tr, x = .cloneProc c ∨ x = .cloneClosed c) ∧
      Gate.run st tr = some st' ∧ (st'.pubs c).terminated = true := by
  intro q
  induction q with
  | nil =>
    intro st hq hal hnt hd
    refine ⟨[.cloneClosed c], { st with pubs := upd st.pubs c { st.pubs c with terminated := true } }, by simp, by simp, ?_, by simp⟩
    simp [Gate.run, step, hc, hal, hnt, hq, hd]
  | cons x q ih =>
    intro st hq hal hnt hd
    have hstep := cloneProc_enabled hc hal hnt hq
    by_cases hx : x = .terminate
    · subst hx
      refine ⟨[.cloneProc c], afterPop st c .terminate q, by simp, by simp, ?_, ?_⟩
      · simp only [Gate.run, hstep]
      · simp [afterPop, cloneHandle]
    · obtain ⟨tr, st', hn, hall, hrun, ht⟩ := ih (afterPop st c x q)
        (by simp only [afterPop]; rw [cloneHandle_pubs hx]; simp) (by simp only [afterPop]; rw [cloneHandle_pubs hx]; simp [hal]) (by simp only [afterPop]; rw [cloneHandle_pubs hx]; simp [hnt])
        (by simp only [afterPop]; rw [cloneHandle_rootDropped]; exact hd)
      refine ⟨.cloneProc c :: tr, st', by simp; omega, ?_, ?_, ht⟩
      · intro y hy
        simp only [List.mem_cons] at hy
        rcases hy with hy | hy
        · exact Or.inl hy
        · exact hall y hy
      · simp only [Gate.run, hstep]; exact hrun



theorem invT_run {st st' : St} {tr : List Step} (hs : Gate.run st tr = some st') (h : InvT st) : InvT st' := by
  induction tr generalizing st with
  | nil => simp only [Gate.run] at hs; cases hs; exact h
  | cons x xs ih =>
    simp only [Gate.run] at hs
    split at hs
    · rename_i st1 h1; exact ih hs (invT_step h1 h)
    · cases hs


theorem mem_send_rootq {st : St} {x y : Cmd} (h : y ∈ (st.send x).rootq) : y ∈ st.rootq ∨ y = x := by
  unfold St.send at h
  split at h
  · exact Or.inl h
  · simp only [List.mem_append, List.mem_singleton] at h; exact h

/-- Link-side bookkeeping: the gate only ever unsubscribes / suspends a slot because its link asked. -/
structure InvW (st : St) : Prop where
  unsub_disc : ∀ s, (st.chans s).unsubbed = true → (st.chans s).disc = true
  q_unsub : ∀ s, Cmd.unsubscribe s ∈ st.rootq → (st.chans s).disc = true
  susp_sent : ∀ s, (st.chans s).susp = true → (st.chans s).suspSent = true
  q_susp : ∀ s, Cmd.suspension s true ∈ st.rootq → (st.chans s).suspSent = true
  q_sub : ∀ s, Cmd.subscribe s true ∈ st.rootq → (st.chans s).suspSent = true

theorem invW_init (cap : Nat) : InvW (init cap) := by
  refine ⟨?_, ?_, ?_, ?_, ?_⟩ <;> intro s h <;> simp [init] at h

structure FrameW (st st' : St) : Prop where
  disc : ∀ s, (st.chans s).disc = true → (st'.chans s).disc = true
  sent : ∀ s, (st.chans s).suspSent = true → (st'.chans s).suspSent = true
  unsubbed : ∀ s, (st'.chans s).unsubbed = (st.chans s).unsubbed
  susp : ∀ s, (st'.chans s).susp = (st.chans s).susp
  rootq : ∀ x, x ∈ st'.rootq → x ∈ st.rootq ∨
    ((∀ s, x ≠ .unsubscribe s) ∧ (∀ s, x ≠ .suspension s true) ∧ (∀ s, x ≠ .subscribe s true))

theorem InvW.frame {st st' : St} (f : FrameW st st') (h : InvW st) : InvW st' := by
  refine ⟨?_, ?_, ?_, ?_, ?_⟩
  · intro s hu; rw [f.unsubbed] at hu; exact f.disc s (h.unsub_disc s hu)
  · intro s hm
    rcases f.rootq _ hm with g | ⟨g, _, _⟩
    · exact f.disc s (h.q_unsub s g)
    · exact absurd rfl (g s)
  · intro s hu; rw [f.susp] at hu; exact f.sent s (h.susp_sent s hu)
  · intro s hm
    rcases f.rootq _ hm with g | ⟨_, g, _⟩
    · exact f.sent s (h.q_susp s g)
    · exact absurd rfl (g s)
  · intro s hm
    rcases f.rootq _ hm with g | ⟨_, _, g⟩
    · exact f.sent s (h.q_sub s g)
    · exact absurd rfl (g s)

macro "frameW_tac" : tactic => `(tactic|
  (refine ⟨?_, ?_, ?_, ?_, ?_⟩ <;> intros <;>
    simp only [send_chans, upd_apply] at * <;> (try split) <;> simp_all))

theorem frameW_send_other {st : St} {x : Cmd} (h1 : ∀ s, x ≠ .unsubscribe s) (h2 : ∀ s, x ≠ .suspension s true)
    (h3 : ∀ s, x ≠ .subscribe s true) : ∀ y, y ∈ (st.send x).rootq → y ∈ st.rootq ∨
    ((∀ s, y ≠ .unsubscribe s) ∧ (∀ s, y ≠ .suspension s true) ∧ (∀ s, y ≠ .subscribe s true)) := by
  intro y hy
  rcases mem_send_rootq hy with g | g
  · exact Or.inl g
  · subst g; exact Or.inr ⟨h1, h2, h3⟩


theorem invW_rootHandle {st : St} (x : Cmd) (q : List Cmd) (hq : st.rootq = x :: q) (h : InvW st) :
    InvW (rootHandle { st with rootq := q } x) := by
  have hsub : ∀ y, y ∈ q → y ∈ st.rootq := fun y hy => by rw [hq]; exact List.mem_cons_of_mem _ hy
  have hx : x ∈ st.rootq := by rw [hq]; exact List.mem_cons_self
  cases x with
  | subscribe s b =>
    simp only [rootHandle]
    split
    · rename_i hb; subst hb
      have hs := h.q_sub s hx
      refine ⟨?_, ?_, ?_, ?_, ?_⟩
      · intro s' hu; simp only [upd_apply] at hu ⊢; split <;> simp_all [h.unsub_disc]
      · intro s' hm; simp only [upd_apply]; have := h.q_unsub s' (hsub _ hm); split <;> simp_all
      · intro s' hu; simp only [upd_apply] at hu ⊢
        split
        · simp_all
        · rename_i e; simp only [e, if_false] at hu; exact h.susp_sent s' hu
      · intro s' hm; simp only [upd_apply]; have := h.q_susp s' (hsub _ hm); split <;> simp_all
      · intro s' hm; simp only [upd_apply]; have := h.q_sub s' (hsub _ hm); split <;> simp_all
    · exact ⟨h.unsub_disc, fun s' hm => h.q_unsub s' (hsub _ hm), h.susp_sent,
        fun s' hm => h.q_susp s' (hsub _ hm), fun s' hm => h.q_sub s' (hsub _ hm)⟩
  | unsubscribe s =>
    simp only [rootHandle]
    have hs := h.q_unsub s hx
    refine ⟨?_, ?_, ?_, ?_, ?_⟩
    · intro s' hu; simp only [upd_apply] at hu ⊢
      split
      · simp_all
      · rename_i e; simp only [e, if_false] at hu; exact h.unsub_disc s' hu
    · intro s' hm; simp only [upd_apply]; have := h.q_unsub s' (hsub _ hm); split <;> simp_all
    · intro s' hu; simp only [upd_apply] at hu ⊢
      split
      · rename_i e; subst e; simp only [if_true] at hu; exact h.susp_sent _ hu
      · rename_i e; simp only [e, if_false] at hu; exact h.susp_sent s' hu
    · intro s' hm; simp only [upd_apply]; have := h.q_susp s' (hsub _ hm); split <;> simp_all
    · intro s' hm; simp only [upd_apply]; have := h.q_sub s' (hsub _ hm); split <;> simp_all
  | suspension s b =>
    cases b
    · -- unsuspend
      simp only [rootHandle]
      split
      · refine ⟨?_, ?_, ?_, ?_, ?_⟩
        · intro s' hu; simp only [upd_apply] at hu ⊢
          split
          · rename_i e; subst e; simp only [if_true] at hu; exact h.unsub_disc _ hu
          · rename_i e; simp only [e, if_false] at hu; exact h.unsub_disc s' hu
        · intro s' hm; simp only [upd_apply]; have := h.q_unsub s' (hsub _ hm); split <;> simp_all
        · intro s' hu; simp only [upd_apply] at hu ⊢
          split
          · rename_i e; simp [e] at hu
          · rename_i e; simp only [e, if_false] at hu; exact h.susp_sent s' hu
        · intro s' hm; simp only [upd_apply]; have := h.q_susp s' (hsub _ hm); split <;> simp_all
        · intro s' hm; simp only [upd_apply]; have := h.q_sub s' (hsub _ hm); split <;> simp_all
      · exact ⟨h.unsub_disc, fun s' hm => h.q_unsub s' (hsub _ hm), h.susp_sent,
          fun s' hm => h.q_susp s' (hsub _ hm), fun s' hm => h.q_sub s' (hsub _ hm)⟩
    · -- suspend
      have hs := h.q_susp s hx
      simp only [rootHandle]
      split <;>
      · refine ⟨?_, ?_, ?_, ?_, ?_⟩
        · intro s' hu; simp only [upd_apply] at hu ⊢
          split
          · rename_i e; subst e; simp only [if_true] at hu; exact h.unsub_disc _ hu
          · rename_i e; simp only [e, if_false] at hu; exact h.unsub_disc s' hu
        · intro s' hm; simp only [upd_apply]; have := h.q_unsub s' (hsub _ hm); split <;> simp_all
        · intro s' hu; simp only [upd_apply] at hu ⊢
          split
          · simp_all
          · rename_i e; simp only [e, if_false] at hu; exact h.susp_sent s' hu
        · intro s' hm; simp only [upd_apply]; have := h.q_susp s' (hsub _ hm); split <;> simp_all
        · intro s' hm; simp only [upd_apply]; have := h.q_sub s' (hsub _ hm); split <;> simp_all
  | attach c =>
    exact ⟨h.unsub_disc, fun s' hm => h.q_unsub s' (hsub _ hm), h.susp_sent,
      fun s' hm => h.q_susp s' (hsub _ hm), fun s' hm => h.q_sub s' (hsub _ hm)⟩
  | detach c =>
    exact ⟨h.unsub_disc, fun s' hm => h.q_unsub s' (hsub _ hm), h.susp_sent,
      fun s' hm => h.q_susp s' (hsub _ hm), fun s' hm => h.q_sub s' (hsub _ hm)⟩
  | terminate =>
    exact ⟨h.unsub_disc, fun s' hm => h.q_unsub s' (hsub _ hm), h.susp_sent,
      fun s' hm => h.q_susp s' (hsub _ hm), fun s' hm => h.q_sub s' (hsub _ hm)⟩
  | followSub s =>
    exact ⟨h.unsub_disc, fun s' hm => h.q_unsub s' (hsub _ hm), h.susp_sent,
      fun s' hm => h.q_susp s' (hsub _ hm), fun s' hm => h.q_sub s' (hsub _ hm)⟩
  | followUnsub s =>
    exact ⟨h.unsub_disc, fun s' hm => h.q_unsub s' (hsub _ hm), h.susp_sent,
      fun s' hm => h.q_susp s' (hsub _ hm), fun s' hm => h.q_sub s' (hsub _ hm)⟩

theorem frameW_cloneHandle (st : St) (c : Pub) (x : Cmd) : FrameW st (cloneHandle st c x) := by
  cases x <;> simp only [cloneHandle] <;>
    exact ⟨fun _ h => h, fun _ h => h, fun _ => rfl, fun _ => rfl, fun _ h => Or.inl h⟩

theorem FrameW.trans {a b c : St} (h1 : FrameW a b) (h2 : FrameW b c) : FrameW a c := by
  refine ⟨fun s h => h2.disc s (h1.disc s h), fun s h => h2.sent s (h1.sent s h),
    fun s => (h2.unsubbed s).trans (h1.unsubbed s), fun s => (h2.susp s).trans (h1.susp s), ?_⟩
  intro x hx
  rcases h2.rootq x hx with g | g
  · exact h1.rootq x g
  · exact Or.inr g

theorem invW_step {st st' : St} {x : Step} (hs : step st x = some st') (h : InvW st) : InvW st' := by
  cases x with
  | pubBegin p =>
    simp only [step] at hs
    split at hs
    · cases hs; exact ⟨h.unsub_disc, h.q_unsub, h.susp_sent, h.q_susp, h.q_sub⟩
    · cases hs
  | pubDeliver p s =>
    simp only [step] at hs
    split at hs
    · cases hs
    · split at hs
      · split at hs
        · split at hs
          · split at hs
            · cases hs; apply h.frame; frameW_tac
            · cases hs
          · cases hs; apply h.frame; frameW_tac
        · cases hs; exact ⟨h.unsub_disc, h.q_unsub, h.susp_sent, h.q_susp, h.q_sub⟩
      · cases hs
  | pubEnd p =>
    simp only [step] at hs
    split at hs
    · cases hs; exact ⟨h.unsub_disc, h.q_unsub, h.susp_sent, h.q_susp, h.q_sub⟩
    · cases hs
  | linkSubscribe s k b =>
    simp only [step] at hs
    split at hs
    · cases hs
      refine ⟨?_, ?_, ?_, ?_, ?_⟩
      · intro s' hu; simp only [upd_apply] at hu ⊢; split <;> simp_all [h.unsub_disc]
      · intro s' hm
        rcases mem_send_rootq hm with g | g
        · have := h.q_unsub s' g; simp only [upd_apply]; split <;> simp_all
        · cases g
      · intro s' hu; simp only [upd_apply] at hu ⊢
        split
        · rename_i e; subst e; simp only [if_true] at hu; simp [h.susp_sent _ hu]
        · rename_i e; simp only [e, if_false] at hu; exact h.susp_sent s' hu
      · intro s' hm
        rcases mem_send_rootq hm with g | g
        · have := h.q_susp s' g; simp only [upd_apply]; split <;> simp_all
        · cases g
      · intro s' hm
        rcases mem_send_rootq hm with g | g
        · have := h.q_sub s' g; simp only [upd_apply]; split <;> simp_all
        · simp only [Cmd.subscribe.injEq] at g
          obtain ⟨rfl, rfl⟩ := g
          simp
    · cases hs
  | linkCancel s =>
    simp only [step] at hs
    split at hs
    · cases hs; apply h.frame; frameW_tac
    · cases hs
  | linkSuspend s b =>
    simp only [step] at hs
    split at hs
    · cases hs
      refine ⟨?_, ?_, ?_, ?_, ?_⟩
      · intro s' hu; simp only [upd_apply] at hu ⊢; split <;> simp_all [h.unsub_disc]
      · intro s' hm
        rcases mem_send_rootq hm with g | g
        · have := h.q_unsub s' g; simp only [upd_apply]; split <;> simp_all
        · cases g
      · intro s' hu; simp only [upd_apply] at hu ⊢
        split
        · rename_i e; subst e; simp only [if_true] at hu; simp [h.susp_sent _ hu]
        · rename_i e; simp only [e, if_false] at hu; exact h.susp_sent s' hu
      · intro s' hm
        rcases mem_send_rootq hm with g | g
        · have := h.q_susp s' g; simp only [upd_apply]; split <;> simp_all
        · simp only [Cmd.suspension.injEq] at g
          obtain ⟨rfl, rfl⟩ := g
          simp
      · intro s' hm
        rcases mem_send_rootq hm with g | g
        · have := h.q_sub s' g; simp only [upd_apply]; split <;> simp_all
        · cases g
    · cases hs
  | linkDisconnect s =>
    simp only [step] at hs
    split at hs
    · cases hs
      refine ⟨?_, ?_, ?_, ?_, ?_⟩
      · intro s' hu; simp only [upd_apply] at hu ⊢; split <;> simp_all [h.unsub_disc]
      · intro s' hm
        rcases mem_send_rootq hm with g | g
        · have := h.q_unsub s' g; simp only [upd_apply]; split <;> simp_all
        · simp only [Cmd.unsubscribe.injEq] at g; subst g; simp
      · intro s' hu; simp only [upd_apply] at hu ⊢
        split
        · rename_i e; subst e; simp only [if_true] at hu; exact h.susp_sent _ hu
        · rename_i e; simp only [e, if_false] at hu; exact h.susp_sent s' hu
      · intro s' hm
        rcases mem_send_rootq hm with g | g
        · have := h.q_susp s' g; simp only [upd_apply]; split <;> simp_all
        · cases g
      · intro s' hm
        rcases mem_send_rootq hm with g | g
        · have := h.q_sub s' g; simp only [upd_apply]; split <;> simp_all
        · cases g
    · cases hs
  | linkClose s =>
    simp only [step] at hs
    split at hs
    · cases hs; apply h.frame; frameW_tac
    · cases hs
  | linkRecv s =>
    simp only [step] at hs
    split at hs
    · cases hs; apply h.frame; frameW_tac
    · cases hs
  | linkGone s =>
    simp only [step] at hs
    split at hs
    · cases hs; apply h.frame; frameW_tac
    · cases hs
  | agentTerminate =>
    simp only [step] at hs
    cases hs
    apply h.frame
    exact ⟨fun _ g => by simpa using g, fun _ g => by simpa using g, fun _ => by simp, fun _ => by simp,
      frameW_send_other (by intros; simp) (by intros; simp) (by intros; simp)⟩
  | rootProc =>
    simp only [step] at hs
    split at hs
    · cases hs
    · split at hs
      · cases hs
      · rename_i x q hq
        cases hs
        exact invW_rootHandle x q hq h
  | rootRespond =>
    simp only [step] at hs
    split at hs
    · cases hs
    · split at hs
      · cases hs
        split <;> exact ⟨h.unsub_disc, h.q_unsub, h.susp_sent, h.q_susp, h.q_sub⟩
      · cases hs; apply h.frame; frameW_tac
  | rootDrop =>
    simp only [step] at hs
    split at hs
    · cases hs
      exact ⟨h.unsub_disc, by intro s hm; simp at hm, h.susp_sent, by intro s hm; simp at hm, by intro s hm; simp at hm⟩
    · cases hs
  | cloneNew c =>
    simp only [step] at hs
    split at hs
    · cases hs
      apply h.frame
      exact ⟨fun _ g => by simpa using g, fun _ g => by simpa using g, fun _ => by simp, fun _ => by simp,
        frameW_send_other (by intros; simp) (by intros; simp) (by intros; simp)⟩
    · cases hs
  | cloneProc c =>
    simp only [step] at hs
    split at hs
    · split at hs
      · cases hs
      · cases hs
        apply h.frame
        refine FrameW.trans ?_ (frameW_cloneHandle _ _ _)
        exact ⟨fun _ g => g, fun _ g => g, fun _ => rfl, fun _ => rfl, fun _ g => Or.inl g⟩
    · cases hs
  | cloneClosed c =>
    simp only [step] at hs
    split at hs
    · cases hs; exact ⟨h.unsub_disc, h.q_unsub, h.susp_sent, h.q_susp, h.q_sub⟩
    · cases hs
  | cloneDrop c =>
    simp only [step] at hs
    split at hs
    · cases hs
      apply h.frame
      exact ⟨fun _ g => by simpa using g, fun _ g => by simpa using g, fun _ => by simp, fun _ => by simp,
        frameW_send_other (by intros; simp) (by intros; simp) (by intros; simp)⟩
    · cases hs

theorem invW_run {st st' : St} {tr : List Step} (hs : Gate.run st tr = some st') (h : InvW st) : InvW st' := by
  induction tr generalizing st with
  | nil => simp only [Gate.run] at hs; cases hs; exact h
  | cons x xs ih =>
    simp only [Gate.run] at hs
    split at hs
    · rename_i st1 h1; exact ih hs (invW_step h1 h)
    · cases hs


end Rotonda.Gate
