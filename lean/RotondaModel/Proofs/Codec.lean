import RotondaModel.Model.Codec
/-! Helper lemmas for C04: well-formedness predicates and round-trip lemmas of the
reference codec.  Core Lean only. -/
namespace Rotonda.Codec

/-! ### Well-formedness (what an RFC 4271 / 4760 sender may put on the wire) -/

/-- A prefix as RFC 4271 4.3 allows it: length within the family's width, exactly
    the address bytes needed; the trailing pad bits are *arbitrary*. -/
def Pfx.wfRfc (maxBytes : Nat) (p : Pfx) : Prop :=
  nbytes p.len ≤ maxBytes ∧ p.addr.length = nbytes p.len

/-- Trailing pad bits are zero (what every router sends in practice). -/
def Pfx.clean (p : Pfx) : Prop := lastPadZero (padBits p.len) p.addr = true

instance (mb : Nat) (p : Pfx) : Decidable (p.wfRfc mb) := by unfold Pfx.wfRfc; exact inferInstance
instance (p : Pfx) : Decidable p.clean := by unfold Pfx.clean; exact inferInstance

/-- The attribute's length fits the length field its own flags select. -/
def Attr.wf (a : Attr) : Prop :=
  if extBit a.flags then a.value.length < 65536 else a.value.length < 256

instance (a : Attr) : Decidable a.wf := by unfold Attr.wf; exact inferInstance

theorem u16_val (n : Nat) : n / 256 * 256 + n % 256 = n := by omega

theorem nbytes_le_4 (l : Nat) : nbytes l ≤ 4 ↔ l ≤ 32 := by unfold nbytes; omega
theorem nbytes_le_16 (l : Nat) : nbytes l ≤ 16 ↔ l ≤ 128 := by unfold nbytes; omega

/-! ### Prefixes -/

theorem maskLast_of_padZero (k : Nat) : ∀ a : Bytes, lastPadZero k a = true → maskLast k a = a
  | [], _ => rfl
  | [b], h => by
    simp only [lastPadZero, beq_iff_eq] at h
    simp [maskLast, h]
  | b :: c :: bs, h => by
    simp only [lastPadZero] at h
    simp only [maskLast]
    rw [maskLast_of_padZero k (c :: bs) h]

theorem maskLast_length (k : Nat) : ∀ a : Bytes, (maskLast k a).length = a.length
  | [] => rfl
  | [b] => rfl
  | b :: c :: bs => by simp only [maskLast, List.length_cons, maskLast_length k (c :: bs)]

theorem canon_of_clean (p : Pfx) (h : p.clean) : p.canon = p := by
  unfold Pfx.canon
  rw [maskLast_of_padZero _ _ h]

/-- Decoding one encoded prefix: the canonical prefix and the untouched rest, unless the
    pad bits are dirty and the variant is the code as written. -/
theorem decPfx_enc (v : Variant) (mb : Nat) (p : Pfx) (rest : Bytes) (h : p.wfRfc mb) :
    decPfx v mb (encPfx p ++ rest) =
      if lastPadZero (padBits p.len) p.addr || v.maskPad then some (p.canon, rest) else none := by
  obtain ⟨h1, h2⟩ := h
  have hlen : ¬ (p.addr ++ rest).length < nbytes p.len := by
    rw [List.length_append]; omega
  have ht : (p.addr ++ rest).take (nbytes p.len) = p.addr := List.take_left' h2
  have hd : (p.addr ++ rest).drop (nbytes p.len) = rest := List.drop_left' h2
  simp only [encPfx, List.cons_append, decPfx]
  rw [if_neg (by omega), if_neg hlen, ht, hd]
  by_cases hz : lastPadZero (padBits p.len) p.addr = true
  · simp only [hz, if_true, Bool.true_or]
    have : p.canon = p := canon_of_clean p hz
    rw [this]
  · simp only [hz, Bool.false_or, Pfx.canon]
    cases hm : v.maskPad <;> simp

theorem encPfx_length_pos (p : Pfx) (rest : Bytes) : 0 < (encPfx p ++ rest).length := by
  simp [encPfx]

/-- A list of encoded prefixes decodes to the list of canonical prefixes. -/
theorem decPfxsF_enc (v : Variant) (mb : Nat) :
    ∀ (ps : List Pfx) (fuel : Nat),
      (∀ p ∈ ps, p.wfRfc mb) → (v.maskPad = true ∨ ∀ p ∈ ps, p.clean) →
      (encPfxs ps).length ≤ fuel →
      decPfxsF v mb fuel (encPfxs ps) = some (ps.map Pfx.canon)
  | [], fuel, _, _, _ => by cases fuel <;> rfl
  | p :: ps, fuel, hwf, hc, hf => by
    have hp := hwf p (List.mem_cons_self)
    have hwf' : ∀ q ∈ ps, q.wfRfc mb := fun q hq => hwf q (List.mem_cons_of_mem _ hq)
    have hc' : v.maskPad = true ∨ ∀ q ∈ ps, q.clean :=
      hc.imp id (fun h q hq => h q (List.mem_cons_of_mem _ hq))
    have hgood : (lastPadZero (padBits p.len) p.addr || v.maskPad) = true := by
      cases hc with
      | inl h => simp [h]
      | inr h => have := h p (List.mem_cons_self); unfold Pfx.clean at this; simp [this]
    have henc : encPfxs (p :: ps) = p.len :: (p.addr ++ encPfxs ps) := by
      simp [encPfxs, encPfx]
    rw [henc] at hf ⊢
    cases fuel with
    | zero => simp at hf
    | succ f =>
      have hf' : (encPfxs ps).length ≤ f := by
        simp only [List.length_cons, List.length_append] at hf; omega
      have hdec := decPfx_enc v mb p (encPfxs ps) hp
      simp only [encPfx, List.cons_append, hgood, if_true] at hdec
      simp only [decPfxsF, hdec, decPfxsF_enc v mb ps f hwf' hc' hf', List.map_cons]

theorem decPfxs_enc (v : Variant) (mb : Nat) (ps : List Pfx)
    (hwf : ∀ p ∈ ps, p.wfRfc mb) (hc : v.maskPad = true ∨ ∀ p ∈ ps, p.clean) :
    decPfxs v mb (encPfxs ps) = some (ps.map Pfx.canon) :=
  decPfxsF_enc v mb ps _ hwf hc (Nat.le_refl _)

theorem map_canon_of_clean : ∀ (ps : List Pfx), (∀ p ∈ ps, p.clean) → ps.map Pfx.canon = ps
  | [], _ => rfl
  | p :: ps, h => by
    rw [List.map_cons, canon_of_clean p (h p List.mem_cons_self),
      map_canon_of_clean ps (fun q hq => h q (List.mem_cons_of_mem _ hq))]

/-! ### Attributes -/

theorem decAttr_enc (a : Attr) (rest : Bytes) (_h : a.wf) :
    decAttr (encAttr a ++ rest) = some (a, rest) := by
  have hlen : ¬ (a.value ++ rest).length < a.value.length := by
    rw [List.length_append]; omega
  by_cases he : extBit a.flags = true
  · have henc : encAttr a ++ rest =
        a.flags :: a.code :: (a.value.length / 256) :: (a.value.length % 256) :: (a.value ++ rest) := by
      simp [encAttr, he, u16]
    rw [henc]
    simp [decAttr, he, u16_val]
  · have henc : encAttr a ++ rest = a.flags :: a.code :: a.value.length :: (a.value ++ rest) := by
      simp [encAttr, he]
    rw [henc]
    simp [decAttr, he]

theorem decAttrsF_enc :
    ∀ (as : List Attr) (fuel : Nat), (∀ a ∈ as, a.wf) → (encAttrs as).length ≤ fuel →
      decAttrsF fuel (encAttrs as) = some as
  | [], fuel, _, _ => by cases fuel <;> rfl
  | a :: as, fuel, hwf, hf => by
    have ha := hwf a List.mem_cons_self
    have hwf' : ∀ b ∈ as, b.wf := fun b hb => hwf b (List.mem_cons_of_mem _ hb)
    have hdec := decAttr_enc a (encAttrs as) ha
    have hcons : ∃ x xs, encAttr a ++ encAttrs as = x :: xs := by
      unfold encAttr; split <;> exact ⟨_, _, rfl⟩
    obtain ⟨x, xs, hx⟩ := hcons
    have hlen : (encAttrs as).length < (encAttr a ++ encAttrs as).length := by
      rw [List.length_append]; unfold encAttr; split <;> simp
    simp only [encAttrs] at hf ⊢
    cases fuel with
    | zero => rw [hx] at hf; simp at hf
    | succ f =>
      have hf' : (encAttrs as).length ≤ f := by omega
      rw [hx] at hdec ⊢
      simp only [decAttrsF, hdec, decAttrsF_enc as f hwf' hf']

theorem decAttrs_enc (as : List Attr) (hwf : ∀ a ∈ as, a.wf) :
    decAttrs (encAttrs as) = some as :=
  decAttrsF_enc as _ hwf (Nat.le_refl _)

/-! ### Whole PDU -/

/-- An UPDATE a conforming RFC 4271 / 4760 speaker may send (no ADD-PATH): every
    conventional prefix is an IPv4 prefix (pad bits arbitrary), every attribute's
    length fits its length field, MP attributes hold at least AFI + SAFI, and the
    section lengths and the total fit their 16-bit fields. -/
structure Upd.wfRfc (u : Upd) : Prop where
  wd : ∀ p ∈ u.withdrawn, p.wfRfc 4
  nl : ∀ p ∈ u.nlri, p.wfRfc 4
  attr : ∀ a ∈ u.attrs, a.wf
  mp : ∀ a ∈ u.attrs, isMp a = true → 3 ≤ a.value.length
  wlen : (encPfxs u.withdrawn).length < 65536
  alen : (encAttrs u.attrs).length < 65536
  total : 19 + (encBody u).length < 65536

/-- No conventional prefix has dirty pad bits. -/
def Upd.clean (u : Upd) : Prop := (∀ p ∈ u.withdrawn, p.clean) ∧ (∀ p ∈ u.nlri, p.clean)

instance (u : Upd) : Decidable u.clean := by unfold Upd.clean; exact inferInstance

def Upd.canon (u : Upd) : Upd := ⟨u.withdrawn.map Pfx.canon, u.attrs, u.nlri.map Pfx.canon⟩

theorem Upd.canon_of_clean (u : Upd) (h : u.clean) : u.canon = u := by
  unfold Upd.canon
  rw [map_canon_of_clean _ h.1, map_canon_of_clean _ h.2]

theorem encBody_length (u : Upd) :
    (encBody u).length =
      2 + (encPfxs u.withdrawn).length + 2 + (encAttrs u.attrs).length + (encPfxs u.nlri).length := by
  simp [encBody, u16]; omega

theorem decodeBody_enc (v : Variant) (u : Upd) (extra : Bytes) (hwf : u.wfRfc)
    (hc : v.maskPad = true ∨ u.clean) :
    decodeBody v (19 + (encBody u).length) (encBody u ++ extra) = some u.canon := by
  have hb : encBody u ++ extra =
      ((encPfxs u.withdrawn).length / 256) :: ((encPfxs u.withdrawn).length % 256) ::
        (encPfxs u.withdrawn ++
          (((encAttrs u.attrs).length / 256) :: ((encAttrs u.attrs).length % 256) ::
            (encAttrs u.attrs ++ (encPfxs u.nlri ++ extra)))) := by
    simp [encBody, u16]
  have hw := decPfxs_enc v 4 u.withdrawn hwf.wd (hc.imp id (fun h => h.1))
  have hn := decPfxs_enc v 4 u.nlri hwf.nl (hc.imp id (fun h => h.2))
  have ha := decAttrs_enc u.attrs hwf.attr
  have hany : u.attrs.any (fun a => isMp a && decide (a.value.length < 3)) = false := by
    rw [List.any_eq_false]
    intro a hmem hh
    simp only [Bool.and_eq_true, decide_eq_true_eq] at hh
    have := hwf.mp a hmem hh.1
    omega
  rw [hb, encBody_length]
  simp only [decodeBody, u16_val]
  have h1 : ¬ (encPfxs u.withdrawn ++
          (((encAttrs u.attrs).length / 256) :: ((encAttrs u.attrs).length % 256) ::
            (encAttrs u.attrs ++ (encPfxs u.nlri ++ extra)))).length
        < (encPfxs u.withdrawn).length := by
    rw [List.length_append]; omega
  rw [if_neg h1, List.take_left, List.drop_left, hw]
  simp only [u16_val]
  have h2 : ¬ (encAttrs u.attrs ++ (encPfxs u.nlri ++ extra)).length < (encAttrs u.attrs).length := by
    rw [List.length_append]; omega
  rw [if_neg h2, List.take_left, List.drop_left, ha]
  simp only [hany]
  have e : 19 + (2 + (encPfxs u.withdrawn).length + 2 + (encAttrs u.attrs).length +
        (encPfxs u.nlri).length) - 19 -
      (2 + (encPfxs u.withdrawn).length + 2 + (encAttrs u.attrs).length) = (encPfxs u.nlri).length := by
    omega
  rw [e]
  have h3 : ¬ (2 + (encPfxs u.withdrawn).length + 2 + (encAttrs u.attrs).length >
      19 + (2 + (encPfxs u.withdrawn).length + 2 + (encAttrs u.attrs).length +
        (encPfxs u.nlri).length) - 19) := by omega
  have h4 : ¬ (encPfxs u.nlri ++ extra).length < (encPfxs u.nlri).length := by
    rw [List.length_append]; omega
  simp only [Bool.false_eq_true, if_false]
  rw [if_neg h3, if_neg h4, List.take_left, hn]
  rfl

/-- `decode` inverts `encode` on every RFC-well-formed UPDATE (up to clearing pad bits),
    whatever follows the PDU in the buffer; for the code as written only when the
    conventional prefixes have clean pad bits. -/
theorem decode_encode (v : Variant) (u : Upd) (extra : Bytes) (hwf : u.wfRfc)
    (hc : v.maskPad = true ∨ u.clean) :
    decode v (encode u ++ extra) = some u.canon := by
  have hb := decodeBody_enc v u extra hwf hc
  have ht : (encode u ++ extra).take 16 = marker := by
    unfold encode
    rw [List.append_assoc]
    exact List.take_left' (by simp [marker])
  have hd : (encode u ++ extra).drop 16 =
      ((19 + (encBody u).length) / 256) :: ((19 + (encBody u).length) % 256) :: 2 ::
        (encBody u ++ extra) := by
    unfold encode
    rw [List.append_assoc, List.drop_left' (by simp [marker])]
    simp [u16]
  unfold decode
  rw [ht, hd]
  simp only [ne_eq, not_true_eq_false, if_false, u16_val]
  rw [if_neg (by omega)]
  exact hb

/-! ### MP attributes and route events -/

theorem parseMpReach_enc (m : MpReach) : parseMpReach (encMpReach m) = some m := by
  have hlen : ¬ (m.nh ++ m.rsv :: m.nlri).length < m.nh.length := by
    rw [List.length_append]; omega
  simp [encMpReach, u16, parseMpReach, u16_val]

theorem parseMpUnreach_enc (m : MpUnreach) : parseMpUnreach (encMpUnreach m) = some m := by
  simp [encMpUnreach, u16, parseMpUnreach, u16_val]

/-- What the sender put into the UPDATE's MP_REACH_NLRI attribute, as a list of
    (family, prefix): no such attribute; one for a family rotonda does not support;
    one for a supported family carrying well-formed prefixes `ps`. -/
inductive ReachIs (attrs : List Attr) : List (Fam × Pfx) → Prop
  | absent : firstOf 14 attrs = none → ReachIs attrs []
  | unsupported (a : Attr) (m : MpReach) : firstOf 14 attrs = some a →
      a.value = encMpReach m → famOf m.afi m.safi = none → ReachIs attrs []
  | supported (a : Attr) (afi safi : Nat) (nh : Bytes) (rsv : Nat) (f : Fam) (ps : List Pfx) :
      firstOf 14 attrs = some a → a.value = encMpReach ⟨afi, safi, nh, rsv, encPfxs ps⟩ →
      famOf afi safi = some f → (∀ p ∈ ps, p.wfRfc f.maxBytes) →
      ReachIs attrs (ps.map (fun p => (f, p)))

/-- Same for MP_UNREACH_NLRI. -/
inductive UnreachIs (attrs : List Attr) : List (Fam × Pfx) → Prop
  | absent : firstOf 15 attrs = none → UnreachIs attrs []
  | unsupported (a : Attr) (m : MpUnreach) : firstOf 15 attrs = some a →
      a.value = encMpUnreach m → famOf m.afi m.safi = none → UnreachIs attrs []
  | supported (a : Attr) (afi safi : Nat) (f : Fam) (ps : List Pfx) :
      firstOf 15 attrs = some a → a.value = encMpUnreach ⟨afi, safi, encPfxs ps⟩ →
      famOf afi safi = some f → (∀ p ∈ ps, p.wfRfc f.maxBytes) →
      UnreachIs attrs (ps.map (fun p => (f, p)))

def allClean (r : List (Fam × Pfx)) : Prop := ∀ fp ∈ r, fp.2.clean

instance (r : List (Fam × Pfx)) : Decidable (allClean r) := by unfold allClean; exact inferInstance

theorem allClean_nil : allClean [] := by unfold allClean; intro _ h; cases h

theorem announcements_spec (v : Variant) (as4 : Bool) (u : Upd) (r : List (Fam × Pfx))
    (h : ReachIs u.attrs r) (hc : v.maskPad = true ∨ allClean r) :
    announcements v as4 u =
      some (r.map (fun fp => ann as4 u.attrs fp.1 fp.2.canon) ++ u.nlri.map (ann as4 u.attrs .v4u)) := by
  cases h with
  | absent h0 => simp [announcements, h0]
  | unsupported a m h0 hv hf => simp [announcements, h0, hv, parseMpReach_enc, hf]
  | supported a afi safi nh rsv f ps h0 hv hf hps =>
    have hc' : v.maskPad = true ∨ ∀ p ∈ ps, p.clean := by
      refine hc.imp id (fun hcl p hp => ?_)
      exact hcl (f, p) (List.mem_map.mpr ⟨p, hp, rfl⟩)
    have hd := decPfxs_enc v f.maxBytes ps hps hc'
    simp [announcements, h0, hv, parseMpReach_enc, hf, hd, List.map_map, Function.comp_def]

theorem withdrawals_spec (v : Variant) (as4 : Bool) (u : Upd) (w : List (Fam × Pfx))
    (h : UnreachIs u.attrs w) (hc : v.maskPad = true ∨ allClean w) :
    withdrawals v as4 u =
      some (w.map (fun fp => wdr as4 fp.1 fp.2.canon) ++ u.withdrawn.map (wdr as4 .v4u)) := by
  cases h with
  | absent h0 => simp [withdrawals, h0]
  | unsupported a m h0 hv hf => simp [withdrawals, h0, hv, parseMpUnreach_enc, hf]
  | supported a afi safi f ps h0 hv hf hps =>
    have hc' : v.maskPad = true ∨ ∀ p ∈ ps, p.clean := by
      refine hc.imp id (fun hcl p hp => ?_)
      exact hcl (f, p) (List.mem_map.mpr ⟨p, hp, rfl⟩)
    have hd := decPfxs_enc v f.maxBytes ps hps hc'
    simp [withdrawals, h0, hv, parseMpUnreach_enc, hf, hd, List.map_map, Function.comp_def]

/-- The route events the property demands for an UPDATE whose conventional fields are
    `u.withdrawn` / `u.nlri`, whose attributes are `u.attrs`, and whose MP attributes
    carry `r` (reachable) and `w` (unreachable): one announcement per reachable prefix
    with all of the UPDATE's attributes, one withdrawal per unreachable prefix, in wire
    order, MP before conventional, announcements before withdrawals. Prefixes are
    identified up to their (irrelevant) pad bits. -/
def specEvents (as4 : Bool) (u : Upd) (r w : List (Fam × Pfx)) : List Event :=
  (r.map (fun fp => ann as4 u.attrs fp.1 fp.2.canon) ++
      u.nlri.map (fun p => ann as4 u.attrs .v4u p.canon)) ++
    (w.map (fun fp => wdr as4 fp.1 fp.2.canon) ++
      u.withdrawn.map (fun p => wdr as4 .v4u p.canon))

theorem events_spec (v : Variant) (as4 : Bool) (u : Upd) (r w : List (Fam × Pfx))
    (hr : ReachIs u.attrs r) (hw : UnreachIs u.attrs w)
    (hc : v.maskPad = true ∨ (allClean r ∧ allClean w)) :
    events v as4 u.canon = some (specEvents as4 u r w) := by
  have ha := announcements_spec v as4 u.canon r hr (hc.imp id (fun h => h.1))
  have hw' := withdrawals_spec v as4 u.canon w hw (hc.imp id (fun h => h.2))
  unfold events
  rw [ha, hw']
  simp [specEvents, Upd.canon, List.map_map, Function.comp_def]

/-- Bytes in, events out, for every RFC-well-formed UPDATE. -/
theorem run_encode (v : Variant) (as4 : Bool) (u : Upd) (r w : List (Fam × Pfx)) (extra : Bytes)
    (hwf : u.wfRfc) (hr : ReachIs u.attrs r) (hw : UnreachIs u.attrs w)
    (hc : v.maskPad = true ∨ (u.clean ∧ allClean r ∧ allClean w)) :
    run v as4 (encode u ++ extra) = some (specEvents as4 u r w) := by
  unfold run
  rw [decode_encode v u extra hwf (hc.imp id (fun h => h.1))]
  exact events_spec v as4 u r w hr hw (hc.imp id (fun h => h.2))

/-! ### The ingress call sites (`explode_update`, RFC 4271 4.3) -/

/-- The announcements / the withdrawals of `specEvents`. -/
def specAnn (as4 : Bool) (u : Upd) (r : List (Fam × Pfx)) : List Event :=
  r.map (fun fp => ann as4 u.attrs fp.1 fp.2.canon) ++
    u.nlri.map (fun p => ann as4 u.attrs .v4u p.canon)

def specWdr (as4 : Bool) (u : Upd) (w : List (Fam × Pfx)) : List Event :=
  w.map (fun fp => wdr as4 fp.1 fp.2.canon) ++
    u.withdrawn.map (fun p => wdr as4 .v4u p.canon)

theorem specEvents_eq (as4 : Bool) (u : Upd) (r w : List (Fam × Pfx)) :
    specEvents as4 u r w = specAnn as4 u r ++ specWdr as4 u w := rfl

/-- The payloads the property demands from an ingress call site (RFC 4271 4.3: an UPDATE that
    lists a prefix both as withdrawn and as announced is treated "as though the WITHDRAWN
    ROUTES do not contain the address prefix"): every announcement of `specEvents`, then those
    withdrawals of `specEvents` whose (family, prefix) is not announced by the same UPDATE. -/
def specUpdate (as4 : Bool) (u : Upd) (r w : List (Fam × Pfx)) : List Event :=
  specAnn as4 u r ++
    (specWdr as4 u w).filter (fun e => !(specAnn as4 u r).any (fun a => sameNlri a e))

/-- No NLRI of the UPDATE is both withdrawn and announced (same family, same prefix up to
    pad bits). -/
def noOverlap (as4 : Bool) (u : Upd) (r w : List (Fam × Pfx)) : Prop :=
  ∀ e ∈ specWdr as4 u w, ∀ a ∈ specAnn as4 u r, sameNlri a e = false

instance (as4 : Bool) (u : Upd) (r w : List (Fam × Pfx)) : Decidable (noOverlap as4 u r w) := by
  unfold noOverlap; exact inferInstance

theorem specUpdate_of_noOverlap (as4 : Bool) (u : Upd) (r w : List (Fam × Pfx))
    (h : noOverlap as4 u r w) : specUpdate as4 u r w = specEvents as4 u r w := by
  rw [specEvents_eq]
  unfold specUpdate
  congr 1
  rw [List.filter_eq_self]
  intro e he
  simp only [Bool.not_eq_true', List.any_eq_false]
  intro a ha
  simp [h e he a ha]

theorem specAnn_kind (as4 : Bool) (u : Upd) (r : List (Fam × Pfx)) :
    ∀ e ∈ specAnn as4 u r, e.kind = .announce := by
  intro e he
  simp only [specAnn, List.mem_append, List.mem_map] at he
  rcases he with ⟨_, _, rfl⟩ | ⟨_, _, rfl⟩ <;> rfl

theorem specWdr_kind (as4 : Bool) (u : Upd) (w : List (Fam × Pfx)) :
    ∀ e ∈ specWdr as4 u w, e.kind = .withdraw := by
  intro e he
  simp only [specWdr, List.mem_append, List.mem_map] at he
  rcases he with ⟨_, _, rfl⟩ | ⟨_, _, rfl⟩ <;> rfl

theorem mem_specUpdate (as4 : Bool) (u : Upd) (r w : List (Fam × Pfx)) (e : Event) :
    e ∈ specUpdate as4 u r w ↔
      e ∈ specAnn as4 u r ∨
        (e ∈ specWdr as4 u w ∧ ∀ a ∈ specAnn as4 u r, ¬ (a.fam = e.fam ∧ a.pfx = e.pfx)) := by
  simp only [specUpdate, List.mem_append, List.mem_filter, Bool.not_eq_true', List.any_eq_false,
    sameNlri, decide_eq_true_eq]

/-- What a call site emits, per variant of the overlap site. -/
def specCaller (v : Variant) (as4 : Bool) (u : Upd) (r w : List (Fam × Pfx)) : List Event :=
  if v.overlapKept then specEvents as4 u r w else specUpdate as4 u r w

theorem explodeUpdate_spec (v : Variant) (as4 : Bool) (u : Upd) (r w : List (Fam × Pfx))
    (hr : ReachIs u.attrs r) (hw : UnreachIs u.attrs w)
    (hc : v.maskPad = true ∨ (allClean r ∧ allClean w)) :
    explodeUpdate v as4 u.canon = some (specCaller v as4 u r w) := by
  have ha := announcements_spec v as4 u.canon r hr (hc.imp id (fun h => h.1))
  have hw' := withdrawals_spec v as4 u.canon w hw (hc.imp id (fun h => h.2))
  have ea : (r.map (fun fp => ann as4 u.canon.attrs fp.1 fp.2.canon) ++
      u.canon.nlri.map (ann as4 u.canon.attrs .v4u)) = specAnn as4 u r := by
    simp [specAnn, Upd.canon, List.map_map, Function.comp_def]
  have ew : (w.map (fun fp => wdr as4 fp.1 fp.2.canon) ++
      u.canon.withdrawn.map (wdr as4 .v4u)) = specWdr as4 u w := by
    simp [specWdr, Upd.canon, List.map_map, Function.comp_def]
  unfold explodeUpdate
  rw [ha, hw', ea, ew]
  unfold specCaller
  cases v.overlapKept
  · simp [specUpdate, dropOverlap]
  · simp [specEvents_eq]

/-- Bytes in, payloads out, through a call site, for every RFC-well-formed UPDATE. -/
theorem runCaller_encode_gen (v : Variant) (as4 : Bool) (u : Upd) (r w : List (Fam × Pfx))
    (extra : Bytes) (hwf : u.wfRfc) (hr : ReachIs u.attrs r) (hw : UnreachIs u.attrs w)
    (hc : v.maskPad = true ∨ (u.clean ∧ allClean r ∧ allClean w)) :
    runCaller v as4 (encode u ++ extra) = some (specCaller v as4 u r w) := by
  unfold runCaller
  rw [decode_encode v u extra hwf (hc.imp id (fun h => h.1))]
  exact explodeUpdate_spec v as4 u r w hr hw (hc.imp id (fun h => h.2))

theorem specCaller_eq (v : Variant) (as4 : Bool) (u : Upd) (r w : List (Fam × Pfx))
    (ho : v.overlapKept = false ∨ noOverlap as4 u r w) :
    specCaller v as4 u r w = specUpdate as4 u r w := by
  unfold specCaller
  rcases ho with ho | ho
  · simp [ho]
  · rw [specUpdate_of_noOverlap as4 u r w ho]; simp

theorem runCaller_encode (v : Variant) (as4 : Bool) (u : Upd) (r w : List (Fam × Pfx))
    (extra : Bytes) (hwf : u.wfRfc) (hr : ReachIs u.attrs r) (hw : UnreachIs u.attrs w)
    (hc : v.maskPad = true ∨ (u.clean ∧ allClean r ∧ allClean w))
    (ho : v.overlapKept = false ∨ noOverlap as4 u r w) :
    runCaller v as4 (encode u ++ extra) = some (specUpdate as4 u r w) := by
  rw [runCaller_encode_gen v as4 u r w extra hwf hr hw hc, specCaller_eq v as4 u r w ho]

/-! ### BMP Route Monitoring, Dumping phase -/

theorem isEorRc_canon (u : Upd) : isEorRc u.canon = isEorRc u := by
  simp [isEorRc, Upd.canon]

theorem specUpdate_nil_of_specEvents_nil (as4 : Bool) (u : Upd) (r w : List (Fam × Pfx))
    (h : specEvents as4 u r w = []) : specUpdate as4 u r w = [] := by
  rw [specEvents_eq, List.append_eq_nil_iff] at h
  simp [specUpdate, h.1, h.2]

theorem runBmpDumping_encode (v : Variant) (as4 : Bool) (u : Upd) (r w : List (Fam × Pfx))
    (extra : Bytes) (hwf : u.wfRfc) (hr : ReachIs u.attrs r) (hw : UnreachIs u.attrs w)
    (hc : v.maskPad = true ∨ (u.clean ∧ allClean r ∧ allClean w))
    (he : v.eorDrops = false ∨ isEorRc u = false ∨ specEvents as4 u r w = [])
    (ho : v.overlapKept = false ∨ noOverlap as4 u r w) :
    runBmpDumping v as4 (encode u ++ extra) = some (specUpdate as4 u r w) := by
  unfold runBmpDumping
  rw [decode_encode v u extra hwf (hc.imp id (fun h => h.1))]
  have hev := explodeUpdate_spec v as4 u r w hr hw (hc.imp id (fun h => h.2))
  rw [specCaller_eq v as4 u r w ho] at hev
  simp only [isEorRc_canon]
  rcases he with he | he | he
  · simp [he, hev]
  · simp [he, hev]
  · rw [hev, specUpdate_nil_of_specEvents_nil as4 u r w he]; simp

/-! ### `encode` produces octets -/

/-- Every number in the structured UPDATE is an octet. -/
structure Upd.octets (u : Upd) : Prop where
  wd : ∀ p ∈ u.withdrawn, p.len < 256 ∧ ∀ b ∈ p.addr, b < 256
  nl : ∀ p ∈ u.nlri, p.len < 256 ∧ ∀ b ∈ p.addr, b < 256
  attr : ∀ a ∈ u.attrs, a.flags < 256 ∧ a.code < 256 ∧ ∀ b ∈ a.value, b < 256

theorem u16_octets (n : Nat) (h : n < 65536) : ∀ b ∈ u16 n, b < 256 := by
  intro b hb
  simp only [u16, List.mem_cons, List.not_mem_nil, or_false] at hb
  rcases hb with rfl | rfl <;> omega

theorem encPfxs_octets : ∀ (ps : List Pfx),
    (∀ p ∈ ps, p.len < 256 ∧ ∀ b ∈ p.addr, b < 256) → ∀ b ∈ encPfxs ps, b < 256
  | [], _, b, hb => by simp [encPfxs] at hb
  | p :: ps, h, b, hb => by
    simp only [encPfxs, encPfx, List.cons_append, List.mem_cons, List.mem_append] at hb
    have hp := h p List.mem_cons_self
    rcases hb with rfl | hb | hb
    · exact hp.1
    · exact hp.2 b hb
    · exact encPfxs_octets ps (fun q hq => h q (List.mem_cons_of_mem _ hq)) b hb

theorem encAttrs_octets : ∀ (as : List Attr), (∀ a ∈ as, a.wf) →
    (∀ a ∈ as, a.flags < 256 ∧ a.code < 256 ∧ ∀ b ∈ a.value, b < 256) → ∀ b ∈ encAttrs as, b < 256
  | [], _, _, b, hb => by simp [encAttrs] at hb
  | a :: as, hwf, h, b, hb => by
    simp only [encAttrs, List.mem_append] at hb
    have ha := h a List.mem_cons_self
    have hw := hwf a List.mem_cons_self
    rcases hb with hb | hb
    · unfold Attr.wf at hw
      unfold encAttr at hb
      by_cases he : extBit a.flags = true
      · simp only [he, if_true] at hw hb
        simp only [List.mem_cons, List.mem_append] at hb
        rcases hb with rfl | rfl | hb | hb
        · exact ha.1
        · exact ha.2.1
        · exact u16_octets _ hw b hb
        · exact ha.2.2 b hb
      · simp only [he] at hw hb
        simp only [Bool.false_eq_true, if_false, List.mem_cons] at hw hb
        rcases hb with rfl | rfl | rfl | hb
        · exact ha.1
        · exact ha.2.1
        · exact hw
        · exact ha.2.2 b hb
    · exact encAttrs_octets as (fun q hq => hwf q (List.mem_cons_of_mem _ hq))
        (fun q hq => h q (List.mem_cons_of_mem _ hq)) b hb

/-- The encoding of a well-formed UPDATE made of octets is an octet string: the length
    fields do not overflow (this is where the `< 65536` / `< 256` bounds of `wfRfc` matter). -/
theorem encode_octets (u : Upd) (hwf : u.wfRfc) (ho : u.octets) : ∀ b ∈ encode u, b < 256 := by
  intro b hb
  simp only [encode, encBody, marker, List.mem_append, List.mem_cons, List.mem_replicate] at hb
  rcases hb with ⟨_, rfl⟩ | hb | rfl | hb | hb | hb | hb | hb
  · omega
  · exact u16_octets _ hwf.total b (by simpa [encBody] using hb)
  · omega
  · exact u16_octets _ hwf.wlen b hb
  · exact encPfxs_octets _ ho.wd b hb
  · exact u16_octets _ hwf.alen b hb
  · exact encAttrs_octets _ hwf.attr ho.attr b hb
  · exact encPfxs_octets _ ho.nl b hb

/-! ### The code as written rejects every UPDATE with a dirty prefix -/

theorem decPfxsF_dirty (mb : Nat) :
    ∀ (ps : List Pfx) (fuel : Nat), (∀ p ∈ ps, p.wfRfc mb) → (∃ p ∈ ps, ¬ p.clean) →
      (encPfxs ps).length ≤ fuel → decPfxsF asWritten mb fuel (encPfxs ps) = none
  | [], _, _, hd, _ => by obtain ⟨p, hp, _⟩ := hd; cases hp
  | p :: ps, fuel, hwf, hd, hf => by
    have hp := hwf p (List.mem_cons_self)
    have hwf' : ∀ q ∈ ps, q.wfRfc mb := fun q hq => hwf q (List.mem_cons_of_mem _ hq)
    have henc : encPfxs (p :: ps) = p.len :: (p.addr ++ encPfxs ps) := by
      simp [encPfxs, encPfx]
    rw [henc] at hf ⊢
    cases fuel with
    | zero => simp at hf
    | succ f =>
      have hf' : (encPfxs ps).length ≤ f := by
        simp only [List.length_cons, List.length_append] at hf; omega
      have hdec := decPfx_enc asWritten mb p (encPfxs ps) hp
      simp only [encPfx, List.cons_append] at hdec
      by_cases hc : p.clean
      · have hrest : ∃ q ∈ ps, ¬ q.clean := by
          obtain ⟨q, hq, hqd⟩ := hd
          rcases List.mem_cons.mp hq with rfl | hq'
          · exact absurd hc hqd
          · exact ⟨q, hq', hqd⟩
        unfold Pfx.clean at hc
        simp only [hc, Bool.true_or, if_true] at hdec
        simp only [decPfxsF, hdec, decPfxsF_dirty mb ps f hwf' hrest hf']
      · unfold Pfx.clean at hc
        have hm : asWritten.maskPad = false := rfl
        simp only [hc, hm, Bool.or_false, Bool.false_eq_true, if_false] at hdec
        simp only [decPfxsF, hdec]

theorem decPfxs_dirty (mb : Nat) (ps : List Pfx) (hwf : ∀ p ∈ ps, p.wfRfc mb)
    (hd : ∃ p ∈ ps, ¬ p.clean) : decPfxs asWritten mb (encPfxs ps) = none :=
  decPfxsF_dirty mb ps _ hwf hd (Nat.le_refl _)

/-- `decodeBody` on an encoded body, with the two prefix fields left to `decPfxs`. -/
theorem decodeBody_enc_gen (v : Variant) (u : Upd) (extra : Bytes) (hwf : u.wfRfc) :
    decodeBody v (19 + (encBody u).length) (encBody u ++ extra) =
      match decPfxs v 4 (encPfxs u.withdrawn) with
      | none => none
      | some wd =>
        match decPfxs v 4 (encPfxs u.nlri) with
        | none => none
        | some nl => some ⟨wd, u.attrs, nl⟩ := by
  have hb : encBody u ++ extra =
      ((encPfxs u.withdrawn).length / 256) :: ((encPfxs u.withdrawn).length % 256) ::
        (encPfxs u.withdrawn ++
          (((encAttrs u.attrs).length / 256) :: ((encAttrs u.attrs).length % 256) ::
            (encAttrs u.attrs ++ (encPfxs u.nlri ++ extra)))) := by
    simp [encBody, u16]
  have ha := decAttrs_enc u.attrs hwf.attr
  have hany : u.attrs.any (fun a => isMp a && decide (a.value.length < 3)) = false := by
    rw [List.any_eq_false]
    intro a hmem hh
    simp only [Bool.and_eq_true, decide_eq_true_eq] at hh
    have := hwf.mp a hmem hh.1
    omega
  rw [hb, encBody_length]
  simp only [decodeBody, u16_val]
  have h1 : ¬ (encPfxs u.withdrawn ++
          (((encAttrs u.attrs).length / 256) :: ((encAttrs u.attrs).length % 256) ::
            (encAttrs u.attrs ++ (encPfxs u.nlri ++ extra)))).length
        < (encPfxs u.withdrawn).length := by
    rw [List.length_append]; omega
  rw [if_neg h1, List.take_left, List.drop_left]
  cases decPfxs v 4 (encPfxs u.withdrawn) with
  | none => rfl
  | some wd =>
    simp only [u16_val]
    have h2 : ¬ (encAttrs u.attrs ++ (encPfxs u.nlri ++ extra)).length < (encAttrs u.attrs).length := by
      rw [List.length_append]; omega
    rw [if_neg h2, List.take_left, List.drop_left, ha]
    simp only [hany]
    have e : 19 + (2 + (encPfxs u.withdrawn).length + 2 + (encAttrs u.attrs).length +
          (encPfxs u.nlri).length) - 19 -
        (2 + (encPfxs u.withdrawn).length + 2 + (encAttrs u.attrs).length) = (encPfxs u.nlri).length := by
      omega
    rw [e]
    have h3 : ¬ (2 + (encPfxs u.withdrawn).length + 2 + (encAttrs u.attrs).length >
        19 + (2 + (encPfxs u.withdrawn).length + 2 + (encAttrs u.attrs).length +
          (encPfxs u.nlri).length) - 19) := by omega
    have h4 : ¬ (encPfxs u.nlri ++ extra).length < (encPfxs u.nlri).length := by
      rw [List.length_append]; omega
    simp only [Bool.false_eq_true, if_false]
    rw [if_neg h3, if_neg h4, List.take_left]
    cases decPfxs v 4 (encPfxs u.nlri) <;> rfl

theorem decode_encode_gen (v : Variant) (u : Upd) (extra : Bytes) (hwf : u.wfRfc) :
    decode v (encode u ++ extra) =
      match decPfxs v 4 (encPfxs u.withdrawn) with
      | none => none
      | some wd =>
        match decPfxs v 4 (encPfxs u.nlri) with
        | none => none
        | some nl => some ⟨wd, u.attrs, nl⟩ := by
  have hb := decodeBody_enc_gen v u extra hwf
  have ht : (encode u ++ extra).take 16 = marker := by
    unfold encode
    rw [List.append_assoc]
    exact List.take_left' (by simp [marker])
  have hd : (encode u ++ extra).drop 16 =
      ((19 + (encBody u).length) / 256) :: ((19 + (encBody u).length) % 256) :: 2 ::
        (encBody u ++ extra) := by
    unfold encode
    rw [List.append_assoc, List.drop_left' (by simp [marker])]
    simp [u16]
  unfold decode
  rw [ht, hd]
  simp only [ne_eq, not_true_eq_false, if_false, u16_val]
  rw [if_neg (by omega)]
  exact hb

/-- Code as written: a dirty pad bit in a conventional field makes `from_octets` fail. -/
theorem decode_dirty (u : Upd) (extra : Bytes) (hwf : u.wfRfc) (hd : ¬ u.clean) :
    decode asWritten (encode u ++ extra) = none := by
  rw [decode_encode_gen asWritten u extra hwf]
  by_cases hw : ∀ p ∈ u.withdrawn, p.clean
  · have hn : ∃ p ∈ u.nlri, ¬ p.clean := by
      apply Classical.byContradiction
      intro hcon
      apply hd
      refine ⟨hw, fun p hp => ?_⟩
      apply Classical.byContradiction
      intro hpc
      exact hcon ⟨p, hp, hpc⟩
    rw [decPfxs_dirty 4 u.nlri hwf.nl hn]
    cases decPfxs asWritten 4 (encPfxs u.withdrawn) <;> rfl
  · have hw' : ∃ p ∈ u.withdrawn, ¬ p.clean := by
      apply Classical.byContradiction
      intro hcon
      apply hw
      intro p hp
      apply Classical.byContradiction
      intro hpc
      exact hcon ⟨p, hp, hpc⟩
    rw [decPfxs_dirty 4 u.withdrawn hwf.wd hw']

end Rotonda.Codec
