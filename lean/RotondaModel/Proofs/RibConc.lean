import RotondaModel.Model.RibConc
/-! Helper lemmas for C09 (concurrent writers on one RIB). -/
namespace Rotonda.RibConc

/-! ### The write-log map -/

@[simp] theorem lget_nil {κ ν : Type} [DecidableEq κ] (k : κ) : lget ([] : List (κ × ν)) k = none := rfl

@[simp] theorem lget_cons {κ ν : Type} [DecidableEq κ] (k' k : κ) (x : ν) (l : List (κ × ν)) :
    lget ((k', x) :: l) k = if k' = k then some x else lget l k := rfl

theorem treeGet_cons (t' t : Tree) (x : Nat × List Mui) (ts : Trees) :
    treeGet ((t', x) :: ts) t = if t' = t then x else treeGet ts t := by
  unfold treeGet
  simp only [lget_cons]
  split <;> rfl

/-! ### Per-entry semantics of the atomic actions -/

def microMui : Micro → Option Mui
  | .ins _ m _ => some m
  | .wdp _ m => some m
  | .mark _ m => some m
  | _ => none

/-- What one action does to the record of key `k`, as a function of that record alone. -/
def entryStep (μ : Micro) (k : Pfx × Mui) (e : Option (Bool × Attr)) : Option (Bool × Attr) :=
  match μ with
  | .ins p m a => if (p, m) = k then some (false, a) else e
  | .wdp p m => if (p, m) = k then e.map (fun x => (true, x.2)) else e
  | _ => e

/-- The record of key `k` after the actions `done` (newest first), starting from nothing. -/
def entryOf : List Micro → Pfx × Mui → Option (Bool × Attr)
  | [], _ => none
  | μ :: older, k => entryStep μ k (entryOf older k)

/-- Locality: the new record of `k` depends only on the old record of `k`. -/
theorem lget_recStep (r : Recs) (μ : Micro) (k : Pfx × Mui) :
    lget (recStep r μ) k = entryStep μ k (lget r k) := by
  cases μ with
  | ins p m a => simp [recStep, entryStep]
  | wdp p m =>
    simp only [recStep, entryStep]
    cases h : lget r (p, m) with
    | none =>
      by_cases hk : (p, m) = k
      · subst hk; simp [h]
      · simp [hk]
    | some x =>
      by_cases hk : (p, m) = k
      · subst hk; simp [h]
      · simp [hk]
  | mark t m => rfl
  | lock => rfl
  | unlock => rfl

/-- An action on another ingress id does not touch the record. -/
theorem entryStep_other (μ : Micro) (p : Pfx) (m : Mui) (e : Option (Bool × Attr))
    (h : ∀ m', microMui μ = some m' → m' ≠ m) : entryStep μ (p, m) e = e := by
  cases μ with
  | ins p' m' a =>
    have := h m' rfl
    simp [entryStep, this]
  | wdp p' m' =>
    have := h m' rfl
    simp [entryStep, this]
  | mark t m' => rfl
  | lock => rfl
  | unlock => rfl

/-- What a query sees of `(p, m)` according to the completed actions of `m`'s owner alone. -/
def specView (done : List Micro) (p : Pfx) (m : Mui) : Option (Bool × Attr) :=
  (entryOf done (p, m)).map fun x => (x.1 || done.contains (.mark (treeOf p) m), x.2)

/-! ### Update-level sequential semantics = fold of the atomic actions -/

def microSeq (r : SeqRib) : Micro → SeqRib
  | .mark t m => { r with marks := (t, m) :: r.marks }
  | μ => { r with recs := recStep r.recs μ }

theorem microSeq_lock (r : SeqRib) : microSeq r .lock = r := rfl
theorem microSeq_unlock (r : SeqRib) : microSeq r .unlock = r := rfl

theorem seqWithdraw_eq (v : Variant) (r : SeqRib) (m : Mui) (af : Option Tree) :
    seqWithdraw r m af = (compileWithdraw v m af).foldl microSeq r := by
  cases af <;> cases v with | mk l => cases l <;>
    simp [seqWithdraw, compileWithdraw, microSeq, List.foldl, recStep]

theorem seqPl_eq (r : SeqRib) (pl : Pl) : seqPl r pl = microSeq r (compilePl pl) := by
  cases pl <;> rfl

theorem seqOp_eq (v : Variant) (r : SeqRib) (op : Op) :
    seqOp r op = (compileOp v op).foldl microSeq r := by
  cases op with
  | single pl => simp [seqOp, compileOp, seqPl_eq]
  | bulk pls =>
    simp only [seqOp, compileOp]
    induction pls generalizing r with
    | nil => rfl
    | cons pl pls ih => simp only [List.foldl_cons, List.map_cons, seqPl_eq]; exact ih _
  | withdraw m af => simp only [seqOp, compileOp]; exact seqWithdraw_eq v r m af
  | withdrawBulk ms =>
    simp only [seqOp, compileOp]
    induction ms generalizing r with
    | nil => rfl
    | cons m ms ih =>
      simp only [List.foldl_cons, compileWithdrawBulk, List.foldl_append]
      rw [← seqWithdraw_eq v r m none]
      exact ih _

theorem seqRun_eq_aux (v : Variant) (prog : List Op) (r : SeqRib) :
    prog.foldl seqOp r = (compile v prog).foldl microSeq r := by
  induction prog generalizing r with
  | nil => rfl
  | cons op ops ih =>
    simp only [List.foldl_cons, compile, List.foldl_append]
    rw [seqOp_eq v r op]
    exact ih _

theorem seqRun_eq (v : Variant) (prog : List Op) :
    seqRun prog = (compile v prog).foldl microSeq ⟨[], []⟩ := seqRun_eq_aux v prog _

/-- The relation between an update-level sequential RIB and a newest-first action list. -/
structure Rel (r : SeqRib) (d : List Micro) : Prop where
  recs : ∀ k, lget r.recs k = entryOf d k
  marks : ∀ t m, (t, m) ∈ r.marks ↔ Micro.mark t m ∈ d

theorem rel_step (r : SeqRib) (d : List Micro) (μ : Micro) (h : Rel r d) : Rel (microSeq r μ) (μ :: d) := by
  cases μ with
  | mark t m =>
    refine ⟨fun k => ?_, fun t' m' => ?_⟩
    · simp only [microSeq, entryOf, entryStep]; exact h.recs k
    · simp only [microSeq, List.mem_cons, h.marks t' m', Micro.mark.injEq, Prod.mk.injEq]
  | ins p m a =>
    refine ⟨fun k => ?_, fun t' m' => ?_⟩
    · simp only [microSeq, entryOf, lget_recStep, h.recs k]
    · simp [microSeq, h.marks t' m']
  | wdp p m =>
    refine ⟨fun k => ?_, fun t' m' => ?_⟩
    · simp only [microSeq, entryOf, lget_recStep, h.recs k]
    · simp [microSeq, h.marks t' m']
  | lock =>
    refine ⟨fun k => ?_, fun t' m' => ?_⟩
    · simp only [microSeq, entryOf, lget_recStep, h.recs k]
    · simp [microSeq, h.marks t' m', recStep]
  | unlock =>
    refine ⟨fun k => ?_, fun t' m' => ?_⟩
    · simp only [microSeq, entryOf, lget_recStep, h.recs k]
    · simp [microSeq, h.marks t' m', recStep]

theorem rel_foldl (l : List Micro) (r : SeqRib) (d : List Micro) (h : Rel r d) :
    Rel (l.foldl microSeq r) (l.reverse ++ d) := by
  induction l generalizing r d with
  | nil => simpa using h
  | cons μ l ih =>
    simp only [List.foldl_cons, List.reverse_cons, List.append_assoc, List.singleton_append]
    exact ih _ _ (rel_step r d μ h)

/-- Running a program alone, update by update, shows exactly what its compiled actions specify. -/
theorem seqRun_view (v : Variant) (prog : List Op) (p : Pfx) (m : Mui) :
    (seqRun prog).view p m = specView (compile v prog).reverse p m := by
  have h := rel_foldl (compile v prog) ⟨[], []⟩ [] ⟨fun _ => rfl, fun _ _ => by simp⟩
  rw [← seqRun_eq v prog, List.append_nil] at h
  unfold SeqRib.view specView
  rw [h.recs (p, m)]
  congr 1
  funext x
  congr 1
  congr 1
  have := h.marks (treeOf p) m
  by_cases hm : (treeOf p, m) ∈ (seqRun prog).marks
  · simp [hm, this.mp hm]
  · have h2 : Micro.mark (treeOf p) m ∉ (compile v prog).reverse := fun hc => hm (this.mpr hc)
    simp [hm, h2]

/-! ### Thread-list plumbing -/

theorem threads_set_cases {ts : List Thread} {i j : Nat} {th' b : Thread}
    (h : (ts.set i th')[j]? = some b) : (j = i ∧ b = th') ∨ (j ≠ i ∧ ts[j]? = some b) := by
  by_cases hij : i = j
  · subst hij
    left
    rw [List.getElem?_set_self'] at h
    cases hl : ts[i]? with
    | none => simp [hl] at h
    | some c => simp [hl] at h; exact ⟨rfl, h.symm⟩
  · right
    rw [List.getElem?_set_ne hij] at h
    exact ⟨fun e => hij e.symm, h⟩

theorem threads_set_self {ts : List Thread} {i : Nat} {th th' : Thread} (h : ts[i]? = some th) :
    (ts.set i th')[i]? = some th' := by
  rw [List.getElem?_set_self']
  simp [h]

/-- Pointers only grow. -/
theorem cost_pos_of_ne_nil : ∀ (l : List Micro), l ≠ [] → 0 < cost l
  | [], h => absurd rfl h
  | μ :: l, _ => by
    unfold cost
    cases μ <;> simp [microCost] <;> omega

/-! ### The repaired variant: lock discipline of the compiled programs -/

/-- Well-bracketedness of a remaining action list, given whether the thread holds the mutex:
    `lock` only when not holding, `unlock` and `mark` only when holding, nothing left while holding. -/
def wb : Bool → List Micro → Bool
  | h, [] => !h
  | h, .lock :: r => !h && wb true r
  | h, .unlock :: r => h && wb false r
  | h, .mark _ _ :: r => h && wb h r
  | h, .ins _ _ _ :: r => wb h r
  | h, .wdp _ _ :: r => wb h r

def wbT (h : Bool) (th : Thread) : Bool :=
  match th.pc with
  | .idle => wb h th.todo
  | .loaded _ _ _ _ => h && wb h th.todo

/-- Own steps still needed when no CAS fails. -/
def remaining (th : Thread) : Nat :=
  cost th.todo + (match th.pc with | .idle => 0 | .loaded _ _ _ _ => 1)

theorem wb_withdraw (m : Mui) (af : Option Tree) (rest : List Micro) :
    wb false (compileWithdraw repaired m af ++ rest) = wb false rest := by
  cases af <;> simp [compileWithdraw, repaired, wb]

theorem wb_compileOp (op : Op) (rest : List Micro) :
    wb false (compileOp repaired op ++ rest) = wb false rest := by
  cases op with
  | single pl => cases pl <;> simp [compileOp, compilePl, wb]
  | bulk pls =>
    simp only [compileOp]
    induction pls with
    | nil => rfl
    | cons pl pls ih => cases pl <;> simpa [compilePl, wb] using ih
  | withdraw m af => exact wb_withdraw m af rest
  | withdrawBulk ms =>
    simp only [compileOp]
    induction ms with
    | nil => rfl
    | cons m ms ih =>
      simp only [compileWithdrawBulk, List.append_assoc]
      rw [wb_withdraw]; exact ih

theorem wb_compile (prog : List Op) : wb false (compile repaired prog) = true := by
  induction prog with
  | nil => rfl
  | cons op ops ih => simp only [compile]; rw [wb_compileOp]; exact ih

end Rotonda.RibConc
