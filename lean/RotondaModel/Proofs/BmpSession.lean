import RotondaModel.Model.BmpSession
import RotondaModel.Proofs.BmpIo
/-! Helper lemmas for C07: invariants carried through the read loop, the peer bookkeeping
    invariant (`up` ids are registered children), absence of end-of-stream before the epilogue. -/
namespace Rotonda.BmpSession
open Rotonda.BmpIo

variable {σ : Type}

/-- A state predicate preserved by the handler holds after the loop. -/
theorem loop_inv (v : Variant) (h : Handler σ Out) (valid : Nat → List Nat → Verdict)
    (P : σ → Prop) (hP : ∀ st i bs, P st → P (h.step st i bs).1) :
    ∀ (fuel : Nat) (s : Src) (st : σ) (i : Nat), P st → P (loop v h valid fuel s st i).st := by
  intro fuel
  induction fuel with
  | zero => intro s st i hst; simpa [loop] using hst
  | succ fuel ih =>
    intro s st i hst
    unfold loop
    generalize readFrame v (valid i) s = r
    obtain ⟨o, s'⟩ := r
    cases o with
    | terminated => exact hst
    | pending => exact hst
    | panic site => exact hst
    | ioErr k =>
      simp only
      split
      · exact hst
      · exact ih s' st i hst
    | parseErr =>
      simp only
      split
      · exact hst
      · exact ih s' st (i + 1) hst
    | frame bs =>
      simp only
      have h1 := hP st i bs hst
      split
      · rename_i heq; rw [heq] at h1; exact h1
      · rename_i heq; rw [heq] at h1; exact h1
      · rename_i heq; rw [heq] at h1; exact ih s' _ (i + 1) h1

/-- If the handler never emits an end-of-stream, none leaves the gate during the loop. -/
theorem loop_no_eos (v : Variant) (h : Handler σ Out) (valid : Nat → List Nat → Verdict)
    (hne : ∀ st i bs, ∀ o ∈ (h.step st i bs).2.1, o.isEos = false) :
    ∀ (fuel : Nat) (s : Src) (st : σ) (i : Nat),
      ∀ o ∈ evOuts (loop v h valid fuel s st i).evs, o.isEos = false := by
  intro fuel
  induction fuel with
  | zero => intro s st i o ho; simp [loop, evOuts] at ho
  | succ fuel ih =>
    intro s st i
    unfold loop
    generalize readFrame v (valid i) s = r
    obtain ⟨o, s'⟩ := r
    cases o with
    | terminated => intro o ho; simp [evOuts] at ho
    | pending => intro o ho; simp [evOuts] at ho
    | panic site => intro o ho; simp [evOuts] at ho
    | ioErr k =>
      simp only
      split
      · intro o ho; simp [evOuts] at ho
      · simp only [evOuts]; exact ih s' st i
    | parseErr =>
      simp only
      split
      · intro o ho; simp [evOuts] at ho
      · simp only [evOuts]; exact ih s' st (i + 1)
    | frame bs =>
      simp only
      have h1 := hne st i bs
      split
      · rename_i heq; rw [heq] at h1
        intro o ho
        simp only [evOuts, List.append_nil] at ho
        exact h1 o ho
      · intro o ho; simp [evOuts] at ho
      · rename_i heq; rw [heq] at h1
        intro o ho
        simp only [evOuts, List.mem_append] at ho
        rcases ho with ho | ho
        · exact h1 o ho
        · exact ih s' _ (i + 1) o ho

/-! ### peer bookkeeping -/

/-- Every peer that is up has its ingress id among the router's registered children. -/
def PInv (st : PState) : Prop := ∀ e ∈ st.up, e.2 ∈ st.children

theorem lookupOrRegister_spec (st : PState) (q : Nat) :
    (st.lookupOrRegister q).1 ∈ (st.lookupOrRegister q).2.children ∧
    (∃ l, (st.lookupOrRegister q).2.reg = st.reg ++ l) ∧
    (st.lookupOrRegister q).2.up = st.up ∧ (st.lookupOrRegister q).2.phase = st.phase := by
  unfold PState.lookupOrRegister
  split
  · rename_i e he
    refine ⟨?_, ⟨[], by simp⟩, rfl, rfl⟩
    have := List.mem_of_find?_eq_some he
    simp only [PState.children, List.mem_map]
    exact ⟨e, this, rfl⟩
  · refine ⟨?_, ⟨[(q, st.next)], rfl⟩, rfl, rfl⟩
    simp [PState.children]

theorem stepUp_spec (st : PState) (p q : Nat) (hst : PInv st) :
    PInv (stepUp st p q).1 ∧ (∃ l, (stepUp st p q).1.reg = st.reg ++ l) ∧ (stepUp st p q).2 = [] := by
  unfold stepUp
  have h := lookupOrRegister_spec st q
  generalize st.lookupOrRegister q = r at h
  obtain ⟨id, st1⟩ := r
  simp only at h ⊢
  obtain ⟨hid, ⟨l, hl⟩, hup, _⟩ := h
  have hmono : ∀ x, x ∈ st.children → x ∈ st1.children := by
    intro x hx
    simp only [PState.children, hl, List.map_append, List.mem_append]
    exact Or.inl hx
  have hst1 : PInv st1 := by
    intro e he; rw [hup] at he; exact hmono _ (hst e he)
  split
  · exact ⟨hst1, ⟨l, hl⟩, rfl⟩
  · refine ⟨?_, ⟨l, hl⟩, rfl⟩
    intro e he
    simp only [List.mem_append, List.mem_singleton] at he
    rcases he with he | rfl
    · exact hst1 e he
    · exact hid

theorem stepDown_spec (st : PState) (p : Nat) (hst : PInv st) :
    PInv (stepDown st p).1 ∧ (stepDown st p).1.reg = st.reg ∧ ∀ o ∈ (stepDown st p).2, o.isEos = false := by
  unfold stepDown
  split
  · refine ⟨?_, rfl, ?_⟩
    · intro e he
      simp only [List.mem_filter] at he
      exact hst e he.1
    · intro o ho; simp only [List.mem_singleton] at ho; subst ho; rfl
  · exact ⟨hst, rfl, by intro o ho; simp at ho⟩

theorem stepTerm_spec (st : PState) :
    PInv (stepTerm st).1 ∧ (stepTerm st).1.reg = st.reg ∧ ∀ o ∈ (stepTerm st).2, o.isEos = false := by
  unfold stepTerm
  refine ⟨by intro e he; simp at he, rfl, ?_⟩
  simp only
  split
  · intro o ho; simp at ho
  · intro o ho; simp only [List.mem_singleton] at ho; subst ho; rfl

/-- The register only grows (ids are never removed): every id that was ever a child stays one. -/
theorem pstep_reg_grows (st : PState) (t : Tok) (hst : PInv st) : ∃ l, (pstep st t).1.reg = st.reg ++ l := by
  cases hph : st.phase <;> cases t <;> simp only [pstep, hph] <;>
    first
    | exact ⟨[], (List.append_nil _).symm⟩
    | exact (stepUp_spec st _ _ hst).2.1
    | exact ⟨[], ((stepDown_spec st _ hst).2.1).trans (List.append_nil _).symm⟩
    | exact ⟨[], ((stepTerm_spec st).2.1).trans (List.append_nil _).symm⟩

theorem pstep_inv (st : PState) (t : Tok) (hst : PInv st) : PInv (pstep st t).1 := by
  cases hph : st.phase <;> cases t <;> simp only [pstep, hph] <;> try exact hst
  · exact (stepUp_spec st _ _ hst).1
  · exact (stepDown_spec st _ hst).1
  · exact (stepTerm_spec st).1

theorem stepUp_outs (st : PState) (p q : Nat) : (stepUp st p q).2 = [] := by
  unfold stepUp
  simp only
  split <;> rfl

theorem stepDown_no_eos (st : PState) (p : Nat) : ∀ o ∈ (stepDown st p).2, o.isEos = false := by
  unfold stepDown
  split
  · intro o ho; simp only [List.mem_singleton] at ho; subst ho; rfl
  · intro o ho; cases ho

/-- The state machine never emits an end-of-stream itself. -/
theorem pstep_no_eos (st : PState) (t : Tok) : ∀ o ∈ (pstep st t).2, o.isEos = false := by
  cases hph : st.phase <;> cases t <;> simp only [pstep, hph] <;>
    first
    | exact stepDown_no_eos st _
    | exact (stepTerm_spec st).2.2
    | (rw [stepUp_outs]; intro o ho; cases ho)
    | (intro o ho; simp only [List.mem_singleton] at ho; subst ho; rfl)
    | (intro o ho; cases ho)

/-! ### BGP -/

/-- Events that keep the processor's loop running once the session is negotiated. -/
def BgpEv.continues : BgpEv → Bool
  | .update | .notification | .gateTerminated => true
  | _ => false

def bgpData : List BgpEv → List Out
  | [] => []
  | .update :: r => .data :: bgpData r
  | _ :: r => bgpData r

theorem bgpLoop_mid (id : Nat) (mid rest : List BgpEv) (hm : ∀ e ∈ mid, e.continues = true)
    (outs : List Out) :
    bgpLoop id (mid ++ rest) true true outs = bgpLoop id rest true true (outs ++ bgpData mid) := by
  induction mid generalizing outs with
  | nil => simp [bgpData]
  | cons e mid ih =>
    have he := hm e (by simp)
    have hm' : ∀ e ∈ mid, e.continues = true := fun x hx => hm x (by simp [hx])
    cases e <;> simp [BgpEv.continues] at he
    · -- update
      simp only [List.cons_append, bgpLoop, if_true, bgpData]
      rw [ih hm']; simp
    · simp only [List.cons_append, bgpLoop, bgpData]; exact ih hm' outs
    · simp only [List.cons_append, bgpLoop, bgpData]; exact ih hm' outs

theorem bgpLoop_no_eos (id : Nat) : ∀ (evs : List BgpEv) (neg live : Bool) (outs : List Out),
    (∀ o ∈ outs, o.isEos = false) → ∀ o ∈ (bgpLoop id evs neg live outs).outs, o.isEos = false := by
  intro evs
  induction evs with
  | nil => intro neg live outs h; simpa [bgpLoop] using h
  | cons e r ih =>
    intro neg live outs h
    have hw : ∀ o ∈ outs ++ [Out.withdraw id], o.isEos = false := by
      intro o ho; simp only [List.mem_append, List.mem_singleton] at ho
      rcases ho with ho | rfl
      · exact h o ho
      · rfl
    have hd : ∀ o ∈ outs ++ [Out.data], o.isEos = false := by
      intro o ho; simp only [List.mem_append, List.mem_singleton] at ho
      rcases ho with ho | rfl
      · exact h o ho
      · rfl
    cases e <;> simp only [bgpLoop]
    · exact ih _ _ _ h
    · exact h
    · split
      · exact ih _ _ _ hd
      · cases neg <;> simp_all
    · exact ih _ _ _ h
    all_goals first
      | exact ih _ _ _ h
      | (cases neg <;> simp_all)

end Rotonda.BmpSession
