import RotondaModel.Model.ReconfUnits
/-! Lemmas and invariants for `Props/ReconfUnits.lean`. -/
namespace Rotonda.ReconfUnits

/-! ## bgp-tcp-in -/
namespace Bgp

theorem foldl_pick_mem (l : List Peer) (best : Option Peer) (p : Peer) :
    l.foldl pick best = some p → best = some p ∨ p ∈ l := by
  induction l generalizing best with
  | nil => intro h; left; simpa using h
  | cons e t ih =>
    intro h
    simp only [List.foldl_cons] at h
    rcases ih _ h with h' | h'
    · cases best with
      | none =>
        simp only [pick, Option.some.injEq] at h'
        right; simp [h']
      | some b =>
        simp only [pick] at h'
        split at h'
        · simp only [Option.some.injEq] at h'; right; simp [h']
        · left; exact h'
    · right; exact List.mem_cons_of_mem _ h'

/-- `PeerConfigs::get` answers with an entry of the table whose key contains the address. -/
theorem get_mem {l : List Peer} {a : Addr} {p : Peer} (h : get l a = some p) :
    p ∈ l ∧ p.key.contains a = true := by
  unfold get at h
  rcases foldl_pick_mem _ _ _ h with h' | h'
  · cases h'
  · simpa [List.mem_filter] using h'

theorem getExact_some {l : List Peer} {k : Key} {p : Peer} (h : getExact l k = some p) :
    p ∈ l ∧ p.key = k := by
  unfold getExact at h
  refine ⟨List.mem_of_find?_eq_some h, ?_⟩
  have := List.find?_some h
  simpa using this

theorem getExact_of_mem {l : List Peer} (hn : (l.map (·.key)).Nodup) {p : Peer} (hp : p ∈ l) :
    getExact l p.key = some p := by
  induction l with
  | nil => cases hp
  | cons q t ih =>
    simp only [List.map_cons, List.nodup_cons] at hn
    unfold getExact
    simp only [List.find?_cons]
    by_cases hq : q.key = p.key
    · have hb : (q.key == p.key) = true := by simpa using hq
      simp only [hb]
      rcases List.mem_cons.mp hp with h | ht
      · rw [h]
      · exfalso; apply hn.1; rw [hq]; exact List.mem_map_of_mem ht
    · have hb : (q.key == p.key) = false := by simpa using hq
      simp only [hb]
      rcases List.mem_cons.mp hp with h | ht
      · exact absurd (by rw [h]) hq
      · exact ih hn.2 ht

/-- `get` and `get_exact` agree on the entry `get` returns (unique keys). -/
theorem getExact_of_get {c : Cfg} (hw : c.wf) {a : Addr} {p : Peer} (h : get c.peers a = some p) :
    getExact c.peers p.key = some p := getExact_of_mem hw (get_mem h).1

/-- A live session is *valid* under a configuration: the entry that configuration has for its address admits
    its AS, and the OPEN the session was set up with is the OPEN that configuration gives. -/
def valid (c : Cfg) (s : Sess) : Prop :=
  ∃ p, get c.peers s.addr = some p ∧ p.asns.accepts s.ras = true ∧ openOf c p = s.op

/-- What ties a live session to the unit's configuration `c` in force. -/
def SInv (v : Variant) (c : Cfg) (s : Sess) : Prop :=
  ∃ cur p,
    getExact s.ucfg.peers s.key = some cur ∧
    (v.bgplisten = .repaired ∨ s.ucfg.listen = c.listen) ∧ s.ucfg.asn = c.asn ∧ s.ucfg.bgpid = c.bgpid ∧
    s.op = openOf s.ucfg cur ∧ cur.asns.accepts s.ras = true ∧
    get c.peers s.addr = some p ∧ p.key = s.key ∧ p.asns = cur.asns ∧ p.hold = cur.hold ∧
    p.protos = cur.protos ∧ p.addpath = cur.addpath

theorem SInv.valid {v : Variant} {c : Cfg} {s : Sess} (h : SInv v c s) : valid c s := by
  obtain ⟨cur, p, _, _, ha, hb, hop, hacc, hget, _, hasn, hh, hp, hap⟩ := h
  refine ⟨p, hget, by rw [hasn]; exact hacc, ?_⟩
  rw [hop]; simp [openOf, ha, hb, hh, hp, hap]

def Inv (v : Variant) (u : Unit) : Prop :=
  u.cfg.wf ∧ u.bound = u.cfg.listen ∧ ∀ s ∈ u.live, SInv v u.cfg s

theorem inv_init {v : Variant} {c : Cfg} (hw : c.wf) : Inv v (init c) :=
  ⟨hw, rfl, by intro s hs; cases hs⟩

/-- The settings the session's decision ignores as written, as (decidable) guards on one reconfiguration:
    the key a session was accepted under still is the entry `get` finds for its address … -/
def guardMatchB (u : Unit) (new : Cfg) : Bool :=
  u.live.all (fun s =>
    match getExact new.peers s.key with
    | some np => get new.peers s.addr == some np
    | none => true)

def guardMatch (v : Variant) (u : Unit) (new : Cfg) : Prop :=
  v.bgpmatch = .repaired ∨ guardMatchB u new = true

/-- … and `protocols` / `addpath` of that entry are unchanged. -/
def guardEqB (u : Unit) (new : Cfg) : Bool :=
  u.live.all (fun s =>
    match getExact new.peers s.key, getExact s.ucfg.peers s.key with
    | some np, some cur => np.protos == cur.protos && np.addpath == cur.addpath
    | _, _ => true)

def guardEq (v : Variant) (u : Unit) (new : Cfg) : Prop :=
  v.bgpeq = .repaired ∨ guardEqB u new = true

theorem guardMatchB_spec {u : Unit} {new : Cfg} (h : guardMatchB u new = true) {s : Sess} (hs : s ∈ u.live)
    {np : Peer} (hnp : getExact new.peers s.key = some np) : get new.peers s.addr = some np := by
  have := List.all_eq_true.mp h s hs
  simp only [hnp] at this
  simpa using this

theorem guardEqB_spec {u : Unit} {new : Cfg} (h : guardEqB u new = true) {s : Sess} (hs : s ∈ u.live)
    {np cur : Peer} (hnp : getExact new.peers s.key = some np) (hc : getExact s.ucfg.peers s.key = some cur) :
    np.protos = cur.protos ∧ np.addpath = cur.addpath := by
  have := List.all_eq_true.mp h s hs
  simp only [hnp, hc] at this
  simpa using this

instance (c : Cfg) : Decidable c.wf := by unfold Cfg.wf; infer_instance

/-- `valid`, decidably -/
def validB (c : Cfg) (s : Sess) : Bool :=
  match get c.peers s.addr with
  | some p => p.asns.accepts s.ras && openOf c p == s.op
  | none => false

theorem validB_of_valid {c : Cfg} {s : Sess} (h : valid c s) : validB c s = true := by
  obtain ⟨p, hg, ha, ho⟩ := h
  simp [validB, hg, ha, ho]

theorem fatePeer_keep {v : Variant} {s : Sess} {np : Peer} (h : fatePeer v s np = .keep) :
    ∃ cur, getExact s.ucfg.peers s.key = some cur ∧ peerEq v np cur = true := by
  unfold fatePeer at h
  split at h
  · cases h
  · rename_i cur hc
    refine ⟨cur, hc, ?_⟩
    split at h
    · assumption
    · cases h

/-- What a kept session tells about the new configuration. -/
theorem fate_keep {v : Variant} {u : Unit} {new : Cfg} (hw : new.wf) (hg : guardMatch v u new)
    {s : Sess} (hs : s ∈ u.live) (h : fate v s new = .keep) :
    ∃ np cur, get new.peers s.addr = some np ∧ np.key = s.key ∧ getExact new.peers s.key = some np ∧
      getExact s.ucfg.peers s.key = some cur ∧ peerEq v np cur = true ∧ mainEq v new s.ucfg = true := by
  unfold fate at h
  split at h
  · rename_i hm
    split at h
    · rename_i hv
      split at h
      · cases h
      · rename_i np hnp
        obtain ⟨cur, hc, he⟩ := fatePeer_keep h
        rcases hg with hg | hg
        · rw [hv] at hg; cases hg
        · exact ⟨np, cur, guardMatchB_spec hg hs hnp, (getExact_some hnp).2, hnp, hc, he, hm⟩
    · split at h
      · cases h
      · rename_i np hnp
        split at h
        · rename_i hk
          have hk' : np.key = s.key := by simpa using hk
          obtain ⟨cur, hc, he⟩ := fatePeer_keep h
          have := getExact_of_get hw hnp
          rw [hk'] at this
          exact ⟨np, cur, hnp, hk', this, hc, he, hm⟩
        · cases h
  · cases h

theorem mainEq_iff {v : Variant} {a b : Cfg} :
    mainEq v a b = true ↔ (v.bgplisten = .repaired ∨ a.listen = b.listen) ∧ a.asn = b.asn ∧ a.bgpid = b.bgpid := by
  simp [mainEq, and_assoc]

theorem peerEq_iff {v : Variant} {p q : Peer} :
    peerEq v p q = true ↔ p.asns = q.asns ∧ p.hold = q.hold ∧
      (v.bgpeq = .asWritten ∨ (p.protos = q.protos ∧ p.addpath = q.addpath)) := by
  simp [peerEq, and_assoc]

/-- One reconfiguration keeps the invariant — under the guards as written, unconditionally when repaired. -/
theorem reconf_inv {v : Variant} {u : Unit} {new : Cfg} (hi : Inv v u) (hw : new.wf)
    (hgm : guardMatch v u new) (hge : guardEq v u new) : Inv v (reconf v u new).1 := by
  refine ⟨hw, rfl, ?_⟩
  intro s hs
  simp only [reconf, kept, List.mem_filter, beq_iff_eq] at hs
  obtain ⟨hsl, hk⟩ := hs
  obtain ⟨np, cur, hget, hkey, hex, hcur, hpe, hme⟩ := fate_keep hw hgm hsl hk
  obtain ⟨cur0, p0, hcur0, _, _, _, hop, hacc, _⟩ := hi.2.2 s hsl
  rw [hcur] at hcur0
  cases hcur0
  rw [mainEq_iff] at hme
  rw [peerEq_iff] at hpe
  obtain ⟨hl, ha, hb⟩ := hme
  obtain ⟨has, hh, hpp⟩ := hpe
  have hprot : np.protos = cur.protos ∧ np.addpath = cur.addpath := by
    rcases hpp with hv | h
    · rcases hge with hge | hge
      · rw [hv] at hge; cases hge
      · exact guardEqB_spec hge hsl hex hcur
    · exact h
  refine ⟨cur, np, hcur, ?_, ha.symm, hb.symm, hop, hacc, hget, hkey, has, hh, hprot.1, hprot.2⟩
  rcases hl with h | h
  · left; exact h
  · right; exact h.symm

theorem conn_inv {v : Variant} {u : Unit} (hi : Inv v u) (port a ras : Nat) : Inv v (conn u port a ras).1 := by
  obtain ⟨hw, hb, hs⟩ := hi
  unfold conn
  split
  · exact ⟨hw, hb, hs⟩
  · split
    · exact ⟨hw, hb, hs⟩
    · rename_i p hp
      split
      · exact ⟨hw, hb, hs⟩
      · rename_i hacc
        split
        · exact ⟨hw, hb, hs⟩
        · refine ⟨hw, hb, ?_⟩
          intro s hsm
          simp only [List.mem_append, List.mem_singleton] at hsm
          rcases hsm with h | h
          · exact hs s h
          · subst h
            refine ⟨p, p, getExact_of_get hw hp, Or.inr rfl, rfl, rfl, rfl, ?_, hp, rfl, rfl, rfl, rfl, rfl⟩
            simpa using hacc

theorem upd_inv {v : Variant} {u : Unit} (hi : Inv v u) (k : Nat) : Inv v (upd u k).1 := by
  unfold upd; split <;> exact hi

theorem fin_inv {v : Variant} {u : Unit} (hi : Inv v u) (k : Nat) : Inv v (fin u k).1 := by
  unfold fin
  split
  · exact ⟨hi.1, hi.2.1, fun s hs => hi.2.2 s (List.mem_filter.mp hs).1⟩
  · exact hi

/-- A history is *good* for a variant when every configuration it loads is a table with unique keys and, for
    the sites that are as written, the guards hold at the moment of each reconfiguration. -/
def Good (v : Variant) (u : Unit) : List Ev → Prop
  | [] => True
  | e :: es =>
    (match e with
      | .reconf c => c.wf ∧ guardMatch v u c ∧ guardEq v u c
      | _ => True) ∧ Good v (step v u e).1 es

theorem inv_run {v : Variant} {u : Unit} {es : List Ev} (hi : Inv v u) (hg : Good v u es) : Inv v (run v u es) := by
  induction es generalizing u with
  | nil => exact hi
  | cons e es ih =>
    obtain ⟨h1, h2⟩ := hg
    apply ih _ h2
    cases e with
    | conn p a r => exact conn_inv hi p a r
    | upd k => exact upd_inv hi k
    | fin k => exact fin_inv hi k
    | reconf c => exact reconf_inv hi h1.1 h1.2.1 h1.2.2

theorem good_repaired {v : Variant} (hm : v.bgpmatch = .repaired) (he : v.bgpeq = .repaired) (u : Unit) (es : List Ev)
    (hw : ∀ c, Ev.reconf c ∈ es → c.wf) : Good v u es := by
  induction es generalizing u with
  | nil => trivial
  | cons e es ih =>
    refine ⟨?_, ih _ (fun c hc => hw c (List.mem_cons_of_mem _ hc))⟩
    cases e with
    | reconf c => exact ⟨hw c (List.mem_cons_self), Or.inl hm, Or.inl he⟩
    | _ => trivial

/-- Nothing that applies to the session changed: same local AS / BGP id, and the entry `get` finds for its
    address has the same key, AS policy, hold time, protocols and add-path (`listen` and `name` are free). -/
def unconcerned (c new : Cfg) (s : Sess) : Prop :=
  new.asn = c.asn ∧ new.bgpid = c.bgpid ∧
    ∃ p p', get c.peers s.addr = some p ∧ get new.peers s.addr = some p' ∧ p'.key = p.key ∧
      p'.asns = p.asns ∧ p'.hold = p.hold ∧ p'.protos = p.protos ∧ p'.addpath = p.addpath

theorem fate_keep_of_unconcerned {v : Variant} {c new : Cfg} {s : Sess} (hs : SInv v c s) (hw : new.wf)
    (hu : unconcerned c new s) (hl : v.bgplisten = .repaired ∨ new.listen = c.listen) : fate v s new = .keep := by
  obtain ⟨cur, p, hcur, hsl, hsa, hsb, _, _, hget, hkey, has, hh, hp, hap⟩ := hs
  obtain ⟨ha, hb, q, q', hq, hq', hk', has', hh', hp', hap'⟩ := hu
  rw [hget] at hq
  cases hq
  have hm : mainEq v new s.ucfg = true := by
    rw [mainEq_iff]
    refine ⟨?_, by rw [ha, hsa], by rw [hb, hsb]⟩
    rcases hl with h | h
    · left; exact h
    · rcases hsl with h' | h'
      · left; exact h'
      · right; rw [h, h']
  have hpe : peerEq v q' cur = true := by
    rw [peerEq_iff]
    exact ⟨by rw [has', has], by rw [hh', hh], Or.inr ⟨by rw [hp', hp], by rw [hap', hap]⟩⟩
  have hex : getExact new.peers s.key = some q' := by
    have := getExact_of_get hw hq'
    rw [hk', hkey] at this
    exact this
  have hfp : fatePeer v s q' = .keep := by
    unfold fatePeer
    rw [hcur]
    simp [hpe]
  unfold fate
  rw [hm]
  simp only [if_true]
  cases hv : v.bgpmatch with
  | asWritten => simp only [hex]; exact hfp
  | repaired =>
    simp only [hq']
    have : (q'.key == s.key) = true := by simp [hk', hkey]
    simp only [this, if_true]
    exact hfp

/-- Under the invariant the `expect("must exist")` of the session's arm cannot fail. -/
theorem fate_ne_panic {v : Variant} {c : Cfg} {s : Sess} (hs : SInv v c s) (new : Cfg) : fate v s new ≠ .panic := by
  obtain ⟨cur, _, hcur, _⟩ := hs
  have hfp : ∀ np, fatePeer v s np ≠ .panic := by
    intro np
    unfold fatePeer
    rw [hcur]
    simp only
    split <;> simp
  unfold fate
  split
  · split
    · split
      · simp
      · exact hfp _
    · split
      · simp
      · split
        · exact hfp _
        · simp
  · simp

end Bgp

/-! ## file-out -/
namespace FileOut

theorem run_dead (v : Variant) (s : St) (hs : s.alive = false) (es : List Ev) : run v s es = s := by
  induction es with
  | nil => rfl
  | cons e es ih =>
    have : step v s e = s := by
      cases e with
      | emit r => simp [step, hs]
      | pass => rfl
      | reload b c =>
        cases hv : v.fileout <;> simp [step, hv, hs]
        cases s; simp_all
    simp only [run, this]; exact ih

/-- repaired: the log grows by exactly the reference output -/
theorem run_repaired_log (v : Variant) (hv : v.fileout = .repaired) (s : St) (hs : s.alive = true) (es : List Ev) :
    (run v s es).log = s.log ++ spec s.cfg es ∧ (run v s es).alive = true ∧ (run v s es).cfg = cfgAfter s.cfg es := by
  induction es generalizing s with
  | nil => simp [run, spec, cfgAfter, hs]
  | cons e es ih =>
    cases e with
    | emit r =>
      have := ih { s with log := s.log ++ [⟨s.cfg.file, s.cfg.fmt, r⟩] } hs
      simpa [run, step, hs, spec, cfgAfter] using this
    | pass => simpa [run, step, spec, cfgAfter] using ih s hs
    | reload b c =>
      have := ih { s with cfg := c } hs
      simpa [run, step, hv, hs, spec, cfgAfter] using this

/-- as written: everything up to the first reload, then nothing -/
theorem run_asWritten_log (v : Variant) (hv : v.fileout = .asWritten) (s : St) (hs : s.alive = true) (es : List Ev) :
    (run v s es).log = s.log ++ spec s.cfg (es.takeWhile (fun e => !isReload e)) := by
  induction es generalizing s with
  | nil => simp [run, spec]
  | cons e es ih =>
    cases e with
    | emit r =>
      have := ih { s with log := s.log ++ [⟨s.cfg.file, s.cfg.fmt, r⟩] } hs
      simpa [run, step, hs, spec, isReload, List.takeWhile] using this
    | pass => simpa [run, step, spec, isReload, List.takeWhile] using ih s hs
    | reload b c =>
      simp only [run, step, hv, isReload, List.takeWhile, Bool.not_true, spec, List.append_nil]
      rw [run_dead v _ rfl]

theorem spec_append (c : Cfg) (a b : List Ev) : spec c (a ++ b) = spec c a ++ spec (cfgAfter c a) b := by
  induction a generalizing c with
  | nil => rfl
  | cons e a ih =>
    cases e with
    | emit r => simp [spec, cfgAfter, ih]
    | pass => simp [spec, cfgAfter, ih]
    | reload t c' => simp [spec, cfgAfter, ih]

theorem takeWhile_no_reload (es : List Ev) (h : ∀ e ∈ es, isReload e = false) :
    es.takeWhile (fun e => !isReload e) = es := by
  induction es with
  | nil => rfl
  | cons e es ih =>
    have he : isReload e = false := h e (List.mem_cons_self)
    simp only [List.takeWhile, he, Bool.not_false]
    rw [ih (fun x hx => h x (List.mem_cons_of_mem _ hx))]

/-- the records a history emits, in order -/
def emitted : List Ev → List Nat
  | [] => []
  | .emit r :: es => r :: emitted es
  | _ :: es => emitted es

theorem spec_records (c : Cfg) (es : List Ev) : (spec c es).map (·.r) = emitted es := by
  induction es generalizing c with
  | nil => rfl
  | cons e es ih => cases e <;> simp [spec, emitted, ih]

theorem step_log_prefix (v : Variant) (s : St) (e : Ev) : s.log <+: (step v s e).log := by
  cases e with
  | emit r =>
    simp only [step]
    split
    · exact List.prefix_append _ _
    · exact List.prefix_refl _
  | pass => exact List.prefix_refl _
  | reload b c =>
    simp only [step]
    split
    · exact List.prefix_refl _
    · split <;> exact List.prefix_refl _

end FileOut

/-! ## filter -/
namespace Filter

theorem mem_tagged (l : List Nat) (u g : Nat) : (u, g) ∈ l.map (·, g) ↔ u ∈ l := by
  simp

/-- the links held are those of the configuration in force, at the generation in force -/
def Wired (c : Cfg) (s : St) : Prop := s.sources = c.sources.map (·, s.gen) ∧ s.name = c.name

theorem run_spec (c : Cfg) (s : St) (hw : Wired c s) (es : List Ev) :
    (run s es).out = s.out ++ spec c es ∧ Wired (cfgAfter c es) (run s es) := by
  induction es generalizing c s with
  | nil => simp [run, spec, cfgAfter, hw]
  | cons e es ih =>
    cases e with
    | eos u t =>
      have hc : (u, s.gen) ∈ s.sources ↔ u ∈ c.sources := by rw [hw.1]; exact mem_tagged _ _ _
      by_cases h : u ∈ c.sources
      · have := ih c { s with out := s.out ++ [t] } ⟨hw.1, hw.2⟩
        simpa [run, step, hc, h, spec, cfgAfter] using this
      · have := ih c s hw
        simpa [run, step, hc, h, spec, cfgAfter] using this
    | reload c' =>
      have := ih c' { s with name := c'.name, gen := s.gen + 1, sources := c'.sources.map (·, s.gen + 1) } ⟨rfl, rfl⟩
      simpa [run, step, spec, cfgAfter] using this

theorem spec_append (c : Cfg) (a b : List Ev) : spec c (a ++ b) = spec c a ++ spec (cfgAfter c a) b := by
  induction a generalizing c with
  | nil => rfl
  | cons e a ih =>
    cases e with
    | eos u t => by_cases h : u ∈ c.sources <;> simp [spec, cfgAfter, ih, h]
    | reload c' => simp [spec, cfgAfter, ih]

end Filter

/-! ## null-out -/
namespace NullOut

theorem run_sources (srcs : List Nat) (s : St) (hs : s.sources = srcs.map (·, s.gen)) (es : List Ev) :
    (run s es).sources = (lastSources srcs es).map (·, s.gen + loads es) ∧ (run s es).gen = s.gen + loads es := by
  induction es generalizing srcs s with
  | nil => simp [run, lastSources, loads, hs]
  | cons e es ih =>
    cases e with
    | report => simpa [run, step, lastSources, loads] using ih srcs s hs
    | reload s' =>
      have := ih s' { sources := s'.map (·, s.gen + 1), gen := s.gen + 1 } rfl
      dsimp only at this
      simp only [run, step, lastSources, loads]
      rw [this.1, this.2, show s.gen + 1 + loads es = s.gen + (loads es + 1) by omega]
      exact ⟨rfl, rfl⟩

end NullOut

/-! ## mrt-file-in -/
namespace Mrt

theorem filter_not_contains_self (l : List Nat) : l.filter (fun f => !l.contains f) = [] := by
  apply List.filter_eq_nil_iff.mpr
  intro a ha
  simp [ha]

/-- what the endpoint does with the requests of a history when its directory never changes -/
def frozen (d : Option Nat) : List Ev → List (Option Nat × Nat)
  | [] => []
  | .api n :: es => (match d with | none => [] | some d => [(some d, n)]) ++ frozen d es
  | .reload _ :: es => frozen d es

theorem run_asWritten (v : Variant) (hv : v.mrt = .asWritten) (s : St) (es : List Ev) :
    (run v s es).processed = s.processed ++ frozen s.apidir es := by
  induction es generalizing s with
  | nil => simp [run, frozen]
  | cons e es ih =>
    cases e with
    | api n =>
      cases hd : s.apidir with
      | none => simpa [run, step, hd, frozen] using ih s
      | some d =>
        have := ih { s with processed := s.processed ++ [(some d, n)] }
        simpa [run, step, hd, frozen] using this
    | reload c => simpa [run, step, hv, frozen] using ih s

theorem run_repaired (v : Variant) (hv : v.mrt = .repaired) (s : St) (hs : s.apidir = s.cfg.updir) (es : List Ev) :
    (run v s es).processed = s.processed ++ spec s.cfg es := by
  induction es generalizing s with
  | nil => simp [run, spec]
  | cons e es ih =>
    cases e with
    | api n =>
      cases hd : s.cfg.updir with
      | none =>
        have := ih s hs
        simpa [run, step, hs, hd, spec] using this
      | some d =>
        have := ih { s with processed := s.processed ++ [(some d, n)] } hs
        simpa [run, step, hs, hd, spec] using this
    | reload c =>
      have := ih { cfg := c, apidir := c.updir,
                   processed := s.processed ++ (c.files.filter (fun f => !s.cfg.files.contains f)).map (none, ·) } rfl
      simpa [run, step, hv, spec] using this

/-- a history whose reloads all carry the configuration `c` -/
def onlyIdentical (c : Cfg) : List Ev → Prop
  | [] => True
  | .reload c' :: es => c' = c ∧ onlyIdentical c es
  | _ :: es => onlyIdentical c es

theorem spec_eq_frozen (c : Cfg) (es : List Ev) (h : onlyIdentical c es) : spec c es = frozen c.updir es := by
  induction es with
  | nil => rfl
  | cons e es ih =>
    cases e with
    | api n =>
      have := ih h
      cases hd : c.updir <;> simp_all [spec, frozen]
    | reload c' =>
      obtain ⟨rfl, h'⟩ := h
      simp [spec, frozen, ih h']

theorem step_processed_prefix (v : Variant) (s : St) (e : Ev) : s.processed <+: (step v s e).1.processed := by
  cases e with
  | api n =>
    simp only [step]
    split
    · exact List.prefix_refl _
    · exact List.prefix_append _ _
  | reload c =>
    simp only [step]
    split
    · exact List.prefix_refl _
    · exact List.prefix_append _ _

end Mrt

/-! ## bmp-tcp-in (all settings) -/
namespace BmpIn

/-- listener on the configured address; every router page under the unit's path -/
def Inv (s : St) : Prop := s.bound = s.cfg.listen ∧ ∀ r ∈ s.routers, r.page = s.cfg.path

theorem inv_init (c : Cfg) : Inv (init c) := ⟨rfl, by intro r hr; cases hr⟩

theorem conn_inv {s : St} (hi : Inv s) (slot : Nat) : Inv (conn s slot).1 := by
  unfold conn
  split
  · exact hi
  · refine ⟨hi.1, ?_⟩
    intro r hr
    simp only [List.mem_append, List.mem_singleton] at hr
    rcases hr with h | h
    · exact hi.2 r h
    · subst h; rfl

theorem inv_map {s : St} (hi : Inv s) (f : Router → Router) (hf : ∀ x, (f x).page = x.page)
    (tn : Nat) (sn : List (Nat × Nat)) :
    Inv { s with routers := s.routers.map f, tnext := tn, seen := sn } := by
  refine ⟨hi.1, ?_⟩
  intro r hr
  simp only [List.mem_map] at hr
  obtain ⟨x, hx, rfl⟩ := hr
  rw [hf]; exact hi.2 x hx

theorem initMsg_inv {v : Variant} {s : St} (hi : Inv s) (k t : Nat) : Inv (initMsg v s k t).1 := by
  unfold initMsg
  cases s.routers.find? (·.conn == k) with
  | none => exact hi
  | some r =>
    simp only
    split <;>
      first
      | exact inv_map hi (fun x => if x.conn == k then { x with readMode := s.cfg.mode } else x)
          (by intro x; split <;> rfl) _ _
      | exact inv_map hi (fun x => if x.conn == k then { x with readMode := s.cfg.mode, tmpl := s.cfg.tmpl } else x)
          (by intro x; split <;> rfl) _ _

theorem close_inv {s : St} (hi : Inv s) (k : Nat) : Inv (close s k).1 := by
  unfold close
  split
  · exact hi
  · exact ⟨hi.1, fun r hr => hi.2 r (List.mem_filter.mp hr).1⟩

theorem reload_inv {v : Variant} {s : St} (hi : Inv s) (c : Cfg) : Inv (reload v s c).1 := by
  unfold reload
  split
  · exact ⟨rfl, fun r hr => hi.2 r hr⟩
  · refine ⟨rfl, ?_⟩
    intro r hr
    simp only [List.mem_map] at hr
    obtain ⟨x, _, rfl⟩ := hr
    rfl

theorem step_inv {v : Variant} {s : St} (hi : Inv s) (e : Ev) : Inv (step v s e).1 := by
  cases e with
  | conn slot => exact conn_inv hi slot
  | init k t => exact initMsg_inv hi k t
  | close k => exact close_inv hi k
  | reload c => exact reload_inv hi c

theorem run_inv {v : Variant} {s : St} (hi : Inv s) (es : List Ev) : Inv (run v s es) := by
  induction es generalizing s with
  | nil => exact hi
  | cons e es ih => exact ih (step_inv hi e)

/-- only a reload touches the stored configuration -/
theorem step_cfg_of_not_reload {v : Variant} {s : St} {e : Ev} (h : ∀ c, e ≠ .reload c) : (step v s e).1.cfg = s.cfg := by
  cases e with
  | conn slot => simp only [step, conn]; split <;> rfl
  | init k t =>
    simp only [step, initMsg]
    split
    · rfl
    · split <;> rfl
  | close k => simp only [step, close]; split <;> rfl
  | reload c => exact absurd rfl (h c)

def withPath (p : Nat) (c : Cfg) : Cfg := { c with path := p }

theorem withPath_lastCfg (p : Nat) (c : Cfg) (es : List Ev) :
    withPath p (lastCfg (withPath p c) es) = withPath p (lastCfg c es) := by
  induction es generalizing c with
  | nil => rfl
  | cons e es ih =>
    cases e with
    | reload c' => rfl
    | conn slot => exact ih c
    | init k t => exact ih c
    | close k => exact ih c

/-- the stored configuration after a history: the last reload's, with the start path as written -/
theorem run_cfg (v : Variant) (s : St) (es : List Ev) :
    (run v s es).cfg = match v.bmppath with
      | .asWritten => withPath s.cfg.path (lastCfg s.cfg es)
      | .repaired => lastCfg s.cfg es := by
  induction es generalizing s with
  | nil => cases v.bmppath <;> simp [run, lastCfg, withPath]
  | cons e es ih =>
    cases e with
    | reload c =>
      rw [run, ih]
      cases hv : v.bmppath
      · simp only [step, reload, hv, lastCfg]
        exact withPath_lastCfg s.cfg.path c es
      · simp [step, reload, hv, lastCfg]
    | conn slot =>
      rw [run, ih, step_cfg_of_not_reload (by intro c h; cases h)]; cases v.bmppath <;> simp [lastCfg]
    | init k t =>
      rw [run, ih, step_cfg_of_not_reload (by intro c h; cases h)]; cases v.bmppath <;> simp [lastCfg]
    | close k =>
      rw [run, ih, step_cfg_of_not_reload (by intro c h; cases h)]; cases v.bmppath <;> simp [lastCfg]

end BmpIn

end Rotonda.ReconfUnits
