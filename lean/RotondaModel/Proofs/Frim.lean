import RotondaModel.Model.Frim
/-! Helper lemmas for `Props/C18.lean`. Core Lean only. -/
namespace Rotonda.Frim

theorem removeFirst_of_lookup_none {k : Nat} {m : Map} (h : lookup k m = none) :
    removeFirst k m = m := by
  induction m with
  | nil => rfl
  | cons e m ih =>
    simp only [lookup] at h
    split at h
    · cases h
    · rename_i hne
      simp only [removeFirst, hne, if_false, ih h]

theorem replay_append (m : Map) (l : List (Nat × Op × Ret)) (i : Nat) (op : Op) (r : Ret) :
    replay m (l ++ [(i, op, r)]) =
      (replay m l).bind (fun m' => if (seqStep m' op).2 = r then some (seqStep m' op).1 else none) := by
  induction l generalizing m with
  | nil => simp [replay]
  | cons x l ih =>
    obtain ⟨j, op', r'⟩ := x
    simp only [List.cons_append, replay]
    split
    · exact ih _
    · rfl

theorem getD_append_left {α} (l : List α) (x d : α) (n : Nat) (h : n < l.length) :
    (l ++ [x]).getD n d = l.getD n d := by
  simp [List.getD, List.getElem?_append_left h]

theorem getD_append_length {α} (l : List α) (x d : α) :
    (l ++ [x]).getD l.length d = x := by
  simp [List.getD]

/-- The ops that go through `rcu`. -/
def Op.isRcu : Op → Bool
  | .ins _ _ | .rem _ | .retain _ => true
  | _ => false

/-- With `found` reset per closure run, one closure run on the current content
    is exactly the sequential step. -/
theorem closure_repaired_eq_seq (m : Map) (op : Op) (found : Option Nat) (h : Op.isRcu op = true) :
    seqStep m op = ((closure repaired m op found).1, retOf op (closure repaired m op found).2) := by
  cases op with
  | ins k v => simp [seqStep, closure, retOf]
  | retain p => simp [seqStep, closure, retOf]
  | rem k =>
    simp only [seqStep, closure, repaired, retOf]
    cases hl : lookup k m with
    | none => simp [removeFirst_of_lookup_none hl]
    | some x => simp
  | get k => cases h
  | replace m' => cases h
  | len => cases h
  | iter => cases h

/-! ### Sequential facts used for "an entry is handed to exactly one remover" -/

def KeysNodup (m : Map) : Prop := (m.map (·.1)).Nodup

theorem lookup_none_iff {k : Nat} {m : Map} : lookup k m = none ↔ k ∉ m.map (·.1) := by
  induction m with
  | nil => simp [lookup]
  | cons e m ih =>
    simp only [lookup, List.map_cons, List.mem_cons, not_or]
    split
    · rename_i h; simp [h]
    · rename_i h
      rw [ih]
      constructor
      · intro hm; exact ⟨fun hk => h hk.symm, hm⟩
      · intro hm; exact hm.2

theorem lookup_filter_ne {k k' : Nat} (h : k ≠ k') (m : Map) :
    lookup k (m.filter (fun e => e.1 != k')) = lookup k m := by
  induction m with
  | nil => rfl
  | cons e m ih =>
    by_cases he : e.1 = k'
    · have : (e.1 != k') = false := by simp [he]
      simp only [List.filter_cons, this, lookup]
      have hne : ¬ e.1 = k := by intro hk; exact h (hk ▸ he)
      simp [hne, ih]
    · have : (e.1 != k') = true := by simp [he]
      simp only [List.filter_cons, this, if_true, lookup, ih]

theorem lookup_append (k : Nat) (m m' : Map) :
    lookup k (m ++ m') = (lookup k m).orElse (fun _ => lookup k m') := by
  induction m with
  | nil => simp [lookup]
  | cons e m ih =>
    simp only [List.cons_append, lookup]
    split
    · simp
    · exact ih

theorem lookup_filter_self (k : Nat) (m : Map) :
    lookup k (m.filter (fun e => e.1 != k)) = none := by
  rw [lookup_none_iff]
  simp [List.mem_map, List.mem_filter]

theorem lookup_insertKV_self (k v : Nat) (m : Map) : lookup k (insertKV k v m) = some v := by
  simp [insertKV, lookup_append, lookup_filter_self, lookup]

theorem lookup_insertKV_ne {k k' : Nat} (h : k ≠ k') (v : Nat) (m : Map) :
    lookup k (insertKV k' v m) = lookup k m := by
  have hne : ¬ k' = k := fun e => h e.symm
  simp only [insertKV, lookup_append, lookup_filter_ne h, lookup, hne, if_false]
  cases lookup k m <;> rfl

theorem keysNodup_filter {m : Map} (p : Nat × Nat → Bool) (h : KeysNodup m) :
    KeysNodup (m.filter p) := by
  unfold KeysNodup at *
  exact List.Nodup.sublist (List.Sublist.map _ List.filter_sublist) h

theorem keysNodup_insertKV {m : Map} (k v : Nat) (h : KeysNodup m) : KeysNodup (insertKV k v m) := by
  unfold KeysNodup insertKV
  rw [List.map_append, List.nodup_append]
  refine ⟨keysNodup_filter _ h, by simp, ?_⟩
  intro a ha b hb
  simp only [List.map_cons, List.map_nil, List.mem_singleton] at hb
  subst hb
  simp only [List.mem_map, List.mem_filter] at ha
  obtain ⟨e, ⟨_, hne⟩, rfl⟩ := ha
  simpa using hne

theorem removeFirst_sublist (k : Nat) (m : Map) : (removeFirst k m).Sublist m := by
  induction m with
  | nil => exact List.Sublist.refl _
  | cons e m ih =>
    simp only [removeFirst]
    split
    · exact List.sublist_cons_self e m
    · exact ih.cons_cons e

theorem keysNodup_removeFirst {m : Map} (k : Nat) (h : KeysNodup m) : KeysNodup (removeFirst k m) := by
  unfold KeysNodup at *
  exact List.Nodup.sublist (List.Sublist.map _ (removeFirst_sublist k m)) h

theorem lookup_removeFirst_self {m : Map} (k : Nat) (h : KeysNodup m) :
    lookup k (removeFirst k m) = none := by
  induction m with
  | nil => rfl
  | cons e m ih =>
    unfold KeysNodup at h
    simp only [List.map_cons, List.nodup_cons] at h
    simp only [removeFirst]
    split
    · rename_i he
      rw [lookup_none_iff]; rw [← he]; exact h.1
    · rename_i he
      simp only [lookup, he, if_false]
      exact ih h.2

theorem lookup_removeFirst_ne {k k' : Nat} (h : k ≠ k') (m : Map) :
    lookup k (removeFirst k' m) = lookup k m := by
  induction m with
  | nil => rfl
  | cons e m ih =>
    simp only [removeFirst]
    split
    · rename_i he
      have : ¬ e.1 = k := by intro hk; exact h (hk ▸ he)
      simp [lookup, this]
    · simp only [lookup, ih]

end Rotonda.Frim
