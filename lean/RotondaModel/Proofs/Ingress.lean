import RotondaModel.Model.Ingress
/-! Helper lemmas for C14 (`Props/C14.lean`): association-list facts, the no-wrap counter,
    and the invariant of disciplined histories. Core Lean only. -/
namespace Rotonda.Ingress

/-! ### association list -/

theorem erase_cons (id : Nat) (e : Nat × Info) (t : Table) :
    erase id (e :: t) = if e.1 = id then erase id t else e :: erase id t := by
  by_cases h : e.1 = id <;> simp [erase, h]

theorem lookup_erase_self (id : Nat) (t : Table) : lookup id (erase id t) = none := by
  induction t with
  | nil => rfl
  | cons e t ih =>
    rw [erase_cons]
    by_cases h : e.1 = id
    · simp only [h, if_true]; exact ih
    · simp only [h, if_false, lookup]; exact ih

theorem lookup_erase_ne {id id' : Nat} (h : id' ≠ id) (t : Table) :
    lookup id' (erase id t) = lookup id' t := by
  induction t with
  | nil => rfl
  | cons e t ih =>
    rw [erase_cons]
    by_cases he : e.1 = id
    · have hne : ¬ e.1 = id' := by omega
      simp only [he, if_true, lookup]
      rw [if_neg (by omega)]
      exact ih
    · by_cases he' : e.1 = id'
      · rw [if_neg he]; simp only [lookup]; rw [if_pos he', if_pos he']
      · simp only [he, if_false, lookup, he']; exact ih

theorem lookup_append (id : Nat) (a b : Table) :
    lookup id (a ++ b) = match lookup id a with | some v => some v | none => lookup id b := by
  induction a with
  | nil => rfl
  | cons e a ih =>
    by_cases h : e.1 = id
    · simp [lookup, h]
    · simp [lookup, h, ih]

theorem lookup_insert_self (id : Nat) (v : Info) (t : Table) : lookup id (insert id v t) = some v := by
  simp [insert, lookup_append, lookup_erase_self, lookup]

theorem lookup_insert_ne {id id' : Nat} (h : id' ≠ id) (v : Info) (t : Table) :
    lookup id' (insert id v t) = lookup id' t := by
  have h2 : ¬ id = id' := fun e => h e.symm
  simp only [insert, lookup_append, lookup_erase_ne h, lookup, h2, if_false]
  cases lookup id' t <;> rfl

theorem mem_erase {e : Nat × Info} {id : Nat} {t : Table} : e ∈ erase id t ↔ e ∈ t ∧ e.1 ≠ id := by
  simp [erase]

theorem mem_insert {e : Nat × Info} {id : Nat} {v : Info} {t : Table} :
    e ∈ insert id v t ↔ (e ∈ t ∧ e.1 ≠ id) ∨ e = (id, v) := by
  simp [insert, mem_erase]

theorem erase_erase (id : Nat) (t : Table) : erase id (erase id t) = erase id t := by
  simp [erase, List.filter_filter]

theorem insert_erase (id : Nat) (v : Info) (t : Table) : insert id v (erase id t) = insert id v t := by
  simp [insert, erase_erase]

/-- `HashMap` keys are unique. -/
def NodupKeys (t : Table) : Prop := (t.map (·.1)).Nodup

theorem nodupKeys_erase {t : Table} (id : Nat) (h : NodupKeys t) : NodupKeys (erase id t) := by
  unfold NodupKeys erase at *
  exact (List.filter_sublist.map _).nodup h

theorem nodupKeys_insert {t : Table} (id : Nat) (v : Info) (h : NodupKeys t) : NodupKeys (insert id v t) := by
  have h1 := nodupKeys_erase id h
  unfold NodupKeys insert at *
  rw [List.map_append, List.nodup_append]
  refine ⟨h1, by simp, ?_⟩
  intro a ha b hb
  simp only [List.map_cons, List.map_nil, List.mem_singleton] at hb
  subst hb
  simp only [List.mem_map] at ha
  obtain ⟨e, he, rfl⟩ := ha
  exact (mem_erase.mp he).2

theorem lookup_of_mem {t : Table} (h : NodupKeys t) {id : Nat} {i : Info} (hm : (id, i) ∈ t) :
    lookup id t = some i := by
  induction t with
  | nil => cases hm
  | cons e t ih =>
    unfold NodupKeys at h
    simp only [List.map_cons, List.nodup_cons] at h
    rcases List.mem_cons.mp hm with rfl | hm'
    · simp [lookup]
    · have hne : e.1 ≠ id := by
        intro heq
        apply h.1
        rw [heq]
        exact List.mem_map.mpr ⟨(id, i), hm', rfl⟩
      simp only [lookup, hne, if_false]
      exact ih h.2 hm'

theorem mem_of_lookup {t : Table} {id : Nat} {i : Info} (h : lookup id t = some i) : (id, i) ∈ t := by
  induction t with
  | nil => cases h
  | cons e t ih =>
    by_cases he : e.1 = id
    · simp only [lookup, he, if_true, Option.some.injEq] at h
      subst h; subst he
      exact List.mem_cons_self
    · simp only [lookup, he, if_false] at h
      exact List.mem_cons_of_mem _ (ih h)

theorem lookup_none_of_not_key {t : Table} {id : Nat} (h : ∀ e ∈ t, e.1 ≠ id) : lookup id t = none := by
  induction t with
  | nil => rfl
  | cons e t ih =>
    have := h e List.mem_cons_self
    simp only [lookup, this, if_false]
    exact ih (fun e' he' => h e' (List.mem_cons_of_mem _ he'))

/-! ### update_info -/

theorem updateInfo_serial (r : Register) (id : Nat) (new : Info) : (updateInfo r id new).serial = r.serial := by
  unfold updateInfo; split <;> rfl

/-- The table after `update_info`, in one formula. -/
theorem updateInfo_info (r : Register) (id : Nat) (new : Info) :
    (updateInfo r id new).info =
      insert id (match lookup id r.info with | some old => old.merge new | none => new) r.info := by
  unfold updateInfo
  split <;> rename_i h <;> simp [h, insert_erase]

theorem nodupKeys_updateInfo {r : Register} (id : Nat) (new : Info) (h : NodupKeys r.info) :
    NodupKeys (updateInfo r id new).info := by
  rw [updateInfo_info]; exact nodupKeys_insert _ _ h

/-! ### steps and histories -/

theorem step_nodupKeys (M : Nat) {r : Register} (op : Op) (h : NodupKeys r.info) :
    NodupKeys (step M r op).1.info := by
  cases op with
  | reg => exact h
  | upd id i => exact nodupKeys_updateInfo id i h
  | get id => exact h
  | kids p => exact h
  | find lvl q hint => exact h
  | findOrReg lvl q hint =>
    simp only [step]
    split
    · exact h
    · exact nodupKeys_updateInfo _ _ h

theorem run_nodupKeys (M : Nat) (ops : List Op) : ∀ {r : Register}, NodupKeys r.info → NodupKeys (run M r ops).1.info := by
  induction ops with
  | nil => intro r h; exact h
  | cons op ops ih => intro r h; exact ih (step_nodupKeys M op h)

theorem run_append (M : Nat) (a b : List Op) : ∀ (r : Register),
    run M r (a ++ b) = ((run M (run M r a).1 b).1, (run M r a).2 ++ (run M (run M r a).1 b).2) := by
  induction a with
  | nil => intro r; rfl
  | cons op a ih => intro r; simp [run, ih]

theorem step_serial_of_not_allocates (M : Nat) (r : Register) (op : Op) (h : allocates r op = false) :
    (step M r op).1.serial = r.serial := by
  cases op with
  | reg => simp [allocates] at h
  | upd id i => exact updateInfo_serial r id i
  | get id => rfl
  | kids p => rfl
  | find lvl q hint => rfl
  | findOrReg lvl q hint =>
    simp only [allocates] at h
    simp only [step]
    split
    · rfl
    · rename_i hp; simp [hp] at h

theorem step_serial_of_allocates (M : Nat) (r : Register) (op : Op) (h : allocates r op = true) :
    (step M r op).1.serial = (r.serial + 1) % M := by
  cases op with
  | reg => rfl
  | upd id i => simp [allocates] at h
  | get id => simp [allocates] at h
  | kids p => simp [allocates] at h
  | find lvl q hint => simp [allocates] at h
  | findOrReg lvl q hint =>
    simp only [allocates] at h
    simp only [step]
    split
    · rename_i hp; simp [hp] at h
    · simp [updateInfo_serial, register]

/-- Without wrap-around the ids handed out are consecutive, starting at the current counter. -/
theorem allocs_eq_range' (M : Nat) (ops : List Op) : ∀ (r : Register) (n : Nat),
    (allocs M r ops).length = n → r.serial + n ≤ M → allocs M r ops = List.range' r.serial n := by
  induction ops with
  | nil => intro r n hn _; simp [allocs] at hn; subst hn; rfl
  | cons op ops ih =>
    intro r n hn hM
    simp only [allocs] at hn ⊢
    by_cases ha : allocates r op = true
    · simp only [ha, if_true, List.length_append, List.length_cons, List.length_nil] at hn ⊢
      obtain ⟨k, rfl⟩ : ∃ k, n = k + 1 := ⟨(allocs M (step M r op).1 ops).length, by omega⟩
      have hlen : (allocs M (step M r op).1 ops).length = k := by omega
      have hs := step_serial_of_allocates M r op ha
      by_cases hk : k = 0
      · subst hk
        have : allocs M (step M r op).1 ops = [] := List.length_eq_zero_iff.mp hlen
        simp [this, List.range']
      · have hlt : r.serial + 1 < M := by omega
        have hs' : (step M r op).1.serial = r.serial + 1 := by rw [hs]; exact Nat.mod_eq_of_lt hlt
        have := ih (step M r op).1 k hlen (by omega)
        rw [this, hs']
        simp [List.range'_succ]
    · have ha' : allocates r op = false := by simpa using ha
      simp only [ha', Bool.false_eq_true, if_false, List.nil_append] at hn ⊢
      have hs := step_serial_of_not_allocates M r op ha'
      have := ih (step M r op).1 n hn (by omega)
      rw [this, hs]

/-- Every id a `register()` call returned is one of the allocated ids, in order. -/
theorem regRets_sublist_allocs (M : Nat) (ops : List Op) : ∀ (r : Register),
    (regRets ops (run M r ops).2).Sublist (allocs M r ops) := by
  induction ops with
  | nil => intro r; simp [regRets]
  | cons op ops ih =>
    intro r
    cases op with
    | reg =>
      simp only [run, step, register, regRets, allocs, allocates, if_true, List.singleton_append]
      exact (ih _).cons_cons _
    | upd id i =>
      simp only [run, step, regRets, allocs, allocates, Bool.false_eq_true, if_false, List.nil_append]
      exact ih _
    | get id =>
      simp only [run, step, regRets, allocs, allocates, Bool.false_eq_true, if_false, List.nil_append]
      exact ih _
    | kids p =>
      simp only [run, step, regRets, allocs, allocates, Bool.false_eq_true, if_false, List.nil_append]
      exact ih _
    | find lvl q hint =>
      simp only [run, step, regRets, allocs, allocates, Bool.false_eq_true, if_false, List.nil_append]
      exact ih _
    | findOrReg lvl q hint =>
      simp only [run, regRets, allocs]
      split
      · exact (ih _).trans (List.sublist_append_right _ _)
      · exact ih _

/-! ### merges -/

def regCount (ops : List Op) : Nat := (ops.filter (fun o => o matches .reg | .findOrReg ..)).length

theorem allocs_length_le (M : Nat) (ops : List Op) : ∀ (r : Register), (allocs M r ops).length ≤ regCount ops := by
  induction ops with
  | nil => intro r; simp [allocs, regCount]
  | cons op ops ih =>
    intro r
    have := ih (step M r op).1
    cases op <;> simp [allocs, allocates, regCount] at this ⊢ <;> try omega
    split <;> simp <;> omega

/-! ### identities -/

/-- The identity fields: the ones `find_existing_*` look at. -/
def Info.metaOnly (i : Info) : Prop := i.parent = none ∧ i.addr = none ∧ i.asn = none ∧ i.ribType = none

instance (i : Info) : Decidable i.metaOnly := by unfold Info.metaOnly; exact inferInstance

theorem matchesLvl_merge_meta (lvl : Level) (q o i : Info) (h : i.metaOnly) :
    matchesLvl lvl q (o.merge i) = matchesLvl lvl q o := by
  obtain ⟨h1, h2, h3, h4⟩ := h
  cases lvl <;> simp [matchesLvl, Info.merge, updField, h1, h2, h3, h4]

theorem matchesLvl_merge_meta_left (lvl : Level) (o i s : Info) (h : i.metaOnly) :
    matchesLvl lvl (o.merge i) s = matchesLvl lvl o s := by
  obtain ⟨h1, h2, h3, h4⟩ := h
  cases lvl <;> simp [matchesLvl, Info.merge, updField, h1, h2, h3, h4]

theorem matchesLvl_meta_stored (lvl : Level) (q i : Info) (h : i.metaOnly) : matchesLvl lvl q i = false := by
  obtain ⟨h1, _, _, _⟩ := h
  cases lvl <;> simp [matchesLvl, h1]

theorem matchesLvl_symm (lvl : Level) (a b : Info) (h : matchesLvl lvl a b = true) : matchesLvl lvl b a = true := by
  cases lvl <;> simp only [matchesLvl, Bool.and_eq_true, beq_iff_eq] at h ⊢
  · obtain ⟨⟨⟨⟨⟨⟨h1, h2⟩, h3⟩, h4⟩, h5⟩, h6⟩, h7⟩ := h
    rw [← h4, ← h5, ← h6, ← h7]; simp [h1, h2, h3]
  · obtain ⟨⟨⟨h1, h2⟩, h3⟩, h4⟩ := h
    rw [← h3, ← h4]; simp [h1, h2]

theorem matchesLvl_trans (lvl : Level) (q a b : Info) (h1 : matchesLvl lvl q a = true) (h2 : matchesLvl lvl q b = true) :
    matchesLvl lvl a b = true := by
  cases lvl <;> simp only [matchesLvl, Bool.and_eq_true, beq_iff_eq] at h1 h2 ⊢
  · obtain ⟨⟨⟨⟨⟨⟨_, _⟩, _⟩, a4⟩, a5⟩, a6⟩, a7⟩ := h1
    obtain ⟨⟨⟨⟨⟨⟨b1, b2⟩, b3⟩, b4⟩, b5⟩, b6⟩, b7⟩ := h2
    rw [a4, a5, a6, a7]; exact ⟨⟨⟨⟨⟨⟨b1, b2⟩, b3⟩, b4⟩, b5⟩, b6⟩, b7⟩
  · obtain ⟨⟨⟨_, _⟩, a3⟩, a4⟩ := h1
    obtain ⟨⟨⟨b1, b2⟩, b3⟩, b4⟩ := h2
    rw [a3, a4]; exact ⟨⟨⟨b1, b2⟩, b3⟩, b4⟩

/-- One id per identity: two stored entries that match each other are the same entry. -/
def Unique (lvl : Level) (t : Table) : Prop :=
  ∀ e1 ∈ t, ∀ e2 ∈ t, matchesLvl lvl e1.2 e2.2 = true → e1.1 = e2.1

theorem pick_mem {c : Table} {hint : Option Nat} {e : Nat × Info} (h : pick c hint = some e) : e ∈ c := by
  unfold pick at h
  split at h
  · split at h
    · rename_i hl; cases h; exact mem_of_lookup hl
    · exact List.mem_of_mem_head? h
  · exact List.mem_of_mem_head? h

theorem pick_none {c : Table} {hint : Option Nat} (h : pick c hint = none) : c = [] := by
  unfold pick at h
  split at h
  · split at h
    · cases h
    · exact List.head?_eq_none_iff.mp h
  · exact List.head?_eq_none_iff.mp h

theorem pick_isSome_of_ne_nil {c : Table} (hint : Option Nat) (h : c ≠ []) : ∃ e, pick c hint = some e := by
  cases hp : pick c hint with
  | some e => exact ⟨e, rfl⟩
  | none => exact absurd (pick_none hp) h

/-! ### disciplined histories: identities enter only through find-else-register -/

/-- Is `op` allowed in state `r`?  `update_info` only for ids already handed out and only with
    metadata (no identity field); find-else-register only at the level under consideration. -/
def okOp (lvl : Level) (r : Register) : Op → Bool
  | .upd id i => decide (id < r.serial) && decide i.metaOnly
  | .findOrReg l _ _ => l == lvl
  | _ => true

def disciplined (lvl : Level) (M : Nat) (r : Register) : List Op → Bool
  | [] => true
  | op :: ops => okOp lvl r op && disciplined lvl M (step M r op).1 ops

structure Inv (lvl : Level) (r : Register) : Prop where
  nodup : NodupKeys r.info
  keysLt : ∀ e ∈ r.info, e.1 < r.serial
  unique : Unique lvl r.info

theorem inv_new (lvl : Level) : Inv lvl Register.new :=
  ⟨by simp [NodupKeys, Register.new], by simp [Register.new], by simp [Unique, Register.new]⟩

/-- Inserting under `id` a value that matches exactly like the entry it replaces (or like nothing). -/
theorem unique_insert {lvl : Level} {t : Table} {id : Nat} {v : Info} (hu : Unique lvl t)
    (hv : ∀ e ∈ t, (matchesLvl lvl v e.2 = true ∨ matchesLvl lvl e.2 v = true) → e.1 = id) :
    Unique lvl (insert id v t) := by
  intro e1 h1 e2 h2 hm
  rcases mem_insert.mp h1 with ⟨h1, _⟩ | rfl <;> rcases mem_insert.mp h2 with ⟨h2, _⟩ | rfl
  · exact hu e1 h1 e2 h2 hm
  · exact hv e1 h1 (Or.inr hm)
  · exact (hv e2 h2 (Or.inl hm)).symm
  · rfl

/-- An entry with the identity `q` asked for survives: same id, still matching. -/
def Persists (lvl : Level) (r r' : Register) : Prop :=
  ∀ id i q, (id, i) ∈ r.info → matchesLvl lvl q i = true → ∃ i', (id, i') ∈ r'.info ∧ matchesLvl lvl q i' = true

theorem persists_refl (lvl : Level) (r : Register) : Persists lvl r r := fun _ i _ h hm => ⟨i, h, hm⟩

theorem persists_trans {lvl : Level} {a b c : Register} (h1 : Persists lvl a b) (h2 : Persists lvl b c) :
    Persists lvl a c := by
  intro id i q h hm
  obtain ⟨i', h', hm'⟩ := h1 id i q h hm
  exact h2 id i' q h' hm'

theorem inv_upd {lvl : Level} {r : Register} {id : Nat} {i : Info} (inv : Inv lvl r)
    (hid : id < r.serial) (hmeta : i.metaOnly) :
    Inv lvl (updateInfo r id i) ∧ Persists lvl r (updateInfo r id i) := by
  have hinfo := updateInfo_info r id i
  refine ⟨⟨nodupKeys_updateInfo id i inv.nodup, ?_, ?_⟩, ?_⟩
  · intro e he
    rw [hinfo] at he
    rw [updateInfo_serial]
    rcases mem_insert.mp he with ⟨he, _⟩ | rfl
    · exact inv.keysLt e he
    · exact hid
  · rw [hinfo]
    apply unique_insert inv.unique
    intro e he hm
    cases hl : lookup id r.info with
    | none =>
      simp only [hl] at hm
      rcases hm with hm | hm
      · have := matchesLvl_symm _ _ _ hm
        rw [matchesLvl_meta_stored lvl e.2 i hmeta] at this; cases this
      · rw [matchesLvl_meta_stored lvl e.2 i hmeta] at hm; cases hm
    | some old =>
      simp only [hl] at hm
      have hold := mem_of_lookup hl
      rcases hm with hm | hm
      · rw [matchesLvl_merge_meta_left lvl old i e.2 hmeta] at hm
        exact (inv.unique (id, old) hold e he hm).symm
      · rw [matchesLvl_merge_meta lvl e.2 old i hmeta] at hm
        exact inv.unique e he (id, old) hold hm
  · intro id0 i0 q h0 hm
    rw [hinfo]
    by_cases hne : id0 = id
    · subst hne
      have hl := lookup_of_mem inv.nodup h0
      refine ⟨i0.merge i, mem_insert.mpr (Or.inr (by simp [hl])), ?_⟩
      rw [matchesLvl_merge_meta lvl q i0 i hmeta]; exact hm
    · exact ⟨i0, mem_insert.mpr (Or.inl ⟨h0, hne⟩), hm⟩

theorem inv_findOrReg_new {lvl : Level} {M : Nat} {r : Register} {q : Info} (inv : Inv lvl r)
    (hc : candidates lvl r q = []) (hM : r.serial + 1 < M) :
    Inv lvl (updateInfo (register M r).2 r.serial q)
    ∧ Persists lvl r (updateInfo (register M r).2 r.serial q)
    ∧ (r.serial, q) ∈ (updateInfo (register M r).2 r.serial q).info := by
  have hfresh : lookup r.serial r.info = none :=
    lookup_none_of_not_key (fun e he => Nat.ne_of_lt (inv.keysLt e he))
  have hinfo : (updateInfo (register M r).2 r.serial q).info = insert r.serial q r.info := by
    rw [updateInfo_info]; simp [register, hfresh]
  have hser : (updateInfo (register M r).2 r.serial q).serial = r.serial + 1 := by
    rw [updateInfo_serial]; simp [register, Nat.mod_eq_of_lt hM]
  have hnone : ∀ e ∈ r.info, matchesLvl lvl q e.2 = false := by
    intro e he
    cases hm : matchesLvl lvl q e.2 with
    | false => rfl
    | true =>
      have : e ∈ candidates lvl r q := by simp [candidates, he, hm]
      rw [hc] at this; cases this
  refine ⟨⟨?_, ?_, ?_⟩, ?_, ?_⟩
  · rw [hinfo]; exact nodupKeys_insert _ _ inv.nodup
  · intro e he
    rw [hinfo] at he; rw [hser]
    rcases mem_insert.mp he with ⟨he, _⟩ | rfl
    · exact Nat.lt_succ_of_lt (inv.keysLt e he)
    · exact Nat.lt_succ_self _
  · rw [hinfo]
    apply unique_insert inv.unique
    intro e he hm
    rcases hm with hm | hm
    · rw [hnone e he] at hm; cases hm
    · have := matchesLvl_symm _ _ _ hm
      rw [hnone e he] at this; cases this
  · intro id0 i0 q0 h0 hm
    rw [hinfo]
    exact ⟨i0, mem_insert.mpr (Or.inl ⟨h0, Nat.ne_of_lt (inv.keysLt _ h0)⟩), hm⟩
  · rw [hinfo]; exact mem_insert.mpr (Or.inr rfl)

theorem inv_step {lvl : Level} {M : Nat} {r : Register} {op : Op} (inv : Inv lvl r)
    (hok : okOp lvl r op = true) (hM : r.serial + 1 < M) :
    Inv lvl (step M r op).1 ∧ Persists lvl r (step M r op).1 := by
  cases op with
  | reg =>
    refine ⟨⟨inv.nodup, ?_, inv.unique⟩, persists_refl _ _⟩
    intro e he
    have := inv.keysLt e he
    simp only [step, register, Nat.mod_eq_of_lt hM]
    exact Nat.lt_succ_of_lt this
  | upd id i =>
    simp only [okOp, Bool.and_eq_true, decide_eq_true_eq] at hok
    exact inv_upd inv hok.1 hok.2
  | get id => exact ⟨inv, persists_refl _ _⟩
  | kids p => exact ⟨inv, persists_refl _ _⟩
  | find l q hint => exact ⟨inv, persists_refl _ _⟩
  | findOrReg l q hint =>
    simp only [okOp, beq_iff_eq] at hok
    subst hok
    simp only [step]
    split
    · exact ⟨inv, persists_refl _ _⟩
    · rename_i hp
      have := inv_findOrReg_new (q := q) inv (pick_none hp) hM
      exact ⟨this.1, this.2.1⟩

theorem step_serial_le (M : Nat) (r : Register) (op : Op) (hM : r.serial + 1 < M) :
    (step M r op).1.serial ≤ r.serial + (if (op matches .reg | .findOrReg ..) then 1 else 0) := by
  by_cases ha : allocates r op = true
  · rw [step_serial_of_allocates M r op ha, Nat.mod_eq_of_lt hM]
    cases op <;> simp [allocates] at ha ⊢
  · have ha' : allocates r op = false := by simpa using ha
    rw [step_serial_of_not_allocates M r op ha']
    omega

theorem regCount_cons (op : Op) (ops : List Op) :
    regCount (op :: ops) = (if (op matches .reg | .findOrReg ..) then 1 else 0) + regCount ops := by
  cases op <;> simp [regCount, List.filter_cons] <;> omega

theorem inv_run {lvl : Level} {M : Nat} (ops : List Op) : ∀ {r : Register}, Inv lvl r →
    disciplined lvl M r ops = true → r.serial + regCount ops + 1 < M →
    Inv lvl (run M r ops).1 ∧ Persists lvl r (run M r ops).1 := by
  induction ops with
  | nil => intro r inv _ _; exact ⟨inv, persists_refl _ _⟩
  | cons op ops ih =>
    intro r inv hd hM
    simp only [disciplined, Bool.and_eq_true] at hd
    rw [regCount_cons] at hM
    have hM1 : r.serial + 1 < M := by omega
    have h1 := inv_step (M := M) inv hd.1 hM1
    have hle := step_serial_le M r op hM1
    have h2 := ih h1.1 hd.2 (by omega)
    exact ⟨h2.1, persists_trans h1.2 h2.2⟩

/-- With one id per identity the lookup has exactly one possible answer, whatever the map order. -/
theorem pick_unique {lvl : Level} {r : Register} {q : Info} {id : Nat} {i : Info}
    (hn : NodupKeys r.info) (hu : Unique lvl r.info) (hmem : (id, i) ∈ r.info)
    (hm : matchesLvl lvl q i = true) (hint : Option Nat) :
    pick (candidates lvl r q) hint = some (id, i) := by
  have hc : (id, i) ∈ candidates lvl r q := by simp [candidates, hmem, hm]
  have hall : ∀ e ∈ candidates lvl r q, e = (id, i) := by
    intro e he
    simp only [candidates, List.mem_filter] at he
    have hid : e.1 = id := (hu (id, i) hmem e he.1 (matchesLvl_trans lvl q i e.2 hm he.2)).symm
    have h1 := lookup_of_mem hn he.1
    have h2 := lookup_of_mem hn hmem
    rw [hid] at h1
    have : e.2 = i := by rw [h1] at h2; exact Option.some.inj h2
    exact Prod.ext hid this
  obtain ⟨e, he⟩ := pick_isSome_of_ne_nil hint (List.ne_nil_of_mem hc)
  rw [he, hall e (pick_mem he)]

end Rotonda.Ingress
