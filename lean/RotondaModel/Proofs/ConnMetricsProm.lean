import RotondaModel.Model.ConnMetrics
/-! Helper lemmas for the Prometheus exposition model of ConnMetrics: the parser of `Model/ConnMetrics.lean` reads
back every well-formed line that `renderLine true` (label values escaped) writes. -/
namespace Rotonda.ConnMetrics

/-! ### Generic list facts -/

theorem stripPrefix_append (p s : Str) : stripPrefix p (p ++ s) = some s := by
  induction p with
  | nil => cases s <;> rfl
  | cons a p ih => simp [stripPrefix, ih]

theorem takeWhile_stop {p : Char → Bool} (a : Str) (c : Char) (r : Str) (ha : a.all p = true) (hc : p c = false) :
    (a ++ c :: r).takeWhile p = a := by
  induction a with
  | nil => simp [List.takeWhile, hc]
  | cons x a ih =>
    simp only [List.all_cons, Bool.and_eq_true] at ha
    simp [List.takeWhile, ha.1, ih ha.2]

theorem dropWhile_stop {p : Char → Bool} (a : Str) (c : Char) (r : Str) (ha : a.all p = true) (hc : p c = false) :
    (a ++ c :: r).dropWhile p = c :: r := by
  induction a with
  | nil => simp [List.dropWhile, hc]
  | cons x a ih =>
    simp only [List.all_cons, Bool.and_eq_true] at ha
    simp [List.dropWhile, ha.1, ih ha.2]

/-! ### Names -/

theorem isNameStart_char {c : Char} (h : isNameStart c = true) : isNameChar c = true := by
  simp [isNameChar, h]

theorem isLNameStart_char {c : Char} (h : isLNameStart c = true) : isLNameChar c = true := by
  simp [isLNameChar, h]

theorem isName_all {n : Str} (h : isName n = true) : n.all isNameChar = true := by
  cases n with
  | nil => simp [isName] at h
  | cons c r =>
    simp only [isName, Bool.and_eq_true] at h
    simp [List.all_cons, isNameStart_char h.1, h.2]

theorem isLName_all {n : Str} (h : isLName n = true) : n.all isLNameChar = true := by
  cases n with
  | nil => simp [isLName] at h
  | cons c r =>
    simp only [isLName, Bool.and_eq_true] at h
    simp [List.all_cons, isLNameStart_char h.1, h.2]

theorem isName_ne_nil {n : Str} (h : isName n = true) : ∃ c r, n = c :: r ∧ isNameStart c = true := by
  cases n with
  | nil => simp [isName] at h
  | cons c r => simp only [isName, Bool.and_eq_true] at h; exact ⟨c, r, rfl, h.1⟩

theorem isLName_ne_nil {n : Str} (h : isLName n = true) : ∃ c r, n = c :: r ∧ isLNameStart c = true := by
  cases n with
  | nil => simp [isLName] at h
  | cons c r => simp only [isLName, Bool.and_eq_true] at h; exact ⟨c, r, rfl, h.1⟩

theorem nameChar_space : isNameChar ' ' = false := by decide
theorem nameChar_brace : isNameChar '{' = false := by decide
theorem lnameChar_eq : isLNameChar '=' = false := by decide
theorem nameStart_hash : isNameStart '#' = false := by decide
theorem lnameStart_close : isLNameStart '}' = false := by decide

/-- A line that starts with a metric name is neither a `# HELP` nor a `# TYPE` line. -/
theorem stripPrefix_kw_name {c : Char} (r : Str) (h : isNameStart c = true) :
    stripPrefix helpKw (c :: r) = none ∧ stripPrefix typeKw (c :: r) = none := by
  have : c ≠ '#' := by intro hc; subst hc; simp [nameStart_hash] at h
  have h' : ¬ '#' = c := fun e => this e.symm
  simp [stripPrefix, helpKw, typeKw, h']

theorem stripPrefix_help_type (s : Str) : stripPrefix helpKw (typeKw ++ s) = none := by
  simp [stripPrefix, helpKw, typeKw]

/-! ### Numbers and type words -/

theorem isDigits_notNl {s : Str} (h : isDigits s = true) : s.all notNl = true := by
  cases s with
  | nil => simp [isDigits] at h
  | cons c r =>
    simp only [isDigits] at h
    rw [List.all_eq_true] at h ⊢
    intro x hx
    have := h x hx
    simp only [notNl, bne_iff_ne, ne_eq]
    intro e; subst e; simp at this

theorem isNumber_notNl {s : Str} (h : isNumber s = true) : s.all notNl = true := by
  unfold isNumber at h
  split at h
  · rename_i r
    simp only [List.all_cons, Bool.and_eq_true]
    exact ⟨by decide, isDigits_notNl h⟩
  · exact isDigits_notNl h

theorem ptype_notNl (t : PType) : t.str.all notNl = true := by cases t <;> decide

theorem parseType_str (t : PType) (h : t ≠ .text) : parseType t.str = some t := by
  cases t <;> first | exact absurd rfl h | decide

/-! ### Quoted label values -/

theorem parseLVal_esc (v rest : Str) : parseLVal (escLabel true v ++ '"' :: rest) = some (v, rest) := by
  induction v with
  | nil => unfold parseLVal; simp [escLabel]
  | cons c v ih =>
    have ih' : parseLVal (v.flatMap escLabelC ++ '"' :: rest) = some (v, rest) := by simpa [escLabel] using ih
    simp only [escLabel, List.flatMap_cons, List.append_assoc]
    by_cases h1 : c = '\\'
    · subst h1
      simp only [escLabelC, if_true, List.cons_append, List.nil_append]
      rw [parseLVal]; simp [ih']
    · by_cases h2 : c = '"'
      · subst h2
        simp only [escLabelC, h1, if_false, if_true, List.cons_append, List.nil_append]
        rw [parseLVal]; simp [ih']
      · by_cases h3 : c = '\n'
        · subst h3
          simp only [escLabelC, h1, h2, if_false, if_true, List.cons_append, List.nil_append]
          rw [parseLVal]; simp [ih']
        · simp only [escLabelC, h1, h2, h3, if_false, List.cons_append, List.nil_append]
          rw [parseLVal.eq_def]; simp [h1, h2, h3, ih']

theorem parsePair_render (p : Str × Str) (rest : Str) (h : isLName p.1 = true) :
    parsePair (renderPair true p ++ rest) = some (p, rest) := by
  have e : renderPair true p ++ rest = p.1 ++ '=' :: ('"' :: (escLabel true p.2 ++ '"' :: rest)) := by
    simp [renderPair]
  rw [e]
  unfold parsePair
  simp only [takeWhile_stop p.1 '=' _ (isLName_all h) lnameChar_eq, dropWhile_stop p.1 '=' _ (isLName_all h) lnameChar_eq, h,
    parseLVal_esc]
  rfl

/-- `,pair,pair…` — what follows the first pair. -/
def renderMore (ps : List (Str × Str)) : Str := ps.flatMap (fun p => ',' :: renderPair true p)

theorem renderPairs_cons (p : Str × Str) (ps : List (Str × Str)) :
    renderPairs true (p :: ps) = renderPair true p ++ renderMore ps := by
  induction ps generalizing p with
  | nil => simp [renderPairs, renderMore]
  | cons q ps ih => simp [renderPairs, renderMore, ih q]

theorem parseMorePairs_render (ps : List (Str × Str)) (rest : Str) (fuel : Nat) (hf : ps.length ≤ fuel)
    (h : ps.all (fun p => isLName p.1) = true) :
    parseMorePairs fuel (renderMore ps ++ '}' :: rest) = some (ps, rest) := by
  induction ps generalizing fuel with
  | nil => cases fuel <;> simp [renderMore, parseMorePairs]
  | cons p ps ih =>
    simp only [List.all_cons, Bool.and_eq_true] at h
    cases fuel with
    | zero => simp at hf
    | succ fuel =>
      have e : renderMore (p :: ps) ++ '}' :: rest = ',' :: (renderPair true p ++ (renderMore ps ++ '}' :: rest)) := by
        simp [renderMore]
      rw [e]
      simp only [parseMorePairs, parsePair_render p _ h.1, ih fuel (by simpa using hf) h.2]
      rfl

theorem renderMore_length (ps : List (Str × Str)) : ps.length ≤ (renderMore ps).length := by
  induction ps with
  | nil => simp
  | cons p ps ih => simp [renderMore] at ih ⊢; omega

theorem parseLabels_render (ls : List (Str × Str)) (rest : Str) (fuel : Nat)
    (hf : (renderPairs true ls).length ≤ fuel) (h : ls.all (fun p => isLName p.1) = true) :
    parseLabels fuel (renderPairs true ls ++ '}' :: rest) = some (ls, rest) := by
  cases ls with
  | nil => simp [renderPairs, parseLabels]
  | cons p ps =>
    simp only [List.all_cons, Bool.and_eq_true] at h
    rw [renderPairs_cons] at hf ⊢
    obtain ⟨c, r, hc, hs⟩ := isLName_ne_nil h.1
    have hne : ∀ r', renderPair true p ++ renderMore ps ++ '}' :: rest ≠ '}' :: r' := by
      intro r' e
      simp only [renderPair, hc, List.cons_append, List.cons.injEq] at e
      have := e.1; subst this; simp [lnameStart_close] at hs
    have hlen : ps.length ≤ fuel := by
      have := renderMore_length ps
      simp only [List.length_append] at hf; omega
    unfold parseLabels
    split
    · rename_i r' e; exact absurd e (hne r')
    · rw [List.append_assoc, parsePair_render p _ h.1, ]
      simp only [parseMorePairs_render ps rest fuel hlen h.2]
      rfl

/-! ### One line -/

theorem parseValue_render (v rest : Str) (h : isNumber v = true) :
    parseValue (' ' :: (v ++ '\n' :: rest)) = some (v, rest) := by
  have hn := isNumber_notNl h
  have hc : notNl '\n' = false := by decide
  simp only [parseValue, takeWhile_stop v '\n' rest hn hc, dropWhile_stop v '\n' rest hn hc, h]

theorem parseLine_render (l : Line) (rest : Str) (h : l.wf = true) :
    parseLine (renderLine true l ++ rest) = some (l, rest) := by
  have hcn : notNl '\n' = false := by decide
  cases l with
  | help n d =>
    simp only [Line.wf, Bool.and_eq_true] at h
    obtain ⟨⟨hn, hd⟩, hnl⟩ := h
    have e : renderLine true (.help n d) ++ rest = helpKw ++ (n ++ ' ' :: (d ++ '\n' :: rest)) := by simp [renderLine]
    rw [e]; unfold parseLine
    simp only [stripPrefix_append, takeWhile_stop n ' ' _ (isName_all hn) nameChar_space,
      dropWhile_stop n ' ' _ (isName_all hn) nameChar_space, hn,
      takeWhile_stop d '\n' rest hnl hcn, dropWhile_stop d '\n' rest hnl hcn, hd]
  | type n t =>
    simp only [Line.wf, Bool.and_eq_true, bne_iff_ne, ne_eq] at h
    obtain ⟨hn, ht⟩ := h
    have e : renderLine true (.type n t) ++ rest = typeKw ++ (n ++ ' ' :: (t.str ++ '\n' :: rest)) := by simp [renderLine]
    rw [e]; unfold parseLine
    simp only [stripPrefix_help_type, stripPrefix_append, takeWhile_stop n ' ' _ (isName_all hn) nameChar_space,
      dropWhile_stop n ' ' _ (isName_all hn) nameChar_space, hn,
      takeWhile_stop t.str '\n' rest (ptype_notNl t) hcn, dropWhile_stop t.str '\n' rest (ptype_notNl t) hcn,
      parseType_str t ht]
  | sample n ls v =>
    simp only [Line.wf, Bool.and_eq_true] at h
    obtain ⟨⟨hn, hv⟩, hl⟩ := h
    obtain ⟨c, r, hc, hs⟩ := isName_ne_nil hn
    cases ls with
    | none =>
      have e : renderLine true (.sample n none v) ++ rest = n ++ ' ' :: (v ++ '\n' :: rest) := by simp [renderLine]
      rw [e]; unfold parseLine
      have e2 : n ++ ' ' :: (v ++ '\n' :: rest) = c :: (r ++ ' ' :: (v ++ '\n' :: rest)) := by simp [hc]
      rw [e2, (stripPrefix_kw_name _ hs).1, (stripPrefix_kw_name _ hs).2, ← e2]
      simp only [takeWhile_stop n ' ' _ (isName_all hn) nameChar_space,
        dropWhile_stop n ' ' _ (isName_all hn) nameChar_space, hn]
      simp [parseValue_render v rest hv]
    | some ls =>
      have e : renderLine true (.sample n (some ls) v) ++ rest =
          n ++ '{' :: (renderPairs true ls ++ '}' :: (' ' :: (v ++ '\n' :: rest))) := by simp [renderLine]
      rw [e]; unfold parseLine
      have e2 : n ++ '{' :: (renderPairs true ls ++ '}' :: (' ' :: (v ++ '\n' :: rest))) =
          c :: (r ++ '{' :: (renderPairs true ls ++ '}' :: (' ' :: (v ++ '\n' :: rest)))) := by simp [hc]
      rw [e2, (stripPrefix_kw_name _ hs).1, (stripPrefix_kw_name _ hs).2, ← e2]
      simp only [takeWhile_stop n '{' _ (isName_all hn) nameChar_brace,
        dropWhile_stop n '{' _ (isName_all hn) nameChar_brace, hn]
      rw [parseLabels_render ls _ _ (by simp) hl]
      simp only [parseValue_render v rest hv]
      rfl

/-! ### The whole text -/

theorem renderLine_length (esc : Bool) (l : Line) : 1 ≤ (renderLine esc l).length := by
  cases l with
  | help n d => simp [renderLine]; omega
  | type n t => simp [renderLine]; omega
  | sample n ls v => cases ls <;> simp [renderLine] <;> omega

theorem flatMap_render_length (esc : Bool) (ls : List Line) : ls.length ≤ (ls.flatMap (renderLine esc)).length := by
  induction ls with
  | nil => simp
  | cons l ls ih =>
    have := renderLine_length esc l
    simp only [List.flatMap_cons, List.length_append, List.length_cons]; omega

theorem parseLines_render (ls : List Line) (fuel : Nat) (hf : ls.length ≤ fuel) (h : ls.all Line.wf = true) :
    parseLines fuel (ls.flatMap (renderLine true)) = some ls := by
  induction ls generalizing fuel with
  | nil => cases fuel <;> simp [parseLines]
  | cons l ls ih =>
    simp only [List.all_cons, Bool.and_eq_true] at h
    cases fuel with
    | zero => simp at hf
    | succ fuel =>
      obtain ⟨c, r, hcr⟩ : ∃ c r, renderLine true l ++ ls.flatMap (renderLine true) = c :: r := by
        have := renderLine_length true l
        cases hh : renderLine true l with
        | nil => simp [hh] at this
        | cons c r => exact ⟨c, r ++ ls.flatMap (renderLine true), by simp⟩
      simp only [List.flatMap_cons]
      rw [hcr, parseLines, ← hcr, parseLine_render l _ h.1]
      · simp [ih fuel (by simpa using hf) h.2]
      · simp

/-- **Round trip.** Every list of well-formed lines is read back, label values decoded, from what `renderLine true`
    wrote. -/
theorem parse_render_lines (ls : List Line) (h : ls.all Line.wf = true) :
    parse (ls.flatMap (renderLine true)) = some ls :=
  parseLines_render ls _ (flatMap_render_length true ls) h

/-! ### Clean strings need no escaping -/

theorem escLabel_clean (v : Str) (h : clean v = true) (esc : Bool) : escLabel esc v = v := by
  cases esc with
  | false => rfl
  | true =>
    induction v with
    | nil => rfl
    | cons c v ih =>
      simp only [clean, List.all_cons, Bool.and_eq_true, bne_iff_ne, ne_eq] at h
      have ih' := ih (by simpa [clean] using h.2)
      simp only [escLabel] at ih' ⊢
      simp [List.flatMap_cons, escLabelC, h.1.1.1, h.1.1.2, h.1.2, ih']

end Rotonda.ConnMetrics
