import RotondaModel.Model.PipeBmp
import RotondaModel.Proofs.Bmp
import RotondaModel.Proofs.Rib
import RotondaModel.Props.C05
import RotondaModel.Props.C03
/-!
Helper lemmas for the composition BMP state machine ∘ RIB (`Model/PipeBmp.lean`):
the per-session refinement of `Bmp.step` + `emit` to the tracker step `TSess.step`, its lift to
worlds and histories, and the tracker-level invariants (ids of up peers are registered, register
lookups are stable) that carry C03's id reuse.
-/
namespace Rotonda.PipeBmp
open Rotonda

/-! ### Peer tables -/

/-- No two entries of a peer table have the same per-peer header (it is a `HashMap` keyed by it). -/
def NodupHdr (ps : List Bmp.Peer) : Prop := (ps.map (·.hdr)).Nodup

theorem upOf_eq_of_frame : ∀ (ps' ps : List Bmp.Peer), NodupHdr ps →
    ps'.map (·.hdr) = ps.map (·.hdr) → Bmp.Sub ps' ps → upOf ps' = upOf ps
  | [], [], _, _, _ => rfl
  | [], _ :: _, _, h, _ => by simp at h
  | _ :: _, [], _, h, _ => by simp at h
  | q :: qs, p :: ps, hn, hh, hs => by
    simp only [List.map_cons, List.cons.injEq] at hh
    simp only [NodupHdr, List.map_cons, List.nodup_cons] at hn
    have hq : q.mui = p.mui := by
      obtain ⟨q0, hq0, e1, e2⟩ := hs q List.mem_cons_self
      rcases List.mem_cons.mp hq0 with rfl | hmem
      · exact e2.symm
      · exfalso
        apply hn.1
        rw [← hh.1, ← e1]
        exact List.mem_map_of_mem (f := (·.hdr)) hmem
    have hs' : Bmp.Sub qs ps := by
      intro x hx
      obtain ⟨x0, hx0, e1, e2⟩ := hs x (List.mem_cons_of_mem _ hx)
      rcases List.mem_cons.mp hx0 with rfl | hmem
      · exfalso
        apply hn.1
        have : x.hdr ∈ qs.map (·.hdr) := List.mem_map_of_mem (f := (·.hdr)) hx
        rw [hh.2, ← e1] at this
        exact this
      · exact ⟨x0, hmem, e1, e2⟩
    have ih := upOf_eq_of_frame qs ps hn.2 hh.2 hs'
    simp only [upOf, List.map_cons, List.cons.injEq, Prod.mk.injEq] at ih ⊢
    exact ⟨⟨hh.1, hq⟩, ih⟩

theorem lookupUp_upOf (h : Hdr) (ps : List Bmp.Peer) :
    Bmp.lookupUp h (upOf ps) = (Bmp.findPeer h ps).map (·.mui) := Bmp.lookupUp_upSet h ps

theorem upOf_erasePeer (h : Hdr) (ps : List Bmp.Peer) :
    upOf (Bmp.erasePeer h ps) = (upOf ps).filter (fun e => e.1 != h) := by
  induction ps with
  | nil => rfl
  | cons p ps ih =>
    simp only [Bmp.erasePeer, upOf, List.filter_cons, List.map_cons] at ih ⊢
    by_cases hp : (p.hdr != h) = true
    · simp only [hp, if_true, List.map_cons, ih]
    · simp only [hp, Bool.false_eq_true, if_false, ih]

theorem upOf_append (ps qs : List Bmp.Peer) : upOf (ps ++ qs) = upOf ps ++ upOf qs := by
  simp [upOf]

theorem map_snd_upOf (ps : List Bmp.Peer) : (upOf ps).map (·.2) = ps.map (·.mui) := by
  simp [upOf, List.map_map, Function.comp_def]

theorem regFor_eq (k : Key) (s : Bmp.State) : Bmp.regFor k s = regFor k s.reg s.next := by
  unfold Bmp.regFor regFor
  cases Bmp.lookupKey k s.reg <;> rfl

/-! ### An UPDATE without routes changes nothing -/

theorem explodeList_nil_of_isEmpty (ns : List Rib.Nlri) (a : Rib.AttrId)
    (h : (Rib.explodeList ns 0).isEmpty = true) : Rib.explodeList ns a = [] := by
  induction ns with
  | nil => rfl
  | cons n ns ih =>
    rw [Rib.explodeList_cons] at h ⊢
    cases hs : n.safi <;> simp [Rib.Nlri.route, hs] at h ⊢
    exact ih (by simpa using h)

theorem explodeList_filter_nil (ns : List Rib.Nlri) (f : Rib.Nlri → Bool) (a : Rib.AttrId)
    (h : Rib.explodeList ns a = []) : Rib.explodeList (ns.filter f) a = [] := by
  simp only [Rib.explodeList, List.filterMap_eq_nil_iff] at h ⊢
  intro n hn
  exact h n (List.mem_filter.mp hn).1

theorem applyAll_ingest_noRoutes (vr : Rib.Variant) (r : Rib.Rib) (m : Mui) (u : Rib.Upd)
    (h : noRoutes u = true) : r.applyAll vr (Rib.ingest vr .fresh m u) = r := by
  cases u with
  | malformed => rfl
  | ok a ann wd =>
    simp only [noRoutes, Bool.and_eq_true] at h
    have h1 := explodeList_nil_of_isEmpty ann a h.1
    have h2 := explodeList_nil_of_isEmpty wd 0 h.2
    have h3 : ∀ f, Rib.explodeList (wd.filter f) 0 = [] := fun f => explodeList_filter_nil wd f 0 h2
    simp only [Rib.ingest, Rib.explode, h1]
    cases vr.overlapFix <;> simp [h2, h3, Rib.Rib.applyAll, Rib.Rib.apply]

/-! ### One message on one session: the composed step refines the tracker step -/

theorem runFrom_nil (vr : Rib.Variant) (r : Rib.Rib) : Rib.runFrom vr r [] = r := rfl

theorem runFrom_single (vr : Rib.Variant) (r : Rib.Rib) (e : Rib.Ev) :
    Rib.runFrom vr r [e] = r.applyAll vr (e.updates vr) := rfl

/-- The statement of the per-session refinement for one result pair. -/
structure StepRef (vr : Rib.Variant) (m : Msg) (r : Bmp.Res) (t : TRes) : Prop where
  sess : (⟨lifeOf r.st.phase, upOf r.st.peers⟩ : TSess) = t.s
  reg : r.st.reg = t.reg
  next : r.st.next = t.next
  rib : ∀ rib : Rib.Rib, rib.applyAll vr (emit vr m r.out) = Rib.runFrom vr rib t.evs

theorem routeMon_ref (vb : Bmp.Variant) (vr : Rib.Variant) (d : Bool) (st : Bmp.State) (h : Hdr)
    (t : Bmp.Rm) (u : Rib.Upd) (hn : NodupHdr st.peers)
    (hphase : lifeOf st.phase = .live) (K1 : Hdr → Key)
    (hok : (Msg.routeMon h t u).ok vb = true) :
    StepRef vr (.routeMon h t u) (Bmp.routeMon vb d st h t)
      (TSess.step K1 ⟨.live, upOf st.peers⟩ st.reg st.next (.routeMon h t u)) := by
  have f := Bmp.routeMon_frame vb d st h t
  have hup : upOf (Bmp.routeMon vb d st h t).st.peers = upOf st.peers :=
    upOf_eq_of_frame _ _ hn f.hdrs f.sub
  have hlife : lifeOf (Bmp.routeMon vb d st h t).st.phase = .live := by
    rcases f.phase with hp | ⟨_, hp⟩
    · rw [hp]; exact hphase
    · rw [hp]; rfl
  have hsess : (⟨lifeOf (Bmp.routeMon vb d st h t).st.phase, upOf (Bmp.routeMon vb d st h t).st.peers⟩ : TSess)
      = ⟨.live, upOf st.peers⟩ := by rw [hup, hlife]
  simp only [TSess.step, lookupUp_upOf]
  rcases Bmp.routeMon_out vb d st h t with ⟨hf, ho⟩ | ⟨p, hf, ho⟩
  · simp only [hf, Option.map_none]
    exact ⟨hsess, f.reg, f.next, fun rib => by simp [ho, emit, Rib.Rib.applyAll, Rib.runFrom]⟩
  · simp only [hf, Option.map_some]
    refine ⟨hsess, f.reg, f.next, fun rib => ?_⟩
    rcases ho with ⟨hp, ho⟩ | ⟨hp, ⟨he, ho⟩ | ho⟩
    · have hnd : deliverable t = false := by
        rw [Bmp.parseOutcome_none] at hp
        simp [deliverable, hp]
      simp [ho, emit, hnd, Rib.Rib.applyAll, Rib.runFrom]
    · -- taken for the End-of-RIB marker that completes the dump: nothing is emitted
      have hnr : noRoutes u = true := by
        simp only [Msg.ok, Bool.or_eq_true] at hok
        rcases hok with h1 | h1
        · cases hx : Bmp.effEor vb t <;> simp [hx] at he h1
        · exact h1
      rw [ho]
      simp only [emit, Rib.Rib.applyAll, List.foldl_nil]
      cases deliverable t
      · rfl
      · simp only [runFrom_single, Rib.Ev.updates]
        exact (applyAll_ingest_noRoutes vr rib p.mui u hnr).symm
    · have hpp : (t.p4 || t.p2) = true := by
        cases hb : (t.p4 || t.p2)
        · exact absurd ((Bmp.parseOutcome_none p.cfg4 t).mpr hb) hp
        · rfl
      rw [ho]
      cases hx : (t.xok && t.avok)
      · simp [emit, deliverable, hpp, hx, Rib.Rib.applyAll, Rib.runFrom]
      · simp only [emit, deliverable, hpp, hx, Bool.and_self, runFrom_single, Rib.Ev.updates]

theorem StepRef.of_core {vr : Rib.Variant} {m : Msg} {vb : Bmp.Variant} {K1 : Hdr → Key} {st : Bmp.State}
    {bm : Bmp.Msg} {t : TRes} (h : StepRef vr m (Bmp.stepCore vb K1 st bm) t) :
    StepRef vr m (Bmp.step vb K1 st bm) t := by
  refine ⟨?_, ?_, ?_, ?_⟩
  · rw [Bmp.step_st]; exact h.sess
  · rw [Bmp.step_st]; exact h.reg
  · rw [Bmp.step_st]; exact h.next
  · rw [Bmp.step_out]; exact h.rib

/-- A step that changes nothing and emits nothing. -/
theorem StepRef.idle (vr : Rib.Variant) (m : Msg) (st : Bmp.State) (o : Bmp.Out) (e : List Bmp.Eff)
    (ho : emit vr m o = []) :
    StepRef vr m ⟨st, o, e⟩ ⟨⟨lifeOf st.phase, upOf st.peers⟩, st.reg, st.next, []⟩ :=
  ⟨rfl, rfl, rfl, fun rib => by simp [ho, Rib.Rib.applyAll, Rib.runFrom]⟩

theorem peerUp_ref (vr : Rib.Variant) (K1 : Hdr → Key) (st : Bmp.State) (h : Hdr) (e c : Bool)
    (hphase : lifeOf st.phase = .live) :
    StepRef vr (.peerUp h e c) (Bmp.peerUp K1 st h e c)
      (TSess.step K1 ⟨.live, upOf st.peers⟩ st.reg st.next (.peerUp h e c)) := by
  simp only [TSess.step, lookupUp_upOf, Bmp.peerUp, regFor_eq]
  cases hf : Bmp.findPeer h st.peers with
  | some p =>
    simp only [Option.map_some]
    exact ⟨by simp [hphase], rfl, rfl, fun rib => by simp [emit, Rib.Rib.applyAll, Rib.runFrom]⟩
  | none =>
    simp only [Option.map_none]
    exact ⟨by simp [hphase, upOf], rfl, rfl, fun rib => by simp [emit, Rib.Rib.applyAll, Rib.runFrom]⟩

theorem peerDown_ref (vb : Bmp.Variant) (vr : Rib.Variant) (K1 : Hdr → Key) (st : Bmp.State) (h : Hdr)
    (hphase : lifeOf st.phase = .live) :
    StepRef vr (.peerDown h) (Bmp.peerDown vb st h)
      (TSess.step K1 ⟨.live, upOf st.peers⟩ st.reg st.next (.peerDown h)) := by
  simp only [TSess.step, lookupUp_upOf, Bmp.peerDown]
  cases hf : Bmp.findPeer h st.peers with
  | some p =>
    simp only [Option.map_some]
    exact ⟨by simp [hphase, upOf_erasePeer], rfl, rfl,
      fun rib => by simp [emit, Rib.Rib.applyAll, Rib.runFrom, Rib.Ev.updates]⟩
  | none =>
    simp only [Option.map_none]
    exact ⟨by simp [hphase], rfl, rfl, fun rib => by simp [emit, Rib.Rib.applyAll, Rib.runFrom]⟩

theorem terminate_ref (vr : Rib.Variant) (K1 : Hdr → Key) (st : Bmp.State) :
    StepRef vr .term (Bmp.terminate st)
      (TSess.step K1 ⟨.live, upOf st.peers⟩ st.reg st.next .term) := by
  simp only [TSess.step, Bmp.terminate, map_snd_upOf]
  cases hm : st.peers.map (·.mui) with
  | nil =>
    exact ⟨by simp [lifeOf, upOf], rfl, rfl, fun rib => by simp [emit, Rib.Rib.applyAll, Rib.runFrom]⟩
  | cons a b =>
    exact ⟨by simp [lifeOf, upOf], rfl, rfl,
      fun rib => by simp [emit, Rib.Rib.applyAll, Rib.runFrom, Rib.Ev.updates]⟩

/-- **Per-session refinement.** One message on one session: the state machine's new phase and
    peer table abstract to the tracker's new session, the register is updated identically, and
    applying what the state machine emits to any RIB is running the tracker's events on it. -/
theorem sess_ref (v : Variant) (K1 : Hdr → Key) (st : Bmp.State) (m : Msg)
    (hn : NodupHdr st.peers) (hok : m.ok v.bmp = true) :
    StepRef v.rib m (Bmp.step v.bmp K1 st m.toBmp)
      (TSess.step K1 ⟨lifeOf st.phase, upOf st.peers⟩ st.reg st.next m) := by
  apply StepRef.of_core
  unfold Bmp.stepCore
  cases hph : st.phase with
  | initiating =>
    cases m with
    | init =>
      simp only [Msg.toBmp, TSess.step, lifeOf]
      exact ⟨rfl, rfl, rfl, fun rib => by simp [emit, Rib.Rib.applyAll, Rib.runFrom]⟩
    | peerUp h e c => have := StepRef.idle v.rib (.peerUp h e c) st .invalid [] (by simp [emit]); simpa [hph, lifeOf, TSess.step, Msg.toBmp] using this
    | peerDown h => have := StepRef.idle v.rib (.peerDown h) st .invalid [] (by simp [emit]); simpa [hph, lifeOf, TSess.step, Msg.toBmp] using this
    | routeMon h t u => have := StepRef.idle v.rib (.routeMon h t u) st .invalid [] (by simp [emit]); simpa [hph, lifeOf, TSess.step, Msg.toBmp] using this
    | stats h => have := StepRef.idle v.rib (.stats h) st .invalid [] (by simp [emit]); simpa [hph, lifeOf, TSess.step, Msg.toBmp] using this
    | mirror h => have := StepRef.idle v.rib (.mirror h) st .invalid [] (by simp [emit]); simpa [hph, lifeOf, TSess.step, Msg.toBmp] using this
    | term => have := StepRef.idle v.rib .term st .invalid [] (by simp [emit]); simpa [hph, lifeOf, TSess.step, Msg.toBmp] using this
  | terminated =>
    simp only [TSess.step, lifeOf]
    have := StepRef.idle v.rib m st .invalid [] (by simp [emit])
    simpa [hph, lifeOf] using this
  | dumping =>
    have hl : lifeOf st.phase = .live := by rw [hph]; rfl
    cases m with
    | init => have := StepRef.idle v.rib .init st .other [] (by simp [emit]); simpa [hph, lifeOf, TSess.step, Msg.toBmp] using this
    | stats h => have := StepRef.idle v.rib (.stats h) st .other [] (by simp [emit]); simpa [hph, lifeOf, TSess.step, Msg.toBmp] using this
    | mirror h => have := StepRef.idle v.rib (.mirror h) st .other [] (by simp [emit]); simpa [hph, lifeOf, TSess.step, Msg.toBmp] using this
    | peerUp h e c =>
      have := peerUp_ref v.rib K1 st h e c hl
      exact ⟨this.sess, this.reg, this.next, this.rib⟩
    | peerDown h => simpa [Msg.toBmp, lifeOf] using peerDown_ref v.bmp v.rib K1 st h hl
    | term => simpa [Msg.toBmp, lifeOf] using terminate_ref v.rib K1 st
    | routeMon h t u => simpa [Msg.toBmp, lifeOf] using routeMon_ref v.bmp v.rib true st h t u hn hl K1 hok
  | updating =>
    have hl : lifeOf st.phase = .live := by rw [hph]; rfl
    cases m with
    | init => have := StepRef.idle v.rib .init st .other [] (by simp [emit]); simpa [hph, lifeOf, TSess.step, Msg.toBmp] using this
    | stats h => have := StepRef.idle v.rib (.stats h) st .other [] (by simp [emit]); simpa [hph, lifeOf, TSess.step, Msg.toBmp] using this
    | mirror h => have := StepRef.idle v.rib (.mirror h) st .other [] (by simp [emit]); simpa [hph, lifeOf, TSess.step, Msg.toBmp] using this
    | peerUp h e c => simpa [Msg.toBmp, lifeOf] using peerUp_ref v.rib K1 st h e c hl
    | peerDown h => simpa [Msg.toBmp, lifeOf] using peerDown_ref v.bmp v.rib K1 st h hl
    | term => simpa [Msg.toBmp, lifeOf] using terminate_ref v.rib K1 st
    | routeMon h t u => simpa [Msg.toBmp, lifeOf] using routeMon_ref v.bmp v.rib false st h t u hn hl K1 hok

/-! ### The peer table stays keyed by header -/

theorem nodup_step (vb : Bmp.Variant) (K1 : Hdr → Key) (st : Bmp.State) (bm : Bmp.Msg)
    (hn : NodupHdr st.peers) : NodupHdr (Bmp.step vb K1 st bm).st.peers := by
  rw [Bmp.step_st]
  have rm : ∀ d h t, NodupHdr (Bmp.routeMon vb d st h t).st.peers := by
    intro d h t
    unfold NodupHdr
    rw [(Bmp.routeMon_frame vb d st h t).hdrs]
    exact hn
  have pu : ∀ h e c, NodupHdr (Bmp.peerUp K1 st h e c).st.peers := by
    intro h e c
    unfold Bmp.peerUp
    cases hf : Bmp.findPeer h st.peers with
    | some p => exact hn
    | none =>
      simp only [NodupHdr, List.map_append, List.map_cons, List.map_nil]
      refine List.nodup_append.mpr ⟨hn, by simp, ?_⟩
      intro a ha b hb
      simp only [List.mem_singleton] at hb
      subst hb
      obtain ⟨p, hp, rfl⟩ := List.mem_map.mp ha
      exact Bmp.findPeer_none hf p hp
  have pd : ∀ h, NodupHdr (Bmp.peerDown vb st h).st.peers := by
    intro h
    unfold Bmp.peerDown
    cases hf : Bmp.findPeer h st.peers with
    | some p => exact List.Nodup.sublist (List.Sublist.map _ List.filter_sublist) hn
    | none => exact hn
  have tm : NodupHdr (Bmp.terminate st).st.peers := by
    unfold Bmp.terminate
    split <;> simp [NodupHdr]
  unfold Bmp.stepCore
  cases st.phase with
  | initiating => cases bm <;> exact hn
  | terminated => exact hn
  | dumping =>
    cases bm with
    | init => exact hn
    | stats _ => exact hn
    | mirror _ => exact hn
    | peerUp h e c => exact pu h e c
    | peerDown h => exact pd h
    | routeMon h t => exact rm true h t
    | term => exact tm
  | updating =>
    cases bm with
    | init => exact hn
    | stats _ => exact hn
    | mirror _ => exact hn
    | peerUp h e c => exact pu h e c
    | peerDown h => exact pd h
    | routeMon h t => exact rm false h t
    | term => exact tm

/-! ### Worlds -/

/-- Invariant of every reachable world: each session's peer table is keyed by header. -/
def World.Inv (w : World) : Prop := ∀ s ∈ w.sess, NodupHdr s.peers

theorem World.Inv_init : World.init.Inv := fun _ hs => nomatch hs

theorem World.Inv_step (v : Variant) (K : Nat → Hdr → Key) (w : World) (e : Ev) (hi : w.Inv) :
    (w.step v K e).Inv := by
  cases e with
  | connect rk =>
    intro s hs
    simp only [World.step, List.mem_append, List.mem_singleton] at hs
    rcases hs with hs | rfl
    · exact hi s hs
    · simp [NodupHdr]
  | msg i m =>
    simp only [World.step]
    cases hg : w.sess[i]? with
    | none => exact hi
    | some s0 =>
      intro s hs
      simp only at hs
      rcases List.mem_or_eq_of_mem_set hs with hs | rfl
      · exact hi s hs
      · exact nodup_step v.bmp (K i) (w.view s0) m.toBmp (hi s0 (List.mem_of_getElem? hg))
  | disconnect i =>
    simp only [World.step]
    cases hg : w.sess[i]? with
    | none => exact hi
    | some s0 =>
      simp only
      cases lifeOf s0.phase with
      | dead => exact hi
      | fresh =>
        intro s hs
        rcases List.mem_or_eq_of_mem_set hs with hs | rfl
        · exact hi s hs
        · simp [NodupHdr]
      | live =>
        intro s hs
        rcases List.mem_or_eq_of_mem_set hs with hs | rfl
        · exact hi s hs
        · simp [NodupHdr]

theorem World.Inv_runFrom (v : Variant) (K : Nat → Hdr → Key) (H : History) (w : World) (hi : w.Inv) :
    (w.runFrom v K H).Inv := by
  induction H generalizing w with
  | nil => exact hi
  | cons e H ih => exact ih _ (World.Inv_step v K w e hi)

/-- **Refinement, one event.** The abstraction of the next world is the tracker's next state, and
    the next RIB is the old one after the tracker's events. -/
theorem applyAll_epilogue (vr : Rib.Variant) (rib : Rib.Rib) (rid : Mui) (par : List (Mui × Mui)) :
    rib.applyAll vr (epilogue rid par) = Rib.runFrom vr rib [.downBulk (idsForParent rid par)] := by
  simp [epilogue, Rib.Rib.applyAll, Rib.Rib.apply, Rib.runFrom, Rib.Ev.updates]

theorem applyAll_append (vr : Rib.Variant) (rib : Rib.Rib) (a b : List Rib.Update) :
    rib.applyAll vr (a ++ b) = (rib.applyAll vr a).applyAll vr b := by
  simp [Rib.Rib.applyAll]

theorem ribRunFrom_append (vr : Rib.Variant) (rib : Rib.Rib) (a b : Rib.History) :
    Rib.runFrom vr rib (a ++ b) = Rib.runFrom vr (Rib.runFrom vr rib a) b := by
  simp [Rib.runFrom]

theorem World.step_ref (v : Variant) (K : Nat → Hdr → Key) (w : World) (e : Ev) (hi : w.Inv)
    (hok : e.ok v.bmp = true) :
    (w.step v K e).abs = (w.abs.step K e).1 ∧
    (w.step v K e).rib = Rib.runFrom v.rib w.rib (w.abs.step K e).2 := by
  cases e with
  | connect rk =>
    simp only [World.step, Track.step, World.abs, regFor_eq]
    exact ⟨by simp [Sess.abs, lifeOf, upOf], rfl⟩
  | msg i m =>
    simp only [World.step, Track.step, World.abs, List.getElem?_map]
    cases hg : w.sess[i]? with
    | none => exact ⟨rfl, rfl⟩
    | some s0 =>
      have hr := sess_ref v (K i) (w.view s0) m (hi s0 (List.mem_of_getElem? hg)) hok
      simp only [Option.map_some, Sess.abs]
      simp only [World.view] at hr
      have hlife : (TSess.step (K i) ⟨lifeOf s0.phase, upOf s0.peers⟩ w.reg w.next m).s.life
          = lifeOf (Bmp.step v.bmp (K i) (w.view s0) m.toBmp).st.phase := by
        rw [← hr.sess]; rfl
      refine ⟨?_, ?_⟩
      · rw [← hr.sess, ← hr.reg, ← hr.next]
        simp [List.map_set, Sess.abs, World.view]
      · simp only [World.view] at hlife ⊢
        rw [applyAll_append, ribRunFrom_append, hr.rib w.rib, hlife, ← hr.next]
        generalize endedBy (lifeOf s0.phase) _ = b
        cases b with
        | false => rfl
        | true => exact applyAll_epilogue _ _ _ _
  | disconnect i =>
    simp only [World.step, Track.step, World.abs, List.getElem?_map]
    cases hg : w.sess[i]? with
    | none => exact ⟨rfl, rfl⟩
    | some s0 =>
      simp only [Option.map_some, Sess.abs]
      cases hl : lifeOf s0.phase with
      | dead => exact ⟨rfl, rfl⟩
      | fresh => exact ⟨by simp [List.map_set, Sess.abs, lifeOf, upOf], applyAll_epilogue _ _ _ _⟩
      | live => exact ⟨by simp [List.map_set, Sess.abs, lifeOf, upOf], applyAll_epilogue _ _ _ _⟩

theorem World.runFrom_ref (v : Variant) (K : Nat → Hdr → Key) (H : History) (w : World) (hi : w.Inv)
    (hok : H.all (Ev.ok v.bmp) = true) :
    (w.runFrom v K H).abs = w.abs.runFrom K H ∧
    (w.runFrom v K H).rib = Rib.runFrom v.rib w.rib (traceFrom K w.abs H) := by
  induction H generalizing w with
  | nil => exact ⟨rfl, rfl⟩
  | cons e H ih =>
    simp only [List.all_cons, Bool.and_eq_true] at hok
    obtain ⟨h1, h2⟩ := World.step_ref v K w e hi hok.1
    obtain ⟨h3, h4⟩ := ih (w.step v K e) (World.Inv_step v K w e hi) hok.2
    simp only [World.runFrom, Track.runFrom, List.foldl_cons, traceFrom] at h3 h4 ⊢
    rw [h1] at h3 h4
    refine ⟨h3, ?_⟩
    rw [h4, h2]
    simp [Rib.runFrom, List.foldl_append]

/-! ### Histories: append -/

theorem Track.runFrom_append (K : Nat → Hdr → Key) (T : Track) (H1 H2 : History) :
    T.runFrom K (H1 ++ H2) = (T.runFrom K H1).runFrom K H2 := by
  simp [Track.runFrom, List.foldl_append]

theorem traceFrom_append (K : Nat → Hdr → Key) (H1 H2 : History) (T : Track) :
    traceFrom K T (H1 ++ H2) = traceFrom K T H1 ++ traceFrom K (T.runFrom K H1) H2 := by
  induction H1 generalizing T with
  | nil => rfl
  | cons e H1 ih =>
    simp only [List.cons_append, traceFrom, ih, List.append_assoc, Track.runFrom, List.foldl_cons]

theorem traceFrom_cons (K : Nat → Hdr → Key) (e : Ev) (H : History) (T : Track) :
    traceFrom K T (e :: H) = (T.step K e).2 ++ traceFrom K (T.step K e).1 H := rfl

/-! ### The register: lookups are stable, ids of up peers are registered -/

theorem lookupUp_mem {h : Hdr} {up : List (Hdr × Mui)} {m : Mui} (hl : Bmp.lookupUp h up = some m) :
    (h, m) ∈ up := by
  induction up with
  | nil => simp [Bmp.lookupUp] at hl
  | cons e up ih =>
    simp only [Bmp.lookupUp] at hl
    by_cases he : e.1 = h
    · simp only [he, if_true, Option.some.injEq] at hl
      have : e = (h, m) := by cases e; simp_all
      simp [this]
    · simp only [he, if_false] at hl
      exact List.mem_cons_of_mem _ (ih hl)

theorem lookupUp_filter_self (h : Hdr) (up : List (Hdr × Mui)) :
    Bmp.lookupUp h (up.filter (fun e => e.1 != h)) = none := by
  induction up with
  | nil => rfl
  | cons e up ih =>
    by_cases he : e.1 = h
    · simp [he, ih]
    · simp [he, Bmp.lookupUp, ih]

theorem lookupUp_filter_other (h h' : Hdr) (hne : h' ≠ h) (up : List (Hdr × Mui)) :
    Bmp.lookupUp h' (up.filter (fun e => e.1 != h)) = Bmp.lookupUp h' up := by
  induction up with
  | nil => rfl
  | cons e up ih =>
    by_cases he : e.1 = h
    · have h2 : ¬ h = h' := fun x => hne x.symm
      simp [he, ih, Bmp.lookupUp, h2]
    · simp [he, Bmp.lookupUp, ih]

theorem lookupUp_append_new (h : Hdr) (m : Mui) (up : List (Hdr × Mui)) (hn : Bmp.lookupUp h up = none) :
    Bmp.lookupUp h (up ++ [(h, m)]) = some m := by
  induction up with
  | nil => simp [Bmp.lookupUp]
  | cons e up ih =>
    simp only [Bmp.lookupUp, List.cons_append] at hn ⊢
    by_cases he : e.1 = h
    · simp [he] at hn
    · simp only [he, if_false] at hn ⊢
      exact ih hn

/-- Once a key class has an id, `find_or_register_*` of any key never changes it. -/
theorem lookupKey_regFor_stable (k k' : Key) (reg : List (Key × Mui)) (next v : Mui)
    (h : Bmp.lookupKey k reg = some v) : Bmp.lookupKey k (regFor k' reg next).1 = some v := by
  unfold regFor
  cases Bmp.lookupKey k' reg with
  | some id => exact h
  | none => exact Bmp.lookupKey_append_some h

/-- `find_or_register_*` returns the id its key class has afterwards. -/
theorem lookupKey_regFor_self (k : Key) (reg : List (Key × Mui)) (next : Mui) :
    Bmp.lookupKey k (regFor k reg next).1 = some (regFor k reg next).2.2 := by
  unfold regFor
  cases hk : Bmp.lookupKey k reg with
  | some id => exact hk
  | none => exact Bmp.lookupKey_append_none hk

/-- … and the id the key class already had, if any (a returning peer gets its old id back). -/
theorem regFor_of_lookup (k : Key) (reg : List (Key × Mui)) (next v : Mui)
    (h : Bmp.lookupKey k reg = some v) : regFor k reg next = (reg, next, v) := by
  simp [regFor, h]

theorem TSess.step_reg_stable (K1 : Hdr → Key) (s : TSess) (reg : List (Key × Mui)) (next : Mui) (m : Msg)
    (k : Key) (v : Mui) (h : Bmp.lookupKey k reg = some v) :
    Bmp.lookupKey k (s.step K1 reg next m).reg = some v := by
  unfold TSess.step
  cases s.life with
  | fresh => cases m <;> exact h
  | dead => exact h
  | live =>
    cases m with
    | peerUp h' e c =>
      simp only
      cases Bmp.lookupUp h' s.up <;> exact lookupKey_regFor_stable _ _ _ _ _ h
    | peerDown h' => simp only; cases Bmp.lookupUp h' s.up <;> exact h
    | routeMon h' t u => simp only; cases Bmp.lookupUp h' s.up <;> exact h
    | _ => exact h

theorem Track.step_reg_stable (K : Nat → Hdr → Key) (T : Track) (e : Ev) (k : Key) (v : Mui)
    (h : Bmp.lookupKey k T.reg = some v) : Bmp.lookupKey k (T.step K e).1.reg = some v := by
  cases e with
  | connect rk => exact lookupKey_regFor_stable _ _ _ _ _ h
  | msg i m =>
    simp only [Track.step]
    cases T.sess[i]? with
    | none => exact h
    | some s => exact TSess.step_reg_stable (K i) s T.reg T.next m k v h
  | disconnect i =>
    simp only [Track.step]
    cases T.sess[i]? with
    | none => exact h
    | some s => simp only; cases s.life <;> exact h

/-- **Register lookups are stable along every history**: an id, once handed out for a key class
    (router, peer address, AS, RIB type), is what every later `find_or_register` of that class gets. -/
theorem Track.runFrom_reg_stable (K : Nat → Hdr → Key) (H : History) (T : Track) (k : Key) (v : Mui)
    (h : Bmp.lookupKey k T.reg = some v) : Bmp.lookupKey k (T.runFrom K H).reg = some v := by
  induction H generalizing T with
  | nil => exact h
  | cons e H ih => exact ih _ (Track.step_reg_stable K T e k v h)

/-- Invariant of every reachable tracker: the id of every up peer is the one registered for its key class. -/
def Track.Inv (K : Nat → Hdr → Key) (T : Track) : Prop :=
  ∀ i s, T.sess[i]? = some s → ∀ e ∈ s.up, Bmp.lookupKey (K i e.1) T.reg = some e.2

theorem Track.Inv_init (K : Nat → Hdr → Key) : Track.init.Inv K := by
  intro i s hs
  simp [Track.init] at hs

theorem TSess.step_up_sub (K1 : Hdr → Key) (s : TSess) (reg : List (Key × Mui)) (next : Mui) (m : Msg)
    (hi : ∀ e ∈ s.up, Bmp.lookupKey (K1 e.1) reg = some e.2) :
    ∀ e ∈ (s.step K1 reg next m).s.up, Bmp.lookupKey (K1 e.1) (s.step K1 reg next m).reg = some e.2 := by
  unfold TSess.step
  cases s.life with
  | fresh => cases m <;> exact hi
  | dead => exact hi
  | live =>
    cases m with
    | peerUp h' e c =>
      simp only
      cases Bmp.lookupUp h' s.up with
      | some _ => exact fun e he => lookupKey_regFor_stable _ _ _ _ _ (hi e he)
      | none =>
        intro e he
        simp only [List.mem_append, List.mem_singleton] at he
        rcases he with he | rfl
        · exact lookupKey_regFor_stable _ _ _ _ _ (hi e he)
        · exact lookupKey_regFor_self _ _ _
    | peerDown h' =>
      simp only
      cases Bmp.lookupUp h' s.up with
      | some _ => exact fun e he => hi e (List.mem_filter.mp he).1
      | none => exact hi
    | routeMon h' t u => simp only; cases Bmp.lookupUp h' s.up <;> exact hi
    | term => exact fun e he => nomatch he
    | init => exact hi
    | stats _ => exact hi
    | mirror _ => exact hi

theorem Track.Inv_step (K : Nat → Hdr → Key) (T : Track) (e : Ev) (hi : T.Inv K) : (T.step K e).1.Inv K := by
  cases e with
  | connect rk =>
    intro i s hs e he
    simp only [Track.step] at hs ⊢
    rw [List.getElem?_append] at hs
    split at hs
    · exact lookupKey_regFor_stable _ _ _ _ _ (hi i s hs e he)
    · rw [List.getElem?_singleton] at hs
      split at hs
      · cases hs; cases he
      · cases hs
  | msg i m =>
    simp only [Track.step]
    cases hg : T.sess[i]? with
    | none => exact hi
    | some s0 =>
      intro j s hs e he
      simp only at hs ⊢
      rw [List.getElem?_set] at hs
      split at hs
      · rename_i hij
        subst hij
        split at hs
        · cases hs
          exact TSess.step_up_sub (K i) s0 T.reg T.next m (hi i s0 hg) e he
        · cases hs
      · exact TSess.step_reg_stable (K i) s0 T.reg T.next m _ _ (hi j s hs e he)
  | disconnect i =>
    simp only [Track.step]
    cases hg : T.sess[i]? with
    | none => exact hi
    | some s0 =>
      have key : (⟨T.sess.set i ⟨.dead, []⟩, T.reg, T.next, T.rids, T.par⟩ : Track).Inv K := by
        intro j s hs e he
        simp only at hs ⊢
        rw [List.getElem?_set] at hs
        split at hs
        · split at hs
          · cases hs; cases he
          · cases hs
        · exact hi j s hs e he
      simp only
      cases s0.life with
      | dead => exact hi
      | fresh => exact key
      | live => exact key

theorem Track.Inv_runFrom (K : Nat → Hdr → Key) (H : History) (T : Track) (hi : T.Inv K) :
    (T.runFrom K H).Inv K := by
  induction H generalizing T with
  | nil => exact hi
  | cons e H ih => exact ih _ (Track.Inv_step K T e hi)

/-! ### The sticky marker agrees with the intended reading unless a key is announced after a withdrawal of its id -/

/-- The property's reading of a session-level withdrawal: the routes of the id are withdrawn, and what the
    id announces afterwards is active again (= the `perRecordWithdraw` variant of `Model/Rib.lean`). -/
def intended (vr : Rib.Variant) : Rib.Variant := { vr with perRecordWithdraw := true }

/-- Decidable guard: does some event announce key `(mc, p, m)` after a session-level withdrawal of `m`?
    (`d` = such a withdrawal has been seen.) -/
def annAfterDown (mc : Bool) (p : Rib.Prefix) (m : Mui) : Bool → Rib.History → Bool
  | _, [] => false
  | d, e :: h => (d && e.announces mc p m) || annAfterDown mc p m (d || e.downs m) h

theorem setWithdrawn_comp : Rib.setWithdrawn ∘ Rib.setWithdrawn = Rib.setWithdrawn := funext fun _ => rfl

theorem specUpd_intended (vr : Rib.Variant) (mc : Bool) (p : Rib.Prefix) (e : Option Rib.Val) (u : Rib.Upd) :
    Rib.specUpd (intended vr) mc p e u = Rib.specUpd vr mc p e u := by
  cases u <;> rfl

theorem entry_intended (vr : Rib.Variant) (hv : vr.perRecordWithdraw = false) (mc : Bool) (p : Rib.Prefix) (m : Mui)
    (h : Rib.History) (s s' : Rib.Abs) (d : Bool)
    (hd : s.down = d) (hd' : s'.down = false) (he : s'.e = if d then s.e.map Rib.setWithdrawn else s.e)
    (hg : annAfterDown mc p m d h = false) :
    (h.foldl (Rib.specEv vr mc p m) s).entry = (h.foldl (Rib.specEv (intended vr) mc p m) s').entry := by
  induction h generalizing s s' d with
  | nil =>
    simp only [List.foldl_nil, Rib.Abs.entry, hd, hd', he]
    cases d <;> cases s.e <;> simp
  | cons e h ih =>
    simp only [annAfterDown, Bool.or_eq_false_iff] at hg
    rw [List.foldl_cons, List.foldl_cons]
    have key : (Rib.specEv vr mc p m s e).down = (d || e.downs m) ∧
        (Rib.specEv (intended vr) mc p m s' e).down = false ∧
        (Rib.specEv (intended vr) mc p m s' e).e
          = if (d || e.downs m) = true then (Rib.specEv vr mc p m s e).e.map Rib.setWithdrawn
            else (Rib.specEv vr mc p m s e).e := by
      have hdn : ∀ b : Bool, (Rib.specDown vr s).down = true ∧ (Rib.specDown (intended vr) s').down = false ∧
          (Rib.specDown (intended vr) s').e = if (b || true) = true then (Rib.specDown vr s).e.map Rib.setWithdrawn
            else (Rib.specDown vr s).e := by
        intro b
        simp only [Rib.specDown, hv, intended, Bool.false_eq_true, if_false, if_true, hd', Bool.or_true, he]
        cases d <;> simp [setWithdrawn_comp]
      cases e with
      | upd m' u =>
        simp only [Rib.specEv, Rib.Ev.downs, Bool.or_false]
        by_cases hm : m' = m
        · simp only [hm, if_true, hd, hd', specUpd_intended, he, true_and]
          cases d with
          | false => simp
          | true =>
            simp only [if_true]
            cases u with
            | malformed => rfl
            | ok a ann wd =>
              have hna := hg.1
              simp only [Bool.true_and, Rib.Ev.announces, hm, decide_true, List.contains_eq_mem,
                decide_eq_false_iff_not] at hna
              simp only [Rib.specUpd, hna, decide_false, Bool.false_eq_true, if_false]
              cases vr.overlapFix <;> by_cases hW : (⟨p, Rib.safiOf mc⟩ : Rib.Nlri) ∈ wd <;>
                simp [hW, setWithdrawn_comp]
        · simp [hm, hd, hd', he]
      | down m' =>
        simp only [Rib.specEv, Rib.Ev.downs]
        by_cases hm : m' = m
        · simpa [hm, hd] using hdn d
        · simp [hm, hd, hd', he]
      | downBulk ms =>
        simp only [Rib.specEv, Rib.Ev.downs, List.contains_eq_mem]
        by_cases hm : m ∈ ms
        · simpa [hm, hd] using hdn d
        · simp [hm, hd, hd', he]
    exact ih _ _ _ key.1 key.2.1 key.2.2 hg.2

/-- As written vs. the intended reading, per key and for every RIB history: the reported entry is the
    same unless the key is announced again after a session-level withdrawal of its id. -/
theorem specRun_entry_intended (vr : Rib.Variant) (hv : vr.perRecordWithdraw = false) (mc : Bool) (p : Rib.Prefix)
    (m : Mui) (h : Rib.History) (hg : annAfterDown mc p m false h = false) :
    (Rib.specRun vr mc p m h).entry = (Rib.specRun (intended vr) mc p m h).entry :=
  entry_intended vr hv mc p m h _ _ false rfl rfl rfl hg

/-! ### Single steps of the composed model, spelled out (C02) -/

@[simp] theorem newChildren_self (rid n : Mui) : newChildren rid n n = [] := by simp [newChildren]

theorem newChildren_succ (rid n : Mui) : newChildren rid n (n + 1) = [(n, rid)] := by simp [newChildren]

theorem lifeOf_terminated : lifeOf .terminated = .dead := rfl

theorem lifeOf_live {ph : Bmp.Phase} (hl : ph = .dumping ∨ ph = .updating) : lifeOf ph = .live := by
  rcases hl with hl | hl <;> rw [hl] <;> rfl

theorem set_self {α : Type} (l : List α) (i : Nat) (a : α) (h : l[i]? = some a) : l.set i a = l := by
  obtain ⟨hi, rfl⟩ := List.getElem?_eq_some_iff.mp h
  exact List.set_getElem_self hi

theorem getElem?_set_other {α : Type} (l : List α) (i j : Nat) (a : α) (h : j ≠ i) : (l.set i a)[j]? = l[j]? := by
  rw [List.getElem?_set]
  simp [Ne.symm h]

theorem stepCore_peerDown (vb : Bmp.Variant) (K1 : Hdr → Key) (st : Bmp.State) (h : Hdr)
    (hl : st.phase = .dumping ∨ st.phase = .updating) :
    Bmp.stepCore vb K1 st (.peerDown h) = Bmp.peerDown vb st h := by
  unfold Bmp.stepCore
  rcases hl with hl | hl <;> rw [hl]

theorem stepCore_term (vb : Bmp.Variant) (K1 : Hdr → Key) (st : Bmp.State)
    (hl : st.phase = .dumping ∨ st.phase = .updating) :
    Bmp.stepCore vb K1 st .term = Bmp.terminate st := by
  unfold Bmp.stepCore
  rcases hl with hl | hl <;> rw [hl]

theorem stepCore_idle (vb : Bmp.Variant) (K1 : Hdr → Key) (st : Bmp.State) (h : Hdr)
    (hl : st.phase = .initiating ∨ st.phase = .terminated) :
    Bmp.stepCore vb K1 st (.peerDown h) = ⟨st, .invalid, []⟩ := by
  unfold Bmp.stepCore
  rcases hl with hl | hl <;> rw [hl]

/-- Peer Down of a header that is up, in either phase in which peers can be up, whatever the pending
    End-of-RIB bookkeeping: the peer is erased and `Withdraw(its id, None)` reaches the RIB. -/
theorem World.step_peerDown (v : Variant) (K : Nat → Hdr → Key) (w : World) (i : Nat) (h : Hdr) (s : Sess) (p : Bmp.Peer)
    (hs : w.sess[i]? = some s) (hl : s.phase = .dumping ∨ s.phase = .updating) (hf : Bmp.findPeer h s.peers = some p) :
    w.step v K (.msg i (.peerDown h)) =
      { w with sess := w.sess.set i ⟨s.phase, Bmp.erasePeer h s.peers⟩,
               rib := w.rib.withdrawForIngress v.rib p.mui none } := by
  simp only [World.step, hs, Bmp.step_st, Bmp.step_out, Msg.toBmp]
  rw [stepCore_peerDown v.bmp (K i) (w.view s) h hl]
  simp [World.view, Bmp.peerDown, hf, emit, Rib.Rib.applyAll, Rib.Rib.apply, lifeOf_live hl, endedBy]

/-- Peer Down of a header that is not up (any phase): nothing at all changes. -/
theorem World.step_peerDown_reject (v : Variant) (K : Nat → Hdr → Key) (w : World) (i : Nat) (h : Hdr) (s : Sess)
    (hs : w.sess[i]? = some s) (hf : Bmp.findPeer h s.peers = none) :
    w.step v K (.msg i (.peerDown h)) = w := by
  simp only [World.step, hs, Bmp.step_st, Bmp.step_out, Msg.toBmp]
  have h1 : Bmp.stepCore v.bmp (K i) (w.view s) (.peerDown h) = ⟨w.view s, .invalid, []⟩ := by
    cases hp : s.phase
    · exact stepCore_idle _ _ _ _ (Or.inl hp)
    · rw [stepCore_peerDown _ _ _ _ (Or.inl hp)]; simp [Bmp.peerDown, World.view, hf]
    · rw [stepCore_peerDown _ _ _ _ (Or.inr hp)]; simp [Bmp.peerDown, World.view, hf]
    · exact stepCore_idle _ _ _ _ (Or.inr hp)
  rw [h1]
  have he : endedBy (lifeOf s.phase) (lifeOf s.phase) = false := by cases s.phase <;> rfl
  simp [World.view, emit, Rib.Rib.applyAll, set_self _ _ _ hs, he]

/-- Termination in either live phase: the session ends with an empty peer table;
    `WithdrawBulk(ids of the up peers)` reaches the RIB (nothing, when no peer is up), the handler leaves
    its read loop and its epilogue sends `WithdrawBulk(ids_for_parent(router id))`. -/
theorem World.step_term (v : Variant) (K : Nat → Hdr → Key) (w : World) (i : Nat) (s : Sess)
    (hs : w.sess[i]? = some s) (hl : s.phase = .dumping ∨ s.phase = .updating) :
    w.step v K (.msg i .term) =
      { w with sess := w.sess.set i ⟨.terminated, []⟩,
               rib := (idsForParent (w.rids.getD i 0) w.par).foldl (fun r m => r.withdrawForIngress v.rib m none)
                 ((s.peers.map (·.mui)).foldl (fun r m => r.withdrawForIngress v.rib m none) w.rib) } := by
  simp only [World.step, hs, Bmp.step_st, Bmp.step_out, Msg.toBmp]
  rw [stepCore_term v.bmp (K i) (w.view s) hl]
  unfold Bmp.terminate
  simp only [World.view]
  cases hm : s.peers.map (·.mui) with
  | nil => simp [emit, Rib.Rib.applyAll, Rib.Rib.apply, lifeOf_live hl, lifeOf_terminated, endedBy, epilogue]
  | cons a b => simp [emit, Rib.Rib.applyAll, Rib.Rib.apply, lifeOf_live hl, lifeOf_terminated, endedBy, epilogue]

/-- The connection is lost (no Termination message) in any phase in which it is still read: the epilogue
    alone reaches the RIB; the state machine is dropped. -/
theorem World.step_disconnect (v : Variant) (K : Nat → Hdr → Key) (w : World) (i : Nat) (s : Sess)
    (hs : w.sess[i]? = some s) (hl : s.phase ≠ .terminated) :
    w.step v K (.disconnect i) =
      { w with sess := w.sess.set i ⟨.terminated, []⟩,
               rib := (idsForParent (w.rids.getD i 0) w.par).foldl (fun r m => r.withdrawForIngress v.rib m none) w.rib } := by
  simp only [World.step, hs]
  cases hp : s.phase with
  | terminated => exact absurd hp hl
  | initiating => simp [lifeOf, epilogue, Rib.Rib.applyAll, Rib.Rib.apply]
  | dumping => simp [lifeOf, epilogue, Rib.Rib.applyAll, Rib.Rib.apply]
  | updating => simp [lifeOf, epilogue, Rib.Rib.applyAll, Rib.Rib.apply]

/-! ### C03 at the RIB level for every variant that keeps the global marker

`Props/C03.lean` states `C03_flap_exact` / `C03_partial` for `Rib.asWritten` (`overlapFix = false`). The overlap
defect has been repaired in the tree since, so the code is `{overlapFix := true, perRecordWithdraw := false}`;
the two lemmas below are the same statements for every variant with `perRecordWithdraw = false`. -/

theorem down_sticky (vr : Rib.Variant) (hv : vr.perRecordWithdraw = false) (mc : Bool) (p : Rib.Prefix) (m : Mui)
    (h : Rib.History) (s : Rib.Abs) :
    (h.foldl (Rib.specEv vr mc p m) s).down = (s.down || h.any (Rib.Ev.downs m)) := by
  induction h generalizing s with
  | nil => simp
  | cons e h ih =>
    rw [List.foldl_cons, ih, List.any_cons]
    cases e with
    | upd m' u => simp only [Rib.specEv, Rib.Ev.downs]; by_cases hm : m' = m <;> simp [hm]
    | down m' =>
      simp only [Rib.specEv, Rib.specDown, hv, Rib.Ev.downs]
      by_cases hm : m' = m <;> simp [hm]
    | downBulk ms =>
      simp only [Rib.specEv, Rib.specDown, hv, Rib.Ev.downs, List.contains_eq_mem]
      by_cases hm : m ∈ ms <;> simp [hm]

theorem flap_exact (vr : Rib.Variant) (hv : vr.perRecordWithdraw = false) (h1 h2 : Rib.History) (mc : Bool)
    (p : Rib.Prefix) (m : Mui) (a : Rib.AttrId) (ann wd : List Rib.Nlri)
    (hA : (⟨p, Rib.safiOf mc⟩ : Rib.Nlri) ∈ ann) (hW : (⟨p, Rib.safiOf mc⟩ : Rib.Nlri) ∉ wd)
    (h2u : h2.all (fun e => !(e.touches mc p m)) = true) :
    (Rib.run vr (h1 ++ .upd m (.ok a ann wd) :: h2)).entry mc p m
      = some (if h1.any (Rib.Ev.downs m) then .withdrawn else .active, a) := by
  rw [Rib.Rib.entry_eq_abs, Rib.abs_after_announce vr h1 h2 mc p m a ann wd hA hW h2u, Rib.abs_run, Rib.specRun,
    down_sticky vr hv]
  cases h1.any (Rib.Ev.downs m) <;> simp [Rib.Abs.entry, Rib.setWithdrawn]

/-! ### Single steps of the tracker, spelled out (C03) -/

theorem Track.step_peerDown (K : Nat → Hdr → Key) (T : Track) (i : Nat) (h : Hdr) (s : TSess) (m : Mui)
    (hs : T.sess[i]? = some s) (hl : s.life = .live) (hu : Bmp.lookupUp h s.up = some m) :
    T.step K (.msg i (.peerDown h)) =
      ({ T with sess := T.sess.set i ⟨.live, s.up.filter (fun e => e.1 != h)⟩ }, [.down m]) := by
  simp [Track.step, hs, TSess.step, hl, hu, endedBy]

theorem Track.step_peerUp (K : Nat → Hdr → Key) (T : Track) (i : Nat) (h : Hdr) (e c : Bool) (s : TSess) (m : Mui)
    (hs : T.sess[i]? = some s) (hl : s.life = .live) (hu : Bmp.lookupUp h s.up = none)
    (hk : Bmp.lookupKey (K i h) T.reg = some m) :
    T.step K (.msg i (.peerUp h e c)) = ({ T with sess := T.sess.set i ⟨.live, s.up ++ [(h, m)]⟩ }, []) := by
  simp [Track.step, hs, TSess.step, hl, hu, regFor_of_lookup _ _ _ _ hk, endedBy]

theorem Track.step_routeMon (K : Nat → Hdr → Key) (T : Track) (i : Nat) (h : Hdr) (t : Bmp.Rm) (u : Rib.Upd) (s : TSess)
    (m : Mui) (hs : T.sess[i]? = some s) (hl : s.life = .live) (hu : Bmp.lookupUp h s.up = some m)
    (hd : deliverable t = true) :
    T.step K (.msg i (.routeMon h t u)) = (T, [.upd m u]) := by
  simp [Track.step, hs, TSess.step, hl, hu, hd, set_self _ _ _ hs, endedBy]

theorem Track.step_term (K : Nat → Hdr → Key) (T : Track) (i : Nat) (s : TSess)
    (hs : T.sess[i]? = some s) (hl : s.life = .live) (hne : s.up ≠ []) :
    T.step K (.msg i .term) = ({ T with sess := T.sess.set i ⟨.dead, []⟩ },
      [.downBulk (s.up.map (·.2)), .downBulk (idsForParent (T.rids.getD i 0) T.par)]) := by
  simp only [Track.step, hs, TSess.step, hl]
  cases hm : s.up with
  | nil => exact absurd hm hne
  | cons a b => simp [endedBy]

theorem Track.step_disconnect (K : Nat → Hdr → Key) (T : Track) (i : Nat) (s : TSess)
    (hs : T.sess[i]? = some s) (hl : s.life ≠ .dead) :
    T.step K (.disconnect i) = ({ T with sess := T.sess.set i ⟨.dead, []⟩ },
      [.downBulk (idsForParent (T.rids.getD i 0) T.par)]) := by
  cases hp : s.life with
  | dead => exact absurd hp hl
  | fresh => simp [Track.step, hs, hp]
  | live => simp [Track.step, hs, hp]

/-- Peer Down then Peer Up of header `h` on session `i`. -/
def flapMsgs (i : Nat) (h : Hdr) (e c : Bool) : History := [.msg i (.peerDown h), .msg i (.peerUp h e c)]

/-- **A returning peer gets its ingress id back, and its first announcement is preceded by a
    session-level withdrawal of that id.** Peer Down then Peer Up of a header that is up with id `m`:
    afterwards it is up with id `m` again, the register is unchanged, and the RIB has seen `down m`. -/
theorem Track.flap_segment (K : Nat → Hdr → Key) (T : Track) (hi : T.Inv K) (i : Nat) (h : Hdr) (e c : Bool)
    (s : TSess) (m : Mui) (hs : T.sess[i]? = some s) (hl : s.life = .live) (hu : Bmp.lookupUp h s.up = some m) :
    ∃ s2, (T.runFrom K (flapMsgs i h e c)).sess[i]? = some s2 ∧ s2.life = .live ∧
      Bmp.lookupUp h s2.up = some m ∧ traceFrom K T (flapMsgs i h e c) = [.down m] ∧
      (T.runFrom K (flapMsgs i h e c)).reg = T.reg := by
  unfold flapMsgs
  have hlt : i < T.sess.length := (List.getElem?_eq_some_iff.mp hs).1
  have hk : Bmp.lookupKey (K i h) T.reg = some m := hi i s hs (h, m) (lookupUp_mem hu)
  have h1 := Track.step_peerDown K T i h s m hs hl hu
  have hs1 : (T.step K (.msg i (.peerDown h))).1.sess[i]? = some ⟨.live, s.up.filter (fun e => e.1 != h)⟩ := by
    rw [h1]; simp [hlt]
  have h2 := Track.step_peerUp K (T.step K (.msg i (.peerDown h))).1 i h e c _ m hs1 rfl
    (lookupUp_filter_self h s.up) (by rw [h1]; exact hk)
  refine ⟨⟨.live, s.up.filter (fun e => e.1 != h) ++ [(h, m)]⟩, ?_, rfl, ?_, ?_, ?_⟩
  · simp only [Track.runFrom, List.foldl_cons, List.foldl_nil, h2]
    rw [h1]; simp [hlt]
  · exact lookupUp_append_new h m _ (lookupUp_filter_self h s.up)
  · simp only [traceFrom, h2, List.append_nil]
    rw [h1]
  · simp only [Track.runFrom, List.foldl_cons, List.foldl_nil, h2]
    rw [h1]

/-! ### Connection loss: **what the handler's epilogue names beyond the session's own peers is already
withdrawn**, so the RIB history the code produces (`trace`: `WithdrawBulk(ids_for_parent(router id))` at every
session end) and the one the property asks for (`want`: the ids of the peers that were up on that session)
have the same effect on every key — for every BMP history in which the epilogue's ids are the session's own
(`Track.tidyAt`, a decidable condition on the tracker: the up peers of the ending session are registered under
its router id, and no id registered under that router id is up on another connection).
-/

/-- Id `m` is the id of some header that is up on some tracked session. -/
def upL (ss : List TSess) (m : Mui) : Prop := ∃ (j : Nat) (s : TSess) (h : Hdr), ss[j]? = some s ∧ Bmp.lookupUp h s.up = some m

theorem upL_set {ss : List TSess} {i : Nat} {s s' : TSess} {m : Mui} (hs : ss[i]? = some s)
    (hk : ∀ h, Bmp.lookupUp h s.up = some m → ∃ h', Bmp.lookupUp h' s'.up = some m) :
    upL ss m → upL (ss.set i s') m := by
  rintro ⟨j, sj, h, hj, hu⟩
  by_cases hji : j = i
  · subst hji
    rw [hs] at hj; cases hj
    obtain ⟨h', hu'⟩ := hk h hu
    have hlt := (List.getElem?_eq_some_iff.mp hs).1
    exact ⟨j, s', h', by simp [hlt], hu'⟩
  · exact ⟨j, sj, h, by rw [getElem?_set_other _ _ _ _ hji]; exact hj, hu⟩

theorem upL_append {ss : List TSess} {t : TSess} {m : Mui} : upL ss m → upL (ss ++ [t]) m := by
  rintro ⟨j, sj, h, hj, hu⟩
  have hlt := (List.getElem?_eq_some_iff.mp hj).1
  exact ⟨j, sj, h, by rw [List.getElem?_append_left hlt]; exact hj, hu⟩

theorem specDown_idem (vr : Rib.Variant) (S : Rib.Abs) : Rib.specDown vr (Rib.specDown vr S) = Rib.specDown vr S := by
  unfold Rib.specDown
  cases vr.perRecordWithdraw <;> simp [Option.map_map, setWithdrawn_comp]

theorem foldl_bulkOpt (vr : Rib.Variant) (mc : Bool) (p : Rib.Prefix) (m : Mui) (S : Rib.Abs) (ids : List Mui) :
    (match ids with | [] => [] | ids => [Rib.Ev.downBulk ids]).foldl (Rib.specEv vr mc p m) S
      = if m ∈ ids then Rib.specDown vr S else S := by
  cases ids with
  | nil => simp
  | cons a b => simp [Rib.specEv]

theorem mem_idsForParent {m rid : Mui} {par : List (Mui × Mui)} :
    m ∈ idsForParent rid par ↔ (m, rid) ∈ par := by
  simp only [idsForParent, List.mem_map, List.mem_filter, beq_iff_eq]
  constructor
  · rintro ⟨⟨a, b⟩, ⟨h1, h2⟩, h3⟩
    simp only at h2 h3
    subst h2; subst h3
    exact h1
  · intro h
    exact ⟨(m, rid), ⟨h, rfl⟩, rfl⟩

theorem lookupUp_append_of_some {h : Hdr} {m : Mui} {up : List (Hdr × Mui)} (x : List (Hdr × Mui))
    (hl : Bmp.lookupUp h up = some m) : Bmp.lookupUp h (up ++ x) = some m := by
  induction up with
  | nil => simp [Bmp.lookupUp] at hl
  | cons e up ih =>
    simp only [Bmp.lookupUp, List.cons_append] at hl ⊢
    by_cases he : e.1 = h
    · simpa [he] using hl
    · simp only [he, if_false] at hl ⊢
      exact ih hl

/-- The condition under which the epilogue of connection `i` names the session's own ids only: the up peers of
    the session are registered under its router id, and nothing registered under that router id is up on
    another connection. -/
def Track.tidyAt (T : Track) (i : Nat) : Prop :=
  (∀ e ∈ (T.sess.getD i ⟨.dead, []⟩).up, e.2 ∈ idsForParent (T.rids.getD i 0) T.par) ∧
  (∀ m ∈ idsForParent (T.rids.getD i 0) T.par, ∀ j < T.sess.length, j ≠ i →
      m ∉ ((T.sess.getD j ⟨.dead, []⟩).up.map (·.2)))

instance (T : Track) (i : Nat) : Decidable (T.tidyAt i) := by
  unfold Track.tidyAt
  infer_instance

/-- The guard, per event: only session ends (a lost connection, a Termination message) are constrained. -/
def Track.tidy (T : Track) : Ev → Bool
  | .disconnect i => decide (T.tidyAt i)
  | .msg i .term => decide (T.tidyAt i)
  | _ => true

def tidyFrom (K : Nat → Hdr → Key) : Track → History → Bool
  | _, [] => true
  | T, e :: H => T.tidy e && tidyFrom K (T.step K e).1 H

/-- Per-key invariant: an id that has a parent entry is up somewhere, or a withdrawal of it changes nothing. -/
def Settled (vr : Rib.Variant) (T : Track) (m : Mui) (S : Rib.Abs) : Prop :=
  m ∈ T.par.map (·.1) → upL T.sess m ∨ Rib.specDown vr S = S

theorem getD_of_getElem? {ss : List TSess} {i : Nat} {s : TSess} (d : TSess) (h : ss[i]? = some s) :
    ss.getD i d = s := by
  simp [List.getD, h]

/-- The heart: at the end of session `i` (its up peers `s.up`), what the epilogue adds to the withdrawal of the
    session's own ids changes nothing for key `m`, and the invariant survives. -/
theorem loss_core (vr : Rib.Variant) (T : Track) (m : Mui) (S : Rib.Abs) (i : Nat) (s : TSess)
    (hg : T.sess[i]? = some s) (ht : T.tidyAt i) (hq : Settled vr T m S) :
    let ch := idsForParent (T.rids.getD i 0) T.par
    let S1 := if m ∈ s.up.map (·.2) then Rib.specDown vr S else S
    (m ∈ s.up.map (·.2) → m ∈ ch) ∧
    (if m ∈ ch then Rib.specDown vr S1 else S1) = S1 ∧
    Settled vr { T with sess := T.sess.set i ⟨.dead, []⟩ } m S1 := by
  intro ch S1
  have hgd := getD_of_getElem? ⟨.dead, []⟩ hg
  have hlt := (List.getElem?_eq_some_iff.mp hg).1
  -- an id that is up somewhere but not on session `i` is up on another session
  have hup : ¬ m ∈ s.up.map (·.2) → upL T.sess m → ∃ j sj, j ≠ i ∧ T.sess[j]? = some sj ∧ m ∈ sj.up.map (·.2) := by
    rintro hn ⟨j, sj, h, hj, hu⟩
    have hmem : m ∈ sj.up.map (·.2) := List.mem_map.mpr ⟨(h, m), lookupUp_mem hu, rfl⟩
    by_cases hji : j = i
    · subst hji; rw [hg] at hj; cases hj; exact absurd hmem hn
    · exact ⟨j, sj, hji, hj, hmem⟩
  refine ⟨?_, ?_, ?_⟩
  · intro hm
    obtain ⟨e, he, rfl⟩ := List.mem_map.mp hm
    have := ht.1 e (by rw [hgd]; exact he)
    exact this
  · by_cases hc : m ∈ ch
    · simp only [hc, if_true]
      by_cases hm : m ∈ s.up.map (·.2)
      · simp only [S1, hm, if_true, specDown_idem]
      · simp only [S1, hm, if_false]
        have hpar : m ∈ T.par.map (·.1) := List.mem_map.mpr ⟨(m, _), mem_idsForParent.mp hc, rfl⟩
        rcases hq hpar with hu | hfix
        · obtain ⟨j, sj, hji, hj, hmem⟩ := hup hm hu
          have hjl := (List.getElem?_eq_some_iff.mp hj).1
          have := ht.2 m hc j hjl hji
          rw [getD_of_getElem? _ hj] at this
          exact absurd hmem this
        · exact hfix
    · simp only [hc, if_false]
  · intro hpar
    by_cases hm : m ∈ s.up.map (·.2)
    · right; simp only [S1, hm, if_true, specDown_idem]
    · simp only [S1, hm, if_false]
      rcases hq hpar with hu | hfix
      · left
        obtain ⟨j, sj, h, hj, hu'⟩ := hu
        have hmem : m ∈ sj.up.map (·.2) := List.mem_map.mpr ⟨(h, m), lookupUp_mem hu', rfl⟩
        by_cases hji : j = i
        · subst hji; rw [hg] at hj; cases hj; exact absurd hmem hm
        · exact ⟨j, sj, h, by rw [getElem?_set_other _ _ _ _ hji]; exact hj, hu'⟩
      · right; exact hfix

/-- A message that leaves the session's up peers, the parent table and the key alone. -/
theorem settled_same (vr : Rib.Variant) (T : Track) (m : Mui) (S : Rib.Abs) (i : Nat) (s s' : TSess)
    (reg : List (Key × Mui)) (next : Mui) (hg : T.sess[i]? = some s) (hup : s'.up = s.up) (hq : Settled vr T m S) :
    Settled vr ⟨T.sess.set i s', reg, next, T.rids, T.par⟩ m S := by
  intro hpar
  rcases hq hpar with hu | hfix
  · exact Or.inl (upL_set hg (fun h hh => ⟨h, by rw [hup]; exact hh⟩) hu)
  · exact Or.inr hfix

/-- **One event.** For every key: the events that reach the RIB and the events the property asks for have the same
    effect, and the invariant is kept. -/
theorem settle_step (vr : Rib.Variant) (mc : Bool) (p : Rib.Prefix) (m : Mui) (K : Nat → Hdr → Key)
    (T : Track) (S : Rib.Abs) (e : Ev) (hi : T.Inv K) (hq : Settled vr T m S) (ht : T.tidy e = true) :
    (T.step K e).2.foldl (Rib.specEv vr mc p m) S = (T.want K e).foldl (Rib.specEv vr mc p m) S ∧
    Settled vr (T.step K e).1 m ((T.want K e).foldl (Rib.specEv vr mc p m) S) := by
  cases e with
  | connect rk =>
    simp only [Track.step, Track.want, List.foldl_nil, true_and]
    intro hm
    rcases hq hm with h | h
    · exact Or.inl (upL_append h)
    · exact Or.inr h
  | disconnect i =>
    simp only [Track.tidy, decide_eq_true_eq] at ht
    simp only [Track.step, Track.want]
    cases hg : T.sess[i]? with
    | none => exact ⟨rfl, hq⟩
    | some s =>
      simp only
      obtain ⟨h1, h2, h3⟩ := loss_core vr T m S i s hg ht hq
      have hend : s.endEvs.foldl (Rib.specEv vr mc p m) S = if m ∈ s.up.map (·.2) then Rib.specDown vr S else S := by
        unfold TSess.endEvs
        exact foldl_bulkOpt vr mc p m S _
      have hcode : ([Rib.Ev.downBulk (idsForParent (T.rids.getD i 0) T.par)] : List Rib.Ev).foldl (Rib.specEv vr mc p m) S
          = if m ∈ s.up.map (·.2) then Rib.specDown vr S else S := by
        simp only [List.foldl_cons, List.foldl_nil, Rib.specEv]
        by_cases hm : m ∈ s.up.map (·.2)
        · simp only [hm, if_true, h1 hm]
        · simp only [hm, if_false] at h2 ⊢
          exact h2
      cases hl : s.life with
      | dead => simp only [List.foldl_nil, true_and]; exact hq
      | fresh => simp only; rw [hend, hcode]; exact ⟨rfl, h3⟩
      | live => simp only; rw [hend, hcode]; exact ⟨rfl, h3⟩
  | msg i msg =>
    simp only [Track.step, Track.want]
    cases hg : T.sess[i]? with
    | none => exact ⟨rfl, hq⟩
    | some s =>
      simp only
      cases hl : s.life with
      | dead =>
        simp only [TSess.step, hl, endedBy, List.append_nil, List.foldl_nil, newChildren_self, true_and]
        exact settled_same vr T m S i s s T.reg T.next hg rfl hq
      | fresh =>
        cases msg <;>
          simp only [TSess.step, hl, endedBy, List.append_nil, List.foldl_nil, newChildren_self, true_and] <;>
          first
            | exact settled_same vr T m S i s s T.reg T.next hg rfl hq
            | exact settled_same vr T m S i s ⟨.live, s.up⟩ T.reg T.next hg rfl hq
      | live =>
        cases msg with
        | init =>
          simp only [TSess.step, hl, endedBy, List.append_nil, List.foldl_nil, newChildren_self, true_and]
          exact settled_same vr T m S i s s T.reg T.next hg rfl hq
        | stats h =>
          simp only [TSess.step, hl, endedBy, List.append_nil, List.foldl_nil, newChildren_self, true_and]
          exact settled_same vr T m S i s s T.reg T.next hg rfl hq
        | mirror h =>
          simp only [TSess.step, hl, endedBy, List.append_nil, List.foldl_nil, newChildren_self, true_and]
          exact settled_same vr T m S i s s T.reg T.next hg rfl hq
        | routeMon h t u =>
          simp only [TSess.step, hl]
          cases hu : Bmp.lookupUp h s.up with
          | none =>
            simp only [hl, endedBy, List.append_nil, List.foldl_nil, newChildren_self, true_and]
            exact settled_same vr T m S i s s T.reg T.next hg rfl hq
          | some mui =>
            simp only [hl, endedBy, List.append_nil, newChildren_self, true_and]
            cases deliverable t with
            | false => exact settled_same vr T m S i s s T.reg T.next hg rfl hq
            | true =>
              simp only [List.foldl_cons, List.foldl_nil, Rib.specEv]
              by_cases hm : mui = m
              · subst hm
                intro _
                have hlt := (List.getElem?_eq_some_iff.mp hg).1
                exact Or.inl ⟨i, s, h, by simp [hlt], hu⟩
              · simp only [hm, if_false]
                exact settled_same vr T m S i s s T.reg T.next hg rfl hq
        | peerDown h =>
          simp only [TSess.step, hl]
          cases hu : Bmp.lookupUp h s.up with
          | none =>
            simp only [hl, endedBy, List.append_nil, List.foldl_nil, newChildren_self, true_and]
            exact settled_same vr T m S i s s T.reg T.next hg rfl hq
          | some mui =>
            simp only [endedBy, List.append_nil, newChildren_self, true_and, List.foldl_cons, List.foldl_nil, Rib.specEv]
            intro hpar
            by_cases hm : mui = m
            · right; simp only [hm, if_true, specDown_idem]
            · simp only [hm, if_false]
              rcases hq hpar with hup | hfix
              · left
                refine upL_set hg ?_ hup
                intro h' hh'
                by_cases hh : h' = h
                · subst hh; rw [hu] at hh'; cases hh'; exact absurd rfl hm
                · exact ⟨h', by simp only; rw [lookupUp_filter_other h h' hh]; exact hh'⟩
              · exact Or.inr hfix
        | peerUp h e c =>
          simp only [TSess.step, hl]
          cases hu : Bmp.lookupUp h s.up with
          | some mui =>
            -- the header is up already: its key class is registered, nothing changes
            have hk : Bmp.lookupKey (K i h) T.reg = some mui := hi i s hg (h, mui) (lookupUp_mem hu)
            simp only [regFor_of_lookup _ _ _ _ hk, hl, endedBy, List.append_nil, List.foldl_nil, newChildren_self, true_and]
            exact settled_same vr T m S i s s T.reg T.next hg rfl hq
          | none =>
            simp only [endedBy, List.append_nil, List.foldl_nil, true_and]
            cases hk : Bmp.lookupKey (K i h) T.reg with
            | some id =>
              simp only [regFor_of_lookup _ _ _ _ hk, newChildren_self, List.append_nil]
              intro hpar
              rcases hq hpar with hup | hfix
              · exact Or.inl (upL_set hg (fun h' hh' => ⟨h', lookupUp_append_of_some _ hh'⟩) hup)
              · exact Or.inr hfix
            | none =>
              have hr : regFor (K i h) T.reg T.next = (T.reg ++ [(K i h, T.next)], T.next + 1, T.next) := by
                simp [regFor, hk]
              simp only [hr, newChildren_succ]
              intro hpar
              simp only [List.map_append, List.map_cons, List.map_nil, List.mem_append, List.mem_singleton] at hpar
              have hlt := (List.getElem?_eq_some_iff.mp hg).1
              rcases hpar with hpar | rfl
              · rcases hq hpar with hup | hfix
                · exact Or.inl (upL_set hg (fun h' hh' => ⟨h', lookupUp_append_of_some _ hh'⟩) hup)
                · exact Or.inr hfix
              · exact Or.inl ⟨i, ⟨.live, s.up ++ [(h, T.next)]⟩, h, by simp [hlt], lookupUp_append_new h _ _ hu⟩
        | term =>
          simp only [Track.tidy, decide_eq_true_eq] at ht
          obtain ⟨h1, h2, h3⟩ := loss_core vr T m S i s hg ht hq
          simp only [TSess.step, hl, endedBy, newChildren_self, List.append_nil, List.foldl_append, List.foldl_cons,
            List.foldl_nil]
          cases hids : s.up.map (·.2) with
          | nil =>
            simp only [hids, List.not_mem_nil, if_false] at h2 h3
            simp only [List.foldl_nil, Rib.specEv]
            exact ⟨h2, h3⟩
          | cons a b =>
            simp only [hids] at h2 h3
            simp only [List.foldl_cons, List.foldl_nil, Rib.specEv]
            exact ⟨h2, h3⟩

theorem Settled_init (vr : Rib.Variant) (m : Mui) (S : Rib.Abs) : Settled vr Track.init m S := by
  intro h; simp [Track.init] at h

/-- **Every history.** From any tracker state that satisfies the invariants, along any history whose session ends
    are tidy: folding C01's per-key specification over what reaches the RIB and over what the property asks for
    gives the same abstract state. -/
theorem settle_run (vr : Rib.Variant) (mc : Bool) (p : Rib.Prefix) (m : Mui) (K : Nat → Hdr → Key) (H : History) :
    ∀ (T : Track) (S : Rib.Abs), T.Inv K → Settled vr T m S → tidyFrom K T H = true →
      (traceFrom K T H).foldl (Rib.specEv vr mc p m) S = (wantFrom K T H).foldl (Rib.specEv vr mc p m) S := by
  induction H with
  | nil => intro T S _ _ _; rfl
  | cons e H ih =>
    intro T S hi hq ht
    simp only [tidyFrom, Bool.and_eq_true] at ht
    obtain ⟨h1, h2⟩ := settle_step vr mc p m K T S e hi hq ht.1
    simp only [traceFrom, wantFrom, List.foldl_append]
    rw [h1]
    exact ih _ _ (Track.Inv_step K T e hi) h2 ht.2

end Rotonda.PipeBmp
