import RotondaModel.Model.HttpPages
import RotondaModel.Proofs.Escape
/-! Helper lemmas for HttpPages. Core Lean only. -/
namespace Rotonda.HttpPages
open Rotonda.Escape
open Rotonda.Escape.Generated
open Rotonda.HttpPages.Generated
open Rotonda.Http (Bytes startsWith stripPrefix Param getParam Matched)

/-- Two assignments that agree on the skeletons of what reaches the open holes give the same skeleton. -/
theorem skeleton_fill_congr (inp inp' : Env) (s : Seg)
    (h : ∀ e cls sl why, s = .hole e cls sl why → isOpenHole s = true → skeleton (inp e) = skeleton (inp' e)) :
    skeleton (fill inp s) = skeleton (fill inp' s) := by
  cases hs : isOpenHole s with
  | false => rw [skeleton_fill_closed inp s hs, skeleton_fill_closed inp' s hs]
  | true =>
    cases s with
    | lit s => simp [isOpenHole] at hs
    | hole e cls sl why =>
      have := h e cls sl why rfl hs
      cases cls with
      | escaped => simp [isOpenHole] at hs
      | safe => simp [isOpenHole] at hs
      | raw => simpa [fill] using this
      | nested => simpa [fill] using this

theorem skeleton_render_congr (t : Template) (inp inp' : Env)
    (h : ∀ s ∈ t, ∀ e cls sl why, s = .hole e cls sl why → isOpenHole s = true → skeleton (inp e) = skeleton (inp' e)) :
    skeleton (render t inp) = skeleton (render t inp') := by
  unfold render
  rw [skeleton_flatMap, skeleton_flatMap]
  induction t with
  | nil => rfl
  | cons s t ih =>
    simp only [List.flatMap_cons]
    rw [skeleton_fill_congr inp inp' s (h s List.mem_cons_self)]
    rw [ih (fun s' hs' => h s' (List.mem_cons_of_mem _ hs'))]

/-- The expressions of a template's open holes. -/
def openHoles (t : Template) : List String :=
  t.filterMap (fun | .hole e .raw _ _ => some e | .hole e .nested _ _ => some e | _ => none)

theorem mem_openHoles {t : Template} {e : String} {cls : Cls} {sl : Bool} {why : String}
    (hm : Seg.hole e cls sl why ∈ t) (ho : isOpenHole (Seg.hole e cls sl why) = true) : e ∈ openHoles t := by
  unfold openHoles
  rw [List.mem_filterMap]
  refine ⟨_, hm, ?_⟩
  cases cls <;> simp_all [isOpenHole]

theorem skeleton_render_congr' (t : Template) (inp inp' : Env)
    (h : ∀ e ∈ openHoles t, skeleton (inp e) = skeleton (inp' e)) :
    skeleton (render t inp) = skeleton (render t inp') := by
  apply skeleton_render_congr
  intro s hs e cls sl why heq ho
  subst heq
  exact h e (mem_openHoles hs ho)

/-- A template without open holes renders to the same skeleton under any two assignments. -/
theorem skeleton_render_any (t : Template) (h : AllEscaped t) (inp inp' : Env) :
    skeleton (render t inp) = skeleton (render t inp') := by
  rw [skeleton_render_closed t h inp, skeleton_render_closed t h inp']

theorem envOf_single (k : String) (m : List Char) (e : String) :
    envOf [(k, m)] e = if (k == e) = true then m else [] := by
  unfold envOf
  simp only [List.find?]
  cases h : (k == e) <;> simp

/-- The router-info templates that take a string have no open hole (re-checked on the extracted data). -/
theorem info_templates_closed :
    AllEscaped routerInfo_build_response_body_9
    ∧ AllEscaped routerInfo_build_response_body_10 ∧ AllEscaped routerInfo_build_response_body_11
    ∧ AllEscaped routerInfo_build_response_body_12 ∧ AllEscaped routerInfo_build_response_body_13
    ∧ AllEscaped routerInfo_build_response_body_14 ∧ AllEscaped routerInfo_build_response_body_15
    ∧ AllEscaped routerInfo_build_response_body_16 ∧ AllEscaped routerInfo_build_response_body_17
    ∧ AllEscaped routerInfo_build_response_body_18 ∧ AllEscaped routerInfo_build_response_body_19
    ∧ AllEscaped routerInfo_build_response_body_20 ∧ AllEscaped routerInfo_build_response_body_21
    ∧ AllEscaped routerInfo_build_response_body_22 ∧ AllEscaped routerInfo_build_response_body_24 := by
  decide

theorem skeleton_flagsBlock (b b' : List Char) : skeleton (Escape.flagsBlock b) = skeleton (Escape.flagsBlock b') := by
  obtain ⟨_, h10, h11, h12, h13, h14, h15, h16, h17, h18, h19, h20, h21, h22, _⟩ := info_templates_closed
  simp only [Escape.flagsBlock, skeleton_append]
  rw [skeleton_render_any _ h10 _ (envOf [("base_http_path", b')]), skeleton_render_any _ h11 _ (envOf [("base_http_path", b')]),
    skeleton_render_any _ h12 _ (envOf [("base_http_path", b')]), skeleton_render_any _ h13 _ (envOf [("base_http_path", b')]),
    skeleton_render_any _ h14 _ (envOf [("base_http_path", b')]), skeleton_render_any _ h15 _ (envOf [("base_http_path", b')]),
    skeleton_render_any _ h16 _ (envOf [("base_http_path", b')]), skeleton_render_any _ h17 _ (envOf [("base_http_path", b')]),
    skeleton_render_any _ h18 _ (envOf [("base_http_path", b')]), skeleton_render_any _ h19 _ (envOf [("base_http_path", b')]),
    skeleton_render_any _ h20 _ (envOf [("base_http_path", b')]), skeleton_render_any _ h21 _ (envOf [("base_http_path", b')]),
    skeleton_render_any _ h22 _ (envOf [("base_http_path", b')])]

theorem skeleton_prefixesBlock (b b' : List Char) (n ribs : Nat) :
    skeleton (prefixesBlock b n ribs) = skeleton (prefixesBlock b' n ribs) := by
  have h24 := info_templates_closed.2.2.2.2.2.2.2.2.2.2.2.2.2.2
  simp only [prefixesBlock, skeleton_append]
  rw [skeleton_render_any _ h24 _ (envOf [("base_http_path", b')])]

theorem skeleton_blockText (b b' : List Char) (ribs : Nat) (k : Block) :
    skeleton (blockText b ribs k) = skeleton (blockText b' ribs k) := by
  cases k with
  | none => rfl
  | flags => exact skeleton_flagsBlock b b'
  | prefixes n => exact skeleton_prefixesBlock b b' n ribs

theorem skeleton_peerRowText (b b' : List Char) (ribs : Nat) (k : Block) :
    skeleton (peerRowText b ribs k) = skeleton (peerRowText b' ribs k) := by
  have h9 := info_templates_closed.1
  simp only [peerRowText, skeleton_append]
  rw [skeleton_render_any _ h9 _ (envOf [("&base_http_path", b')]), skeleton_blockText b b' ribs k]

theorem skeleton_peerReport (v v' : InfoView) (hp : v.peers = v'.peers) (hr : v.ribs = v'.ribs) :
    skeleton (peerReport v) = skeleton (peerReport v') := by
  unfold peerReport
  rw [← hp, ← hr]
  cases v.peers with
  | none => rfl
  | some rows =>
    simp only [skeleton_append, skeleton_flatMap]
    congr 2
    congr 1
    funext k
    exact skeleton_peerRowText v.base v'.base v.ribs k

theorem filterStop_repaired (p : Http.PRes) : Http.filterStop Http.repaired p = none ∨ Http.filterStop Http.repaired p = some (.resp Http.r400) := by
  cases p <;> simp [Http.filterStop, Http.repaired]

theorem ribPrefix_status (d : Http.Deps) (a b : Nat) (suffix : Bytes) (ps : List Param) :
    Http.ribPrefixQuery Http.repaired d a b suffix ps = .resp Http.r200 ∨ Http.ribPrefixQuery Http.repaired d a b suffix ps = .resp Http.r400 := by
  unfold Http.ribPrefixQuery
  rcases filterStop_repaired (Http.filtersRes d Http.sSelect ps) with h1 | h1 <;>
  rcases filterStop_repaired (Http.filtersRes d Http.sDiscard ps) with h2 | h2 <;>
  (simp only [h1, h2]; repeat' split) <;> simp

theorem rib_status (d : Http.Deps) (base : Bytes) (a b : Nat) (raw dec : Bytes) (ps : List Param) :
    Http.ribProc Http.repaired d base a b raw dec ps = .none
    ∨ Http.ribProc Http.repaired d base a b raw dec ps = .resp Http.r200
    ∨ Http.ribProc Http.repaired d base a b raw dec ps = .resp Http.r400 := by
  unfold Http.ribProc
  split
  · left; rfl
  · right
    split
    · unfold Http.ribIngressQuery; split <;> simp
    · exact ribPrefix_status d a b _ ps

/-! ### Status analysis of the processors -/

/-- what a processor may answer: nothing, a 200/400, or (only if `p`) a panic -/
def PR.ok (p : Bool) : PR → Prop
  | .none => True
  | .resp r => r.status = 200 ∨ r.status = 400
  | .panic _ => p = true

theorem orElse_ok (p : Bool) (a : PR) (b : Unit → PR) (ha : a.ok p) (hb : (b ()).ok p) : (orElse a b).ok p := by
  unfold orElse
  cases a <;> simp_all [PR.ok]

theorem infoProc_cases (w : World) (r : Router) (dec : Bytes) :
    infoProc w r dec = .none ∨ ∃ v, infoProc w r dec = .resp ⟨200, .info v, [r.id]⟩ := by
  unfold infoProc
  by_cases h1 : startsWith dec w.api = true
  · by_cases h2 : (dec.drop w.api.length).isEmpty = true
    · left; simp [h1, h2]
    · by_cases h3 : r.answersTo (splitFocus (dec.drop w.api.length)).1 = true
      · right; exact ⟨viewOf w r (splitFocus (dec.drop w.api.length)).1 (splitFocus (dec.drop w.api.length)).2, by simp [h1, h2, h3]⟩
      · left; simp [h1, h2, h3]
  · left; simp [h1]

theorem infoProc_ok (p : Bool) (w : World) (r : Router) (dec : Bytes) : (infoProc w r dec).ok p := by
  rcases infoProc_cases w r dec with h | ⟨v, h⟩ <;> simp [h, PR.ok]

theorem firstInfo_ok (p : Bool) (w : World) (dec : Bytes) (rs : List Router) : (firstInfo w dec rs).ok p := by
  induction rs with
  | nil => simp [firstInfo, PR.ok]
  | cons r rest ih =>
    unfold firstInfo
    rcases infoProc_cases w r dec with h | ⟨v, h⟩
    · simpa [h] using ih
    · simp [h, PR.ok]

theorem tracerProc_ok (p : Bool) (dec : Bytes) : (tracerProc dec).ok p := by
  unfold tracerProc
  by_cases h : dec = Http.sTracer <;> simp [h, PR.ok]

theorem graphProc_ok (p : Bool) (w : World) (dec : Bytes) : (graphProc w dec).ok p := by
  unfold graphProc
  by_cases h : startsWith dec Http.sGraph = true
  · cases traceIdOf dec <;> simp [h, PR.ok]
  · simp [h, PR.ok]

theorem ribProc_ok (p : Bool) (d : Http.Deps) (w : World) (raw dec : Bytes) (ps : List Param) : (ribProc d w raw dec ps).ok p := by
  unfold ribProc
  rcases rib_status d w.ribBase w.v4min w.v6min raw dec ps with h | h | h <;> simp [h, PR.ok, Http.r200, Http.r400]

theorem mem_insertBy {α : Type} (le : α → α → Bool) (x y : α) (l : List α) : y ∈ insertBy le x l ↔ y = x ∨ y ∈ l := by
  induction l with
  | nil => simp [insertBy]
  | cons z zs ih =>
    unfold insertBy
    split
    · simp only [List.mem_cons, ih]; grind
    · simp only [List.mem_cons]

theorem mem_foldl_insertBy {α : Type} (le : α → α → Bool) (y : α) (l acc : List α) :
    y ∈ l.foldl (fun acc x => insertBy le x acc) acc ↔ y ∈ acc ∨ y ∈ l := by
  induction l generalizing acc with
  | nil => simp
  | cons x xs ih =>
    simp only [List.foldl_cons, ih, mem_insertBy, List.mem_cons]
    grind

theorem mem_isort {α : Type} (le : α → α → Bool) (l : List α) (y : α) : y ∈ isort le l ↔ y ∈ l := by
  unfold isort
  simpa using mem_foldl_insertBy le y l []

theorem sortKeys_mem (w : World) (ps : List Param) (ks : List Router) (h : sortKeys w ps = some ks) :
    ∀ r ∈ ks, r ∈ w.routers := by
  unfold sortKeys at h
  intro r hr
  split at h
  · cases h; exact hr
  · split at h
    · cases h; exact hr
    · split at h
      · cases h; exact (mem_isort _ _ _).mp hr
      · split at h
        · cases h; exact (mem_isort _ _ _).mp hr
        · split at h
          · cases h; exact (mem_isort _ _ _).mp hr
          · cases h

theorem applyOrder_mem (ps : List Param) (ks ks' : List Router) (h : applyOrder ps ks = some ks') :
    ∀ r ∈ ks', r ∈ ks := by
  unfold applyOrder at h
  intro r hr
  split at h
  · cases h; exact hr
  · split at h
    · cases h; exact hr
    · split at h
      · cases h; exact List.mem_reverse.mp hr
      · cases h

/-- whatever order `sort_routers` picks, it lists connected routers only -/
theorem sortRouters_mem (w : World) (ps : List Param) (ks : List Router) (h : sortRouters w ps = some ks) :
    ∀ r ∈ ks, r ∈ w.routers := by
  unfold sortRouters at h
  cases hk : sortKeys w ps with
  | none => simp [hk] at h
  | some l =>
    simp only [hk, Option.bind_some] at h
    intro r hr
    exact sortKeys_mem w ps l hk r (applyOrder_mem ps l ks h r hr)

theorem listProc_ok (v : Variant) (w : World) (dec : Bytes) (ps : List Param) : (listProc v w dec ps).ok v.listSlice := by
  unfold listProc
  by_cases h : dec = w.api
  · cases hs : sortRouters w ps with
    | none => simp [h, PR.ok]
    | some ks =>
      by_cases hp : (v.listSlice && !(ks.all Router.sliceOk)) = true
      · simp only [h, if_true, hp]
        simp only [Bool.and_eq_true] at hp
        simp [PR.ok, hp.1]
      · simp [h, hp, PR.ok]
  · simp [h, PR.ok]

theorem listProc_ok_guarded (v : Variant) (w : World) (dec : Bytes) (ps : List Param)
    (hg : v.listSlice = false ∨ ∀ r ∈ w.routers, r.sliceOk = true) : (listProc v w dec ps).ok false := by
  unfold listProc
  by_cases h : dec = w.api
  · cases hs : sortRouters w ps with
    | none => simp [h, PR.ok]
    | some ks =>
      have hp : (v.listSlice && !(ks.all Router.sliceOk)) = false := by
        rcases hg with hg | hg
        · simp [hg]
        · have : ks.all Router.sliceOk = true := by
            rw [List.all_eq_true]; intro r hr; exact hg r (sortRouters_mem w ps ks hs r hr)
          simp [this]
      simp [h, hp, PR.ok]
  · simp [h, PR.ok]

end Rotonda.HttpPages
