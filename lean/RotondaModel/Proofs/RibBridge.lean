import RotondaModel.Model.RibBridge
import RotondaModel.Proofs.Rib
import RotondaModel.Proofs.RibQuery
import RotondaModel.Proofs.RibConc
/-!
Helper lemmas for the refinement theorems between the three RIB vocabularies
(`Props/RibBridge.lean`): the abstraction maps of `Model/RibBridge.lean` commute with queries
(`Model/RibQuery.lean`) and with updates (`Model/RibConc.lean`).
-/
namespace Rotonda.Bridge

open Rotonda

/-! ## Vocabulary maps -/

theorem qFam_inj {f g : Rib.Fam} (h : qFam f = qFam g) : f = g := by
  cases f <;> cases g <;> simp_all [qFam]

theorem qPfx_inj {p q : Rib.Prefix} (h : qPfx p = qPfx q) : p = q := by
  obtain ⟨f, l, b⟩ := p
  obtain ⟨g, l', b'⟩ := q
  simp only [qPfx, RibQuery.Prefix.mk.injEq] at h
  obtain ⟨h1, h2, h3⟩ := h
  rw [qFam_inj h1, h2, h3]

theorem qPfx_beq (p q : Rib.Prefix) : (qPfx p == qPfx q) = decide (p = q) := by
  by_cases h : p = q
  · subst h; simp
  · have : qPfx p ≠ qPfx q := fun e => h (qPfx_inj e)
    simp [h, this]

theorem qFam_beq (f g : Rib.Fam) : (qFam f == qFam g) = (f == g) := by
  cases f <;> cases g <;> rfl

/-- The two `covers` functions are the same function. -/
theorem covers_qPfx (p q : Rib.Prefix) : RibQuery.covers (qPfx p) (qPfx q) = Rib.covers p q := by
  simp only [RibQuery.covers, Rib.covers, qPfx, qFam_beq]
  congr

theorem qStatus_inj {s t : Rib.Status} (h : qStatus s = qStatus t) : s = t := by
  cases s <;> cases t <;> simp_all [qStatus]

/-! ## Shared store → query store -/

theorem items_storeToQ (ι : AttrInterp) (s : Rib.Store) :
    (storeToQ ι s).items = s.recs.map (qEntry ι s) := by
  simp only [RibQuery.Store.items, storeToQ, List.map_map]
  apply List.map_congr_left
  intro e _
  simp [RibQuery.Store.item]

/-- The exact-match record set of the query-side store on the abstracted state is the shared
    store's `matchExact` (same entries, same order). -/
theorem exact_storeToQ (ι : AttrInterp) (s : Rib.Store) (p : Rib.Prefix) :
    (storeToQ ι s).items.filter (fun r => r.pfx == qPfx p) = (s.matchExact p {}).map (qRec ι p) := by
  rw [items_storeToQ, List.filter_map]
  simp only [Rib.Store.matchExact, if_true, Rib.Store.records, List.map_map]
  have hf : (fun r : RibQuery.Rec => r.pfx == qPfx p) ∘ qEntry ι s = fun e => decide (e.1.1 = p) := by
    funext e
    simp only [Function.comp, qEntry, qRec, qPfx_beq]
  rw [hf]
  apply List.map_congr_left
  intro e he
  have hp : e.1.1 = p := by simpa using (List.mem_filter.1 he).2
  simp only [qEntry, Function.comp, hp]

theorem pfxMeta_storeToQ (vq : RibQuery.Variant) (ι : AttrInterp) (s : Rib.Store) (p : Rib.Prefix)
    (l m : Bool) (obs : List RibQuery.Prefix) :
    ((storeToQ ι s).matchPrefix vq (qPfx p) l m obs).pfxMeta = (s.matchExact p {}).map (qRec ι p) := by
  simp only [RibQuery.Store.matchPrefix]
  exact exact_storeToQ ι s p

theorem store_pfx_none (vq : RibQuery.Variant) (s : RibQuery.Store) (q : RibQuery.Prefix) (l m : Bool)
    (obs : List RibQuery.Prefix) (h : (s.matchPrefix vq q l m obs).pfx = none) :
    (s.matchPrefix vq q l m obs).pfxMeta = [] :=
  (RibQuery.Store.matchPrefix_sections vq s q l m obs).pfx_none h

/-- `data` of a JSON answer is the exact-match record set narrowed by the filters, whatever the
    variant: the `pfx = none` branch of `mk_json_response` only occurs with an empty record set. -/
theorem data_mkJson (vq : RibQuery.Variant) (reg : RibQuery.Register) (req : RibQuery.Request)
    (res : RibQuery.QueryResult) (hp : res.pfx = none → res.pfxMeta = []) :
    (RibQuery.mkJson vq reg req res).data = res.pfxMeta.filter (RibQuery.includeItem vq reg req.filters) := by
  simp only [RibQuery.mkJson, RibQuery.Resp.data]
  cases h : res.pfx with
  | none => simp [hp h]
  | some _ => rfl

/-- The as-written `Rib::match_prefix` answers with one of the two stores' answers. -/
theorem rib_pfx_none (vq : RibQuery.Variant) (rib : RibQuery.Rib) (q : RibQuery.Prefix) (l m : Bool)
    (obsU obsM : List RibQuery.Prefix) (h : (rib.matchPrefix vq q l m obsU obsM).pfx = none) :
    (rib.matchPrefix vq q l m obsU obsM).pfxMeta = [] := by
  have hu := store_pfx_none vq rib.unicast q l m obsU
  have hm := store_pfx_none vq rib.multicast q l m obsM
  unfold RibQuery.Rib.matchPrefix at h ⊢
  by_cases hv : vq.mcast = true
  · simp only [hv, if_true] at h ⊢
    cases hup : (rib.unicast.matchPrefix vq q l m obsU).pfx with
    | some x => simp [hup] at h
    | none =>
      simp only [hup, Option.isSome_none, Bool.false_eq_true, if_false] at h
      simp [hu hup, hm h]
  · have hv' : vq.mcast = false := by simpa using hv
    simp only [hv', Bool.false_eq_true, if_false] at h ⊢
    split
    · split
      · rename_i h1 h2
        simp only [h1, h2, if_true] at h
        exact hm h
      · rename_i h1 h2
        simp only [h1, h2, if_true] at h
        exact hu h
    · rename_i h1
      simp only [h1] at h
      exact hu h

/-- **`Rib.query` = `Rib::match_prefix` of the query model**, code as written (`mcast = false`),
    no includes: the same list. -/
theorem pfxMeta_ribToQ (vq : RibQuery.Variant) (hv : vq.mcast = false) (ι : AttrInterp) (r : Rib.Rib)
    (p : Rib.Prefix) (obsU obsM : List RibQuery.Prefix) :
    ((ribToQ ι r).matchPrefix vq (qPfx p) false false obsU obsM).pfxMeta = (r.query p {}).map (qRec ι p) := by
  have hu := pfxMeta_storeToQ vq ι r.unicast p false false obsU
  have hm := pfxMeta_storeToQ vq ι r.multicast p false false obsM
  have nu : ((storeToQ ι r.unicast).matchPrefix vq (qPfx p) false false obsU).nothing
      = (r.unicast.matchExact p {}).isEmpty := by
    simp [RibQuery.QueryResult.nothing, RibQuery.Store.matchPrefix, exact_storeToQ]
  have nm : ((storeToQ ι r.multicast).matchPrefix vq (qPfx p) false false obsM).nothing
      = (r.multicast.matchExact p {}).isEmpty := by
    simp [RibQuery.QueryResult.nothing, RibQuery.Store.matchPrefix, exact_storeToQ]
  simp only [RibQuery.Rib.matchPrefix, ribToQ, hv, Bool.false_eq_true, if_false, nu, nm, Rib.Rib.query]
  by_cases he : (r.unicast.matchExact p {}).isEmpty = true
  · simp only [he, if_true]
    by_cases hme : (r.multicast.matchExact p {}).isEmpty = true
    · simp only [hme, Bool.not_true, Bool.false_eq_true, if_false, hu]
      rw [List.isEmpty_iff.mp he, List.isEmpty_iff.mp hme]
    · simp only [hme, Bool.not_false, if_true, hm]
  · simp only [he, Bool.false_eq_true, if_false, hu]

/-- As written, as soon as an include is requested the answer is the unicast store's alone. -/
theorem pfxMeta_ribToQ_includes (vq : RibQuery.Variant) (hv : vq.mcast = false) (ι : AttrInterp)
    (r : Rib.Rib) (p : Rib.Prefix) (l m : Bool) (hlm : (l || m) = true) (obsU obsM : List RibQuery.Prefix) :
    ((ribToQ ι r).matchPrefix vq (qPfx p) l m obsU obsM).pfxMeta = (r.unicast.matchExact p {}).map (qRec ι p) := by
  have hu := pfxMeta_storeToQ vq ι r.unicast p l m obsU
  have nu : ((storeToQ ι r.unicast).matchPrefix vq (qPfx p) l m obsU).nothing = false := by
    cases l <;> cases m <;> simp_all [RibQuery.QueryResult.nothing, RibQuery.Store.matchPrefix]
  simp only [RibQuery.Rib.matchPrefix, ribToQ, hv, Bool.false_eq_true, if_false, nu, hu]

/-- With the C11 `mcast` repair the answer is both tables, concatenated (any includes). -/
theorem pfxMeta_ribToQ_merged (vq : RibQuery.Variant) (hv : vq.mcast = true) (ι : AttrInterp)
    (r : Rib.Rib) (p : Rib.Prefix) (l m : Bool) (obsU obsM : List RibQuery.Prefix) :
    ((ribToQ ι r).matchPrefix vq (qPfx p) l m obsU obsM).pfxMeta = (queryMerged r p).map (qRec ι p) := by
  simp only [RibQuery.Rib.matchPrefix, ribToQ, hv, if_true, pfxMeta_storeToQ, queryMerged, List.map_append]

/-! ### Everything stored, in the shared model's terms -/

theorem mem_items_storeToQ (ι : AttrInterp) (s : Rib.Store) (hs : s.WF) (x : RibQuery.Rec) :
    x ∈ (storeToQ ι s).items ↔
      ∃ p m st a, s.entry p m = some (st, a) ∧ x = ⟨qPfx p, m, qStatus st, ι a⟩ := by
  rw [items_storeToQ, List.mem_map]
  constructor
  · rintro ⟨⟨⟨p, m⟩, ⟨st, a⟩⟩, hmem, rfl⟩
    have hg : s.get p m = some (st, a) := Rib.lookup_eq_some_of_mem _ _ _ hs.1 hmem
    by_cases hw : m ∈ s.wd p.fam
    · exact ⟨p, m, .withdrawn, a, by simp [Rib.Store.entry, hg, hw, Rib.setWithdrawn],
        by simp [qEntry, qRec, Rib.rewrite, Rib.toRec, hw]⟩
    · exact ⟨p, m, st, a, by simp [Rib.Store.entry, hg, hw],
        by simp [qEntry, qRec, Rib.rewrite, Rib.toRec, hw]⟩
  · rintro ⟨p, m, st, a, he, rfl⟩
    cases hg : s.get p m with
    | none => simp [Rib.Store.entry, hg] at he
    | some v =>
      obtain ⟨st0, a0⟩ := v
      refine ⟨((p, m), (st0, a0)), Rib.mem_of_lookup_eq_some _ _ _ hg, ?_⟩
      simp only [Rib.Store.entry, hg, Option.some.injEq] at he
      by_cases hw : m ∈ s.wd p.fam
      · simp only [hw, if_true, Rib.setWithdrawn, Prod.mk.injEq] at he
        simp [qEntry, qRec, Rib.rewrite, Rib.toRec, hw, ← he.1, ← he.2]
      · simp only [hw, if_false, Prod.mk.injEq] at he
        simp [qEntry, qRec, Rib.rewrite, Rib.toRec, hw, ← he.1, ← he.2]

/-- Every entry the query model calls "stored" is an entry of the shared model, and conversely. -/
theorem mem_stored_ribToQ (ι : AttrInterp) (r : Rib.Rib) (hr : r.WF) (x : RibQuery.Rec) :
    x ∈ (ribToQ ι r).stored ↔
      ∃ mc p m st a, r.entry mc p m = some (st, a) ∧ x = ⟨qPfx p, m, qStatus st, ι a⟩ := by
  simp only [RibQuery.Rib.stored, ribToQ, List.mem_append, mem_items_storeToQ ι _ hr.1,
    mem_items_storeToQ ι _ hr.2, Rib.Rib.entry]
  constructor
  · rintro (⟨p, m, st, a, h, e⟩ | ⟨p, m, st, a, h, e⟩)
    · exact ⟨false, p, m, st, a, h, e⟩
    · exact ⟨true, p, m, st, a, h, e⟩
  · rintro ⟨mc, p, m, st, a, h, e⟩
    cases mc
    · exact Or.inl ⟨p, m, st, a, h, e⟩
    · exact Or.inr ⟨p, m, st, a, h, e⟩

/-! ### The literal abstraction agrees when the two marker sets of a store agree -/

/-- Both trees of the store carry the same withdrawn ids. -/
def WdUniform (s : Rib.Store) : Prop := ∀ m, m ∈ s.wd4 ↔ m ∈ s.wd6

theorem items_storeToQraw (ι : AttrInterp) (s : Rib.Store) (hu : WdUniform s) :
    (storeToQraw ι s).items = (storeToQ ι s).items := by
  rw [items_storeToQ]
  simp only [RibQuery.Store.items, storeToQraw, List.map_map]
  apply List.map_congr_left
  intro e _
  have hw : (e.1.2 ∈ s.wd e.1.1.fam) ↔ e.1.2 ∈ s.wd4 := by
    cases hf : e.1.1.fam
    · simp [Rib.Store.wd]
    · simp only [Rib.Store.wd]; exact (hu _).symm
  by_cases h4 : e.1.2 ∈ s.wd4
  · have := hw.mpr h4
    simp [RibQuery.Store.item, qEntry, qRec, Rib.rewrite, Rib.toRec, h4, this, qStatus]
  · have : e.1.2 ∉ s.wd e.1.1.fam := fun h => h4 (hw.mp h)
    simp [RibQuery.Store.item, qEntry, qRec, Rib.rewrite, Rib.toRec, h4, this]

theorem wdUniform_markAll (s : Rib.Store) (m : Rib.Mui) (h : WdUniform s) :
    WdUniform (s.withdrawFams v [.v4, .v6] m) := by
  intro x
  have h4 := Rib.Store.mem_wd_withdrawFams v s m .v4 x
  have h6 := Rib.Store.mem_wd_withdrawFams v s m .v6 x
  simp only [Rib.Store.wd] at h4 h6
  rw [h4, h6, h x]

def RibWdUniform (r : Rib.Rib) : Prop := WdUniform r.unicast ∧ WdUniform r.multicast

theorem ribWdUniform_ev (v : Rib.Variant) (r : Rib.Rib) (e : Rib.Ev) (h : RibWdUniform r) :
    RibWdUniform (r.applyAll v (e.updates v)) := by
  have key : ∀ mc, WdUniform (r.store mc) → ∀ r' : Rib.Rib,
      (∀ f, (r'.store mc).wd f = (r.store mc).wd f) → WdUniform (r'.store mc) := by
    intro mc hu r' hw x
    have h4 := hw .v4
    have h6 := hw .v6
    simp only [Rib.Store.wd] at h4 h6
    rw [h4, h6]
    exact hu x
  have hst : ∀ mc, WdUniform (r.store mc) := by intro mc; cases mc; exact h.1; exact h.2
  cases e with
  | upd m u =>
    exact ⟨key false (hst false) _ (fun f => Rib.Rib.wd_ingest v r m u false f),
           key true (hst true) _ (fun f => Rib.Rib.wd_ingest v r m u true f)⟩
  | down m =>
    simp only [Rib.Ev.updates, Rib.Rib.applyAll, List.foldl_cons, List.foldl_nil, Rib.Rib.apply]
    exact ⟨wdUniform_markAll _ m h.1, wdUniform_markAll _ m h.2⟩
  | downBulk ms =>
    simp only [Rib.Ev.updates, Rib.Rib.applyAll, List.foldl_cons, List.foldl_nil, Rib.Rib.apply]
    induction ms generalizing r with
    | nil => exact h
    | cons m ms ih =>
      rw [List.foldl_cons]
      exact ih _ ⟨wdUniform_markAll _ m h.1, wdUniform_markAll _ m h.2⟩
        (fun mc hu r' hw => by
          intro x
          have h4 := hw .v4
          have h6 := hw .v6
          simp only [Rib.Store.wd] at h4 h6
          rw [h4, h6]
          exact hu x)
        (by intro mc; cases mc
            · exact wdUniform_markAll _ m h.1
            · exact wdUniform_markAll _ m h.2)

/-- In every state reachable by a history the two per-family marker sets of each store agree. -/
theorem run_wdUniform (v : Rib.Variant) (h : Rib.History) : RibWdUniform (Rib.run v h) := by
  have gen : ∀ (h : Rib.History) (r : Rib.Rib), RibWdUniform r → RibWdUniform (Rib.runFrom v r h) := by
    intro h
    induction h with
    | nil => intro r hr; exact hr
    | cons e h ih =>
      intro r hr
      simp only [Rib.runFrom, List.foldl_cons] at ih ⊢
      exact ih _ (ribWdUniform_ev v r e hr)
  exact gen h _ ⟨fun _ => Iff.rfl, fun _ => Iff.rfl⟩

/-! ## From the exact-match answer to the HTTP `data` section, and to the specifications -/

/-- The exact-match record list behind the `data` section, in the shared model's terms, for each
    way `Rib::match_prefix` combines the two tables:
    * C11 `mcast` repaired: both tables;
    * as written with an include requested: the unicast table alone (the multicast fallback
      test `less_specifics.is_none()` is then false);
    * as written without includes: `Rib.query` (unicast, multicast only if unicast is empty). -/
def exactAnswer (vq : RibQuery.Variant) (inc : RibQuery.Includes) (r : Rib.Rib) (p : Rib.Prefix) : List Rib.Rec :=
  if vq.mcast then queryMerged r p
  else if inc.less || inc.more then r.unicast.matchExact p {}
  else r.query p {}

theorem pfxMeta_exactAnswer (vq : RibQuery.Variant) (ι : AttrInterp) (r : Rib.Rib) (p : Rib.Prefix)
    (inc : RibQuery.Includes) (obsU obsM : List RibQuery.Prefix) :
    ((ribToQ ι r).matchPrefix vq (qPfx p) inc.less inc.more obsU obsM).pfxMeta
      = (exactAnswer vq inc r p).map (qRec ι p) := by
  unfold exactAnswer
  by_cases hv : vq.mcast = true
  · simp only [hv, if_true]
    exact pfxMeta_ribToQ_merged vq hv ι r p _ _ obsU obsM
  · have hv' : vq.mcast = false := by simpa using hv
    simp only [hv', Bool.false_eq_true, if_false]
    by_cases hlm : (inc.less || inc.more) = true
    · simp only [hlm, if_true]
      exact pfxMeta_ribToQ_includes vq hv' ι r p _ _ hlm obsU obsM
    · simp only [hlm, Bool.false_eq_true, if_false]
      have h1 : inc.less = false := by cases h : inc.less <;> simp_all
      have h2 : inc.more = false := by cases h : inc.more <;> simp_all
      rw [h1, h2]
      exact pfxMeta_ribToQ vq hv' ι r p obsU obsM

theorem mem_map_filter (ι : AttrInterp) (p : Rib.Prefix) (L : List Rib.Rec) (f : RibQuery.Rec → Bool)
    (x : RibQuery.Rec) :
    x ∈ (L.map (qRec ι p)).filter f ↔
      ∃ m st a, (⟨m, st, a⟩ : Rib.Rec) ∈ L ∧ x = ⟨qPfx p, m, qStatus st, ι a⟩ ∧ f x = true := by
  simp only [List.mem_filter, List.mem_map]
  constructor
  · rintro ⟨⟨⟨m, st, a⟩, hmem, rfl⟩, hf⟩
    exact ⟨m, st, a, hmem, rfl, hf⟩
  · rintro ⟨m, st, a, hmem, rfl, hf⟩
    exact ⟨⟨⟨m, st, a⟩, hmem, rfl⟩, hf⟩

/-- A table never addressed for `p` holds no record of `p`, after any history. -/
theorem get_none_of_unmentioned (v : Rib.Variant) (h : Rib.History) (mc : Bool) (p : Rib.Prefix)
    (hno : h.any (Rib.Ev.mentions mc p) = false) (m : Rib.Mui) : (Rib.run v h).get mc p m = none := by
  have := congrArg Rib.Abs.e (Rib.abs_run v h mc p m)
  simp only [Rib.Rib.abs] at this
  rw [Rib.Rib.get, this]
  exact Rib.specRun_untouched v mc p m h hno _ rfl

/-- One table's exact-match answer after a history = the per-key specification fold. -/
theorem mem_table_iff_spec (v : Rib.Variant) (h : Rib.History) (mc : Bool) (p : Rib.Prefix)
    (m : Rib.Mui) (st : Rib.Status) (a : Rib.AttrId) :
    (⟨m, st, a⟩ : Rib.Rec) ∈ ((Rib.run v h).store mc).matchExact p {}
      ↔ (Rib.specRun v mc p m h).entry = some (st, a) := by
  rw [Rib.Store.mem_matchExact _ ((Rib.WF_run v h).store mc), ← Rib.abs_run, ← Rib.Rib.entry_eq_abs]
  rfl

theorem table_nil_of_unmentioned (v : Rib.Variant) (h : Rib.History) (mc : Bool) (p : Rib.Prefix)
    (hno : h.any (Rib.Ev.mentions mc p) = false) : ((Rib.run v h).store mc).matchExact p {} = [] := by
  have := (Rib.Store.matchExact_isEmpty _ ((Rib.WF_run v h).store mc) p).mpr
    (fun m => get_none_of_unmentioned v h mc p hno m)
  exact List.isEmpty_iff.mp this

/-- For UPDATE-only histories, on the table `p` is used with, the per-table fold reports what
    C01's SAFI-blind specification `last` says. -/
theorem spec_entry_eq_last (v : Rib.Variant) (h : Rib.History) (hu : h.all Rib.Ev.isUpd = true)
    (hov : v.overlapFix = true ∨ h.all Rib.Ev.noOverlap = true) (mc : Bool) (p : Rib.Prefix)
    (hno : h.any (Rib.Ev.mentions (!mc) p) = false) (m : Rib.Mui) :
    (Rib.specRun v mc p m h).entry = Rib.last h p m := by
  have hd := Rib.specRun_down_false v mc p m h hu ⟨none, false⟩ rfl
  have he := Rib.specRun_eq_last v mc p m h hu hov hno ⟨none, false⟩
  simp only [Rib.specRun, Rib.last] at hd he ⊢
  simp only [Rib.Abs.entry, hd, he, Bool.false_eq_true, if_false]
  cases h.foldl (Rib.lastStep p m) none <;> simp

theorem query_eq_of_multicast_nil (r : Rib.Rib) (p : Rib.Prefix) (hm : r.multicast.matchExact p {} = []) :
    r.query p {} = r.unicast.matchExact p {} := by
  unfold Rib.Rib.query
  by_cases he : (r.unicast.matchExact p {}).isEmpty = true
  · simp only [he, if_true, hm]; exact (List.isEmpty_iff.mp he).symm
  · simp [he]

theorem query_eq_of_unicast_nil (r : Rib.Rib) (p : Rib.Prefix) (hu : r.unicast.matchExact p {} = []) :
    r.query p {} = r.multicast.matchExact p {} := by
  simp [Rib.Rib.query, hu]

/-- When one table is never addressed for `p`, all three ways of combining the tables give the
    other table's answer. -/
theorem exactAnswer_of_unmentioned (vq : RibQuery.Variant) (inc : RibQuery.Includes) (v : Rib.Variant)
    (h : Rib.History) (p : Rib.Prefix) (hno : h.any (Rib.Ev.mentions true p) = false) :
    exactAnswer vq inc (Rib.run v h) p = (Rib.run v h).unicast.matchExact p {} := by
  have hm : (Rib.run v h).multicast.matchExact p {} = [] := table_nil_of_unmentioned v h true p hno
  unfold exactAnswer
  split
  · simp [queryMerged, hm]
  · split
    · rfl
    · exact query_eq_of_multicast_nil _ p hm

/-! ## Shared RIB → RibConc's sequential RIB -/

theorem treeIdx_lt (mc : Bool) (f : Rib.Fam) : treeIdx mc f < 4 := by
  cases mc <;> cases f <;> simp [treeIdx]

theorem treeIdx_inj {mc mc' : Bool} {f f' : Rib.Fam} (h : treeIdx mc f = treeIdx mc' f') :
    mc = mc' ∧ f = f' := by
  cases mc <;> cases mc' <;> cases f <;> cases f' <;> simp_all [treeIdx]

theorem pow2_succ_mul (k Y : Nat) : 2 ^ (k + 1) * Y = 2 * (2 ^ k * Y) := by
  rw [Nat.pow_succ, Nat.mul_assoc, Nat.mul_left_comm]

theorem code_inj (l b l' b' : Nat) (h : 2 ^ l * (2 * b + 1) = 2 ^ l' * (2 * b' + 1)) : l = l' ∧ b = b' := by
  induction l generalizing l' with
  | zero =>
    cases l' with
    | zero => simp only [Nat.pow_zero, Nat.one_mul] at h; omega
    | succ k =>
      exfalso
      rw [pow2_succ_mul] at h
      generalize 2 ^ k * (2 * b' + 1) = X at h
      simp only [Nat.pow_zero, Nat.one_mul] at h
      omega
  | succ n ih =>
    cases l' with
    | zero =>
      exfalso
      rw [pow2_succ_mul] at h
      generalize 2 ^ n * (2 * b + 1) = X at h
      simp only [Nat.pow_zero, Nat.one_mul] at h
      omega
    | succ k =>
      rw [pow2_succ_mul, pow2_succ_mul] at h
      have := ih k (Nat.eq_of_mul_eq_mul_left (by decide : 0 < 2) h)
      omega

theorem encStd_ok : EncOK encStd := by
  constructor
  · intro mc p mc' p' h
    have h1 := treeIdx_lt mc p.fam
    have h2 := treeIdx_lt mc' p'.fam
    simp only [encStd] at h
    have ht : treeIdx mc p.fam = treeIdx mc' p'.fam := by omega
    have hc : 2 ^ p.len * (2 * p.bits + 1) = 2 ^ p'.len * (2 * p'.bits + 1) := by omega
    obtain ⟨hm, hf⟩ := treeIdx_inj ht
    obtain ⟨hl, hb⟩ := code_inj _ _ _ _ hc
    refine ⟨hm, ?_⟩
    obtain ⟨f, l, b⟩ := p
    obtain ⟨f', l', b'⟩ := p'
    simp_all
  · intro mc p
    have h1 := treeIdx_lt mc p.fam
    show (4 * (2 ^ p.len * (2 * p.bits + 1)) + treeIdx mc p.fam) % 4 = treeIdx mc p.fam
    generalize 2 ^ p.len * (2 * p.bits + 1) = c
    omega

/-- The simulation relation between a shared RIB and a RibConc sequential RIB. -/
structure Sim (enc : Bool → Rib.Prefix → Nat) (r : Rib.Rib) (s : RibConc.SeqRib) : Prop where
  recs : ∀ mc p m, RibConc.lget s.recs (enc mc p, m) = ((r.store mc).get p m).map cVal
  marks : ∀ mc f m, (treeIdx mc f, m) ∈ s.marks ↔ m ∈ (r.store mc).wd f

theorem sim_empty (enc : Bool → Rib.Prefix → Nat) : Sim enc Rib.Rib.empty ⟨[], []⟩ := by
  constructor
  · intro mc p m; cases mc <;> rfl
  · intro mc f m; cases mc <;> cases f <;> simp [Rib.Rib.empty, Rib.Rib.store, Rib.Store.wd]

/-- What a query sees of a key is the same on both sides. -/
theorem Sim.view {enc : Bool → Rib.Prefix → Nat} (henc : EncOK enc) {r : Rib.Rib} {s : RibConc.SeqRib}
    (h : Sim enc r s) (mc : Bool) (p : Rib.Prefix) (m : Rib.Mui) :
    s.view (enc mc p) m = (r.entry mc p m).map cVal := by
  simp only [RibConc.SeqRib.view, h.recs mc p m, henc.tree, Rib.Rib.entry, Rib.Store.entry]
  cases (r.store mc).get p m with
  | none => rfl
  | some v =>
    have hm := h.marks mc p.fam m
    by_cases hw : m ∈ (r.store mc).wd p.fam
    · have : (treeIdx mc p.fam, m) ∈ s.marks := hm.mpr hw
      simp [hw, this, cVal, Rib.setWithdrawn]
    · have : (treeIdx mc p.fam, m) ∉ s.marks := fun h' => hw (hm.mp h')
      simp [hw, this, cVal]

theorem sim_insertPayload {enc : Bool → Rib.Prefix → Nat} (henc : EncOK enc) (r : Rib.Rib) (hr : r.WF)
    (s : RibConc.SeqRib) (h : Sim enc r s) (pl : Rib.Payload) :
    Sim enc (r.insertPayload pl) (match plOf enc pl with | some x => RibConc.seqPl s x | none => s) := by
  have hkey : ∀ mc p m, ((enc pl.route.mc pl.route.pfx, pl.mui) = (enc mc p, m)) ↔
      (pl.route.mc = mc ∧ pl.route.pfx = p ∧ pl.mui = m) := by
    intro mc p m
    constructor
    · intro e
      simp only [Prod.mk.injEq] at e
      obtain ⟨e1, e2⟩ := henc.inj _ _ _ _ e.1
      exact ⟨e1, e2, e.2⟩
    · rintro ⟨rfl, rfl, rfl⟩; rfl
  constructor
  · intro mc p m
    have hg := Rib.Rib.get_insertPayload r hr pl mc p m
    simp only [Rib.Rib.get] at hg
    rw [hg]
    unfold plOf Rib.Payload.hits
    cases hc : pl.ctx
    case reprocess => simpa using h.recs mc p m
    all_goals
      cases hst : pl.status
      all_goals
        simp only [RibConc.seqPl, RibConc.compilePl, RibConc.lget_recStep, RibConc.entryStep, hkey,
          h.recs mc p m, ne_eq, reduceCtorEq, not_false_eq_true, decide_true, Bool.true_and,
          Bool.and_eq_true, decide_eq_true_eq, and_assoc]
        by_cases hh : pl.route.mc = mc ∧ pl.route.pfx = p ∧ pl.mui = m
        · obtain ⟨h1, h2, h3⟩ := hh
          subst h1 h2 h3
          simp only [and_self, if_true]
          first
            | rfl
            | (cases (r.store pl.route.mc).get pl.route.pfx pl.mui <;> simp [cVal, Rib.setWithdrawn])
        · simp [hh]
  · intro mc f m
    rw [Rib.Rib.wd_insertPayload, ← h.marks mc f m]
    cases plOf enc pl <;> simp [RibConc.seqPl]

theorem sim_foldl_insertPayload {enc : Bool → Rib.Prefix → Nat} (henc : EncOK enc) (ps : List Rib.Payload)
    (r : Rib.Rib) (hr : r.WF) (s : RibConc.SeqRib) (h : Sim enc r s) :
    Sim enc (ps.foldl Rib.Rib.insertPayload r) ((ps.filterMap (plOf enc)).foldl RibConc.seqPl s) := by
  induction ps generalizing r s with
  | nil => exact h
  | cons pl ps ih =>
    have h1 := sim_insertPayload henc r hr s h pl
    have hr1 := Rib.Rib.WF_insertPayload r hr pl
    rw [List.foldl_cons]
    cases hp : plOf enc pl with
    | none =>
      rw [hp] at h1
      simp only [List.filterMap_cons, hp]
      exact ih _ hr1 _ h1
    | some x =>
      rw [hp] at h1
      simp only [List.filterMap_cons, hp, List.foldl_cons]
      exact ih _ hr1 _ h1

theorem seqWithdraw_recs (s : RibConc.SeqRib) (m : Nat) (t : Option Nat) :
    (RibConc.seqWithdraw s m t).recs = s.recs := by cases t <;> rfl

theorem sim_withdraw {enc : Bool → Rib.Prefix → Nat} (v : Rib.Variant) (hv : v.perRecordWithdraw = false)
    (r : Rib.Rib) (s : RibConc.SeqRib) (h : Sim enc r s) (m : Rib.Mui) (af : Option Rib.AfiSafi) :
    Sim enc (r.withdrawForIngress v m af) (RibConc.seqWithdraw s m (af.map afTree)) := by
  have one : ∀ (st : Rib.Store) (f : Rib.Fam), st.withdrawFams v [f] m = st.markMuiWithdrawn f m := by
    intro st f; simp [Rib.Store.withdrawFams, hv]
  constructor
  · intro mc p m'
    rw [seqWithdraw_recs, h.recs mc p m']
    cases af with
    | none =>
      simp only [Rib.Rib.store_withdrawForIngress_none,
        Rib.Store.get_withdrawFams, hv, Bool.false_eq_true, false_and, if_false]
    | some a =>
      cases a <;> cases mc <;>
        simp [Rib.Rib.withdrawForIngress, Rib.Rib.store, one]
  · intro mc f x
    have m00 : (0, x) ∈ s.marks ↔ x ∈ r.unicast.wd .v4 := by
      simpa [treeIdx, Rib.Rib.store] using h.marks false .v4 x
    have m01 : (1, x) ∈ s.marks ↔ x ∈ r.unicast.wd .v6 := by
      simpa [treeIdx, Rib.Rib.store] using h.marks false .v6 x
    have m10 : (2, x) ∈ s.marks ↔ x ∈ r.multicast.wd .v4 := by
      simpa [treeIdx, Rib.Rib.store] using h.marks true .v4 x
    have m11 : (3, x) ∈ s.marks ↔ x ∈ r.multicast.wd .v6 := by
      simpa [treeIdx, Rib.Rib.store] using h.marks true .v6 x
    cases af with
    | none =>
      simp only [Option.map_none, RibConc.seqWithdraw, Rib.Rib.store_withdrawForIngress_none,
        Rib.Store.mem_wd_withdrawFams, hv, List.mem_cons, Prod.mk.injEq]
      cases mc <;> cases f <;> simp [treeIdx, Rib.Rib.store, m00, m01, m10, m11]
    | some a =>
      cases a <;> cases mc <;> cases f <;>
        simp [RibConc.seqWithdraw, Rib.Rib.withdrawForIngress, Rib.Rib.store, one, afTree, treeIdx,
          Rib.Store.mem_wd_markMuiWithdrawn, List.mem_cons, m00, m01, m10, m11]

theorem sim_withdrawBulk {enc : Bool → Rib.Prefix → Nat} (v : Rib.Variant) (hv : v.perRecordWithdraw = false)
    (ms : List Rib.Mui) (r : Rib.Rib) (s : RibConc.SeqRib) (h : Sim enc r s) :
    Sim enc (ms.foldl (fun r m => r.withdrawForIngress v m none) r)
      (ms.foldl (fun s m => RibConc.seqWithdraw s m none) s) := by
  induction ms generalizing r s with
  | nil => exact h
  | cons m ms ih => exact ih _ _ (sim_withdraw v hv r s h m none)

/-- One `Update` of the shared model = the corresponding `Op` of RibConc's sequential RIB
    (the three non-writing variants change neither side). -/
theorem sim_apply {enc : Bool → Rib.Prefix → Nat} (henc : EncOK enc) (v : Rib.Variant)
    (hv : v.perRecordWithdraw = false) (r : Rib.Rib) (hr : r.WF) (s : RibConc.SeqRib) (h : Sim enc r s)
    (u : Rib.Update) :
    Sim enc (r.apply v u) (match opOf enc u with | some op => RibConc.seqOp s op | none => s) := by
  cases u with
  | single p =>
    have := sim_insertPayload henc r hr s h p
    simp only [opOf, Rib.Rib.apply]
    cases hp : plOf enc p with
    | none => rw [hp] at this; simpa [RibConc.seqOp] using this
    | some x => rw [hp] at this; simpa [RibConc.seqOp] using this
  | bulk ps => simpa [opOf, Rib.Rib.apply, RibConc.seqOp] using sim_foldl_insertPayload henc ps r hr s h
  | withdraw m af => simpa [opOf, Rib.Rib.apply, RibConc.seqOp] using sim_withdraw v hv r s h m af
  | withdrawBulk ms => simpa [opOf, Rib.Rib.apply, RibConc.seqOp] using sim_withdrawBulk v hv ms r s h
  | endOfStream => simpa [opOf, Rib.Rib.apply] using h
  | outputStream => simpa [opOf, Rib.Rib.apply] using h
  | queryResult => simpa [opOf, Rib.Rib.apply] using h

theorem WF_apply (v : Rib.Variant) (r : Rib.Rib) (hr : r.WF) (u : Rib.Update) : (r.apply v u).WF := by
  cases u with
  | single p => exact Rib.Rib.WF_insertPayload r hr p
  | bulk ps => exact Rib.Rib.WF_foldl_insertPayload ps r hr
  | withdraw m af => exact Rib.Rib.WF_withdrawForIngress v r hr m af
  | withdrawBulk ms => exact Rib.Rib.WF_withdrawBulk v ms r hr
  | endOfStream => exact hr
  | outputStream => exact hr
  | queryResult => exact hr

theorem WF_applyAll (v : Rib.Variant) (us : List Rib.Update) (r : Rib.Rib) (hr : r.WF) :
    (r.applyAll v us).WF := by
  induction us generalizing r with
  | nil => exact hr
  | cons u us ih => exact ih _ (WF_apply v r hr u)

theorem sim_applyAll {enc : Bool → Rib.Prefix → Nat} (henc : EncOK enc) (v : Rib.Variant)
    (hv : v.perRecordWithdraw = false) (us : List Rib.Update) (r : Rib.Rib) (hr : r.WF)
    (s : RibConc.SeqRib) (h : Sim enc r s) :
    Sim enc (r.applyAll v us) ((toProg enc us).foldl RibConc.seqOp s) := by
  induction us generalizing r s with
  | nil => exact h
  | cons u us ih =>
    have h1 := sim_apply henc v hv r hr s h u
    have hr1 := WF_apply v r hr u
    simp only [Rib.Rib.applyAll, List.foldl_cons, toProg] at ih ⊢
    cases ho : opOf enc u with
    | none =>
      rw [ho] at h1
      simp only [List.filterMap_cons, ho]
      exact ih _ hr1 _ h1
    | some op =>
      rw [ho] at h1
      simp only [List.filterMap_cons, ho, List.foldl_cons]
      exact ih _ hr1 _ h1

/-- The state abstraction map lands in the simulation relation. -/
theorem sim_ribToSeq {enc : Bool → Rib.Prefix → Nat} (henc : EncOK enc) (r : Rib.Rib) :
    Sim enc r (ribToSeq enc r) := by
  have lget_store : ∀ (mc mc' : Bool) (st : Rib.Store) (p : Rib.Prefix) (m : Rib.Mui),
      RibConc.lget (storeRecs enc mc' st) (enc mc p, m)
        = if mc' = mc then (st.get p m).map cVal else none := by
    intro mc mc' st p m
    simp only [storeRecs, Rib.Store.get]
    induction st.recs with
    | nil => simp [Rib.lookup]
    | cons e l ih =>
      simp only [List.map_cons, RibConc.lget_cons, Rib.lookup, Prod.mk.injEq]
      by_cases hk : e.1 = (p, m)
      · by_cases hmc : mc' = mc
        · subst hmc; simp [hk]
        · have : ¬ (enc mc' e.1.1 = enc mc p ∧ e.1.2 = m) := fun hh => hmc (henc.inj _ _ _ _ hh.1).1
          simp only [this, if_false, ih, hmc]
      · have : ¬ (enc mc' e.1.1 = enc mc p ∧ e.1.2 = m) := by
          rintro ⟨h1, h2⟩
          exact hk (Prod.ext (henc.inj _ _ _ _ h1).2 h2)
        simp only [this, if_false, ih, hk]
  have lget_append : ∀ (a b : RibConc.Recs) (k : Nat × Nat),
      RibConc.lget (a ++ b) k = (RibConc.lget a k).or (RibConc.lget b k) := by
    intro a b k
    induction a with
    | nil => simp
    | cons e a ih =>
      obtain ⟨k', x⟩ := e
      simp only [List.cons_append, RibConc.lget_cons]
      by_cases hk : k' = k <;> simp [hk, ih]
  constructor
  · intro mc p m
    simp only [ribToSeq, lget_append, lget_store]
    cases mc <;> simp [Rib.Rib.store]
  · intro mc f m
    simp only [ribToSeq, storeMarks, List.mem_append, List.mem_map, Prod.mk.injEq]
    cases mc <;> cases f <;> simp [treeIdx, Rib.Rib.store, Rib.Store.wd]

end Rotonda.Bridge
