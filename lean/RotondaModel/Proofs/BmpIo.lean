import RotondaModel.Model.BmpIo
/-! Helper lemmas about `readExact`, `readFrame` and the session `loop` (C06, C07). -/
namespace Rotonda.BmpIo

/-! ### readExact -/

theorem readExact_rest_le (n : Nat) (s : Src) (acc : List Nat) :
    (readExact n s acc).2.length ≤ s.length := by
  induction n generalizing s acc with
  | zero => simp [readExact]
  | succ n ih =>
    cases s with
    | nil => simp [readExact]
    | cons it s =>
      cases it with
      | byte b => simp only [readExact, List.length_cons]; exact Nat.le_succ_of_le (ih s (b :: acc))
      | fault k => simp [readExact]
      | term => simp [readExact]
      | idle => simp [readExact]

theorem readExact_progress (n : Nat) (s : Src) (acc : List Nat) (hs : s ≠ [])
    (hp : (readExact (n + 1) s acc).1 ≠ .pending) :
    (readExact (n + 1) s acc).2.length < s.length := by
  cases s with
  | nil => exact absurd rfl hs
  | cons it s =>
    cases it with
    | byte b =>
      simp only [readExact, List.length_cons]
      exact Nat.lt_succ_of_le (readExact_rest_le n s (b :: acc))
    | fault k => simp [readExact]
    | term => simp [readExact]
    | idle => simp [readExact] at hp

theorem readExact_nil (n : Nat) (acc : List Nat) :
    readExact (n + 1) [] acc = (.err .unexpectedEof, []) := rfl

/-- Reading exactly the bytes that are there, with no fault in between. -/
theorem readExact_bytes (bs : List Nat) (rest : Src) (acc : List Nat) :
    readExact bs.length (bs.map Item.byte ++ rest) acc = (.ok (acc.reverse ++ bs), rest) := by
  induction bs generalizing acc with
  | nil => simp [readExact]
  | cons b bs ih =>
    simp only [List.length_cons, List.map_cons, List.cons_append, readExact]
    rw [ih]; simp

/-! ### readFrame -/

theorem hdrSize_pos : hdrSize = 4 + 1 := rfl

theorem readFrame_nil (v : Variant) (valid : List Nat → Verdict) :
    readFrame v valid [] = (.ioErr .unexpectedEof, []) := rfl

theorem readFrame_rest_le (v : Variant) (valid : List Nat → Verdict) (s : Src) :
    (readFrame v valid s).2.length ≤ s.length := by
  unfold readFrame
  have h1 := readExact_rest_le hdrSize s []
  generalize readExact hdrSize s [] = r at h1
  obtain ⟨o, s1⟩ := r
  cases o with
  | err k => exact h1
  | terminated => exact h1
  | pending => exact h1
  | ok hdr =>
    simp only
    split
    · exact h1
    · exact h1
    · have h2 := readExact_rest_le (declaredLen hdr - sliceStart) s1 []
      generalize readExact (declaredLen hdr - sliceStart) s1 [] = r2 at h2
      obtain ⟨o2, s2⟩ := r2
      have h3 : s2.length ≤ s.length := Nat.le_trans h2 h1
      cases o2 with
      | err k => exact h3
      | terminated => exact h3
      | pending => exact h3
      | ok body =>
        simp only
        split <;> exact h3

theorem readFrame_progress (v : Variant) (valid : List Nat → Verdict) (s : Src) (hs : s ≠ [])
    (hp : (readFrame v valid s).1 ≠ .pending) :
    (readFrame v valid s).2.length < s.length := by
  unfold readFrame at hp ⊢
  have h1 := readExact_progress 4 s [] hs
  rw [← hdrSize_pos] at h1
  generalize readExact hdrSize s [] = r at h1 hp
  obtain ⟨o, s1⟩ := r
  cases o with
  | err k => exact h1 (by simp)
  | terminated => exact h1 (by simp)
  | pending => simp at hp
  | ok hdr =>
    have h1 := h1 (by simp)
    simp only at hp ⊢
    split
    · exact h1
    · exact h1
    · have h2 := readExact_rest_le (declaredLen hdr - sliceStart) s1 []
      generalize readExact (declaredLen hdr - sliceStart) s1 [] = r2 at h2
      obtain ⟨o2, s2⟩ := r2
      have h3 : s2.length < s.length := Nat.lt_of_le_of_lt h2 h1
      cases o2 with
      | err k => exact h3
      | terminated => exact h3
      | pending => exact h3
      | ok body =>
        simp only
        split <;> exact h3

/-- With a length guard of at least the slice start, and a parser that does not panic itself,
    `bmp_read` cannot panic. -/
theorem readFrame_no_panic (v : Variant) (hv : sliceStart ≤ v.minLen) (valid : List Nat → Verdict)
    (hp : ∀ bs, valid bs ≠ .crash) (s : Src) :
    (readFrame v valid s).1.isPanic = false := by
  unfold readFrame
  generalize readExact hdrSize s [] = r
  obtain ⟨o, s1⟩ := r
  cases o with
  | err k => simp [Outcome.isPanic]
  | terminated => simp [Outcome.isPanic]
  | pending => simp [Outcome.isPanic]
  | ok hdr =>
    simp only
    split
    · simp [Outcome.isPanic]
    · rename_i h1 h2
      have h1' := of_decide_eq_false h1
      have h2' := of_decide_eq_true h2
      omega
    · generalize readExact (declaredLen hdr - sliceStart) s1 [] = r2
      obtain ⟨o2, s2⟩ := r2
      cases o2 with
      | err k => simp [Outcome.isPanic]
      | terminated => simp [Outcome.isPanic]
      | pending => simp [Outcome.isPanic]
      | ok body =>
        simp only
        split
        · simp [Outcome.isPanic]
        · simp [Outcome.isPanic]
        · rename_i hc; exact absurd hc (hp _)

/-- Exactly when the code as written hits the bad slice: the five header bytes arrived and declare
    a length below the slice start. -/
theorem readFrame_asWritten_panic_iff (valid : List Nat → Verdict) (s : Src) :
    (readFrame asWritten valid s).1 = .panic .slice ↔
      ∃ hdr s1, readExact hdrSize s [] = (.ok hdr, s1) ∧ declaredLen hdr < sliceStart := by
  unfold readFrame
  generalize readExact hdrSize s [] = r
  obtain ⟨o, s1⟩ := r
  cases o with
  | err k => simp
  | terminated => simp
  | pending => simp
  | ok hdr =>
    simp only
    split
    · rename_i h1
      have := of_decide_eq_true h1
      simp [asWritten] at this
    · rename_i h1 h2
      have h2' := of_decide_eq_true h2
      simp only [true_iff]
      exact ⟨hdr, s1, rfl, h2'⟩
    · rename_i h1 h2
      have h2' := of_decide_eq_false h2
      generalize readExact (declaredLen hdr - sliceStart) s1 [] = r2
      obtain ⟨o2, s2⟩ := r2
      constructor
      · intro h
        cases o2 with
        | err k => simp at h
        | terminated => simp at h
        | pending => simp at h
        | ok body =>
          simp only at h
          split at h <;> simp at h
      · rintro ⟨hdr', s1', heq, hlt⟩
        simp only [Prod.mk.injEq, RE.ok.injEq] at heq
        obtain ⟨rfl, rfl⟩ := heq
        exact absurd hlt h2'

/-- A complete frame with no fault inside is consumed exactly; framing stays in sync whatever
    the parser says about it. -/
theorem readFrame_exact (v : Variant) (valid : List Nat → Verdict) (hdr body : List Nat) (rest : Src)
    (hh : hdr.length = hdrSize) (hlen : declaredLen hdr = sliceStart + body.length)
    (hmin : v.minLen ≤ declaredLen hdr) :
    readFrame v valid ((hdr ++ body).map Item.byte ++ rest) =
      (match valid (hdr ++ body) with
        | .accept => .frame (hdr ++ body) | .reject => .parseErr | .crash => .panic .parser, rest) := by
  unfold readFrame
  have e1 : readExact hdrSize ((hdr ++ body).map Item.byte ++ rest) [] =
      (.ok hdr, body.map Item.byte ++ rest) := by
    have := readExact_bytes hdr (body.map Item.byte ++ rest) []
    rw [hh] at this
    simpa [List.map_append, List.append_assoc] using this
  rw [e1]
  simp only
  have d1 : decide (declaredLen hdr < v.minLen) = false := decide_eq_false (by omega)
  have d2 : decide (declaredLen hdr < sliceStart) = false := decide_eq_false (by omega)
  rw [d1, d2]
  simp only
  have e2 : readExact (declaredLen hdr - sliceStart) (body.map Item.byte ++ rest) [] = (.ok body, rest) := by
    have := readExact_bytes body rest []
    have hl : declaredLen hdr - sliceStart = body.length := by omega
    rw [hl]; simpa using this
  rw [e2]
  simp only
  cases valid (hdr ++ body) <;> rfl

/-! ### the loop -/

def Ev.isPanic {Out : Type} : Ev Out → Bool
  | .panic _ => true
  | _ => false

variable {σ Out : Type}

/-- Progress: with more fuel than script items the loop always ends for a real reason. Uses the
    extracted table only through `isFatal .unexpectedEof = true` (end of input ends the session). -/
theorem loop_fuel (v : Variant) (h : Handler σ Out) (valid : Nat → List Nat → Verdict)
    (heof : isFatal .unexpectedEof = true) :
    ∀ (fuel : Nat) (s : Src) (st : σ) (i : Nat), s.length < fuel → (loop v h valid fuel s st i).fin ≠ .fuel := by
  intro fuel
  induction fuel with
  | zero => intro s st i hl; omega
  | succ fuel ih =>
    intro s st i hl
    unfold loop
    have hle := readFrame_rest_le v (valid i) s
    have hpr := readFrame_progress v (valid i) s
    have hnil := readFrame_nil v (valid i)
    generalize hrf : readFrame v (valid i) s = r at hle hpr
    obtain ⟨o, s'⟩ := r
    have hlt : ∀ k, o = .ioErr k → isFatal k = false → s'.length < fuel := by
      intro k hk hnf
      by_cases hs : s = []
      · subst hs
        rw [hnil] at hrf
        simp only [Prod.mk.injEq] at hrf
        obtain ⟨ho, _⟩ := hrf
        rw [hk] at ho
        cases ho
        rw [heof] at hnf; cases hnf
      · have := hpr hs (by rw [hk]; simp); simp only at this; omega
    have hlt' : o ≠ .ioErr .unexpectedEof → o ≠ .pending → s'.length < fuel := by
      intro hne hnp
      by_cases hs : s = []
      · subst hs
        rw [hnil] at hrf
        simp only [Prod.mk.injEq] at hrf
        exact absurd hrf.1.symm hne
      · have := hpr hs hnp; simp only at this; omega
    cases o with
    | terminated => simp
    | pending => simp
    | panic site => simp
    | ioErr k =>
      simp only
      split
      · simp
      · rename_i hnf
        simp only
        exact ih s' st i (hlt k rfl hnf)
    | parseErr =>
      simp only
      split
      · simp
      · simp only
        exact ih s' st (i + 1) (hlt' (by simp) (by simp))
    | frame bs =>
      simp only
      split
      · simp
      · simp
      · simp only
        exact ih s' _ (i + 1) (hlt' (by simp) (by simp))

/-- With the length guard the loop never records a panic and never ends by unwinding. -/
theorem loop_no_panic (v : Variant) (hv : sliceStart ≤ v.minLen) (h : Handler σ Out)
    (hh : ∀ st i bs, (h.step st i bs).2.2 ≠ .crash)
    (valid : Nat → List Nat → Verdict) (hp : ∀ i bs, valid i bs ≠ .crash) :
    ∀ (fuel : Nat) (s : Src) (st : σ) (i : Nat),
      (loop v h valid fuel s st i).evs.any Ev.isPanic = false ∧ (loop v h valid fuel s st i).fin ≠ .panicked := by
  intro fuel
  induction fuel with
  | zero => intro s st i; simp [loop]
  | succ fuel ih =>
    intro s st i
    unfold loop
    have hnp := readFrame_no_panic v hv (valid i) (hp i) s
    generalize readFrame v (valid i) s = r at hnp
    obtain ⟨o, s'⟩ := r
    cases o with
    | terminated => simp
    | pending => simp
    | panic site => simp [Outcome.isPanic] at hnp
    | ioErr k =>
      simp only
      split
      · simp [Ev.isPanic]
      · simp only [List.any_cons, Ev.isPanic, Bool.false_or]
        exact ih s' st i
    | parseErr =>
      simp only
      split
      · simp [Ev.isPanic]
      · simp only [List.any_cons, Ev.isPanic, Bool.false_or]
        exact ih s' st (i + 1)
    | frame bs =>
      simp only
      have hc := hh st i bs
      split
      · simp [Ev.isPanic]
      · rename_i heq; rw [heq] at hc; exact absurd rfl hc
      · simp only [List.any_cons, Ev.isPanic, Bool.false_or]
        exact ih s' _ (i + 1)

/-- The rest of the script never grows. -/
theorem loop_rest_le (v : Variant) (h : Handler σ Out) (valid : Nat → List Nat → Verdict) :
    ∀ (fuel : Nat) (s : Src) (st : σ) (i : Nat), (loop v h valid fuel s st i).rest.length ≤ s.length := by
  intro fuel
  induction fuel with
  | zero => intro s st i; simp [loop]
  | succ fuel ih =>
    intro s st i
    unfold loop
    have hle := readFrame_rest_le v (valid i) s
    generalize readFrame v (valid i) s = r at hle
    obtain ⟨o, s'⟩ := r
    simp only at hle
    cases o with
    | terminated => exact hle
    | pending => exact hle
    | panic site => exact hle
    | ioErr k =>
      simp only
      split
      · exact hle
      · exact Nat.le_trans (ih s' st i) hle
    | parseErr =>
      simp only
      split
      · exact hle
      · exact Nat.le_trans (ih s' st (i + 1)) hle
    | frame bs =>
      simp only
      split
      · exact hle
      · exact hle
      · exact Nat.le_trans (ih s' _ (i + 1)) hle

end Rotonda.BmpIo
