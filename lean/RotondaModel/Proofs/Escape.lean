import RotondaModel.Model.EscapePages
/-! Helper lemmas for C19. Core Lean only. -/
namespace Rotonda.Escape

theorem skeleton_append (a b : List Char) : skeleton (a ++ b) = skeleton a ++ skeleton b := by
  simp [skeleton]

theorem skeleton_nil : skeleton [] = [] := rfl

theorem skeleton_flatMap {α : Type} (l : List α) (f : α → List Char) :
    skeleton (l.flatMap f) = l.flatMap (fun a => skeleton (f a)) := by
  induction l with
  | nil => rfl
  | cons a l ih => simp [List.flatMap_cons, skeleton_append, ih]

/-- One escaped character contributes no structural character. -/
theorem skeleton_encodeSafeC (c : Char) : skeleton (encodeSafeC c) = [] := by
  unfold encodeSafeC
  split <;> try (simp [skeleton, structural]; done)
  rename_i h1 h2 h3 h4 h5 h6
  simp only [skeleton, List.filter_cons, List.filter_nil, structural]
  have a : (c == '<') = false := by simpa using h2
  have b : (c == '>') = false := by simpa using h3
  have d : (c == '"') = false := by simpa using h4
  have e : (c == '\'') = false := by simpa using h5
  simp [a, b, d, e]

theorem skeleton_encodeSafe (s : List Char) : skeleton (encodeSafe s) = [] := by
  unfold encodeSafe
  rw [skeleton_flatMap]
  simp [skeleton_encodeSafeC]

theorem skeleton_take_nil {s : List Char} (n : Nat) (h : skeleton s = []) : skeleton (s.take n) = [] := by
  unfold skeleton at *
  rw [List.filter_eq_nil_iff] at *
  intro c hc
  exact h c (List.mem_of_mem_take hc)

theorem skeleton_slice61 (s : List Char) : skeleton (slice61 (encodeSafe s)) = [] := by
  unfold slice61
  split
  · exact skeleton_take_nil _ (skeleton_encodeSafe s)
  · exact skeleton_encodeSafe s

/-- The skeleton a segment contributes from its own text. -/
def segLits : Seg → List Char
  | .lit s => s.toList
  | .hole .. => []

theorem lits_eq (t : Template) : lits t = t.flatMap segLits := by
  unfold lits
  congr 1

/-- A closed segment contributes exactly its own text's skeleton, whatever the input. -/
theorem skeleton_fill_closed (inp : Env) (s : Seg) (h : isOpenHole s = false) :
    skeleton (fill inp s) = skeleton (segLits s) := by
  cases s with
  | lit s => rfl
  | hole e cls sl why =>
    cases cls with
    | escaped => cases sl <;> simp [fill, segLits, skeleton_slice61, skeleton_encodeSafe, skeleton_nil]
    | safe => rfl
    | raw => simp [isOpenHole] at h
    | nested => simp [isOpenHole] at h

/-- The same when the open holes happen to receive harmless input. -/
theorem skeleton_fill_calm (inp : Env) (s : Seg)
    (h : ∀ e cls sl why, s = .hole e cls sl why → isOpenHole s = true → skeleton (inp e) = []) :
    skeleton (fill inp s) = skeleton (segLits s) := by
  cases hs : isOpenHole s with
  | false => exact skeleton_fill_closed inp s hs
  | true =>
    cases s with
    | lit s => simp [isOpenHole] at hs
    | hole e cls sl why =>
      have := h e cls sl why rfl hs
      cases cls with
      | escaped => simp [isOpenHole] at hs
      | safe => simp [isOpenHole] at hs
      | raw => simpa [fill, segLits, skeleton_nil] using this
      | nested => simpa [fill, segLits, skeleton_nil] using this

theorem skeleton_render_calm (t : Template) (inp : Env)
    (h : ∀ s ∈ t, ∀ e cls sl why, s = .hole e cls sl why → isOpenHole s = true → skeleton (inp e) = []) :
    skeleton (render t inp) = skeleton (lits t) := by
  rw [lits_eq]
  unfold render
  rw [skeleton_flatMap, skeleton_flatMap]
  induction t with
  | nil => rfl
  | cons s t ih =>
    simp only [List.flatMap_cons]
    rw [skeleton_fill_calm inp s (h s List.mem_cons_self)]
    rw [ih (fun s' hs' => h s' (List.mem_cons_of_mem _ hs'))]

theorem skeleton_render_closed (t : Template) (h : AllEscaped t) (inp : Env) :
    skeleton (render t inp) = skeleton (lits t) := by
  apply skeleton_render_calm
  intro s hs e cls sl why _ ho
  rw [h s hs] at ho
  cases ho

/-- Length accounting for the counterexample: with the input `<` for `e` and nothing else, every
    segment contributes at least its own skeleton, and a raw hole for `e` one character more. -/
def attack (e : String) : Env := fun e' => if e' = e then ['<'] else []

theorem skeleton_fill_attack_ge (e : String) (s : Seg) :
    (skeleton (segLits s)).length ≤ (skeleton (fill (attack e) s)).length := by
  cases s with
  | lit s => simp [fill, segLits]
  | hole e' cls sl why => simp [segLits, skeleton]

theorem skeleton_render_attack_gt (e : String) (t : Template) (sl : Bool) (why : String)
    (h : Seg.hole e .raw sl why ∈ t) :
    (skeleton (lits t)).length < (skeleton (render t (attack e))).length := by
  rw [lits_eq]
  unfold render
  rw [skeleton_flatMap, skeleton_flatMap]
  induction t with
  | nil => cases h
  | cons s t ih =>
    simp only [List.flatMap_cons, List.length_append]
    have hge := skeleton_fill_attack_ge e s
    have hrest : ((t.flatMap fun a => skeleton (segLits a))).length ≤ ((t.flatMap fun a => skeleton (fill (attack e) a))).length := by
      clear ih h hge
      induction t with
      | nil => simp
      | cons s' t' ih' =>
        simp only [List.flatMap_cons, List.length_append]
        have := skeleton_fill_attack_ge e s'
        omega
    rcases List.mem_cons.mp h with rfl | h'
    · have : (skeleton (fill (attack e) (Seg.hole e .raw sl why))).length = 1 := by
        simp [fill, attack, skeleton, structural]
      have h0 : (skeleton (segLits (Seg.hole e .raw sl why))).length = 0 := by simp [segLits, skeleton]
      omega
    · have := ih h'
      omega

end Rotonda.Escape
