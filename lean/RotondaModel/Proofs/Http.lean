import RotondaModel.Model.Http
/-!
Specification-side definitions and helper lemmas for C12 (`Props/C12.lean`).

`Proc.claims` / `Proc.malformed` are the *declarative* reading of each processor
(which requests it is responsible for; which of those are malformed); the lemmas
show that the transliterated sequential code (`Proc.run`, early returns and all)
computes exactly that.
-/
namespace Rotonda.Http

/-! ### Declarative routing and validity -/

/-- A RIB prefix query is malformed iff any of these holds (order-free). -/
def ribPrefixMalformed (d : Deps) (v4min v6min : Nat) (suffix : Bytes) (ps : List Param) : Bool :=
  match d.pfx suffix with
  | .err => true                                                            -- malformed prefix
  | .ok v4 len =>
    !includeOk ps                                                           -- unknown `include` value
    || (wantsMore ps && len < (if v4 then v4min else v6min))                -- too short for more-specifics
    || !detailsOk ps                                                        -- unknown `details` value
    || filtersRes d sSelect ps != .ok || filtersRes d sDiscard ps != .ok    -- bad ASN / community / filter family
    || !filterOpOk ps                                                       -- unknown `filter_op`
    || !(unusedParams ps).isEmpty                                           -- unrecognised parameter
    || !formatOk ps                                                         -- unsupported `format`

/-- A prefix query reaches a dependency call that panics (before anything rejects the request). -/
def ribPrefixDepPanics (d : Deps) (v4min v6min : Nat) (suffix : Bytes) (ps : List Param) : Bool :=
  match d.pfx suffix with
  | .err => false
  | .ok v4 len =>
    includeOk ps && !(wantsMore ps && len < (if v4 then v4min else v6min)) && detailsOk ps
    && (filtersRes d sSelect ps == .panic
        || (filtersRes d sSelect ps == .ok && filtersRes d sDiscard ps == .panic))

/-- A RIB request (prefix or ingress-id query, chosen by the number of raw path segments). -/
def ribMalformed (d : Deps) (v4min v6min : Nat) (raw suffix : Bytes) (ps : List Param) : Bool :=
  if countByte 47 raw + 1 = 3 then (parseUInt 4294967295 suffix).isNone
  else ribPrefixMalformed d v4min v6min suffix ps

/-- Which requests a processor is responsible for (it answers `Some`). -/
def Proc.claims (dec : Bytes) : Proc → Bool
  | .tracer => dec = sTracer
  | .graph _ => startsWith dec sGraph
  | .rib base _ _ => (stripPrefix dec base).isSome
  | .mrt base _ => ((stripPrefix dec base).map (startsWith · sQueue)).getD false
  | .routerList base => dec = base
  | .dead => false

/-- Which of the requests a processor claims are malformed (bad prefix / id / parameter / file). -/
def Proc.malformed (d : Deps) (raw dec : Bytes) (ps : List Param) : Proc → Bool
  | .tracer => false
  | .graph _ => false
  | .rib base v4min v6min => ribMalformed d v4min v6min raw ((stripPrefix dec base).getD []) ps
  | .mrt _ hasDir => !hasDir || !mrtFileOk d ps
  | .routerList _ => !sortByOk ps || !sortOrderOk ps
  | .dead => false

/-- Would this processor panic on the request (code as selected by `v`)? -/
def Proc.panics (v : Variant) (d : Deps) (raw dec : Bytes) (ps : List Param) : Proc → Option Site
  | .rib base v4min v6min =>
    if v.depPanic && countByte 47 raw + 1 ≠ 3
        && ribPrefixDepPanics d v4min v6min ((stripPrefix dec base).getD []) ps then some .depFromStr
    else none
  | .graph empty =>
    let restant := dec.drop sGraph.length
    if v.graphSplit && containsSub restant sTracesSeg && !isCharBoundary restant sTracesSeg.length then some .graphSplitAt
    else if v.graphEmpty && empty then some .graphEmpty
    else none
  | _ => none

def respOf (bad : Bool) : Resp := if bad then r400 else r200

/-! ### The sequential code computes the declarative reading -/

private theorem chainRib (dp a b c g h i : Bool) (e f : PRes) :
    (if (!a) = true then PR.resp r400 else if b = true then PR.resp r400 else if (!c) = true then PR.resp r400
     else match filterStop ⟨x1, x2, x3, dp⟩ e with
       | some r => r
       | none => match filterStop ⟨x1, x2, x3, dp⟩ f with
         | some r => r
         | none => if (!g) = true then PR.resp r400 else if (!h) = true then PR.resp r400
                   else if i = true then PR.resp r200 else PR.resp r400)
    = if (dp && (a && !b && c && (e == .panic || (e == .ok && f == .panic)))) = true then PR.panic .depFromStr
      else PR.resp (if (!a || b || !c || e != .ok || f != .ok || !g || !h || !i) = true then r400 else r200) := by
  cases dp <;> cases a <;> cases b <;> cases c <;> cases e <;> cases f <;> cases g <;> cases h <;> cases i <;> rfl

theorem ribPrefixQuery_eq (v : Variant) (d : Deps) (v4min v6min : Nat) (suffix : Bytes) (ps : List Param) :
    ribPrefixQuery v d v4min v6min suffix ps =
      if (v.depPanic && ribPrefixDepPanics d v4min v6min suffix ps) = true then .panic .depFromStr
      else .resp (respOf (ribPrefixMalformed d v4min v6min suffix ps)) := by
  unfold ribPrefixQuery ribPrefixMalformed ribPrefixDepPanics respOf
  cases d.pfx suffix with
  | err => simp
  | ok v4 len =>
    obtain ⟨x1, x2, x3, dp⟩ := v
    exact chainRib (x1 := x1) (x2 := x2) (x3 := x3) dp _ _ _ _ _ _ _ _

theorem ribIngressQuery_eq (suffix : Bytes) :
    ribIngressQuery suffix = respOf (parseUInt 4294967295 suffix).isNone := by
  unfold ribIngressQuery respOf
  cases parseUInt 4294967295 suffix <;> rfl

private theorem chain2 (a b : Bool) :
    (if (!a) = true then PR.resp r400 else if (!b) = true then PR.resp r400 else PR.resp r200)
    = PR.resp (if (!a || !b) = true then r400 else r200) := by
  cases a <;> cases b <;> rfl

private theorem chainMrt (q a b : Bool) :
    (if q = true then (if (!a) = true then PR.resp r400 else if b = true then PR.resp r200 else PR.resp r400) else PR.none)
    = if q = true then PR.resp (if (!a || !b) = true then r400 else r200) else PR.none := by
  cases q <;> cases a <;> cases b <;> rfl

private theorem ribOpt (v : Variant) (d : Deps) (v4min v6min : Nat) (raw : Bytes) (ps : List Param) (o : Option Bytes) :
    (match o with
      | none => PR.none
      | some suffix =>
        if countByte 47 raw + 1 = 3 then PR.resp (ribIngressQuery suffix)
        else ribPrefixQuery v d v4min v6min suffix ps) =
      if o.isSome = true then
        match (if (v.depPanic && decide (countByte 47 raw + 1 ≠ 3)
                && ribPrefixDepPanics d v4min v6min (o.getD []) ps) = true then some Site.depFromStr else none) with
        | some s => PR.panic s
        | none => PR.resp (respOf (if countByte 47 raw + 1 = 3 then (parseUInt 4294967295 (o.getD [])).isNone
            else ribPrefixMalformed d v4min v6min (o.getD []) ps))
      else PR.none := by
  cases o with
  | none => rfl
  | some suffix =>
    simp only [Option.isSome_some, if_true, Option.getD_some]
    by_cases hs : countByte 47 raw + 1 = 3
    · simp [hs, ribIngressQuery_eq]
    · simp only [hs, if_false, ne_eq, not_false_eq_true, decide_true, Bool.and_true]
      rw [ribPrefixQuery_eq]
      split <;> rfl

private theorem mrtOpt (d : Deps) (hasDir : Bool) (ps : List Param) (o : Option Bytes) :
    (match o with
      | none => PR.none
      | some action =>
        if startsWith action sQueue = true then
          if (!hasDir) = true then PR.resp r400 else if mrtFileOk d ps = true then PR.resp r200 else PR.resp r400
        else PR.none) =
      if (Option.map (fun x => startsWith x sQueue) o).getD false = true then
        PR.resp (if (!hasDir || !mrtFileOk d ps) = true then r400 else r200)
      else PR.none := by
  cases o with
  | none => rfl
  | some action =>
    simp only [Option.map_some, Option.getD_some]
    exact chainMrt _ _ _

/-- Every processor: `None` iff it does not claim the request; otherwise a panic exactly when
    `panics` says so, else 400/200 according to `malformed`. -/
theorem Proc.run_eq (v : Variant) (d : Deps) (raw dec : Bytes) (ps : List Param) (p : Proc) :
    p.run v d raw dec ps =
      if p.claims dec then
        match p.panics v d raw dec ps with
        | some s => .panic s
        | none => .resp (respOf (p.malformed d raw dec ps))
      else .none := by
  cases p with
  | tracer =>
    simp only [Proc.run, tracerProc, Proc.claims, Proc.panics, Proc.malformed, respOf]
    by_cases h : dec = sTracer <;> simp [h]
  | dead => simp [Proc.run, Proc.claims]
  | graph empty =>
    simp only [Proc.run, graphProc, Proc.claims, Proc.panics, Proc.malformed, respOf]
    by_cases h : startsWith dec sGraph = true
    · simp only [h, if_true]
      split
      · rfl
      · split <;> simp
    · simp [h]
  | routerList base =>
    simp only [Proc.run, routerListProc, Proc.claims, Proc.panics, Proc.malformed, respOf]
    by_cases h : dec = base
    · simp only [h, if_true, decide_true]
      exact chain2 _ _
    · simp [h]
  | rib base v4min v6min =>
    simp only [Proc.run, ribProc, Proc.claims, Proc.panics, Proc.malformed, ribMalformed]
    exact ribOpt v d v4min v6min raw ps _
  | mrt base hasDir =>
    simp only [Proc.run, mrtProc, Proc.claims, Proc.panics, Proc.malformed, respOf]
    exact mrtOpt d hasDir ps _

/-- `Resources::process_request`: the first claiming processor decides. -/
theorem firstSome_eq (v : Variant) (d : Deps) (raw dec : Bytes) (ps : List Param) (procs : List Proc) :
    firstSome v d raw dec ps procs =
      match procs.find? (·.claims dec) with
      | none => .none
      | some p =>
        match p.panics v d raw dec ps with
        | some s => .panic s
        | none => .resp (respOf (p.malformed d raw dec ps)) := by
  induction procs with
  | nil => simp [firstSome]
  | cons p rest ih =>
    simp only [firstSome, List.find?_cons]
    rw [Proc.run_eq]
    by_cases h : p.claims dec = true
    · simp only [h, if_true]
      cases p.panics v d raw dec ps <;> simp
    · simp only [h, Bool.false_eq_true, if_false]
      simp [ih]

/-! ### `encode_response` -/

/-- The client's `Accept-Encoding` header, as the code reads it, lists gzip. -/
def acceptsGzip (ae : Option Bytes) : Bool :=
  match ae with
  | some h => toStrOk h && containsSub h sGzip
  | none => false

/-- The header is one `to_str()` can read (or there is none). -/
def aeReadable (ae : Option Bytes) : Bool :=
  match ae with
  | some h => toStrOk h
  | none => true

theorem encode_eq (v : Variant) (compress : Bool) (ae : Option Bytes) (r : Resp) :
    encode v compress ae r =
      if compress && v.aeUnwrap && !aeReadable ae then .panic .aeToStr
      else .ok { r with gzip := r.gzip || (compress && acceptsGzip ae) } := by
  unfold encode acceptsGzip aeReadable
  cases compress <;> cases ae <;> simp
  rename_i h
  cases v.aeUnwrap <;> cases toStrOk h <;> cases containsSub h sGzip <;> simp

end Rotonda.Http
