import RotondaModel.Model.OutStream
/-!
Helper lemmas for C17: JSON string escaping round-trips and never contains a
raw line feed; decimal numbers round-trip; the small parser kit; `splitNl`.
-/
namespace Rotonda.OutStream

/-! ### hex digits -/

theorem hex4_hexDigit : ∀ n : Fin 32,
    hex4 '0' '0' (hexDigit (n.val / 16)) (hexDigit (n.val % 16)) = some n.val := by decide

theorem hexDigit_ne_nl : ∀ n : Fin 16, hexDigit n.val ≠ '\n' := by decide

/-! ### string escaping -/

theorem escapeChar_length_pos (c : Char) : 0 < (escapeChar c).length := by
  unfold escapeChar; repeat' split
  all_goals simp

theorem length_le_jsonStrBody (s : Str) : s.length ≤ (jsonStrBody s).length := by
  induction s with
  | nil => simp [jsonStrBody]
  | cons c cs ih =>
    have := escapeChar_length_pos c
    simp only [jsonStrBody, List.length_cons, List.length_append]; omega

theorem parseStrBody_jsonStrBody (s rest : Str) :
    ∀ fuel, s.length < fuel → parseStrBody fuel (jsonStrBody s ++ '"' :: rest) = some (s, rest) := by
  induction s with
  | nil => intro fuel h; cases fuel with
    | zero => omega
    | succ f => simp [jsonStrBody, parseStrBody]
  | cons c cs ih =>
    intro fuel h
    cases fuel with
    | zero => omega
    | succ f =>
      have hf : cs.length < f := by simp only [List.length_cons] at h; omega
      have ih' := ih f hf
      simp only [jsonStrBody, escapeChar]
      split
      · next hc => subst hc; simp [parseStrBody, unescapeChar, ih']
      split
      · next hc => subst hc; simp [parseStrBody, unescapeChar, ih']
      split
      · next hc => subst hc; simp [parseStrBody, unescapeChar, ih']
      split
      · next hc => subst hc; simp [parseStrBody, unescapeChar, ih']
      split
      · next hc => subst hc; simp [parseStrBody, unescapeChar, ih']
      split
      · next hc =>
        have : c = Char.ofNat 8 := by rw [← hc, Char.ofNat_toNat]
        subst this; simp [parseStrBody, unescapeChar, ih']
      split
      · next hc =>
        have : c = Char.ofNat 12 := by rw [← hc, Char.ofNat_toNat]
        subst this; simp [parseStrBody, unescapeChar, ih']
      split
      · next h1 h2 h3 h4 h5 h6 h7 hc =>
        have hx := hex4_hexDigit ⟨c.toNat, hc⟩
        simp only at hx
        simp [parseStrBody, hx, ih', Char.ofNat_toNat]
      · next h1 h2 h3 h4 h5 h6 h7 hc =>
        simp [parseStrBody, h1, h2, hc, ih']

theorem pStr_jsonStr (s rest : Str) : pStr (jsonStr s ++ rest) = some (s, rest) := by
  simp only [jsonStr, List.cons_append, List.append_assoc, pStr]
  apply parseStrBody_jsonStrBody
  have := length_le_jsonStrBody s
  simp only [List.length_append, List.length_cons]; omega

theorem nl_not_mem_escapeChar (c : Char) : '\n' ∉ escapeChar c := by
  unfold escapeChar; repeat' split
  all_goals first
    | (next hc => subst hc; decide)
    | skip
  all_goals try (simp; done)
  · -- \u00XX
    rename_i hlt
    have h1 := hexDigit_ne_nl ⟨c.toNat / 16, by omega⟩
    have h2 := hexDigit_ne_nl ⟨c.toNat % 16, by omega⟩
    simp only at h1 h2
    simp [Ne.symm h1, Ne.symm h2]
  · -- verbatim
    rename_i h1 h2 h3 h4 h5 h6 h7 h8
    simp [Ne.symm h3]

theorem nl_not_mem_jsonStrBody (s : Str) : '\n' ∉ jsonStrBody s := by
  induction s with
  | nil => simp [jsonStrBody]
  | cons c cs ih => simp [jsonStrBody, nl_not_mem_escapeChar, ih]

theorem nl_not_mem_jsonStr (s : Str) : '\n' ∉ jsonStr s := by
  simp [jsonStr, nl_not_mem_jsonStrBody]

/-! ### numbers -/

theorem isDigit_of_mem_digits {c : Char} {n : Nat} (h : c ∈ digits n) : c.isDigit = true :=
  Nat.isDigit_of_mem_toDigits (by decide) (by decide) h

theorem nl_not_mem_digits (n : Nat) : '\n' ∉ digits n := by
  intro h; have := isDigit_of_mem_digits h; revert this; decide

theorem digits_ne_nil (n : Nat) : digits n ≠ [] := Nat.toDigits_ne_nil

theorem takeWhile_digits (n : Nat) (c : Char) (rest : Str) (hc : c.isDigit = false) :
    (digits n ++ c :: rest).takeWhile Char.isDigit = digits n := by
  rw [List.takeWhile_append_of_pos (fun x hx => isDigit_of_mem_digits hx)]
  simp [hc]

theorem dropWhile_digits (n : Nat) (c : Char) (rest : Str) (hc : c.isDigit = false) :
    (digits n ++ c :: rest).dropWhile Char.isDigit = c :: rest := by
  rw [List.dropWhile_append_of_pos (fun x hx => isDigit_of_mem_digits hx)]
  simp [hc]

theorem pNat_digits (n : Nat) (c : Char) (rest : Str) (hc : c.isDigit = false) :
    pNat (digits n ++ c :: rest) = some (n, c :: rest) := by
  unfold pNat
  rw [takeWhile_digits n c rest hc, dropWhile_digits n c rest hc]
  have hne := digits_ne_nil n
  split
  · next h => exact absurd h hne
  · simp [digits, Nat.ofDigitChars_ten_toDigits]

theorem takeWhile_all {α : Type} (p : α → Bool) (l : List α) (h : ∀ x ∈ l, p x = true) :
    l.takeWhile p = l := by
  induction l with
  | nil => rfl
  | cons a as ih => simp_all [List.takeWhile_cons]

theorem dropWhile_all {α : Type} (p : α → Bool) (l : List α) (h : ∀ x ∈ l, p x = true) :
    l.dropWhile p = [] := by
  induction l with
  | nil => rfl
  | cons a as ih => simp_all [List.dropWhile_cons]

theorem pNat_digits_end (n : Nat) : pNat (digits n) = some (n, []) := by
  unfold pNat
  have h1 : (digits n).takeWhile Char.isDigit = digits n :=
    takeWhile_all _ _ (fun x hx => isDigit_of_mem_digits hx)
  have h2 : (digits n).dropWhile Char.isDigit = [] :=
    dropWhile_all _ _ (fun x hx => isDigit_of_mem_digits hx)
  rw [h1, h2]
  have hne := digits_ne_nil n
  split
  · next h => exact absurd h hne
  · simp [digits, Nat.ofDigitChars_ten_toDigits]

/-! ### parser kit -/

theorem lit_append (s rest : Str) : lit s (s ++ rest) = some rest := by
  induction s with
  | nil => cases rest <;> simp [lit]
  | cons c cs ih => simp [lit, ih]

theorem lit_cons_ne (c d : Char) (s l : Str) (h : c ≠ d) : lit (c :: s) (d :: l) = none := by
  simp [lit, h]

theorem lit_null_digits (n : Nat) (rest : Str) : lit nullLit (digits n ++ rest) = none := by
  have hne := digits_ne_nil n
  cases hd : digits n with
  | nil => exact absurd hd hne
  | cons d ds =>
    have : d.isDigit = true := isDigit_of_mem_digits (by rw [hd]; simp)
    have hdn : 'n' ≠ d := by intro h; subst h; revert this; decide
    simp [nullLit, lit, hdn]

theorem lit_null_jsonStr (s rest : Str) : lit nullLit (jsonStr s ++ rest) = none := by
  simp [nullLit, jsonStr, lit]

theorem pOpt_none {α : Type} (p : P α) (rest : Str) : pOpt p (nullLit ++ rest) = some (none, rest) := by
  simp [pOpt, lit_append]

theorem pOptNat_json (o : Option Nat) (c : Char) (rest : Str) (hc : c.isDigit = false) :
    pOpt pNat (optJson digits o ++ c :: rest) = some (o, c :: rest) := by
  cases o with
  | none => exact pOpt_none _ _
  | some n => simp [optJson, pOpt, lit_null_digits, pNat_digits n c rest hc]

theorem pOptStr_json (o : Option Str) (rest : Str) :
    pOpt pStr (optJson jsonStr o ++ rest) = some (o, rest) := by
  cases o with
  | none => exact pOpt_none _ _
  | some s => simp [optJson, pOpt, lit_null_jsonStr, pStr_jsonStr]

/-! ### lines -/

theorem splitNl_of_not_mem (s : Str) (h : '\n' ∉ s) : splitNl s = [s] := by
  induction s with
  | nil => simp [splitNl]
  | cons c cs ih =>
    have hc : c ≠ '\n' := fun e => h (by simp [e])
    have hcs : '\n' ∉ cs := fun e => h (by simp [e])
    simp [splitNl, ih hcs, hc]

theorem splitNl_length_pos (s : Str) : 0 < (splitNl s).length := by
  induction s with
  | nil => simp [splitNl]
  | cons c cs ih =>
    unfold splitNl
    split
    · simp
    · split <;> simp

theorem nl_not_mem_escNl (s : Str) : '\n' ∉ escNl s := by
  induction s with
  | nil => simp [escNl]
  | cons c cs ih =>
    unfold escNl
    split
    · simp [ih]
    split
    · simp [ih]
    split
    · simp [ih]
    · next h1 h2 h3 => simp [ih, Ne.symm h2]

theorem unescNl_escNl (s : Str) : unescNl (escNl s) = some s := by
  induction s with
  | nil => simp [escNl, unescNl]
  | cons c cs ih =>
    unfold escNl
    split
    · next h => subst h; simp [unescNl, ih]
    split
    · next h => subst h; simp [unescNl, ih]
    split
    · next h => subst h; simp [unescNl, ih]
    · next h1 h2 h3 =>
      cases hcs : escNl cs with
      | nil => rw [hcs] at ih; simp_all [unescNl]
      | cons d ds => rw [hcs] at ih; simp_all [unescNl]

end Rotonda.OutStream

namespace Rotonda.OutStream

/-! ### readers for the record shapes (the "parses back" side of C17) -/

def pFld {α : Type} (k : String) (p : P α) : P α := fun l =>
  match lit (',' :: key k) l with
  | some l => p l
  | none => none

def parsePeerdownJson (l : Str) : Option (Str × Nat) :=
  match lit ['['] l with
  | none => none
  | some l =>
  match pStr l with
  | none => none
  | some (ip, l) =>
  match lit [','] l with
  | none => none
  | some l =>
  match pNat l with
  | none => none
  | some (asn, l) => if l = [']'] then some (ip, asn) else none

def parseCustomJson (l : Str) : Option (Nat × Nat) :=
  match lit ('{' :: key "id") l with
  | none => none
  | some l =>
  match pNat l with
  | none => none
  | some (i, l) =>
  match pFld "value" pNat l with
  | none => none
  | some (v, l) => if l = ['}'] then some (i, v) else none

def parseEntryJson (l : Str) : Option LogEntry :=
  match lit ('{' :: key "timestamp") l with
  | none => none
  | some l =>
  match pNat l with
  | none => none
  | some (ts, l) =>
  match pFld "origin_as" (pOpt pNat) l with
  | none => none
  | some (oas, l) =>
  match pFld "peer_as" (pOpt pNat) l with
  | none => none
  | some (pas, l) =>
  match pFld "as_path_hops" (pOpt pNat) l with
  | none => none
  | some (hops, l) =>
  match pFld "conventional_reach" pNat l with
  | none => none
  | some (cr, l) =>
  match pFld "conventional_unreach" pNat l with
  | none => none
  | some (cu, l) =>
  match pFld "mp_reach" (pOpt pNat) l with
  | none => none
  | some (mpr, l) =>
  match pFld "mp_reach_afisafi" (pOpt pStr) l with
  | none => none
  | some (mpra, l) =>
  match pFld "mp_unreach" (pOpt pNat) l with
  | none => none
  | some (mpu, l) =>
  match pFld "mp_unreach_afisafi" (pOpt pStr) l with
  | none => none
  | some (mpua, l) =>
  match pFld "custom" (pOpt pStr) l with
  | none => none
  | some (custom, l) =>
    if l = ['}'] then some ⟨ts, oas, pas, hops, cr, cu, mpr, mpra, mpu, mpua, custom⟩ else none

def parseCustomCsv (l : Str) : Option (Nat × Nat) :=
  match pNat l with
  | none => none
  | some (i, l) =>
  match lit [','] l with
  | none => none
  | some l =>
  match pNat l with
  | none => none
  | some (v, l) => if l = [] then some (i, v) else none

/-- An address without a comma (every `IpAddr` rendering) followed by the AS number. -/
def parsePeerdownCsv (l : Str) : Option (Str × Nat) :=
  match lit [','] (l.dropWhile (· ≠ ',')) with
  | none => none
  | some r =>
  match pNat r with
  | none => none
  | some (asn, r) => if r = [] then some (l.takeWhile (· ≠ ','), asn) else none

theorem lit_cons_append (c : Char) (s rest : Str) : lit (c :: s) (c :: (s ++ rest)) = some rest := by
  have := lit_append (c :: s) rest
  simpa using this

theorem pFld_fld {α : Type} (k : String) (p : P α) (v rest : Str) :
    pFld k p (fld k v rest) = p (v ++ rest) := by
  simp [pFld, fld, lit_cons_append]

theorem parsePeerdownJson_roundtrip (ip : Str) (asn : Nat) :
    parsePeerdownJson (jsonPeerdown ip asn) = some (ip, asn) := by
  simp [parsePeerdownJson, jsonPeerdown, lit, pStr_jsonStr, pNat_digits asn ']' [] (by decide)]

theorem parseCustomJson_roundtrip (i v : Nat) :
    parseCustomJson (jsonCustom i v) = some (i, v) := by
  have h := pFld_fld "value" pNat (digits v) ['}']
  simp only [fld] at h
  simp [parseCustomJson, jsonCustom, lit_cons_append, pNat_digits i ',' _ (by decide), h,
    pNat_digits v '}' [] (by decide)]

theorem parseEntryJson_roundtrip (e : LogEntry) : parseEntryJson (jsonEntry e) = some e := by
  have comma : ','.isDigit = false := by decide
  have brace : '}'.isDigit = false := by decide
  cases e with
  | mk ts oas pas hops cr cu mpr mpra mpu mpua custom =>
  simp only [parseEntryJson, jsonEntry, lit_cons_append]
  simp only [fld.eq_def ("origin_as")]
  rw [pNat_digits ts ',' _ comma]
  simp only [← fld.eq_def]
  simp only [pFld_fld]
  simp only [fld.eq_def ("peer_as")]; rw [pOptNat_json oas ',' _ comma]; simp only [← fld.eq_def, pFld_fld]
  simp only [fld.eq_def ("as_path_hops")]; rw [pOptNat_json pas ',' _ comma]; simp only [← fld.eq_def, pFld_fld]
  simp only [fld.eq_def ("conventional_reach")]; rw [pOptNat_json hops ',' _ comma]; simp only [← fld.eq_def, pFld_fld]
  simp only [fld.eq_def ("conventional_unreach")]; rw [pNat_digits cr ',' _ comma]; simp only [← fld.eq_def, pFld_fld]
  simp only [fld.eq_def ("mp_reach")]; rw [pNat_digits cu ',' _ comma]; simp only [← fld.eq_def, pFld_fld]
  simp only [fld.eq_def ("mp_reach_afisafi")]; rw [pOptNat_json mpr ',' _ comma]; simp only [← fld.eq_def, pFld_fld]
  rw [pOptStr_json mpra]; simp only [pFld_fld]
  simp only [fld.eq_def ("mp_unreach_afisafi")]; rw [pOptNat_json mpu ',' _ comma]; simp only [← fld.eq_def, pFld_fld]
  rw [pOptStr_json mpua]; simp only [pFld_fld]
  rw [pOptStr_json custom]
  simp

theorem parseCustomCsv_roundtrip (i v : Nat) : parseCustomCsv (csvCustom i v) = some (i, v) := by
  simp [parseCustomCsv, csvCustom, pNat_digits i ',' _ (by decide), lit, pNat_digits_end]

theorem parsePeerdownCsv_roundtrip (ip : Str) (asn : Nat) (h : ',' ∉ ip) :
    parsePeerdownCsv (csvPeerdown ip asn) = some (ip, asn) := by
  have hp : ∀ x ∈ ip, (decide (x ≠ ',')) = true := by
    intro x hx; simp only [decide_eq_true_eq]; intro e; exact h (e ▸ hx)
  have h1 : (ip ++ ',' :: digits asn).dropWhile (· ≠ ',') = ',' :: digits asn := by
    rw [List.dropWhile_append_of_pos hp]; simp
  have h2 : (ip ++ ',' :: digits asn).takeWhile (· ≠ ',') = ip := by
    rw [List.takeWhile_append_of_pos hp]; simp
  simp only [parsePeerdownCsv, csvPeerdown]
  rw [h1, h2]
  simp [lit, pNat_digits_end]

/-! ### no raw line feed in any JSON line -/

theorem nl_not_mem_key (k : String) (h : '\n' ∉ k.toList) : '\n' ∉ key k := by
  simp [key, h]

theorem nl_not_mem_optJson {α : Type} (f : α → Str) (o : Option α) (h : ∀ a, '\n' ∉ f a) :
    '\n' ∉ optJson f o := by
  cases o with
  | none => simp [optJson, nullLit]
  | some a => exact h a

theorem nl_not_mem_fld (k : String) (v rest : Str) (hk : '\n' ∉ k.toList) (hv : '\n' ∉ v)
    (hr : '\n' ∉ rest) : '\n' ∉ fld k v rest := by
  simp [fld, key, hk, hv, hr]

theorem nl_not_mem_ofld {α : Type} (k : String) (f : α → Str) (o : Option α) (rest : Str)
    (hk : '\n' ∉ k.toList) (hf : ∀ a, '\n' ∉ f a) (hr : '\n' ∉ rest) : '\n' ∉ ofld k f o rest := by
  cases o with
  | none => exact hr
  | some a => exact nl_not_mem_fld k _ _ hk (hf a) hr

theorem nl_not_mem_jsonPeerdown (ip : Str) (asn : Nat) : '\n' ∉ jsonPeerdown ip asn := by
  simp [jsonPeerdown, nl_not_mem_jsonStr, nl_not_mem_digits]

theorem nl_not_mem_jsonCustom (i v : Nat) : '\n' ∉ jsonCustom i v := by
  simp [jsonCustom, key, nl_not_mem_digits]

theorem nl_not_mem_jsonEntry (e : LogEntry) : '\n' ∉ jsonEntry e := by
  unfold jsonEntry
  have hd := nl_not_mem_digits
  have hs := nl_not_mem_jsonStr
  have hod : ∀ o, '\n' ∉ optJson digits o := fun o => nl_not_mem_optJson _ o hd
  have hos : ∀ o, '\n' ∉ optJson jsonStr o := fun o => nl_not_mem_optJson _ o hs
  simp only [List.mem_cons, List.mem_append, not_or]
  refine ⟨by decide, nl_not_mem_key _ (by decide), hd _, ?_⟩
  repeat' (first
    | exact (by decide : '\n' ∉ ['}'])
    | apply nl_not_mem_fld _ _ _ (by decide) (by first | exact hd _ | exact hod _ | exact hos _))

theorem nl_not_mem_jsonEntryMin (e : LogEntry) : '\n' ∉ jsonEntryMin e := by
  unfold jsonEntryMin
  have hd := nl_not_mem_digits
  have hs := nl_not_mem_jsonStr
  simp only [List.mem_cons, List.mem_append, not_or]
  refine ⟨by decide, nl_not_mem_key _ (by decide), hd _, ?_⟩
  repeat' (first
    | exact (by decide : '\n' ∉ ['}'])
    | apply nl_not_mem_fld _ _ _ (by decide) (hd _)
    | apply nl_not_mem_ofld _ _ _ _ (by decide) (by first | exact hd | exact hs))

end Rotonda.OutStream
