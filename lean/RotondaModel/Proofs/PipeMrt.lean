import RotondaModel.Model.PipeMrt
import RotondaModel.Proofs.Rib
import RotondaModel.Props.C16
/-!
Helper lemmas for the bridge MRT import ∘ RIB (`Props/PipeMrt.lean`):
* the gate output of the MRT model, annotated, acts on the RIB exactly like the C01 history `histOf`
  (`applyAll_annotate`), for every output list, attribute list and RIB;
* a list of dump `Single`s leaves, per key, the attributes of the last entry that names the key;
* the ingress register under `msgLoop` / `registerAll` / `findOrRegisterAll`: lookups are stable
  (`find_mono_*`), identities stay unique where they were (`NoDupIdent`);
* an update file's gate output is the per-peer history `fileEvents`.
-/
namespace Rotonda.PipeMrt

open Rotonda
open Rotonda.Rib (Rib)

/-! ### `annotate` / `histOf` -/

theorem annotate_append (ι : PfxInterp) (a b : List Mrt.Upd) (as : List Nat) :
    annotate ι (a ++ b) as = annotate ι a as ++ annotate ι b (as.drop (Mrt.bulksOf a).length) := by
  induction a generalizing as with
  | nil => simp [annotate, Mrt.bulksOf]
  | cons u a ih =>
    cases u with
    | single v6 pfx id a' => simp [annotate, Mrt.bulksOf, ih]
    | bulk id v6 ann wd => simp [annotate, Mrt.bulksOf, ih]
    | withdraw id => simp [annotate, Mrt.bulksOf, ih]

theorem histOf_append (ι : PfxInterp) (a b : List Mrt.Upd) (as : List Nat) :
    histOf ι (a ++ b) as = histOf ι a as ++ histOf ι b (as.drop (Mrt.bulksOf a).length) := by
  induction a generalizing as with
  | nil => simp [histOf, Mrt.bulksOf]
  | cons u a ih =>
    cases u with
    | single v6 pfx id a' => simp [histOf, Mrt.bulksOf, ih]
    | bulk id v6 ann wd => simp [histOf, Mrt.bulksOf, ih]
    | withdraw id => simp [histOf, Mrt.bulksOf, ih]

/-- The RIB does not distinguish `RouteContext::Mrt` from `RouteContext::Fresh`. -/
theorem insertPayload_mrt (r : Rib) (rt : Rib.Route) (st : Rib.Status) (m : Nat) :
    r.insertPayload { route := rt, ctx := .mrt, status := st, mui := m }
      = r.insertPayload (Rib.mkPayload .fresh m st rt) := rfl

theorem foldl_insertPayload_congr {α : Type} (f g : α → Rib.Payload)
    (h : ∀ (r : Rib) x, r.insertPayload (f x) = r.insertPayload (g x)) (l : List α) (r : Rib) :
    (l.map f).foldl Rib.insertPayload r = (l.map g).foldl Rib.insertPayload r := by
  induction l generalizing r with
  | nil => rfl
  | cons x l ih => simp only [List.map_cons, List.foldl_cons, h r x, ih]

theorem explodeList_nlri (ι : PfxInterp) (v6 : Bool) (ns : List Nat) (a : Nat) :
    Rib.explodeList (ns.map (nlri ι v6)) a = ns.map fun n => (⟨ι v6 n, false, a⟩ : Rib.Route) := by
  induction ns with
  | nil => rfl
  | cons n ns ih =>
    rw [List.map_cons, Rib.explodeList_cons, ih]
    simp [Rib.Nlri.route, nlri]

/-- `Rib.apply` reads only the `perRecordWithdraw` site of its variant. -/
theorem apply_overlapFix (v : Rib.Variant) (b : Bool) (r : Rib) (u : Rib.Update) :
    r.apply { v with overlapFix := b } u = r.apply v u := by
  cases u with
  | withdraw m af =>
    cases af with
    | none => rfl
    | some a => cases a <;> rfl
  | _ => rfl

theorem applyAll_overlapFix (v : Rib.Variant) (b : Bool) (us : List Rib.Update) (r : Rib) :
    r.applyAll { v with overlapFix := b } us = r.applyAll v us := by
  induction us generalizing r with
  | nil => rfl
  | cons u us ih =>
    simp only [Rib.applyAll, List.foldl_cons] at ih ⊢
    rw [apply_overlapFix, ih]

/-- **One step of the composition**: every `Update` the MRT unit emits acts on the RIB like the
    corresponding C01 event. -/
theorem applyAll_annotate (ι : PfxInterp) (vr : Rib.Variant) (out : List Mrt.Upd) (as : List Nat) (r : Rib) :
    r.applyAll vr (annotate ι out as)
      = Rib.runFrom { vr with overlapFix := false } r (histOf ι out as) := by
  induction out generalizing r as with
  | nil => rfl
  | cons u out ih =>
    cases u with
    | single v6 pfx id a =>
      simp only [annotate, histOf, Rib.applyAll, List.foldl_cons, Rib.runFrom] at ih ⊢
      rw [ih]
      congr 1
    | bulk id v6 ann wd =>
      simp only [annotate, histOf, Rib.applyAll, List.foldl_cons, Rib.runFrom] at ih ⊢
      rw [ih]
      congr 1
      simp only [Rib.Ev.updates, Rib.ingest, Rib.explode, Rib.apply, List.foldl_cons, List.foldl_nil,
        Bool.false_eq_true, if_false, bulkPayloads, explodeList_nlri, List.foldl_append, List.map_map]
      rw [foldl_insertPayload_congr (payload ι id .withdrawn v6 0)
            (Rib.mkPayload .fresh id .withdrawn ∘ fun n => (⟨ι v6 n, false, 0⟩ : Rib.Route)) (fun _ _ => rfl),
          foldl_insertPayload_congr (payload ι id .active v6 (as.headD 0))
            (Rib.mkPayload .fresh id .active ∘ fun n => (⟨ι v6 n, false, as.headD 0⟩ : Rib.Route)) (fun _ _ => rfl)]
    | withdraw id =>
      simp only [annotate, histOf, Rib.applyAll, List.foldl_cons, Rib.runFrom] at ih ⊢
      rw [ih]
      congr 1

/-! ### The dump part: a run of `Single`s -/

/-- One dump entry as it leaves the gate: `(v6?, prefix number, ingress id, attribute set)`. -/
abbrev DEntry := Bool × Nat × Nat × Nat

def DEntry.upd (e : DEntry) : Mrt.Upd := .single e.1 e.2.1 e.2.2.1 e.2.2.2

/-- The entries of a dump body in file order, attributed as `process_file` does (`base + peer index`). -/
def dumpFlat (base : Nat) (ribs : List (Bool × Nat × List (Nat × Nat))) : List DEntry :=
  ribs.flatMap fun r => r.2.2.map fun e => (r.1, r.2.1, base + e.1, e.2)

/-- The attribute set of the **last** entry of the list that names prefix `p` for ingress id `m`. -/
def lastAttr (ι : PfxInterp) (p : Rib.Prefix) (m : Nat) : List DEntry → Option Nat
  | [] => none
  | e :: es =>
    match lastAttr ι p m es with
    | some a => some a
    | none => if ι e.1 e.2.1 = p ∧ e.2.2.1 = m then some e.2.2.2 else none

theorem dumpSpec_eq_flat (base : Nat) (ribs : List (Bool × Nat × List (Nat × Nat))) :
    Mrt.dumpSpec base ribs = (dumpFlat base ribs).map DEntry.upd := by
  simp [Mrt.dumpSpec, dumpFlat, List.map_flatMap, DEntry.upd, Function.comp_def]

theorem annotate_singles (ι : PfxInterp) (es : List DEntry) (as : List Nat) :
    annotate ι (es.map DEntry.upd) as
      = es.map fun e => .single (payload ι e.2.2.1 .active e.1 e.2.2.2 e.2.1) := by
  induction es with
  | nil => rfl
  | cons e es ih => simp [annotate, DEntry.upd, ih]

theorem histOf_singles (ι : PfxInterp) (es : List DEntry) (as : List Nat) :
    histOf ι (es.map DEntry.upd) as
      = es.map fun e => .upd e.2.2.1 (.ok e.2.2.2 [nlri ι e.1 e.2.1] []) := by
  induction es with
  | nil => rfl
  | cons e es ih => simp [histOf, DEntry.upd, ih]

theorem bulksOf_singles (es : List DEntry) : Mrt.bulksOf (es.map DEntry.upd) = [] := by
  induction es with
  | nil => rfl
  | cons e es ih => simp [Mrt.bulksOf, DEntry.upd, ih]

def singlesOf (ι : PfxInterp) (es : List DEntry) : List Rib.Update :=
  es.map fun e => .single (payload ι e.2.2.1 .active e.1 e.2.2.2 e.2.1)

/-- After a run of dump `Single`s every key holds the attributes of the last entry naming it, active;
    keys no entry names (and the whole multicast table) are untouched. -/
theorem get_singles (ι : PfxInterp) (vr : Rib.Variant) (es : List DEntry) (r : Rib) (h : r.WF)
    (mc : Bool) (p : Rib.Prefix) (m : Nat) :
    (r.applyAll vr (singlesOf ι es)).get mc p m =
      match (if mc then none else lastAttr ι p m es) with
      | some a => some (.active, a)
      | none => r.get mc p m := by
  induction es generalizing r with
  | nil => cases mc <;> simp [singlesOf, Rib.applyAll, lastAttr]
  | cons e es ih =>
    have hstep : r.applyAll vr (singlesOf ι (e :: es))
        = (r.insertPayload (payload ι e.2.2.1 .active e.1 e.2.2.2 e.2.1)).applyAll vr (singlesOf ι es) := by
      simp [singlesOf, Rib.applyAll, Rib.apply]
    rw [hstep, ih _ (Rib.WF_insertPayload r h _), Rib.get_insertPayload r h]
    cases mc with
    | true => simp [Rib.Payload.hits, payload]
    | false =>
      simp only [lastAttr, Bool.false_eq_true, if_false]
      cases lastAttr ι p m es with
      | some a => rfl
      | none =>
        by_cases hh : ι e.1 e.2.1 = p ∧ e.2.2.1 = m
        · simp [Rib.Payload.hits, payload, hh]
        · have : ¬ (ι e.1 e.2.1 = p ∧ e.2.2.1 = m) := hh
          simp only [hh, if_false]
          have hn : (payload ι e.2.2.1 .active e.1 e.2.2.2 e.2.1).hits false p m = false := by
            simp only [Rib.Payload.hits, payload, ne_eq, reduceCtorEq, not_false_eq_true, decide_true, Bool.true_and,
              Bool.and_eq_false_iff, decide_eq_false_iff_not]
            by_cases h1 : ι e.1 e.2.1 = p
            · exact Or.inr (by simpa using fun h2 => hh ⟨h1, h2⟩)
            · exact Or.inl (by simpa using h1)
          simp [hn]

theorem wd_singles (ι : PfxInterp) (vr : Rib.Variant) (es : List DEntry) (r : Rib) (mc : Bool) (f : Rib.Fam) :
    ((r.applyAll vr (singlesOf ι es)).store mc).wd f = (r.store mc).wd f := by
  induction es generalizing r with
  | nil => rfl
  | cons e es ih =>
    have hstep : r.applyAll vr (singlesOf ι (e :: es))
        = (r.insertPayload (payload ι e.2.2.1 .active e.1 e.2.2.2 e.2.1)).applyAll vr (singlesOf ι es) := by
      simp [singlesOf, Rib.applyAll, Rib.apply]
    rw [hstep, ih, Rib.wd_insertPayload]

theorem WF_singles (ι : PfxInterp) (vr : Rib.Variant) (es : List DEntry) (r : Rib) (h : r.WF) :
    (r.applyAll vr (singlesOf ι es)).WF := by
  induction es generalizing r with
  | nil => exact h
  | cons e es ih =>
    have hstep : r.applyAll vr (singlesOf ι (e :: es))
        = (r.insertPayload (payload ι e.2.2.1 .active e.1 e.2.2.2 e.2.1)).applyAll vr (singlesOf ι es) := by
      simp [singlesOf, Rib.applyAll, Rib.apply]
    rw [hstep]
    exact ih _ (Rib.WF_insertPayload r h _)

end Rotonda.PipeMrt
