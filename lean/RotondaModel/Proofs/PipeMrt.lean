import RotondaModel.Model.PipeMrt
import RotondaModel.Proofs.Rib
import RotondaModel.Props.C16
/-!
Helper lemmas for the bridge MRT import ∘ RIB (`Props/PipeMrt.lean`):
* the gate output of the MRT model, annotated, acts on the RIB exactly like the C01 history `histOf`
  (`applyAll_annotate`), for every output list, attribute list and RIB;
* a list of dump `Single`s leaves, per key, the attributes of the last entry that names the key;
* the ingress register under `msgLoop` / `registerAll` / `findOrRegisterAll`: lookups are stable
  (`find_mono_*`), identities stay unique where they were (`NoDupIdent`);
* an update file's gate output is the per-peer history `fileEvents`.
-/
namespace Rotonda.PipeMrt

open Rotonda
open Rotonda.Rib (Rib)

/-! ### `annotate` / `histOf` -/

theorem annotate_append (ι : PfxInterp) (a b : List Mrt.Upd) (as : List Nat) :
    annotate ι (a ++ b) as = annotate ι a as ++ annotate ι b (as.drop (Mrt.bulksOf a).length) := by
  induction a generalizing as with
  | nil => simp [annotate, Mrt.bulksOf]
  | cons u a ih =>
    cases u with
    | single v6 pfx id a' => simp [annotate, Mrt.bulksOf, ih]
    | bulk id v6 ann wd => simp [annotate, Mrt.bulksOf, ih]
    | withdraw id => simp [annotate, Mrt.bulksOf, ih]

theorem histOf_append (ι : PfxInterp) (a b : List Mrt.Upd) (as : List Nat) :
    histOf ι (a ++ b) as = histOf ι a as ++ histOf ι b (as.drop (Mrt.bulksOf a).length) := by
  induction a generalizing as with
  | nil => simp [histOf, Mrt.bulksOf]
  | cons u a ih =>
    cases u with
    | single v6 pfx id a' => simp [histOf, Mrt.bulksOf, ih]
    | bulk id v6 ann wd => simp [histOf, Mrt.bulksOf, ih]
    | withdraw id => simp [histOf, Mrt.bulksOf, ih]

/-- The RIB does not distinguish `RouteContext::Mrt` from `RouteContext::Fresh`. -/
theorem insertPayload_mrt (r : Rib) (rt : Rib.Route) (st : Rib.Status) (m : Nat) :
    r.insertPayload { route := rt, ctx := .mrt, status := st, mui := m }
      = r.insertPayload (Rib.mkPayload .fresh m st rt) := rfl

theorem foldl_insertPayload_congr {α : Type} (f g : α → Rib.Payload)
    (h : ∀ (r : Rib) x, r.insertPayload (f x) = r.insertPayload (g x)) (l : List α) (r : Rib) :
    (l.map f).foldl Rib.insertPayload r = (l.map g).foldl Rib.insertPayload r := by
  induction l generalizing r with
  | nil => rfl
  | cons x l ih => simp only [List.map_cons, List.foldl_cons, h r x, ih]

theorem explodeList_nlri (ι : PfxInterp) (v6 : Bool) (ns : List Nat) (a : Nat) :
    Rib.explodeList (ns.map (nlri ι v6)) a = ns.map fun n => (⟨ι v6 n, false, a⟩ : Rib.Route) := by
  induction ns with
  | nil => rfl
  | cons n ns ih =>
    rw [List.map_cons, Rib.explodeList_cons, ih]
    simp [Rib.Nlri.route, nlri]

/-- `Rib.apply` reads only the `perRecordWithdraw` site of its variant. -/
theorem apply_overlapFix (v : Rib.Variant) (b : Bool) (r : Rib) (u : Rib.Update) :
    r.apply { v with overlapFix := b } u = r.apply v u := by
  cases u with
  | withdraw m af =>
    cases af with
    | none => rfl
    | some a => cases a <;> rfl
  | _ => rfl

theorem applyAll_overlapFix (v : Rib.Variant) (b : Bool) (us : List Rib.Update) (r : Rib) :
    r.applyAll { v with overlapFix := b } us = r.applyAll v us := by
  induction us generalizing r with
  | nil => rfl
  | cons u us ih =>
    simp only [Rib.applyAll, List.foldl_cons] at ih ⊢
    rw [apply_overlapFix, ih]

/-- **One step of the composition**: every `Update` the MRT unit emits acts on the RIB like the
    corresponding C01 event. -/
theorem applyAll_annotate (ι : PfxInterp) (vr : Rib.Variant) (out : List Mrt.Upd) (as : List Nat) (r : Rib) :
    r.applyAll vr (annotate ι out as)
      = Rib.runFrom { vr with overlapFix := false } r (histOf ι out as) := by
  induction out generalizing r as with
  | nil => rfl
  | cons u out ih =>
    cases u with
    | single v6 pfx id a =>
      simp only [annotate, histOf, Rib.applyAll, List.foldl_cons, Rib.runFrom] at ih ⊢
      rw [ih]
      congr 1
    | bulk id v6 ann wd =>
      simp only [annotate, histOf, Rib.applyAll, List.foldl_cons, Rib.runFrom] at ih ⊢
      rw [ih]
      congr 1
      simp only [Rib.Ev.updates, Rib.ingest, Rib.explode, Rib.apply, List.foldl_cons, List.foldl_nil,
        Bool.false_eq_true, if_false, bulkPayloads, explodeList_nlri, List.foldl_append, List.map_map]
      rw [foldl_insertPayload_congr (payload ι id .withdrawn v6 0)
            (Rib.mkPayload .fresh id .withdrawn ∘ fun n => (⟨ι v6 n, false, 0⟩ : Rib.Route)) (fun _ _ => rfl),
          foldl_insertPayload_congr (payload ι id .active v6 (as.headD 0))
            (Rib.mkPayload .fresh id .active ∘ fun n => (⟨ι v6 n, false, as.headD 0⟩ : Rib.Route)) (fun _ _ => rfl)]
    | withdraw id =>
      simp only [annotate, histOf, Rib.applyAll, List.foldl_cons, Rib.runFrom] at ih ⊢
      rw [ih]
      congr 1

/-! ### The dump part: a run of `Single`s -/

/-- One dump entry as it leaves the gate: `(v6?, prefix number, ingress id, attribute set)`. -/
abbrev DEntry := Bool × Nat × Nat × Nat

def DEntry.upd (e : DEntry) : Mrt.Upd := .single e.1 e.2.1 e.2.2.1 e.2.2.2

/-- The entries of a dump body in file order, attributed as `process_file` does (`base + peer index`). -/
def dumpFlat (base : Nat) (ribs : List (Bool × Nat × List (Nat × Nat))) : List DEntry :=
  ribs.flatMap fun r => r.2.2.map fun e => (r.1, r.2.1, base + e.1, e.2)

/-- The attribute set of the **last** entry of the list that names prefix `p` for ingress id `m`. -/
def lastAttr (ι : PfxInterp) (p : Rib.Prefix) (m : Nat) : List DEntry → Option Nat
  | [] => none
  | e :: es =>
    match lastAttr ι p m es with
    | some a => some a
    | none => if ι e.1 e.2.1 = p ∧ e.2.2.1 = m then some e.2.2.2 else none

theorem dumpSpec_eq_flat (base : Nat) (ribs : List (Bool × Nat × List (Nat × Nat))) :
    Mrt.dumpSpec base ribs = (dumpFlat base ribs).map DEntry.upd := by
  simp [Mrt.dumpSpec, dumpFlat, List.map_flatMap, DEntry.upd, Function.comp_def]

theorem annotate_singles (ι : PfxInterp) (es : List DEntry) (as : List Nat) :
    annotate ι (es.map DEntry.upd) as
      = es.map fun e => .single (payload ι e.2.2.1 .active e.1 e.2.2.2 e.2.1) := by
  induction es with
  | nil => rfl
  | cons e es ih => simp [annotate, DEntry.upd, ih]

theorem histOf_singles (ι : PfxInterp) (es : List DEntry) (as : List Nat) :
    histOf ι (es.map DEntry.upd) as
      = es.map fun e => .upd e.2.2.1 (.ok e.2.2.2 [nlri ι e.1 e.2.1] []) := by
  induction es with
  | nil => rfl
  | cons e es ih => simp [histOf, DEntry.upd, ih]

theorem bulksOf_singles (es : List DEntry) : Mrt.bulksOf (es.map DEntry.upd) = [] := by
  induction es with
  | nil => rfl
  | cons e es ih => simp [Mrt.bulksOf, DEntry.upd, ih]

def singlesOf (ι : PfxInterp) (es : List DEntry) : List Rib.Update :=
  es.map fun e => .single (payload ι e.2.2.1 .active e.1 e.2.2.2 e.2.1)

/-- After a run of dump `Single`s every key holds the attributes of the last entry naming it, active;
    keys no entry names (and the whole multicast table) are untouched. -/
theorem get_singles (ι : PfxInterp) (vr : Rib.Variant) (es : List DEntry) (r : Rib) (h : r.WF)
    (mc : Bool) (p : Rib.Prefix) (m : Nat) :
    (r.applyAll vr (singlesOf ι es)).get mc p m =
      match (if mc then none else lastAttr ι p m es) with
      | some a => some (.active, a)
      | none => r.get mc p m := by
  induction es generalizing r with
  | nil => cases mc <;> simp [singlesOf, Rib.applyAll, lastAttr]
  | cons e es ih =>
    have hstep : r.applyAll vr (singlesOf ι (e :: es))
        = (r.insertPayload (payload ι e.2.2.1 .active e.1 e.2.2.2 e.2.1)).applyAll vr (singlesOf ι es) := by
      simp [singlesOf, Rib.applyAll, Rib.apply]
    rw [hstep, ih _ (Rib.WF_insertPayload r h _), Rib.get_insertPayload r h]
    cases mc with
    | true => simp [Rib.Payload.hits, payload]
    | false =>
      simp only [lastAttr, Bool.false_eq_true, if_false]
      cases lastAttr ι p m es with
      | some a => rfl
      | none =>
        by_cases hh : ι e.1 e.2.1 = p ∧ e.2.2.1 = m
        · simp [Rib.Payload.hits, payload, hh]
        · have : ¬ (ι e.1 e.2.1 = p ∧ e.2.2.1 = m) := hh
          simp only [hh, if_false]
          have hn : (payload ι e.2.2.1 .active e.1 e.2.2.2 e.2.1).hits false p m = false := by
            simp only [Rib.Payload.hits, payload, ne_eq, reduceCtorEq, not_false_eq_true, decide_true, Bool.true_and,
              Bool.and_eq_false_iff]
            by_cases h1 : ι e.1 e.2.1 = p
            · exact Or.inr (decide_eq_false (fun h2 => hh ⟨h1, h2⟩))
            · exact Or.inl (decide_eq_false h1)
          simp [hn]

theorem wd_singles (ι : PfxInterp) (vr : Rib.Variant) (es : List DEntry) (r : Rib) (mc : Bool) (f : Rib.Fam) :
    ((r.applyAll vr (singlesOf ι es)).store mc).wd f = (r.store mc).wd f := by
  induction es generalizing r with
  | nil => rfl
  | cons e es ih =>
    have hstep : r.applyAll vr (singlesOf ι (e :: es))
        = (r.insertPayload (payload ι e.2.2.1 .active e.1 e.2.2.2 e.2.1)).applyAll vr (singlesOf ι es) := by
      simp [singlesOf, Rib.applyAll, Rib.apply]
    rw [hstep, ih, Rib.wd_insertPayload]

theorem WF_singles (ι : PfxInterp) (vr : Rib.Variant) (es : List DEntry) (r : Rib) (h : r.WF) :
    (r.applyAll vr (singlesOf ι es)).WF := by
  induction es generalizing r with
  | nil => exact h
  | cons e es ih =>
    have hstep : r.applyAll vr (singlesOf ι (e :: es))
        = (r.insertPayload (payload ι e.2.2.1 .active e.1 e.2.2.2 e.2.1)).applyAll vr (singlesOf ι es) := by
      simp [singlesOf, Rib.applyAll, Rib.apply]
    rw [hstep]
    exact ih _ (Rib.WF_insertPayload r h _)

/-! ### The ingress register: lookups are stable -/

theorem find_eq (r : Mrt.Reg) (par : Nat) (q : Mrt.Peer) :
    r.find (some par) q = (r.infos.find? (fun e => decide (e.2.1 = par ∧ e.2.2 = q))).map (·.1) := by
  simp only [Mrt.Reg.find]
  split <;> rename_i h <;> rw [h] <;> rfl

/-- The lookup after one registration. -/
theorem find_register (r : Mrt.Reg) (par par' : Nat) (p q : Mrt.Peer) :
    (r.register par p).1.find (some par') q =
      match r.find (some par') q with
      | some id => some id
      | none => if par = par' ∧ p = q then some r.next else none := by
  simp only [find_eq, Mrt.Reg.register, List.find?_append]
  cases r.infos.find? (fun e => decide (e.2.1 = par' ∧ e.2.2 = q)) with
  | some e => rfl
  | none =>
    by_cases h : par = par' ∧ p = q
    · simp [h]
    · simp [h]

theorem find_register_mono (r : Mrt.Reg) (par par' : Nat) (p q : Mrt.Peer) (id : Nat)
    (h : r.find (some par') q = some id) : (r.register par p).1.find (some par') q = some id := by
  rw [find_register, h]

/-- `find_or_register_peer`, as `process_message` uses it. -/
def lookupOrRegister (r : Mrt.Reg) (par : Nat) (p : Mrt.Peer) : Mrt.Reg × Nat :=
  match r.find (some par) p with
  | some id => (r, id)
  | none => r.register par p

theorem lookupOrRegister_find (r : Mrt.Reg) (par : Nat) (p : Mrt.Peer) :
    (lookupOrRegister r par p).1.find (some par) p = some (lookupOrRegister r par p).2 := by
  unfold lookupOrRegister
  cases h : r.find (some par) p with
  | some id => exact h
  | none => rw [find_register, h]; simp [Mrt.Reg.register]

theorem lookupOrRegister_mono (r : Mrt.Reg) (par : Nat) (p q : Mrt.Peer) (id : Nat)
    (h : r.find (some par) q = some id) : (lookupOrRegister r par p).1.find (some par) q = some id := by
  unfold lookupOrRegister
  cases r.find (some par) p with
  | some _ => exact h
  | none => exact find_register_mono r par par p q id h

theorem lookupOrRegister_known (r : Mrt.Reg) (par : Nat) (p x : Mrt.Peer) :
    knownIn (lookupOrRegister r par p).1 par x = (decide (x = p) || knownIn r par x) := by
  unfold lookupOrRegister knownIn
  cases h : r.find (some par) p with
  | some id =>
    by_cases hx : x = p
    · subst hx; simp [h]
    · simp [hx]
  | none =>
    simp only [find_register]
    cases hx : r.find (some par) x with
    | some id' => simp
    | none =>
      by_cases hp : p = x
      · subst hp; simp
      · have : ¬ x = p := fun e => hp e.symm
        simp [hp, this]

theorem msgLoop_update (v : Mrt.Variant) (par : Nat) (reg : Mrt.Reg) (p : Mrt.Peer) (v6 : Bool) (ann wd : List Nat)
    (a : Nat) (rest : List Mrt.Rec) :
    Mrt.msgLoop v par reg (.msg p (.update v6 ann wd a) :: rest) =
      ⟨(Mrt.msgLoop v par (lookupOrRegister reg par p).1 rest).reg,
       .bulk (lookupOrRegister reg par p).2 v6 ann (Mrt.keptWd v ann wd) :: (Mrt.msgLoop v par (lookupOrRegister reg par p).1 rest).out,
       (Mrt.msgLoop v par (lookupOrRegister reg par p).1 rest).status⟩ := by
  simp only [Mrt.msgLoop, lookupOrRegister]
  cases reg.find (some par) p <;> rfl

/-- A peer that the register answers an id for keeps that id through the rest of the file. -/
theorem msgLoop_find_mono (v : Mrt.Variant) (par : Nat) (recs : List Mrt.Rec) (reg : Mrt.Reg) (q : Mrt.Peer) (id : Nat)
    (h : reg.find (some par) q = some id) : (Mrt.msgLoop v par reg recs).reg.find (some par) q = some id := by
  induction recs generalizing reg with
  | nil => exact h
  | cons r recs ih =>
    cases r with
    | msg p m =>
      cases m with
      | update v6 ann wd a =>
        rw [msgLoop_update]
        exact ih _ (lookupOrRegister_mono reg par p q id h)
      | other => simpa [Mrt.msgLoop] using ih reg h
      | garbage => simpa [Mrt.msgLoop] using ih reg h
    | stateChange p old new => simpa [Mrt.msgLoop] using ih reg h
    | peerIndex ps => simpa [Mrt.msgLoop] using ih reg h
    | rib v6 pfx es => simpa [Mrt.msgLoop] using ih reg h
    | ribOther => simpa [Mrt.msgLoop] using ih reg h
    | localMsg => simpa [Mrt.msgLoop] using h
    | otherType => simpa [Mrt.msgLoop] using h

/-! ### An update file's gate output is the per-peer history `fileEvents` -/

theorem histOf_withdraws (ι : PfxInterp) (w o : List Mrt.Upd) (as : List Nat)
    (hw : ∀ u ∈ w, ∃ id, u = .withdraw id) :
    histOf ι (w ++ o) as = histOf ι w as ++ histOf ι o as := by
  rw [histOf_append, Mrt.bulksOf_withdraws w hw]
  rfl

/-- `fileEvents` that also stops where `msgLoop` stops. -/
def fileEventsM (ι : PfxInterp) (v : Mrt.Variant) (idOf : Mrt.Peer → Nat) (known : Mrt.Peer → Bool) : List Mrt.Rec → Rib.History
  | [] => []
  | .otherType :: _ => []
  | .localMsg :: _ => []
  | .msg q (.update v6 ann wd a) :: rest =>
    .upd (idOf q) (.ok a (ann.map (nlri ι v6)) ((Mrt.keptWd v ann wd).map (nlri ι v6)))
      :: fileEventsM ι v idOf (fun x => decide (x = q) || known x) rest
  | .stateChange q old new :: rest =>
    (if old = Mrt.established ∧ new = Mrt.idle ∧ v.sc = .repaired ∧ known q = true then [Rib.Ev.down (idOf q)] else [])
      ++ fileEventsM ι v idOf known rest
  | _ :: rest => fileEventsM ι v idOf known rest

theorem fileEventsM_eq (ι : PfxInterp) (v : Mrt.Variant) (idOf : Mrt.Peer → Nat) (recs : List Mrt.Rec)
    (h : recs.all Mrt.Rec.isBgp4mpSupported = true) (known : Mrt.Peer → Bool) :
    fileEventsM ι v idOf known recs = fileEvents ι v idOf known recs := by
  induction recs generalizing known with
  | nil => rfl
  | cons r recs ih =>
    simp only [List.all_cons, Bool.and_eq_true] at h
    cases r with
    | msg p m => cases m <;> simp [fileEventsM, fileEvents, ih h.2]
    | stateChange p old new => simp [fileEventsM, fileEvents, ih h.2]
    | _ => simp [Mrt.Rec.isBgp4mpSupported] at h

/-- **Every record list** (whatever it contains, wherever the reader gives up): the gate output of the
    messages pass, read as a C01 history, is the file's UPDATEs and effective Established→Idle state
    changes in file order, each under the id the *final* register answers for its peer — one id per
    peer for the whole file. -/
theorem histOf_msgLoop (ι : PfxInterp) (v : Mrt.Variant) (par : Nat) (recs : List Mrt.Rec) (reg : Mrt.Reg) (idOf : Mrt.Peer → Nat)
    (hid : ∀ q id, (Mrt.msgLoop v par reg recs).reg.find (some par) q = some id → idOf q = id) :
    histOf ι (Mrt.msgLoop v par reg recs).out (msgAttrs recs)
      = fileEventsM ι v idOf (knownIn reg par) recs := by
  induction recs generalizing reg with
  | nil => rfl
  | cons r recs ih =>
    cases r with
    | msg p m =>
      cases m with
      | update v6 ann wd a =>
        rw [msgLoop_update] at hid ⊢
        simp only [histOf, msgAttrs, List.headD_cons, List.tail_cons, fileEventsM]
        rw [ih _ hid]
        have hk : knownIn (lookupOrRegister reg par p).1 par = fun x => decide (x = p) || knownIn reg par x := by
          funext x; exact lookupOrRegister_known reg par p x
        rw [hk, hid p _ (msgLoop_find_mono v par recs _ p _ (lookupOrRegister_find reg par p))]
      | other => simpa [Mrt.msgLoop, msgAttrs, fileEventsM] using ih reg (by simpa [Mrt.msgLoop] using hid)
      | garbage => simpa [Mrt.msgLoop, msgAttrs, fileEventsM] using ih reg (by simpa [Mrt.msgLoop] using hid)
    | stateChange p old new =>
      have hid' : ∀ q id, (Mrt.msgLoop v par reg recs).reg.find (some par) q = some id → idOf q = id := by
        simpa [Mrt.msgLoop] using hid
      simp only [Mrt.msgLoop, msgAttrs, fileEventsM]
      rw [histOf_withdraws, ih reg hid']
      · congr 1
        by_cases hc : old = Mrt.established ∧ new = Mrt.idle
        · simp only [hc, and_self, if_true, true_and]
          cases hv : v.sc with
          | asWritten => simp [Mrt.Reg.find, histOf]
          | repaired =>
            simp only [true_and, knownIn]
            cases hf : reg.find (some par) p with
            | none => simp [histOf]
            | some id =>
              have := hid' p id (msgLoop_find_mono v par recs reg p id hf)
              simp [histOf, this]
        · have : ¬ (old = Mrt.established ∧ new = Mrt.idle ∧ v.sc = .repaired ∧ knownIn reg par p = true) :=
            fun h => hc ⟨h.1, h.2.1⟩
          simp [hc, this, histOf]
      · intro u hu
        split at hu
        · split at hu
          · simp only [List.mem_singleton] at hu; exact ⟨_, hu⟩
          · simp at hu
        · simp at hu
    | peerIndex ps => simpa [Mrt.msgLoop, msgAttrs, fileEventsM] using ih reg (by simpa [Mrt.msgLoop] using hid)
    | rib v6 pfx es => simpa [Mrt.msgLoop, msgAttrs, fileEventsM] using ih reg (by simpa [Mrt.msgLoop] using hid)
    | ribOther => simpa [Mrt.msgLoop, msgAttrs, fileEventsM] using ih reg (by simpa [Mrt.msgLoop] using hid)
    | localMsg => simp [Mrt.msgLoop, histOf, fileEventsM]
    | otherType => simp [Mrt.msgLoop, histOf, fileEventsM]

/-! ### Identities registered once stay registered once -/

theorem find_none_iff (r : Mrt.Reg) (par : Nat) (q : Mrt.Peer) :
    r.find (some par) q = none ↔ (par, q) ∉ r.infos.map (·.2) := by
  rw [find_eq, Option.map_eq_none_iff, List.find?_eq_none]
  constructor
  · intro h hm
    obtain ⟨e, he, heq⟩ := List.mem_map.mp hm
    apply h e he
    simp only [decide_eq_true_eq]
    exact ⟨by rw [heq], by rw [heq]⟩
  · intro h e he hp
    simp only [decide_eq_true_eq] at hp
    exact h (List.mem_map.mpr ⟨e, he, Prod.ext hp.1 hp.2⟩)

theorem inj_of_nodup_map {α β : Type} (f : α → β) (l : List α) (h : (l.map f).Nodup) (x y : α)
    (hx : x ∈ l) (hy : y ∈ l) (hxy : f x = f y) : x = y := by
  induction l with
  | nil => cases hx
  | cons a l ih =>
    simp only [List.map_cons, List.nodup_cons, List.mem_map, not_exists, not_and] at h
    rcases List.mem_cons.mp hx with rfl | hx' <;> rcases List.mem_cons.mp hy with rfl | hy'
    · rfl
    · exact absurd hxy.symm (h.1 y hy')
    · exact absurd hxy (h.1 x hx')
    · exact ih h.2 hx' hy'

/-- With identities registered once, the lookup answers *the* id of the peer. -/
theorem find_of_mem (r : Mrt.Reg) (h : NoDupIdent r) (id par : Nat) (q : Mrt.Peer) (hm : (id, par, q) ∈ r.infos) :
    r.find (some par) q = some id := by
  rw [find_eq]
  cases hf : r.infos.find? (fun e => decide (e.2.1 = par ∧ e.2.2 = q)) with
  | none =>
    rw [List.find?_eq_none] at hf
    exact absurd (by simp) (hf _ hm)
  | some e =>
    have he := List.mem_of_find?_eq_some hf
    have hp := List.find?_some hf
    simp only [decide_eq_true_eq] at hp
    have : e = (id, par, q) :=
      inj_of_nodup_map (fun (x : Nat × Nat × Mrt.Peer) => x.2) r.infos h e _ he hm (Prod.ext hp.1 hp.2)
    simp [this]

theorem mem_idsOf (r : Mrt.Reg) (par : Nat) (q : Mrt.Peer) (id : Nat) :
    id ∈ idsOf r par q ↔ (id, par, q) ∈ r.infos := by
  simp only [idsOf, List.mem_map, List.mem_filter, decide_eq_true_eq]
  constructor
  · rintro ⟨e, ⟨he, h1, h2⟩, rfl⟩
    obtain ⟨a, b, c⟩ := e
    simp only at h1 h2
    subst h1 h2
    exact he
  · intro h
    exact ⟨_, ⟨h, rfl, rfl⟩, rfl⟩

theorem NoDup_register (r : Mrt.Reg) (par : Nat) (p : Mrt.Peer) (h : NoDupIdent r)
    (hf : r.find (some par) p = none) : NoDupIdent (r.register par p).1 := by
  rw [find_none_iff] at hf
  simp only [NoDupIdent, Mrt.Reg.register, List.map_append, List.map_cons, List.map_nil]
  rw [List.nodup_append]
  refine ⟨h, by simp, ?_⟩
  intro a ha b hb
  simp only [List.mem_singleton] at hb
  subst hb
  intro e
  exact hf (e ▸ ha)

theorem NoDup_lookupOrRegister (r : Mrt.Reg) (par : Nat) (p : Mrt.Peer) (h : NoDupIdent r) :
    NoDupIdent (lookupOrRegister r par p).1 := by
  unfold lookupOrRegister
  cases hf : r.find (some par) p with
  | some id => exact h
  | none => exact NoDup_register r par p h hf

theorem NoDup_msgLoop (v : Mrt.Variant) (par : Nat) (recs : List Mrt.Rec) (reg : Mrt.Reg) (h : NoDupIdent reg) :
    NoDupIdent (Mrt.msgLoop v par reg recs).reg := by
  induction recs generalizing reg with
  | nil => exact h
  | cons r recs ih =>
    cases r with
    | msg p m =>
      cases m with
      | update v6 ann wd a =>
        rw [msgLoop_update]
        exact ih _ (NoDup_lookupOrRegister reg par p h)
      | other => simpa [Mrt.msgLoop] using ih reg h
      | garbage => simpa [Mrt.msgLoop] using ih reg h
    | stateChange p old new => simpa [Mrt.msgLoop] using ih reg h
    | peerIndex ps => simpa [Mrt.msgLoop] using ih reg h
    | rib v6 pfx es => simpa [Mrt.msgLoop] using ih reg h
    | ribOther => simpa [Mrt.msgLoop] using ih reg h
    | localMsg => simpa [Mrt.msgLoop] using h
    | otherType => simpa [Mrt.msgLoop] using h

theorem findOrRegisterAll_cons (r : Mrt.Reg) (par : Nat) (p : Mrt.Peer) (ps : List Mrt.Peer) :
    findOrRegisterAll r par (p :: ps) =
      ((findOrRegisterAll (lookupOrRegister r par p).1 par ps).1,
       (lookupOrRegister r par p).2 :: (findOrRegisterAll (lookupOrRegister r par p).1 par ps).2) := by
  simp only [findOrRegisterAll, lookupOrRegister]
  cases r.find (some par) p <;> rfl

theorem NoDup_findOrRegisterAll (par : Nat) (ps : List Mrt.Peer) (r : Mrt.Reg) (h : NoDupIdent r) :
    NoDupIdent (findOrRegisterAll r par ps).1 := by
  induction ps generalizing r with
  | nil => exact h
  | cons p ps ih =>
    rw [findOrRegisterAll_cons]
    exact ih _ (NoDup_lookupOrRegister r par p h)

/-! ### `processFile` by cases -/

theorem processFile_asWritten (v : Variant) (hv : v.dumpreg = .asWritten) (parent : Nat) (reg : Mrt.Reg) (f : Mrt.File) :
    processFile v parent reg f = Mrt.processFile v.mrt parent reg f := by
  simp [processFile, hv]

theorem processFile_unreadable (v : Variant) (parent : Nat) (reg : Mrt.Reg) (f : Mrt.File)
    (h : f.comp.readable = false) : processFile v parent reg f = ⟨reg, [], .err⟩ := by
  cases hv : v.dumpreg <;> simp [processFile, Mrt.processFile, hv, h]

/-- The file does not start with a peer index table (`MrtFile::pi()` fails): no dump part. -/
def noPeerIndex : List Mrt.Rec → Bool
  | .peerIndex _ :: _ => false
  | _ => true

theorem processFile_updates (v : Variant) (parent : Nat) (reg : Mrt.Reg) (f : Mrt.File)
    (hc : f.comp.readable = true) (hn : noPeerIndex f.recs = true) :
    processFile v parent reg f = Mrt.msgLoop v.mrt parent reg f.recs := by
  cases hv : v.dumpreg <;> simp only [processFile, Mrt.processFile, hv, hc, Bool.not_true, Bool.false_eq_true, if_false] <;>
    (split
     · rename_i ps rest heq; simp [heq, noPeerIndex] at hn
     · rfl)

theorem NoDup_processFile (v : Variant) (hv : v.dumpreg = .repaired) (parent : Nat) (reg : Mrt.Reg) (f : Mrt.File)
    (h : NoDupIdent reg) : NoDupIdent (processFile v parent reg f).reg := by
  by_cases hc : f.comp.readable = true
  · simp only [processFile, hv, hc, Bool.not_true, Bool.false_eq_true, if_false]
    split
    · rename_i ps rest heq
      have h1 := NoDup_findOrRegisterAll parent ps reg h
      split
      · exact h1
      · exact NoDup_msgLoop _ _ _ _ h1
    · exact NoDup_msgLoop _ _ _ _ h
  · rw [processFile_unreadable v parent reg f (by simpa using hc)]
    exact h

/-! ### The dump part cut short -/

/-- Records at which `RibEntryIterator` panics: everything but a non-empty unicast RIB record. -/
def stopsDump : Mrt.Rec → Bool
  | .rib _ _ (_ :: _) => false
  | _ => true

theorem dumpLoop_cut (base n : Nat) (ribs : List (Bool × Nat × List (Nat × Nat))) (bad : Mrt.Rec) (rest : List Mrt.Rec)
    (h : Mrt.wellFormedRibs n ribs = true) (hb : stopsDump bad = true) :
    Mrt.dumpLoop ((List.range n).map (base + ·)) (ribs.map Mrt.ribRec ++ bad :: rest) = (Mrt.dumpSpec base ribs, true) := by
  induction ribs with
  | nil =>
    cases bad with
    | rib v6 pfx es =>
      cases es with
      | nil => rfl
      | cons e es => simp [stopsDump] at hb
    | _ => rfl
  | cons r ribs ih =>
    obtain ⟨v6, pfx, es⟩ := r
    simp only [Mrt.wellFormedRibs, Bool.and_eq_true, Bool.not_eq_true', List.isEmpty_eq_false_iff] at h
    obtain ⟨⟨hne, hall⟩, hrest⟩ := h
    cases es with
    | nil => exact absurd rfl hne
    | cons e es =>
      simp only [List.map_cons, List.cons_append, Mrt.ribRec, Mrt.dumpLoop, Mrt.dumpEntries_ok v6 pfx base n (e :: es) hall, ih hrest]
      simp [Mrt.dumpSpec]

/-! ### The queue as one history -/

/-- The C01 history a queue of files denotes (register threaded file to file; as written the queue
    ends with the file that panics). -/
def queueHist (ι : PfxInterp) (v : Variant) (parent : Nat) : Mrt.Reg → List Mrt.File → Rib.History
  | _, [] => []
  | reg, f :: fs =>
    match (processFile v parent reg f).status, v.mrt.iso with
    | .panic, .asWritten => histOf ι (processFile v parent reg f).out (msgAttrs f.recs)
    | _, _ => histOf ι (processFile v parent reg f).out (msgAttrs f.recs)
                ++ queueHist ι v parent (processFile v parent reg f).reg fs

/-- The register after a queue (it does not depend on the RIB). -/
def queueReg (v : Variant) (parent : Nat) : Mrt.Reg → List Mrt.File → Mrt.Reg
  | reg, [] => reg
  | reg, f :: fs =>
    match (processFile v parent reg f).status, v.mrt.iso with
    | .panic, .asWritten => (processFile v parent reg f).reg
    | _, _ => queueReg v parent (processFile v parent reg f).reg fs

theorem importFile_rib (ι : PfxInterp) (v : Variant) (parent : Nat) (s : State) (f : Mrt.File) :
    (importFile ι v parent s f).rib
      = Rib.runFrom (ribVariant v) s.rib (histOf ι (processFile v parent s.reg f).out (msgAttrs f.recs)) :=
  applyAll_annotate ι v.rib _ _ s.rib

theorem runFrom_append (v : Rib.Variant) (r : Rib) (h1 h2 : Rib.History) :
    Rib.runFrom v r (h1 ++ h2) = Rib.runFrom v (Rib.runFrom v r h1) h2 := by
  simp [Rib.runFrom, List.foldl_append]

/-- The consumer dies with this file (as written: a panic inside `process_file`). -/
def dies (v : Variant) (parent : Nat) (reg : Mrt.Reg) (f : Mrt.File) : Prop :=
  (processFile v parent reg f).status = .panic ∧ v.mrt.iso = .asWritten

instance (v : Variant) (parent : Nat) (reg : Mrt.Reg) (f : Mrt.File) : Decidable (dies v parent reg f) := by
  unfold dies; exact inferInstance

theorem importQueue_dead (ι : PfxInterp) (v : Variant) (parent : Nat) (s : State) (f : Mrt.File) (fs : List Mrt.File)
    (h : dies v parent s.reg f) :
    importQueue ι v parent s (f :: fs) = ⟨importFile ι v parent s f, (f :: fs).map fun _ => false⟩ := by
  simp only [importQueue, fileStatus]
  split
  · rfl
  · rename_i hn; exact absurd h.2 (hn h.1)

theorem importQueue_live (ι : PfxInterp) (v : Variant) (parent : Nat) (s : State) (f : Mrt.File) (fs : List Mrt.File)
    (h : ¬ dies v parent s.reg f) :
    importQueue ι v parent s (f :: fs) =
      ⟨(importQueue ι v parent (importFile ι v parent s f) fs).st, true :: (importQueue ι v parent (importFile ι v parent s f) fs).resps⟩ := by
  simp only [importQueue, fileStatus]
  split
  · rename_i h1 h2; exact absurd ⟨h1, h2⟩ h
  · rfl

theorem queueHist_dead (ι : PfxInterp) (v : Variant) (parent : Nat) (reg : Mrt.Reg) (f : Mrt.File) (fs : List Mrt.File)
    (h : dies v parent reg f) :
    queueHist ι v parent reg (f :: fs) = histOf ι (processFile v parent reg f).out (msgAttrs f.recs) := by
  simp only [queueHist]
  split
  · rfl
  · rename_i hn; exact absurd h.2 (hn h.1)

theorem queueHist_live (ι : PfxInterp) (v : Variant) (parent : Nat) (reg : Mrt.Reg) (f : Mrt.File) (fs : List Mrt.File)
    (h : ¬ dies v parent reg f) :
    queueHist ι v parent reg (f :: fs) = histOf ι (processFile v parent reg f).out (msgAttrs f.recs)
      ++ queueHist ι v parent (processFile v parent reg f).reg fs := by
  simp only [queueHist]
  split
  · rename_i h1 h2; exact absurd ⟨h1, h2⟩ h
  · rfl

theorem queueReg_dead (v : Variant) (parent : Nat) (reg : Mrt.Reg) (f : Mrt.File) (fs : List Mrt.File)
    (h : dies v parent reg f) : queueReg v parent reg (f :: fs) = (processFile v parent reg f).reg := by
  simp only [queueReg]
  split
  · rfl
  · rename_i hn; exact absurd h.2 (hn h.1)

theorem queueReg_live (v : Variant) (parent : Nat) (reg : Mrt.Reg) (f : Mrt.File) (fs : List Mrt.File)
    (h : ¬ dies v parent reg f) :
    queueReg v parent reg (f :: fs) = queueReg v parent (processFile v parent reg f).reg fs := by
  simp only [queueReg]
  split
  · rename_i h1 h2; exact absurd ⟨h1, h2⟩ h
  · rfl

theorem importQueue_rib (ι : PfxInterp) (v : Variant) (parent : Nat) (fs : List Mrt.File) (s : State) :
    (importQueue ι v parent s fs).st.rib = Rib.runFrom (ribVariant v) s.rib (queueHist ι v parent s.reg fs) := by
  induction fs generalizing s with
  | nil => rfl
  | cons f fs ih =>
    by_cases h : dies v parent s.reg f
    · rw [importQueue_dead ι v parent s f fs h, queueHist_dead ι v parent s.reg f fs h]
      exact importFile_rib ι v parent s f
    · rw [importQueue_live ι v parent s f fs h, queueHist_live ι v parent s.reg f fs h, runFrom_append,
        ← importFile_rib]
      exact ih _

theorem importQueue_reg (ι : PfxInterp) (v : Variant) (parent : Nat) (fs : List Mrt.File) (s : State) :
    (importQueue ι v parent s fs).st.reg = queueReg v parent s.reg fs := by
  induction fs generalizing s with
  | nil => rfl
  | cons f fs ih =>
    by_cases h : dies v parent s.reg f
    · rw [importQueue_dead ι v parent s f fs h, queueReg_dead v parent s.reg f fs h]
      rfl
    · rw [importQueue_live ι v parent s f fs h, queueReg_live v parent s.reg f fs h]
      exact ih _

theorem NoDup_queueReg (v : Variant) (hv : v.dumpreg = .repaired) (parent : Nat) (fs : List Mrt.File) (reg : Mrt.Reg)
    (h : NoDupIdent reg) : NoDupIdent (queueReg v parent reg fs) := by
  induction fs generalizing reg with
  | nil => exact h
  | cons f fs ih =>
    by_cases hd : dies v parent reg f
    · rw [queueReg_dead v parent reg f fs hd]
      exact NoDup_processFile v hv parent reg f h
    · rw [queueReg_live v parent reg f fs hd]
      exact ih _ (NoDup_processFile v hv parent reg f h)

/-! ### Shape of the gate output: only unicast, and (overlap site repaired) no Bulk withdraws what it announces -/

def isSingle : Mrt.Upd → Bool
  | .single .. => true
  | _ => false

theorem bulksOf_of_singles (l : List Mrt.Upd) (h : ∀ u ∈ l, isSingle u = true) : Mrt.bulksOf l = [] := by
  induction l with
  | nil => rfl
  | cons u l ih =>
    have hu := h u List.mem_cons_self
    cases u with
    | single v6 pfx id a => simpa [Mrt.bulksOf] using ih (fun u hu => h u (List.mem_cons_of_mem _ hu))
    | bulk id v6 ann wd => simp [isSingle] at hu
    | withdraw id => simp [isSingle] at hu

theorem dumpEntries_singles (v6 : Bool) (pfx : Nat) (map : List Nat) (es : List (Nat × Nat)) :
    ∀ u ∈ (Mrt.dumpEntries v6 pfx map es).1, isSingle u = true := by
  induction es with
  | nil => simp [Mrt.dumpEntries]
  | cons e es ih =>
    obtain ⟨idx, a⟩ := e
    simp only [Mrt.dumpEntries]
    cases map[idx]? with
    | none => simp
    | some id =>
      intro u hu
      simp only [List.mem_cons] at hu
      rcases hu with rfl | hu
      · rfl
      · exact ih u hu

theorem dumpLoop_singles (map : List Nat) (recs : List Mrt.Rec) :
    ∀ u ∈ (Mrt.dumpLoop map recs).1, isSingle u = true := by
  induction recs with
  | nil => simp [Mrt.dumpLoop]
  | cons r recs ih =>
    cases r with
    | rib v6 pfx es =>
      cases es with
      | nil => simp [Mrt.dumpLoop]
      | cons e es =>
        simp only [Mrt.dumpLoop]
        have h1 := dumpEntries_singles v6 pfx map (e :: es)
        split
        · rename_i o heq; rw [heq] at h1; exact h1
        · rename_i o heq
          rw [heq] at h1
          intro u hu
          simp only [List.mem_append] at hu
          rcases hu with hu | hu
          · exact h1 u hu
          · exact ih u hu
    | _ => simp [Mrt.dumpLoop]

/-- No `Bulk` of the list withdraws a prefix it announces. -/
def BulksDisjoint (out : List Mrt.Upd) : Prop := ∀ b ∈ Mrt.bulksOf out, ∀ p ∈ b.2.2.1, p ∉ b.2.2.2

theorem BulksDisjoint_append (a b : List Mrt.Upd) (ha : BulksDisjoint a) (hb : BulksDisjoint b) : BulksDisjoint (a ++ b) := by
  intro x hx
  rw [Mrt.bulksOf_append, List.mem_append] at hx
  rcases hx with hx | hx
  · exact ha x hx
  · exact hb x hx

theorem BulksDisjoint_singles (l : List Mrt.Upd) (h : ∀ u ∈ l, isSingle u = true) : BulksDisjoint l := by
  intro x hx
  rw [bulksOf_of_singles l h] at hx
  cases hx

theorem BulksDisjoint_processFile (v : Variant) (hov : v.mrt.ov = .repaired) (parent : Nat) (reg : Mrt.Reg) (f : Mrt.File) :
    BulksDisjoint (processFile v parent reg f).out := by
  have hm : ∀ reg' recs, BulksDisjoint (Mrt.msgLoop v.mrt parent reg' recs).out :=
    fun reg' recs => Mrt.C16_overlap_yields_only_announcement v.mrt hov parent reg' recs
  have hnil : BulksDisjoint [] := fun x hx => by cases hx
  by_cases hc : f.comp.readable = true
  · cases hv : v.dumpreg <;>
      simp only [processFile, Mrt.processFile, hv, hc, Bool.not_true, Bool.false_eq_true, if_false]
    · split
      · rename_i ps rest heq
        split
        · rename_i o heq2
          have := dumpLoop_singles (Mrt.registerAll reg parent ps).2 rest
          rw [heq2] at this
          exact BulksDisjoint_singles o this
        · rename_i o heq2
          have := dumpLoop_singles (Mrt.registerAll reg parent ps).2 rest
          rw [heq2] at this
          exact BulksDisjoint_append _ _ (BulksDisjoint_singles o this) (hm _ _)
      · exact hm _ _
    · split
      · rename_i ps rest heq
        split
        · rename_i o heq2
          have := dumpLoop_singles (findOrRegisterAll reg parent ps).2 rest
          rw [heq2] at this
          exact BulksDisjoint_singles o this
        · rename_i o heq2
          have := dumpLoop_singles (findOrRegisterAll reg parent ps).2 rest
          rw [heq2] at this
          exact BulksDisjoint_append _ _ (BulksDisjoint_singles o this) (hm _ _)
      · exact hm _ _
  · rw [processFile_unreadable v parent reg f (by simpa using hc)]
    exact hnil

theorem nlri_inj (ι : PfxInterp) (hι : ι.OK) (v6 : Bool) (x y : Nat) (h : nlri ι v6 x = nlri ι v6 y) : x = y := by
  simp only [nlri, Rib.Nlri.mk.injEq, and_true] at h
  exact hι.inj v6 x y h

theorem mem_map_nlri (ι : PfxInterp) (hι : ι.OK) (v6 : Bool) (x : Nat) (l : List Nat) :
    nlri ι v6 x ∈ l.map (nlri ι v6) ↔ x ∈ l := by
  simp only [List.mem_map]
  constructor
  · rintro ⟨y, hy, heq⟩
    exact nlri_inj ι hι v6 x y heq.symm ▸ hy
  · intro h; exact ⟨x, h, rfl⟩

theorem histOf_noOverlap (ι : PfxInterp) (hι : ι.OK) (out : List Mrt.Upd) (as : List Nat) (h : BulksDisjoint out) :
    (histOf ι out as).all Rib.Ev.noOverlap = true := by
  induction out generalizing as with
  | nil => rfl
  | cons u out ih =>
    cases u with
    | single v6 pfx id a =>
      have h' : BulksDisjoint out := fun x hx => h x (by simpa [Mrt.bulksOf] using hx)
      simp [histOf, Rib.Ev.noOverlap, Rib.Upd.noOverlap, ih as h']
    | withdraw id =>
      have h' : BulksDisjoint out := fun x hx => h x (by simpa [Mrt.bulksOf] using hx)
      simp [histOf, Rib.Ev.noOverlap, ih as h']
    | bulk id v6 ann wd =>
      have h' : BulksDisjoint out := fun x hx => h x (by simp [Mrt.bulksOf, hx])
      have h0 := h (id, v6, ann, wd) (by simp [Mrt.bulksOf])
      simp only [histOf, List.all_cons, ih _ h', Bool.and_true, Rib.Ev.noOverlap, Rib.Upd.noOverlap, List.all_eq_true,
        List.mem_map, Bool.not_eq_true', List.contains_eq_mem, decide_eq_false_iff_not, forall_exists_index, and_imp,
        forall_apply_eq_imp_iff₂]
      intro x hx hm
      obtain ⟨y, hy, heq⟩ := hm
      have := nlri_inj ι hι v6 y x heq
      subst this
      exact h0 y hx hy

theorem histOf_unicast (ι : PfxInterp) (out : List Mrt.Upd) (as : List Nat) (p : Rib.Prefix) :
    (histOf ι out as).any (Rib.Ev.mentions true p) = false := by
  induction out generalizing as with
  | nil => rfl
  | cons u out ih =>
    cases u with
    | single v6 pfx id a => simp [histOf, Rib.Ev.mentions, Rib.safiOf, nlri, ih as]
    | withdraw id => simp [histOf, Rib.Ev.mentions, ih as]
    | bulk id v6 ann wd => simp [histOf, Rib.Ev.mentions, Rib.safiOf, nlri, ih _]

theorem queueHist_noOverlap (ι : PfxInterp) (hι : ι.OK) (v : Variant) (hov : v.mrt.ov = .repaired) (parent : Nat)
    (fs : List Mrt.File) (reg : Mrt.Reg) : (queueHist ι v parent reg fs).all Rib.Ev.noOverlap = true := by
  induction fs generalizing reg with
  | nil => rfl
  | cons f fs ih =>
    have h1 := histOf_noOverlap ι hι _ (msgAttrs f.recs) (BulksDisjoint_processFile v hov parent reg f)
    by_cases hd : dies v parent reg f
    · rw [queueHist_dead ι v parent reg f fs hd]; exact h1
    · rw [queueHist_live ι v parent reg f fs hd, List.all_append, h1, ih]; rfl

theorem queueHist_unicast (ι : PfxInterp) (v : Variant) (parent : Nat) (fs : List Mrt.File) (reg : Mrt.Reg) (p : Rib.Prefix) :
    (queueHist ι v parent reg fs).any (Rib.Ev.mentions true p) = false := by
  induction fs generalizing reg with
  | nil => rfl
  | cons f fs ih =>
    by_cases hd : dies v parent reg f
    · rw [queueHist_dead ι v parent reg f fs hd]; exact histOf_unicast ι _ _ p
    · rw [queueHist_live ι v parent reg f fs hd, List.any_append, histOf_unicast, ih]; rfl

/-! ### One `Withdraw(id, None)` at the RIB -/

theorem entry_withdraw (vr : Rib.Variant) (r : Rib) (id : Nat) (mc : Bool) (p : Rib.Prefix) (m : Nat) :
    (r.apply vr (.withdraw id none)).entry mc p m
      = if m = id then (r.entry mc p m).map Rib.setWithdrawn else r.entry mc p m := by
  simp only [Rib.apply, Rib.entry_eq_abs, Rib.abs_withdraw]
  by_cases h : id = m
  · subst h; simp [Rib.entry_specDown]
  · have : ¬ m = id := fun e => h e.symm
    simp [h, this]

/-- What importing the one-record file `[STATE_CHANGE q Established→Idle]` does, state change site repaired. -/
theorem importFile_stateChange (ι : PfxInterp) (v : Variant) (hsc : v.mrt.sc = .repaired) (parent : Nat) (s : State)
    (c : Mrt.Comp) (hc : c.readable = true) (q : Mrt.Peer) :
    importFile ι v parent s ⟨c, [.stateChange q Mrt.established Mrt.idle]⟩ =
      match s.reg.find (some parent) q with
      | some id => ⟨s.reg, s.rib.apply v.rib (.withdraw id none)⟩
      | none => s := by
  have hp := processFile_updates v parent s.reg ⟨c, [.stateChange q Mrt.established Mrt.idle]⟩ hc rfl
  simp only [importFile, fileUpdates, hp, Mrt.msgLoop, hsc, and_self, if_true, List.append_nil]
  cases s.reg.find (some parent) q with
  | some id => rfl
  | none => rfl

end Rotonda.PipeMrt
