import RotondaModel.Model.Reconf
import RotondaModel.Proofs.Mgr
/-! Helper lemmas for the executed part of C13 (`Model/Reconf.lean`). -/
namespace Rotonda.Reconf
open Rotonda.Mgr

def Unit.store : Unit → List Rec
  | .rib r => r.store
  | _ => []

def Unit.sessions : Unit → List Nat
  | .bmp b => b.sessions
  | _ => []

/-- the settings a running unit currently works with -/
def Unit.settings : Unit → Settings
  | .rib r => .rib r.cfg
  | .bmp b => .bmp b.cfg
  | .other _ => .other

theorem reconf_store (p : Variant) (u : Unit) (s : Settings) : (reconf p u s).store = u.store := by
  cases u <;> cases s <;> rfl

theorem reconf_sessions (p : Variant) (u : Unit) (s : Settings) : (reconf p u s).sessions = u.sessions := by
  cases u <;> cases s <;> try rfl
  simp only [reconf, reconfBmp]
  split <;> rfl

theorem reconf_ty (p : Variant) (u : Unit) (s : Settings) : (reconf p u s).ty = u.ty := by
  cases u <;> cases s <;> rfl

theorem bump_store (u : Unit) : u.bump.store = u.store := by cases u <;> rfl
theorem bump_sessions (u : Unit) : u.bump.sessions = u.sessions := by cases u <;> rfl

theorem lookupU_bumpAll (n : Name) (acts : List Action) (units : List (Name × Unit)) :
    lookupU n (bumpAll acts units)
      = (lookupU n units).map (fun u => if acts.contains (.reconfU n) then u.bump else u) := by
  induction units with
  | nil => rfl
  | cons e l ih =>
    obtain ⟨k, w⟩ := e
    by_cases hk : k = n
    · subst hk
      by_cases hc : Action.reconfU k ∈ acts
      · simp [bumpAll, lookupU, hc]
      · simp [bumpAll, lookupU, hc]
    · by_cases hc : Action.reconfU k ∈ acts
      · simp [bumpAll, lookupU, hc, hk, ih]
      · simp [bumpAll, lookupU, hc, hk, ih]

theorem reconf_idem (p : Variant) (u : Unit) (s : Settings) : reconf p (reconf p u s) s = reconf p u s := by
  cases u <;> cases s <;> simp [reconf, reconfRib, reconfBmp]
  · cases p.pathIgnored <;> simp
  · rename_i b c
    by_cases hw : b.wedged p.queueWedge = true
    · simp [hw]
    · have hw' : BmpUnit.wedged p.queueWedge
          { cfg := c, bound := c.listen, sessions := b.sessions, stale := b.stale || p.cloneStale, reloads := b.reloads } = false := by
        simpa [BmpUnit.wedged] using hw
      simp [hw, hw']

/-! ### `lookupU` through the list operations of `exec` -/

theorem lookupU_dropU_ne (n m : Name) (units : List (Name × Unit)) (h : m ≠ n) :
    lookupU n (dropU m units) = lookupU n units := by
  induction units with
  | nil => rfl
  | cons e l ih =>
    obtain ⟨k, u⟩ := e
    by_cases hm : k = m
    · subst hm
      have hn : k ≠ n := h
      simp [dropU, lookupU, hn, ih]
    · by_cases hn : k = n
      · subst hn; simp [dropU, lookupU, hm]
      · simp [dropU, lookupU, hm, hn, ih]

theorem lookupU_dropU_self (n : Name) (units : List (Name × Unit)) :
    lookupU n (dropU n units) = none := by
  induction units with
  | nil => rfl
  | cons e l ih =>
    unfold dropU
    by_cases hn : e.1 = n
    · simp [hn, ih]
    · simp [hn, lookupU, ih]

theorem lookupU_append (n : Name) (a b : List (Name × Unit)) :
    lookupU n (a ++ b) = match lookupU n a with | some u => some u | none => lookupU n b := by
  induction a with
  | nil => simp [lookupU]
  | cons e l ih =>
    by_cases hn : e.1 = n
    · simp [lookupU, hn]
    · simp [lookupU, hn, ih]

theorem lookupU_mapU (n m : Name) (f : Unit → Unit) (units : List (Name × Unit)) :
    lookupU n (mapU m f units) = if n = m then (lookupU n units).map f else lookupU n units := by
  induction units with
  | nil => by_cases h : n = m <;> simp [lookupU, mapU, h]
  | cons e l ih =>
    obtain ⟨k, u⟩ := e
    by_cases hm : k = m
    · subst hm
      by_cases hn : k = n
      · subst hn; simp [mapU, lookupU]
      · have hn' : ¬ n = k := fun h => hn h.symm
        simp [mapU, lookupU, hn, hn', ih]
    · by_cases hn : k = n
      · subst hn
        simp [mapU, lookupU, hm]
      · simp [mapU, lookupU, hm, hn, ih]

/-- What one action does to the unit named `n`. -/
theorem lookupU_exec (p : Variant) (st : List (Name × Settings)) (units : List (Name × Unit)) (n : Name) (a : Action)
    (hs : ∀ t, a ≠ .spawnU n t) (ht : a ≠ .termU n) :
    lookupU n (exec p st units a)
      = if a = .reconfU n then (lookupU n units).map (fun u => reconf p u (lookupS n st)) else lookupU n units := by
  cases a with
  | spawnU m t =>
    have hmn : m ≠ n := fun h => hs t (by rw [h])
    simp only [exec, reduceCtorEq, if_false]
    rw [lookupU_append, lookupU_dropU_ne n m units hmn]
    cases h : lookupU n units with
    | some u => rfl
    | none => simp [lookupU, hmn]
  | reconfU m =>
    simp only [exec]
    rw [lookupU_mapU n m (fun u => reconf p u (lookupS m st))]
    by_cases h : n = m
    · subst h; simp
    · have : Action.reconfU m ≠ Action.reconfU n := fun h' => h (by injection h' with h'; exact h'.symm)
      simp [h, this]
  | termU m =>
    have hmn : m ≠ n := fun h => ht (by rw [h])
    simp only [exec, reduceCtorEq, if_false]
    exact lookupU_dropU_ne n m units hmn
  | spawnT m t => simp [exec]
  | reconfT m => simp [exec]
  | termT m => simp [exec]

/-- A unit that is neither spawned nor terminated by a list of actions is, afterwards, what it was
    — reconfigured with the file's settings if the list says so. -/
theorem lookupU_foldl_exec (p : Variant) (st : List (Name × Settings)) (n : Name) (acts : List Action)
    (units : List (Name × Unit)) (hs : ∀ t, .spawnU n t ∉ acts) (ht : .termU n ∉ acts) :
    lookupU n (acts.foldl (exec p st) units)
      = if .reconfU n ∈ acts then (lookupU n units).map (fun u => reconf p u (lookupS n st)) else lookupU n units := by
  induction acts generalizing units with
  | nil => simp
  | cons a rest ih =>
    have hs' : ∀ t, .spawnU n t ∉ rest := fun t h => hs t (List.mem_cons_of_mem _ h)
    have ht' : .termU n ∉ rest := fun h => ht (List.mem_cons_of_mem _ h)
    have hsa : ∀ t, a ≠ .spawnU n t := fun t h => hs t (by rw [h]; exact List.mem_cons_self)
    have hta : a ≠ .termU n := fun h => ht (by rw [h]; exact List.mem_cons_self)
    rw [List.foldl_cons, ih (exec p st units a) hs' ht', lookupU_exec p st units n a hsa hta]
    by_cases ha : a = .reconfU n
    · subst ha
      simp only [if_true, List.mem_cons, true_or]
      by_cases hr : Action.reconfU n ∈ rest
      · simp only [hr, if_true, Option.map_map]
        congr 1
        funext u
        simp [reconf_idem]
      · simp [hr]
    · have : (Action.reconfU n ∈ a :: rest) ↔ Action.reconfU n ∈ rest := by
        simp only [List.mem_cons]
        constructor
        · rintro (h | h)
          · exact absurd h.symm ha
          · exact h
        · exact Or.inr
      simp only [ha, if_false, this]

/-! ### the store under traffic -/

theorem mem_upsert_self (r : Rec) (st : List Rec) : r ∈ upsert r st := by
  induction st with
  | nil => simp [upsert]
  | cons x xs ih =>
    unfold upsert
    split
    · exact List.mem_cons_self
    · exact List.mem_cons_of_mem _ ih

/-- `upsert` never removes a key. -/
theorem key_upsert (r x : Rec) (st : List Rec) (h : x ∈ st) :
    ∃ y ∈ upsert r st, y.pfx = x.pfx ∧ y.src = x.src := by
  induction st with
  | nil => cases h
  | cons z zs ih =>
    unfold upsert
    rcases List.mem_cons.mp h with h | h
    · subst h
      split
      · rename_i hk
        exact ⟨r, List.mem_cons_self, hk.1.symm, hk.2.symm⟩
      · exact ⟨x, List.mem_cons_self, rfl, rfl⟩
    · split
      · exact ⟨x, List.mem_cons_of_mem _ h, rfl, rfl⟩
      · obtain ⟨y, hy, hk⟩ := ih h
        exact ⟨y, List.mem_cons_of_mem _ hy, hk⟩

/-- a record stays unless a record with the same key is upserted -/
theorem mem_upsert_other (r x : Rec) (st : List Rec) (h : x ∈ st) (hk : ¬ (x.pfx = r.pfx ∧ x.src = r.src)) :
    x ∈ upsert r st := by
  induction st with
  | nil => cases h
  | cons z zs ih =>
    unfold upsert
    rcases List.mem_cons.mp h with h | h
    · subst h
      simp [hk]
    · split
      · exact List.mem_cons_of_mem _ h
      · exact List.mem_cons_of_mem _ (ih h)

theorem key_withdraw (r x : Rec) (st : List Rec) (h : x ∈ st) :
    ∃ y ∈ withdraw r st, y.pfx = x.pfx ∧ y.src = x.src := by
  induction st with
  | nil => cases h
  | cons z zs ih =>
    unfold withdraw
    rcases List.mem_cons.mp h with h | h
    · subst h
      split
      · rename_i hk
        exact ⟨r, List.mem_cons_self, hk.1.symm, hk.2.symm⟩
      · exact ⟨x, List.mem_cons_self, rfl, rfl⟩
    · split
      · exact ⟨x, List.mem_cons_of_mem _ h, rfl, rfl⟩
      · obtain ⟨y, hy, hk⟩ := ih h
        exact ⟨y, List.mem_cons_of_mem _ hy, hk⟩

/-- neither an announcement nor a withdrawal removes a key -/
theorem key_applyRec (r x : Rec) (st : List Rec) (h : x ∈ st) :
    ∃ y ∈ applyRec r st, y.pfx = x.pfx ∧ y.src = x.src := by
  unfold applyRec
  split
  · exact key_upsert r x st h
  · exact key_withdraw r x st h

theorem key_foldl_applyRec (recs : List Rec) (st : List Rec) (x : Rec) (h : x ∈ st) :
    ∃ y ∈ recs.foldl (fun st r => applyRec r st) st, y.pfx = x.pfx ∧ y.src = x.src := by
  induction recs generalizing st x with
  | nil => exact ⟨x, h, rfl, rfl⟩
  | cons r rest ih =>
    obtain ⟨y, hy, hk⟩ := key_applyRec r x st h
    obtain ⟨z, hz, hk'⟩ := ih (applyRec r st) y hy
    exact ⟨z, hz, hk'.1.trans hk.1, hk'.2.trans hk.2⟩

/-- all prefixes announced in one Route Monitoring message are in the store afterwards -/
theorem mem_foldl_announce (src : Nat) (ps : List Nat) (st : List Rec) (q : Nat)
    (h : q ∈ ps ∨ Rec.mk q src true ∈ st) :
    Rec.mk q src true ∈ (ps.map (fun p => Rec.mk p src true)).foldl (fun st r => applyRec r st) st := by
  induction ps generalizing st with
  | nil =>
    rcases h with h | h
    · cases h
    · exact h
  | cons p rest ih =>
    simp only [List.map_cons, List.foldl_cons]
    apply ih
    have ha : applyRec ⟨p, src, true⟩ st = upsert ⟨p, src, true⟩ st := by simp [applyRec]
    rw [ha]
    by_cases hq : q = p
    · subst hq; exact Or.inr (mem_upsert_self _ _)
    · rcases h with h | h
      · rcases List.mem_cons.mp h with h | h
        · exact absurd h hq
        · exact Or.inl h
      · exact Or.inr (mem_upsert_other _ _ _ h (by simp [hq]))

end Rotonda.Reconf
