import RotondaModel.Model.Mgr
/-! Helper lemmas for C13 (`Props/C13.lean`). -/
namespace Rotonda.Mgr

theorem mem_union (a b : List Name) (n : Name) : n ∈ union a b ↔ n ∈ a ∨ n ∈ b := by
  unfold union
  induction b generalizing a with
  | nil => simp
  | cons x b ih =>
    simp only [List.foldl_cons]
    rw [ih]
    by_cases hx : a.contains x = true
    · simp only [hx, if_true]
      have : x ∈ a := by simpa using hx
      constructor
      · rintro (h | h)
        · exact Or.inl h
        · exact Or.inr (List.mem_cons_of_mem _ h)
      · rintro (h | h)
        · exact Or.inl h
        · rcases List.mem_cons.mp h with rfl | h
          · exact Or.inl this
          · exact Or.inr h
    · simp only [hx, Bool.false_eq_true, if_false, List.mem_append, List.mem_singleton]
      constructor
      · rintro ((h | rfl) | h)
        · exact Or.inl h
        · exact Or.inr List.mem_cons_self
        · exact Or.inr (List.mem_cons_of_mem _ h)
      · rintro (h | h)
        · exact Or.inl (Or.inl h)
        · rcases List.mem_cons.mp h with rfl | h
          · exact Or.inl (Or.inr rfl)
          · exact Or.inr h

theorem union_nil_right (a : List Name) : union a [] = a := rfl

/-- The successful path of `step`, spelled out. -/
theorem step_ok (v : Variant) (s s' : St) (l : Load) (acts : List Action)
    (h : step v s l = (s', .ok acts)) :
    ∃ doc cfg, l.notToml = false ∧ preprocess v.unreach l.doc = .ok doc ∧ deser doc = some cfg ∧ l.roto = false ∧
      (∀ n ∈ union (v.gates0 s) cfg.links, n ∈ cfg.unitNames) ∧
      acts = targetActions s.runT cfg.targets ++
             unitActions s.runU (union (v.pending0 s) (union (v.gates0 s) cfg.links)) cfg.units ∧
      s' = { runU := (cfg.units.filter (fun u =>
                (union (v.pending0 s) (union (v.gates0 s) cfg.links)).contains u.name)).map (fun u => (u.name, u.ty)),
             runT := cfg.targets.map (fun t => (t.name, t.ty)),
             pending := (union (v.pending0 s) (union (v.gates0 s) cfg.links)).filter
                (fun n => !cfg.unitNames.contains n),
             gates := [] } := by
  unfold step at h
  by_cases hnt : l.notToml = true
  · simp [hnt] at h
  · simp only [hnt, Bool.false_eq_true, if_false] at h
    cases hpre : preprocess v.unreach l.doc with
    | panic => simp [hpre] at h
    | ok doc =>
      simp only [hpre] at h
      cases hde : deser doc with
      | none => simp [hde] at h
      | some cfg =>
        simp only [hde] at h
        by_cases hroto : l.roto = true
        · simp [hroto] at h
        · simp only [hroto, Bool.false_eq_true, if_false] at h
          by_cases hres : ((union (v.gates0 s) cfg.links).any
              fun n => !cfg.unitNames.contains n) = true
          · rw [if_pos hres] at h
            injection h with _ h2
            cases h2
          · rw [if_neg hres] at h
            refine ⟨doc, cfg, by simpa using hnt, rfl, hde, by simpa using hroto, ?_, ?_, ?_⟩
            · intro n hn
              simp only [List.any_eq_true, Bool.not_eq_true', not_exists, not_and] at hres
              have := hres n hn
              simpa using this
            · injection h with h1 h2
              injection h2 with h2
              exact h2.symm
            · injection h with h1 h2
              exact h1.symm

/-! ### What the two loops of `spawn_internal` emit -/

/-- the per-unit part of the units loop -/
def unitStep (runU : List (Name × Ty)) (pending : List Name) (u : Comp) : List Action :=
  if pending.contains u.name then
    match lookup u.name runU with
    | some ty => if ty ≠ u.ty then [.termU u.name, .spawnU u.name u.ty] else [.reconfU u.name]
    | none => [.spawnU u.name u.ty]
  else
    match lookup u.name runU with
    | some _ => [.termU u.name]
    | none => []

theorem unitActions_eq (runU : List (Name × Ty)) (pending : List Name) (us : List Comp) :
    unitActions runU pending us = us.flatMap (unitStep runU pending)
      ++ (runU.filter (fun e => !(us.map Comp.name).contains e.1)).map (fun e => .termU e.1) := rfl

theorem mem_unitStep_spawn (runU : List (Name × Ty)) (pending : List Name) (u : Comp) (n : Name) (t : Ty) :
    Action.spawnU n t ∈ unitStep runU pending u ↔
      (u.name = n ∧ u.ty = t ∧ n ∈ pending ∧ lookup n runU ≠ some t) := by
  unfold unitStep
  by_cases hp : pending.contains u.name = true
  · have hp' : u.name ∈ pending := by simpa using hp
    simp only [hp, if_true]
    cases hl : lookup u.name runU with
    | none =>
      simp only [List.mem_singleton, Action.spawnU.injEq]
      constructor
      · rintro ⟨rfl, rfl⟩; exact ⟨rfl, rfl, hp', by simp [hl]⟩
      · rintro ⟨rfl, rfl, _, _⟩; exact ⟨rfl, rfl⟩
    | some ty =>
      by_cases hty : ty = u.ty
      · subst hty
        simp only [ne_eq, not_true_eq_false, if_false, List.mem_singleton]
        constructor
        · intro h; cases h
        · rintro ⟨rfl, rfl, _, h⟩; exact absurd hl h
      · simp only [ne_eq, hty, not_false_eq_true, if_true, List.mem_cons, List.not_mem_nil, or_false]
        constructor
        · rintro (h | h)
          · cases h
          · cases h; exact ⟨rfl, rfl, hp', by rw [hl]; intro h; injection h with h; exact hty h⟩
        · rintro ⟨rfl, rfl, _, _⟩; exact Or.inr rfl
  · have hp' : u.name ∉ pending := by simpa using hp
    simp only [hp, Bool.false_eq_true, if_false]
    constructor
    · intro h
      cases hl : lookup u.name runU with
      | none => simp [hl] at h
      | some ty => simp [hl] at h
    · rintro ⟨rfl, _, h, _⟩; exact absurd h hp'

theorem mem_unitStep_reconf (runU : List (Name × Ty)) (pending : List Name) (u : Comp) (n : Name) :
    Action.reconfU n ∈ unitStep runU pending u ↔
      (u.name = n ∧ n ∈ pending ∧ lookup n runU = some u.ty) := by
  unfold unitStep
  by_cases hp : pending.contains u.name = true
  · have hp' : u.name ∈ pending := by simpa using hp
    simp only [hp, if_true]
    cases hl : lookup u.name runU with
    | none =>
      simp only [List.mem_singleton]
      constructor
      · intro h; cases h
      · rintro ⟨rfl, _, h⟩; rw [hl] at h; cases h
    | some ty =>
      by_cases hty : ty = u.ty
      · subst hty
        simp only [ne_eq, not_true_eq_false, if_false, List.mem_singleton, Action.reconfU.injEq]
        constructor
        · rintro rfl; exact ⟨rfl, hp', hl⟩
        · rintro ⟨rfl, _, _⟩; rfl
      · simp only [ne_eq, hty, not_false_eq_true, if_true, List.mem_cons, List.not_mem_nil, or_false]
        constructor
        · rintro (h | h) <;> cases h
        · rintro ⟨rfl, _, h⟩; rw [hl] at h; injection h with h; exact absurd h hty
  · have hp' : u.name ∉ pending := by simpa using hp
    simp only [hp, Bool.false_eq_true, if_false]
    constructor
    · intro h
      cases hl : lookup u.name runU with
      | none => simp [hl] at h
      | some ty => simp [hl] at h
    · rintro ⟨rfl, h, _⟩; exact absurd h hp'

theorem mem_unitStep_term (runU : List (Name × Ty)) (pending : List Name) (u : Comp) (n : Name) :
    Action.termU n ∈ unitStep runU pending u ↔
      (u.name = n ∧ ∃ ty, lookup n runU = some ty ∧ (n ∉ pending ∨ ty ≠ u.ty)) := by
  unfold unitStep
  by_cases hp : pending.contains u.name = true
  · have hp' : u.name ∈ pending := by simpa using hp
    simp only [hp, if_true]
    cases hl : lookup u.name runU with
    | none =>
      simp only [List.mem_singleton]
      constructor
      · intro h; cases h
      · rintro ⟨rfl, ty, h, _⟩; rw [hl] at h; cases h
    | some ty =>
      by_cases hty : ty = u.ty
      · subst hty
        simp only [ne_eq, not_true_eq_false, if_false, List.mem_singleton]
        constructor
        · intro h; cases h
        · rintro ⟨rfl, ty', h, h2⟩
          rw [hl] at h; injection h with h; subst h
          rcases h2 with h2 | h2
          · exact absurd hp' h2
          · exact absurd rfl h2
      · simp only [ne_eq, hty, not_false_eq_true, if_true, List.mem_cons, List.not_mem_nil, or_false,
          Action.termU.injEq]
        constructor
        · rintro (rfl | h)
          · exact ⟨rfl, ty, hl, Or.inr hty⟩
          · cases h
        · rintro ⟨rfl, _⟩; exact Or.inl rfl
  · have hp' : u.name ∉ pending := by simpa using hp
    simp only [hp, Bool.false_eq_true, if_false]
    cases hl : lookup u.name runU with
    | none =>
      simp only [List.not_mem_nil, false_iff]
      rintro ⟨rfl, ty, h, _⟩; rw [hl] at h; cases h
    | some ty =>
      simp only [List.mem_singleton, Action.termU.injEq]
      constructor
      · rintro rfl; exact ⟨rfl, ty, hl, Or.inl hp'⟩
      · rintro ⟨rfl, _⟩; rfl

/-- the per-target part of the targets loop -/
def targetStep (runT : List (Name × Ty)) (t : Comp) : List Action :=
  match lookup t.name runT with
  | some ty => if ty ≠ t.ty then [.termT t.name, .spawnT t.name t.ty] else [.reconfT t.name]
  | none => [.spawnT t.name t.ty]

theorem targetActions_eq (runT : List (Name × Ty)) (ts : List Comp) :
    targetActions runT ts = ts.flatMap (targetStep runT)
      ++ (runT.filter (fun e => !(ts.map Comp.name).contains e.1)).map (fun e => .termT e.1) := rfl

theorem mem_targetStep_spawn (runT : List (Name × Ty)) (t : Comp) (n : Name) (ty : Ty) :
    Action.spawnT n ty ∈ targetStep runT t ↔ (t.name = n ∧ t.ty = ty ∧ lookup n runT ≠ some ty) := by
  unfold targetStep
  cases hl : lookup t.name runT with
  | none =>
    simp only [List.mem_singleton, Action.spawnT.injEq]
    constructor
    · rintro ⟨rfl, rfl⟩; exact ⟨rfl, rfl, by simp [hl]⟩
    · rintro ⟨rfl, rfl, _⟩; exact ⟨rfl, rfl⟩
  | some ty' =>
    by_cases hty : ty' = t.ty
    · subst hty
      simp only [ne_eq, not_true_eq_false, if_false, List.mem_singleton]
      constructor
      · intro h; cases h
      · rintro ⟨rfl, rfl, h⟩; exact absurd hl h
    · simp only [ne_eq, hty, not_false_eq_true, if_true, List.mem_cons, List.not_mem_nil, or_false]
      constructor
      · rintro (h | h)
        · cases h
        · cases h; exact ⟨rfl, rfl, by rw [hl]; intro h; injection h with h; exact hty h⟩
      · rintro ⟨rfl, rfl, _⟩; exact Or.inr rfl

theorem mem_targetStep_reconf (runT : List (Name × Ty)) (t : Comp) (n : Name) :
    Action.reconfT n ∈ targetStep runT t ↔ (t.name = n ∧ lookup n runT = some t.ty) := by
  unfold targetStep
  cases hl : lookup t.name runT with
  | none =>
    simp only [List.mem_singleton]
    constructor
    · intro h; cases h
    · rintro ⟨rfl, h⟩; rw [hl] at h; cases h
  | some ty' =>
    by_cases hty : ty' = t.ty
    · subst hty
      simp only [ne_eq, not_true_eq_false, if_false, List.mem_singleton, Action.reconfT.injEq]
      constructor
      · rintro rfl; exact ⟨rfl, hl⟩
      · rintro ⟨rfl, _⟩; rfl
    · simp only [ne_eq, hty, not_false_eq_true, if_true, List.mem_cons, List.not_mem_nil, or_false]
      constructor
      · rintro (h | h) <;> cases h
      · rintro ⟨rfl, h⟩; rw [hl] at h; injection h with h; exact absurd h hty

theorem mem_targetStep_term (runT : List (Name × Ty)) (t : Comp) (n : Name) :
    Action.termT n ∈ targetStep runT t ↔ (t.name = n ∧ ∃ ty, lookup n runT = some ty ∧ ty ≠ t.ty) := by
  unfold targetStep
  cases hl : lookup t.name runT with
  | none =>
    simp only [List.mem_singleton]
    constructor
    · intro h; cases h
    · rintro ⟨rfl, ty, h, _⟩; rw [hl] at h; cases h
  | some ty' =>
    by_cases hty : ty' = t.ty
    · subst hty
      simp only [ne_eq, not_true_eq_false, if_false, List.mem_singleton]
      constructor
      · intro h; cases h
      · rintro ⟨rfl, ty, h, h2⟩; rw [hl] at h; injection h with h; exact absurd h.symm h2
    · simp only [ne_eq, hty, not_false_eq_true, if_true, List.mem_cons, List.not_mem_nil, or_false,
        Action.termT.injEq]
      constructor
      · rintro (rfl | h)
        · exact ⟨rfl, ty', hl, hty⟩
        · cases h
      · rintro ⟨rfl, _⟩; exact Or.inl rfl

/-- no unit action comes out of the targets loop, and vice versa -/
theorem targetStep_kinds (runT : List (Name × Ty)) (t : Comp) (a : Action) (h : a ∈ targetStep runT t) :
    (∃ n ty, a = .spawnT n ty) ∨ (∃ n, a = .reconfT n) ∨ (∃ n, a = .termT n) := by
  unfold targetStep at h
  cases hl : lookup t.name runT with
  | none => simp [hl] at h; exact Or.inl ⟨_, _, h⟩
  | some ty' =>
    simp only [hl] at h
    split at h
    · simp at h
      rcases h with h | h
      · exact Or.inr (Or.inr ⟨_, h⟩)
      · exact Or.inl ⟨_, _, h⟩
    · simp at h; exact Or.inr (Or.inl ⟨_, h⟩)

theorem unitStep_kinds (runU : List (Name × Ty)) (pending : List Name) (u : Comp) (a : Action)
    (h : a ∈ unitStep runU pending u) :
    (∃ n ty, a = .spawnU n ty) ∨ (∃ n, a = .reconfU n) ∨ (∃ n, a = .termU n) := by
  unfold unitStep at h
  split at h
  · cases hl : lookup u.name runU with
    | none => simp [hl] at h; exact Or.inl ⟨_, _, h⟩
    | some ty' =>
      simp only [hl] at h
      split at h
      · simp at h
        rcases h with h | h
        · exact Or.inr (Or.inr ⟨_, h⟩)
        · exact Or.inl ⟨_, _, h⟩
      · simp at h; exact Or.inr (Or.inl ⟨_, h⟩)
  · cases hl : lookup u.name runU with
    | none => simp [hl] at h
    | some ty' => simp [hl] at h; exact Or.inr (Or.inr ⟨_, h⟩)

end Rotonda.Mgr
