import RotondaModel.Model.HttpServer
import RotondaModel.Proofs.Http
/-!
Framing lemmas for the HttpServer model: the canonical serialisation of a request head
(`serHead`) is read back by the transliterated httparse grammar (`parseHead`) exactly, whatever
follows it on the connection.
-/
namespace Rotonda.HttpServer
open Rotonda.Http

/-! ### canonical serialisation -/

def verBytes (v11 : Bool) : Bytes := if v11 then sHttp11 else sHttp10

/-- `name: value␍␊` -/
def serHdr (h : Hdr) : Bytes := h.name ++ 58 :: 32 :: (h.value ++ [13, 10])

def serHdrs : List Hdr → Bytes
  | [] => []
  | h :: hs => serHdr h ++ serHdrs hs

/-- `METHOD␠target␠HTTP/1.x␍␊` headers `␍␊` -/
def serHead (h : RawHead) : Bytes :=
  h.method ++ 32 :: (h.target ++ 32 :: (verBytes h.v11 ++ 13 :: 10 :: (serHdrs h.headers ++ [13, 10])))

/-- a header as a client writes it: a token, printable value without blanks at its ends -/
structure HdrWF (h : Hdr) : Prop where
  name_ne : h.name ≠ []
  name_tchar : ∀ b ∈ h.name, isTchar b = true
  value_ok : ∀ b ∈ h.value, isValueByte b = true
  value_head : ∀ b, h.value.head? = some b → isOws b = false
  value_last : ∀ b, h.value.getLast? = some b → isOws b = false

/-- a request head as a client writes it (ASCII request-target) -/
structure HeadWF (h : RawHead) : Prop where
  method_ne : h.method ≠ []
  method_tchar : ∀ b ∈ h.method, isTchar b = true
  target_ne : h.target ≠ []
  target_uri : ∀ b ∈ h.target, isUriByte b = true ∧ b < 128
  hdrs : ∀ x ∈ h.headers, HdrWF x
  count : h.headers.length ≤ maxHeaders

/-! ### the scanners on their own grammar -/

theorem tchar_ne_space {b : Nat} (h : isTchar b = true) : b ≠ 32 := by
  intro e; subst e; simp [isTchar] at h

theorem tchar_ne_cr {b : Nat} (h : isTchar b = true) : b ≠ 13 := by
  intro e; subst e; simp [isTchar] at h

theorem tchar_ne_lf {b : Nat} (h : isTchar b = true) : b ≠ 10 := by
  intro e; subst e; simp [isTchar] at h

theorem tchar_ne_colon {b : Nat} (h : isTchar b = true) : b ≠ 58 := by
  intro e; subst e; simp [isTchar] at h

theorem uri_ne_space {b : Nat} (h : isUriByte b = true) : b ≠ 32 := by
  intro e; subst e; simp [isUriByte] at h

theorem value_ne_cr {b : Nat} (h : isValueByte b = true) : b ≠ 13 := by
  intro e; subst e; simp [isValueByte] at h

theorem value_ne_lf {b : Nat} (h : isValueByte b = true) : b ≠ 10 := by
  intro e; subst e; simp [isValueByte] at h

theorem takeTokenAux_append (t : Bytes) (ht : ∀ b ∈ t, isTchar b = true) (acc rest : Bytes) :
    takeTokenAux acc (t ++ 32 :: rest) = .ok (acc.reverse ++ t) rest := by
  induction t generalizing acc with
  | nil => simp [takeTokenAux]
  | cons b t ih =>
    have hb := ht b (by simp)
    have := tchar_ne_space hb
    simp only [List.cons_append, takeTokenAux, this, if_false, hb, if_true]
    rw [ih (fun x hx => ht x (by simp [hx]))]
    simp

theorem spanUriAux_append (u : Bytes) (hu : ∀ b ∈ u, isUriByte b = true) (acc rest : Bytes) :
    spanUriAux acc (u ++ 32 :: rest) = (acc.reverse ++ u, 32 :: rest) := by
  induction u generalizing acc with
  | nil => simp [spanUriAux, isUriByte]
  | cons b u ih =>
    have hb := hu b (by simp)
    simp only [List.cons_append, spanUriAux, hb, if_true]
    rw [ih (fun x hx => hu x (by simp [hx]))]
    simp

theorem takeNameAux_append (t : Bytes) (ht : ∀ b ∈ t, isTchar b = true) (acc rest : Bytes) :
    takeNameAux acc (t ++ 58 :: rest) = .ok (acc.reverse ++ t) rest := by
  induction t generalizing acc with
  | nil => simp [takeNameAux]
  | cons b t ih =>
    have hb := ht b (by simp)
    have := tchar_ne_colon hb
    simp only [List.cons_append, takeNameAux, this, if_false, hb, if_true]
    rw [ih (fun x hx => ht x (by simp [hx]))]
    simp

theorem takeValueAux_append (v : Bytes) (hv : ∀ b ∈ v, isValueByte b = true) (acc rest : Bytes) :
    takeValueAux acc (v ++ 13 :: 10 :: rest) = .ok (acc.reverse ++ v) rest := by
  induction v generalizing acc with
  | nil => simp [takeValueAux]
  | cons b v ih =>
    have hb := hv b (by simp)
    have h1 := value_ne_cr hb
    have h2 := value_ne_lf hb
    simp only [List.cons_append, takeValueAux, h1, h2, if_false, hb, if_true]
    rw [ih (fun x hx => hv x (by simp [hx]))]
    simp

theorem skipOws_value (v rest : Bytes) (hh : ∀ b, v.head? = some b → isOws b = false) :
    skipOws (32 :: (v ++ 13 :: 10 :: rest)) = v ++ 13 :: 10 :: rest := by
  cases v with
  | nil => simp [skipOws, isOws]
  | cons b v =>
    have hb := hh b (by simp)
    simp only [List.cons_append, skipOws, hb]
    simp [isOws]

theorem trimEnd_id (v : Bytes) (hl : ∀ b, v.getLast? = some b → isOws b = false) : trimEnd v = v := by
  unfold trimEnd
  cases hr : v.reverse with
  | nil => simp at hr; simp [hr]
  | cons b r =>
    have hb : isOws b = false := by
      apply hl
      rw [← List.head?_reverse, hr]; rfl
    have : v = (b :: r).reverse := by rw [← hr]; simp
    simp [List.dropWhile, hb, this]

theorem parseHeaders_ser (hs : List Hdr) (hw : ∀ x ∈ hs, HdrWF x) :
    ∀ (n fuel : Nat) (rest : Bytes), n + hs.length ≤ maxHeaders → hs.length < fuel →
      parseHeaders fuel n (serHdrs hs ++ 13 :: 10 :: rest) = .ok hs rest := by
  induction hs with
  | nil =>
    intro n fuel rest _ hf
    cases fuel with
    | zero => omega
    | succ f => simp [serHdrs, parseHeaders]
  | cons h hs ih =>
    intro n fuel rest hn hf
    cases fuel with
    | zero => omega
    | succ f =>
      have wf := hw h (by simp)
      obtain ⟨a, nm, hname⟩ : ∃ a nm, h.name = a :: nm := by
        cases hnm : h.name with
        | nil => exact absurd hnm wf.name_ne
        | cons a nm => exact ⟨a, nm, rfl⟩
      have ha : isTchar a = true := wf.name_tchar a (by simp [hname])
      have hnm : ∀ b ∈ nm, isTchar b = true := fun b hb => wf.name_tchar b (by simp [hname, hb])
      have e1 : serHdrs (h :: hs) ++ 13 :: 10 :: rest
          = a :: (nm ++ 58 :: 32 :: (h.value ++ 13 :: 10 :: (serHdrs hs ++ 13 :: 10 :: rest))) := by
        simp [serHdrs, serHdr, hname]
      rw [e1]
      have hlen : List.length hs < f := by simp at hf; omega
      have hcnt : ¬ maxHeaders ≤ n := by simp at hn; omega
      have hrec := ih (fun x hx => hw x (by simp [hx])) (n + 1) f rest (by simp at hn; omega) hlen
      have hname' : takeNameAux [] (a :: (nm ++ 58 :: 32 :: (h.value ++ 13 :: 10 :: (serHdrs hs ++ 13 :: 10 :: rest))))
          = .ok (a :: nm) (32 :: (h.value ++ 13 :: 10 :: (serHdrs hs ++ 13 :: 10 :: rest))) := by
        have := takeNameAux_append (a :: nm) (by intro b hb; cases hb with | head => exact ha | tail _ hb => exact hnm b hb) []
          (32 :: (h.value ++ 13 :: 10 :: (serHdrs hs ++ 13 :: 10 :: rest)))
        simpa using this
      have hval : takeValueAux [] (skipOws (32 :: (h.value ++ 13 :: 10 :: (serHdrs hs ++ 13 :: 10 :: rest))))
          = .ok h.value (serHdrs hs ++ 13 :: 10 :: rest) := by
        rw [skipOws_value _ _ wf.value_head]
        have := takeValueAux_append h.value wf.value_ok [] (serHdrs hs ++ 13 :: 10 :: rest)
        simpa using this
      simp only [parseHeaders, tchar_ne_cr ha, tchar_ne_lf ha, if_false, ha, Bool.not_true, Bool.false_eq_true,
        hname', hval, hcnt, hrec, trimEnd_id h.value wf.value_last]
      cases h with
      | mk nme vl => simp at hname; subst hname; rfl

theorem parseVersion_ver (v : Bool) (rest : Bytes) : parseVersion (verBytes v ++ rest) = .ok v rest := by
  cases v <;> simp [parseVersion, verBytes, sHttp10, sHttp11]

theorem serHdrs_length (hs : List Hdr) : hs.length ≤ (serHdrs hs).length := by
  induction hs with
  | nil => simp [serHdrs]
  | cons h hs ih => simp [serHdrs, serHdr]; omega

/-- **Round trip.** The head a client serialises is the head the server reads, whatever follows. -/
theorem parseHead_ser (h : RawHead) (hw : HeadWF h) (rest : Bytes) :
    parseHead (serHead h ++ rest) = .ok h rest := by
  obtain ⟨a, m, hm⟩ : ∃ a m, h.method = a :: m := by
    cases hmm : h.method with
    | nil => exact absurd hmm hw.method_ne
    | cons a m => exact ⟨a, m, rfl⟩
  have ha : isTchar a = true := hw.method_tchar a (by simp [hm])
  have e : serHead h ++ rest
      = a :: (m ++ 32 :: (h.target ++ 32 :: (verBytes h.v11 ++ 13 :: 10 :: (serHdrs h.headers ++ 13 :: 10 :: rest)))) := by
    simp [serHead, hm]
  rw [e]
  have hskip : skipEmptyLines (a :: (m ++ 32 :: (h.target ++ 32 :: (verBytes h.v11 ++ 13 :: 10 :: (serHdrs h.headers ++ 13 :: 10 :: rest)))))
      = .ok () (a :: (m ++ 32 :: (h.target ++ 32 :: (verBytes h.v11 ++ 13 :: 10 :: (serHdrs h.headers ++ 13 :: 10 :: rest))))) := by
    rw [skipEmptyLines.eq_def]; simp [tchar_ne_cr ha, tchar_ne_lf ha]
  have hmeth : parseMethod (a :: (m ++ 32 :: (h.target ++ 32 :: (verBytes h.v11 ++ 13 :: 10 :: (serHdrs h.headers ++ 13 :: 10 :: rest)))))
      = .ok h.method (h.target ++ 32 :: (verBytes h.v11 ++ 13 :: 10 :: (serHdrs h.headers ++ 13 :: 10 :: rest))) := by
    have := takeTokenAux_append (a :: m) (by intro b hb; exact hw.method_tchar b (by simpa [hm] using hb)) []
      (h.target ++ 32 :: (verBytes h.v11 ++ 13 :: 10 :: (serHdrs h.headers ++ 13 :: 10 :: rest)))
    simp only [parseMethod, ha, if_true]
    simpa [hm] using this
  have huri : parseUri (h.target ++ 32 :: (verBytes h.v11 ++ 13 :: 10 :: (serHdrs h.headers ++ 13 :: 10 :: rest)))
      = .ok h.target (verBytes h.v11 ++ 13 :: 10 :: (serHdrs h.headers ++ 13 :: 10 :: rest)) := by
    have hs := spanUriAux_append h.target (fun b hb => (hw.target_uri b hb).1) []
      (verBytes h.v11 ++ 13 :: 10 :: (serHdrs h.headers ++ 13 :: 10 :: rest))
    have hne : h.target.isEmpty = false := by
      cases ht : h.target with
      | nil => exact absurd ht hw.target_ne
      | cons _ _ => rfl
    have hutf : validUtf8 h.target = true := by
      unfold validUtf8
      have : h.target.all (· < 128) = true := by
        rw [List.all_eq_true]; intro b hb; simpa using (hw.target_uri b hb).2
      simp [this]
    unfold parseUri
    rw [hs]
    simp [hne, hutf]
  have hfuel : h.headers.length < (serHdrs h.headers ++ 13 :: 10 :: rest).length + 1 := by
    have := serHdrs_length h.headers
    simp; omega
  have hhdrs := parseHeaders_ser h.headers hw.hdrs 0 _ rest (by simpa using hw.count) hfuel
  unfold parseHead
  rw [hskip]
  simp only [hmeth, huri, parseVersion_ver]
  simp only [parseNewline, if_true, hhdrs]

/-! ### hyper's reading of a head without framing headers -/

/-- header names hyper's `Server::parse` looks at -/
def isFraming (name : Bytes) : Bool :=
  name.map lower == hTransferEncoding || name.map lower == hContentLength ||
  name.map lower == hConnection || name.map lower == hExpect

theorem headerStep_plain (v11 : Bool) (st : HState) (h : Hdr) (hp : isFraming h.name = false) :
    headerStep v11 st h = .ok st := by
  simp only [isFraming, Bool.or_eq_false_iff, beq_eq_false_iff_ne, ne_eq] at hp
  obtain ⟨⟨⟨h1, h2⟩, h3⟩, h4⟩ := hp
  simp [headerStep, h1, h2, h3, h4]

theorem headerLoop_plain (v11 : Bool) (hs : List Hdr) (hp : ∀ x ∈ hs, isFraming x.name = false) (st : HState) :
    headerLoop v11 st hs = .ok st := by
  induction hs with
  | nil => rfl
  | cons h hs ih =>
    simp only [headerLoop, headerStep_plain v11 st h (hp h (by simp))]
    exact ih (fun x hx => hp x (by simp [hx]))

theorem headerLoop_append (v11 : Bool) (a b : List Hdr) (st st' : HState) (h : headerLoop v11 st a = .ok st') :
    headerLoop v11 st (a ++ b) = headerLoop v11 st' b := by
  induction a generalizing st with
  | nil => simp [headerLoop] at h; subst h; rfl
  | cons x a ih =>
    simp only [List.cons_append, headerLoop] at h ⊢
    cases hx : headerStep v11 st x with
    | error c => simp [hx] at h
    | ok s1 => simp only [hx] at h ⊢; exact ih s1 h

/-- a head hyper takes as it is: short target, `http::Method` characters, short header names -/
structure HeadOk (h : RawHead) : Prop where
  wf : HeadWF h
  short : h.target.length ≤ maxUriLen
  meth : ∀ b ∈ h.method, isMethodChar b = true
  names : ∀ x ∈ h.headers, x.name.length < 65536

/-- **No framing headers:** the request has no body and keeps the connection iff it is HTTP/1.1. -/
theorem interpret_plain (h : RawHead) (ok : HeadOk h) (hp : ∀ x ∈ h.headers, isFraming x.name = false)
    (p : Bytes) (q : Option Bytes) (ht : parseTarget h.target = .ok p q) :
    interpret h = .ok { method := h.method, path := p, query := q, v11 := h.v11, keepAlive := h.v11,
                        body := .none, expect := false, acceptEnc := firstHeader hAcceptEncoding h.headers } := by
  have h1 : ¬ maxUriLen < h.target.length := by have := ok.short; omega
  have h2 : h.method.all isMethodChar = true := by rw [List.all_eq_true]; exact ok.meth
  have h3 : h.headers.any (fun x => decide (65536 ≤ x.name.length)) = false := by
    rw [List.any_eq_false]; intro x hx; have := ok.names x hx; simp; omega
  simp [interpret, h1, h2, ht, h3, headerLoop_plain h.v11 h.headers hp]

/-- **`Connection: close` as the last header of an HTTP/1.1 request:** answered, then the connection ends. -/
theorem interpret_closing (h : RawHead) (ok : HeadOk h) (pl : List Hdr) (c : Hdr)
    (hh : h.headers = pl ++ [c]) (hp : ∀ x ∈ pl, isFraming x.name = false)
    (hc : c.name.map lower = hConnection) (hv : connectionHas c.value sClose = true) (h11 : h.v11 = true)
    (p : Bytes) (q : Option Bytes) (ht : parseTarget h.target = .ok p q) :
    interpret h = .ok { method := h.method, path := p, query := q, v11 := true, keepAlive := false,
                        body := .none, expect := false, acceptEnc := firstHeader hAcceptEncoding h.headers } := by
  have h1 : ¬ maxUriLen < h.target.length := by have := ok.short; omega
  have h2 : h.method.all isMethodChar = true := by rw [List.all_eq_true]; exact ok.meth
  have h3 : h.headers.any (fun x => decide (65536 ≤ x.name.length)) = false := by
    rw [List.any_eq_false]; intro x hx; have := ok.names x hx; simp; omega
  have hl : headerLoop true { keepAlive := true, decoder := .none, conLen := none, isTe := false, isTeChunked := false, expect := false } (pl ++ [c])
      = .ok { keepAlive := false, decoder := .none, conLen := none, isTe := false, isTeChunked := false, expect := false } := by
    rw [headerLoop_append true pl [c] _ _ (headerLoop_plain true pl hp _)]
    have n1 : ¬ hConnection = hTransferEncoding := by decide
    have n2 : ¬ hConnection = hContentLength := by decide
    simp [headerLoop, headerStep, n1, n2, hc, hv]
  simp [interpret, h1, h2, ht, h3, h11, hh ▸ hl]

/-! ### the connection -/

theorem serHead_length_pos (h : RawHead) (hw : HeadWF h) : 0 < (serHead h).length := by
  cases hm : h.method with
  | nil => exact absurd hm hw.method_ne
  | cons a m => simp [serHead, hm]

/-- hyper's read-ahead window does not matter for a head that fits into it -/
theorem headWindow_ser (h : RawHead) (hw : HeadWF h) (hl : (serHead h).length ≤ maxBuf) (rest : Bytes) :
    headWindow (serHead h ++ rest) = some (.ok h rest) := by
  unfold headWindow
  by_cases hb : (serHead h ++ rest).length ≤ maxBuf
  · rw [if_pos hb, parseHead_ser h hw]
  · have ht : (serHead h ++ rest).take maxBuf = serHead h ++ rest.take (maxBuf - (serHead h).length) := by
      rw [List.take_append, List.take_of_length_le hl]
    have hlen : (rest.take (maxBuf - (serHead h).length)).length = maxBuf - (serHead h).length := by
      simp only [List.length_append] at hb
      simp only [List.length_take]; omega
    have hsub : maxBuf - (maxBuf - (serHead h).length) = (serHead h).length := by omega
    rw [if_neg hb]
    simp only [ht, parseHead_ser h hw, hlen, hsub, List.drop_left]

/-- one well-formed request at the front of the buffer: answered; the connection goes on behind it
    exactly when the request asks for keep-alive and its body (if any) is drained -/
theorem serveAux_ser (c : Cfg) (h : RawHead) (hw : HeadWF h) (hl : (serHead h).length ≤ maxBuf)
    (fuel : Nat) (lv : Bool) (rest : Bytes) (m : Msg) (hi : interpret h = .ok m) (r : Resp)
    (ha : answer c m = .ok r) :
    serveAux c (fuel + 1) lv (serHead h ++ rest) =
      match (if m.keepAlive then drainBody m rest else none) with
      | none => [.resp (frame m r)]
      | some rest' => .resp (frame m r) :: serveAux c fuel m.v11 rest' := by
  rw [serveAux, headWindow_ser h hw hl rest]
  simp only [hi, ha]
  rfl

/-- response and "the connection goes on" of a body-less request; `none` when it is not answered -/
def outcome (c : Cfg) (h : RawHead) : Option (WResp × Bool) :=
  match interpret h with
  | .ok m =>
    match answer c m with
    | .ok r => if m.body = .none then some (frame m r, m.keepAlive) else none
    | .panic _ => none
  | _ => none

theorem serveAux_outcome (c : Cfg) (h : RawHead) (hw : HeadWF h) (hl : (serHead h).length ≤ maxBuf)
    (fuel : Nat) (lv : Bool) (rest : Bytes) (w : WResp) (k : Bool) (ho : outcome c h = some (w, k)) :
    serveAux c (fuel + 1) lv (serHead h ++ rest) =
      if k then .resp w :: serveAux c fuel w.v11 rest else [.resp w] := by
  unfold outcome at ho
  cases hi : interpret h with
  | bad code => simp [hi] at ho
  | unsupported => simp [hi] at ho
  | ok m =>
    simp only [hi] at ho
    cases ha : answer c m with
    | panic s => simp [ha] at ho
    | ok r =>
      simp only [ha] at ho
      by_cases hb : m.body = .none
      · simp only [hb, if_true, Option.some.injEq, Prod.mk.injEq] at ho
        obtain ⟨hw', hk⟩ := ho
        rw [serveAux_ser c h hw hl fuel lv rest m hi r ha]
        subst hw' hk
        cases hka : m.keepAlive <;> simp [drainBody, hb, frame]
      · simp [hb] at ho

/-- a pipeline of requests that each keep the connection, then one that ends it, then anything -/
theorem serveAux_pipeline (c : Cfg) (rs : List (RawHead × WResp)) (z : RawHead) (wz : WResp) (junk : Bytes)
    (hrs : ∀ p ∈ rs, HeadWF p.1 ∧ (serHead p.1).length ≤ maxBuf ∧ outcome c p.1 = some (p.2, true))
    (hz : HeadWF z ∧ (serHead z).length ≤ maxBuf ∧ outcome c z = some (wz, false)) :
    ∀ (fuel : Nat) (lv : Bool), rs.length < fuel →
      serveAux c fuel lv ((rs.map fun p => serHead p.1).flatten ++ (serHead z ++ junk))
        = (rs.map fun p => Out.resp p.2) ++ [.resp wz] := by
  induction rs with
  | nil =>
    intro fuel lv hf
    cases fuel with
    | zero => simp at hf
    | succ f =>
      simp only [List.map_nil, List.flatten_nil, List.nil_append]
      rw [serveAux_outcome c z hz.1 hz.2.1 f lv junk wz false hz.2.2]; simp
  | cons p rs ih =>
    intro fuel lv hf
    cases fuel with
    | zero => simp at hf
    | succ f =>
      have hp := hrs p (by simp)
      simp only [List.map_cons, List.flatten_cons, List.append_assoc]
      rw [serveAux_outcome c p.1 hp.1 hp.2.1 f lv _ p.2 true hp.2.2]
      simp only [if_true, List.cons_append, List.cons.injEq, true_and]
      exact ih (fun q hq => hrs q (by simp [hq])) f p.2.v11 (by simp at hf; omega)

/-- version of the last request read (the status line version of hyper's own error answers) -/
def lastV (rs : List (RawHead × WResp)) (lv : Bool) : Bool := rs.foldl (fun _ p => p.2.v11) lv

/-- **Prefix law.** Requests that keep the connection are answered one by one, in order; behind them
    the connection behaves like a connection on which only the rest arrives. -/
theorem serveAux_prefix (c : Cfg) (rs : List (RawHead × WResp)) (t : Bytes)
    (hrs : ∀ p ∈ rs, HeadWF p.1 ∧ (serHead p.1).length ≤ maxBuf ∧ outcome c p.1 = some (p.2, true)) :
    ∀ (fuel : Nat) (lv : Bool), rs.length ≤ fuel →
      serveAux c fuel lv ((rs.map fun p => serHead p.1).flatten ++ t)
        = (rs.map fun p => Out.resp p.2) ++ serveAux c (fuel - rs.length) (lastV rs lv) t := by
  induction rs with
  | nil => intro fuel lv _; simp [lastV]
  | cons p rs ih =>
    intro fuel lv hf
    cases fuel with
    | zero => simp at hf
    | succ f =>
      have hp := hrs p (by simp)
      simp only [List.map_cons, List.flatten_cons, List.append_assoc]
      rw [serveAux_outcome c p.1 hp.1 hp.2.1 f lv _ p.2 true hp.2.2]
      simp only [if_true, List.cons_append, List.cons.injEq, true_and]
      rw [ih (fun q hq => hrs q (by simp [hq])) f p.2.v11 (by simp at hf; omega)]
      simp [lastV]

theorem flatten_ser_length (rs : List (RawHead × WResp)) (hrs : ∀ p ∈ rs, HeadWF p.1) :
    rs.length ≤ ((rs.map fun p => serHead p.1).flatten).length := by
  induction rs with
  | nil => simp
  | cons p rs ih =>
    have := serHead_length_pos p.1 (hrs p (by simp))
    have := ih (fun q hq => hrs q (by simp [hq]))
    simp only [List.map_cons, List.flatten_cons, List.length_append, List.length_cons]; omega

/-- a buffer whose head does not parse: one answer by hyper (or the switch to HTTP/2), nothing else -/
theorem serveAux_bad (c : Cfg) (fuel : Nat) (lv : Bool) (b : Bytes) (code : Nat)
    (hl : b.length ≤ maxBuf) (hb : parseHead b = .bad code) :
    serveAux c (fuel + 1) lv b = [onParseError lv code b] := by
  rw [serveAux]; unfold headWindow; rw [if_pos hl, hb]

/-- nothing more, or half a head, when the client is done: no answer -/
theorem serveAux_more (c : Cfg) (fuel : Nat) (lv : Bool) (b : Bytes)
    (hl : b.length ≤ maxBuf) (hb : parseHead b = .more) :
    serveAux c (fuel + 1) lv b = [] := by
  rw [serveAux]; unfold headWindow; rw [if_pos hl, hb]

/-- every response on any connection, whatever bytes arrive, is the framed answer of the handler to a
    request hyper accepted -/
theorem serveAux_resp_mem (c : Cfg) (w : WResp) :
    ∀ (fuel : Nat) (lv : Bool) (buf : Bytes), Out.resp w ∈ serveAux c fuel lv buf →
      ∃ h m r, interpret h = .ok m ∧ answer c m = .ok r ∧ w = frame m r := by
  intro fuel
  induction fuel with
  | zero => intro lv buf hm; simp [serveAux] at hm
  | succ f ih =>
    intro lv buf hm
    rw [serveAux] at hm
    cases hw : headWindow buf with
    | none => simp [hw] at hm
    | some ph =>
      cases ph with
      | more => simp [hw] at hm
      | bad code => simp [hw, onParseError] at hm; split at hm <;> simp at hm
      | ok h rest =>
        simp only [hw] at hm
        cases hi : interpret h with
        | bad code => simp [hi, onParseError] at hm; split at hm <;> simp at hm
        | unsupported => simp [hi] at hm
        | ok m =>
          simp only [hi] at hm
          cases ha : answer c m with
          | panic s => simp [ha] at hm
          | ok r =>
            simp only [ha] at hm
            split at hm
            · simp at hm; exact ⟨h, m, r, hi, ha, hm⟩
            · simp only [List.mem_cons, Out.resp.injEq] at hm
              cases hm with
              | inl e => exact ⟨h, m, r, hi, ha, e⟩
              | inr hm => exact ih _ _ hm

end Rotonda.HttpServer
