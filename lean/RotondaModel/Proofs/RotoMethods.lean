import RotondaModel.Model.RotoMethods
/-! Helper lemmas for `Props/RotoMethods.lean` (core Lean only). -/
namespace Rotonda.RotoMethods

/-! ### hops -/

theorem hops_nil : hops [] = [] := rfl

theorem hops_cons (s : Seg) (p : List Seg) : hops (s :: p) = segHops s ++ hops p := by
  simp [hops]

theorem hops_append (a b : List Seg) : hops (a ++ b) = hops a ++ hops b := by
  simp [hops]

theorem segHops_seq_ne (l : List Nat) (h : l ≠ []) : segHops ⟨.seq, l⟩ = l.map Hop.asn := by
  cases l with
  | nil => exact absurd rfl h
  | cons a r => rfl

/-- a segment that is one `Hop::Segment`: everything but a non-empty AS_SEQUENCE -/
def Seg.whole (s : Seg) : Prop := ¬ (s.kind = .seq ∧ s.asns ≠ [])

instance (s : Seg) : Decidable s.whole := by unfold Seg.whole; exact inferInstance

theorem segHops_whole (s : Seg) (h : s.whole) : segHops s = [Hop.seg s] := by
  obtain ⟨k, l⟩ := s
  cases k <;> cases l <;> simp_all [segHops, Seg.whole]

theorem segHops_not_whole (s : Seg) (h : ¬ s.whole) : segHops s = s.asns.map Hop.asn := by
  obtain ⟨k, l⟩ := s
  cases k <;> cases l <;> simp_all [segHops, Seg.whole]

/-- number of hops one segment contributes -/
def segHopCount (s : Seg) : Nat := if s.kind = .seq ∧ s.asns ≠ [] then s.asns.length else 1

theorem segHops_length (s : Seg) : (segHops s).length = segHopCount s := by
  by_cases h : s.whole
  · rw [segHops_whole s h]; simp only [Seg.whole] at h; simp [segHopCount, h]
  · rw [segHops_not_whole s h]; simp only [Seg.whole, Classical.not_not] at h; simp [segHopCount, h]

theorem hopCount_cons (s : Seg) (p : List Seg) : hopCount (s :: p) = segHopCount s + hopCount p := by
  simp [hopCount, hops_cons, segHops_length]

theorem asn_mem_segHops (s : Seg) (a : Nat) :
    Hop.asn a ∈ segHops s ↔ s.kind = .seq ∧ a ∈ s.asns := by
  by_cases h : s.whole
  · rw [segHops_whole s h]
    simp only [Seg.whole] at h
    constructor
    · intro hm; simp at hm
    · intro ⟨hk, ha⟩
      have : s.asns ≠ [] := by intro e; rw [e] at ha; simp at ha
      exact absurd ⟨hk, this⟩ h
  · rw [segHops_not_whole s h]
    simp only [Seg.whole, Classical.not_not] at h
    simp [h.1]

theorem asn_mem_hops (p : List Seg) (a : Nat) :
    Hop.asn a ∈ hops p ↔ ∃ s ∈ p, s.kind = .seq ∧ a ∈ s.asns := by
  induction p with
  | nil => simp [hops]
  | cons s t ih => rw [hops_cons, List.mem_append, asn_mem_segHops, ih]; simp

/-! ### origin -/

theorem getLast?_append_ne {α} (a b : List α) (h : b ≠ []) : (a ++ b).getLast? = b.getLast? := by
  cases b with
  | nil => exact absurd rfl h
  | cons x r =>
    rw [List.getLast?_append]
    cases hh : (x :: r).getLast? with
    | none => simp [List.getLast?_eq_none_iff] at hh
    | some y => rfl

theorem segHops_ne_nil (s : Seg) : segHops s ≠ [] := by
  intro h
  have := segHops_length s
  rw [h] at this
  simp only [List.length_nil, segHopCount] at this
  split at this
  · rename_i hh; have : 0 < s.asns.length := List.length_pos_iff.mpr hh.2; omega
  · omega

/-- the origin of a path is decided by its last segment -/
theorem origin_snoc (p : List Seg) (s : Seg) : origin (p ++ [s]) = (segHops s).getLast? := by
  simp only [origin, hops_append]
  rw [getLast?_append_ne _ _ (by simp [hops, segHops_ne_nil])]
  simp [hops]

theorem origin_nil : origin [] = none := rfl

/-! ### chunks -/

theorem chunksOf_flatten (n : Nat) (hn : 0 < n) (l : List Nat) : (chunksOf n l).flatten = l := by
  induction hl : l.length using Nat.strongRecOn generalizing l with
  | _ k ih =>
    unfold chunksOf
    by_cases h : l = [] ∨ n = 0
    · rw [dif_pos h]
      rcases h with h | h
      · simp [h]
      · omega
    · rw [dif_neg h]
      have h1 : l ≠ [] := fun e => h (Or.inl e)
      have : 0 < l.length := List.length_pos_iff.mpr h1
      simp only [List.flatten_cons]
      rw [ih (l.drop n).length (by simp [List.length_drop]; omega) (l.drop n) rfl]
      exact List.take_append_drop n l

theorem chunksOf_ne_nil (n : Nat) (hn : 0 < n) (l : List Nat) : ∀ c ∈ chunksOf n l, c ≠ [] := by
  induction hl : l.length using Nat.strongRecOn generalizing l with
  | _ k ih =>
    unfold chunksOf
    by_cases h : l = [] ∨ n = 0
    · rw [dif_pos h]; simp
    · rw [dif_neg h]
      have h1 : l ≠ [] := fun e => h (Or.inl e)
      have : 0 < l.length := List.length_pos_iff.mpr h1
      intro c hc
      rcases List.mem_cons.mp hc with hc | hc
      · subst hc
        intro e
        have h2 := @List.length_take _ n l
        rw [e] at h2
        simp only [List.length_nil] at h2
        omega
      · exact ih (l.drop n).length (by simp [List.length_drop]; omega) (l.drop n) rfl c hc

theorem seqChunks_flatten (l : List Nat) : (seqChunks l).flatten = l := by
  unfold seqChunks
  simp only [List.flatten_append, chunksOf_flatten 255 (by omega)]
  split
  · rename_i h; simp [h]
  · simp

theorem seqChunks_ne_nil (l : List Nat) : ∀ c ∈ seqChunks l, c ≠ [] := by
  unfold seqChunks
  intro c hc
  simp only [List.mem_append] at hc
  rcases hc with hc | hc
  · split at hc
    · simp at hc
    · rename_i h
      simp only [List.mem_singleton] at hc
      subst hc
      intro e
      have h2 := @List.length_take _ (l.length % 255) l
      rw [e] at h2
      simp only [List.length_nil] at h2
      have := Nat.mod_le l.length 255
      omega
  · exact chunksOf_ne_nil 255 (by omega) _ c hc

theorem hops_seq_chunks (cs : List (List Nat)) (h : ∀ c ∈ cs, c ≠ []) :
    hops (cs.map (⟨.seq, ·⟩)) = cs.flatten.map Hop.asn := by
  induction cs with
  | nil => rfl
  | cons c t ih =>
    simp only [List.map_cons, hops_cons, List.flatten_cons, List.map_append]
    rw [segHops_seq_ne c (h c (by simp)), ih (fun c hc => h c (by simp [hc]))]

/-! ### recompose -/

theorem spanAsn_eq (l : List Hop) : l = (spanAsn l).1.map Hop.asn ++ (spanAsn l).2 := by
  induction l with
  | nil => simp [spanAsn]
  | cons h t ih =>
    cases h with
    | asn a => simp only [spanAsn, List.map_cons, List.cons_append]; rw [← ih]
    | seg s => simp [spanAsn]

/-- hop lists that `AsPath::hops` produces: a `Hop::Segment` is never a non-empty AS_SEQUENCE -/
def Canon (l : List Hop) : Prop := ∀ s, Hop.seg s ∈ l → s.whole

theorem canon_hops (p : List Seg) : Canon (hops p) := by
  intro s hs
  induction p with
  | nil => simp [hops] at hs
  | cons x t ih =>
    rw [hops_cons, List.mem_append] at hs
    rcases hs with hs | hs
    · by_cases hx : x.whole
      · rw [segHops_whole x hx] at hs; simp at hs; rw [hs]; exact hx
      · rw [segHops_not_whole x hx] at hs; simp at hs
    · exact ih hs

/-- recomposing a hop list and reading the hops back gives the same hop list -/
theorem hops_recompose (l : List Hop) (hc : Canon l) : hops (recompose l) = l := by
  induction hl : l.length using Nat.strongRecOn generalizing l with
  | _ k ih =>
    unfold recompose
    match l, hc, hl with
    | [], _, _ => rfl
    | .seg s :: r, hc, hl =>
      simp only
      rw [hops_cons, segHops_whole s (hc s (by simp))]
      rw [ih r.length (by simp at hl; omega) r (fun s hs => hc s (by simp [hs])) rfl]
      rfl
    | .asn a :: r, hc, hl =>
      simp only
      rw [hops_append, hops_seq_chunks _ (seqChunks_ne_nil _), seqChunks_flatten]
      have hlen := spanAsn_len r
      have hr := spanAsn_eq r
      rw [ih (spanAsn r).2.length (by simp at hl; omega) (spanAsn r).2
        (fun s hs => hc s (by rw [hr]; simp [hs])) rfl]
      simp only [List.map_cons, List.cons_append]
      rw [← hr]

theorem hops_routePath (p : List Seg) : hops (routePath p) = hops p :=
  hops_recompose _ (canon_hops p)

/-! ### communities -/

theorem wellknown_roundtrip : ∀ e ∈ wellknownTable, wellknownValue e.2 = some e.1 := by decide

theorem wellknownName_value (c : Nat) (n : String) (h : wellknownName c = some n) :
    wellknownValue n = some c := by
  unfold wellknownName at h
  cases hf : wellknownTable.find? (·.1 == c) with
  | none => rw [hf] at h; simp at h
  | some e =>
    rw [hf] at h
    simp only [Option.map_some, Option.some.injEq] at h
    have hm := List.mem_of_find?_eq_some hf
    have hp := List.find?_some hf
    simp only [beq_iff_eq] at hp
    rw [← h, ← hp]
    exact wellknown_roundtrip e hm

end Rotonda.RotoMethods
