import RotondaModel.Model.MrtApi
/-! Helper lemmas for C20 (MRT queue endpoint). -/
namespace Rotonda.MrtApi

/-! ### `ancestors` -/

theorem mem_ancestorsAux (abs : Bool) (cs : List Comp) (k : Nat) (q : Path) :
    q ∈ ancestorsAux abs cs k ↔ ∃ j, j ≤ k ∧ q = ⟨abs, cs.take j⟩ := by
  induction k with
  | zero =>
    simp only [ancestorsAux, List.mem_singleton]
    constructor
    · intro h; exact ⟨0, Nat.le_refl 0, h⟩
    · rintro ⟨j, hj, h⟩
      have : j = 0 := by omega
      subst this; exact h
  | succ k ih =>
    simp only [ancestorsAux, List.mem_cons, ih]
    constructor
    · rintro (h | ⟨j, hj, h⟩)
      · exact ⟨k + 1, Nat.le_refl _, h⟩
      · exact ⟨j, by omega, h⟩
    · rintro ⟨j, hj, h⟩
      by_cases hk : j = k + 1
      · subst hk; exact Or.inl h
      · exact Or.inr ⟨j, by omega, h⟩

/-- Membership in `ancestors p` is: same rootedness and a component prefix. -/
theorem mem_ancestors (p d : Path) :
    d ∈ ancestors p ↔ d.abs = p.abs ∧ d.comps <+: p.comps := by
  unfold ancestors
  rw [mem_ancestorsAux]
  constructor
  · rintro ⟨j, _, h⟩
    subst h
    exact ⟨rfl, List.take_prefix j p.comps⟩
  · rintro ⟨ha, hp⟩
    refine ⟨d.comps.length, hp.length_le, ?_⟩
    have ht : d.comps = p.comps.take d.comps.length := List.prefix_iff_eq_take.mp hp
    cases d with
    | mk a c =>
      simp only at ha ht ⊢
      subst ha
      rw [← ht]

/-! ### Responses never panic -/

theorem respond_eq (site : String) (s : Nat) (e : Option Bytes) (h : validStatus s = true) :
    respond site s e = .resp s e := by
  have h1 : validHeaderName sContentType = true := by decide
  have h2 : validHeaderValue sTextPlain = true := by decide
  simp [respond, h, h1, h2]

theorem respond_200 (site : String) (e : Option Bytes) : respond site 200 e = .resp 200 e :=
  respond_eq site 200 e (by decide)

theorem respond_400 (site : String) (e : Option Bytes) : respond site 400 e = .resp 400 e :=
  respond_eq site 400 e (by decide)

theorem err400_eq (e : Option Bytes) : err400 e = .resp 400 e := respond_400 _ e

/-- What `afterSend` can produce. -/
theorem afterSend_cases (env : Env) (p : Bytes) :
    (env.rxOpen = false ∧ afterSend env p = .resp 400 none) ∨
    (env.rxOpen = true ∧ (env.reply = .ok ∨ env.reply = .silent) ∧ afterSend env p = .resp 200 (some p)) ∨
    (env.rxOpen = true ∧ (env.reply = .err ∨ env.reply = .dropped) ∧ afterSend env p = .resp 400 (some p)) := by
  unfold afterSend
  cases hr : env.rxOpen with
  | false => left; simp [err400_eq]
  | true =>
    right
    cases hy : env.reply <;> simp [err400_eq, respond_200]

/-- The decision of `queue`, as a specification: the only way to an enqueue. -/
theorem queue_spec (cfg : Option Bytes) (env : Env) (query : Option Bytes) :
    queue cfg env query = .resp 400 none ∨
    ∃ up d file p, cfg = some up ∧ env.canon up = some d ∧ fileParam query = some file ∧
      isRelative file = true ∧ env.canon (push d file) = some p ∧ underDir p d = true ∧
      queue cfg env query = afterSend env p := by
  unfold queue
  cases cfg with
  | none => left; simp [err400_eq]
  | some up =>
    simp only
    cases hd : env.canon up with
    | none => left; simp [err400_eq]
    | some d =>
      simp only
      cases hf : fileParam query with
      | none => left; simp [respond_400]
      | some file =>
        simp only
        cases hr : isRelative file with
        | false => left; simp [err400_eq]
        | true =>
          simp only [Bool.not_true, Bool.false_eq_true, if_false]
          cases hp : env.canon (push d file) with
          | none => left; simp [err400_eq]
          | some p =>
            simp only
            cases hu : underDir p d with
            | false => left; simp [err400_eq]
            | true =>
              right
              exact ⟨up, d, file, p, rfl, hd, rfl, hr, hp, hu, by simp⟩

/-- `process_request` either declines or is `queue`. -/
theorem processRequest_cases (apiPath : Bytes) (cfg : Option Bytes) (env : Env) (isGet : Bool)
    (rawPath : Bytes) (query : Option Bytes) :
    processRequest apiPath cfg env isGet rawPath query = .notHandled ∨
    (isGet = true ∧
      (∃ action, stripPrefix (decodedPath rawPath) apiPath = some action ∧
        startsWith action sQueue = true) ∧
      processRequest apiPath cfg env isGet rawPath query = queue cfg env query) := by
  unfold processRequest
  cases isGet with
  | false => left; simp
  | true =>
    simp only [Bool.not_true, Bool.false_eq_true, if_false]
    cases hs : stripPrefix (decodedPath rawPath) apiPath with
    | none => left; rfl
    | some action =>
      simp only
      cases hq : startsWith action sQueue with
      | false => left; simp
      | true => right; exact ⟨trivial, ⟨action, rfl, hq⟩, by simp⟩

end Rotonda.MrtApi
