import RotondaModel.Model.MrtApi
/-! Helper lemmas for C20 (MRT queue endpoint). -/
namespace Rotonda.MrtApi

/-! ### `ancestors` -/

theorem mem_ancestorsAux (abs : Bool) (cs : List Comp) (k : Nat) (q : Path) :
    q ∈ ancestorsAux abs cs k ↔ ∃ j, j ≤ k ∧ q = ⟨abs, cs.take j⟩ := by
  induction k with
  | zero =>
    simp only [ancestorsAux, List.mem_singleton]
    constructor
    · intro h; exact ⟨0, Nat.le_refl 0, h⟩
    · rintro ⟨j, hj, h⟩
      have : j = 0 := by omega
      subst this; exact h
  | succ k ih =>
    simp only [ancestorsAux, List.mem_cons, ih]
    constructor
    · rintro (h | ⟨j, hj, h⟩)
      · exact ⟨k + 1, Nat.le_refl _, h⟩
      · exact ⟨j, by omega, h⟩
    · rintro ⟨j, hj, h⟩
      by_cases hk : j = k + 1
      · subst hk; exact Or.inl h
      · exact Or.inr ⟨j, by omega, h⟩

/-- Membership in `ancestors p` is: same rootedness and a component prefix. -/
theorem mem_ancestors (p d : Path) :
    d ∈ ancestors p ↔ d.abs = p.abs ∧ d.comps <+: p.comps := by
  unfold ancestors
  rw [mem_ancestorsAux]
  constructor
  · rintro ⟨j, _, h⟩
    subst h
    exact ⟨rfl, List.take_prefix j p.comps⟩
  · rintro ⟨ha, hp⟩
    refine ⟨d.comps.length, hp.length_le, ?_⟩
    have ht : d.comps = p.comps.take d.comps.length := List.prefix_iff_eq_take.mp hp
    cases d with
    | mk a c =>
      simp only at ha ht ⊢
      subst ha
      rw [← ht]

/-! ### Responses never panic -/

theorem respond_eq (site : String) (s : Nat) (e : Option Bytes) (h : validStatus s = true) :
    respond site s e = .resp s e := by
  have h1 : validHeaderName sContentType = true := by decide
  have h2 : validHeaderValue sTextPlain = true := by decide
  simp [respond, h, h1, h2]

theorem respond_200 (site : String) (e : Option Bytes) : respond site 200 e = .resp 200 e :=
  respond_eq site 200 e (by decide)

theorem respond_400 (site : String) (e : Option Bytes) : respond site 400 e = .resp 400 e :=
  respond_eq site 400 e (by decide)

theorem err400_eq (e : Option Bytes) : err400 e = .resp 400 e := respond_400 _ e

/-- What `afterSend` can produce. -/
theorem afterSend_cases (env : Env) (p : Bytes) :
    (env.rxOpen = false ∧ afterSend env p = .resp 400 none) ∨
    (env.rxOpen = true ∧ (env.reply = .ok ∨ env.reply = .silent) ∧ afterSend env p = .resp 200 (some p)) ∨
    (env.rxOpen = true ∧ (env.reply = .err ∨ env.reply = .dropped) ∧ afterSend env p = .resp 400 (some p)) := by
  unfold afterSend
  cases hr : env.rxOpen with
  | false => left; simp [err400_eq]
  | true =>
    right
    cases hy : env.reply <;> simp [err400_eq, respond_200]

/-- The decision of `queue`, as a specification: the only way to an enqueue. -/
theorem queue_spec (cfg : Option Bytes) (env : Env) (query : Option Bytes) :
    queue cfg env query = .resp 400 none ∨
    ∃ up d file p, cfg = some up ∧ env.canon up = some d ∧ fileParam query = some file ∧
      isRelative file = true ∧ env.canon (push d file) = some p ∧ underDir p d = true ∧
      queue cfg env query = afterSend env p := by
  unfold queue
  cases cfg with
  | none => left; simp [err400_eq]
  | some up =>
    simp only
    cases hd : env.canon up with
    | none => left; simp [err400_eq]
    | some d =>
      simp only
      cases hf : fileParam query with
      | none => left; simp [respond_400]
      | some file =>
        simp only
        cases hr : isRelative file with
        | false => left; simp [err400_eq]
        | true =>
          simp only [Bool.not_true, Bool.false_eq_true, if_false]
          cases hp : env.canon (push d file) with
          | none => left; simp [err400_eq]
          | some p =>
            simp only
            cases hu : underDir p d with
            | false => left; simp [err400_eq]
            | true =>
              right
              exact ⟨up, d, file, p, rfl, hd, rfl, hr, hp, hu, by simp⟩

/-- `process_request` either declines or is `queue`. -/
theorem processRequest_cases (apiPath : Bytes) (cfg : Option Bytes) (env : Env) (isGet : Bool)
    (rawPath : Bytes) (query : Option Bytes) :
    processRequest apiPath cfg env isGet rawPath query = .notHandled ∨
    (isGet = true ∧
      (∃ action, stripPrefix (decodedPath rawPath) apiPath = some action ∧
        startsWith action sQueue = true) ∧
      processRequest apiPath cfg env isGet rawPath query = queue cfg env query) := by
  unfold processRequest
  cases isGet with
  | false => left; simp
  | true =>
    simp only [Bool.not_true, Bool.false_eq_true, if_false]
    cases hs : stripPrefix (decodedPath rawPath) apiPath with
    | none => left; rfl
    | some action =>
      simp only
      cases hq : startsWith action sQueue with
      | false => left; simp
      | true => right; exact ⟨trivial, ⟨action, rfl, hq⟩, by simp⟩

end Rotonda.MrtApi

namespace Rotonda.MrtApi

/-! ### File-system level: what `realpath` returns is a link-free existing path -/

/-- A well-formed file name: non-empty, no separator, not `.` or `..`. -/
def WFName (n : Bytes) : Prop := n ≠ [] ∧ 47 ∉ n ∧ n ≠ [46] ∧ n ≠ [46, 46]

/-- Every prefix of `p` (including `p`) is a directory of `fs` — in particular none is a link. -/
def ResolvedDir (fs : Fs) (p : List Bytes) : Prop := ∀ q, q <+: p → fs.get q = some .dir

/-- `p` is a *resolved location* of `fs`: a directory all of whose prefixes are directories, or
    a file directly inside such a directory. No component is a symbolic link. -/
def Resolved (fs : Fs) (p : List Bytes) : Prop :=
  ResolvedDir fs p ∨ ∃ d c, p = d ++ [c] ∧ ResolvedDir fs d ∧ fs.get p = some .file

theorem resolvedDir_nil (fs : Fs) : ResolvedDir fs [] := by
  intro q hq
  have : q = [] := List.prefix_nil.mp hq
  subst this
  simp [Fs.get]

theorem resolvedDir_dropLast {fs : Fs} {p : List Bytes} (h : ResolvedDir fs p) :
    ResolvedDir fs p.dropLast :=
  fun q hq => h q (hq.trans (List.dropLast_prefix p))

theorem resolvedDir_concat {fs : Fs} {p : List Bytes} {c : Bytes} (h : ResolvedDir fs p)
    (hc : fs.get (p ++ [c]) = some .dir) : ResolvedDir fs (p ++ [c]) := by
  intro q hq
  rcases List.prefix_concat_iff.mp hq with h1 | h1
  · rw [h1]; exact hc
  · exact h q h1

theorem of_mem_takeWhile {α : Type} (f : α → Bool) (x : α) :
    ∀ l : List α, x ∈ l.takeWhile f → f x = true
  | [], h => by simp at h
  | a :: l, h => by
    rw [List.takeWhile_cons] at h
    by_cases ha : f a = true
    · simp only [ha, if_true, List.mem_cons] at h
      rcases h with h | h
      · exact h ▸ ha
      · exact of_mem_takeWhile f x l h
    · simp [ha] at h

theorem nextComp_no_sep (s : Bytes) : 47 ∉ (nextComp s).1 := by
  unfold nextComp
  simp only
  intro h
  have := of_mem_takeWhile _ _ _ h
  simp at this

theorem realpathAux_ok (fs : Fs) : ∀ (fuel links : Nat) (dest : List Bytes) (name : Bytes)
    (p : List Bytes), ResolvedDir fs dest → (∀ n ∈ dest, WFName n) →
    realpathAux fs fuel links dest name = .ok p → Resolved fs p ∧ ∀ n ∈ p, WFName n := by
  intro fuel
  induction fuel with
  | zero => intro links dest name p _ _ h; simp [realpathAux] at h
  | succ fuel ih =>
    intro links dest name p hd hw h
    have hns := nextComp_no_sep name
    unfold realpathAux at h
    generalize nextComp name = cr at h hns
    obtain ⟨c, rest⟩ := cr
    simp only at h hns
    by_cases h1 : c.isEmpty = true
    · simp only [h1, if_true] at h
      cases h
      exact ⟨Or.inl hd, hw⟩
    · simp only [h1, Bool.false_eq_true, if_false] at h
      by_cases h2 : c = [46]
      · simp only [h2, if_true] at h
        exact ih links dest rest p hd hw h
      · simp only [h2, if_false] at h
        by_cases h3 : c = [46, 46]
        · simp only [h3, if_true] at h
          by_cases h4 : dest = [rootName]
          · simp [h4] at h
          · simp only [h4, if_false] at h
            exact ih links dest.dropLast rest p (resolvedDir_dropLast hd)
              (fun n hn => hw n (List.dropLast_subset dest hn)) h
        · simp only [h3, if_false] at h
          have hcw : WFName c := ⟨by simpa using h1, hns, h2, h3⟩
          by_cases h5 : (dest.isEmpty && c != rootName) = true
          · simp [h5] at h
          · simp only [h5, Bool.false_eq_true, if_false] at h
            cases hg : fs.get (dest ++ [c]) with
            | none => simp [hg] at h
            | some node =>
              simp only [hg] at h
              cases node with
              | dir =>
                simp only at h
                refine ih links (dest ++ [c]) rest p (resolvedDir_concat hd hg) ?_ h
                intro n hn
                rcases List.mem_append.mp hn with hn | hn
                · exact hw n hn
                · simp at hn; subst hn; exact hcw
              | file =>
                simp only at h
                by_cases h6 : rest.isEmpty = true
                · simp only [h6, if_true] at h
                  cases h
                  refine ⟨Or.inr ⟨dest, c, rfl, hd, hg⟩, ?_⟩
                  intro n hn
                  rcases List.mem_append.mp hn with hn | hn
                  · exact hw n hn
                  · simp at hn; subst hn; exact hcw
                · simp [h6] at h
              | link t =>
                simp only at h
                by_cases h7 : links + 1 > maxLinks
                · simp [h7] at h
                · simp only [h7, if_false] at h
                  by_cases h8 : hasRoot t = true
                  · simp only [h8, if_true] at h
                    exact ih (links + 1) [] (t ++ rest) p (resolvedDir_nil fs) (by simp) h
                  · simp only [h8, Bool.false_eq_true, if_false] at h
                    exact ih (links + 1) dest (t ++ rest) p hd hw h

/-- What `canonFs` returns is a resolved location with well-formed names. -/
theorem canonFs_ok {fs : Fs} {s : Bytes} {p : List Bytes} (h : canonFs fs s = .ok p) :
    Resolved fs p ∧ ∀ n ∈ p, WFName n := by
  unfold canonFs at h
  split at h
  · cases h
  · split at h
    · cases h
    · split at h
      · cases h
      · exact realpathAux_ok fs _ 0 [] s p (resolvedDir_nil fs) (by simp) h

/-! ### `Path::components` of a rendered path -/

theorem splitOn_ne_nil (c : Nat) (s : Bytes) : splitOn c s ≠ [] := by
  induction s with
  | nil => simp [splitOn]
  | cons a s ih =>
    unfold splitOn
    cases h : splitOn c s with
    | nil => simp
    | cons p ps => by_cases hac : (a == c) = true <;> simp [hac]

theorem splitOn_sep (c : Nat) (r : Bytes) : splitOn c (c :: r) = [] :: splitOn c r := by
  conv => lhs; unfold splitOn
  cases h : splitOn c r with
  | nil => exact absurd h (splitOn_ne_nil c r)
  | cons p ps => simp

theorem splitOn_append_sep (c : Nat) (n r : Bytes) (hn : c ∉ n) :
    splitOn c (n ++ c :: r) = n :: splitOn c r := by
  induction n with
  | nil => simpa using splitOn_sep c r
  | cons a n ih =>
    have ha : a ≠ c := fun h => hn (by simp [h])
    have hn' : c ∉ n := fun h => hn (by simp [h])
    have := ih hn'
    show splitOn c (a :: (n ++ c :: r)) = _
    conv => lhs; unfold splitOn
    simp only [this]
    simp [ha]

theorem splitOn_no_sep (c : Nat) (n : Bytes) (hn : c ∉ n) : splitOn c n = [n] := by
  induction n with
  | nil => simp [splitOn]
  | cons a n ih =>
    have ha : a ≠ c := fun h => hn (by simp [h])
    have hn' : c ∉ n := fun h => hn (by simp [h])
    conv => lhs; unfold splitOn
    simp only [ih hn']
    simp [ha]

theorem splitOn_flat (n : Bytes) (ns : List Bytes) (hn : 47 ∉ n) (hns : ∀ m ∈ ns, 47 ∉ m) :
    splitOn 47 (n ++ ns.flatMap (47 :: ·)) = n :: ns := by
  induction ns generalizing n with
  | nil => simpa using splitOn_no_sep 47 n hn
  | cons m ms ih =>
    simp only [List.flatMap_cons, List.cons_append]
    rw [splitOn_append_sep 47 n _ hn, ih m (hns m (by simp)) (fun x hx => hns x (by simp [hx]))]

theorem pieceComp_wf {n : Bytes} (h : WFName n) : pieceComp n = some (.normal n) := by
  obtain ⟨h1, _, h3, h4⟩ := h
  unfold pieceComp
  have : n.isEmpty = false := by cases n <;> simp_all
  simp [this, h3, h4]

theorem filterMap_pieceComp_wf (ns : List Bytes) (h : ∀ n ∈ ns, WFName n) :
    ns.filterMap pieceComp = ns.map .normal := by
  induction ns with
  | nil => rfl
  | cons n ns ih =>
    rw [List.filterMap_cons, pieceComp_wf (h n (by simp))]
    simp [ih (fun x hx => h x (by simp [hx]))]

/-- `Path::components()` of a rendered resolved path are exactly its names. -/
theorem parsePath_render (p : List Bytes) (h : ∀ n ∈ p, WFName n) :
    parsePath (render p) = ⟨true, p.map .normal⟩ := by
  cases p with
  | nil => decide
  | cons n ns =>
    have hr : render (n :: ns) = 47 :: (n ++ ns.flatMap (47 :: ·)) := by simp [render]
    have hs : splitOn 47 (render (n :: ns)) = [] :: n :: ns := by
      rw [hr, splitOn_sep, splitOn_flat n ns (h n (by simp)).2.1 (fun m hm => (h m (by simp [hm])).2.1)]
    unfold parsePath
    rw [hs]
    have hroot : hasRoot (render (n :: ns)) = true := by rw [hr]; rfl
    simp only [hroot, if_true]
    have : pieceComp [] = none := by decide
    rw [List.filterMap_cons, this]
    simp only
    rw [filterMap_pieceComp_wf (n :: ns) h]

theorem prefix_of_map_normal {a b : List Bytes} (h : a.map Comp.normal <+: b.map Comp.normal) :
    a <+: b := by
  induction a generalizing b with
  | nil => exact List.nil_prefix
  | cons x xs ih =>
    cases b with
    | nil => simp at h
    | cons y ys =>
      simp only [List.map_cons, List.cons_prefix_cons] at h
      obtain ⟨h1, h2⟩ := h
      cases h1
      exact List.cons_prefix_cons.mpr ⟨rfl, ih h2⟩

end Rotonda.MrtApi
