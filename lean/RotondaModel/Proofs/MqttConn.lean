import RotondaModel.Model.MqttConn
/-! Invariants of the MqttConn model (helper lemmas for `Props/MqttConn.lean`). -/
namespace Rotonda.MqttConn

/-! ### the log projections distribute over append -/

@[simp] theorem consumed_append (a b : List Obs) : consumed (a ++ b) = consumed a ++ consumed b := by
  induction a with
  | nil => rfl
  | cons x a ih => cases x <;> simp [consumed, ih]

@[simp] theorem attempted_append (a b : List Obs) : attempted (a ++ b) = attempted a ++ attempted b := by
  induction a with
  | nil => rfl
  | cons x a ih => cases x <;> simp [attempted, ih]

@[simp] theorem voided_append (a b : List Obs) : voided (a ++ b) = voided a ++ voided b := by
  induction a with
  | nil => rfl
  | cons x a ih => cases x <;> simp [voided, ih]

@[simp] theorem failed_append (a b : List Obs) : failed (a ++ b) = failed a ++ failed b := by
  induction a with
  | nil => rfl
  | cons x a ih =>
    cases x with
    | publish c m q o => cases o <;> simp [failed, ih]
    | _ => simp [failed, ih]

@[simp] theorem accepted_append (a b : List Obs) : accepted (a ++ b) = accepted a ++ accepted b := by
  induction a with
  | nil => rfl
  | cons x a ih =>
    cases x with
    | publish c m q o => cases o <;> simp [accepted, ih]
    | _ => simp [accepted, ih]

@[simp] theorem pendingIds_append (a b : List Obs) : pendingIds (a ++ b) = pendingIds a ++ pendingIds b := by
  induction a with
  | nil => rfl
  | cons x a ih =>
    cases x with
    | publish c m q o => cases o <;> simp [pendingIds, ih]
    | _ => simp [pendingIds, ih]

@[simp] theorem completedIds_append (a b : List Obs) :
    completedIds (a ++ b) = completedIds a ++ completedIds b := by
  induction a with
  | nil => rfl
  | cons x a ih => cases x <;> simp [completedIds, ih]

/-! ### a run of `void`s -/

def voids (q : List QMsg) : List Obs := q.map (fun m => .void m.id)

@[simp] theorem consumed_voids (q : List QMsg) : consumed (voids q) = q.map (·.id) := by
  induction q with
  | nil => rfl
  | cons m q ih => simp_all [voids, consumed]
@[simp] theorem voided_voids (q : List QMsg) : voided (voids q) = q.map (·.id) := by
  induction q with
  | nil => rfl
  | cons m q ih => simp_all [voids, voided]
@[simp] theorem attempted_voids (q : List QMsg) : attempted (voids q) = [] := by
  induction q with
  | nil => rfl
  | cons m q ih => simp_all [voids, attempted]
@[simp] theorem accepted_voids (q : List QMsg) : accepted (voids q) = [] := by
  induction q with
  | nil => rfl
  | cons m q ih => simp_all [voids, accepted]
@[simp] theorem failed_voids (q : List QMsg) : failed (voids q) = [] := by
  induction q with
  | nil => rfl
  | cons m q ih => simp_all [voids, failed]
@[simp] theorem pendingIds_voids (q : List QMsg) : pendingIds (voids q) = [] := by
  induction q with
  | nil => rfl
  | cons m q ih => simp_all [voids, pendingIds]
@[simp] theorem completedIds_voids (q : List QMsg) : completedIds (voids q) = [] := by
  induction q with
  | nil => rfl
  | cons m q ih => simp_all [voids, completedIds]
@[simp] theorem disc_voids (q : List QMsg) (acc : Option (List Nat)) :
    (voids q).foldl discCheck acc = acc := by
  induction q generalizing acc with
  | nil => rfl
  | cons m q ih =>
    simp only [voids, List.map_cons, List.foldl_cons] at ih ⊢
    rw [ih]; cases acc <;> rfl

theorem voided_nil_consumed {l : List Obs} (h : voided l = []) : consumed l = attempted l := by
  induction l with
  | nil => rfl
  | cons x l ih => cases x <;> simp_all [voided, consumed, attempted]

theorem attempted_sublist (l : List Obs) : (attempted l).Sublist (consumed l) := by
  induction l with
  | nil => exact List.Sublist.slnil
  | cons x l ih =>
    cases x <;> simp only [attempted, consumed]
    · exact ih.cons_cons _
    all_goals first | exact ih | exact ih.cons _

/-! ### the invariant -/

structure Inv (v : Variants) (st : St) : Prop where
  cons : consumed st.log ++ st.q.map (·.id) = st.enq
  enqLt : ∀ i ∈ st.enq, i < st.nextId
  enqSorted : st.enq.Pairwise (· < ·)
  pend : pendingIds st.log = completedIds st.log ++ st.blocked.toList.map (·.m.id)
  disc : ∃ ds, st.log.foldl discCheck (some []) = some ds
    ∧ (st.term = false → ∀ c, st.conn = .running c → c ∉ ds)
    ∧ (∀ c, st.conn = .running c → c < st.nextConn) ∧ (∀ c ∈ ds, c < st.nextConn)
  cfg : st.connCfg.cid = st.cur.cid ∧ st.connCfg.dest = st.cur.dest ∧ st.connCfg.qs = st.cur.qs
    ∧ (v.credFix = true → st.connCfg.user = st.cur.user)
    ∧ (v.retryFix = true → st.retry = st.cur.retry)
  cnt : st.okCnt = (accepted st.log).length + (voided st.log).length ∧ st.peCnt = (failed st.log).length
  nv : v.voidFix = true → voided st.log = []

theorem inv_init (v : Variants) (cfgs : List Cfg) : Inv v (init cfgs) := by
  constructor <;> simp [init, consumed, pendingIds, completedIds, accepted, voided, failed, discCheck]

theorem needsReconnect_false {v : Variants} {o n : Cfg} (h : needsReconnect v o n = false) :
    n.cid = o.cid ∧ n.dest = o.dest ∧ n.qs = o.qs ∧ (v.credFix = true → n.user = o.user) := by
  simp only [needsReconnect, Bool.or_eq_false_iff, bne_eq_false_iff_eq, Bool.and_eq_false_iff] at h
  obtain ⟨⟨⟨h1, h2⟩, h3⟩, h4⟩ := h
  refine ⟨h1, h2, h3, fun hc => ?_⟩
  rcases h4 with h4 | h4
  · simp [hc] at h4
  · exact h4

theorem inv_handleCmd {v : Variants} {st : St} (h : Inv v st) (ht : st.term = false) (c : Cmd) :
    Inv v (handleCmd v st c) := by
  obtain ⟨ds, hd1, hd2, hd3, hd4⟩ := h.disc
  obtain ⟨g1, g2, g3, g4, g5⟩ := h.cfg
  have hmem : ∀ c, st.conn = .running c → ∀ x ∈ c :: ds, x < st.nextConn := by
    intro c hc x hx
    rcases List.mem_cons.mp hx with rfl | hx
    · exact hd3 _ hc
    · exact hd4 _ hx
  cases c with
  | term =>
    cases hc : st.conn with
    | fresh =>
      simp only [handleCmd, disconnect, hc]
      exact ⟨h.cons, h.enqLt, h.enqSorted, h.pend, ⟨ds, hd1, by simp, by simpa [hc] using hd3, hd4⟩, h.cfg, h.cnt, h.nv⟩
    | running c =>
      simp only [handleCmd, disconnect, hc]
      refine ⟨?_, h.enqLt, h.enqSorted, ?_, ⟨c :: ds, ?_, by simp, by simpa [hc] using hd3, hmem c hc⟩, h.cfg, ?_, ?_⟩
      · simpa [consumed] using h.cons
      · simpa [pendingIds, completedIds] using h.pend
      · simp [List.foldl_append, hd1, discCheck]
      · simpa [accepted, voided, failed] using h.cnt
      · intro hv; simpa [voided] using h.nv hv
  | reconf k =>
    cases hn : needsReconnect v st.cur (st.cfgs.getD k st.cur) with
    | true =>
      cases hc : st.conn with
      | fresh =>
        simp only [handleCmd, disconnect, hc, hn, ↓reduceIte]
        exact ⟨h.cons, h.enqLt, h.enqSorted, h.pend, ⟨ds, hd1, by simp, by simp, hd4⟩,
          by simp, h.cnt, h.nv⟩
      | running c =>
        simp only [handleCmd, disconnect, hc, hn, ↓reduceIte]
        refine ⟨?_, h.enqLt, h.enqSorted, ?_, ⟨c :: ds, ?_, by simp, by simp, hmem c hc⟩, by simp, ?_, ?_⟩
        · simpa [consumed] using h.cons
        · simpa [pendingIds, completedIds] using h.pend
        · simp [List.foldl_append, hd1, discCheck]
        · simpa [accepted, voided, failed] using h.cnt
        · intro hv; simpa [voided] using h.nv hv
    | false =>
      simp only [handleCmd, hn, Bool.false_eq_true, ↓reduceIte]
      obtain ⟨n1, n2, n3, n4⟩ := needsReconnect_false hn
      refine ⟨h.cons, h.enqLt, h.enqSorted, h.pend, ⟨ds, hd1, hd2, hd3, hd4⟩, ?_, h.cnt, h.nv⟩
      exact ⟨g1.trans n1.symm, g2.trans n2.symm, g3.trans n3.symm,
        fun hcf => (g4 hcf).trans (n4 hcf).symm, fun hr => by simp [hr]⟩

theorem handleCmd_blocked (v : Variants) (st : St) (c : Cmd) : (handleCmd v st c).blocked = st.blocked := by
  cases c with
  | term => simp only [handleCmd, disconnect]; split <;> rfl
  | reconf k => simp only [handleCmd, disconnect]; split <;> (try split) <;> rfl

theorem handleCmd_q (v : Variants) (st : St) (c : Cmd) : (handleCmd v st c).q = st.q := by
  cases c with
  | term => simp only [handleCmd, disconnect]; split <;> rfl
  | reconf k => simp only [handleCmd, disconnect]; split <;> (try split) <;> rfl

theorem handleCmd_mode (v : Variants) (st : St) (c : Cmd) : (handleCmd v st c).mode = st.mode := by
  cases c with
  | term => simp only [handleCmd, disconnect]; split <;> rfl
  | reconf k => simp only [handleCmd, disconnect]; split <;> (try split) <;> rfl

theorem handleCmd_ledger (v : Variants) (st : St) (c : Cmd) :
    voided (handleCmd v st c).log = voided st.log ∧ attempted (handleCmd v st c).log = attempted st.log
      ∧ accepted (handleCmd v st c).log = accepted st.log ∧ (handleCmd v st c).enq = st.enq
      ∧ (handleCmd v st c).nextId = st.nextId ∧ (handleCmd v st c).cmds = st.cmds := by
  cases c with
  | term => simp only [handleCmd, disconnect]; split <;> simp [voided, attempted, accepted]
  | reconf k =>
    simp only [handleCmd, disconnect]; split <;> (try split) <;> simp [voided, attempted, accepted]

theorem handleCmd_term (v : Variants) (st : St) (k : Nat) : (handleCmd v st (.reconf k)).term = st.term := by
  simp only [handleCmd, disconnect]; split <;> (try split) <;> rfl

theorem inv_handleCmds {v : Variants} (cs : List Cmd) : ∀ {st : St}, Inv v st → Inv v (handleCmds v st cs) := by
  induction cs with
  | nil => intro st h; exact h
  | cons c cs ih =>
    intro st h
    simp only [handleCmds]
    cases ht : st.term with
    | true => simpa using h
    | false => simpa using ih (inv_handleCmd h ht c)

theorem handleCmds_keep (v : Variants) (cs : List Cmd) : ∀ (st : St),
    (handleCmds v st cs).blocked = st.blocked ∧ (handleCmds v st cs).q = st.q
      ∧ (handleCmds v st cs).mode = st.mode
      ∧ voided (handleCmds v st cs).log = voided st.log
      ∧ attempted (handleCmds v st cs).log = attempted st.log
      ∧ accepted (handleCmds v st cs).log = accepted st.log
      ∧ (handleCmds v st cs).enq = st.enq ∧ (handleCmds v st cs).nextId = st.nextId
      ∧ (handleCmds v st cs).cmds = st.cmds := by
  induction cs with
  | nil => intro st; simp [handleCmds]
  | cons c cs ih =>
    intro st
    simp only [handleCmds]
    cases ht : st.term with
    | true => simp
    | false =>
      have := ih (handleCmd v st c)
      have l := handleCmd_ledger v st c
      simp only [Bool.false_eq_true, ↓reduceIte]
      rw [this.1, this.2.1, this.2.2.1, this.2.2.2.1, this.2.2.2.2.1, this.2.2.2.2.2.1, this.2.2.2.2.2.2.1,
        this.2.2.2.2.2.2.2.1, this.2.2.2.2.2.2.2.2, handleCmd_blocked, handleCmd_q, handleCmd_mode, l.1, l.2.1,
        l.2.2.1, l.2.2.2.1, l.2.2.2.2.1, l.2.2.2.2.2]
      simp

theorem handleCmds_noterm (v : Variants) (cs : List Cmd) : ∀ (st : St), st.term = false →
    (∀ c ∈ cs, c ≠ .term) → (handleCmds v st cs).term = false := by
  induction cs with
  | nil => intro st h _; simpa [handleCmds] using h
  | cons c cs ih =>
    intro st h hc
    simp only [handleCmds, h, Bool.false_eq_true, ↓reduceIte]
    apply ih
    · cases c with
      | term => exact absurd rfl (hc _ (List.mem_cons_self))
      | reconf k => rw [handleCmd_term]; exact h
    · intro c' hc'; exact hc c' (List.mem_cons_of_mem _ hc')

theorem inv_voidAll {v : Variants} {st : St} (h : Inv v st) (hv : v.voidFix = false) : Inv v (voidAll st) := by
  obtain ⟨ds, hd1, hd2, hd3, hd4⟩ := h.disc
  have e : voidAll st = { st with log := st.log ++ voids st.q, okCnt := st.okCnt + st.q.length, q := [] } := rfl
  rw [e]
  refine ⟨?_, h.enqLt, h.enqSorted, ?_, ⟨ds, ?_, hd2, hd3, hd4⟩, h.cfg, ?_, ?_⟩
  · simpa using h.cons
  · simpa using h.pend
  · simp [List.foldl_append, hd1]
  · have := h.cnt; simp; omega
  · intro hv'; simp [hv] at hv'

theorem inv_openConn {v : Variants} {st : St} (h : Inv v st) : Inv v (openConn st) := by
  obtain ⟨ds, hd1, hd2, hd3, hd4⟩ := h.disc
  simp only [openConn]
  refine ⟨?_, h.enqLt, h.enqSorted, ?_, ⟨ds, ?_, ?_, ?_, ?_⟩, h.cfg, ?_, ?_⟩
  · simpa [consumed] using h.cons
  · simpa [pendingIds, completedIds] using h.pend
  · simp [List.foldl_append, hd1, discCheck]
  · intro _ c hc; simp only [ConnSt.running.injEq] at hc; subst hc
    intro hm; exact absurd (hd4 _ hm) (Nat.lt_irrefl _)
  · intro c hc; simp only [ConnSt.running.injEq] at hc; show c < st.nextConn + 1; omega
  · intro c hc; have := hd4 c hc; show c < st.nextConn + 1; omega
  · simpa [accepted, voided, failed] using h.cnt
  · intro hv; simpa [voided] using h.nv hv

theorem inv_publishQ {v : Variants} (phase c : Nat) (ms : List QMsg) : ∀ {st : St},
    Inv v { st with q := ms } → st.conn = .running c → st.term = false → st.blocked = none →
    Inv v (publishQ phase c st ms) := by
  induction ms with
  | nil => intro st h _ _ _; simpa [publishQ] using h
  | cons m ms ih =>
    intro st h hc ht hb
    obtain ⟨ds, hd1, hd2, hd3, hd4⟩ := h.disc
    have hcd : c ∉ ds := hd2 ht c hc
    simp only [publishQ]
    cases hm : st.mode with
    | accept =>
      simp only
      refine ih ?_ hc ht hb
      refine ⟨?_, h.enqLt, h.enqSorted, ?_, ⟨ds, ?_, hd2, hd3, hd4⟩, h.cfg, ?_, ?_⟩
      · simpa [consumed] using h.cons
      · simpa [pendingIds, completedIds] using h.pend
      · simp [List.foldl_append, hd1, discCheck, hcd]
      · have := h.cnt; simp [accepted, voided, failed] at this ⊢; omega
      · intro hv; simpa [voided] using h.nv hv
    | fail =>
      simp only
      refine ih ?_ hc ht hb
      refine ⟨?_, h.enqLt, h.enqSorted, ?_, ⟨ds, ?_, hd2, hd3, hd4⟩, h.cfg, ?_, ?_⟩
      · simpa [consumed] using h.cons
      · simpa [pendingIds, completedIds] using h.pend
      · simp [List.foldl_append, hd1, discCheck, hcd]
      · have := h.cnt; simp [accepted, voided, failed] at this ⊢; omega
      · intro hv; simpa [voided] using h.nv hv
    | slow d =>
      simp only
      refine ⟨?_, h.enqLt, h.enqSorted, ?_, ⟨ds, ?_, hd2, hd3, hd4⟩, h.cfg, ?_, ?_⟩
      · simpa [consumed] using h.cons
      · have := h.pend; simp [hb, pendingIds, completedIds] at this ⊢; exact this
      · simp [List.foldl_append, hd1, discCheck, hcd]
      · simpa [accepted, voided, failed] using h.cnt
      · intro hv; simpa [voided] using h.nv hv

theorem voidAll_keep (st : St) : (voidAll st).term = st.term ∧ (voidAll st).blocked = st.blocked
    ∧ (voidAll st).conn = st.conn ∧ (voidAll st).mode = st.mode := ⟨rfl, rfl, rfl, rfl⟩
theorem openConn_keep (st : St) : (openConn st).term = st.term ∧ (openConn st).blocked = st.blocked
    ∧ (openConn st).conn = .running st.nextConn ∧ (openConn st).q = st.q ∧ (openConn st).mode = st.mode :=
  ⟨rfl, rfl, rfl, rfl, rfl⟩

theorem inv_drain {v : Variants} {st : St} (phase : Nat) (h : Inv v st) (hb : st.blocked = none) :
    Inv v (drain v phase st) := by
  have h0 : Inv v { st with cmds := [] } := ⟨h.cons, h.enqLt, h.enqSorted, h.pend, h.disc, h.cfg, h.cnt, h.nv⟩
  have h1 := inv_handleCmds st.cmds h0
  have k1 := handleCmds_keep v st.cmds { st with cmds := [] }
  simp only [drain]
  generalize handleCmds v { st with cmds := [] } st.cmds = st1 at h1 k1 ⊢
  cases ht : st1.term with
  | true => simpa using h1
  | false =>
    simp only [Bool.false_eq_true, ↓reduceIte]
    have hb1 : st1.blocked = none := by rw [k1.1]; exact hb
    cases hc : st1.conn with
    | fresh =>
      simp only
      cases hv : v.voidFix with
      | true =>
        simp only [↓reduceIte, (openConn_keep st1).2.2.1]
        exact inv_publishQ _ _ _ (inv_openConn h1) (openConn_keep st1).2.2.1 ht hb1
      | false =>
        simp only [Bool.false_eq_true, ↓reduceIte, (openConn_keep (voidAll st1)).2.2.1]
        exact inv_publishQ _ _ _ (inv_openConn (inv_voidAll h1 hv)) (openConn_keep _).2.2.1 ht hb1
    | running c =>
      simp only [hc]
      exact inv_publishQ _ _ _ h1 hc ht hb1

theorem inv_pump {v : Variants} (phase : Nat) (evs : List Ev) : ∀ {st : St} (e : EvLoop),
    Inv v st → Inv v (pump phase st e evs) := by
  induction evs with
  | nil => intro st e h; exact ⟨h.cons, h.enqLt, h.enqSorted, h.pend, h.disc, h.cfg, h.cnt, h.nv⟩
  | cons x evs ih =>
    intro st e h
    obtain ⟨ds, hd1, hd2, hd3, hd4⟩ := h.disc
    have hp : Inv v { st with log := st.log ++ [Obs.polled e.conn x] } := by
      refine ⟨?_, h.enqLt, h.enqSorted, ?_, ⟨ds, ?_, hd2, hd3, hd4⟩, h.cfg, ?_, ?_⟩
      · simpa [consumed] using h.cons
      · simpa [pendingIds, completedIds] using h.pend
      · simp [List.foldl_append, hd1, discCheck]
      · simpa [accepted, voided, failed] using h.cnt
      · intro hv; simpa [voided] using h.nv hv
    have he : ∀ (s : St) (u : Bool), Inv v s → Inv v { s with up := u, log := s.log ++ [Obs.enter e.conn] } := by
      intro s u hs
      obtain ⟨ds, hd1, hd2, hd3, hd4⟩ := hs.disc
      refine ⟨?_, hs.enqLt, hs.enqSorted, ?_, ⟨ds, ?_, hd2, hd3, hd4⟩, hs.cfg, ?_, ?_⟩
      · simpa [consumed] using hs.cons
      · simpa [pendingIds, completedIds] using hs.pend
      · simp [List.foldl_append, hd1, discCheck]
      · simpa [accepted, voided, failed] using hs.cnt
      · intro hv; simpa [voided] using hs.nv hv
    cases x with
    | accept => simp only [pump]; exact ih _ (he _ true hp)
    | other => simp only [pump]; exact ih _ (he _ _ hp)
    | refuse =>
      simp only [pump]
      exact ⟨hp.cons, hp.enqLt, hp.enqSorted, hp.pend, hp.disc, hp.cfg, hp.cnt, hp.nv⟩
    | drop =>
      simp only [pump]
      exact ⟨hp.cons, hp.enqLt, hp.enqSorted, hp.pend, hp.disc, hp.cfg, hp.cnt, hp.nv⟩

theorem pump_keep (phase : Nat) (evs : List Ev) : ∀ (st : St) (e : EvLoop),
    (pump phase st e evs).blocked = st.blocked ∧ (pump phase st e evs).term = st.term
      ∧ (pump phase st e evs).mode = st.mode ∧ (pump phase st e evs).q = st.q
      ∧ (pump phase st e evs).cmds = st.cmds
      ∧ attempted (pump phase st e evs).log = attempted st.log
      ∧ accepted (pump phase st e evs).log = accepted st.log
      ∧ (pump phase st e evs).enq = st.enq ∧ (pump phase st e evs).nextId = st.nextId := by
  induction evs with
  | nil => intro st e; simp [pump]
  | cons x evs ih =>
    intro st e
    cases x <;> simp [pump, ih, attempted, accepted]

theorem inv_brokerEvent {v : Variants} {st : St} (h : Inv v st) (x : Ev) : Inv v (brokerEvent st x) := by
  simp only [brokerEvent]
  split
  · exact h
  · split
    · exact ⟨h.cons, h.enqLt, h.enqSorted, h.pend, h.disc, h.cfg, h.cnt, h.nv⟩
    · exact inv_pump _ _ _ h

theorem inv_fireE {v : Variants} {st : St} (h : Inv v st) : Inv v (fireE st) := by
  simp only [fireE]
  split
  · split
    · split
      · apply inv_pump
        obtain ⟨ds, hd1, hd2, hd3, hd4⟩ := h.disc
        refine ⟨?_, h.enqLt, h.enqSorted, ?_, ⟨ds, ?_, hd2, hd3, hd4⟩, h.cfg, ?_, ?_⟩
        · simpa [consumed] using h.cons
        · simpa [pendingIds, completedIds] using h.pend
        · simp [List.foldl_append, hd1, discCheck]
        · simpa [accepted, voided, failed] using h.cnt
        · intro hv; simpa [voided] using h.nv hv
      · exact h
    · exact h
  · exact h

theorem fireE_keep (st : St) : (fireE st).blocked = st.blocked ∧ (fireE st).term = st.term
    ∧ (fireE st).mode = st.mode ∧ (fireE st).q = st.q ∧ (fireE st).cmds = st.cmds
    ∧ attempted (fireE st).log = attempted st.log ∧ accepted (fireE st).log = accepted st.log
    ∧ (fireE st).enq = st.enq ∧ (fireE st).nextId = st.nextId := by
  simp only [fireE]
  split
  · split
    · split
      · simp [pump_keep, attempted, accepted]
      · simp
    · simp
  · simp

theorem inv_fireT {v : Variants} {st : St} (h : Inv v st) (b : Blocked) (hb : st.blocked = some b) :
    Inv v (fireT v st b) := by
  obtain ⟨ds, hd1, hd2, hd3, hd4⟩ := h.disc
  simp only [fireT]
  apply inv_drain
  · split
    · refine ⟨?_, h.enqLt, h.enqSorted, ?_, ⟨ds, ?_, hd2, hd3, hd4⟩, h.cfg, ?_, ?_⟩
      · simpa [consumed] using h.cons
      · have := h.pend; simp [hb, pendingIds, completedIds] at this ⊢; exact this
      · simp [List.foldl_append, hd1, discCheck]
      · have := h.cnt; simp [accepted, voided, failed] at this ⊢; omega
      · intro hv; simpa [voided] using h.nv hv
    · refine ⟨?_, h.enqLt, h.enqSorted, ?_, ⟨ds, ?_, hd2, hd3, hd4⟩, h.cfg, ?_, ?_⟩
      · simpa [consumed] using h.cons
      · have := h.pend; simp [hb, pendingIds, completedIds] at this ⊢; exact this
      · simp [List.foldl_append, hd1, discCheck]
      · have := h.cnt; simp [accepted, voided, failed] at this ⊢; omega
      · intro hv; simpa [voided] using h.nv hv
  · split <;> rfl

theorem tDue_blocked {st : St} {b : Blocked} (h : tDue st = some b) : st.blocked = some b := by
  simp only [tDue] at h
  split at h
  · split at h
    · simp_all
    · simp at h
  · simp at h

theorem inv_clock {v : Variants} {st : St} (h : Inv v st) (n : Nat) : Inv v { st with clock := n } :=
  ⟨h.cons, h.enqLt, h.enqSorted, h.pend, h.disc, h.cfg, h.cnt, h.nv⟩

theorem inv_tick {v : Variants} {st : St} (h : Inv v st) : Inv v (tick v st) := by
  simp only [tick]
  have h' := inv_clock h (st.clock + 1)
  generalize ({ st with clock := st.clock + 1 } : St) = s at h' ⊢
  split
  · rename_i b ph hb _
    have hbb := tDue_blocked hb
    split
    · exact inv_fireT (inv_fireE h') b (by rw [(fireE_keep s).1]; exact hbb)
    · exact inv_fireE (inv_fireT h' b hbb)
  · rename_i b hb _
    exact inv_fireT h' b (tDue_blocked hb)
  · exact inv_fireE h'

theorem inv_enqueue {v : Variants} {st : St} (h : Inv v st) (i : Inp) : Inv v (enqueue st i) := by
  cases i with
  | msg t =>
    simp only [enqueue]
    split
    · exact ⟨h.cons, fun i hi => Nat.lt_succ_of_lt (h.enqLt i hi), h.enqSorted, h.pend, h.disc, h.cfg, h.cnt, h.nv⟩
    · refine ⟨?_, ?_, ?_, h.pend, h.disc, h.cfg, h.cnt, h.nv⟩
      · simp [← h.cons, List.append_assoc]
      · intro i hi
        rcases List.mem_append.mp hi with hi | hi
        · exact Nat.lt_succ_of_lt (h.enqLt i hi)
        · simp at hi; subst hi; exact Nat.lt_succ_self _
      · rw [List.pairwise_append]
        refine ⟨h.enqSorted, by simp, ?_⟩
        intro a ha b hb
        simp at hb; subst hb; exact h.enqLt a ha
  | cmd c =>
    simp only [enqueue]
    split
    · exact h
    · exact ⟨h.cons, h.enqLt, h.enqSorted, h.pend, h.disc, h.cfg, h.cnt, h.nv⟩

theorem inv_enqueues {v : Variants} (is : List Inp) : ∀ {st : St}, Inv v st → Inv v (is.foldl enqueue st) := by
  induction is with
  | nil => intro st h; exact h
  | cons i is ih => intro st h; exact ih (inv_enqueue h i)

theorem inv_act {v : Variants} {st : St} (h : Inv v st) (s : Step) : Inv v (act v st s) := by
  simp only [act]
  split
  · split
    · exact inv_enqueues _ h
    · exact h
  · split
    · exact inv_enqueues _ h
    · exact inv_brokerEvent h _
    · exact ⟨h.cons, h.enqLt, h.enqSorted, h.pend, h.disc, h.cfg, h.cnt, h.nv⟩
    · exact inv_tick h

theorem inv_settle {v : Variants} {st : St} (h : Inv v st) : Inv v (settle v st) := by
  simp only [settle]
  split
  · exact h
  · rename_i hc
    simp only [Bool.or_eq_true, not_or, Bool.not_eq_true, Option.isSome_eq_false_iff, Option.isNone_iff_eq_none] at hc
    exact inv_drain _ h hc.2

theorem inv_step {v : Variants} {st : St} (h : Inv v st) (s : Step) : Inv v (step v st s) := by
  have := inv_settle (inv_act h s)
  simp only [step]
  exact ⟨this.cons, this.enqLt, this.enqSorted, this.pend, this.disc, this.cfg, this.cnt, this.nv⟩

theorem inv_steps {v : Variants} (steps : List Step) : ∀ {st : St}, Inv v st → Inv v (steps.foldl (step v) st) := by
  induction steps with
  | nil => intro st h; exact h
  | cons s ss ih => intro st h; exact ih (inv_step h s)

theorem run_inv (v : Variants) (cfgs : List Cfg) (steps : List Step) : Inv v (run v cfgs steps) :=
  inv_steps steps (inv_init v cfgs)

/-! ### consequences -/

theorem attempted_sorted {v : Variants} {st : St} (h : Inv v st) : (attempted st.log).Pairwise (· < ·) := by
  have hs : (consumed st.log).Sublist st.enq := by
    rw [← h.cons]; exact List.sublist_append_left _ _
  exact (h.enqSorted.sublist hs).sublist (attempted_sublist _)

theorem consumed_mem {l : List Obs} {i : Nat} (h : i ∈ consumed l) : i ∈ attempted l ∨ i ∈ voided l := by
  induction l with
  | nil => simp [consumed] at h
  | cons x l ih =>
    cases x <;> simp only [consumed, attempted, voided, List.mem_cons] at h ⊢
    · rcases h with h | h
      · exact Or.inl (Or.inl h)
      · rcases ih h with h | h
        · exact Or.inl (Or.inr h)
        · exact Or.inr h
    all_goals first
      | exact ih h
      | (rcases h with h | h
         · exact Or.inr (Or.inl h)
         · rcases ih h with h | h
           · exact Or.inl h
           · exact Or.inr (Or.inr h))

theorem accounted {v : Variants} {st : St} (h : Inv v st) :
    ∀ i ∈ st.enq, i ∈ attempted st.log ∨ i ∈ voided st.log ∨ i ∈ st.q.map (·.id) := by
  intro i hi
  rw [← h.cons] at hi
  rcases List.mem_append.mp hi with hi | hi
  · rcases consumed_mem hi with h | h
    · exact Or.inl h
    · exact Or.inr (Or.inl h)
  · exact Or.inr (Or.inr hi)

theorem run_no_void (v : Variants) (hv : v.voidFix = true) (cfgs : List Cfg) (steps : List Step) :
    voided (run v cfgs steps).log = [] := (run_inv v cfgs steps).nv hv

/-! ### the loss window -/

theorem publishQ_voided (phase c : Nat) (ms : List QMsg) : ∀ (st : St),
    voided (publishQ phase c st ms).log = voided st.log := by
  induction ms with
  | nil => intro st; simp [publishQ]
  | cons m ms ih =>
    intro st
    simp only [publishQ]
    split <;> simp [ih, voided]

theorem drain_voided (v : Variants) (phase : Nat) (st : St) :
    voided (drain v phase st).log = voided st.log ++
      (if (handleCmds v { st with cmds := [] } st.cmds).term then [] else
        match (handleCmds v { st with cmds := [] } st.cmds).conn with
        | .fresh => if v.voidFix then [] else st.q.map (·.id)
        | .running _ => []) := by
  have k1 := handleCmds_keep v st.cmds { st with cmds := [] }
  simp only [drain]
  generalize handleCmds v { st with cmds := [] } st.cmds = st1 at k1 ⊢
  cases ht : st1.term with
  | true => simp [k1.2.2.2.1]
  | false =>
    cases hc : st1.conn with
    | fresh =>
      cases hv : v.voidFix with
      | true => simp [openConn, publishQ_voided, voided, k1.2.2.2.1]
      | false =>
        have e : (voidAll st1).log = st1.log ++ voids st1.q := rfl
        simp [openConn, e, publishQ_voided, voided, k1.2.2.2.1, k1.2.1]
    | running c => simp [hc, publishQ_voided, k1.2.2.2.1]

/-! ### the broker accepts everything, nobody terminates -/

structure HInv (st : St) : Prop where
  mode : st.mode = .accept
  blocked : st.blocked = none
  term : st.term = false
  acc : accepted st.log = attempted st.log
  enq : st.enq = List.range st.nextId
  cmds : ∀ c ∈ st.cmds, c ≠ .term

theorem h_init (cfgs : List Cfg) : HInv (init cfgs) ∧ (init cfgs).q = [] := by
  refine ⟨⟨rfl, rfl, rfl, rfl, rfl, ?_⟩, rfl⟩
  intro c hc; simp [init] at hc

theorem h_enqueue {st : St} (h : HInv st) (i : Inp) (hi : i ≠ .cmd .term) : HInv (enqueue st i) := by
  cases i with
  | msg t =>
    simp only [enqueue, h.term, Bool.false_eq_true, ↓reduceIte]
    exact ⟨h.mode, h.blocked, rfl, h.acc, by simp [h.enq, List.range_succ], h.cmds⟩
  | cmd c =>
    simp only [enqueue, h.term, Bool.false_eq_true, ↓reduceIte]
    refine ⟨h.mode, h.blocked, rfl, h.acc, h.enq, ?_⟩
    intro c' hc'
    rcases List.mem_append.mp hc' with hc' | hc'
    · exact h.cmds c' hc'
    · simp at hc'; subst hc'; intro e; exact hi (by rw [e])

theorem h_enqueues (is : List Inp) : ∀ {st : St}, HInv st → (∀ i ∈ is, i ≠ .cmd .term) →
    HInv (is.foldl enqueue st) := by
  induction is with
  | nil => intro st h _; exact h
  | cons i is ih =>
    intro st h hi
    exact ih (h_enqueue h i (hi i List.mem_cons_self)) (fun j hj => hi j (List.mem_cons_of_mem _ hj))

theorem h_pump {st : St} (h : HInv st) (phase : Nat) (e : EvLoop) (evs : List Ev) :
    HInv (pump phase st e evs) := by
  have k := pump_keep phase evs st e
  exact ⟨k.2.2.1.trans h.mode, k.1.trans h.blocked, k.2.1.trans h.term,
    by rw [k.2.2.2.2.2.2.1, k.2.2.2.2.2.1, h.acc], by rw [k.2.2.2.2.2.2.2.1, k.2.2.2.2.2.2.2.2, h.enq],
    by rw [k.2.2.2.2.1]; exact h.cmds⟩

theorem h_fireE {st : St} (h : HInv st) : HInv (fireE st) := by
  have k := fireE_keep st
  exact ⟨k.2.2.1.trans h.mode, k.1.trans h.blocked, k.2.1.trans h.term,
    by rw [k.2.2.2.2.2.2.1, k.2.2.2.2.2.1, h.acc], by rw [k.2.2.2.2.2.2.2.1, k.2.2.2.2.2.2.2.2, h.enq],
    by rw [k.2.2.2.2.1]; exact h.cmds⟩

theorem h_brokerEvent {st : St} (h : HInv st) (x : Ev) : HInv (brokerEvent st x) := by
  simp only [brokerEvent]
  split
  · exact h
  · split
    · exact ⟨h.mode, h.blocked, h.term, h.acc, h.enq, h.cmds⟩
    · exact h_pump h _ _ _

theorem h_tick {v : Variants} {st : St} (h : HInv st) : HInv (tick v st) := by
  have : tDue { st with clock := st.clock + 1 } = none := by simp [tDue, h.blocked]
  simp only [tick, this]
  exact h_fireE ⟨h.mode, h.blocked, h.term, h.acc, h.enq, h.cmds⟩

theorem publishQ_accept (phase c : Nat) (ms : List QMsg) : ∀ (st : St), st.mode = .accept →
    (publishQ phase c st ms).q = [] ∧ (publishQ phase c st ms).blocked = st.blocked
      ∧ (publishQ phase c st ms).term = st.term ∧ (publishQ phase c st ms).mode = .accept
      ∧ (publishQ phase c st ms).cmds = st.cmds ∧ (publishQ phase c st ms).enq = st.enq
      ∧ (publishQ phase c st ms).nextId = st.nextId
      ∧ accepted (publishQ phase c st ms).log = accepted st.log ++ ms.map (·.id)
      ∧ attempted (publishQ phase c st ms).log = attempted st.log ++ ms.map (·.id) := by
  induction ms with
  | nil => intro st h; simp [publishQ, h]
  | cons m ms ih =>
    intro st h
    simp only [publishQ, h]
    have := ih { st with log := st.log ++ [Obs.publish c m st.cur.qos PubOut.ok], okCnt := st.okCnt + 1 } h
    simpa [accepted, attempted, h] using this

theorem h_drain {v : Variants} {st : St} (phase : Nat) (h : HInv st) :
    HInv (drain v phase st) ∧ (drain v phase st).q = [] := by
  have k1 := handleCmds_keep v st.cmds { st with cmds := [] }
  have t1 := handleCmds_noterm v st.cmds { st with cmds := [] } h.term h.cmds
  simp only [drain]
  generalize handleCmds v { st with cmds := [] } st.cmds = st1 at k1 t1 ⊢
  simp only [t1, Bool.false_eq_true, ↓reduceIte]
  have fin : ∀ (s : St) (c : Nat), s.mode = .accept → s.blocked = none → s.term = false →
      accepted s.log = attempted s.log → s.enq = List.range s.nextId → s.cmds = [] →
      HInv (publishQ phase c s s.q) ∧ (publishQ phase c s s.q).q = [] := by
    intro s c hm hb ht ha he hcm
    have p := publishQ_accept phase c s.q s hm
    refine ⟨⟨p.2.2.2.1, p.2.1.trans hb, p.2.2.1.trans ht, by rw [p.2.2.2.2.2.2.2.1, p.2.2.2.2.2.2.2.2, ha],
      by rw [p.2.2.2.2.2.1, p.2.2.2.2.2.2.1, he], by rw [p.2.2.2.2.1, hcm]; simp⟩, p.1⟩
  have hm1 : st1.mode = .accept := k1.2.2.1.trans h.mode
  have hb1 : st1.blocked = none := k1.1.trans h.blocked
  have ha1 : accepted st1.log = attempted st1.log := by rw [k1.2.2.2.2.2.1, k1.2.2.2.2.1]; exact h.acc
  have he1 : st1.enq = List.range st1.nextId := by rw [k1.2.2.2.2.2.2.1, k1.2.2.2.2.2.2.2.1]; exact h.enq
  have hc1 : st1.cmds = [] := k1.2.2.2.2.2.2.2.2
  cases hc : st1.conn with
  | fresh =>
    cases hv : v.voidFix with
    | true =>
      simp only [↓reduceIte, (openConn_keep st1).2.2.1]
      exact fin (openConn st1) _ hm1 hb1 t1 (by simpa [openConn, accepted, attempted] using ha1) he1 hc1
    | false =>
      simp only [Bool.false_eq_true, ↓reduceIte, (openConn_keep (voidAll st1)).2.2.1]
      refine fin (openConn (voidAll st1)) _ hm1 hb1 t1 ?_ he1 hc1
      have e : (voidAll st1).log = st1.log ++ voids st1.q := rfl
      simp [openConn, e, accepted, attempted, ha1]
  | running c =>
    simp only [hc]
    exact fin st1 c hm1 hb1 t1 ha1 he1 hc1

theorem h_act {v : Variants} {st : St} (h : HInv st) (s : Step) (hs : healthy s = true) : HInv (act v st s) := by
  simp only [act, h.term, Bool.false_eq_true, ↓reduceIte]
  cases s with
  | burst is =>
    apply h_enqueues is h
    intro i hi e
    simp only [healthy, List.all_eq_true] at hs
    have := hs i hi
    simp [e] at this
  | ev x => exact h_brokerEvent h x
  | mode m =>
    cases m with
    | accept => exact ⟨rfl, h.blocked, rfl, h.acc, h.enq, h.cmds⟩
    | fail => simp [healthy] at hs
    | slow d => simp [healthy] at hs
  | tick => exact h_tick h

theorem h_step {v : Variants} {st : St} (h : HInv st) (s : Step) (hs : healthy s = true) :
    HInv (step v st s) ∧ (step v st s).q = [] := by
  have ha := h_act (v := v) h s hs
  have hd := h_drain (v := v) (act v st s).stepNo ha
  simp only [step, settle, ha.term, ha.blocked, Option.isSome_none, Bool.or_self, Bool.false_eq_true, ↓reduceIte]
  exact ⟨⟨hd.1.mode, hd.1.blocked, hd.1.term, hd.1.acc, hd.1.enq, hd.1.cmds⟩, hd.2⟩

theorem h_steps {v : Variants} (steps : List Step) : ∀ {st : St}, HInv st → st.q = [] →
    steps.all healthy = true →
    HInv (steps.foldl (step v) st) ∧ (steps.foldl (step v) st).q = [] := by
  induction steps with
  | nil => intro st h hq _; exact ⟨h, hq⟩
  | cons s ss ih =>
    intro st h _ hs
    simp only [List.all_cons, Bool.and_eq_true] at hs
    have := h_step (v := v) h s hs.1
    exact ih this.1 this.2 hs.2

theorem healthy_exact (v : Variants) (cfgs : List Cfg) (steps : List Step) (h : steps.all healthy = true) :
    accepted (run v cfgs steps).log = attempted (run v cfgs steps).log
      ∧ consumed (run v cfgs steps).log = List.range (run v cfgs steps).nextId := by
  have hh := h_steps (v := v) steps (h_init cfgs).1 (h_init cfgs).2 h
  have hi := run_inv v cfgs steps
  refine ⟨hh.1.acc, ?_⟩
  have := hi.cons
  rw [show (run v cfgs steps).q = [] from hh.2] at this
  simp only [List.map_nil, List.append_nil] at this
  exact this.trans hh.1.enq

/-! ### termination -/

theorem enqueue_term (st : St) (i : Inp) (h : st.term = true) :
    (enqueue st i).log = st.log ∧ (enqueue st i).q = st.q ∧ (enqueue st i).term = true := by
  cases i <;> simp [enqueue, h]

theorem enqueues_term (is : List Inp) : ∀ (st : St), st.term = true →
    (is.foldl enqueue st).log = st.log ∧ (is.foldl enqueue st).q = st.q ∧ (is.foldl enqueue st).term = true := by
  induction is with
  | nil => intro st h; exact ⟨rfl, rfl, h⟩
  | cons i is ih =>
    intro st h
    have e := enqueue_term st i h
    have := ih (enqueue st i) e.2.2
    exact ⟨this.1.trans e.1, this.2.1.trans e.2.1, this.2.2⟩

theorem step_term (v : Variants) (st : St) (s : Step) (h : st.term = true) :
    (step v st s).log = st.log ∧ (step v st s).q = st.q ∧ (step v st s).term = true := by
  cases s with
  | burst is =>
    have e := enqueues_term is st h
    simp [step, act, settle, h, e]
  | ev x => simp [step, act, settle, h]
  | mode m => simp [step, act, settle, h]
  | tick => simp [step, act, settle, h]

theorem term_final (v : Variants) (steps : List Step) : ∀ (st : St), st.term = true →
    (steps.foldl (step v) st).log = st.log ∧ (steps.foldl (step v) st).q = st.q
      ∧ (steps.foldl (step v) st).term = true := by
  induction steps with
  | nil => intro st h; exact ⟨rfl, rfl, h⟩
  | cons s ss ih =>
    intro st h
    have e := step_term v st s h
    have := ih (step v st s) e.2.2
    exact ⟨this.1.trans e.1, this.2.1.trans e.2.1, this.2.2⟩

end Rotonda.MqttConn
