import RotondaModel.Model.ConnMetrics
/-! Helper lemmas for the unit / gate metrics model (ConnMetrics): what one reporter call does to each exported
value, counts over effect lists, the invariants of the connection layer. -/
namespace Rotonda.ConnMetrics

/-! ### Classification of reporter calls -/

def Eff.isListening : Eff → Bool | .listening => true | _ => false
def Eff.isAccepted : Eff → Bool | .accepted => true | _ => false
def Eff.isLost : Eff → Bool | .lost _ => true | _ => false
def Eff.isLostOf (r : Rid) : Eff → Bool | .lost r' => r' == r | _ => false
def Eff.isUpdate : Eff → Bool | .gateUpdate _ _ => true | _ => false
def Eff.isDropped : Eff → Bool | .gateUpdate false _ => true | _ => false
def Eff.bulk : Eff → Option Nat | .gateUpdate _ b => b | _ => none

/-- The per-router exported values. -/
inductive Field where
  | recv (t : MType) | processed | invalid | ioErrors
  deriving DecidableEq, Repr

def Field.get : Field → RouterMetrics → Nat
  | .recv t, x => x.recv t
  | .processed, x => x.processed
  | .invalid, x => x.invalid
  | .ioErrors, x => x.ioErrors

/-- The reporter call that adds one to field `f` of router `r`. -/
def Field.hit (f : Field) (r : Rid) : Eff → Bool
  | .received r' t' => (match f with | .recv t => r' == r && t' == t | _ => false)
  | .processed r' => (match f with | .processed => r' == r | _ => false)
  | .invalid r' => (match f with | .invalid => r' == r | _ => false)
  | .ioError r' => (match f with | .ioErrors => r' == r | _ => false)
  | _ => false

def b2n (b : Bool) : Nat := if b then 1 else 0
@[simp] theorem b2n_true : b2n true = 1 := rfl
@[simp] theorem b2n_false : b2n false = 0 := rfl

/-! ### One call -/

theorem apply_bound (m : Metrics) (e : Eff) : (m.apply e).bound = m.bound + b2n e.isListening := by
  cases e <;> simp [Metrics.apply, Metrics.touch, Eff.isListening, b2n]
theorem apply_accepted (m : Metrics) (e : Eff) : (m.apply e).accepted = m.accepted + b2n e.isAccepted := by
  cases e <;> simp [Metrics.apply, Metrics.touch, Eff.isAccepted, b2n]
theorem apply_lost (m : Metrics) (e : Eff) : (m.apply e).lost = m.lost + b2n e.isLost := by
  cases e <;> simp [Metrics.apply, Metrics.touch, Eff.isLost, b2n]
theorem apply_numUpdates (m : Metrics) (e : Eff) : (m.apply e).gate.numUpdates = m.gate.numUpdates + b2n e.isUpdate := by
  cases e <;> simp [Metrics.apply, Metrics.touch, Eff.isUpdate, b2n, GateMetrics.update]
theorem apply_dropped (m : Metrics) (e : Eff) : (m.apply e).gate.dropped = m.gate.dropped + b2n e.isDropped := by
  cases e with
  | gateUpdate s b => cases s <;> simp [Metrics.apply, Eff.isDropped, b2n, GateMetrics.update]
  | _ => simp [Metrics.apply, Metrics.touch, Eff.isDropped, b2n]
theorem apply_setSize (m : Metrics) (e : Eff) : (m.apply e).gate.setSize = (e.bulk).getD m.gate.setSize := by
  cases e with
  | gateUpdate s b => cases b <;> simp [Metrics.apply, Eff.bulk, GateMetrics.update]
  | _ => simp [Metrics.apply, Metrics.touch, Eff.bulk]
theorem apply_updated (m : Metrics) (e : Eff) : (m.apply e).gate.updated = (m.gate.updated || e.isUpdate) := by
  cases e <;> simp [Metrics.apply, Metrics.touch, Eff.isUpdate, GateMetrics.update]

theorem val_touch (m : Metrics) (r r' : Rid) (g : RouterMetrics → RouterMetrics) (f : RouterMetrics → Nat) :
    (m.touch r' g).val r f = if r = r' then f (g ((m.routers r').getD RouterMetrics.zero)) else m.val r f := by
  by_cases h : r = r' <;> simp [Metrics.touch, Metrics.val, h]

theorem get_zero (f : Field) : f.get RouterMetrics.zero = 0 := by cases f <;> rfl

theorem val_eq_get_getD (m : Metrics) (r : Rid) (f : Field) :
    m.val r f.get = f.get ((m.routers r).getD RouterMetrics.zero) := by
  unfold Metrics.val
  cases h : m.routers r <;> simp [get_zero]

/-- One reporter call: `lost r` makes every value of `r` vanish, the matching call adds one, nothing else moves. -/
theorem val_apply (m : Metrics) (e : Eff) (r : Rid) (f : Field) :
    (m.apply e).val r f.get = if e.isLostOf r then 0 else m.val r f.get + b2n (f.hit r e) := by
  cases e with
  | listening => simp [Metrics.apply, Metrics.val, Eff.isLostOf, Field.hit, b2n]
  | accepted => simp [Metrics.apply, Metrics.val, Eff.isLostOf, Field.hit, b2n]
  | gateUpdate s b => simp [Metrics.apply, Metrics.val, Eff.isLostOf, Field.hit, b2n]
  | lost r' =>
    by_cases h : r' = r
    · subst h; simp [Metrics.apply, Metrics.val, Eff.isLostOf]
    · have h' : ¬ r = r' := fun x => h x.symm
      simp [Metrics.apply, Metrics.val, Eff.isLostOf, h, h', Field.hit, b2n]
  | received r' t' =>
    simp only [Metrics.apply, val_touch, Eff.isLostOf, Bool.false_eq_true, if_false]
    by_cases h : r = r'
    · subst h
      rw [if_pos rfl, val_eq_get_getD]
      cases f with
      | recv t =>
        by_cases ht : t' = t
        · subst ht; simp [Field.get, Field.hit, bumpRecv]
        · have ht' : ¬ t = t' := fun x => ht x.symm
          have hb : (t' == t) = false := by simpa using ht
          simp [Field.get, Field.hit, bumpRecv, ht', hb]
      | _ => simp [Field.get, Field.hit, bumpRecv, b2n]
    · have hb : (r' == r) = false := by simpa using (fun x => h x.symm : ¬ r' = r)
      cases f <;> simp [h, hb, Field.hit]
  | processed r' =>
    simp only [Metrics.apply, val_touch, Eff.isLostOf, Bool.false_eq_true, if_false]
    by_cases h : r = r'
    · subst h; rw [if_pos rfl, val_eq_get_getD]; cases f <;> simp [Field.get, Field.hit, b2n]
    · have hb : (r' == r) = false := by simpa using (fun x => h x.symm : ¬ r' = r)
      cases f <;> simp [h, hb, Field.hit]
  | invalid r' =>
    simp only [Metrics.apply, val_touch, Eff.isLostOf, Bool.false_eq_true, if_false]
    by_cases h : r = r'
    · subst h; rw [if_pos rfl, val_eq_get_getD]; cases f <;> simp [Field.get, Field.hit, b2n]
    · have hb : (r' == r) = false := by simpa using (fun x => h x.symm : ¬ r' = r)
      cases f <;> simp [h, hb, Field.hit]
  | ioError r' =>
    simp only [Metrics.apply, val_touch, Eff.isLostOf, Bool.false_eq_true, if_false]
    by_cases h : r = r'
    · subst h; rw [if_pos rfl, val_eq_get_getD]; cases f <;> simp [Field.get, Field.hit, b2n]
    · have hb : (r' == r) = false := by simpa using (fun x => h x.symm : ¬ r' = r)
      cases f <;> simp [h, hb, Field.hit]

/-! ### Lists of calls -/

theorem applyAll_nil (m : Metrics) : m.applyAll [] = m := rfl
theorem applyAll_cons (m : Metrics) (e : Eff) (es : List Eff) : m.applyAll (e :: es) = (m.apply e).applyAll es := rfl
theorem applyAll_append (m : Metrics) (a b : List Eff) : m.applyAll (a ++ b) = (m.applyAll a).applyAll b := by
  simp [Metrics.applyAll, List.foldl_append]

theorem countP_b2n {α} (p : α → Bool) (e : α) (es : List α) : (e :: es).countP p = b2n (p e) + es.countP p := by
  cases h : p e <;> simp [h, b2n] <;> omega

/-- A global counter that moves by `b2n (p e)` per call equals its start plus the number of such calls. -/
theorem count_applyAll (proj : Metrics → Nat) (p : Eff → Bool)
    (h : ∀ m e, proj (m.apply e) = proj m + b2n (p e)) (m : Metrics) (es : List Eff) :
    proj (m.applyAll es) = proj m + es.countP p := by
  induction es generalizing m with
  | nil => simp [applyAll_nil]
  | cons e es ih => rw [applyAll_cons, ih, h, countP_b2n]; omega

/-- The calls after the last one that satisfies `p` (all of them if none does). -/
def afterLast {α} (p : α → Bool) : List α → List α
  | [] => []
  | e :: es => if es.any p then afterLast p es else if p e then es else e :: es

theorem afterLast_none {α} (p : α → Bool) (es : List α) (h : es.any p = false) : afterLast p es = es := by
  induction es with
  | nil => rfl
  | cons e es ih =>
    simp only [List.any_cons, Bool.or_eq_false_iff] at h
    simp [afterLast, h.1, h.2]

theorem afterLast_no_p {α} (p : α → Bool) (es : List α) : (afterLast p es).any p = false := by
  induction es with
  | nil => rfl
  | cons e es ih =>
    unfold afterLast
    by_cases h1 : es.any p = true
    · simp [h1, ih]
    · have h1' : es.any p = false := by simpa using h1
      by_cases h2 : p e = true
      · simp [h1', h2]
      · have h2' : p e = false := by simpa using h2
        simp [h1', h2']

/-- **Exactness of a per-router value**, for every list of reporter calls: it is the number of matching calls since
    the router's entry was last removed (plus the starting value if it never was). -/
theorem val_applyAll (m : Metrics) (es : List Eff) (r : Rid) (f : Field) :
    (m.applyAll es).val r f.get =
      (if es.any (Eff.isLostOf r) then 0 else m.val r f.get) + (afterLast (Eff.isLostOf r) es).countP (f.hit r) := by
  induction es generalizing m with
  | nil => simp [applyAll_nil, afterLast]
  | cons e es ih =>
    rw [applyAll_cons, ih, val_apply]
    by_cases h1 : es.any (Eff.isLostOf r) = true
    · simp [afterLast, h1]
    · have h1' : es.any (Eff.isLostOf r) = false := by simpa using h1
      rw [afterLast_none _ _ h1']
      by_cases h2 : Eff.isLostOf r e = true
      · simp [afterLast, h1', h2]
      · have h2' : Eff.isLostOf r e = false := by simpa using h2
        simp only [afterLast, h1', h2', List.any_cons, Bool.or_false, Bool.false_eq_true, if_false]
        rw [countP_b2n]; omega

/-- The last `Bulk` size among the calls. -/
def lastBulk : List Eff → Option Nat
  | [] => none
  | e :: es => match lastBulk es with | some n => some n | none => e.bulk

theorem setSize_applyAll (m : Metrics) (es : List Eff) :
    (m.applyAll es).gate.setSize = (lastBulk es).getD m.gate.setSize := by
  induction es generalizing m with
  | nil => rfl
  | cons e es ih =>
    rw [applyAll_cons, ih, apply_setSize]
    cases h : lastBulk es <;> simp [lastBulk, h]

theorem updated_applyAll (m : Metrics) (es : List Eff) :
    (m.applyAll es).gate.updated = (m.gate.updated || es.any Eff.isUpdate) := by
  induction es generalizing m with
  | nil => simp [applyAll_nil]
  | cons e es ih => rw [applyAll_cons, ih, apply_updated]; simp [Bool.or_assoc]

theorem countP_dropped_le (es : List Eff) : es.countP Eff.isDropped ≤ es.countP Eff.isUpdate := by
  induction es with
  | nil => simp
  | cons e es ih =>
    rw [countP_b2n, countP_b2n]
    have : b2n e.isDropped ≤ b2n e.isUpdate := by
      cases e with
      | gateUpdate s b => cases s <;> simp [Eff.isDropped, Eff.isUpdate, b2n]
      | _ => simp [Eff.isDropped, b2n]
    omega

/-! ### The connection layer -/

theorem run_nil (w : World) : w.run [] = w := rfl
theorem run_cons (w : World) (e : Ev) (es : List Ev) : w.run (e :: es) = (w.step e).run es := rfl

theorem run_append (w : World) (a b : List Ev) : w.run (a ++ b) = (w.run a).run b := by
  induction a generalizing w with
  | nil => rfl
  | cons e a ih => simp [run_cons, ih]

/-- The metrics after a history are the reporter calls of its trace applied in order. -/
theorem run_mx (w : World) (es : List Ev) : (w.run es).mx = w.mx.applyAll (w.trace es) := by
  induction es generalizing w with
  | nil => rfl
  | cons e es ih => rw [run_cons, ih, World.trace, applyAll_append]; rfl

theorem findConn_some {c : Nat} {cs : List Conn} {x : Conn} (h : findConn c cs = some x) : x.cid = c ∧ x ∈ cs := by
  induction cs with
  | nil => simp [findConn] at h
  | cons y ys ih =>
    unfold findConn at h
    by_cases hy : y.cid = c
    · simp [hy] at h; subst h; exact ⟨hy, List.mem_cons_self⟩
    · simp [hy] at h; exact ⟨(ih h).1, List.mem_cons_of_mem _ (ih h).2⟩

theorem findConn_none {c : Nat} {cs : List Conn} (h : findConn c cs = none) : ∀ x ∈ cs, x.cid ≠ c := by
  induction cs with
  | nil => simp
  | cons y ys ih =>
    unfold findConn at h
    by_cases hy : y.cid = c
    · simp [hy] at h
    · simp [hy] at h
      intro x hx
      rcases List.mem_cons.mp hx with rfl | hx
      · exact hy
      · exact ih h x hx

theorem findConn_append_left {c : Nat} {cs : List Conn} {x : Conn} (ys : List Conn) (h : findConn c cs = some x) :
    findConn c (cs ++ ys) = some x := by
  induction cs with
  | nil => simp [findConn] at h
  | cons y cs ih =>
    simp only [List.cons_append]
    unfold findConn at h ⊢
    by_cases hy : y.cid = c
    · simpa [hy] using h
    · simp [hy] at h ⊢; exact ih h

theorem findConn_dropConn_ne {c c' : Nat} (cs : List Conn) (h : c ≠ c') :
    findConn c (dropConn c' cs) = findConn c cs := by
  induction cs with
  | nil => rfl
  | cons y cs ih =>
    unfold dropConn at ih ⊢
    by_cases hy : y.cid = c'
    · have hyc : ¬ y.cid = c := fun x => h (x.symm.trans hy)
      have hf : List.filter (fun x => x.cid != c') (y :: cs) = List.filter (fun x => x.cid != c') cs := by
        simp [List.filter_cons, hy]
      rw [hf, ih]; simp [findConn, hyc]
    · have hf : List.filter (fun x => x.cid != c') (y :: cs) = y :: List.filter (fun x => x.cid != c') cs := by
        simp [List.filter_cons, hy]
      rw [hf]
      by_cases hc : y.cid = c
      · simp [findConn, hc]
      · simp [findConn, hc, ih]

theorem mem_dropConn {c : Nat} {cs : List Conn} {x : Conn} (h : x ∈ dropConn c cs) : x ∈ cs ∧ x.cid ≠ c := by
  simpa [dropConn] using h

/-- Distinct connection ids. -/
def CidsNodup (cs : List Conn) : Prop := (cs.map (·.cid)).Nodup

theorem dropConn_cons_eq {c : Nat} (y : Conn) (cs : List Conn) (hy : y.cid = c) : dropConn c (y :: cs) = dropConn c cs := by
  simp [dropConn, List.filter_cons, hy]
theorem dropConn_cons_ne {c : Nat} (y : Conn) (cs : List Conn) (hy : ¬ y.cid = c) : dropConn c (y :: cs) = y :: dropConn c cs := by
  simp [dropConn, List.filter_cons, hy]

theorem dropConn_self_of_absent {c : Nat} {cs : List Conn} (h : ∀ z ∈ cs, z.cid ≠ c) : dropConn c cs = cs := by
  unfold dropConn
  apply List.filter_eq_self.mpr
  intro z hz; simpa using h z hz

theorem length_dropConn {c : Nat} {cs : List Conn} {x : Conn} (hn : CidsNodup cs) (h : findConn c cs = some x) :
    (dropConn c cs).length + 1 = cs.length := by
  induction cs with
  | nil => simp [findConn] at h
  | cons y cs ih =>
    unfold CidsNodup at hn
    simp only [List.map_cons, List.nodup_cons] at hn
    unfold findConn at h
    by_cases hy : y.cid = c
    · have hnot : ∀ z ∈ cs, z.cid ≠ c := by
        intro z hz hzc
        exact hn.1 (List.mem_map.mpr ⟨z, hz, hzc.trans hy.symm⟩)
      rw [dropConn_cons_eq y cs hy, dropConn_self_of_absent hnot]; rfl
    · simp [hy] at h
      have := ih hn.2 h
      rw [dropConn_cons_ne y cs hy]
      simp only [List.length_cons]; omega

theorem dropConn_nodup {c : Nat} {cs : List Conn} (hn : CidsNodup cs) : CidsNodup (dropConn c cs) := by
  unfold CidsNodup dropConn at *
  exact List.Nodup.sublist (List.Sublist.map _ List.filter_sublist) hn

theorem dropConn_none {c : Nat} {cs : List Conn} (h : findConn c cs = none) : dropConn c cs = cs :=
  dropConn_self_of_absent (findConn_none h)

/-! ### Which router entry a call touches -/

def Eff.rid? : Eff → Option Rid
  | .received r _ => some r
  | .processed r => some r
  | .invalid r => some r
  | .ioError r => some r
  | .lost r => some r
  | _ => none

theorem routers_apply_other (m : Metrics) (e : Eff) (r : Rid) (h : e.rid? ≠ some r) :
    (m.apply e).routers r = m.routers r := by
  cases e <;> simp [Eff.rid?] at h <;> simp [Metrics.apply, Metrics.touch] <;>
    (intro hh; exact absurd hh.symm h)

theorem routers_applyAll_other (m : Metrics) (es : List Eff) (r : Rid) (h : ∀ e ∈ es, e.rid? ≠ some r) :
    (m.applyAll es).routers r = m.routers r := by
  induction es generalizing m with
  | nil => rfl
  | cons e es ih =>
    rw [applyAll_cons, ih _ (fun e' he' => h e' (List.mem_cons_of_mem _ he')), routers_apply_other _ _ _ (h e List.mem_cons_self)]

theorem routers_apply_lost (m : Metrics) (r : Rid) : ((m.apply (.lost r)).routers r) = none := by
  simp [Metrics.apply]

/-- After `… , lost r, <calls that do not mention r>` the entry of `r` is gone. -/
theorem routers_applyAll_lost (m : Metrics) (a b : List Eff) (r : Rid) (h : ∀ e ∈ b, e.rid? ≠ some r) :
    (m.applyAll (a ++ .lost r :: b)).routers r = none := by
  rw [applyAll_append, applyAll_cons, routers_applyAll_other _ _ _ h, routers_apply_lost]

theorem findConn_nodup_unique {c : Nat} {cs : List Conn} {x y : Conn} (hn : CidsNodup cs)
    (hx : findConn c cs = some x) (hy : y ∈ cs) (hc : y.cid = c) : y = x := by
  induction cs with
  | nil => simp at hy
  | cons z cs ih =>
    unfold CidsNodup at hn
    simp only [List.map_cons, List.nodup_cons] at hn
    unfold findConn at hx
    by_cases hz : z.cid = c
    · simp [hz] at hx; subst hx
      rcases List.mem_cons.mp hy with rfl | hy'
      · rfl
      · exact absurd (List.mem_map.mpr ⟨y, hy', hc.trans hz.symm⟩) hn.1
    · simp [hz] at hx
      rcases List.mem_cons.mp hy with rfl | hy'
      · exact absurd hc hz
      · exact ih hn.2 hx hy'

theorem findConn_append_new {c : Nat} {cs : List Conn} (r : Rid) (h : findConn c cs = none) :
    findConn c (cs ++ [⟨c, r⟩]) = some ⟨c, r⟩ := by
  induction cs with
  | nil => simp [findConn]
  | cons y ys ih =>
    have hy : ¬ y.cid = c := findConn_none h y List.mem_cons_self
    have hc' : findConn c ys = none := by unfold findConn at h; simpa [hy] using h
    simp only [List.cons_append]; unfold findConn; simp only [hy, if_false]; exact ih hc'

end Rotonda.ConnMetrics
