import RotondaModel.Model.UnitMetrics
import RotondaModel.Props.ConnMetrics
import RotondaModel.Props.MqttConn
/-! Helper lemmas for `Props/UnitMetrics.lean`. -/
namespace Rotonda.UnitMetrics

open Rotonda.ConnMetrics (Str Metric Call Rec PType MUnit Line linesOf callLines recLine fullName componentLabel
  isName isNumber isDigits isLName docOK notNl liveCalls headName UniqueMeta)
open Rotonda.MqttConn (Obs QMsg St Step Inp Variants Cfg)

/-! ## numbers -/

theorem digits_isDigits (n : Nat) : isDigits (digits n) = true := by
  unfold isDigits digits
  have hne : Nat.toDigits 10 n ≠ [] := by
    intro h
    have := congrArg List.length h
    simp at this
  cases hd : Nat.toDigits 10 n with
  | nil => exact absurd hd hne
  | cons c r =>
    simp only
    rw [← hd, List.all_eq_true]
    intro x hx
    exact Nat.isDigit_of_mem_toDigits (by decide) (by decide) hx

theorem digits_isNumber (n : Nat) : isNumber (digits n) = true := by
  have h := digits_isDigits n
  unfold isNumber
  cases hd : digits n with
  | nil => rw [hd] at h; simp [isDigits] at h
  | cons c r =>
    by_cases hc : c = '-'
    · subst hc
      rw [hd] at h
      simp [isDigits] at h
    · rw [hd] at h
      split
      · rename_i heq; cases heq; exact absurd rfl hc
      · exact h

/-! ## mqtt: the reporter layer -/

theorem applyAll_nil (r : MqttRec) : r.applyAll [] = r := rfl
theorem applyAll_cons (r : MqttRec) (e : MEv) (h : List MEv) : r.applyAll (e :: h) = (r.apply e).applyAll h := rfl
theorem applyAll_append (r : MqttRec) (a b : List MEv) : r.applyAll (a ++ b) = (r.applyAll a).applyAll b := by
  simp [MqttRec.applyAll, List.foldl_append]

theorem topicCount_bump_same (t : Str) (ts : List (Str × Nat)) :
    topicCount t (bumpTopic t ts) = topicCount t ts + 1 := by
  induction ts with
  | nil => simp [bumpTopic, topicCount]
  | cons p r ih =>
    obtain ⟨k, n⟩ := p
    by_cases hk : k = t
    · simp [bumpTopic, topicCount, hk]
    · simp only [bumpTopic, hk, if_false]
      simp only [topicCount, List.find?_cons, hk, decide_false] at ih ⊢
      exact ih

theorem topicCount_bump_other (t u : Str) (h : u ≠ t) (ts : List (Str × Nat)) :
    topicCount t (bumpTopic u ts) = topicCount t ts := by
  induction ts with
  | nil => simp [bumpTopic, topicCount, h]
  | cons p r ih =>
    obtain ⟨k, n⟩ := p
    by_cases hk : k = u
    · subst hk
      simp [bumpTopic, topicCount, h]
    · simp only [bumpTopic, hk, if_false]
      by_cases hkt : k = t
      · simp [topicCount, hkt]
      · simp only [topicCount, List.find?_cons, hkt, decide_false] at ih ⊢
        exact ih

theorem sum_bump (t : Str) (ts : List (Str × Nat)) :
    ((bumpTopic t ts).map (·.2)).sum = (ts.map (·.2)).sum + 1 := by
  induction ts with
  | nil => simp [bumpTopic]
  | cons p r ih =>
    obtain ⟨k, n⟩ := p
    by_cases hk : k = t
    · simp [bumpTopic, hk]; omega
    · simp only [bumpTopic, hk, if_false, List.map_cons, List.sum_cons, ih]; omega

theorem keys_bump (t : Str) (ts : List (Str × Nat)) :
    (bumpTopic t ts).map (·.1) = if t ∈ ts.map (·.1) then ts.map (·.1) else ts.map (·.1) ++ [t] := by
  induction ts with
  | nil => simp [bumpTopic]
  | cons p r ih =>
    obtain ⟨k, n⟩ := p
    by_cases hk : k = t
    · simp [bumpTopic, hk]
    · have hk' : ¬ t = k := fun h => hk h.symm
      simp only [bumpTopic, hk, if_false, List.map_cons, ih, List.mem_cons, hk', false_or]
      split <;> simp

theorem nodup_bump (t : Str) (ts : List (Str × Nat)) (h : (ts.map (·.1)).Nodup) :
    ((bumpTopic t ts).map (·.1)).Nodup := by
  rw [keys_bump]
  split
  · exact h
  · rename_i hn
    exact List.nodup_append.mpr ⟨h, by simp, by
      intro a ha b hb
      simp at hb; subst hb
      intro hab; subst hab; exact hn ha⟩

/-! ## mqtt: the scan -/

theorem scan_snoc (tbl : List QMsg) (log : List Obs) (o : Obs) :
    scan tbl (log ++ [o]) = scanObs tbl (scan tbl log) o := by
  simp [scan, List.foldl_append]

/-- `out` only grows. -/
theorem scanObs_out (tbl : List QMsg) (s : Scan) (o : Obs) : ∃ d, (scanObs tbl s o).out = s.out ++ d := by
  cases o with
  | publish c m q out => cases out <;> simp [scanObs]
  | done id => simp [scanObs]
  | cancel id => simp [scanObs]
  | disconnect c => simp [scanObs]
  | void id => simp [scanObs]
  | opened c cfg => exact ⟨[], by simp [scanObs]⟩
  | enter c => exact ⟨[], by simp [scanObs]⟩
  | polled c e => cases e <;> simp [scanObs]

/-- The reporter calls one event causes do not depend on the calls made before (the driver scans incrementally). -/
theorem scanObs_out_split (tbl : List QMsg) (s : Scan) (o : Obs) :
    scanObs tbl s o =
      { scanObs tbl { s with out := [] } o with out := s.out ++ (scanObs tbl { s with out := [] } o).out } := by
  cases o with
  | publish c m q out => cases out <;> simp [scanObs]
  | polled c e => cases e <;> simp [scanObs]
  | _ => simp [scanObs]

/-! ## filter -/

theorem fApplyAll_append (r : FilterRec) (a b : List Nat) : r.applyAll (a ++ b) = (r.applyAll a).applyAll b := by
  simp [FilterRec.applyAll, List.foldl_append]

theorem routerCount_bump_same (i : Nat) (rs : List (Nat × Nat)) :
    routerCount i (bumpRouter i rs) = routerCount i rs + 1 := by
  induction rs with
  | nil => simp [bumpRouter, routerCount]
  | cons p r ih =>
    obtain ⟨k, n⟩ := p
    by_cases hk : k = i
    · simp [bumpRouter, routerCount, hk]
    · simp only [bumpRouter, hk, if_false]
      simp only [routerCount, List.find?_cons, hk, decide_false] at ih ⊢
      exact ih

theorem routerCount_bump_other (i j : Nat) (h : j ≠ i) (rs : List (Nat × Nat)) :
    routerCount i (bumpRouter j rs) = routerCount i rs := by
  induction rs with
  | nil => simp [bumpRouter, routerCount, h]
  | cons p r ih =>
    obtain ⟨k, n⟩ := p
    by_cases hk : k = j
    · subst hk
      simp [bumpRouter, routerCount, h]
    · simp only [bumpRouter, hk, if_false]
      by_cases hkt : k = i
      · simp [routerCount, hkt]
      · simp only [routerCount, List.find?_cons, hkt, decide_false] at ih ⊢
        exact ih

theorem sum_bumpRouter (i : Nat) (rs : List (Nat × Nat)) :
    ((bumpRouter i rs).map (·.2)).sum = (rs.map (·.2)).sum + 1 := by
  induction rs with
  | nil => simp [bumpRouter]
  | cons p r ih =>
    obtain ⟨k, n⟩ := p
    by_cases hk : k = i
    · simp [bumpRouter, hk]; omega
    · simp only [bumpRouter, hk, if_false, List.map_cons, List.sum_cons, ih]; omega

/-! ## calls and lines, without unfolding the metric constants -/

open Rotonda.ConnMetrics (linesOfV groupLines)

theorem callLines_simple (m : Metric) (u v : Str) (h : m.mtype ≠ .text) :
    callLines (simple m u v) = [.help (fullName m none) m.help, .type (fullName m none) m.mtype,
      .sample (fullName m none) (some [(componentLabel, u)]) v] := by
  unfold callLines simple
  cases hm : m.mtype <;> simp_all [recLine]

theorem callLines_labelled (m : Metric) (u l lv v : Str) (h : m.mtype ≠ .text) :
    callLines (labelled m u l lv v) = [.help (fullName m none) m.help, .type (fullName m none) m.mtype,
      .sample (fullName m none) (some [(componentLabel, u), (l, lv)]) v] := by
  unfold callLines labelled
  cases hm : m.mtype <;> simp_all [recLine]

theorem callLines_text (m : Metric) (u v : Str) (h : m.mtype = .text) : callLines (simple m u v) = [] := by
  unfold callLines simple
  simp [h]

theorem live_simple (m : Metric) (u v : Str) (cs : List Call) (h : m.mtype ≠ .text) :
    liveCalls (simple m u v :: cs) = simple m u v :: liveCalls cs := by
  have : (m.mtype != .text) = true := by simpa using h
  simp [liveCalls, List.filter_cons, simple, this]

theorem live_text (m : Metric) (u v : Str) (cs : List Call) (h : m.mtype = .text) :
    liveCalls (simple m u v :: cs) = liveCalls cs := by
  simp [liveCalls, List.filter_cons, simple, h]

theorem live_labelled_map {α : Type} (m : Metric) (u l : Str) (f g : α → Str) (xs : List α) (h : m.mtype ≠ .text) :
    liveCalls (xs.map (fun p => labelled m u l (f p) (g p))) = xs.map (fun p => labelled m u l (f p) (g p)) := by
  have : (m.mtype != .text) = true := by simpa using h
  simp only [liveCalls]
  rw [List.filter_eq_self]
  intro c hc
  obtain ⟨p, _, rfl⟩ := List.mem_map.mp hc
  simpa [labelled] using this

theorem liveCalls_append (a b : List Call) : liveCalls (a ++ b) = liveCalls a ++ liveCalls b := by
  simp [liveCalls]

theorem headName_simple (m : Metric) (u v : Str) : headName (simple m u v) = fullName m none := rfl
theorem headName_labelled (m : Metric) (u l lv v : Str) : headName (labelled m u l lv v) = fullName m none := rfl

/-- Well-formedness of a metric constant: its full name is a metric name, its help text needs no escaping. -/
def Metric.ok (m : Metric) : Bool := isName (fullName m none) && docOK m.help && m.help.all notNl && m.mtype != .text

theorem simple_wf (m : Metric) (u v : Str) (hm : Metric.ok m = true) (hv : isNumber v = true) :
    (simple m u v).wf = true := by
  simp only [Metric.ok, Bool.and_eq_true] at hm
  simp [simple, Call.wf, hm.1.1.1, hm.1.1.2, hm.1.2, hv]

theorem labelled_wf (m : Metric) (u l lv v : Str) (hm : Metric.ok m = true) (hl : isLName l = true)
    (hv : isNumber v = true) : (labelled m u l lv v).wf = true := by
  simp only [Metric.ok, Bool.and_eq_true] at hm
  simp [labelled, Call.wf, hm.1.1.1, hm.1.1.2, hm.1.2, hv, hl]

theorem ok_live {m : Metric} (h : Metric.ok m = true) : m.mtype ≠ .text := by
  simp only [Metric.ok, Bool.and_eq_true] at h
  simpa using h.2

theorem mEstablished_ok : Metric.ok mEstablished = true := by decide
theorem mLost_ok : Metric.ok mLost = true := by decide
theorem mConnErr_ok : Metric.ok mConnErr = true := by decide
theorem mPublish_ok : Metric.ok mPublish = true := by decide
theorem mPubErr_ok : Metric.ok mPubErr = true := by decide
theorem mInflight_ok : Metric.ok mInflight = true := by decide
theorem mGateUpdates_ok : Metric.ok mGateUpdates = true := by decide
theorem mGateDropped_ok : Metric.ok mGateDropped = true := by decide
theorem mGateSetSize_ok : Metric.ok mGateSetSize = true := by decide
theorem mGateAgo_ok : Metric.ok mGateAgo = true := by decide
theorem mFiltered_ok : Metric.ok mFiltered = true := by decide
theorem mAssemble_ok : Metric.ok mAssemble = true := by decide
theorem mGateWhen_text : mGateWhen.mtype = .text := rfl
theorem topicLabel_ok : isLName topicLabel = true := by decide
theorem routerLabel_ok : isLName routerLabel = true := by decide

/-- The full names of the mqtt source's six metrics are pairwise different. -/
theorem mqtt_names_nodup :
    [fullName mEstablished none, fullName mLost none, fullName mConnErr none, fullName mInflight none,
      fullName mPubErr none, fullName mPublish none].Nodup := by decide

end Rotonda.UnitMetrics
