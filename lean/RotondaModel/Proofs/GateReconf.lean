import RotondaModel.Model.GateReconf
import RotondaModel.Proofs.Gate
/-!
Invariants of the GateReconf LTS (`Model/GateReconf.lean`), each preserved by every step for every
variant, hence true after every trace of any length from `init ccap`.

* `InvB`: deliveries (same shape as `Rotonda.Gate.InvB`): per (slot, publisher) strictly increasing
  sequence numbers, every snapshot slot served or closed when the update ends.
* `InvG`: generations, command channels, subscription map, clone queues.
-/
namespace Rotonda.GateReconf
open Rotonda.Gate (upd ins del seqsOf Slot Pub Msg upd_apply upd_same upd_other mem_ins nodup_ins nodup_del
  mem_del_of_ne mem_of_mem_del seqsOf_append mem_seqsOf)

structure InvB (st : St) : Prop where
  nodup : st.updates.Nodup
  le_seq : ∀ s p q, (p, q) ∈ (st.chans s).hist → q ≤ (st.pubs p).seq
  sorted : ∀ s p, (seqsOf p (st.chans s).hist).Pairwise (· < ·)
  sendR : ∀ p R, (st.pubs p).sending = some R →
      R.Nodup ∧ (∀ s ∈ R, s ∈ (st.pubs p).snap) ∧
      (∀ s ∈ R, ∀ q, (p, q) ∈ (st.chans s).hist → q < (st.pubs p).seq) ∧
      (∀ s ∈ (st.pubs p).snap, s ∉ R → (p, (st.pubs p).seq) ∈ (st.chans s).hist ∨ (st.chans s).open_ = false)

/-- Steps that touch neither sequence numbers, in-flight snapshots nor histories. -/
structure FrameB (st st' : St) : Prop where
  nodup : st.updates.Nodup → st'.updates.Nodup
  seq : ∀ p, (st'.pubs p).seq = (st.pubs p).seq
  sending : ∀ p, (st'.pubs p).sending = (st.pubs p).sending
  snap : ∀ p, (st'.pubs p).snap = (st.pubs p).snap
  hist : ∀ s, (st'.chans s).hist = (st.chans s).hist
  open_ : ∀ s, (st'.chans s).open_ = (st.chans s).open_ ∨ (st'.chans s).open_ = false

theorem InvB.frame {st st' : St} (f : FrameB st st') (h : InvB st) : InvB st' := by
  refine ⟨f.nodup h.nodup, ?_, ?_, ?_⟩
  · intro s p q hm
    rw [f.hist] at hm; rw [f.seq]; exact h.le_seq s p q hm
  · intro s p
    rw [f.hist]; exact h.sorted s p
  · intro p R hR
    rw [f.sending] at hR
    obtain ⟨h1, h2, h3, h4⟩ := h.sendR p R hR
    refine ⟨h1, ?_, ?_, ?_⟩
    · intro s hs; rw [f.snap]; exact h2 s hs
    · intro s hs q hm; rw [f.hist] at hm; rw [f.seq]; exact h3 s hs q hm
    · intro s hs hn
      rw [f.snap] at hs
      rw [f.hist, f.seq]
      rcases h4 s hs hn with h | h
      · exact Or.inl h
      · right
        rcases f.open_ s with h' | h'
        · rw [h', h]
        · exact h'

theorem invB_init (cap : Nat) : InvB (init cap) := by
  refine ⟨by simp [init], ?_, ?_, ?_⟩
  · intro s p q hm; simp [init] at hm
  · intro s p; simp [init, seqsOf]
  · intro p R hR
    simp only [init] at hR
    split at hR <;> simp at hR


theorem FrameB.refl (st : St) : FrameB st st :=
  ⟨fun h => h, fun _ => rfl, fun _ => rfl, fun _ => rfl, fun _ => rfl, fun _ => Or.inl rfl⟩

theorem FrameB.trans {a b c : St} (h1 : FrameB a b) (h2 : FrameB b c) : FrameB a c := by
  refine ⟨fun h => h2.nodup (h1.nodup h), fun p => (h2.seq p).trans (h1.seq p), fun p => (h2.sending p).trans (h1.sending p),
    fun p => (h2.snap p).trans (h1.snap p), fun s => (h2.hist s).trans (h1.hist s), ?_⟩
  intro s
  rcases h2.open_ s with h | h
  · rcases h1.open_ s with h' | h'
    · exact Or.inl (h.trans h')
    · exact Or.inr (h.trans h')
  · exact Or.inr h

theorem invB_pubBegin {st st' : St} {p : Pub} {v : Variant} (hs : step v st (.pubBegin p) = some st') (h : InvB st) : InvB st' := by
  simp only [step] at hs
  split at hs
  · cases hs
    refine ⟨h.nodup, ?_, ?_, ?_⟩
    · intro s p' q hm
      have := h.le_seq s p' q hm
      simp only [upd_apply]; split
      · subst_vars; simp only; omega
      · exact this
    · intro s p'; exact h.sorted s p'
    · intro p' R hR
      simp only [upd_apply] at hR ⊢
      split at hR
      · rename_i hp; subst hp
        simp only [Option.some.injEq] at hR; subst hR
        simp only [if_true]
        refine ⟨h.nodup, fun s hs => hs, ?_, fun s hs hn => absurd hs hn⟩
        intro s _ q hm
        have := h.le_seq s p' q hm; omega
      · rename_i hp; simp only [hp, if_false]
        exact h.sendR p' R hR
  · cases hs

/-- A delivery that pushes `(p, seq p)` onto slot `s`'s history. -/
theorem invB_deliver_push {st st' : St} {p : Pub} {s : Slot} {R : List Slot} (h : InvB st)
    (hR : (st.pubs p).sending = some R) (hsR : s ∈ R)
    (hU : st'.updates = st.updates)
    (hseq : ∀ p', (st'.pubs p').seq = (st.pubs p').seq)
    (hsnap : ∀ p', (st'.pubs p').snap = (st.pubs p').snap)
    (hsp : (st'.pubs p).sending = some (R.erase s))
    (hso : ∀ p', p' ≠ p → (st'.pubs p').sending = (st.pubs p').sending)
    (hhs : (st'.chans s).hist = (st.chans s).hist ++ [(p, (st.pubs p).seq)])
    (hho : ∀ s', s' ≠ s → (st'.chans s').hist = (st.chans s').hist)
    (hop : ∀ s', (st'.chans s').open_ = (st.chans s').open_) : InvB st' := by
  obtain ⟨h1, h2, h3, h4⟩ := h.sendR p R hR
  refine ⟨hU ▸ h.nodup, ?_, ?_, ?_⟩
  · intro s' p' q hm
    rw [hseq]
    by_cases hss : s' = s
    · subst hss; rw [hhs] at hm
      simp only [List.mem_append, List.mem_singleton, Prod.mk.injEq] at hm
      rcases hm with hm | ⟨rfl, rfl⟩
      · exact h.le_seq _ _ _ hm
      · exact Nat.le_refl _
    · rw [hho s' hss] at hm; exact h.le_seq _ _ _ hm
  · intro s' p'
    by_cases hss : s' = s
    · subst hss; rw [hhs, seqsOf_append]
      by_cases hpp : p' = p
      · subst hpp
        have : seqsOf p' [(p', (st.pubs p').seq)] = [(st.pubs p').seq] := by simp [seqsOf]
        rw [this, List.pairwise_append]
        refine ⟨h.sorted _ _, by simp, ?_⟩
        intro a ha b hb
        simp only [List.mem_singleton] at hb; subst hb
        exact h3 s' hsR a (mem_seqsOf.mp ha)
      · have : seqsOf p' [(p, (st.pubs p).seq)] = [] := by
          simp only [seqsOf, List.filter_cons, List.filter_nil]
          have : (p == p') = false := by simp; exact fun e => hpp e.symm
          simp [this]
        rw [this, List.append_nil]; exact h.sorted _ _
    · rw [hho s' hss]; exact h.sorted _ _
  · intro p' R' hR'
    by_cases hpp : p' = p
    · subst hpp
      rw [hsp] at hR'; simp only [Option.some.injEq] at hR'; subst hR'
      rw [hseq, hsnap]
      refine ⟨h1.erase s, ?_, ?_, ?_⟩
      · intro s' hs'; exact h2 s' ((List.erase_sublist).subset hs')
      · intro s' hs' q hm
        have hne : s' ≠ s := ((h1.mem_erase_iff).mp hs').1
        rw [hho s' hne] at hm
        exact h3 s' ((List.erase_sublist).subset hs') q hm
      · intro s' hs' hn
        by_cases hss : s' = s
        · subst hss; left; rw [hhs]; simp
        · have : s' ∉ R := fun hin => hn ((h1.mem_erase_iff).mpr ⟨hss, hin⟩)
          rw [hho s' hss, hop]
          exact h4 s' hs' this
    · rw [hso p' hpp] at hR'
      obtain ⟨g1, g2, g3, g4⟩ := h.sendR p' R' hR'
      rw [hseq, hsnap]
      refine ⟨g1, g2, ?_, ?_⟩
      · intro s' hs' q hm
        by_cases hss : s' = s
        · subst hss; rw [hhs] at hm
          simp only [List.mem_append, List.mem_singleton, Prod.mk.injEq] at hm
          rcases hm with hm | ⟨e, _⟩
          · exact g3 s' hs' q hm
          · exact absurd e hpp
        · rw [hho s' hss] at hm; exact g3 s' hs' q hm
      · intro s' hs' hn
        rw [hop]
        rcases g4 s' hs' hn with g | g
        · left
          by_cases hss : s' = s
          · subst hss; rw [hhs]; exact List.mem_append_left _ g
          · rw [hho s' hss]; exact g
        · exact Or.inr g

/-- A delivery to a closed link: nothing is pushed. -/
theorem invB_deliver_skip {st st' : St} {p : Pub} {s : Slot} {R : List Slot} (h : InvB st)
    (hR : (st.pubs p).sending = some R)
    (hcl : (st.chans s).open_ = false)
    (hU : st'.updates = st.updates)
    (hseq : ∀ p', (st'.pubs p').seq = (st.pubs p').seq)
    (hsnap : ∀ p', (st'.pubs p').snap = (st.pubs p').snap)
    (hsp : (st'.pubs p).sending = some (R.erase s))
    (hso : ∀ p', p' ≠ p → (st'.pubs p').sending = (st.pubs p').sending)
    (hho : ∀ s', (st'.chans s').hist = (st.chans s').hist)
    (hop : ∀ s', (st'.chans s').open_ = (st.chans s').open_) : InvB st' := by
  obtain ⟨h1, h2, h3, h4⟩ := h.sendR p R hR
  refine ⟨hU ▸ h.nodup, ?_, ?_, ?_⟩
  · intro s' p' q hm; rw [hseq]; rw [hho] at hm; exact h.le_seq _ _ _ hm
  · intro s' p'; rw [hho]; exact h.sorted _ _
  · intro p' R' hR'
    by_cases hpp : p' = p
    · subst hpp
      rw [hsp] at hR'; simp only [Option.some.injEq] at hR'; subst hR'
      rw [hseq, hsnap]
      refine ⟨h1.erase s, ?_, ?_, ?_⟩
      · intro s' hs'; exact h2 s' ((List.erase_sublist).subset hs')
      · intro s' hs' q hm
        rw [hho] at hm
        exact h3 s' ((List.erase_sublist).subset hs') q hm
      · intro s' hs' hn
        rw [hho, hop]
        by_cases hss : s' = s
        · subst hss; exact Or.inr hcl
        · have : s' ∉ R := fun hin => hn ((h1.mem_erase_iff).mpr ⟨hss, hin⟩)
          exact h4 s' hs' this
    · rw [hso p' hpp] at hR'
      obtain ⟨g1, g2, g3, g4⟩ := h.sendR p' R' hR'
      rw [hseq, hsnap]
      refine ⟨g1, g2, ?_, ?_⟩
      · intro s' hs' q hm; rw [hho] at hm; exact g3 s' hs' q hm
      · intro s' hs' hn; rw [hho, hop]; exact g4 s' hs' hn



theorem invB_pubEnd {st st' : St} {p : Pub} {v : Variant} (hs : step v st (.pubEnd p) = some st') (h : InvB st) : InvB st' := by
  simp only [step] at hs
  split at hs
  · cases hs
    refine ⟨h.nodup, ?_, h.sorted, ?_⟩
    · intro s p' q hm
      have := h.le_seq s p' q hm
      simp only [upd_apply]; split <;> simp_all
    · intro p' R hR
      simp only [upd_apply] at hR ⊢
      split at hR
      · simp at hR
      · rename_i hp; simp only [hp, if_false]; exact h.sendR p' R hR
  · cases hs

theorem invB_pubDeliver {st st' : St} {p : Pub} {s : Slot} {v : Variant} (hs : step v st (.pubDeliver p s) = some st') (h : InvB st) : InvB st' := by
  simp only [step] at hs
  split at hs
  · cases hs
  · rename_i R hR
    split at hs
    · rename_i hc
      have hsR : s ∈ R := by simpa using hc
      split at hs
      · cases hs
        refine invB_deliver_push h hR hsR rfl ?_ ?_ ?_ ?_ ?_ ?_ ?_
        · intro p'; simp only [upd_apply]; split <;> simp_all
        · intro p'; simp only [upd_apply]; split <;> simp_all
        · simp
        · intro p' hp; simp [hp]
        · simp
        · intro s' hs'; simp [hs']
        · intro s'; simp only [upd_apply]; split <;> simp_all
      · rename_i hcl
        cases hs
        refine invB_deliver_skip (s := s) h hR (by simpa using hcl) rfl ?_ ?_ ?_ ?_ (fun _ => rfl) (fun _ => rfl)
        · intro p'; simp only [upd_apply]; split <;> simp_all
        · intro p'; simp only [upd_apply]; split <;> simp_all
        · simp
        · intro p' hp; simp [hp]
    · cases hs

theorem frameB_rootHandle (v : Variant) (st : St) (x : Cmd) : FrameB st (rootHandle v st x) := by
  cases x <;> simp only [rootHandle, St.startNotify] <;>
  refine ⟨?_, fun _ => rfl, fun _ => rfl, fun _ => rfl, ?_, ?_⟩ <;>
  first
  | exact fun h => nodup_ins h
  | exact fun h => nodup_del h
  | exact fun h => h
  | exact fun _ => List.nodup_nil
  | (intro s'; simp only [upd_apply]; split <;> simp_all)
  | (intro s'; simp)

theorem frameB_cloneHandle (v : Variant) (st : St) (c : Pub) (x : Cmd) : FrameB st (cloneHandle v st c x) := by
  cases x <;> simp only [cloneHandle] <;> (try split) <;>
  refine ⟨?_, ?_, ?_, ?_, ?_, ?_⟩ <;>
  first
  | exact fun h => nodup_ins h
  | exact fun h => nodup_del h
  | exact fun h => h
  | (intro s'; simp only [upd_apply]; split <;> simp_all)
  | (intro s'; simp)

macro "fb" : tactic => `(tactic|
  (refine ⟨?_, ?_, ?_, ?_, ?_, ?_⟩ <;> intros <;> (try simp only [St.push, St.startNotify, finish, upd_apply]) <;> (try split) <;>
   first | (simp_all; done) | grind))

/-- Every step other than the three publisher steps leaves histories, sequence numbers and
    in-flight snapshots alone. -/
theorem frameB_step {v : Variant} {st st' : St} {x : Step} (hs : step v st x = some st')
    (hx : ∀ p, x ≠ .pubBegin p) (hy : ∀ p s, x ≠ .pubDeliver p s) (hz : ∀ p, x ≠ .pubEnd p) : FrameB st st' := by
  cases x with
  | pubBegin p => exact absurd rfl (hx p)
  | pubDeliver p s => exact absurd rfl (hy p s)
  | pubEnd p => exact absurd rfl (hz p)
  | rootProc =>
    simp only [step] at hs
    split at hs
    · cases hs
    · split at hs
      · cases hs
      · cases hs
        refine FrameB.trans ?_ (frameB_rootHandle _ _ _)
        exact ⟨fun h => h, fun _ => rfl, fun _ => rfl, fun _ => rfl, fun _ => rfl, fun _ => Or.inl rfl⟩
  | cloneProc c =>
    simp only [step] at hs
    split at hs
    · split at hs
      · cases hs
      · cases hs
        refine FrameB.trans ?_ (frameB_cloneHandle _ _ _ _)
        fb
    · cases hs
  | _ =>
    simp only [step] at hs
    repeat' split at hs
    all_goals first
      | (cases hs; done)
      | (cases hs; fb)

theorem invB_step {v : Variant} {st st' : St} {x : Step} (hs : step v st x = some st') (h : InvB st) : InvB st' := by
  cases x with
  | pubBegin p => exact invB_pubBegin hs h
  | pubDeliver p s => exact invB_pubDeliver hs h
  | pubEnd p => exact invB_pubEnd hs h
  | _ => exact h.frame (frameB_step hs (by intros; intro e; cases e) (by intros; intro e; cases e) (by intros; intro e; cases e))

theorem invB_run {v : Variant} {st st' : St} {tr : List Step} (hs : run v st tr = some st') (h : InvB st) : InvB st' := by
  induction tr generalizing st with
  | nil => simp only [run] at hs; cases hs; exact h
  | cons x xs ih =>
    simp only [run] at hs
    split at hs
    · rename_i st1 h1; exact ih hs (invB_step h1 h)
    · cases hs

/-! ### InvG: generations, command channels, the clone command sender -/

structure InvG (v : Variant) (st : St) : Prop where
  rx_lt : st.rx < st.ngen
  reconf_lt : ∀ h g, Cmd.reconfigure g ∈ st.chq h → g < st.ngen
  reconf_next : ∀ h g, Cmd.reconfigure g ∈ st.chq h → g = h + 1
  send_le : st.sendGen ≤ st.rx
  send_eq : v.staleSender = false → st.sendGen = st.rx
  no_panic : v.notifyPanics = false → st.rootPanicked = false

theorem invG_init (v : Variant) (cap : Nat) : InvG v (init cap) := by
  refine ⟨by simp [init], ?_, ?_, by simp [init], by simp [init], by simp [init]⟩ <;> (intro h g hm; simp [init] at hm)

theorem mem_pop {st : St} {x y : Cmd} {q : List Cmd} {h : Nat} (heq : st.chq st.rx = x :: q)
    (hm : y ∈ upd st.chq st.rx q h) : y ∈ st.chq h := by
  simp only [upd_apply] at hm
  split at hm
  · subst_vars; rw [heq]; exact List.mem_cons_of_mem _ hm
  · exact hm

theorem mem_push {st : St} {x y : Cmd} {g h : Nat} (hm : y ∈ (st.push g x).chq h) : y ∈ st.chq h ∨ (y = x ∧ h = g) := by
  simp only [St.push, upd_apply] at hm
  split at hm
  · subst_vars
    simp only [List.mem_append, List.mem_singleton] at hm
    rcases hm with hm | hm
    · exact Or.inl hm
    · exact Or.inr ⟨hm, rfl⟩
  · exact Or.inl hm

macro "ig" : tactic => `(tactic|
  (refine ⟨?_, ?_, ?_, ?_, ?_, ?_⟩ <;> intros <;> (try simp only [St.startNotify, finish] at *) <;>
   first | (simp_all; done) | grind [mem_push] | omega))

theorem mem_reconf_chq {f : Nat → List Cmd} {i h : Nat} {q : List Cmd} {y : Cmd}
    (hm : y ∈ upd (upd f i q) i [] h) : h ≠ i ∧ y ∈ f h := by
  by_cases hh : h = i
  · simp [upd_apply, hh] at hm
  · simp only [upd_apply, hh, if_false] at hm; exact ⟨hh, hm⟩

theorem invG_rootHandle {v : Variant} {st : St} {x : Cmd} {q : List Cmd} (heq : st.chq st.rx = x :: q) (h : InvG v st) :
    InvG v (rootHandle v { st with chq := upd st.chq st.rx q, handled := st.handled + 1 } x) := by
  obtain ⟨h1, h2, h3, h4, h5, h6⟩ := h
  have hp : ∀ y h, y ∈ upd st.chq st.rx q h → y ∈ st.chq h := fun y h hm => mem_pop heq hm
  cases x with
  | reconfigure g =>
    have hg : g = st.rx + 1 := h3 st.rx g (by rw [heq]; exact List.mem_cons_self)
    have hg2 : g < st.ngen := h2 st.rx g (by rw [heq]; exact List.mem_cons_self)
    simp only [rootHandle, St.startNotify]
    refine ⟨hg2, ?_, ?_, ?_, ?_, h6⟩
    · intro h g' hm; exact h2 h g' (mem_reconf_chq hm).2
    · intro h g' hm; exact h3 h g' (mem_reconf_chq hm).2
    · show (if v.staleSender = true then st.sendGen else g) ≤ g
      split <;> omega
    · intro hv
      show (if v.staleSender = true then st.sendGen else g) = g
      simp [hv]
  | _ =>
    simp only [rootHandle, St.startNotify]
    exact ⟨h1, fun h g hm => h2 h g (hp _ _ hm), fun h g hm => h3 h g (hp _ _ hm), h4, h5, h6⟩

theorem invG_step {v : Variant} {st st' : St} {x : Step} (hs : step v st x = some st') (h : InvG v st) : InvG v st' := by
  cases x with
  | rootProc =>
    simp only [step] at hs
    split at hs
    · cases hs
    · split at hs
      · cases hs
      · rename_i x q heq
        cases hs
        exact invG_rootHandle heq h
  | cloneProc c =>
    simp only [step] at hs
    split at hs
    · split at hs
      · cases hs
      · rename_i x q heq
        cases hs
        obtain ⟨h1, h2, h3, h4, h5, h6⟩ := h
        cases x <;> simp only [cloneHandle] <;> (try split) <;> exact ⟨h1, h2, h3, h4, h5, h6⟩
    · cases hs
  | agentReconfigure =>
    obtain ⟨h1, h2, h3, h4, h5, h6⟩ := h
    simp only [step] at hs
    split at hs
    · split at hs
      · cases hs
        refine ⟨?_, ?_, ?_, h4, h5, h6⟩
        · show st.rx < st.ngen + 1; omega
        · intro h g hm
          show g < st.ngen + 1
          have hm' : Cmd.reconfigure g ∈ (st.push (st.ngen - 1) (Cmd.reconfigure st.ngen)).chq h := hm
          rcases mem_push hm' with hm | ⟨hm, _⟩
          · have := h2 h g hm; omega
          · cases hm; omega
        · intro h g hm
          have hm' : Cmd.reconfigure g ∈ (st.push (st.ngen - 1) (Cmd.reconfigure st.ngen)).chq h := hm
          rcases mem_push hm' with hm | ⟨hm, hh⟩
          · exact h3 h g hm
          · cases hm; subst hh; omega
      · cases hs
    · cases hs
      refine ⟨?_, ?_, h3, h4, h5, h6⟩
      · show st.rx < st.ngen + 1; omega
      · intro h g hm; show g < st.ngen + 1; have := h2 h g hm; omega
  | _ =>
    obtain ⟨h1, h2, h3, h4, h5, h6⟩ := h
    simp only [step] at hs
    repeat' split at hs
    all_goals first
      | (cases hs; done)
      | (cases hs; exact ⟨h1, h2, h3, h4, h5, h6⟩)
      | (cases hs
         refine ⟨h1, ?_, ?_, h4, h5, h6⟩
         · intro h g hm
           rcases mem_push hm with hm | ⟨hm, _⟩
           · exact h2 h g hm
           · cases hm
         · intro h g hm
           rcases mem_push hm with hm | ⟨hm, _⟩
           · exact h3 h g hm
           · cases hm)
      | (cases hs
         refine ⟨h1, h2, h3, h4, h5, ?_⟩
         intro hv; simp_all)

theorem invG_run {v : Variant} {st st' : St} {tr : List Step} (hs : run v st tr = some st') (h : InvG v st) : InvG v st' := by
  induction tr generalizing st with
  | nil => simp only [run] at hs; cases hs; exact h
  | cons x xs ih =>
    simp only [run] at hs
    split at hs
    · rename_i st1 h1; exact ih hs (invG_step h1 h)
    · cases hs

/-! ### InvS: which slots are in the subscription map -/

structure InvS (v : Variant) (st : St) : Prop where
  acked_via : ∀ s, (st.chans s).acked = true → (st.chans s).via ≤ st.rx
  acked_lt : ∀ s, (st.chans s).acked = true → s < st.nslots
  sub_lt : ∀ h s, Cmd.subscribe s ∈ st.chq h → s < st.nslots
  sub_via : ∀ h s, Cmd.subscribe s ∈ st.chq h → (st.chans s).via = h
  upd_cur : ∀ s ∈ st.updates, ((st.chans s).acked = true ∧ (st.chans s).via = st.rx) ∨ (st.chans s).res = true
  fsub_q : ∀ c s, Cmd.followSub s ∈ (st.pubs c).cmdq → (st.chans s).acked = true
  busy_sub : ∀ b s, st.busy = some b → b.cmd = .followSub s → (st.chans s).acked = true
  res_rep : v.followEdits = false → ∀ s, (st.chans s).res = false

theorem invS_init (v : Variant) (cap : Nat) : InvS v (init cap) := by
  refine ⟨?_, ?_, ?_, ?_, ?_, ?_, ?_, ?_⟩ <;> intros <;> simp_all [init]
  all_goals (split at * <;> simp_all)

/-- Steps that leave the served generation, the map, the slots' ghost flags alone and add no
    `Subscribe` / `FollowSubscribe`. -/
structure FrameS (st st' : St) : Prop where
  rx : st'.rx = st.rx
  nslots : st.nslots ≤ st'.nslots
  updates : st'.updates = st.updates
  chq : ∀ h s, Cmd.subscribe s ∈ st'.chq h → Cmd.subscribe s ∈ st.chq h
  cmdq : ∀ c s, Cmd.followSub s ∈ (st'.pubs c).cmdq → Cmd.followSub s ∈ (st.pubs c).cmdq
  busy : ∀ b' s, st'.busy = some b' → b'.cmd = .followSub s → ∃ b, st.busy = some b ∧ b.cmd = .followSub s
  acked : ∀ s, (st'.chans s).acked = (st.chans s).acked
  via : ∀ s, (st'.chans s).via = (st.chans s).via
  res : ∀ s, (st'.chans s).res = (st.chans s).res

theorem InvS.frame {v : Variant} {st st' : St} (f : FrameS st st') (h : InvS v st) : InvS v st' := by
  refine ⟨?_, ?_, ?_, ?_, ?_, ?_, ?_, ?_⟩
  · intro s ha; rw [f.acked] at ha; rw [f.via, f.rx]; exact h.acked_via s ha
  · intro s ha; rw [f.acked] at ha; exact Nat.lt_of_lt_of_le (h.acked_lt s ha) f.nslots
  · intro g s hm; exact Nat.lt_of_lt_of_le (h.sub_lt g s (f.chq g s hm)) f.nslots
  · intro g s hm; rw [f.via]; exact h.sub_via g s (f.chq g s hm)
  · intro s hs; rw [f.updates] at hs; rw [f.acked, f.via, f.rx, f.res]; exact h.upd_cur s hs
  · intro c s hm; rw [f.acked]; exact h.fsub_q c s (f.cmdq c s hm)
  · intro b' s hb hc; rw [f.acked]
    obtain ⟨b, hb1, hb2⟩ := f.busy b' s hb hc
    exact h.busy_sub b s hb1 hb2
  · intro hv s; rw [f.res]; exact h.res_rep hv s

macro "fs" : tactic => `(tactic|
  (refine ⟨?_, ?_, ?_, ?_, ?_, ?_, ?_, ?_, ?_⟩ <;> intros <;>
   (try simp only [St.push, St.startNotify, finish, upd_apply] at *) <;>
   first | (simp_all; done) | grind | omega))

theorem invS_linkSubscribe {v : Variant} {st st' : St} {s0 d g : Nat} (hs : step v st (.linkSubscribe s0 d g) = some st')
    (h : InvS v st) : InvS v st' := by
  simp only [step] at hs
  split at hs
  · rename_i hc
    obtain ⟨rfl, hg⟩ := hc
    have ha : (st.chans st.nslots).acked = false := by
      cases hh : (st.chans st.nslots).acked with
      | false => rfl
      | true => exact absurd (h.acked_lt _ hh) (Nat.lt_irrefl _)
    have hq : ∀ g', Cmd.subscribe st.nslots ∉ st.chq g' := fun g' hm => absurd (h.sub_lt g' _ hm) (Nat.lt_irrefl _)
    obtain ⟨h1, h2, h3, h4, h5, h6, h7, h8⟩ := h
    split at hs
    · split at hs
      · cases hs
        refine ⟨?_, ?_, ?_, ?_, ?_, ?_, ?_, ?_⟩
        · intro s hs; simp only [upd_apply] at hs ⊢; split at hs
          · simp_all
          · rename_i hne; simp only [hne, if_false]; exact h1 s hs
        · intro s hs; simp only [upd_apply] at hs; split at hs
          · simp_all
          · exact Nat.lt_succ_of_lt (h2 s hs)
        · intro g' s hm
          have hm' : Cmd.subscribe s ∈ (st.push g (Cmd.subscribe st.nslots)).chq g' := hm
          rcases mem_push hm' with hm | ⟨hm, _⟩
          · exact Nat.lt_succ_of_lt (h3 g' s hm)
          · cases hm; exact Nat.lt_succ_self _
        · intro g' s hm
          have hm' : Cmd.subscribe s ∈ (st.push g (Cmd.subscribe st.nslots)).chq g' := hm
          simp only [upd_apply]
          rcases mem_push hm' with hm | ⟨hm, hgg⟩
          · have hne : s ≠ st.nslots := Nat.ne_of_lt (h3 g' s hm)
            simp only [hne, if_false]; exact h4 g' s hm
          · cases hm; simp [hgg]
        · intro s hs
          have hs' : s ∈ st.updates := hs
          simp only [upd_apply]; split
          · subst_vars
            rcases h5 _ hs' with ⟨e, _⟩ | e
            · simp_all
            · exact Or.inr e
          · exact h5 s hs'
        · intro c s hm
          have := h6 c s hm
          simp only [upd_apply]; split <;> simp_all
        · intro b s hb hc
          have := h7 b s hb hc
          simp only [upd_apply]; split <;> simp_all
        · intro hv s
          have := h8 hv s
          simp only [upd_apply]; split <;> simp_all
      · cases hs
    · cases hs
      refine ⟨?_, ?_, ?_, ?_, ?_, ?_, ?_, ?_⟩
      · intro s hs; simp only [upd_apply] at hs ⊢; split at hs <;> simp_all
      · intro s hs; simp only [upd_apply] at hs; split at hs
        · simp_all
        · exact Nat.lt_succ_of_lt (h2 s hs)
      · intro g' s hm; exact Nat.lt_succ_of_lt (h3 g' s hm)
      · intro g' s hm
        have hne : s ≠ st.nslots := Nat.ne_of_lt (h3 g' s hm)
        simp only [upd_apply, hne, if_false]; exact h4 g' s hm
      · intro s hs
        have hs' : s ∈ st.updates := hs
        simp only [upd_apply]; split
        · subst_vars
          rcases h5 _ hs' with ⟨e, _⟩ | e
          · simp_all
          · exact Or.inr e
        · exact h5 s hs'
      · intro c s hm
        have := h6 c s hm
        simp only [upd_apply]; split <;> simp_all
      · intro b s hb hc
        have := h7 b s hb hc
        simp only [upd_apply]; split <;> simp_all
      · intro hv s
        have := h8 hv s
        simp only [upd_apply]; split <;> simp_all
  · cases hs

theorem invS_rootHandle {v : Variant} {st : St} {x : Cmd} {q : List Cmd} (heq : st.chq st.rx = x :: q)
    (hb : st.busy = none) (hG : InvG v st) (h : InvS v st) :
    InvS v (rootHandle v { st with chq := upd st.chq st.rx q, handled := st.handled + 1 } x) := by
  have hp : ∀ y g, y ∈ upd st.chq st.rx q g → y ∈ st.chq g := fun y g hm => mem_pop heq hm
  have hx : x ∈ st.chq st.rx := by rw [heq]; exact List.mem_cons_self
  obtain ⟨h1, h2, h3, h4, h5, h6, h7, h8⟩ := h
  cases x with
  | subscribe s0 =>
    have hlt := h3 _ _ hx
    have hvia := h4 _ _ hx
    simp only [rootHandle, St.startNotify]
    refine ⟨?_, ?_, ?_, ?_, ?_, ?_, ?_, ?_⟩
    · intro s hs; simp only [upd_apply] at hs ⊢; split at hs
      · subst_vars; simp [hvia]
      · rename_i hne; simp only [hne, if_false]; exact h1 s hs
    · intro s hs; simp only [upd_apply] at hs; split at hs
      · subst_vars; exact hlt
      · exact h2 s hs
    · intro g s hm; exact h3 g s (hp _ _ hm)
    · intro g s hm
      have := h4 g s (hp _ _ hm)
      simp only [upd_apply]; split <;> simp_all
    · intro s hs
      simp only [upd_apply]
      rcases mem_ins.mp hs with e | e
      · subst e; simp [hvia]
      · split
        · subst_vars; simp [hvia]
        · exact h5 s e
    · intro c s hm
      have := h6 c s hm
      simp only [upd_apply]; split <;> simp_all
    · intro b s hb' hc
      simp only [Option.some.injEq] at hb'
      subst hb'
      simp only [Cmd.followSub.injEq] at hc
      subst hc
      simp [upd_apply]
    · intro hv s
      have := h8 hv s
      simp only [upd_apply]; split <;> simp_all
  | unsubscribe s0 =>
    simp only [rootHandle, St.startNotify]
    refine ⟨?_, ?_, ?_, ?_, ?_, ?_, ?_, ?_⟩
    · intro s hs; simp only [upd_apply] at hs ⊢; split at hs <;> simp_all
    · intro s hs; simp only [upd_apply] at hs; split at hs <;> simp_all
    · intro g s hm; exact h3 g s (hp _ _ hm)
    · intro g s hm
      have := h4 g s (hp _ _ hm)
      simp only [upd_apply]; split <;> simp_all
    · intro s hs
      have := h5 s (mem_of_mem_del hs)
      simp only [upd_apply]; split <;> simp_all
    · intro c s hm
      have := h6 c s hm
      simp only [upd_apply]; split <;> simp_all
    · intro b s hb' hc
      simp only [Option.some.injEq] at hb'
      subst hb'
      simp at hc
    · intro hv s
      have := h8 hv s
      simp only [upd_apply]; split <;> simp_all
  | reconfigure g =>
    have hg : g = st.rx + 1 := hG.reconf_next st.rx g hx
    simp only [rootHandle, St.startNotify]
    refine ⟨?_, h2, ?_, ?_, ?_, h6, ?_, h8⟩
    · intro s hs; have := h1 s hs; show (st.chans s).via ≤ g; omega
    · intro g' s hm; exact h3 g' s (mem_reconf_chq hm).2
    · intro g' s hm; exact h4 g' s (mem_reconf_chq hm).2
    · intro s hs; simp at hs
    · intro b s hb' hc
      simp only [Option.some.injEq] at hb'
      subst hb'
      simp at hc
  | terminate =>
    simp only [rootHandle, St.startNotify]
    refine ⟨h1, h2, fun g s hm => h3 g s (hp _ _ hm), fun g s hm => h4 g s (hp _ _ hm), h5, h6, ?_, h8⟩
    intro b s hb' hc
    simp only [Option.some.injEq] at hb'
    subst hb'
    simp at hc
  | attach c => exact ⟨h1, h2, fun g s hm => h3 g s (hp _ _ hm), fun g s hm => h4 g s (hp _ _ hm), h5, h6, h7, h8⟩
  | detach c => exact ⟨h1, h2, fun g s hm => h3 g s (hp _ _ hm), fun g s hm => h4 g s (hp _ _ hm), h5, h6, h7, h8⟩
  | followSub s => exact ⟨h1, h2, fun g s hm => h3 g s (hp _ _ hm), fun g s hm => h4 g s (hp _ _ hm), h5, h6, h7, h8⟩
  | followUnsub s => exact ⟨h1, h2, fun g s hm => h3 g s (hp _ _ hm), fun g s hm => h4 g s (hp _ _ hm), h5, h6, h7, h8⟩
  | followReconf => exact ⟨h1, h2, fun g s hm => h3 g s (hp _ _ hm), fun g s hm => h4 g s (hp _ _ hm), h5, h6, h7, h8⟩

theorem invS_cloneHandle {v : Variant} {st : St} {c : Pub} {x : Cmd} {q : List Cmd} (heq : (st.pubs c).cmdq = x :: q)
    (h : InvS v st) :
    InvS v (cloneHandle v { st with pubs := upd st.pubs c { st.pubs c with cmdq := q, processed := (st.pubs c).processed + 1 } } c x) := by
  have hx : x ∈ (st.pubs c).cmdq := by rw [heq]; exact List.mem_cons_self
  obtain ⟨h1, h2, h3, h4, h5, h6, h7, h8⟩ := h
  have h6' : ∀ c' s, Cmd.followSub s ∈ (upd st.pubs c { st.pubs c with cmdq := q, processed := (st.pubs c).processed + 1 } c').cmdq →
      (st.chans s).acked = true := by
    intro c' s hm
    simp only [upd_apply] at hm
    split at hm
    · subst_vars; exact h6 _ s (by rw [heq]; exact List.mem_cons_of_mem _ hm)
    · exact h6 c' s hm
  cases x with
  | followSub s0 =>
    have hack := h6 c s0 hx
    simp only [cloneHandle]
    split
    · refine ⟨?_, ?_, h3, ?_, ?_, ?_, ?_, ?_⟩
      · intro s hs; simp only [upd_apply] at hs ⊢; split at hs <;> simp_all
      · intro s hs; simp only [upd_apply] at hs; split at hs <;> simp_all
      · intro g s hm
        have := h4 g s hm
        simp only [upd_apply]; split <;> simp_all
      · intro s hs
        simp only [upd_apply]
        rcases mem_ins.mp hs with e | e
        · subst e
          simp only [if_true]
          by_cases hv : (st.chans s).via = st.rx
          · by_cases hu : (st.chans s).unsubbed = true
            · right; simp [hu]
            · left; exact ⟨hack, hv⟩
          · right; simp [hv]
        · split
          · subst_vars
            rcases h5 _ e with ⟨a, b⟩ | a
            · exact Or.inl ⟨a, b⟩
            · right; simp [a]
          · exact h5 s e
      · intro c' s hm
        have := h6' c' s hm
        simp only [upd_apply]; split <;> simp_all
      · intro b s hb' hc
        have := h7 b s hb' hc
        simp only [upd_apply]; split <;> simp_all
      · intro hv; simp_all
    · exact ⟨h1, h2, h3, h4, h5, h6', h7, h8⟩
  | followUnsub s0 =>
    simp only [cloneHandle]
    split
    · exact ⟨h1, h2, h3, h4, fun s hs => h5 s (mem_of_mem_del hs), h6', h7, h8⟩
    · exact ⟨h1, h2, h3, h4, h5, h6', h7, h8⟩
  | followReconf =>
    simp only [cloneHandle]
    refine ⟨h1, h2, h3, h4, h5, ?_, h7, h8⟩
    intro c' s hm
    by_cases hc : c' = c
    · subst hc
      simp [upd_apply] at hm
      exact h6 _ s (by rw [heq]; exact List.mem_cons_of_mem _ hm)
    · simp [upd_apply, hc] at hm
      exact h6 c' s hm
  | terminate =>
    simp only [cloneHandle]
    refine ⟨h1, h2, h3, h4, h5, ?_, h7, h8⟩
    intro c' s hm
    by_cases hc : c' = c
    · subst hc
      simp [upd_apply] at hm
      exact h6 _ s (by rw [heq]; exact List.mem_cons_of_mem _ hm)
    · simp [upd_apply, hc] at hm
      exact h6 c' s hm
  | subscribe s => exact ⟨h1, h2, h3, h4, h5, h6', h7, h8⟩
  | unsubscribe s => exact ⟨h1, h2, h3, h4, h5, h6', h7, h8⟩
  | attach s => exact ⟨h1, h2, h3, h4, h5, h6', h7, h8⟩
  | detach s => exact ⟨h1, h2, h3, h4, h5, h6', h7, h8⟩
  | reconfigure s => exact ⟨h1, h2, h3, h4, h5, h6', h7, h8⟩

theorem invS_step {v : Variant} {st st' : St} {x : Step} (hs : step v st x = some st') (hG : InvG v st) (h : InvS v st) :
    InvS v st' := by
  cases x with
  | linkSubscribe s d g => exact invS_linkSubscribe hs h
  | rootProc =>
    simp only [step] at hs
    split at hs
    · cases hs
    · rename_i hcond
      split at hs
      · cases hs
      · rename_i x q heq
        cases hs
        refine invS_rootHandle heq ?_ hG h
        cases hb : st.busy with
        | none => rfl
        | some b => simp [hb] at hcond
  | cloneProc c =>
    simp only [step] at hs
    split at hs
    · split at hs
      · cases hs
      · rename_i x q heq
        cases hs
        exact invS_cloneHandle heq h
    · cases hs
  | rootNotify =>
    simp only [step] at hs
    split at hs
    · cases hs
    · rename_i b hb
      split at hs
      · cases hs
      · split at hs
        · cases hs; exact h.frame (by fs)
        · rename_i c R hR
          split at hs
          · split at hs
            · cases hs
              obtain ⟨h1, h2, h3, h4, h5, h6, h7, h8⟩ := h
              refine ⟨h1, h2, h3, h4, h5, ?_, ?_, h8⟩
              · intro c' s hm
                simp only [upd_apply] at hm
                split at hm
                · subst_vars
                  simp only [List.mem_append, List.mem_singleton] at hm
                  rcases hm with hm | hm
                  · exact h6 _ s hm
                  · exact h7 b s hb hm.symm
                · exact h6 c' s hm
              · intro b' s hb' hc
                simp only [Option.some.injEq] at hb'
                subst hb'
                exact h7 b s hb hc
            · cases hs
          · split at hs
            · cases hs; exact h.frame (by fs)
            · cases hs; exact h.frame (by fs)
  | _ =>
    simp only [step] at hs
    repeat' split at hs
    all_goals first
      | (cases hs; done)
      | (cases hs; exact h.frame (by fs))

theorem inv_run {v : Variant} {st st' : St} {tr : List Step} (hs : run v st tr = some st')
    (hB : InvB st) (hG : InvG v st) (hS : InvS v st) : InvB st' ∧ InvG v st' ∧ InvS v st' := by
  induction tr generalizing st with
  | nil => simp only [run] at hs; cases hs; exact ⟨hB, hG, hS⟩
  | cons x xs ih =>
    simp only [run] at hs
    split at hs
    · rename_i st1 h1; exact ih hs (invB_step h1 hB) (invG_step h1 hG) (invS_step h1 hG hS)
    · cases hs

theorem inv_reachable {v : Variant} {cap : Nat} {st : St} {tr : List Step} (hs : run v (init cap) tr = some st) :
    InvB st ∧ InvG v st ∧ InvS v st :=
  inv_run hs (invB_init cap) (invG_init v cap) (invS_init v cap)

end Rotonda.GateReconf
