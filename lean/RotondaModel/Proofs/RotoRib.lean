import RotondaModel.Model.RotoRib
import RotondaModel.Proofs.Roto
import RotondaModel.Proofs.Rib
/-! Helper lemmas for the bridge RotoRib: the RIB unit with a filter is the unfiltered RIB unit on the
    sieved payload list; one event through ingress filter ∘ RIB unit is the unfiltered `runFrom` on the
    sieved event; guards and vocabulary of C01–C03 carried across the sieve. -/
namespace Rotonda.RotoRib
open Rotonda
open Rotonda.Roto (Verdict Output Osm Down)
open Rotonda.Rib (Rib Mui AttrId Payload Route Ev History Nlri Prefix)

theorem filterResult_preP (c : Cfg) (pl : Payload) :
    Roto.filterResult c.preP pl = Roto.filterResult c.pre pl.route := by
  unfold Cfg.preP
  cases c.pre <;> rfl

theorem accepted_preP (c : Cfg) (ps : List Payload) :
    Roto.accepted c.preP ps = ps.filter fun pl => c.accR pl.route := by
  unfold Roto.accepted Cfg.accR
  congr 1
  funext pl
  rw [filterResult_preP]

/-- the RIB after `filter_payload` = the unfiltered inserts of exactly the accepted payloads -/
theorem filterPayload_state (c : Cfg) (r : Rib) (ps : List Payload) :
    (filterPayload c r ps).1 = (ps.filter fun pl => c.accR pl.route).foldl Rib.insertPayload r := by
  simp only [filterPayload, Roto.ribFilter]
  rw [Roto.ribLoop_state, accepted_preP]

theorem ribUnitAll_append (c : Cfg) (r : Rib) (a b : List In) :
    ribUnitAll c r (a ++ b) =
      ((ribUnitAll c (ribUnitAll c r a).1 b).1, (ribUnitAll c r a).2 ++ (ribUnitAll c (ribUnitAll c r a).1 b).2) := by
  induction a generalizing r with
  | nil => simp [ribUnitAll]
  | cons i is ih => simp only [List.cons_append, ribUnitAll, ih, List.append_assoc]

def In.isOs : In → Bool
  | .os _ => true
  | _ => false

theorem ribUnitAll_os (c : Cfg) (r : Rib) (is : List In) (h : ∀ i ∈ is, i.isOs = true) :
    (ribUnitAll c r is).1 = r := by
  induction is generalizing r with
  | nil => rfl
  | cons i is ih =>
    have hi := h i (List.mem_cons_self)
    cases i with
    | upd u => simp [In.isOs] at hi
    | os ms =>
      simp only [ribUnitAll, ribUnit]
      exact ih r (fun j hj => h j (List.mem_cons_of_mem _ hj))

theorem osOf_isOs (d : List Osm) (outs : List Output) :
    ∀ i ∈ (Roto.osOf (F := Rotonda.Rib.Update) d outs).map toIn, i.isOs = true := by
  intro i hi
  unfold Roto.osOf at hi
  split at hi
  · simp at hi
  · simp only [List.map_cons, List.map_nil, List.mem_singleton] at hi
    subst hi
    rfl

/-! ### the sieve commutes with the explosion -/

theorem keepN_none (c : Cfg) (a : AttrId) (n : Nlri) (h : n.route a = none) : c.keepN a n = true := by
  unfold Cfg.keepN; rw [h]

theorem keepN_some (c : Cfg) (a : AttrId) (n : Nlri) (rt : Route) (h : n.route a = some rt) :
    c.keepN a n = c.accR rt := by
  unfold Cfg.keepN; rw [h]

theorem verdict_cases (x : Verdict) : x = .accept ∨ x = .reject := by cases x <;> simp

theorem explodeList_filter (c : Cfg) (a : AttrId) (ns : List Nlri) :
    Rotonda.Rib.explodeList (ns.filter (c.keepN a)) a = (Rotonda.Rib.explodeList ns a).filter c.accR := by
  induction ns with
  | nil => rfl
  | cons n ns ih =>
    simp only [Rotonda.Rib.explodeList] at ih ⊢
    cases hr : n.route a with
    | none =>
      have hk := keepN_none c a n hr
      simp [List.filter_cons, hk, List.filterMap_cons, hr, ih]
    | some rt =>
      have hk := keepN_some c a n rt hr
      by_cases hacc : c.accR rt = true
      · simp [List.filter_cons, hk, hacc, List.filterMap_cons, hr, ih]
      · simp [List.filter_cons, hk, hacc, List.filterMap_cons, hr, ih]

theorem map_mkPayload_filter (c : Cfg) (ctx : Rotonda.Rib.Ctx) (m : Mui) (st : Rotonda.Rib.Status) (l : List Route) :
    (l.filter c.accR).map (Rotonda.Rib.mkPayload ctx m st)
      = (l.map (Rotonda.Rib.mkPayload ctx m st)).filter fun pl => c.accR pl.route := by
  induction l with
  | nil => rfl
  | cons rt l ih =>
    by_cases hk : c.accR rt = true
    · simp [List.filter_cons, hk, ih, Rotonda.Rib.mkPayload]
    · simp [List.filter_cons, hk, ih, Rotonda.Rib.mkPayload]

theorem filter_not_contains_sub (ann : List Nlri) (k : Nlri → Bool) (l : List Nlri)
    (hl : ∀ n ∈ l, ann.contains n = false) :
    l.filter (fun n => !((ann.filter k).contains n)) = l := by
  rw [List.filter_eq_self]
  intro n hn
  have := hl n hn
  simp only [List.contains_eq_mem, decide_eq_false_iff_not] at this
  simp only [List.contains_eq_mem, Bool.not_eq_true', decide_eq_false_iff_not, List.mem_filter, not_and]
  intro h; exact absurd h this

/-- the payload list of the sieved UPDATE is the accepted sub-list of the payload list of the UPDATE -/
theorem explode_sieveUpd (c : Cfg) (ctx : Rotonda.Rib.Ctx) (m : Mui) (a : AttrId) (ann wd : List Nlri) :
    Rotonda.Rib.explode c.rv ctx m (c.sieveUpd (.ok a ann wd))
      = (Rotonda.Rib.explode c.rv ctx m (.ok a ann wd)).map fun ps => ps.filter fun pl => c.accR pl.route := by
  simp only [Cfg.sieveUpd, Rotonda.Rib.explode, Option.map_some, Option.some.injEq, List.filter_append]
  rw [explodeList_filter, map_mkPayload_filter]
  congr 1
  cases hv : c.rv.overlapFix with
  | false =>
    simp only [Bool.false_eq_true, if_false]
    rw [explodeList_filter, map_mkPayload_filter]
  | true =>
    simp only [if_true]
    rw [filter_not_contains_sub ann (c.keepN a)]
    · rw [explodeList_filter, map_mkPayload_filter]
    · intro n hn
      simp only [List.mem_filter, Bool.not_eq_true'] at hn
      exact hn.1.2

/-! ### one event -/

theorem foldl_insert_apply_bulk (v : Rotonda.Rib.Variant) (r : Rib) (ps : List Payload) :
    r.applyAll v [.bulk ps] = ps.foldl Rib.insertPayload r := by
  simp [Rib.applyAll, Rib.apply]

theorem ingressUnit_reject (c : Cfg) (m : Mui) (a : AttrId) (ann wd : List Nlri)
    (hv : (Roto.filterResult c.ing (m, Rotonda.Rib.Upd.ok a ann wd)).1 = .reject) :
    ingressUnit c m (.ok a ann wd) =
      (Roto.osOf (Roto.drainSkipPd c.keepPdBgp (Roto.filterResult c.ing (m, Rotonda.Rib.Upd.ok a ann wd)).2)
        (Roto.filterResult c.ing (m, Rotonda.Rib.Upd.ok a ann wd)).2).map toIn := by
  simp only [ingressUnit]
  rw [Roto.handleMsg_eq, hv]

theorem ingressUnit_accept (c : Cfg) (m : Mui) (a : AttrId) (ann wd : List Nlri)
    (hv : (Roto.filterResult c.ing (m, Rotonda.Rib.Upd.ok a ann wd)).1 = .accept) :
    ingressUnit c m (.ok a ann wd) =
      (Roto.osOf (Roto.drainSkipPd c.keepPdBgp (Roto.filterResult c.ing (m, Rotonda.Rib.Upd.ok a ann wd)).2)
        (Roto.filterResult c.ing (m, Rotonda.Rib.Upd.ok a ann wd)).2).map toIn
      ++ (Rotonda.Rib.ingest c.rv .fresh m (.ok a ann wd)).map .upd := by
  simp only [ingressUnit]
  rw [Roto.handleMsg_eq, hv]
  simp [List.map_append, toIn, Function.comp_def]

theorem ev_state (c : Cfg) (r : Rib) (e : Ev) :
    (ribUnitAll c r (evIns c e)).1 = Rotonda.Rib.runFrom c.rv r (c.sieveEv e) := by
  cases e with
  | down m => simp [evIns, ribUnitAll, ribUnit, Cfg.sieveEv, Rotonda.Rib.runFrom, Ev.updates, Rib.applyAll]
  | downBulk ms => simp [evIns, ribUnitAll, ribUnit, Cfg.sieveEv, Rotonda.Rib.runFrom, Ev.updates, Rib.applyAll]
  | upd m u =>
    cases u with
    | malformed =>
      simp only [evIns, ingressUnit, ribUnitAll, Cfg.sieveEv, Cfg.sieveUpd]
      split <;> simp [Rotonda.Rib.runFrom, Ev.updates, Rotonda.Rib.ingest, Rotonda.Rib.explode, Rib.applyAll]
    | ok a ann wd =>
      rcases verdict_cases (Roto.filterResult c.ing (m, Rotonda.Rib.Upd.ok a ann wd)).1 with hv | hv
      · have hacc : c.accI m (.ok a ann wd) = true := by simp [Cfg.accI, hv]
        simp only [evIns, Cfg.sieveEv, hacc, if_true]
        rw [ingressUnit_accept c m a ann wd hv, ribUnitAll_append, ribUnitAll_os c r _ (osOf_isOs _ _)]
        simp only [Rotonda.Rib.runFrom, List.foldl_cons, List.foldl_nil, Ev.updates, Rotonda.Rib.ingest]
        rw [explode_sieveUpd]
        simp only [Rotonda.Rib.explode, Option.map_some, List.map_cons, List.map_nil, ribUnitAll, ribUnit]
        rw [filterPayload_state, foldl_insert_apply_bulk]
      · have hacc : c.accI m (.ok a ann wd) = false := by simp [Cfg.accI, hv]
        simp only [evIns, Cfg.sieveEv, hacc, Bool.false_eq_true, if_false, Rotonda.Rib.runFrom, List.foldl_nil]
        rw [ingressUnit_reject c m a ann wd hv]
        exact ribUnitAll_os c r _ (osOf_isOs _ _)

theorem pipeFrom_cons (c : Cfg) (r : Rib) (e : Ev) (h : History) :
    (pipeFrom c r (e :: h)).1 = (pipeFrom c (ribUnitAll c r (evIns c e)).1 h).1 := by
  simp only [pipeFrom, List.flatMap_cons]
  rw [ribUnitAll_append]

theorem runFrom_append (v : Rotonda.Rib.Variant) (r : Rib) (h1 h2 : History) :
    Rotonda.Rib.runFrom v r (h1 ++ h2) = Rotonda.Rib.runFrom v (Rotonda.Rib.runFrom v r h1) h2 := by
  simp [Rotonda.Rib.runFrom, List.foldl_append]

theorem pipeFrom_state (c : Cfg) (r : Rib) (h : History) :
    (pipeFrom c r h).1 = Rotonda.Rib.runFrom c.rv r (c.sieve h) := by
  induction h generalizing r with
  | nil => rfl
  | cons e h ih =>
    rw [pipeFrom_cons, ih, ev_state]
    simp only [Cfg.sieve, List.flatMap_cons]
    rw [runFrom_append]

/-! ### vocabulary of C01–C03 across the sieve -/

theorem sieve_append (c : Cfg) (h1 h2 : History) : c.sieve (h1 ++ h2) = c.sieve h1 ++ c.sieve h2 := by
  simp [Cfg.sieve, List.flatMap_append]

theorem sieve_cons (c : Cfg) (e : Ev) (h : History) : c.sieve (e :: h) = c.sieveEv e ++ c.sieve h := by
  simp [Cfg.sieve, List.flatMap_cons]

/-- a predicate that holds of no image of an event it does not hold of, holds of no event of the sieved history -/
theorem all_sieve (c : Cfg) (q : Ev → Bool) (hq : ∀ e, q e = true → ∀ e' ∈ c.sieveEv e, q e' = true) (h : History)
    (hh : h.all q = true) : (c.sieve h).all q = true := by
  simp only [Cfg.sieve, List.all_eq_true, List.mem_flatMap] at hh ⊢
  rintro e' ⟨e, he, he'⟩
  exact hq e (hh e he) e' he'

theorem mem_sieveEv_upd (c : Cfg) (e e' : Ev) (h : e' ∈ c.sieveEv e) :
    e' = e ∨ ∃ m u, e = .upd m u ∧ e' = .upd m (c.sieveUpd u) ∧ c.accI m u = true := by
  cases e with
  | down m => left; simpa [Cfg.sieveEv] using h
  | downBulk ms => left; simpa [Cfg.sieveEv] using h
  | upd m u =>
    right
    simp only [Cfg.sieveEv] at h
    split at h
    · rename_i ha
      simp only [List.mem_singleton] at h
      exact ⟨m, u, rfl, h, ha⟩
    · simp at h

theorem mem_ann_sieve (c : Cfg) (a : AttrId) (ann : List Nlri) (n : Nlri) :
    n ∈ ann.filter (c.keepN a) → n ∈ ann := fun h => (List.mem_filter.mp h).1

theorem mem_wd_sieve (b : Bool) (q k : Nlri → Bool) (wd : List Nlri) (n : Nlri) :
    n ∈ ((if b = true then wd.filter q else wd).filter k) → n ∈ wd := by
  intro h
  have h1 := (List.mem_filter.mp h).1
  split at h1
  · exact (List.mem_filter.mp h1).1
  · exact h1

theorem isUpd_sieve (c : Cfg) (h : History) (hh : h.all Ev.isUpd = true) : (c.sieve h).all Ev.isUpd = true := by
  apply all_sieve c _ _ h hh
  intro e he e' he'
  rcases mem_sieveEv_upd c e e' he' with rfl | ⟨m, u, _, rfl, _⟩
  · exact he
  · rfl

theorem noOverlap_sieve (c : Cfg) (h : History) (hh : h.all Ev.noOverlap = true) :
    (c.sieve h).all Ev.noOverlap = true := by
  apply all_sieve c _ _ h hh
  intro e he e' he'
  rcases mem_sieveEv_upd c e e' he' with rfl | ⟨m, u, rfl, rfl, _⟩
  · exact he
  · cases u with
    | malformed => rfl
    | ok a ann wd =>
      simp only [Ev.noOverlap, Rotonda.Rib.Upd.noOverlap, List.all_eq_true, Bool.not_eq_true',
        List.contains_eq_mem, decide_eq_false_iff_not, Cfg.sieveUpd] at he ⊢
      intro n hn hw
      exact he n (mem_ann_sieve c a ann n hn) (mem_wd_sieve _ _ _ wd n hw)

theorem mentions_sieve (c : Cfg) (mc : Bool) (p : Prefix) (e e' : Ev) (he' : e' ∈ c.sieveEv e)
    (hm : e'.mentions mc p = true) : e.mentions mc p = true := by
  rcases mem_sieveEv_upd c e e' he' with rfl | ⟨m, u, rfl, rfl, _⟩
  · exact hm
  · cases u with
    | malformed => simp [Cfg.sieveUpd, Ev.mentions] at hm
    | ok a ann wd =>
      simp only [Ev.mentions, Cfg.sieveUpd, Bool.or_eq_true, List.contains_eq_mem, decide_eq_true_eq] at hm ⊢
      rcases hm with hm | hm
      · exact Or.inl (mem_ann_sieve c a ann _ hm)
      · exact Or.inr (mem_wd_sieve _ _ _ wd _ hm)

theorem any_mentions_sieve (c : Cfg) (mc : Bool) (p : Prefix) (h : History)
    (hh : h.any (Ev.mentions mc p) = false) : (c.sieve h).any (Ev.mentions mc p) = false := by
  rw [Bool.eq_false_iff] at hh ⊢
  intro hs
  apply hh
  simp only [Cfg.sieve, List.any_eq_true, List.mem_flatMap] at hs ⊢
  obtain ⟨e', ⟨e, he, he'⟩, hm⟩ := hs
  exact ⟨e, he, mentions_sieve c mc p e e' he' hm⟩

theorem singleSafi_sieve (c : Cfg) (h : History) (p : Prefix) (hs : Rotonda.Rib.singleSafi h p = true) :
    Rotonda.Rib.singleSafi (c.sieve h) p = true := by
  simp only [Rotonda.Rib.singleSafi, Bool.or_eq_true, Bool.not_eq_true'] at hs ⊢
  rcases hs with hs | hs
  · exact Or.inl (any_mentions_sieve c false p h hs)
  · exact Or.inr (any_mentions_sieve c true p h hs)

theorem touches_sieve (c : Cfg) (mc : Bool) (p : Prefix) (m : Mui) (e e' : Ev) (he' : e' ∈ c.sieveEv e)
    (hm : e'.touches mc p m = true) : e.touches mc p m = true := by
  rcases mem_sieveEv_upd c e e' he' with rfl | ⟨m', u, rfl, rfl, _⟩
  · exact hm
  · cases u with
    | malformed => simp [Cfg.sieveUpd, Ev.touches, Ev.downs] at hm
    | ok a ann wd =>
      simp only [Ev.touches, Ev.downs, Cfg.sieveUpd, Bool.false_or, Bool.and_eq_true, decide_eq_true_eq,
        Bool.or_eq_true, List.contains_eq_mem] at hm ⊢
      refine ⟨hm.1, ?_⟩
      rcases hm.2 with hm | hm
      · exact Or.inl (mem_ann_sieve c a ann _ hm)
      · exact Or.inr (mem_wd_sieve _ _ _ wd _ hm)

theorem untouched_sieve (c : Cfg) (mc : Bool) (p : Prefix) (m : Mui) (h : History)
    (hh : h.all (fun e => !(e.touches mc p m)) = true) :
    (c.sieve h).all (fun e => !(e.touches mc p m)) = true := by
  simp only [Cfg.sieve, List.all_eq_true, List.mem_flatMap, Bool.not_eq_true'] at hh ⊢
  rintro e' ⟨e, he, he'⟩
  rw [Bool.eq_false_iff]
  intro ht
  have := touches_sieve c mc p m e e' he' ht
  rw [hh e he] at this
  exact Bool.false_ne_true this

theorem announces_sieve (c : Cfg) (mc : Bool) (p : Prefix) (m : Mui) (e e' : Ev) (he' : e' ∈ c.sieveEv e)
    (hm : e'.announces mc p m = true) : e.announces mc p m = true := by
  rcases mem_sieveEv_upd c e e' he' with rfl | ⟨m', u, rfl, rfl, _⟩
  · exact hm
  · cases u with
    | malformed => simp [Cfg.sieveUpd, Ev.announces] at hm
    | ok a ann wd =>
      simp only [Ev.announces, Cfg.sieveUpd, Bool.and_eq_true, decide_eq_true_eq, List.contains_eq_mem] at hm ⊢
      exact ⟨hm.1, mem_ann_sieve c a ann _ hm.2⟩

theorem not_announces_sieve (c : Cfg) (mc : Bool) (p : Prefix) (m : Mui) (h : History)
    (hh : h.all (fun e => !(e.announces mc p m)) = true) :
    (c.sieve h).all (fun e => !(e.announces mc p m)) = true := by
  simp only [Cfg.sieve, List.all_eq_true, List.mem_flatMap, Bool.not_eq_true'] at hh ⊢
  rintro e' ⟨e, he, he'⟩
  rw [Bool.eq_false_iff]
  intro ht
  have := announces_sieve c mc p m e e' he' ht
  rw [hh e he] at this
  exact Bool.false_ne_true this

/-- session-level withdrawals are never sieved: the sieved history has the same ones -/
theorem any_downs_sieve (c : Cfg) (m : Mui) (h : History) :
    (c.sieve h).any (Ev.downs m) = h.any (Ev.downs m) := by
  induction h with
  | nil => rfl
  | cons e h ih =>
    rw [sieve_cons, List.any_append, ih, List.any_cons]
    congr 1
    cases e with
    | down m' => simp [Cfg.sieveEv]
    | downBulk ms => simp [Cfg.sieveEv]
    | upd m' u =>
      simp only [Cfg.sieveEv, Ev.downs]
      split <;> simp [Ev.downs]

theorem sieveEv_down (c : Cfg) (d : Ev) (hd : d.isUpd = false) : c.sieveEv d = [d] := by
  cases d with
  | upd m u => simp [Ev.isUpd] at hd
  | down m => rfl
  | downBulk ms => rfl

/-! ### a source whose announcements of `(mc, p)` are all rejected has no record -/

theorem specEv_none (v : Rotonda.Rib.Variant) (mc : Bool) (p : Prefix) (m : Mui) (s : Rotonda.Rib.Abs) (e : Ev)
    (hs : s.e = none) (ha : e.announces mc p m = false) : (Rotonda.Rib.specEv v mc p m s e).e = none := by
  cases e with
  | down m' =>
    simp only [Rotonda.Rib.specEv, Rotonda.Rib.specDown]
    split
    · split <;> simp [hs]
    · exact hs
  | downBulk ms =>
    simp only [Rotonda.Rib.specEv, Rotonda.Rib.specDown]
    split
    · split <;> simp [hs]
    · exact hs
  | upd m' u =>
    simp only [Rotonda.Rib.specEv]
    split
    · rename_i hm
      cases u with
      | malformed => simpa [Rotonda.Rib.specUpd] using hs
      | ok a ann wd =>
        simp only [Ev.announces, hm, decide_true, Bool.true_and, List.contains_eq_mem, decide_eq_false_iff_not] at ha
        simp only [Rotonda.Rib.specUpd, ha, decide_false, Bool.false_eq_true, if_false, hs, Option.map_none]
        split <;> split <;> rfl
    · exact hs

theorem foldl_specEv_none (v : Rotonda.Rib.Variant) (mc : Bool) (p : Prefix) (m : Mui) (h : History)
    (hh : h.all (fun e => !(e.announces mc p m)) = true) (s : Rotonda.Rib.Abs) (hs : s.e = none) :
    (h.foldl (Rotonda.Rib.specEv v mc p m) s).e = none := by
  induction h generalizing s with
  | nil => exact hs
  | cons e h ih =>
    simp only [List.all_cons, Bool.and_eq_true, Bool.not_eq_true'] at hh
    rw [List.foldl_cons]
    exact ih hh.2 _ (specEv_none v mc p m s e hs hh.1)

/-- the sieved image of an event announces `(mc, p)` for `m` only if both filters accept that announcement -/
theorem announcesAcc_of_sieve (c : Cfg) (mc : Bool) (p : Prefix) (m : Mui) (e e' : Ev) (he' : e' ∈ c.sieveEv e)
    (hm : e'.announces mc p m = true) : c.announcesAcc mc p m e = true := by
  cases e with
  | down m' => simp [Cfg.sieveEv] at he'; subst he'; simp [Ev.announces] at hm
  | downBulk ms => simp [Cfg.sieveEv] at he'; subst he'; simp [Ev.announces] at hm
  | upd m' u =>
    simp only [Cfg.sieveEv] at he'
    split at he'
    · rename_i hacc
      simp only [List.mem_singleton] at he'
      subst he'
      cases u with
      | malformed => simp [Cfg.sieveUpd, Ev.announces] at hm
      | ok a ann wd =>
        simp only [Ev.announces, Cfg.sieveUpd, Bool.and_eq_true, decide_eq_true_eq, List.contains_eq_mem,
          List.mem_filter] at hm
        obtain ⟨hm1, hmem, hkeep⟩ := hm
        subst hm1
        have hr : c.accR ⟨p, mc, a⟩ = true := by
          cases mc <;> simpa [Cfg.keepN, Nlri.route, Rotonda.Rib.safiOf] using hkeep
        simp [Cfg.announcesAcc, hmem, hacc, hr]
    · simp at he'

theorem mem_query_entry (r : Rib) (h : r.WF) (p : Prefix) (m : Mui) (st : Rotonda.Rib.Status) (a : AttrId)
    (hmem : (⟨m, st, a⟩ : Rotonda.Rib.Rec) ∈ r.query p {}) : ∃ mc, r.entry mc p m = some (st, a) := by
  by_cases he : (r.unicast.matchExact p {}).isEmpty = true
  · simp only [Rib.query, he, if_true] at hmem
    exact ⟨true, (Rotonda.Rib.Store.mem_matchExact _ h.2 p m st a).mp hmem⟩
  · simp only [Rib.query, he, Bool.false_eq_true, if_false] at hmem
    exact ⟨false, (Rotonda.Rib.Store.mem_matchExact _ h.1 p m st a).mp hmem⟩

/-! ### the payloads offered to `rib-in-pre` -/

theorem payloads_os (i : In) (h : i.isOs = true) : i.payloads = [] := by
  cases i with
  | os ms => rfl
  | upd u => simp [In.isOs] at h

theorem mem_preCalls (c : Cfg) (h : History) (pl : Payload) (hp : pl ∈ preCalls c h) :
    ∃ m u ps, Ev.upd m u ∈ h ∧ c.accI m u = true ∧ Rotonda.Rib.explode c.rv .fresh m u = some ps ∧ pl ∈ ps := by
  simp only [preCalls, List.mem_flatMap] at hp
  obtain ⟨i, ⟨e, he, hi⟩, hpl⟩ := hp
  cases e with
  | down m => simp [evIns] at hi; subst hi; simp [In.payloads] at hpl
  | downBulk ms => simp [evIns] at hi; subst hi; simp [In.payloads] at hpl
  | upd m u =>
    cases u with
    | malformed => simp [evIns, ingressUnit] at hi
    | ok a ann wd =>
      simp only [evIns] at hi
      rcases verdict_cases (Roto.filterResult c.ing (m, Rotonda.Rib.Upd.ok a ann wd)).1 with hv | hv
      · rw [ingressUnit_accept c m a ann wd hv] at hi
        simp only [List.mem_append] at hi
        rcases hi with hi | hi
        · have := osOf_isOs _ _ i hi
          rw [payloads_os i this] at hpl
          simp at hpl
        · simp only [Rotonda.Rib.ingest, Rotonda.Rib.explode, List.map_cons, List.map_nil, List.mem_singleton] at hi
          subst hi
          refine ⟨m, .ok a ann wd, _, he, ?_, rfl, hpl⟩
          simp [Cfg.accI, hv]
      · rw [ingressUnit_reject c m a ann wd hv] at hi
        have := osOf_isOs _ _ i hi
        rw [payloads_os i this] at hpl
        simp at hpl

end Rotonda.RotoRib
