import RotondaModel.Model.Roto
/-! Helper lemmas for C10 (drain loops, the RIB loop, `emitted`/`forwarded`). -/
namespace Rotonda.Roto

theorem emitted_append {F : Type} (a b : List (Down F)) : emitted (a ++ b) = emitted a ++ emitted b := by
  induction a with
  | nil => rfl
  | cons x xs ih => cases x <;> simp [emitted, ih]

theorem forwarded_append {F : Type} (a b : List (Down F)) : forwarded (a ++ b) = forwarded a ++ forwarded b := by
  induction a with
  | nil => rfl
  | cons x xs ih => cases x <;> simp [forwarded, ih]

theorem emitted_map_fwd {F : Type} (fs : List F) : emitted (fs.map (Down.fwd)) = [] := by
  induction fs with
  | nil => rfl
  | cons x xs ih => simp [emitted, ih]

theorem forwarded_map_fwd {F : Type} (fs : List F) : forwarded (fs.map (Down.fwd)) = fs := by
  induction fs with
  | nil => rfl
  | cons x xs ih => simp [forwarded, ih]

theorem emitted_osOf {F : Type} (d : List Osm) (outs : List Output) (h : outs = [] → d = []) :
    emitted (osOf (F := F) d outs) = d := by
  unfold osOf
  cases outs with
  | nil => simp [emitted, h rfl]
  | cons x xs => simp [emitted]

theorem forwarded_osOf {F : Type} (d : List Osm) (outs : List Output) :
    forwarded (osOf (F := F) d outs) = [] := by
  unfold osOf
  split <;> simp [forwarded]

theorem drainSkipPd_keep (outs : List Output) : drainSkipPd true outs = outs.map Output.toOsm := by
  induction outs with
  | nil => rfl
  | cons x xs ih => simp [drainSkipPd] at ih ⊢

theorem drainSkipPd_nopd (k : Bool) (outs : List Output) (h : Output.peerDown ∉ outs) :
    drainSkipPd k outs = outs.map Output.toOsm := by
  induction outs with
  | nil => rfl
  | cons x xs ih =>
    have hx : x ≠ .peerDown := fun e => h (by simp [e])
    have hxs : Output.peerDown ∉ xs := fun e => h (by simp [e])
    have := ih hxs
    simp [drainSkipPd, hx] at this ⊢
    exact this

theorem drainSkipPd_asWritten (outs : List Output) :
    drainSkipPd false outs = (outs.filter (· ≠ .peerDown)).map Output.toOsm := by
  induction outs with
  | nil => rfl
  | cons x xs ih =>
    by_cases hx : x = .peerDown
    · simp [drainSkipPd, hx] at ih ⊢; exact ih
    · simp [drainSkipPd, hx] at ih ⊢; exact ih

theorem drainBmp_keep (pd : Bool) (outs : List Output) : drainBmp true pd outs = outs.map Output.toOsm := by
  induction outs with
  | nil => rfl
  | cons x xs ih => simp [drainBmp] at ih ⊢

theorem drainBmp_isPd (k : Bool) (outs : List Output) : drainBmp k true outs = outs.map Output.toOsm := by
  induction outs with
  | nil => rfl
  | cons x xs ih => simp [drainBmp] at ih ⊢

theorem drainBmp_nopd (k pd : Bool) (outs : List Output) (h : Output.peerDown ∉ outs) :
    drainBmp k pd outs = outs.map Output.toOsm := by
  induction outs with
  | nil => rfl
  | cons x xs ih =>
    have hx : x ≠ .peerDown := fun e => h (by simp [e])
    have hxs : Output.peerDown ∉ xs := fun e => h (by simp [e])
    have := ih hxs
    simp [drainBmp, hx] at this ⊢
    exact this

theorem handleMsg_eq {σ M F : Type} (drain : M → List Output → List Osm)
    (filter : Option (M → Verdict × List Output)) (process : σ → M → σ × List F) (s : σ) (m : M) :
    handleMsg drain filter process s m =
      (match (filterResult filter m).1 with
       | .accept => ((process s m).1, osOf (drain m (filterResult filter m).2) (filterResult filter m).2 ++ (process s m).2.map .fwd)
       | .reject => (s, osOf (drain m (filterResult filter m).2) (filterResult filter m).2)) := rfl

/-- the payloads the filter accepts, in order -/
def accepted {P : Type} (filter : Option (P → Verdict × List Output)) (ps : List P) : List P :=
  ps.filter fun p => (filterResult filter p).1 = .accept

/-- all output entries of the calls, in call order -/
def allOutputs {P : Type} (filter : Option (P → Verdict × List Output)) (ps : List P) : List Output :=
  ps.flatMap fun p => (filterResult filter p).2

theorem ribLoop_state {σ P : Type} (k : Bool) (filter : Option (P → Verdict × List Output))
    (insert : σ → P → σ) (s : σ) (ps : List P) :
    (ribLoop k filter insert s ps).1 = (accepted filter ps).foldl insert s := by
  induction ps generalizing s with
  | nil => rfl
  | cons p ps ih =>
    simp only [ribLoop, accepted, List.filter_cons]
    cases h : (filterResult filter p).1 <;> simp [ih, accepted]

theorem ribLoop_accepted {σ P : Type} (k : Bool) (filter : Option (P → Verdict × List Output))
    (insert : σ → P → σ) (s : σ) (ps : List P) :
    (ribLoop k filter insert s ps).2.1 = accepted filter ps := by
  induction ps generalizing s with
  | nil => rfl
  | cons p ps ih =>
    simp only [ribLoop, accepted, List.filter_cons]
    cases h : (filterResult filter p).1 <;> simp [ih, accepted]

theorem ribLoop_forwarded {σ P : Type} (k : Bool) (filter : Option (P → Verdict × List Output))
    (insert : σ → P → σ) (s : σ) (ps : List P) :
    forwarded (ribLoop k filter insert s ps).2.2 = [] := by
  induction ps generalizing s with
  | nil => rfl
  | cons p ps ih =>
    simp only [ribLoop]
    rw [forwarded_append, ih, forwarded_osOf]
    rfl

theorem ribLoop_emitted {σ P : Type} (k : Bool) (filter : Option (P → Verdict × List Output))
    (insert : σ → P → σ) (s : σ) (ps : List P) :
    emitted (ribLoop k filter insert s ps).2.2 =
      ps.flatMap fun p => drainSkipPd k (filterResult filter p).2 := by
  induction ps generalizing s with
  | nil => rfl
  | cons p ps ih =>
    simp only [ribLoop, List.flatMap_cons]
    rw [emitted_append, ih]
    congr 1
    exact emitted_osOf (F := RibFwd P) _ _ (fun h => by simp [h, drainSkipPd])

theorem emitted_ribForward {P : Type} (ps : List P) : emitted (ribForward ps) = [] := by
  unfold ribForward
  split <;> simp [emitted]

theorem forwarded_ribForward {P : Type} (ps : List P) :
    forwarded (ribForward ps) = (match ps with | [] => [] | [p] => [RibFwd.single p] | ps => [RibFwd.bulk ps]) := by
  unfold ribForward
  split <;> simp [forwarded]

end Rotonda.Roto

namespace Rotonda.Roto

theorem state_handleMsg {σ M F : Type} (drain : M → List Output → List Osm)
    (filter : Option (M → Verdict × List Output)) (process : σ → M → σ × List F) (s : σ) (m : M) :
    (handleMsg drain filter process s m).1 =
      (match (filterResult filter m).1 with | .accept => (process s m).1 | .reject => s) := by
  rw [handleMsg_eq]; cases (filterResult filter m).1 <;> rfl

theorem forwarded_handleMsg {σ M F : Type} (drain : M → List Output → List Osm)
    (filter : Option (M → Verdict × List Output)) (process : σ → M → σ × List F) (s : σ) (m : M) :
    forwarded (handleMsg drain filter process s m).2 =
      (match (filterResult filter m).1 with | .accept => (process s m).2 | .reject => []) := by
  rw [handleMsg_eq]
  cases (filterResult filter m).1
  · simp [forwarded_append, forwarded_osOf, forwarded_map_fwd]
  · simp [forwarded_osOf]

theorem emitted_handleMsg {σ M F : Type} (drain : M → List Output → List Osm)
    (hnil : ∀ m, drain m [] = [])
    (filter : Option (M → Verdict × List Output)) (process : σ → M → σ × List F) (s : σ) (m : M) :
    emitted (handleMsg drain filter process s m).2 = drain m (filterResult filter m).2 := by
  rw [handleMsg_eq]
  have h := emitted_osOf (F := F) (drain m (filterResult filter m).2) (filterResult filter m).2
    (fun e => by rw [e]; exact hnil m)
  cases (filterResult filter m).1
  · simp [emitted_append, emitted_map_fwd, h]
  · simp [h]

theorem drainSkipPd_nil (k : Bool) : drainSkipPd k [] = [] := rfl
theorem drainBmp_nil (k pd : Bool) : drainBmp k pd [] = [] := rfl

/-- the unfiltered handler run over the messages -/
theorem handleMsgs_sieve {σ M F : Type} (drain : M → List Output → List Osm)
    (filter : Option (M → Verdict × List Output)) (process : σ → M → σ × List F) (s : σ) (ms : List M) :
    (handleMsgs drain filter process s ms).1 = (handleMsgs drain none process s (accepted filter ms)).1 ∧
    forwarded (handleMsgs drain filter process s ms).2 =
      forwarded (handleMsgs drain none process s (accepted filter ms)).2 := by
  induction ms generalizing s with
  | nil => exact ⟨rfl, rfl⟩
  | cons m ms ih =>
    simp only [handleMsgs, accepted, List.filter_cons]
    cases h : (filterResult filter m).1
    · -- accepted
      have hs := state_handleMsg drain filter process s m
      have hf := forwarded_handleMsg drain filter process s m
      have hs0 := state_handleMsg drain none process s m
      have hf0 := forwarded_handleMsg drain none process s m
      simp only [h] at hs hf
      simp only [filterResult] at hs0 hf0
      simp only [decide_true, ite_true, handleMsgs, forwarded_append, hs, hf, hs0, hf0]
      have := ih (process s m).1
      simp only [accepted] at this
      exact ⟨this.1, by rw [this.2]⟩
    · -- rejected
      have hs := state_handleMsg drain filter process s m
      have hf := forwarded_handleMsg drain filter process s m
      simp only [h] at hs hf
      have := ih s
      simp only [accepted] at this
      simp [forwarded_append, hs, hf, this.1, this.2]

theorem handleMsgs_emitted {σ M F : Type} (drain : M → List Output → List Osm)
    (hnil : ∀ m, drain m [] = [])
    (filter : Option (M → Verdict × List Output)) (process : σ → M → σ × List F) (s : σ) (ms : List M) :
    emitted (handleMsgs drain filter process s ms).2 =
      ms.flatMap fun m => drain m (filterResult filter m).2 := by
  induction ms generalizing s with
  | nil => rfl
  | cons m ms ih =>
    simp only [handleMsgs, List.flatMap_cons, emitted_append, ih, emitted_handleMsg drain hnil]

theorem closed_exec (env : List Const) (v : View) (p : Prog) (h : p.closed = true) :
    ((p.exec env v).2).isSome = true := by
  induction p with
  | ret x => rfl
  | fall => simp [Prog.closed] at h
  | out o k ih => simp only [Prog.closed] at h; simpa [Prog.exec] using ih h
  | ite c t e iht ihe =>
    simp only [Prog.closed, Bool.and_eq_true] at h
    simp only [Prog.exec]
    split
    · exact iht h.1
    · exact ihe h.2
  | blk b k ihb ihk =>
    simp only [Prog.closed, Bool.or_eq_true] at h
    simp only [Prog.exec]
    cases hb : b.exec env v with
    | mk o r =>
      cases r with
      | some x => simp
      | none =>
        simp only
        rcases h with h | h
        · have := ihb h; simp [hb] at this
        · exact ihk h

end Rotonda.Roto
