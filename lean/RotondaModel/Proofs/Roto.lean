import RotondaModel.Model.Roto
/-! Helper lemmas for C10 (drain loops, the RIB loop, `emitted`/`forwarded`). -/
namespace Rotonda.Roto

theorem emitted_append {F : Type} (a b : List (Down F)) : emitted (a ++ b) = emitted a ++ emitted b := by
  induction a with
  | nil => rfl
  | cons x xs ih => cases x <;> simp [emitted, ih]

theorem forwarded_append {F : Type} (a b : List (Down F)) : forwarded (a ++ b) = forwarded a ++ forwarded b := by
  induction a with
  | nil => rfl
  | cons x xs ih => cases x <;> simp [forwarded, ih]

theorem emitted_map_fwd {F : Type} (fs : List F) : emitted (fs.map (Down.fwd)) = [] := by
  induction fs with
  | nil => rfl
  | cons x xs ih => simp [emitted, ih]

theorem forwarded_map_fwd {F : Type} (fs : List F) : forwarded (fs.map (Down.fwd)) = fs := by
  induction fs with
  | nil => rfl
  | cons x xs ih => simp [forwarded, ih]

theorem emitted_osOf {F : Type} (d : List Osm) (outs : List Output) (h : outs = [] → d = []) :
    emitted (osOf (F := F) d outs) = d := by
  unfold osOf
  cases outs with
  | nil => simp [emitted, h rfl]
  | cons x xs => simp [emitted]

theorem forwarded_osOf {F : Type} (d : List Osm) (outs : List Output) :
    forwarded (osOf (F := F) d outs) = [] := by
  unfold osOf
  split <;> simp [forwarded]

theorem drainSkipPd_keep (outs : List Output) : drainSkipPd true outs = outs.map Output.toOsm := by
  induction outs with
  | nil => rfl
  | cons x xs ih => simp [drainSkipPd] at ih ⊢

theorem drainSkipPd_nopd (k : Bool) (outs : List Output) (h : Output.peerDown ∉ outs) :
    drainSkipPd k outs = outs.map Output.toOsm := by
  induction outs with
  | nil => rfl
  | cons x xs ih =>
    have hx : x ≠ .peerDown := fun e => h (by simp [e])
    have hxs : Output.peerDown ∉ xs := fun e => h (by simp [e])
    have := ih hxs
    simp [drainSkipPd, hx] at this ⊢
    exact this

theorem drainSkipPd_asWritten (outs : List Output) :
    drainSkipPd false outs = (outs.filter (· ≠ .peerDown)).map Output.toOsm := by
  induction outs with
  | nil => rfl
  | cons x xs ih =>
    by_cases hx : x = .peerDown
    · simp [drainSkipPd, hx] at ih ⊢; exact ih
    · simp [drainSkipPd, hx] at ih ⊢; exact ih

theorem drainBmp_keep (pd : Bool) (outs : List Output) : drainBmp true pd outs = outs.map Output.toOsm := by
  induction outs with
  | nil => rfl
  | cons x xs ih => simp [drainBmp] at ih ⊢

theorem drainBmp_isPd (k : Bool) (outs : List Output) : drainBmp k true outs = outs.map Output.toOsm := by
  induction outs with
  | nil => rfl
  | cons x xs ih => simp [drainBmp] at ih ⊢

theorem drainBmp_nopd (k pd : Bool) (outs : List Output) (h : Output.peerDown ∉ outs) :
    drainBmp k pd outs = outs.map Output.toOsm := by
  induction outs with
  | nil => rfl
  | cons x xs ih =>
    have hx : x ≠ .peerDown := fun e => h (by simp [e])
    have hxs : Output.peerDown ∉ xs := fun e => h (by simp [e])
    have := ih hxs
    simp [drainBmp, hx] at this ⊢
    exact this

theorem handleMsg_eq {σ M F : Type} (drain : M → List Output → List Osm)
    (filter : Option (M → Verdict × List Output)) (process : σ → M → σ × List F) (s : σ) (m : M) :
    handleMsg drain filter process s m =
      (match (filterResult filter m).1 with
       | .accept => ((process s m).1, osOf (drain m (filterResult filter m).2) (filterResult filter m).2 ++ (process s m).2.map .fwd)
       | .reject => (s, osOf (drain m (filterResult filter m).2) (filterResult filter m).2)) := rfl

/-- the payloads the filter accepts, in order -/
def accepted {P : Type} (filter : Option (P → Verdict × List Output)) (ps : List P) : List P :=
  ps.filter fun p => (filterResult filter p).1 = .accept

/-- all output entries of the calls, in call order -/
def allOutputs {P : Type} (filter : Option (P → Verdict × List Output)) (ps : List P) : List Output :=
  ps.flatMap fun p => (filterResult filter p).2

theorem ribLoop_state {σ P : Type} (k : Bool) (filter : Option (P → Verdict × List Output))
    (insert : σ → P → σ) (s : σ) (ps : List P) :
    (ribLoop k filter insert s ps).1 = (accepted filter ps).foldl insert s := by
  induction ps generalizing s with
  | nil => rfl
  | cons p ps ih =>
    simp only [ribLoop, accepted, List.filter_cons]
    cases h : (filterResult filter p).1 <;> simp [ih, accepted]

theorem ribLoop_accepted {σ P : Type} (k : Bool) (filter : Option (P → Verdict × List Output))
    (insert : σ → P → σ) (s : σ) (ps : List P) :
    (ribLoop k filter insert s ps).2.1 = accepted filter ps := by
  induction ps generalizing s with
  | nil => rfl
  | cons p ps ih =>
    simp only [ribLoop, accepted, List.filter_cons]
    cases h : (filterResult filter p).1 <;> simp [ih, accepted]

theorem ribLoop_forwarded {σ P : Type} (k : Bool) (filter : Option (P → Verdict × List Output))
    (insert : σ → P → σ) (s : σ) (ps : List P) :
    forwarded (ribLoop k filter insert s ps).2.2 = [] := by
  induction ps generalizing s with
  | nil => rfl
  | cons p ps ih =>
    simp only [ribLoop]
    rw [forwarded_append, ih, forwarded_osOf]
    rfl

theorem ribLoop_emitted {σ P : Type} (k : Bool) (filter : Option (P → Verdict × List Output))
    (insert : σ → P → σ) (s : σ) (ps : List P) :
    emitted (ribLoop k filter insert s ps).2.2 =
      ps.flatMap fun p => drainSkipPd k (filterResult filter p).2 := by
  induction ps generalizing s with
  | nil => rfl
  | cons p ps ih =>
    simp only [ribLoop, List.flatMap_cons]
    rw [emitted_append, ih]
    congr 1
    exact emitted_osOf (F := RibFwd P) _ _ (fun h => by simp [h, drainSkipPd])

theorem emitted_ribForward {P : Type} (ps : List P) : emitted (ribForward ps) = [] := by
  unfold ribForward
  split <;> simp [emitted]

theorem forwarded_ribForward {P : Type} (ps : List P) :
    forwarded (ribForward ps) = (match ps with | [] => [] | [p] => [RibFwd.single p] | ps => [RibFwd.bulk ps]) := by
  unfold ribForward
  split <;> simp [forwarded]

end Rotonda.Roto
