import RotondaModel.Model.Bmp
/-! Helper lemmas for the BMP state machine model (C05, C15). -/
namespace Rotonda.Bmp

/-! ### Lookups -/

theorem findPeer_some {h : Hdr} {ps : List Peer} {p : Peer} (hf : findPeer h ps = some p) :
    p ∈ ps ∧ p.hdr = h := by
  induction ps with
  | nil => simp [findPeer] at hf
  | cons q qs ih =>
    simp only [findPeer] at hf
    split at hf
    · cases hf; exact ⟨List.mem_cons_self, by assumption⟩
    · exact ⟨List.mem_cons_of_mem _ (ih hf).1, (ih hf).2⟩

theorem findPeer_none {h : Hdr} {ps : List Peer} (hf : findPeer h ps = none) :
    ∀ p ∈ ps, p.hdr ≠ h := by
  induction ps with
  | nil => intro p hp; cases hp
  | cons q qs ih =>
    simp only [findPeer] at hf
    split at hf
    · cases hf
    · intro p hp
      rcases List.mem_cons.mp hp with rfl | hp
      · assumption
      · exact ih hf p hp

theorem lookupKey_append_some {k : Key} {r x : List (Key × Mui)} {v : Mui}
    (h : lookupKey k r = some v) : lookupKey k (r ++ x) = some v := by
  induction r with
  | nil => simp [lookupKey] at h
  | cons e r ih =>
    simp only [lookupKey, List.cons_append] at h ⊢
    split
    · simpa [*] using h
    · simp [*] at h; exact ih h

theorem lookupKey_append_none {k : Key} {r : List (Key × Mui)} {v : Mui}
    (h : lookupKey k r = none) : lookupKey k (r ++ [(k, v)]) = some v := by
  induction r with
  | nil => simp [lookupKey]
  | cons e r ih =>
    simp only [lookupKey, List.cons_append] at h ⊢
    split
    · simp [*] at h
    · simp [*] at h; exact ih h

theorem lookupUp_upSet (h : Hdr) (ps : List Peer) :
    lookupUp h (ps.map (fun p => (p.hdr, p.mui))) = (findPeer h ps).map (·.mui) := by
  induction ps with
  | nil => rfl
  | cons q qs ih =>
    simp only [List.map_cons, lookupUp, findPeer]
    split <;> simp [*]

/-! ### The peer table under `setPeer` / `erasePeer` -/

/-- Every peer of `ps'` has a peer of `ps` with the same header and ingress id. -/
def Sub (ps' ps : List Peer) : Prop := ∀ q ∈ ps', ∃ q0 ∈ ps, q0.hdr = q.hdr ∧ q0.mui = q.mui

theorem Sub.refl (ps : List Peer) : Sub ps ps := fun q hq => ⟨q, hq, rfl, rfl⟩

theorem Sub.trans {a b c : List Peer} (h1 : Sub a b) (h2 : Sub b c) : Sub a c := by
  intro q hq
  obtain ⟨q1, hq1, e1, e2⟩ := h1 q hq
  obtain ⟨q2, hq2, e3, e4⟩ := h2 q1 hq1
  exact ⟨q2, hq2, e3.trans e1, e4.trans e2⟩

theorem sub_setPeer {p p' : Peer} {ps : List Peer} (hp : p ∈ ps) (hh : p'.hdr = p.hdr)
    (hm : p'.mui = p.mui) : Sub (setPeer p' ps) ps := by
  intro q hq
  simp only [setPeer, List.mem_map] at hq
  obtain ⟨q0, hq0, rfl⟩ := hq
  split
  · exact ⟨p, hp, hh.symm, hm.symm⟩
  · exact ⟨q0, hq0, rfl, rfl⟩

theorem sub_erasePeer (h : Hdr) (ps : List Peer) : Sub (erasePeer h ps) ps := by
  intro q hq
  simp only [erasePeer, List.mem_filter] at hq
  exact ⟨q, hq.1, rfl, rfl⟩

theorem hdrs_setPeer (p' : Peer) (ps : List Peer) :
    (setPeer p' ps).map (·.hdr) = ps.map (·.hdr) := by
  induction ps with
  | nil => rfl
  | cons q qs ih =>
    simp only [setPeer, List.map_cons] at ih ⊢
    rw [ih]
    split <;> simp [*]

theorem isEmpty_setPeer (p' : Peer) (ps : List Peer) : (setPeer p' ps = []) ↔ ps = [] := by
  cases ps <;> simp [setPeer]

/-! ### Outputs of the building blocks -/

theorem rmExtract_phase (s : State) (p : Peer) (r : Rm) (e : List Eff) :
    (rmExtract s p r e).st.phase = s.phase := by
  unfold rmExtract
  split
  · rfl
  · split <;> rfl

theorem rmExtract_reg (s : State) (p : Peer) (r : Rm) (e : List Eff) :
    (rmExtract s p r e).st.reg = s.reg ∧ (rmExtract s p r e).st.next = s.next := by
  unfold rmExtract
  split
  · exact ⟨rfl, rfl⟩
  · split <;> exact ⟨rfl, rfl⟩

theorem rmExtract_sub (s : State) (p : Peer) (r : Rm) (e : List Eff) (hp : ∃ p0 ∈ s.peers, p0.hdr = p.hdr ∧ p0.mui = p.mui) :
    Sub (rmExtract s p r e).st.peers s.peers := by
  unfold rmExtract
  split
  · exact Sub.refl _
  · split
    · obtain ⟨p0, hp0, e1, e2⟩ := hp
      exact sub_setPeer hp0 (by simpa using e1.symm) (by simpa using e2.symm)
    · exact Sub.refl _

theorem rmExtract_hdrs (s : State) (p : Peer) (r : Rm) (e : List Eff) :
    (rmExtract s p r e).st.peers.map (·.hdr) = s.peers.map (·.hdr) := by
  unfold rmExtract
  split
  · rfl
  · split
    · exact hdrs_setPeer _ _
    · rfl

theorem rmExtract_out (s : State) (p : Peer) (r : Rm) (e : List Eff) :
    (rmExtract s p r e).out = (match r.xok && r.avok with
      | false => .invalid | true => .routing (.bulk p.mui r.na r.nw)) := by
  unfold rmExtract
  split
  · simp [*]
  · split <;> simp [*]

/-! ### `route_monitoring` leaves everything but the touched peer's bookkeeping alone -/

/-- What `route_monitoring` may do to the state: nothing to the register, nothing
    to the set of up headers and their ingress ids; the phase stays, or (in
    Dumping only) becomes Updating. -/
structure RmFrame (d : Bool) (s : State) (res : Res) : Prop where
  reg : res.st.reg = s.reg
  next : res.st.next = s.next
  sub : Sub res.st.peers s.peers
  hdrs : res.st.peers.map (·.hdr) = s.peers.map (·.hdr)
  phase : res.st.phase = s.phase ∨ (d = true ∧ res.st.phase = .updating)

theorem RmFrame.trans {d : Bool} {s s1 : State} {res : Res} (h : RmFrame d s1 res)
    (hreg : s1.reg = s.reg) (hnext : s1.next = s.next) (hsub : Sub s1.peers s.peers)
    (hh : s1.peers.map (·.hdr) = s.peers.map (·.hdr)) (hp : s1.phase = s.phase) : RmFrame d s res :=
  ⟨h.reg.trans hreg, h.next.trans hnext, h.sub.trans hsub, h.hdrs.trans hh, by rw [← hp]; exact h.phase⟩

theorem rmExtract_frame (d : Bool) (s : State) (p : Peer) (r : Rm) (e : List Eff)
    (hp : ∃ p0 ∈ s.peers, p0.hdr = p.hdr ∧ p0.mui = p.mui) : RmFrame d s (rmExtract s p r e) :=
  ⟨(rmExtract_reg s p r e).1, (rmExtract_reg s p r e).2, rmExtract_sub s p r e hp,
   rmExtract_hdrs s p r e, Or.inl (rmExtract_phase s p r e)⟩

theorem rmEor_frame (d : Bool) (s : State) (p : Peer) (r : Rm) (e : List Eff)
    (hp : ∃ p0 ∈ s.peers, p0.hdr = p.hdr ∧ p0.mui = p.mui) : RmFrame d s (rmEor d s p r e) := by
  unfold rmEor
  split
  · exact rmExtract_frame d s p r e hp
  · split
    · exact ⟨rfl, rfl, Sub.refl _, rfl, Or.inr ⟨rfl, rfl⟩⟩
    · exact rmExtract_frame _ s p r _ hp

theorem mem_setPeer_self {p p' : Peer} {ps : List Peer} (hp : p ∈ ps) (hh : p'.hdr = p.hdr) :
    p' ∈ setPeer p' ps := by
  simp only [setPeer, List.mem_map]
  exact ⟨p, hp, by simp [hh]⟩

theorem rmAfterParse_frame (v : Variant) (d : Bool) (s : State) (p : Peer) (r : Rm) (e : List Eff)
    (hp : p ∈ s.peers) : RmFrame d s (rmAfterParse v d s p r e) := by
  unfold rmAfterParse
  split
  · exact rmExtract_frame d s p r e ⟨p, hp, rfl, rfl⟩
  · rename_i afi _
    have hmem : p.dropEor afi ∈ setPeer (p.dropEor afi) s.peers := mem_setPeer_self hp rfl
    refine RmFrame.trans (rmEor_frame d _ _ r e ⟨_, hmem, rfl, rfl⟩) rfl rfl ?_ ?_ rfl
    · exact sub_setPeer hp rfl rfl
    · exact hdrs_setPeer _ _

theorem routeMon_frame (v : Variant) (d : Bool) (s : State) (h : Hdr) (r : Rm) :
    RmFrame d s (routeMon v d s h r) := by
  unfold routeMon
  split
  · exact ⟨rfl, rfl, Sub.refl _, rfl, Or.inl rfl⟩
  · rename_i p hf
    have hp := (findPeer_some hf).1
    split
    · exact ⟨rfl, rfl, Sub.refl _, rfl, Or.inl rfl⟩
    · exact rmAfterParse_frame v d s p r [] hp
    · have hmem : p.toggle ∈ setPeer p.toggle s.peers := mem_setPeer_self hp rfl
      refine RmFrame.trans (rmAfterParse_frame v d _ p.toggle r _ hmem) rfl rfl ?_ ?_ rfl
      · exact sub_setPeer hp rfl rfl
      · exact hdrs_setPeer _ _

/-! ### What `route_monitoring` returns -/

/-- The parser contract under which an End-of-RIB marker carries no routes. -/
def Rm.wf (v : Variant) (r : Rm) : Prop := (effEor v r).isSome → r.na = 0 ∧ r.nw = 0

theorem rmEor_out (d : Bool) (s : State) (p : Peer) (r : Rm) (e : List Eff) :
    (rmEor d s p r e).out = .transition ∨
    (rmEor d s p r e).out = (match r.xok && r.avok with
      | false => .invalid | true => .routing (.bulk p.mui r.na r.nw)) := by
  unfold rmEor
  split
  · exact Or.inr (rmExtract_out ..)
  · split
    · exact Or.inl rfl
    · exact Or.inr (rmExtract_out ..)

theorem rmAfterParse_out (v : Variant) (d : Bool) (s : State) (p : Peer) (r : Rm) (e : List Eff) :
    ((effEor v r).isSome ∧ (rmAfterParse v d s p r e).out = .transition) ∨
    (rmAfterParse v d s p r e).out = (match r.xok && r.avok with
      | false => .invalid | true => .routing (.bulk p.mui r.na r.nw)) := by
  unfold rmAfterParse
  split
  · exact Or.inr (rmExtract_out ..)
  · rename_i afi he
    rcases rmEor_out d { s with peers := setPeer (p.dropEor afi) s.peers } (p.dropEor afi) r e with h | h
    · exact Or.inl ⟨by simp [he], h⟩
    · exact Or.inr h

/-- The outcome of `route_monitoring`, case by case. -/
theorem routeMon_out (v : Variant) (d : Bool) (s : State) (h : Hdr) (r : Rm) :
    (findPeer h s.peers = none ∧ (routeMon v d s h r).out = .invalid) ∨
    (∃ p, findPeer h s.peers = some p ∧
      ((parseOutcome p.cfg4 r = none ∧ (routeMon v d s h r).out = .invalid) ∨
       (parseOutcome p.cfg4 r ≠ none ∧
         (((effEor v r).isSome ∧ (routeMon v d s h r).out = .transition) ∨
          (routeMon v d s h r).out = (match r.xok && r.avok with
            | false => .invalid | true => .routing (.bulk p.mui r.na r.nw)))))) := by
  unfold routeMon
  split
  · exact Or.inl ⟨by assumption, rfl⟩
  · rename_i p hf
    refine Or.inr ⟨p, hf, ?_⟩
    split
    · exact Or.inl ⟨by assumption, rfl⟩
    · exact Or.inr ⟨by simp [*], rmAfterParse_out v d s p r []⟩
    · exact Or.inr ⟨by simp [*], rmAfterParse_out v d _ p.toggle r _⟩

theorem parseOutcome_none (c : Bool) (r : Rm) : parseOutcome c r = none ↔ (r.p4 || r.p2) = false := by
  unfold parseOutcome
  cases c <;> cases r.p4 <;> cases r.p2 <;> simp

end Rotonda.Bmp
