import RotondaModel.Model.RibMetrics
import RotondaModel.Proofs.Rib
/-! Helper lemmas for `Props/RibMetrics.lean`: what one payload / one update does to the slots
    (`known`) and record keys of the two stores, and the accounting invariant of the metric record. -/
namespace Rotonda.RibMetrics
open Rotonda.Rib

/-! ### record keys and slots -/

def keysOf (s : Store) : List Key := s.recs.map Prod.fst

theorem hasRec_keys (s : Store) (p : Prefix) :
    hasRec s p = (keysOf s).any (fun k => decide (k.1 = p)) := by
  simp [hasRec, keysOf, List.any_map, Function.comp_def]

theorem any_keys_upsert (k : Key) (v : Val) (l : List (Key × Val)) (q : Prefix) :
    ((upsert k v l).map Prod.fst).any (fun k => decide (k.1 = q))
      = ((l.map Prod.fst).any (fun k => decide (k.1 = q)) || decide (k.1 = q)) := by
  induction l with
  | nil => simp [upsert]
  | cons e l ih =>
    simp only [upsert]
    split
    · next h => subst h; simp; grind
    · simp only [List.map_cons, List.any_cons, ih, Bool.or_assoc]

theorem keys_withdrawRecords (s : Store) (fams : List Fam) (m : Mui) :
    keysOf (s.withdrawRecords fams m) = keysOf s := by
  simp only [keysOf, Store.withdrawRecords, List.map_map]
  apply List.map_congr_left
  intro e _
  simp only [Function.comp]
  split <;> rfl

theorem keys_withdrawFams (v : Rotonda.Rib.Variant) (s : Store) (fams : List Fam) (m : Mui) :
    keysOf (s.withdrawFams v fams m) = keysOf s ∧ (s.withdrawFams v fams m).known = s.known := by
  unfold Store.withdrawFams
  split
  · exact ⟨keys_withdrawRecords s fams m, rfl⟩
  · induction fams generalizing s with
    | nil => exact ⟨rfl, rfl⟩
    | cons f fs ih =>
      simp only [List.foldl_cons]
      have := ih (s.markMuiWithdrawn f m)
      cases f <;> simpa [Store.markMuiWithdrawn, keysOf] using this

/-- Slots and record keys of both stores. -/
def shape (r : Rib) : (List Key × List Prefix) × (List Key × List Prefix) :=
  ((keysOf r.unicast, r.unicast.known), (keysOf r.multicast, r.multicast.known))

theorem shape_withdrawForIngress (v : Rotonda.Rib.Variant) (r : Rib) (m : Mui) (af : Option AfiSafi) :
    shape (r.withdrawForIngress v m af) = shape r := by
  rcases af with _ | af
  · simp [Rib.withdrawForIngress, shape, keys_withdrawFams]
  · cases af <;> simp [Rib.withdrawForIngress, shape, keys_withdrawFams]

theorem shape_withdrawBulk (v : Rotonda.Rib.Variant) (ms : List Mui) (r : Rib) :
    shape (ms.foldl (fun r m => r.withdrawForIngress v m none) r) = shape r := by
  induction ms generalizing r with
  | nil => rfl
  | cons m ms ih => simp only [List.foldl_cons, ih, shape_withdrawForIngress]

/-- An update that carries no payload leaves slots and record keys alone. -/
theorem shape_apply_nonpayload (v : Rotonda.Rib.Variant) (r : Rib) (u : Update) (h : payloadsOf u = []) :
    shape (r.apply v u) = shape r := by
  cases u with
  | single p => simp [payloadsOf] at h
  | bulk ps => simp only [payloadsOf] at h; subst h; rfl
  | withdraw m af => exact shape_withdrawForIngress v r m af
  | withdrawBulk ms => exact shape_withdrawBulk v ms r
  | endOfStream => rfl
  | outputStream => rfl
  | queryResult => rfl

/-- Number of slots of both stores. -/
def K (r : Rib) : Nat := r.unicast.known.length + r.multicast.known.length

theorem K_shape {r r' : Rib} (h : shape r' = shape r) : K r' = K r := by
  simp only [shape, Prod.mk.injEq] at h
  simp [K, h.1.2, h.2.2]

/-! ### the gate half touches nothing else -/

/-- The RIB-unit fields of a metric record (everything but the gate's three). -/
def core (m : Metrics) : Metrics := { m with gUpdates := 0, gDropped := 0, gSetSize := 0 }

theorem core_gate (m : Metrics) (u : Update) : core (m.gate u) = core m := by
  cases u <;> rfl

theorem core_foldl_gate (us : List Update) (m : Metrics) : core (us.foldl Metrics.gate m) = core m := by
  induction us generalizing m with
  | nil => rfl
  | cons u us ih => simp only [List.foldl_cons, ih, core_gate]

theorem gUpdates_foldl_gate (us : List Update) (m : Metrics) :
    (us.foldl Metrics.gate m).gUpdates = m.gUpdates + us.length ∧
    (us.foldl Metrics.gate m).gDropped = m.gDropped + us.length := by
  induction us generalizing m with
  | nil => simp
  | cons u us ih =>
    simp only [List.foldl_cons, List.length_cons]
    have := ih (m.gate u)
    cases u <;> simp [Metrics.gate] at this ⊢ <;> omega

/-! ### the accounting invariant -/

/-- The metric record `m` and the RIB content `r` after the payload events classified `ks`. -/
structure Inv (v : MVariant) (ks : List Kind) (m : Metrics) (r : Rib) : Prop where
  hf : m.hardFailures = cnt .reprocess ks + cnt .blindWithdraw ks
  up : m.uniquePrefixes = cnt .newPrefix ks
  it : m.items = cnt .newPrefix ks
  md : m.modified = cnt .knownPrefix ks + (if v.wdEffectFix then 0 else cnt .withdraw ks)
  wd : m.withdrawn = cnt .withdraw ks
  na : m.wdNoAnn = 0
  rt : m.insertRetries = 0
  ud : m.updateDur = 0
  an : (m.announced + cnt .withdraw ks) % W = cnt .newPrefix ks % W
  lt : m.announced < W
  kn : cnt .newPrefix ks + cnt .blindWithdraw ks = K r

theorem Inv_empty (v : MVariant) : Inv v [] Metrics.empty Rib.empty := by
  constructor <;> simp [cnt, Metrics.empty, Rib.empty, K, W]

theorem Inv_core {v ks m m' r} (h : Inv v ks m r) (hc : core m' = core m) : Inv v ks m' r := by
  have e : ∀ f : Metrics → Nat, (∀ x, f (core x) = f x) → f m' = f m := fun f hf => by rw [← hf m', hc, hf m]
  constructor
  · rw [e (·.hardFailures) (fun _ => rfl)]; exact h.hf
  · rw [e (·.uniquePrefixes) (fun _ => rfl)]; exact h.up
  · rw [e (·.items) (fun _ => rfl)]; exact h.it
  · rw [e (·.modified) (fun _ => rfl)]; exact h.md
  · rw [e (·.withdrawn) (fun _ => rfl)]; exact h.wd
  · rw [e (·.wdNoAnn) (fun _ => rfl)]; exact h.na
  · rw [e (·.insertRetries) (fun _ => rfl)]; exact h.rt
  · rw [e (·.updateDur) (fun _ => rfl)]; exact h.ud
  · rw [e (·.announced) (fun _ => rfl)]; exact h.an
  · rw [e (·.announced) (fun _ => rfl)]; exact h.lt
  · exact h.kn

theorem Inv_shape {v ks m r r'} (h : Inv v ks m r) (hs : shape r' = shape r) : Inv v ks m r' :=
  { h with kn := by rw [K_shape hs]; exact h.kn }

theorem K_insert_known (r : Rib) (pl : Payload) (hc : pl.ctx ≠ .reprocess)
    (hk : pl.route.pfx ∈ (r.store pl.route.mc).known) : K (r.insertPayload pl) = K r := by
  unfold Rib.insertPayload Rib.insertPrefix
  cases hctx : pl.ctx <;> simp_all <;>
  cases hst : pl.status <;> cases hmc : pl.route.mc <;>
    simp_all [K, Rib.store, Rib.setStore, Store.insert, Store.markWithdrawnForPrefix]

theorem K_insert_unknown (r : Rib) (pl : Payload) (hc : pl.ctx ≠ .reprocess)
    (hk : pl.route.pfx ∉ (r.store pl.route.mc).known) : K (r.insertPayload pl) = K r + 1 := by
  unfold Rib.insertPayload Rib.insertPrefix
  cases hctx : pl.ctx <;> simp_all <;>
  cases hst : pl.status <;> cases hmc : pl.route.mc <;>
    simp_all [K, Rib.store, Rib.setStore, Store.insert, Store.markWithdrawnForPrefix] <;> omega

theorem cnt_snoc (k k' : Kind) (ks : List Kind) : cnt k (ks ++ [k']) = cnt k ks + (if k' = k then 1 else 0) := by
  simp [cnt, List.count_append, List.count_cons]

/-- One payload event: the invariant is extended by the event's kind. -/
theorem Inv_payload {v ks m r} (h : Inv v ks m r) (pl : Payload) :
    Inv v (ks ++ [kind r pl]) (m.payload v (report r pl) pl) (r.insertPayload pl) := by
  have ⟨hf, up, it, md, wd, na, rt, ud, an, lt, kn⟩ := h
  by_cases hc : pl.ctx = .reprocess
  · have hk : kind r pl = .reprocess := by simp [kind, hc]
    have hr : report r pl = .failed := by simp [report, hc]
    have hrib : r.insertPayload pl = r := by simp [Rib.insertPayload, hc]
    rw [hk, hr, hrib]
    constructor <;> simp [cnt_snoc, Metrics.payload, Metrics.insertFailed, *] <;> omega
  · by_cases hkn : pl.route.pfx ∈ (r.store pl.route.mc).known
    · have hK := K_insert_known r pl hc hkn
      cases hst : pl.status
      · -- active, slot exists
        have hk : kind r pl = .knownPrefix := by cases hx : pl.ctx <;> simp_all [kind]
        have hr : report r pl = .ok false := by cases hx : pl.ctx <;> simp_all [report]
        rw [hk, hr]
        constructor <;> simp [cnt_snoc, Metrics.payload, Metrics.insertOk, Metrics.effect, hst, *] <;> omega
      · have hk : kind r pl = .withdraw := by cases hx : pl.ctx <;> simp_all [kind]
        have hr : report r pl = .ok false := by cases hx : pl.ctx <;> simp_all [report]
        rw [hk, hr]
        cases hw : v.wdEffectFix <;>
        constructor <;> simp [cnt_snoc, Metrics.payload, Metrics.insertOk, Metrics.effect, subWrap, hst, hw, *] <;>
          (try unfold W at *) <;> omega
    · have hK := K_insert_unknown r pl hc hkn
      cases hst : pl.status
      · have hk : kind r pl = .newPrefix := by cases hx : pl.ctx <;> simp_all [kind]
        have hr : report r pl = .ok true := by cases hx : pl.ctx <;> simp_all [report]
        rw [hk, hr]
        constructor <;> simp [cnt_snoc, Metrics.payload, Metrics.insertOk, Metrics.effect, hst, *] <;>
          (try unfold W at *) <;> omega
      · have hk : kind r pl = .blindWithdraw := by cases hx : pl.ctx <;> simp_all [kind]
        have hr : report r pl = .failed := by cases hx : pl.ctx <;> simp_all [report]
        rw [hk, hr]
        constructor <;> simp [cnt_snoc, Metrics.payload, Metrics.insertFailed, *] <;> omega

/-! ### counters never decrease -/

/-- `b` is at least `a` in every metric exported with type Counter except `announced`
    (`rib_unit_num_routes_announced`, which the code decrements), in the two gate counters, and in the
    `items` gauge (it could only go down through `RoutesRemoved`, which no call site builds). -/
structure Mono (a b : Metrics) : Prop where
  up : a.uniquePrefixes ≤ b.uniquePrefixes
  it : a.items ≤ b.items
  rt : a.insertRetries ≤ b.insertRetries
  hf : a.hardFailures ≤ b.hardFailures
  md : a.modified ≤ b.modified
  wd : a.withdrawn ≤ b.withdrawn
  na : a.wdNoAnn ≤ b.wdNoAnn
  gu : a.gUpdates ≤ b.gUpdates
  gd : a.gDropped ≤ b.gDropped

theorem Mono_refl (a : Metrics) : Mono a a := by constructor <;> exact Nat.le_refl _

theorem Mono_trans {a b c : Metrics} (h1 : Mono a b) (h2 : Mono b c) : Mono a c := by
  have ⟨a1, a2, a3, a4, a5, a6, a7, a8, a9⟩ := h1
  have ⟨b1, b2, b3, b4, b5, b6, b7, b8, b9⟩ := h2
  constructor <;> omega

/-- One payload event, whatever the store reported and in both variants. -/
theorem Mono_payload (v : MVariant) (m : Metrics) (rep : Report) (pl : Payload) : Mono m (m.payload v rep pl) := by
  cases rep with
  | failed => constructor <;> simp [Metrics.payload, Metrics.insertFailed]
  | ok pn =>
    cases hst : pl.status <;> cases hw : v.wdEffectFix <;> cases pn <;>
      constructor <;> simp [Metrics.payload, Metrics.insertOk, Metrics.effect, hst, hw] <;> omega

theorem Mono_gate (m : Metrics) (u : Update) : Mono m (m.gate u) := by
  cases u <;> constructor <;> simp [Metrics.gate]

theorem Mono_foldl_gate (us : List Update) (m : Metrics) : Mono m (us.foldl Metrics.gate m) := by
  induction us generalizing m with
  | nil => exact Mono_refl m
  | cons u us ih => exact Mono_trans (Mono_gate m u) (ih _)

theorem Mono_payloads (v : MVariant) (ps : List Payload) (s : St) : Mono s.mx (ps.foldl (St.payload v) s).mx := by
  induction ps generalizing s with
  | nil => exact Mono_refl _
  | cons p ps ih => exact Mono_trans (Mono_payload v s.mx (report s.rib p) p) (ih (St.payload v s p))

/-- One `process_update`. -/
theorem Mono_apply (rv : Rotonda.Rib.Variant) (v : MVariant) (s : St) (u : Update) : Mono s.mx (St.apply rv v s u).mx := by
  have key : ∀ s' : St, Mono s.mx s'.mx → Mono s.mx ((Rib.forwards u).foldl Metrics.gate s'.mx) :=
    fun s' h => Mono_trans h (Mono_foldl_gate _ _)
  cases u with
  | single p => exact key (St.payload v s p) (Mono_payload v s.mx _ p)
  | bulk ps => exact key (ps.foldl (St.payload v) s) (Mono_payloads v ps s)
  | withdraw m af => exact key ⟨s.rib.apply rv (.withdraw m af), s.mx⟩ (Mono_refl _)
  | withdrawBulk ms => exact key ⟨s.rib.apply rv (.withdrawBulk ms), s.mx⟩ (Mono_refl _)
  | endOfStream => exact key ⟨s.rib, s.mx⟩ (Mono_refl _)
  | outputStream => exact key ⟨s.rib, s.mx⟩ (Mono_refl _)
  | queryResult => exact key ⟨s.rib, s.mx⟩ (Mono_refl _)

theorem Mono_runFrom (rv : Rotonda.Rib.Variant) (v : MVariant) (us : List Update) (s : St) :
    Mono s.mx (St.runFrom rv v s us).mx := by
  induction us generalizing s with
  | nil => exact Mono_refl _
  | cons u us ih => exact Mono_trans (Mono_apply rv v s u) (ih (St.apply rv v s u))

/-! ### durations: the class of every sample is the variant's -/

theorem mem_upsert_cases {κ β} [DecidableEq κ] (k : κ) (b : β) (l : List (κ × β)) (x : κ × β)
    (h : x ∈ upsert k b l) : x = (k, b) ∨ x ∈ l := by
  induction l with
  | nil => simpa [upsert] using h
  | cons e l ih =>
    simp only [upsert] at h
    split at h
    · rcases List.mem_cons.mp h with h | h
      · exact .inl h
      · exact .inr (List.mem_cons_of_mem _ h)
    · rcases List.mem_cons.mp h with h | h
      · exact .inr (h ▸ List.mem_cons_self)
      · rcases ih h with h | h
        · exact .inl h
        · exact .inr (List.mem_cons_of_mem _ h)

/-- Every per-ingress sample, and the stored insert duration, carry the class of the variant:
    `false` = the value is 0 whatever the delay, `true` = it reflects the payload's age. -/
structure Dur (v : MVariant) (m : Metrics) : Prop where
  e2e : ∀ x ∈ m.e2e, x.2 = v.durationFix
  ins : m.insertDurSet = true → v.durationFix = true

theorem Dur_empty (v : MVariant) : Dur v Metrics.empty := ⟨by simp [Metrics.empty], by simp [Metrics.empty]⟩

theorem effect_e2e (m : Metrics) (e : Effect) :
    (m.effect e).e2e = m.e2e ∧ (m.effect e).insertDurSet = m.insertDurSet := by
  cases e with
  | routesWithdrawn n => cases n <;> exact ⟨rfl, rfl⟩
  | routesRemoved n => cases n <;> exact ⟨rfl, rfl⟩
  | routeAdded => exact ⟨rfl, rfl⟩
  | routeUpdated => exact ⟨rfl, rfl⟩

theorem Dur_insertOk {v : MVariant} {m : Metrics} (h : Dur v m) (ing : Mui) (n : Nat) (e : Effect) :
    Dur v (m.insertOk v ing n e) := by
  unfold Metrics.insertOk
  constructor
  · intro x hx
    rw [(effect_e2e _ e).1] at hx
    rcases mem_upsert_cases _ _ _ _ hx with hx | hx
    · rw [hx]
    · exact h.e2e x hx
  · intro hx
    rw [(effect_e2e _ e).2] at hx
    exact hx

theorem Dur_payload {v : MVariant} {m : Metrics} (h : Dur v m) (rep : Report) (pl : Payload) :
    Dur v (m.payload v rep pl) := by
  cases rep with
  | failed => exact ⟨h.e2e, h.ins⟩
  | ok pn =>
    cases hst : pl.status
    · have e : m.payload v (.ok pn) pl = m.insertOk v pl.mui 0 (if pn then .routeAdded else .routeUpdated) := by
        simp only [Metrics.payload, hst]
      rw [e]; exact Dur_insertOk h _ _ _
    · cases hw : v.wdEffectFix
      · have e : m.payload v (.ok pn) pl = (m.insertOk v pl.mui 0 (if pn then .routeAdded else .routeUpdated)).insertOk
            v pl.mui 0 (.routesWithdrawn 1) := by
          simp only [Metrics.payload, hst, hw, Bool.false_eq_true, if_false]
        rw [e]; exact Dur_insertOk (Dur_insertOk h _ _ _) _ _ _
      · have e : m.payload v (.ok pn) pl = m.insertOk v pl.mui 0 (.routesWithdrawn 1) := by
          simp only [Metrics.payload, hst, hw, if_true]
        rw [e]; exact Dur_insertOk h _ _ _

theorem Dur_core {v : MVariant} {m m' : Metrics} (h : Dur v m) (hc : core m' = core m) : Dur v m' := by
  have e1 : m'.e2e = m.e2e := by have := congrArg Metrics.e2e hc; exact this
  have e2 : m'.insertDurSet = m.insertDurSet := by have := congrArg Metrics.insertDurSet hc; exact this
  exact ⟨e1 ▸ h.e2e, e2 ▸ h.ins⟩

theorem Dur_payloads {v : MVariant} (ps : List Payload) {s : St} (h : Dur v s.mx) :
    Dur v (ps.foldl (St.payload v) s).mx := by
  induction ps generalizing s with
  | nil => exact h
  | cons p ps ih => exact ih (s := St.payload v s p) (Dur_payload h _ p)

theorem Dur_apply (rv : Rotonda.Rib.Variant) {v : MVariant} {s : St} (h : Dur v s.mx) (u : Update) :
    Dur v (St.apply rv v s u).mx := by
  have key : ∀ s' : St, Dur v s'.mx → Dur v ((Rib.forwards u).foldl Metrics.gate s'.mx) :=
    fun s' h' => Dur_core h' (core_foldl_gate _ _)
  cases u with
  | single p => exact key (St.payload v s p) (Dur_payload h _ p)
  | bulk ps => exact key (ps.foldl (St.payload v) s) (Dur_payloads ps h)
  | withdraw m af => exact key ⟨s.rib.apply rv (.withdraw m af), s.mx⟩ h
  | withdrawBulk ms => exact key ⟨s.rib.apply rv (.withdrawBulk ms), s.mx⟩ h
  | endOfStream => exact key ⟨s.rib, s.mx⟩ h
  | outputStream => exact key ⟨s.rib, s.mx⟩ h
  | queryResult => exact key ⟨s.rib, s.mx⟩ h

theorem Dur_runFrom (rv : Rotonda.Rib.Variant) {v : MVariant} (us : List Update) {s : St} (h : Dur v s.mx) :
    Dur v (St.runFrom rv v s us).mx := by
  induction us generalizing s with
  | nil => exact h
  | cons u us ih => exact ih (s := St.apply rv v s u) (Dur_apply rv h u)

/-! ### which ingresses have an e2e sample -/

def e2eKeys (m : Metrics) : List Mui := m.e2e.map Prod.fst

/-- One sample per ingress, and exactly for the ingress ids in `ms`. -/
structure EK (ms : List Mui) (m : Metrics) : Prop where
  nd : (e2eKeys m).Nodup
  mem : ∀ x, x ∈ e2eKeys m ↔ x ∈ ms

theorem EK_empty : EK [] Metrics.empty := ⟨by simp [e2eKeys, Metrics.empty], by simp [e2eKeys, Metrics.empty]⟩

theorem EK_congr {ms ms' : List Mui} {m : Metrics} (h : EK ms m) (hm : ∀ x, x ∈ ms ↔ x ∈ ms') : EK ms' m :=
  ⟨h.nd, fun x => (h.mem x).trans (hm x)⟩

theorem EK_insertOk {ms : List Mui} {m : Metrics} (h : EK ms m) (v : MVariant) (ing : Mui) (n : Nat) (e : Effect) :
    EK (ms ++ [ing]) (m.insertOk v ing n e) := by
  have hk : e2eKeys (m.insertOk v ing n e) = (upsert ing v.durationFix m.e2e).map Prod.fst := by
    unfold Metrics.insertOk e2eKeys
    rw [(effect_e2e _ e).1]
  constructor
  · rw [hk]; exact nodup_keys_upsert _ _ _ h.nd
  · intro x
    rw [hk, mem_keys_upsert, List.mem_append, List.mem_singleton]
    have := h.mem x
    unfold e2eKeys at this
    rw [this]
    exact Or.comm

/-- The store's answer as `insert_payload` sees it and the ledger's classification agree. -/
theorem report_kind (r : Rib) (pl : Payload) :
    (report r pl = .failed ∧ (kind r pl).accepted = false) ∨ (∃ pn, report r pl = .ok pn ∧ (kind r pl).accepted = true) := by
  unfold report kind
  by_cases hk : pl.route.pfx ∈ (r.store pl.route.mc).known <;>
    cases pl.ctx <;> cases pl.status <;> simp [hk, Kind.accepted]

theorem EK_payload {ms : List Mui} {m : Metrics} (h : EK ms m) (v : MVariant) (r : Rib) (pl : Payload) :
    EK (ms ++ (if (kind r pl).accepted then [pl.mui] else [])) (m.payload v (report r pl) pl) := by
  rcases report_kind r pl with ⟨hr, ha⟩ | ⟨pn, hr, ha⟩
  · rw [hr, ha]
    have h' : EK ms (m.payload v .failed pl) := ⟨h.nd, h.mem⟩
    exact EK_congr h' (fun x => by simp)
  · rw [hr, ha]
    simp only [if_true]
    cases hst : pl.status
    · have e : m.payload v (.ok pn) pl = m.insertOk v pl.mui 0 (if pn then .routeAdded else .routeUpdated) := by
        simp only [Metrics.payload, hst]
      rw [e]; exact EK_insertOk h _ _ _ _
    · cases hw : v.wdEffectFix
      · have e : m.payload v (.ok pn) pl = (m.insertOk v pl.mui 0 (if pn then .routeAdded else .routeUpdated)).insertOk
            v pl.mui 0 (.routesWithdrawn 1) := by
          simp only [Metrics.payload, hst, hw, Bool.false_eq_true, if_false]
        rw [e]
        exact EK_congr (EK_insertOk (EK_insertOk h v pl.mui 0 _) v pl.mui 0 _) (fun x => by simp)
      · have e : m.payload v (.ok pn) pl = m.insertOk v pl.mui 0 (.routesWithdrawn 1) := by
          simp only [Metrics.payload, hst, hw, if_true]
        rw [e]; exact EK_insertOk h _ _ _ _

theorem EK_core {ms : List Mui} {m m' : Metrics} (h : EK ms m) (hc : core m' = core m) : EK ms m' := by
  have e1 : e2eKeys m' = e2eKeys m := by have := congrArg e2eKeys hc; exact this
  exact ⟨e1 ▸ h.nd, fun x => e1 ▸ h.mem x⟩

theorem EK_payloads (v : MVariant) (ps : List Payload) {ms : List Mui} {s : St} (h : EK ms s.mx) :
    EK (ms ++ okMuisP s.rib ps) (ps.foldl (St.payload v) s).mx := by
  induction ps generalizing ms s with
  | nil => simpa [okMuisP] using h
  | cons p ps ih =>
    have := ih (s := St.payload v s p) (EK_payload h v s.rib p)
    simpa [okMuisP, St.payload, List.append_assoc] using this

theorem EK_apply (rv : Rotonda.Rib.Variant) (v : MVariant) {ms : List Mui} {s : St} (h : EK ms s.mx) (u : Update) :
    EK (ms ++ okMuisP s.rib (payloadsOf u)) (St.apply rv v s u).mx := by
  have key : ∀ s' : St, EK (ms ++ okMuisP s.rib (payloadsOf u)) s'.mx →
      EK (ms ++ okMuisP s.rib (payloadsOf u)) ((Rib.forwards u).foldl Metrics.gate s'.mx) :=
    fun s' h' => EK_core h' (core_foldl_gate _ _)
  cases u with
  | single p => exact key (St.payload v s p) (by simpa [payloadsOf] using EK_payloads v [p] h)
  | bulk ps => exact key (ps.foldl (St.payload v) s) (by simpa [payloadsOf] using EK_payloads v ps h)
  | withdraw m af => exact key ⟨s.rib.apply rv (.withdraw m af), s.mx⟩ (by simpa [payloadsOf, okMuisP] using h)
  | withdrawBulk ms' => exact key ⟨s.rib.apply rv (.withdrawBulk ms'), s.mx⟩ (by simpa [payloadsOf, okMuisP] using h)
  | endOfStream => exact key ⟨s.rib, s.mx⟩ (by simpa [payloadsOf, okMuisP] using h)
  | outputStream => exact key ⟨s.rib, s.mx⟩ (by simpa [payloadsOf, okMuisP] using h)
  | queryResult => exact key ⟨s.rib, s.mx⟩ (by simpa [payloadsOf, okMuisP] using h)

/-! ### slots and records: which prefixes `unique_prefixes` counts -/

/-- Slots are listed once, and a prefix with a record has a slot. -/
def PInvS (s : Store) : Prop := s.known.Nodup ∧ ∀ p, hasRec s p = true → p ∈ s.known

/-- Every slot holds at least one record. -/
def FullS (s : Store) : Prop := ∀ p ∈ s.known, hasRec s p = true

theorem hasRec_insert (s : Store) (p : Prefix) (m : Mui) (st : Status) (a : AttrId) (q : Prefix) :
    hasRec (s.insert p m st a) q = (hasRec s q || decide (p = q)) := by
  rw [hasRec_keys, hasRec_keys]
  exact any_keys_upsert (p, m) (st, a) s.recs q

theorem hasRec_markWithdrawn (s : Store) (p : Prefix) (m : Mui) (q : Prefix) :
    hasRec (s.markWithdrawnForPrefix p m).1 q = hasRec s q := by
  rw [hasRec_keys, hasRec_keys]
  unfold Store.markWithdrawnForPrefix
  split
  · simp only [keysOf, keys_modify]
  · rfl

theorem PInv_insert {s : Store} (h : PInvS s) (p : Prefix) (m : Mui) (st : Status) (a : AttrId) :
    PInvS (s.insert p m st a) := by
  constructor
  · simp only [Store.insert]
    split
    · exact h.1
    · next hp => exact List.nodup_cons.mpr ⟨hp, h.1⟩
  · intro q hq
    rw [hasRec_insert, Bool.or_eq_true, decide_eq_true_eq] at hq
    simp only [Store.insert]
    rcases hq with hq | hq
    · split
      · exact h.2 q hq
      · exact List.mem_cons_of_mem _ (h.2 q hq)
    · subst hq
      split
      · next hp => exact hp
      · exact List.mem_cons_self

theorem Full_insert {s : Store} (h : FullS s) (p : Prefix) (m : Mui) (st : Status) (a : AttrId) :
    FullS (s.insert p m st a) := by
  intro q hq
  rw [hasRec_insert, Bool.or_eq_true, decide_eq_true_eq]
  simp only [Store.insert] at hq
  split at hq
  · exact .inl (h q hq)
  · rcases List.mem_cons.mp hq with hq | hq
    · exact .inr hq.symm
    · exact .inl (h q hq)

theorem PInv_markWithdrawn {s : Store} (h : PInvS s) (p : Prefix) (m : Mui) :
    PInvS (s.markWithdrawnForPrefix p m).1 := by
  constructor
  · unfold Store.markWithdrawnForPrefix
    split
    · exact h.1
    · next hp => exact List.nodup_cons.mpr ⟨hp, h.1⟩
  · intro q hq
    rw [hasRec_markWithdrawn] at hq
    have := h.2 q hq
    unfold Store.markWithdrawnForPrefix
    split
    · exact this
    · exact List.mem_cons_of_mem _ this

/-- A withdrawal for a prefix that has a slot keeps "every slot holds a record". (One for a prefix
    without a slot creates an empty slot: that is the blind withdrawal.) -/
theorem Full_markWithdrawn_known {s : Store} (h : FullS s) (p : Prefix) (m : Mui) (hp : p ∈ s.known) :
    FullS (s.markWithdrawnForPrefix p m).1 := by
  intro q hq
  rw [hasRec_markWithdrawn]
  apply h q
  unfold Store.markWithdrawnForPrefix at hq
  simpa [hp] using hq

/-- The slot invariant of both tables after the payload events classified `ks`; "every slot holds a
    record" as long as none of them was a blind withdrawal. -/
structure RP (ks : List Kind) (r : Rib) : Prop where
  pu : PInvS r.unicast
  pm : PInvS r.multicast
  full : cnt .blindWithdraw ks = 0 → FullS r.unicast ∧ FullS r.multicast

theorem RP_empty : RP [] Rib.empty := by
  refine ⟨⟨?_, ?_⟩, ⟨?_, ?_⟩, fun _ => ⟨?_, ?_⟩⟩ <;> simp [Rib.empty, hasRec, FullS]

theorem PInvS_congr {s s' : Store} (hk : keysOf s' = keysOf s) (hn : s'.known = s.known) (h : PInvS s) : PInvS s' := by
  unfold PInvS
  rw [hn]
  refine ⟨h.1, fun p hp => h.2 p ?_⟩
  rw [hasRec_keys] at hp ⊢
  rw [← hk]; exact hp

theorem FullS_congr {s s' : Store} (hk : keysOf s' = keysOf s) (hn : s'.known = s.known) (h : FullS s) : FullS s' := by
  intro p hp
  rw [hn] at hp
  have := h p hp
  rw [hasRec_keys] at this ⊢
  rw [hk]; exact this

/-- The invariant only reads slots and record keys. -/
theorem RP_of_shape {ks : List Kind} {r r' : Rib} (hs : shape r' = shape r) (h : RP ks r) : RP ks r' := by
  simp only [shape, Prod.mk.injEq] at hs
  obtain ⟨⟨ku, nu⟩, ⟨km, nm⟩⟩ := hs
  exact ⟨PInvS_congr ku nu h.pu, PInvS_congr km nm h.pm,
    fun h0 => ⟨FullS_congr ku nu (h.full h0).1, FullS_congr km nm (h.full h0).2⟩⟩

/-- Replace the store of table `mc`. -/
theorem RP_setStore {ks ks' : List Kind} {r : Rib} (mc : Bool) (s' : Store) (h : RP ks r)
    (hp : PInvS (r.store mc) → PInvS s')
    (hf : cnt .blindWithdraw ks' = 0 → cnt .blindWithdraw ks = 0 ∧ (FullS (r.store mc) → FullS s')) :
    RP ks' (r.setStore mc s') := by
  cases mc
  · exact ⟨hp h.pu, h.pm, fun h0 => ⟨(hf h0).2 (h.full (hf h0).1).1, (h.full (hf h0).1).2⟩⟩
  · exact ⟨h.pu, hp h.pm, fun h0 => ⟨(h.full (hf h0).1).1, (hf h0).2 (h.full (hf h0).1).2⟩⟩

/-- One payload event (C01's `insertPayload`). -/
theorem RP_insertPayload {ks : List Kind} {r : Rib} (h : RP ks r) (pl : Payload) :
    RP (ks ++ [kind r pl]) (r.insertPayload pl) := by
  by_cases hc : pl.ctx = .reprocess
  · have hk : kind r pl = .reprocess := by simp [kind, hc]
    have hrib : r.insertPayload pl = r := by simp [Rib.insertPayload, hc]
    rw [hk, hrib]
    exact ⟨h.pu, h.pm, fun h0 => h.full (by simpa [cnt_snoc] using h0)⟩
  · have hins : r.insertPayload pl = r.insertPrefix pl.route.pfx pl.route.mc pl.mui pl.status pl.route.attrs := by
      cases hx : pl.ctx <;> simp_all [Rib.insertPayload]
    rw [hins]
    unfold Rib.insertPrefix
    cases hst : pl.status
    · -- announcement: record and slot
      refine RP_setStore _ _ h (fun hp => PInv_insert hp _ _ _ _) (fun h0 => ?_)
      rw [cnt_snoc] at h0
      exact ⟨by omega, fun hf => Full_insert hf _ _ _ _⟩
    · by_cases hkn : pl.route.pfx ∈ (r.store pl.route.mc).known
      · have hk : kind r pl = .withdraw := by cases hx : pl.ctx <;> simp_all [kind]
        rw [hk]
        refine RP_setStore _ _ h (fun hp => PInv_markWithdrawn hp _ _) (fun h0 => ?_)
        exact ⟨by simpa [cnt_snoc] using h0, fun hf => Full_markWithdrawn_known hf _ _ hkn⟩
      · have hk : kind r pl = .blindWithdraw := by cases hx : pl.ctx <;> simp_all [kind]
        rw [hk]
        refine RP_setStore _ _ h (fun hp => PInv_markWithdrawn hp _ _) (fun h0 => ?_)
        simp [cnt_snoc] at h0

theorem RP_payloads (ps : List Payload) {ks : List Kind} {r : Rib} (h : RP ks r) :
    RP (ks ++ kindsP r ps) (ps.foldl Rib.insertPayload r) := by
  induction ps generalizing ks r with
  | nil => simpa [kindsP] using h
  | cons p ps ih =>
    have := ih (RP_insertPayload h p)
    simpa [kindsP, List.append_assoc] using this

/-- One `process_update` (C01's `Rib.apply`). -/
theorem RP_apply (rv : Rotonda.Rib.Variant) {ks : List Kind} {r : Rib} (h : RP ks r) (u : Update) :
    RP (ks ++ kindsP r (payloadsOf u)) (r.apply rv u) := by
  cases u with
  | single p => simpa [payloadsOf, kindsP, Rib.apply] using RP_insertPayload h p
  | bulk ps => simpa [payloadsOf, Rib.apply] using RP_payloads ps h
  | withdraw m af =>
    simpa [payloadsOf, kindsP] using RP_of_shape (shape_apply_nonpayload rv r (.withdraw m af) rfl) h
  | withdrawBulk ms =>
    simpa [payloadsOf, kindsP] using RP_of_shape (shape_apply_nonpayload rv r (.withdrawBulk ms) rfl) h
  | endOfStream => simpa [payloadsOf, kindsP, Rib.apply] using h
  | outputStream => simpa [payloadsOf, kindsP, Rib.apply] using h
  | queryResult => simpa [payloadsOf, kindsP, Rib.apply] using h

/-- Any history of updates (C01's `Rib.applyAll`). -/
theorem RP_applyAll (rv : Rotonda.Rib.Variant) (us : List Update) {ks : List Kind} {r : Rib} (h : RP ks r) :
    RP (ks ++ kindsFrom rv r us) (Rib.applyAll rv r us) := by
  induction us generalizing ks r with
  | nil => simpa [kindsFrom, Rib.applyAll] using h
  | cons u us ih =>
    have := ih (RP_apply rv h u)
    simpa [kindsFrom, Rib.applyAll, List.append_assoc] using this

/-- With the slot invariant and every slot holding a record, the slots enumerate exactly the
    prefixes with a record. -/
theorem counts_of_full {s : Store} (hp : PInvS s) (hf : FullS s) : CountsPrefixes s s.known.length :=
  ⟨s.known, hp.1, fun p => ⟨hf p, hp.2 p⟩, rfl⟩

theorem cnt_zero_of_noKind {k : Kind} {ks : List Kind} (h : noKind k ks = true) : cnt k ks = 0 := by
  simp only [noKind, Bool.not_eq_true', List.contains_eq_mem, decide_eq_false_iff_not] at h
  exact List.count_eq_zero.mpr h

end Rotonda.RibMetrics
