import RotondaModel.Model.RibMetrics
import RotondaModel.Proofs.Rib
/-! Helper lemmas for `Props/RibMetrics.lean`: what one payload / one update does to the slots
    (`known`) and record keys of the two stores, and the accounting invariant of the metric record. -/
namespace Rotonda.RibMetrics
open Rotonda.Rib

/-! ### record keys and slots -/

def keysOf (s : Store) : List Key := s.recs.map Prod.fst

theorem hasRec_keys (s : Store) (p : Prefix) :
    hasRec s p = (keysOf s).any (fun k => decide (k.1 = p)) := by
  simp [hasRec, keysOf, List.any_map, Function.comp_def]

theorem any_keys_upsert (k : Key) (v : Val) (l : List (Key × Val)) (q : Prefix) :
    ((upsert k v l).map Prod.fst).any (fun k => decide (k.1 = q))
      = ((l.map Prod.fst).any (fun k => decide (k.1 = q)) || decide (k.1 = q)) := by
  induction l with
  | nil => simp [upsert]
  | cons e l ih =>
    simp only [upsert]
    split
    · next h => subst h; simp; grind
    · simp only [List.map_cons, List.any_cons, ih, Bool.or_assoc]

theorem keys_withdrawRecords (s : Store) (fams : List Fam) (m : Mui) :
    keysOf (s.withdrawRecords fams m) = keysOf s := by
  simp only [keysOf, Store.withdrawRecords, List.map_map]
  apply List.map_congr_left
  intro e _
  simp only [Function.comp]
  split <;> rfl

theorem keys_withdrawFams (v : Rotonda.Rib.Variant) (s : Store) (fams : List Fam) (m : Mui) :
    keysOf (s.withdrawFams v fams m) = keysOf s ∧ (s.withdrawFams v fams m).known = s.known := by
  unfold Store.withdrawFams
  split
  · exact ⟨keys_withdrawRecords s fams m, rfl⟩
  · induction fams generalizing s with
    | nil => exact ⟨rfl, rfl⟩
    | cons f fs ih =>
      simp only [List.foldl_cons]
      have := ih (s.markMuiWithdrawn f m)
      cases f <;> simpa [Store.markMuiWithdrawn, keysOf] using this

/-- Slots and record keys of both stores. -/
def shape (r : Rib) : (List Key × List Prefix) × (List Key × List Prefix) :=
  ((keysOf r.unicast, r.unicast.known), (keysOf r.multicast, r.multicast.known))

theorem shape_withdrawForIngress (v : Rotonda.Rib.Variant) (r : Rib) (m : Mui) (af : Option AfiSafi) :
    shape (r.withdrawForIngress v m af) = shape r := by
  rcases af with _ | af
  · simp [Rib.withdrawForIngress, shape, keys_withdrawFams]
  · cases af <;> simp [Rib.withdrawForIngress, shape, keys_withdrawFams]

theorem shape_withdrawBulk (v : Rotonda.Rib.Variant) (ms : List Mui) (r : Rib) :
    shape (ms.foldl (fun r m => r.withdrawForIngress v m none) r) = shape r := by
  induction ms generalizing r with
  | nil => rfl
  | cons m ms ih => simp only [List.foldl_cons, ih, shape_withdrawForIngress]

/-- An update that carries no payload leaves slots and record keys alone. -/
theorem shape_apply_nonpayload (v : Rotonda.Rib.Variant) (r : Rib) (u : Update) (h : payloadsOf u = []) :
    shape (r.apply v u) = shape r := by
  cases u with
  | single p => simp [payloadsOf] at h
  | bulk ps => simp only [payloadsOf] at h; subst h; rfl
  | withdraw m af => exact shape_withdrawForIngress v r m af
  | withdrawBulk ms => exact shape_withdrawBulk v ms r
  | endOfStream => rfl
  | outputStream => rfl
  | queryResult => rfl

/-- Number of slots of both stores. -/
def K (r : Rib) : Nat := r.unicast.known.length + r.multicast.known.length

theorem K_shape {r r' : Rib} (h : shape r' = shape r) : K r' = K r := by
  simp only [shape, Prod.mk.injEq] at h
  simp [K, h.1.2, h.2.2]

/-! ### the gate half touches nothing else -/

/-- The RIB-unit fields of a metric record (everything but the gate's three). -/
def core (m : Metrics) : Metrics := { m with gUpdates := 0, gDropped := 0, gSetSize := 0 }

theorem core_gate (m : Metrics) (u : Update) : core (m.gate u) = core m := by
  cases u <;> rfl

theorem core_foldl_gate (us : List Update) (m : Metrics) : core (us.foldl Metrics.gate m) = core m := by
  induction us generalizing m with
  | nil => rfl
  | cons u us ih => simp only [List.foldl_cons, ih, core_gate]

theorem gUpdates_foldl_gate (us : List Update) (m : Metrics) :
    (us.foldl Metrics.gate m).gUpdates = m.gUpdates + us.length ∧
    (us.foldl Metrics.gate m).gDropped = m.gDropped + us.length := by
  induction us generalizing m with
  | nil => simp
  | cons u us ih =>
    simp only [List.foldl_cons, List.length_cons]
    have := ih (m.gate u)
    cases u <;> simp [Metrics.gate] at this ⊢ <;> omega

/-! ### the accounting invariant -/

/-- The metric record `m` and the RIB content `r` after the payload events classified `ks`. -/
structure Inv (v : MVariant) (ks : List Kind) (m : Metrics) (r : Rib) : Prop where
  hf : m.hardFailures = cnt .reprocess ks + cnt .blindWithdraw ks
  up : m.uniquePrefixes = cnt .newPrefix ks
  it : m.items = cnt .newPrefix ks
  md : m.modified = cnt .knownPrefix ks + (if v.wdEffectFix then 0 else cnt .withdraw ks)
  wd : m.withdrawn = cnt .withdraw ks
  na : m.wdNoAnn = 0
  rt : m.insertRetries = 0
  ud : m.updateDur = 0
  an : (m.announced + cnt .withdraw ks) % W = cnt .newPrefix ks % W
  lt : m.announced < W
  kn : cnt .newPrefix ks + cnt .blindWithdraw ks = K r

theorem Inv_empty (v : MVariant) : Inv v [] Metrics.empty Rib.empty := by
  constructor <;> simp [cnt, Metrics.empty, Rib.empty, K, W]

theorem Inv_core {v ks m m' r} (h : Inv v ks m r) (hc : core m' = core m) : Inv v ks m' r := by
  have e : ∀ f : Metrics → Nat, (∀ x, f (core x) = f x) → f m' = f m := fun f hf => by rw [← hf m', hc, hf m]
  constructor
  · rw [e (·.hardFailures) (fun _ => rfl)]; exact h.hf
  · rw [e (·.uniquePrefixes) (fun _ => rfl)]; exact h.up
  · rw [e (·.items) (fun _ => rfl)]; exact h.it
  · rw [e (·.modified) (fun _ => rfl)]; exact h.md
  · rw [e (·.withdrawn) (fun _ => rfl)]; exact h.wd
  · rw [e (·.wdNoAnn) (fun _ => rfl)]; exact h.na
  · rw [e (·.insertRetries) (fun _ => rfl)]; exact h.rt
  · rw [e (·.updateDur) (fun _ => rfl)]; exact h.ud
  · rw [e (·.announced) (fun _ => rfl)]; exact h.an
  · rw [e (·.announced) (fun _ => rfl)]; exact h.lt
  · exact h.kn

theorem Inv_shape {v ks m r r'} (h : Inv v ks m r) (hs : shape r' = shape r) : Inv v ks m r' :=
  { h with kn := by rw [K_shape hs]; exact h.kn }

theorem K_insert_known (r : Rib) (pl : Payload) (hc : pl.ctx ≠ .reprocess)
    (hk : pl.route.pfx ∈ (r.store pl.route.mc).known) : K (r.insertPayload pl) = K r := by
  unfold Rib.insertPayload Rib.insertPrefix
  cases hctx : pl.ctx <;> simp_all <;>
  cases hst : pl.status <;> cases hmc : pl.route.mc <;>
    simp_all [K, Rib.store, Rib.setStore, Store.insert, Store.markWithdrawnForPrefix]

theorem K_insert_unknown (r : Rib) (pl : Payload) (hc : pl.ctx ≠ .reprocess)
    (hk : pl.route.pfx ∉ (r.store pl.route.mc).known) : K (r.insertPayload pl) = K r + 1 := by
  unfold Rib.insertPayload Rib.insertPrefix
  cases hctx : pl.ctx <;> simp_all <;>
  cases hst : pl.status <;> cases hmc : pl.route.mc <;>
    simp_all [K, Rib.store, Rib.setStore, Store.insert, Store.markWithdrawnForPrefix] <;> omega

theorem cnt_snoc (k k' : Kind) (ks : List Kind) : cnt k (ks ++ [k']) = cnt k ks + (if k' = k then 1 else 0) := by
  simp [cnt, List.count_append, List.count_cons]

/-- One payload event: the invariant is extended by the event's kind. -/
theorem Inv_payload {v ks m r} (h : Inv v ks m r) (pl : Payload) :
    Inv v (ks ++ [kind r pl]) (m.payload v (report r pl) pl) (r.insertPayload pl) := by
  have ⟨hf, up, it, md, wd, na, rt, ud, an, lt, kn⟩ := h
  by_cases hc : pl.ctx = .reprocess
  · have hk : kind r pl = .reprocess := by simp [kind, hc]
    have hr : report r pl = .failed := by simp [report, hc]
    have hrib : r.insertPayload pl = r := by simp [Rib.insertPayload, hc]
    rw [hk, hr, hrib]
    constructor <;> simp [cnt_snoc, Metrics.payload, Metrics.insertFailed, *] <;> omega
  · by_cases hkn : pl.route.pfx ∈ (r.store pl.route.mc).known
    · have hK := K_insert_known r pl hc hkn
      cases hst : pl.status
      · -- active, slot exists
        have hk : kind r pl = .knownPrefix := by cases hx : pl.ctx <;> simp_all [kind]
        have hr : report r pl = .ok false := by cases hx : pl.ctx <;> simp_all [report]
        rw [hk, hr]
        constructor <;> simp [cnt_snoc, Metrics.payload, Metrics.insertOk, Metrics.effect, hst, *] <;> omega
      · have hk : kind r pl = .withdraw := by cases hx : pl.ctx <;> simp_all [kind]
        have hr : report r pl = .ok false := by cases hx : pl.ctx <;> simp_all [report]
        rw [hk, hr]
        cases hw : v.wdEffectFix <;>
        constructor <;> simp [cnt_snoc, Metrics.payload, Metrics.insertOk, Metrics.effect, subWrap, hst, hw, *] <;>
          (try unfold W at *) <;> omega
    · have hK := K_insert_unknown r pl hc hkn
      cases hst : pl.status
      · have hk : kind r pl = .newPrefix := by cases hx : pl.ctx <;> simp_all [kind]
        have hr : report r pl = .ok true := by cases hx : pl.ctx <;> simp_all [report]
        rw [hk, hr]
        constructor <;> simp [cnt_snoc, Metrics.payload, Metrics.insertOk, Metrics.effect, hst, *] <;>
          (try unfold W at *) <;> omega
      · have hk : kind r pl = .blindWithdraw := by cases hx : pl.ctx <;> simp_all [kind]
        have hr : report r pl = .failed := by cases hx : pl.ctx <;> simp_all [report]
        rw [hk, hr]
        constructor <;> simp [cnt_snoc, Metrics.payload, Metrics.insertFailed, *] <;> omega

end Rotonda.RibMetrics
