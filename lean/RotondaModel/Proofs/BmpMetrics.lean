import RotondaModel.Proofs.Bmp
/-! Helper lemmas for the metric record of the BMP model (C15). -/
namespace Rotonda.Bmp

/-- Number of up peers that advertised Graceful Restart. -/
def eorCount (ps : List Peer) : Nat := (ps.map (·.eor)).count true

def b2n : Bool → Nat | true => 1 | false => 0

theorem eorCount_nil : eorCount [] = 0 := rfl
theorem eorCount_append_one (ps : List Peer) (p : Peer) : eorCount (ps ++ [p]) = eorCount ps + b2n p.eor := by
  cases h : p.eor <;> simp [eorCount, List.count_append, h, b2n]
theorem eorCount_cons (p : Peer) (ps : List Peer) : eorCount (p :: ps) = b2n p.eor + eorCount ps := by
  cases h : p.eor <;> simp [eorCount, h, b2n] <;> omega

/-! ### The three gauge-related fields depend only on Peer Up / Peer Down effects -/

def Eff.isPeer : Eff → Bool
  | .peerUp _ => true
  | .peerDown _ => true
  | _ => false

/-- (peers up, EoR capable, underflow flag). -/
def pf (m : Metrics) : Nat × Nat × Bool := (m.peersUp, m.eorCap, m.underflow)

def pfApply (x : Nat × Nat × Bool) : Eff → Nat × Nat × Bool
  | .peerUp eor => (x.1 + 1, x.2.1 + b2n eor, x.2.2)
  | .peerDown (some true) => (x.1 - 1, x.2.1 - 1, (x.2.2 || x.1 == 0) || x.2.1 == 0)
  | .peerDown _ => (x.1 - 1, x.2.1, x.2.2 || x.1 == 0)
  | _ => x

theorem pf_apply (m : Metrics) (e : Eff) : pf (m.apply e) = pfApply (pf m) e := by
  cases e with
  | peerUp eor => cases eor <;> simp [Metrics.apply, pf, pfApply, b2n]
  | peerDown eor =>
    cases eor with
    | none => simp [Metrics.apply, pf, pfApply]
    | some b => cases b <;> simp [Metrics.apply, pf, pfApply]
  | _ => simp [Metrics.apply, pf, pfApply]

theorem pf_applyAll (m : Metrics) (es : List Eff) : pf (m.applyAll es) = es.foldl pfApply (pf m) := by
  induction es generalizing m with
  | nil => rfl
  | cons e es ih =>
    simp only [Metrics.applyAll, List.foldl_cons] at ih ⊢
    rw [ih, pf_apply]

def NoPeer (es : List Eff) : Prop := ∀ e ∈ es, e.isPeer = false

theorem pfApply_nopeer (x : Nat × Nat × Bool) (e : Eff) (h : e.isPeer = false) : pfApply x e = x := by
  cases e <;> simp_all [pfApply, Eff.isPeer]

theorem foldl_nopeer (x : Nat × Nat × Bool) (es : List Eff) (h : NoPeer es) : es.foldl pfApply x = x := by
  induction es generalizing x with
  | nil => rfl
  | cons e es ih =>
    simp only [List.foldl_cons]
    rw [pfApply_nopeer x e (h e List.mem_cons_self)]
    exact ih x (fun e' he' => h e' (List.mem_cons_of_mem _ he'))

theorem NoPeer.append {a b : List Eff} (ha : NoPeer a) (hb : NoPeer b) : NoPeer (a ++ b) := by
  intro e he
  rcases List.mem_append.mp he with h | h
  · exact ha e h
  · exact hb e h

theorem noPeer_of_all (es : List Eff) (h : es.all (fun e => !e.isPeer) = true) : NoPeer es := by
  intro e he
  have := List.all_eq_true.mp h e he
  simpa using this

theorem rmExtract_nopeer (s : State) (p : Peer) (r : Rm) (e : List Eff) (he : NoPeer e) :
    NoPeer (rmExtract s p r e).effs := by
  unfold rmExtract
  split
  · exact he
  · split
    · exact he.append (noPeer_of_all _ rfl)
    · exact he.append (noPeer_of_all _ rfl)

theorem rmEor_nopeer (d : Bool) (s : State) (p : Peer) (r : Rm) (e : List Eff) (he : NoPeer e) :
    NoPeer (rmEor d s p r e).effs := by
  unfold rmEor
  split
  · exact rmExtract_nopeer s p r e he
  · split
    · exact he.append (noPeer_of_all _ rfl)
    · exact rmExtract_nopeer s p r _ (he.append (noPeer_of_all _ rfl))

theorem rmAfterParse_nopeer (v : Variant) (d : Bool) (s : State) (p : Peer) (r : Rm) (e : List Eff)
    (he : NoPeer e) : NoPeer (rmAfterParse v d s p r e).effs := by
  unfold rmAfterParse
  split
  · exact rmExtract_nopeer s p r e he
  · exact rmEor_nopeer d _ _ r e he

theorem routeMon_nopeer (v : Variant) (d : Bool) (s : State) (h : Hdr) (r : Rm) :
    NoPeer (routeMon v d s h r).effs := by
  unfold routeMon
  split
  · exact noPeer_of_all _ rfl
  · split
    · exact noPeer_of_all _ rfl
    · exact rmAfterParse_nopeer v d s _ r [] (noPeer_of_all _ rfl)
    · exact rmAfterParse_nopeer v d _ _ r _ (noPeer_of_all _ rfl)

/-! ### `route_monitoring` does not change who is up or who is EoR capable -/

theorem setPeer_eors {p p' : Peer} {ps : List Peer} (hp : p ∈ ps) (hh : p'.hdr = p.hdr)
    (he : p'.eor = p.eor) (hn : (ps.map (·.hdr)).Nodup) :
    (setPeer p' ps).map (·.eor) = ps.map (·.eor) := by
  induction ps with
  | nil => rfl
  | cons q qs ih =>
    simp only [List.map_cons, List.nodup_cons] at hn
    simp only [setPeer, List.map_cons]
    have hq : (if q.hdr = p'.hdr then p' else q).eor = q.eor := by
      split
      · rename_i hqh
        rcases List.mem_cons.mp hp with rfl | hpq
        · exact he
        · exact absurd (List.mem_map.mpr ⟨p, hpq, by rw [hqh, hh]⟩) hn.1
      · rfl
    rw [hq]
    congr 1
    by_cases hpq : p ∈ qs
    · exact ih hpq hn.2
    · -- p is the head; nobody in the tail has its header
      have hpe : p = q := by
        rcases List.mem_cons.mp hp with h | h
        · exact h
        · exact absurd h hpq
      subst hpe
      have : ∀ x ∈ qs, (if x.hdr = p'.hdr then p' else x) = x := by
        intro x hx
        split
        · rename_i hxh
          exact absurd (List.mem_map.mpr ⟨x, hx, by rw [hxh, hh]⟩) hn.1
        · rfl
      exact congrArg _ (List.map_congr_left this |>.trans (List.map_id' _))

theorem length_setPeer (p' : Peer) (ps : List Peer) : (setPeer p' ps).length = ps.length := by
  simp [setPeer]

/-- Peers: same length, same headers (hence still without duplicates), same EoR flags. -/
structure SameUp (ps' ps : List Peer) : Prop where
  hdrs : ps'.map (·.hdr) = ps.map (·.hdr)
  eors : ps'.map (·.eor) = ps.map (·.eor)

theorem SameUp.refl (ps : List Peer) : SameUp ps ps := ⟨rfl, rfl⟩
theorem SameUp.trans {a b c : List Peer} (h1 : SameUp a b) (h2 : SameUp b c) : SameUp a c :=
  ⟨h1.hdrs.trans h2.hdrs, h1.eors.trans h2.eors⟩
theorem SameUp.length {a b : List Peer} (h : SameUp a b) : a.length = b.length := by
  have := congrArg List.length h.hdrs
  simpa using this
theorem SameUp.eorCount {a b : List Peer} (h : SameUp a b) : eorCount a = eorCount b := by
  simp [Rotonda.Bmp.eorCount, h.eors]
theorem SameUp.nodup {a b : List Peer} (h : SameUp a b) (hn : (b.map (·.hdr)).Nodup) :
    (a.map (·.hdr)).Nodup := by rw [h.hdrs]; exact hn

theorem sameUp_setPeer {p p' : Peer} {ps : List Peer} (hp : p ∈ ps) (hh : p'.hdr = p.hdr)
    (he : p'.eor = p.eor) (hn : (ps.map (·.hdr)).Nodup) : SameUp (setPeer p' ps) ps :=
  ⟨hdrs_setPeer _ _, setPeer_eors hp hh he hn⟩

theorem rmExtract_sameUp (s : State) (p : Peer) (r : Rm) (e : List Eff) (hp : p ∈ s.peers)
    (hn : (s.peers.map (·.hdr)).Nodup) : SameUp (rmExtract s p r e).st.peers s.peers := by
  unfold rmExtract
  split
  · exact SameUp.refl _
  · split
    · exact sameUp_setPeer hp rfl rfl hn
    · exact SameUp.refl _

theorem rmEor_sameUp (d : Bool) (s : State) (p : Peer) (r : Rm) (e : List Eff) (hp : p ∈ s.peers)
    (hn : (s.peers.map (·.hdr)).Nodup) : SameUp (rmEor d s p r e).st.peers s.peers := by
  unfold rmEor
  split
  · exact rmExtract_sameUp s p r e hp hn
  · split
    · exact SameUp.refl _
    · exact rmExtract_sameUp s p r _ hp hn

theorem rmAfterParse_sameUp (v : Variant) (d : Bool) (s : State) (p : Peer) (r : Rm) (e : List Eff)
    (hp : p ∈ s.peers) (hn : (s.peers.map (·.hdr)).Nodup) :
    SameUp (rmAfterParse v d s p r e).st.peers s.peers := by
  unfold rmAfterParse
  split
  · exact rmExtract_sameUp s p r e hp hn
  · rename_i afi _
    have h1 : SameUp (setPeer (p.dropEor afi) s.peers) s.peers := sameUp_setPeer hp rfl rfl hn
    exact (rmEor_sameUp d { s with peers := setPeer (p.dropEor afi) s.peers } (p.dropEor afi) r e
      (mem_setPeer_self hp rfl) (h1.nodup hn)).trans h1

theorem routeMon_sameUp (v : Variant) (d : Bool) (s : State) (h : Hdr) (r : Rm)
    (hn : (s.peers.map (·.hdr)).Nodup) : SameUp (routeMon v d s h r).st.peers s.peers := by
  unfold routeMon
  split
  · exact SameUp.refl _
  · rename_i p hf
    have hp := (findPeer_some hf).1
    split
    · exact SameUp.refl _
    · exact rmAfterParse_sameUp v d s p r [] hp hn
    · have h1 : SameUp (setPeer p.toggle s.peers) s.peers := sameUp_setPeer hp rfl rfl hn
      exact (rmAfterParse_sameUp v d { s with peers := setPeer p.toggle s.peers } p.toggle r _
        (mem_setPeer_self hp rfl) (h1.nodup hn)).trans h1

/-! ### Removing a peer from a table without duplicate headers -/

theorem erasePeer_of_nodup {h : Hdr} {ps : List Peer} {p : Peer} (hf : findPeer h ps = some p)
    (hn : (ps.map (·.hdr)).Nodup) :
    (erasePeer h ps).length + 1 = ps.length ∧ eorCount (erasePeer h ps) + b2n p.eor = eorCount ps := by
  induction ps with
  | nil => simp [findPeer] at hf
  | cons q qs ih =>
    simp only [List.map_cons, List.nodup_cons] at hn
    simp only [findPeer] at hf
    split at hf
    · rename_i hq
      cases hf
      have keep : erasePeer h qs = qs := by
        simp only [erasePeer]
        apply List.filter_eq_self.mpr
        intro x hx
        have : x.hdr ≠ h := by
          intro hxh
          exact hn.1 (List.mem_map.mpr ⟨x, hx, by rw [hxh, hq]⟩)
        simpa using this
      have : erasePeer h (p :: qs) = qs := by
        simp only [erasePeer, List.filter_cons, hq]
        simpa [erasePeer] using keep
      rw [this, eorCount_cons]
      exact ⟨rfl, by omega⟩
    · rename_i hq
      obtain ⟨i1, i2⟩ := ih hf hn.2
      have : erasePeer h (q :: qs) = q :: erasePeer h qs := by
        simp [erasePeer, hq]
      rw [this, eorCount_cons, eorCount_cons]
      exact ⟨by simp only [List.length_cons]; omega, by omega⟩

theorem erasePeer_nodup (h : Hdr) (ps : List Peer) (hn : (ps.map (·.hdr)).Nodup) :
    ((erasePeer h ps).map (·.hdr)).Nodup :=
  List.Nodup.sublist (List.Sublist.map _ List.filter_sublist) hn

/-! ### Counters -/

def annSum : List Eff → Nat
  | [] => 0
  | .routing _ a _ :: es => a + annSum es
  | _ :: es => annSum es

def wdSum : List Eff → Nat
  | [] => 0
  | .routing _ _ w :: es => w + wdSum es
  | _ :: es => wdSum es

def hardSum : List Eff → Nat
  | [] => 0
  | .hardFail :: es => 1 + hardSum es
  | _ :: es => hardSum es

theorem counters_applyAll (m : Metrics) (es : List Eff) :
    (m.applyAll es).hardFail = m.hardFail + hardSum es ∧
    (m.applyAll es).ann = m.ann + annSum es ∧
    (m.applyAll es).wd = m.wd + wdSum es := by
  induction es generalizing m with
  | nil => simp [Metrics.applyAll, hardSum, annSum, wdSum]
  | cons e es ih =>
    simp only [Metrics.applyAll, List.foldl_cons] at ih ⊢
    obtain ⟨i1, i2, i3⟩ := ih (m.apply e)
    rw [i1, i2, i3]
    cases e with
    | peerDown eor =>
      rcases eor with _ | _ | _ <;> simp [Metrics.apply, hardSum, annSum, wdSum]
    | _ => simp [Metrics.apply, hardSum, annSum, wdSum] <;> omega

theorem sums_append (a b : List Eff) :
    hardSum (a ++ b) = hardSum a + hardSum b ∧ annSum (a ++ b) = annSum a + annSum b ∧
    wdSum (a ++ b) = wdSum a + wdSum b := by
  induction a with
  | nil => simp [hardSum, annSum, wdSum]
  | cons e a ih => cases e <;> simp [hardSum, annSum, wdSum, ih] <;> omega

end Rotonda.Bmp
