import RotondaModel.Model.Session
/-! Invariant of the session layer (C02): ids in the register are unique and below the serial, and
    every up peer's ingress id points at the register entry `(router, address, AS, rib type)` of its header. -/
namespace Rotonda.Session

structure RegOk (r : Register) : Prop where
  keys_lt : ∀ e ∈ r.info, e.1 < r.serial
  keys_nodup : (r.info.map Prod.fst).Nodup

structure Inv (w : World) : Prop where
  reg : RegOk w.reg
  peers_info : ∀ e ∈ w.rt.peers, w.reg.get e.2 = some (query w.rt e.1)

theorem find_of_mem (l : List (Nat × Info)) (h : (l.map Prod.fst).Nodup) (id : Nat) (i : Info)
    (hm : (id, i) ∈ l) : (l.find? (fun e => e.1 = id)).map (·.2) = some i := by
  induction l with
  | nil => cases hm
  | cons e l ih =>
    simp only [List.map_cons, List.nodup_cons] at h
    rcases List.mem_cons.mp hm with he | he
    · subst he; simp
    · have hne : e.1 ≠ id := by
        intro heq
        apply h.1
        rw [heq]
        exact List.mem_map_of_mem (f := Prod.fst) he
      simp [List.find?_cons, hne, ih h.2 he]

theorem get_of_mem (r : Register) (h : (r.info.map Prod.fst).Nodup) (id : Nat) (i : Info)
    (hm : (id, i) ∈ r.info) : r.get id = some i := find_of_mem r.info h id i hm

theorem mem_of_get (r : Register) (id : Nat) (i : Info) (h : r.get id = some i) : (id, i) ∈ r.info := by
  unfold Register.get at h
  cases hf : r.info.find? (fun e => e.1 = id) with
  | none => simp [hf] at h
  | some e =>
    simp only [hf, Option.map_some, Option.some.injEq] at h
    have hm := List.mem_of_find?_eq_some hf
    have hp := List.find?_some hf
    simp only [decide_eq_true_eq] at hp
    have : e = (id, i) := by cases e; simp_all
    rw [← this]; exact hm

theorem mem_of_findPeer (r : Register) (q : Info) (id : Nat) (h : r.findPeer q = some id) : (id, q) ∈ r.info := by
  unfold Register.findPeer at h
  cases hf : r.info.find? (fun e => e.2 = q) with
  | none => simp [hf] at h
  | some e =>
    simp only [hf, Option.map_some, Option.some.injEq] at h
    have hm := List.mem_of_find?_eq_some hf
    have hp := List.find?_some hf
    simp only [decide_eq_true_eq] at hp
    have : e = (id, q) := by cases e; simp_all
    rw [← this]; exact hm

theorem RegOk_add (r : Register) (i : Info) (h : RegOk r) : RegOk (r.add i).2 := by
  refine ⟨?_, ?_⟩
  · intro e he
    simp only [Register.add, List.mem_append, List.mem_singleton] at he ⊢
    rcases he with he | he
    · exact Nat.lt_succ_of_lt (h.keys_lt e he)
    · subst he; exact Nat.lt_succ_self _
  · simp only [Register.add, List.map_append, List.map_cons, List.map_nil]
    rw [List.nodup_append]
    refine ⟨h.keys_nodup, by simp, ?_⟩
    intro a ha b hb
    simp only [List.mem_singleton] at hb
    subst hb
    obtain ⟨e, he, rfl⟩ := List.mem_map.mp ha
    exact Nat.ne_of_lt (h.keys_lt e he)

theorem get_add_old (r : Register) (i : Info) (h : RegOk r) (id : Nat) (j : Info) (hg : r.get id = some j) :
    (r.add i).2.get id = some j := by
  apply get_of_mem _ (RegOk_add r i h).keys_nodup
  simp only [Register.add, List.mem_append]
  exact Or.inl (mem_of_get r id j hg)

theorem get_add_new (r : Register) (i : Info) (h : RegOk r) : (r.add i).2.get r.serial = some i := by
  apply get_of_mem _ (RegOk_add r i h).keys_nodup
  simp [Register.add]

theorem Inv_peerUp (w : World) (h : Pph) (hi : Inv w) : Inv (peerUp w h) := by
  unfold peerUp
  cases hf : w.reg.findPeer (query w.rt h) with
  | some id =>
    have hmem := mem_of_findPeer _ _ _ hf
    have hget := get_of_mem _ hi.reg.keys_nodup _ _ hmem
    cases ho : w.rt.idOf h with
    | some _ => exact ⟨hi.reg, hi.peers_info⟩
    | none =>
      refine ⟨hi.reg, ?_⟩
      intro e he
      simp only [List.mem_append, List.mem_singleton] at he
      rcases he with he | he
      · exact hi.peers_info e he
      · subst he; exact hget
  | none =>
    cases ho : w.rt.idOf h with
    | some _ =>
      refine ⟨RegOk_add _ _ hi.reg, ?_⟩
      intro e he
      exact get_add_old _ _ hi.reg _ _ (hi.peers_info e he)
    | none =>
      refine ⟨RegOk_add _ _ hi.reg, ?_⟩
      intro e he
      simp only [List.mem_append, List.mem_singleton] at he
      rcases he with he | he
      · exact get_add_old _ _ hi.reg _ _ (hi.peers_info e he)
      · subst he; exact get_add_new _ _ hi.reg

theorem Inv_step (w : World) (op : Op) (hi : Inv w) : Inv (step w op) := by
  cases op with
  | peerUp h => exact Inv_peerUp w h hi
  | peerDown h =>
    refine ⟨hi.reg, ?_⟩
    intro e he
    simp only [step, peerDown, List.mem_filter] at he
    exact hi.peers_info e he.1
  | foreign i =>
    refine ⟨RegOk_add _ _ hi.reg, ?_⟩
    intro e he
    exact get_add_old _ _ hi.reg _ _ (hi.peers_info e he)

theorem Inv_runOps (ops : List Op) (w : World) (hi : Inv w) : Inv (runOps w ops) := by
  induction ops generalizing w with
  | nil => exact hi
  | cons op ops ih => exact ih _ (Inv_step w op hi)

theorem Inv_connected (reg : Register) (rid : Nat) (h : RegOk reg) : Inv (World.connected reg rid) :=
  ⟨h, by intro e he; cases he⟩

end Rotonda.Session
