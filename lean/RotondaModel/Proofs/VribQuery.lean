import RotondaModel.Model.VribQuery
/-! Helper lemmas for `Props/VribQuery.lean`: the insertion sort is a permutation for every
comparator and sorted for a comparator that is a strict weak order; the pipeline's run. -/
namespace Rotonda.VribQuery

open Rotonda.RibQuery (Str)

/-! ## decidable equality of JSON values (the derive handler does not cover nested inductives) -/

mutual
theorem J.beq_iff : ∀ a b : J, J.beq a b = true ↔ a = b
  | .null, b => by cases b <;> simp [J.beq]
  | .bool _, b => by cases b <;> simp [J.beq]
  | .num _, b => by cases b <;> simp [J.beq]
  | .str _, b => by cases b <;> simp [J.beq]
  | .arr xs, b => by cases b <;> simp [J.beq, J.beqList_iff xs]
  | .obj ks vs, b => by cases b <;> simp [J.beq, J.beqList_iff vs]
theorem J.beqList_iff : ∀ a b : List J, J.beqList a b = true ↔ a = b
  | [], b => by cases b <;> simp [J.beqList]
  | x :: xs, b => by cases b <;> simp [J.beqList, J.beq_iff x, J.beqList_iff xs]
end

instance : DecidableEq J := fun a b => decidable_of_iff _ (J.beq_iff a b)

theorem isort_singleton {α} (lt : α → α → Bool) (l : List α) : (l.flatMap fun e => isort lt [e]) = l := by
  induction l with
  | nil => rfl
  | cons x xs ih => simp only [List.flatMap_cons, ih]; simp [isort, insRev]

/-! ## insertion sort -/

theorem insRev_perm {α} (lt : α → α → Bool) (x : α) (l : List α) : (insRev lt x l).Perm (x :: l) := by
  induction l with
  | nil => exact List.Perm.refl _
  | cons y ys ih =>
    simp only [insRev]
    split
    · exact (List.Perm.cons y ih).trans (List.Perm.swap x y ys)
    · exact List.Perm.refl _

theorem foldl_insRev_perm {α} (lt : α → α → Bool) (xs acc : List α) :
    (xs.foldl (fun acc x => insRev lt x acc) acc).Perm (xs.reverse ++ acc) := by
  induction xs generalizing acc with
  | nil => simp
  | cons x xs ih =>
    simp only [List.foldl_cons, List.reverse_cons, List.append_assoc, List.singleton_append]
    refine (ih _).trans ?_
    exact List.Perm.append_left _ (insRev_perm lt x acc)

theorem isort_perm {α} (lt : α → α → Bool) (xs : List α) : (isort lt xs).Perm xs := by
  unfold isort
  refine (List.reverse_perm _).trans ?_
  have := foldl_insRev_perm lt xs []
  simp only [List.append_nil] at this
  exact this.trans (List.reverse_perm xs)

/-- `le a b` := `b` is not `Less` than `a`: what a sorted slice guarantees between an earlier `a`
and a later `b`. -/
def le {α} (lt : α → α → Bool) (a b : α) : Prop := lt b a = false

/-- The reversed prefix is sorted: every element is `le` all the elements before it in the list
(= after it in the slice). -/
def RevSorted {α} (lt : α → α → Bool) : List α → Prop
  | [] => True
  | y :: ys => (∀ z ∈ ys, le lt z y) ∧ RevSorted lt ys

/-- A strict weak order on the elements satisfying `P`. -/
structure StrictWeak {α} (lt : α → α → Bool) (P : α → Prop) : Prop where
  asymm : ∀ a b, P a → P b → lt a b = true → lt b a = false
  le_trans : ∀ a b c, P a → P b → P c → le lt a b → le lt b c → le lt a c

theorem insRev_sorted {α} (lt : α → α → Bool) (P : α → Prop) (h : StrictWeak lt P) (x : α) (l : List α)
    (hx : P x) (hl : ∀ y ∈ l, P y) (hs : RevSorted lt l) : RevSorted lt (insRev lt x l) := by
  induction l with
  | nil => simp [insRev, RevSorted]
  | cons y ys ih =>
    have hy : P y := hl y (List.mem_cons_self)
    have hys : ∀ z ∈ ys, P z := fun z hz => hl z (List.mem_cons_of_mem _ hz)
    simp only [insRev]
    split
    · -- x is Less than y: y stays on top (later in the slice), x goes further down
      rename_i hlt
      refine ⟨?_, ih hys hs.2⟩
      intro z hz
      have hz' := (insRev_perm lt x ys).mem_iff.mp hz
      rcases List.mem_cons.mp hz' with rfl | hz''
      · exact h.asymm _ _ hx hy hlt
      · exact hs.1 z hz''
    · -- x is not Less than y: x on top
      rename_i hnlt
      have hxy : le lt y x := by
        unfold le; cases hc : lt x y
        · rfl
        · exact absurd hc hnlt
      refine ⟨?_, hs⟩
      intro z hz
      rcases List.mem_cons.mp hz with rfl | hz'
      · exact hxy
      · exact h.le_trans z y x (hys z hz') hy hx (hs.1 z hz') hxy

theorem foldl_insRev_sorted {α} (lt : α → α → Bool) (P : α → Prop) (h : StrictWeak lt P) (xs acc : List α)
    (hxs : ∀ y ∈ xs, P y) (hacc : ∀ y ∈ acc, P y) (hs : RevSorted lt acc) :
    RevSorted lt (xs.foldl (fun acc x => insRev lt x acc) acc) := by
  induction xs generalizing acc with
  | nil => exact hs
  | cons x xs ih =>
    simp only [List.foldl_cons]
    apply ih _ (fun y hy => hxs y (List.mem_cons_of_mem _ hy))
    · intro y hy
      have := (insRev_perm lt x acc).mem_iff.mp hy
      rcases List.mem_cons.mp this with rfl | h'
      · exact hxs _ (List.mem_cons_self)
      · exact hacc y h'
    · exact insRev_sorted lt P h x acc (hxs x (List.mem_cons_self)) hacc hs

theorem revSorted_pairwise {α} (lt : α → α → Bool) (l : List α) (h : RevSorted lt l) :
    l.reverse.Pairwise (le lt) := by
  induction l with
  | nil => simp
  | cons y ys ih =>
    simp only [List.reverse_cons]
    rw [List.pairwise_append]
    refine ⟨ih h.2, by simp, ?_⟩
    intro a ha b hb
    simp only [List.mem_singleton] at hb
    subst hb
    exact h.1 a (List.mem_reverse.mp ha)

/-- On elements among which `lt` is a strict weak order the result is ordered: an earlier element
is never `Greater`-placed — no later element is `Less` than an earlier one. -/
theorem isort_sorted {α} (lt : α → α → Bool) (P : α → Prop) (h : StrictWeak lt P) (xs : List α)
    (hxs : ∀ y ∈ xs, P y) : (isort lt xs).Pairwise (le lt) := by
  unfold isort
  apply revSorted_pairwise
  exact foldl_insRev_sorted lt P h xs [] hxs (by simp) trivial

/-! ## comparators on plain values -/

theorem cmpNat_lt_iff (a b : Nat) : cmpNat a b = .lt ↔ a < b := by
  unfold cmpNat; split
  · simp [*]
  · split <;> simp [*]

theorem cmpStr_lt_asymm : ∀ a b : Str, cmpStr a b = .lt → cmpStr b a ≠ .lt
  | [], [], h => by simp [cmpStr] at h
  | [], _ :: _, _ => by simp [cmpStr]
  | _ :: _, [], h => by simp [cmpStr] at h
  | a :: as, b :: bs, h => by
    simp only [cmpStr] at h ⊢
    by_cases h1 : a.toNat < b.toNat
    · have : ¬ b.toNat < a.toNat := by omega
      simp [this, h1]
    · by_cases h2 : b.toNat < a.toNat
      · simp [h1, h2] at h
      · simp only [h1, h2, if_false] at h ⊢
        exact cmpStr_lt_asymm as bs h

/-- `cmpStr a b ≠ .lt` is transitive in the reverse direction (`le`). -/
theorem cmpStr_le_trans : ∀ a b c : Str, cmpStr b a ≠ .lt → cmpStr c b ≠ .lt → cmpStr c a ≠ .lt
  | [], _, [], _, _ => by simp [cmpStr]
  | _ :: _, [], [], h1, _ => by simp [cmpStr] at h1
  | _ :: _, _ :: _, [], _, h2 => by simp [cmpStr] at h2
  | [], _, _ :: _, _, _ => by simp [cmpStr]
  | _ :: _, [], _ :: _, h1, _ => by simp [cmpStr] at h1
  | a :: as, b :: bs, c :: cs, h1, h2 => by
    simp only [cmpStr] at h1 h2 ⊢
    by_cases hba : b.toNat < a.toNat
    · simp [hba] at h1
    · by_cases hab : a.toNat < b.toNat
      · -- a < b
        by_cases hcb : c.toNat < b.toNat
        · simp [hcb] at h2
        · by_cases hbc : b.toNat < c.toNat
          · have : ¬ c.toNat < a.toNat := by omega
            have : a.toNat < c.toNat := by omega
            simp [*]
          · have : ¬ c.toNat < a.toNat := by omega
            have : a.toNat < c.toNat := by omega
            simp [*]
      · -- a = b
        simp only [hba, hab, if_false] at h1
        by_cases hcb : c.toNat < b.toNat
        · simp [hcb] at h2
        · by_cases hbc : b.toNat < c.toNat
          · have : ¬ c.toNat < a.toNat := by omega
            have : a.toNat < c.toNat := by omega
            simp [*]
          · simp only [hcb, hbc, if_false] at h2
            have e1 : ¬ c.toNat < a.toNat := by omega
            have e2 : ¬ a.toNat < c.toNat := by omega
            simp only [e1, e2, if_false]
            exact cmpStr_le_trans as bs cs h1 h2

/-! ## the repaired comparator is antisymmetric -/

theorem cmpInt_swap (a b : Int) : cmpInt a b = (cmpInt b a).swap := by
  unfold cmpInt
  by_cases h1 : a < b
  · have : ¬ b < a := by omega
    simp [h1, this, Ordering.swap]
  · by_cases h2 : b < a
    · simp [h1, h2, Ordering.swap]
    · simp [h1, h2, Ordering.swap]

theorem cmpNat_swap (a b : Nat) : cmpNat a b = (cmpNat b a).swap := by
  unfold cmpNat
  by_cases h1 : a < b
  · have : ¬ b < a := by omega
    simp [h1, this, Ordering.swap]
  · by_cases h2 : b < a
    · simp [h1, h2, Ordering.swap]
    · simp [h1, h2, Ordering.swap]

theorem cmpBool_swap (a b : Bool) : cmpBool a b = (cmpBool b a).swap := by
  cases a <;> cases b <;> rfl

theorem cmpStr_swap : ∀ a b : Str, cmpStr a b = (cmpStr b a).swap
  | [], [] => rfl
  | [], _ :: _ => rfl
  | _ :: _, [] => rfl
  | a :: as, b :: bs => by
    simp only [cmpStr]
    by_cases h1 : a.toNat < b.toNat
    · have : ¬ b.toNat < a.toNat := by omega
      simp [h1, this, Ordering.swap]
    · by_cases h2 : b.toNat < a.toNat
      · simp [h1, h2, Ordering.swap]
      · simp only [h1, h2, if_false]
        exact cmpStr_swap as bs

mutual
theorem cmpJsonT_swap : ∀ a b : J, cmpJsonT a b = (cmpJsonT b a).swap
  | .null, b => by cases b <;> simp [cmpJsonT, rank, cmpNat, Ordering.swap]
  | .bool x, b => by cases b <;> simp [cmpJsonT, rank, cmpNat, Ordering.swap]; exact cmpBool_swap _ _
  | .num x, b => by cases b <;> simp [cmpJsonT, rank, cmpNat, Ordering.swap]; exact cmpInt_swap _ _
  | .str x, b => by cases b <;> simp [cmpJsonT, rank, cmpNat, Ordering.swap]; exact cmpStr_swap _ _
  | .arr xs, b => by cases b <;> simp [cmpJsonT, rank, cmpNat, Ordering.swap]; exact cmpArrT_swap xs _
  | .obj ks vs, b => by cases b <;> simp [cmpJsonT, rank, cmpNat, Ordering.swap]; exact cmpObjT_swap ks vs _ _
theorem cmpArrT_swap : ∀ xs ys : List J, cmpArrT xs ys = (cmpArrT ys xs).swap
  | [], [] => by simp [cmpArrT, Ordering.swap]
  | [], _ :: _ => by simp [cmpArrT, Ordering.swap]
  | _ :: _, [] => by simp [cmpArrT, Ordering.swap]
  | x :: xs, y :: ys => by
    simp only [cmpArrT]
    rw [cmpJsonT_swap x y]
    cases cmpJsonT y x <;> simp [Ordering.swap, cmpArrT_swap xs ys]
theorem cmpObjT_swap : ∀ (ks : List Str) (vs : List J) (ks' : List Str) (vs' : List J),
    cmpObjT ks vs ks' vs' = (cmpObjT ks' vs' ks vs).swap
  | k :: ks, v :: vs, k' :: ks', v' :: vs' => by
    simp only [cmpObjT]
    rw [cmpStr_swap k k', cmpJsonT_swap v v']
    cases cmpStr k' k <;> simp [Ordering.swap]
    cases cmpJsonT v' v <;> simp [Ordering.swap, cmpObjT_swap ks vs ks' vs']
  | [], _, [], _ => by simp [cmpObjT, Ordering.swap]
  | [], _, _ :: _, _ => by simp [cmpObjT, Ordering.swap]
  | _ :: _, vs, [], _ => by cases vs <;> simp [cmpObjT, Ordering.swap]
  | _ :: _, [], _ :: _, vs' => by cases vs' <;> simp [cmpObjT, Ordering.swap]
  | _ :: _, _ :: _, _ :: _, [] => by simp [cmpObjT, Ordering.swap]
end
theorem cmpKeysT_swap : ∀ (ks : List Str) (a b : J), cmpKeysT ks a b = (cmpKeysT ks b a).swap
  | [], _, _ => rfl
  | k :: ks, a, b => by
    simp only [cmpKeysT]
    cases pointer a k <;> cases pointer b k <;> simp only [Ordering.swap]
    rename_i l r
    rw [cmpJsonT_swap l r]
    cases cmpJsonT r l <;> simp [Ordering.swap, cmpKeysT_swap ks a b]

/-! ## the pipeline -/

theorem reprocess_repaired (up : Upstream) (d : Nat) (v : VVariant) (h : v.reprocess = true) :
    reprocess v up d = some up := by
  induction d with
  | zero => rfl
  | succ d ih => simp [reprocess, h, ih]

theorem reprocess_empty (v : VVariant) (up : Upstream) (d : Nat) (h : up.records = 0) :
    reprocess v up d = some up := by
  induction d with
  | zero => rfl
  | succ d ih => simp [reprocess, h, ih]

theorem reprocess_asWritten_nonempty (up : Upstream) (d : Nat) (h : up.records ≠ 0) :
    reprocess vAsWritten up (d + 1) = none := by
  simp [reprocess, vAsWritten, h]

end Rotonda.VribQuery
