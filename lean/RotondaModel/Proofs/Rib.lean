import RotondaModel.Model.Rib
/-!
Helper lemmas for the RIB model: association lists, the store contract, the frame/effect
lemmas of `Rib.apply` per `Update` variant, and the refinement of a history to the
per-key abstract state `Abs` (local record + global withdrawn marker).
-/
namespace Rotonda.Rib

/-! ### Association lists -/

section AList
variable {κ β : Type} [DecidableEq κ]

theorem lookup_upsert (k k' : κ) (v : β) (l : List (κ × β)) :
    lookup k' (upsert k v l) = if k' = k then some v else lookup k' l := by
  induction l with
  | nil =>
    simp only [upsert, lookup]
    by_cases h : k = k'
    · simp [h]
    · simp [h, Ne.symm h]
  | cons e l ih =>
    simp only [upsert]
    by_cases h : e.1 = k
    · simp only [h, if_true, lookup]
      by_cases h' : k = k'
      · simp [h']
      · simp [h', Ne.symm h']
    · simp only [h, if_false, lookup, ih]
      by_cases h' : e.1 = k'
      · have : k' ≠ k := by intro hk; exact h (h'.trans hk)
        simp [h', this]
      · simp [h']

theorem lookup_modify (k k' : κ) (f : β → β) (l : List (κ × β)) :
    lookup k' (modify k f l) = if k' = k then (lookup k l).map f else lookup k' l := by
  induction l with
  | nil => simp [modify, lookup]
  | cons e l ih =>
    simp only [modify]
    by_cases h : e.1 = k
    · simp only [h, if_true, lookup]
      by_cases h' : k = k'
      · simp [h']
      · simp [h', Ne.symm h']
    · simp only [h, if_false, lookup, ih]
      by_cases h' : e.1 = k'
      · have : k' ≠ k := by intro hk; exact h (h'.trans hk)
        simp [h', this]
      · simp [h']

/-- A key-preserving map over the entries. -/
theorem lookup_mapVal (g : κ → β → β) (k : κ) (l : List (κ × β)) :
    lookup k (l.map fun e => (e.1, g e.1 e.2)) = (lookup k l).map (g k) := by
  induction l with
  | nil => simp [lookup]
  | cons e l ih =>
    simp only [List.map_cons, lookup]
    by_cases h : e.1 = k
    · simp [h]
    · simp [h, ih]

theorem keys_modify (k : κ) (f : β → β) (l : List (κ × β)) :
    (modify k f l).map Prod.fst = l.map Prod.fst := by
  induction l with
  | nil => rfl
  | cons e l ih =>
    simp only [modify]
    by_cases h : e.1 = k <;> simp [h, ih]

theorem mem_keys_upsert (k x : κ) (v : β) (l : List (κ × β)) :
    x ∈ (upsert k v l).map Prod.fst ↔ x = k ∨ x ∈ l.map Prod.fst := by
  induction l with
  | nil => simp [upsert]
  | cons e l ih =>
    simp only [upsert]
    by_cases h : e.1 = k
    · simp [h]
    · simp only [h, if_false, List.map_cons, List.mem_cons, ih]
      constructor
      · rintro (h1 | h1 | h1) <;> simp [h1]
      · rintro (h1 | h1 | h1) <;> simp [h1]

theorem nodup_keys_upsert (k : κ) (v : β) (l : List (κ × β)) (h : (l.map Prod.fst).Nodup) :
    ((upsert k v l).map Prod.fst).Nodup := by
  induction l with
  | nil => simp [upsert]
  | cons e l ih =>
    simp only [List.map_cons, List.nodup_cons] at h
    simp only [upsert]
    by_cases hk : e.1 = k
    · simp only [hk, if_true, List.map_cons, List.nodup_cons]
      exact ⟨hk ▸ h.1, h.2⟩
    · simp only [hk, if_false, List.map_cons, List.nodup_cons]
      refine ⟨?_, ih h.2⟩
      rw [mem_keys_upsert]
      rintro (h1 | h1)
      · exact hk h1
      · exact h.1 h1

theorem lookup_eq_some_of_mem (k : κ) (v : β) (l : List (κ × β)) (hn : (l.map Prod.fst).Nodup)
    (hm : (k, v) ∈ l) : lookup k l = some v := by
  induction l with
  | nil => cases hm
  | cons e l ih =>
    simp only [List.map_cons, List.nodup_cons] at hn
    simp only [lookup]
    rcases List.mem_cons.mp hm with h | h
    · simp [← h]
    · have : e.1 ≠ k := by
        intro he
        apply hn.1
        rw [he]
        exact List.mem_map_of_mem (f := Prod.fst) h
      simp [this, ih hn.2 h]

theorem mem_of_lookup_eq_some (k : κ) (v : β) (l : List (κ × β)) (h : lookup k l = some v) :
    (k, v) ∈ l := by
  induction l with
  | nil => simp [lookup] at h
  | cons e l ih =>
    simp only [lookup] at h
    by_cases he : e.1 = k
    · simp only [he, if_true, Option.some.injEq] at h
      have : e = (k, v) := by cases e; simp_all
      simp [this]
    · simp only [he, if_false] at h
      exact List.mem_cons_of_mem _ (ih h)

end AList

theorem setWithdrawn_idem (v : Val) : setWithdrawn (setWithdrawn v) = setWithdrawn v := rfl

theorem map_setWithdrawn_idem (e : Option Val) :
    (e.map setWithdrawn).map setWithdrawn = e.map setWithdrawn := by
  cases e <;> rfl

/-! ### Store -/

/-- The model of the store's maps: keys are unique (a `HashMap`), and a record only lives under a
    prefix that has a slot. Holds for every reachable store (`WF_*` lemmas). -/
def Store.WF (s : Store) : Prop :=
  (s.recs.map Prod.fst).Nodup ∧ ∀ k ∈ s.recs.map Prod.fst, k.1 ∈ s.known

theorem Store.WF_empty : Store.empty.WF := by simp [Store.WF, Store.empty]

theorem Store.get_none_of_unknown (s : Store) (h : s.WF) (p : Prefix) (m : Mui) (hp : p ∉ s.known) :
    s.get p m = none := by
  cases hg : s.get p m with
  | none => rfl
  | some v =>
    exfalso
    have := mem_of_lookup_eq_some _ _ _ hg
    exact hp (h.2 (p, m) (List.mem_map_of_mem (f := Prod.fst) this))

@[simp] theorem Store.get_insert (s : Store) (p p' : Prefix) (m m' : Mui) (st : Status) (a : AttrId) :
    (s.insert p m st a).get p' m' = if p' = p ∧ m' = m then some (st, a) else s.get p' m' := by
  simp only [Store.get, Store.insert, lookup_upsert, Prod.mk.injEq]

@[simp] theorem Store.wd_insert (s : Store) (p : Prefix) (m : Mui) (st : Status) (a : AttrId) (f : Fam) :
    (s.insert p m st a).wd f = s.wd f := by cases f <;> rfl

theorem Store.WF_insert (s : Store) (p : Prefix) (m : Mui) (st : Status) (a : AttrId) (h : s.WF) :
    (s.insert p m st a).WF := by
  refine ⟨nodup_keys_upsert _ _ _ h.1, ?_⟩
  intro k hk
  simp only [Store.insert] at hk ⊢
  rw [mem_keys_upsert] at hk
  rcases hk with hk | hk
  · subst hk
    by_cases hp : p ∈ s.known <;> simp [hp]
  · have := h.2 k hk
    by_cases hp : p ∈ s.known <;> simp [hp, this]

/-- `mark_mui_as_withdrawn_for_prefix` changes only the local status of `(p, m)` — whether or not
    the prefix was known (a slot is created, but it holds no record). -/
theorem Store.get_markWithdrawnForPrefix (s : Store) (h : s.WF) (p p' : Prefix) (m m' : Mui) :
    ((s.markWithdrawnForPrefix p m).1).get p' m'
      = if p' = p ∧ m' = m then (s.get p m).map setWithdrawn else s.get p' m' := by
  unfold Store.markWithdrawnForPrefix
  by_cases hk : p ∈ s.known
  · simp only [hk, if_true, Store.get, lookup_modify, Prod.mk.injEq]
  · simp only [hk, if_false]
    by_cases hh : p' = p ∧ m' = m
    · have := s.get_none_of_unknown h p m hk
      simp only [hh, and_self, if_true, this, Option.map_none]
      simpa [Store.get] using this
    · simp [hh, Store.get]

@[simp] theorem Store.wd_markWithdrawnForPrefix (s : Store) (p : Prefix) (m : Mui) (f : Fam) :
    ((s.markWithdrawnForPrefix p m).1).wd f = s.wd f := by
  unfold Store.markWithdrawnForPrefix
  by_cases hk : p ∈ s.known <;> cases f <;> simp [hk, Store.wd]

theorem Store.WF_markWithdrawnForPrefix (s : Store) (p : Prefix) (m : Mui) (h : s.WF) :
    ((s.markWithdrawnForPrefix p m).1).WF := by
  unfold Store.markWithdrawnForPrefix
  by_cases hk : p ∈ s.known
  · simp only [hk, if_true, Store.WF, keys_modify]
    exact h
  · simp only [hk, if_false, Store.WF]
    exact ⟨h.1, fun k hk' => List.mem_cons_of_mem _ (h.2 k hk')⟩

@[simp] theorem Store.get_markMuiWithdrawn (s : Store) (f : Fam) (m : Mui) (p : Prefix) (m' : Mui) :
    (s.markMuiWithdrawn f m).get p m' = s.get p m' := by cases f <;> rfl

theorem mem_setAdd (m x : Nat) (l : List Nat) : x ∈ setAdd m l ↔ x = m ∨ x ∈ l := by
  unfold setAdd
  by_cases h : m ∈ l
  · simp only [h, if_true]
    constructor
    · exact Or.inr
    · rintro (h1 | h1)
      · exact h1 ▸ h
      · exact h1
  · simp [h]

theorem Store.mem_wd_markMuiWithdrawn (s : Store) (f f' : Fam) (m x : Mui) :
    x ∈ (s.markMuiWithdrawn f m).wd f' ↔ (f' = f ∧ x = m) ∨ x ∈ s.wd f' := by
  cases f <;> cases f' <;> simp [Store.markMuiWithdrawn, Store.wd, mem_setAdd]

theorem Store.WF_markMuiWithdrawn (s : Store) (f : Fam) (m : Mui) (h : s.WF) :
    (s.markMuiWithdrawn f m).WF := by cases f <;> exact h

theorem Store.get_withdrawRecords (s : Store) (fams : List Fam) (m : Mui) (p : Prefix) (m' : Mui) :
    (s.withdrawRecords fams m).get p m'
      = if m' = m ∧ p.fam ∈ fams then (s.get p m').map setWithdrawn else s.get p m' := by
  have := lookup_mapVal (fun (k : Key) (v : Val) => if k.2 = m ∧ k.1.fam ∈ fams then setWithdrawn v else v) (p, m') s.recs
  simp only [Store.get, Store.withdrawRecords]
  have e : (s.recs.map fun e => if e.1.2 = m ∧ e.1.1.fam ∈ fams then (e.1, setWithdrawn e.2) else e)
      = s.recs.map fun e => (e.1, if e.1.2 = m ∧ e.1.1.fam ∈ fams then setWithdrawn e.2 else e.2) := by
    apply List.map_congr_left
    intro e _
    by_cases h : e.1.2 = m ∧ e.1.1.fam ∈ fams <;> simp [h]
  rw [e, this]
  by_cases h : m' = m ∧ p.fam ∈ fams
  · simp only [h, and_self, if_true]
  · simp only [h, if_false]
    cases lookup (p, m') s.recs <;> simp

@[simp] theorem Store.wd_withdrawRecords (s : Store) (fams : List Fam) (m : Mui) (f : Fam) :
    (s.withdrawRecords fams m).wd f = s.wd f := by cases f <;> rfl

theorem Store.WF_withdrawRecords (s : Store) (fams : List Fam) (m : Mui) (h : s.WF) :
    (s.withdrawRecords fams m).WF := by
  have e : ((s.withdrawRecords fams m).recs.map Prod.fst) = s.recs.map Prod.fst := by
    simp only [Store.withdrawRecords, List.map_map]
    apply List.map_congr_left
    intro e _
    by_cases h : e.1.2 = m ∧ e.1.1.fam ∈ fams <;> simp [h]
  exact ⟨e ▸ h.1, fun k hk => h.2 k (e ▸ hk)⟩

/-! ### Rib: effect and frame lemmas per operation -/

def Rib.get (r : Rib) (mc : Bool) (p : Prefix) (m : Mui) : Option Val := (r.store mc).get p m

def Rib.WF (r : Rib) : Prop := r.unicast.WF ∧ r.multicast.WF

theorem Rib.WF_empty : Rib.empty.WF := ⟨Store.WF_empty, Store.WF_empty⟩

theorem Rib.WF.store {r : Rib} (h : r.WF) (mc : Bool) : (r.store mc).WF := by
  cases mc
  · exact h.1
  · exact h.2

theorem Rib.store_setStore (r : Rib) (mc mc' : Bool) (s : Store) :
    (r.setStore mc s).store mc' = if mc' = mc then s else r.store mc' := by
  cases mc <;> cases mc' <;> simp [Rib.setStore, Rib.store]

theorem Rib.WF_setStore {r : Rib} (h : r.WF) (mc : Bool) (s : Store) (hs : s.WF) : (r.setStore mc s).WF := by
  cases mc
  · exact ⟨hs, h.2⟩
  · exact ⟨h.1, hs⟩

theorem Rib.get_insertPrefix (r : Rib) (h : r.WF) (p p' : Prefix) (mc mc' : Bool) (m m' : Mui)
    (st : Status) (a : AttrId) :
    (r.insertPrefix p mc m st a).get mc' p' m'
      = if mc' = mc ∧ p' = p ∧ m' = m then
          (match st with | .active => some (.active, a) | .withdrawn => (r.get mc p m).map setWithdrawn)
        else r.get mc' p' m' := by
  unfold Rib.get
  cases st
  · simp only [Rib.insertPrefix, Rib.store_setStore]
    by_cases hm : mc' = mc
    · subst hm
      simp only [if_true, Store.get_insert, true_and]
    · simp [hm]
  · simp only [Rib.insertPrefix, Rib.store_setStore]
    by_cases hm : mc' = mc
    · subst hm
      simp only [if_true, true_and]
      exact Store.get_markWithdrawnForPrefix _ (h.store _) _ _ _ _
    · simp [hm]

theorem Rib.wd_insertPrefix (r : Rib) (p : Prefix) (mc mc' : Bool) (m : Mui) (st : Status) (a : AttrId) (f : Fam) :
    ((r.insertPrefix p mc m st a).store mc').wd f = (r.store mc').wd f := by
  cases st <;> simp only [Rib.insertPrefix, Rib.store_setStore] <;> by_cases hm : mc' = mc <;> simp [hm]

theorem Rib.WF_insertPrefix (r : Rib) (h : r.WF) (p : Prefix) (mc : Bool) (m : Mui) (st : Status) (a : AttrId) :
    (r.insertPrefix p mc m st a).WF := by
  cases st
  · exact Rib.WF_setStore h _ _ (Store.WF_insert _ _ _ _ _ (h.store _))
  · exact Rib.WF_setStore h _ _ (Store.WF_markWithdrawnForPrefix _ _ _ (h.store _))

/-- Does the payload address key `(mc, p, m)`? -/
def Payload.hits (pl : Payload) (mc : Bool) (p : Prefix) (m : Mui) : Bool :=
  pl.ctx ≠ .reprocess && pl.route.mc = mc && pl.route.pfx = p && pl.mui = m

theorem Rib.get_insertPayload (r : Rib) (h : r.WF) (pl : Payload) (mc : Bool) (p : Prefix) (m : Mui) :
    (r.insertPayload pl).get mc p m
      = if pl.hits mc p m then
          (match pl.status with
            | .active => some (.active, pl.route.attrs)
            | .withdrawn => (r.get mc p m).map setWithdrawn)
        else r.get mc p m := by
  unfold Rib.insertPayload Payload.hits
  cases hc : pl.ctx
  case reprocess => simp
  all_goals
    simp only [Rib.get_insertPrefix r h, ne_eq, reduceCtorEq, not_false_eq_true, decide_true, Bool.true_and,
      Bool.and_eq_true, decide_eq_true_eq]
    by_cases hh : (pl.route.mc = mc ∧ pl.route.pfx = p) ∧ pl.mui = m
    · obtain ⟨⟨h1, h2⟩, h3⟩ := hh
      subst h1 h2 h3
      simp
    · have : ¬ (mc = pl.route.mc ∧ p = pl.route.pfx ∧ m = pl.mui) := by
        rintro ⟨h1, h2, h3⟩
        exact hh ⟨⟨h1.symm, h2.symm⟩, h3.symm⟩
      simp [hh, this]

theorem Rib.wd_insertPayload (r : Rib) (pl : Payload) (mc : Bool) (f : Fam) :
    ((r.insertPayload pl).store mc).wd f = (r.store mc).wd f := by
  unfold Rib.insertPayload
  cases pl.ctx <;> simp [Rib.wd_insertPrefix]

theorem Rib.WF_insertPayload (r : Rib) (h : r.WF) (pl : Payload) : (r.insertPayload pl).WF := by
  unfold Rib.insertPayload
  cases pl.ctx <;> first | exact h | exact Rib.WF_insertPrefix r h _ _ _ _ _

theorem Rib.WF_foldl_insertPayload (ps : List Payload) (r : Rib) (h : r.WF) :
    (ps.foldl Rib.insertPayload r).WF := by
  induction ps generalizing r with
  | nil => exact h
  | cons pl ps ih => exact ih _ (Rib.WF_insertPayload r h pl)

theorem Rib.wd_foldl_insertPayload (ps : List Payload) (r : Rib) (mc : Bool) (f : Fam) :
    ((ps.foldl Rib.insertPayload r).store mc).wd f = (r.store mc).wd f := by
  induction ps generalizing r with
  | nil => rfl
  | cons pl ps ih => rw [List.foldl_cons, ih, Rib.wd_insertPayload]

/-! #### Folding the two halves of one UPDATE -/

def Route.at (mc : Bool) (p : Prefix) (rt : Route) : Bool := rt.pfx = p && rt.mc = mc

theorem mkPayload_hits (ctx : Ctx) (m' : Mui) (st : Status) (rt : Route) (mc : Bool) (p : Prefix) (m : Mui) :
    (mkPayload ctx m' st rt).hits mc p m = (decide (ctx ≠ .reprocess) && rt.at mc p && decide (m' = m)) := by
  simp only [Payload.hits, mkPayload, Route.at]
  by_cases h1 : rt.mc = mc <;> by_cases h2 : rt.pfx = p <;> cases ctx <;> simp [h1, h2] <;> rfl

theorem Rib.get_foldl_active (rs : List Route) (a : AttrId) (ha : ∀ rt ∈ rs, rt.attrs = a)
    (ctx : Ctx) (m' : Mui) (r : Rib) (h : r.WF) (mc : Bool) (p : Prefix) (m : Mui) :
    ((rs.map (mkPayload ctx m' .active)).foldl Rib.insertPayload r).get mc p m
      = if ctx ≠ .reprocess ∧ m' = m ∧ rs.any (Route.at mc p) then some (.active, a) else r.get mc p m := by
  induction rs generalizing r with
  | nil => simp
  | cons rt rs ih =>
    have ha' : ∀ rt ∈ rs, rt.attrs = a := fun x hx => ha x (List.mem_cons_of_mem _ hx)
    have hrt : rt.attrs = a := ha rt List.mem_cons_self
    rw [List.map_cons, List.foldl_cons, ih ha' _ (Rib.WF_insertPayload r h _), Rib.get_insertPayload r h, mkPayload_hits]
    simp only [mkPayload, List.any_cons, hrt]
    by_cases c1 : ctx ≠ .reprocess <;> by_cases c2 : m' = m <;> by_cases c3 : rs.any (Route.at mc p) = true <;>
      by_cases c4 : rt.at mc p = true <;> simp [c1, c2, c3, c4]

theorem Rib.get_foldl_withdrawn (rs : List Route)
    (ctx : Ctx) (m' : Mui) (r : Rib) (h : r.WF) (mc : Bool) (p : Prefix) (m : Mui) :
    ((rs.map (mkPayload ctx m' .withdrawn)).foldl Rib.insertPayload r).get mc p m
      = if ctx ≠ .reprocess ∧ m' = m ∧ rs.any (Route.at mc p) then (r.get mc p m).map setWithdrawn else r.get mc p m := by
  induction rs generalizing r with
  | nil => simp
  | cons rt rs ih =>
    rw [List.map_cons, List.foldl_cons, ih _ (Rib.WF_insertPayload r h _), Rib.get_insertPayload r h, mkPayload_hits]
    simp only [mkPayload, List.any_cons]
    by_cases c1 : ctx ≠ .reprocess <;> by_cases c2 : m' = m <;> by_cases c3 : rs.any (Route.at mc p) = true <;>
      by_cases c4 : rt.at mc p = true <;> simp [c1, c2, c3, c4, map_setWithdrawn_idem]
    · -- the head payload hits a *different* key position only through c4 = true; here both hit
      subst c2
      have : rt.mc = mc ∧ rt.pfx = p := by
        simp only [Route.at, Bool.and_eq_true, decide_eq_true_eq] at c4
        exact ⟨c4.2, c4.1⟩
      obtain ⟨h1, h2⟩ := this
      subst h1 h2
      rfl

theorem explodeList_attrs (ns : List Nlri) (a : AttrId) : ∀ rt ∈ explodeList ns a, rt.attrs = a := by
  intro rt hrt
  simp only [explodeList, List.mem_filterMap] at hrt
  obtain ⟨n, _, hn⟩ := hrt
  unfold Nlri.route at hn
  cases hs : n.safi <;> simp [hs] at hn <;> simp [← hn]

theorem explodeList_cons (n : Nlri) (ns : List Nlri) (a : AttrId) :
    explodeList (n :: ns) a = (match n.route a with | some rt => [rt] | none => []) ++ explodeList ns a := by
  unfold explodeList
  rw [List.filterMap_cons]
  cases n.route a <;> rfl

theorem explodeList_any (ns : List Nlri) (a : AttrId) (mc : Bool) (p : Prefix) :
    (explodeList ns a).any (Route.at mc p) = decide (⟨p, safiOf mc⟩ ∈ ns) := by
  induction ns with
  | nil => simp [explodeList]
  | cons n ns ih =>
    rw [explodeList_cons, List.any_append, ih]
    obtain ⟨q, sf⟩ := n
    by_cases hq : q = p
    · subst hq
      cases sf <;> cases mc <;> simp [Nlri.route, Route.at, safiOf]
    · have hq' : ¬ p = q := fun h => hq h.symm
      cases sf <;> cases mc <;> simp [Nlri.route, Route.at, safiOf, hq, hq']

/-- Effect of one UPDATE of source `m'` on the stored record of key `(mc, p, m)`. -/
theorem Rib.get_ingest (v : Variant) (r : Rib) (h : r.WF) (m' : Mui) (u : Upd) (mc : Bool) (p : Prefix) (m : Mui) :
    (r.applyAll v (ingest v .fresh m' u)).get mc p m
      = if m' = m then specUpd v mc p (r.get mc p m) u else r.get mc p m := by
  cases u with
  | malformed => simp [ingest, explode, Rib.applyAll, specUpd]
  | ok a ann wd =>
    simp only [ingest, explode, Rib.applyAll, List.foldl_cons, List.foldl_nil, Rib.apply, List.foldl_append]
    rw [Rib.get_foldl_withdrawn _ _ _ _ (Rib.WF_foldl_insertPayload _ r h),
        Rib.get_foldl_active _ a (explodeList_attrs ann a) _ _ r h,
        explodeList_any, explodeList_any]
    simp only [specUpd, ne_eq, reduceCtorEq, not_false_eq_true, true_and, decide_eq_true_eq]
    by_cases hm : m' = m
    · simp only [hm, true_and, if_true]
      by_cases hv : v.overlapFix = true
      · simp only [hv, if_true, List.mem_filter, Bool.not_eq_true', List.contains_eq_mem, decide_eq_false_iff_not]
        by_cases hA : ⟨p, safiOf mc⟩ ∈ ann <;> by_cases hW : ⟨p, safiOf mc⟩ ∈ wd <;> simp [hA, hW]
      · simp only [hv, if_false, Bool.false_eq_true]
        by_cases hA : ⟨p, safiOf mc⟩ ∈ ann <;> by_cases hW : ⟨p, safiOf mc⟩ ∈ wd <;> simp [hA, hW, setWithdrawn]
    · simp [hm]

theorem Rib.wd_ingest (v : Variant) (r : Rib) (m' : Mui) (u : Upd) (mc : Bool) (f : Fam) :
    ((r.applyAll v (ingest v .fresh m' u)).store mc).wd f = (r.store mc).wd f := by
  cases u with
  | malformed => simp [ingest, explode, Rib.applyAll]
  | ok a ann wd =>
    simp only [ingest, explode, Rib.applyAll, List.foldl_cons, List.foldl_nil, Rib.apply]
    exact Rib.wd_foldl_insertPayload _ _ _ _

theorem Rib.WF_ingest (v : Variant) (r : Rib) (h : r.WF) (m' : Mui) (u : Upd) :
    (r.applyAll v (ingest v .fresh m' u)).WF := by
  cases u with
  | malformed => simpa [ingest, explode, Rib.applyAll] using h
  | ok a ann wd =>
    simp only [ingest, explode, Rib.applyAll, List.foldl_cons, List.foldl_nil, Rib.apply]
    exact Rib.WF_foldl_insertPayload _ r h

/-! #### Session-level withdrawal -/

theorem Store.get_withdrawFams (v : Variant) (s : Store) (m : Mui) (p : Prefix) (m' : Mui) :
    (s.withdrawFams v [.v4, .v6] m).get p m'
      = if v.perRecordWithdraw ∧ m' = m then (s.get p m').map setWithdrawn else s.get p m' := by
  unfold Store.withdrawFams
  by_cases hv : v.perRecordWithdraw = true
  · simp only [hv, if_true, Store.get_withdrawRecords, true_and]
    have : p.fam ∈ [Fam.v4, Fam.v6] := by cases p.fam <;> simp
    simp [this]
  · simp [hv]

theorem Store.mem_wd_withdrawFams (v : Variant) (s : Store) (m : Mui) (f : Fam) (x : Mui) :
    x ∈ (s.withdrawFams v [.v4, .v6] m).wd f ↔ (¬ v.perRecordWithdraw ∧ x = m) ∨ x ∈ s.wd f := by
  unfold Store.withdrawFams
  by_cases hv : v.perRecordWithdraw = true
  · simp [hv]
  · simp only [hv, if_false, List.foldl_cons, List.foldl_nil, Store.mem_wd_markMuiWithdrawn, Bool.false_eq_true,
      not_false_eq_true, true_and]
    cases f <;> simp <;> grind

theorem Store.WF_withdrawFams (v : Variant) (s : Store) (fams : List Fam) (m : Mui) (h : s.WF) :
    (s.withdrawFams v fams m).WF := by
  unfold Store.withdrawFams
  by_cases hv : v.perRecordWithdraw = true
  · simp only [hv, if_true]
    exact Store.WF_withdrawRecords _ _ _ h
  · simp only [hv, if_false]
    induction fams generalizing s with
    | nil => exact h
    | cons f fs ih => exact ih _ (Store.WF_markMuiWithdrawn _ _ _ h)

theorem Rib.store_withdrawForIngress_none (v : Variant) (r : Rib) (m : Mui) (mc : Bool) :
    (r.withdrawForIngress v m none).store mc = (r.store mc).withdrawFams v [.v4, .v6] m := by
  cases mc <;> rfl

theorem Rib.WF_withdrawForIngress (v : Variant) (r : Rib) (h : r.WF) (m : Mui) (af : Option AfiSafi) :
    (r.withdrawForIngress v m af).WF := by
  cases af with
  | none => exact ⟨Store.WF_withdrawFams _ _ _ _ h.1, Store.WF_withdrawFams _ _ _ _ h.2⟩
  | some a =>
    cases a
    · exact ⟨Store.WF_withdrawFams _ _ _ _ h.1, h.2⟩
    · exact ⟨Store.WF_withdrawFams _ _ _ _ h.1, h.2⟩
    · exact ⟨h.1, Store.WF_withdrawFams _ _ _ _ h.2⟩
    · exact ⟨h.1, Store.WF_withdrawFams _ _ _ _ h.2⟩
    · exact h

theorem specDown_idem (v : Variant) (s : Abs) : specDown v (specDown v s) = specDown v s := by
  unfold specDown
  by_cases hv : v.perRecordWithdraw = true
  · simp only [hv, if_true]
    cases s.e <;> rfl
  · simp [hv]

/-- `Update::Withdraw(m', None)` on the abstract state of key `(mc, p, m)`: nothing at all
    happens to a key of another source (C02's isolation, per key). -/
theorem Rib.abs_withdraw (v : Variant) (r : Rib) (m' : Mui) (mc : Bool) (p : Prefix) (m : Mui) :
    (r.withdrawForIngress v m' none).abs mc p m = if m' = m then specDown v (r.abs mc p m) else r.abs mc p m := by
  simp only [Rib.abs, Rib.store_withdrawForIngress_none, Store.get_withdrawFams, Store.mem_wd_withdrawFams, specDown]
  by_cases hm : m' = m
  · subst hm
    by_cases hv : v.perRecordWithdraw = true <;> simp [hv]
  · have : ¬ m = m' := fun h => hm h.symm
    simp [hm, this]

theorem Rib.abs_withdrawBulk (v : Variant) (ms : List Mui) (r : Rib) (mc : Bool) (p : Prefix) (m : Mui) :
    (ms.foldl (fun r m => r.withdrawForIngress v m none) r).abs mc p m
      = if m ∈ ms then specDown v (r.abs mc p m) else r.abs mc p m := by
  induction ms generalizing r with
  | nil => simp
  | cons m' ms ih =>
    rw [List.foldl_cons, ih, Rib.abs_withdraw]
    by_cases h1 : m' = m
    · by_cases h2 : m ∈ ms <;> simp [h1, h2, specDown_idem]
    · have h1' : ¬ m = m' := fun e => h1 e.symm
      by_cases h2 : m ∈ ms <;> simp [h1, h2, h1']

theorem Rib.WF_withdrawBulk (v : Variant) (ms : List Mui) (r : Rib) (h : r.WF) :
    (ms.foldl (fun r m => r.withdrawForIngress v m none) r).WF := by
  induction ms generalizing r with
  | nil => exact h
  | cons m' ms ih => exact ih _ (Rib.WF_withdrawForIngress v r h m' none)

/-! #### Histories -/

theorem Rib.abs_ingest (v : Variant) (r : Rib) (h : r.WF) (m' : Mui) (u : Upd) (mc : Bool) (p : Prefix) (m : Mui) :
    (r.applyAll v (ingest v .fresh m' u)).abs mc p m
      = if m' = m then { r.abs mc p m with e := specUpd v mc p (r.abs mc p m).e u } else r.abs mc p m := by
  have hg := Rib.get_ingest v r h m' u mc p m
  have hw := Rib.wd_ingest v r m' u mc p.fam
  simp only [Rib.get] at hg
  simp only [Rib.abs, hg, hw]
  by_cases hm : m' = m <;> simp [hm]

theorem Rib.abs_ev (v : Variant) (r : Rib) (h : r.WF) (e : Ev) (mc : Bool) (p : Prefix) (m : Mui) :
    (r.applyAll v (e.updates v)).abs mc p m = specEv v mc p m (r.abs mc p m) e := by
  cases e with
  | upd m' u => simpa [Ev.updates, specEv] using Rib.abs_ingest v r h m' u mc p m
  | down m' => simp [Ev.updates, specEv, Rib.applyAll, Rib.apply, Rib.abs_withdraw]
  | downBulk ms => simp [Ev.updates, specEv, Rib.applyAll, Rib.apply, Rib.abs_withdrawBulk]

theorem Rib.WF_ev (v : Variant) (r : Rib) (h : r.WF) (e : Ev) : (r.applyAll v (e.updates v)).WF := by
  cases e with
  | upd m' u => exact Rib.WF_ingest v r h m' u
  | down m' => simpa [Ev.updates, Rib.applyAll, Rib.apply] using Rib.WF_withdrawForIngress v r h m' none
  | downBulk ms => simpa [Ev.updates, Rib.applyAll, Rib.apply] using Rib.WF_withdrawBulk v ms r h

theorem WF_runFrom (v : Variant) (h : History) (r : Rib) (hr : r.WF) : (runFrom v r h).WF := by
  induction h generalizing r with
  | nil => exact hr
  | cons e h ih => exact ih _ (Rib.WF_ev v r hr e)

theorem WF_run (v : Variant) (h : History) : (run v h).WF := WF_runFrom v h _ Rib.WF_empty

/-- **Refinement**: the abstract state of every key after a history is the fold of the
    per-event specification, from any well-formed starting RIB. -/
theorem abs_runFrom (v : Variant) (h : History) (r : Rib) (hr : r.WF) (mc : Bool) (p : Prefix) (m : Mui) :
    (runFrom v r h).abs mc p m = h.foldl (specEv v mc p m) (r.abs mc p m) := by
  induction h generalizing r with
  | nil => rfl
  | cons e h ih =>
    simp only [runFrom, List.foldl_cons] at ih ⊢
    rw [ih _ (Rib.WF_ev v r hr e), Rib.abs_ev v r hr]

theorem abs_run (v : Variant) (h : History) (mc : Bool) (p : Prefix) (m : Mui) :
    (run v h).abs mc p m = specRun v mc p m h := by
  have h0 : Rib.empty.abs mc p m = ⟨none, false⟩ := by
    cases mc <;> cases hp : p.fam <;> simp [Rib.abs, Rib.empty, Rib.store, Store.get, Store.wd, lookup, hp]
  rw [run, abs_runFrom v h Rib.empty Rib.WF_empty, h0]
  rfl

/-! ### Queries -/

theorem Store.mem_records (s : Store) (h : s.WF) (p : Prefix) (m : Mui) (st : Status) (a : AttrId) :
    (⟨m, st, a⟩ : Rec) ∈ s.records p ↔ s.get p m = some (st, a) := by
  simp only [Store.records, List.mem_map, List.mem_filter, decide_eq_true_eq, Store.get]
  constructor
  · rintro ⟨⟨⟨q, m'⟩, ⟨st', a'⟩⟩, ⟨hmem, hq⟩, heq⟩
    simp only [toRec, Rec.mk.injEq] at heq hq
    obtain ⟨h1, h2, h3⟩ := heq
    subst hq h1 h2 h3
    exact lookup_eq_some_of_mem _ _ _ h.1 hmem
  · intro hl
    exact ⟨((p, m), (st, a)), ⟨mem_of_lookup_eq_some _ _ _ hl, rfl⟩, rfl⟩

theorem nodup_mui_filter (p : Prefix) (l : List (Key × Val)) (hn : (l.map Prod.fst).Nodup) :
    (((l.filter (fun e => e.1.1 = p)).map toRec).map Rec.mui).Nodup := by
  induction l with
  | nil => simp
  | cons e l ih =>
    simp only [List.map_cons, List.nodup_cons] at hn
    by_cases hp : e.1.1 = p
    · simp only [List.filter_cons, hp, decide_true, if_true, List.map_cons, List.nodup_cons]
      refine ⟨?_, ih hn.2⟩
      intro hmem
      simp only [List.mem_map, List.mem_filter, decide_eq_true_eq] at hmem
      obtain ⟨r, ⟨e', ⟨he', hp'⟩, hr⟩, hmu⟩ := hmem
      apply hn.1
      have : e'.1 = e.1 := by
        subst hr
        simp only [toRec] at hmu
        exact Prod.ext (hp'.trans hp.symm) hmu
      rw [← this]
      exact List.mem_map_of_mem (f := Prod.fst) he'
    · simp only [List.filter_cons, hp, decide_false, Bool.false_eq_true, if_false]
      exact ih hn.2

theorem rewrite_mui (wd : List Mui) (r : Rec) : (rewrite wd r).mui = r.mui := by
  unfold rewrite
  by_cases h : r.mui ∈ wd <;> simp [h]

/-- **Exactly one entry per source**, for every well-formed store, prefix and query option. -/
theorem Store.nodup_matchExact (s : Store) (h : s.WF) (p : Prefix) (o : MatchOpts) :
    ((s.matchExact p o).map Rec.mui).Nodup := by
  have base : ((s.records p).map Rec.mui).Nodup := nodup_mui_filter p s.recs h.1
  unfold Store.matchExact
  by_cases hi : o.includeWithdrawn = true
  · simp only [hi, if_true, List.map_map]
    have : (Rec.mui ∘ rewrite (s.wd p.fam)) = Rec.mui := by
      funext r
      exact rewrite_mui _ r
    rw [this]
    exact base
  · simp only [hi, Bool.false_eq_true, if_false]
    cases o.mui with
    | none => exact List.Nodup.sublist (List.Sublist.map _ List.filter_sublist) base
    | some m => exact List.Nodup.sublist (List.Sublist.map _ List.filter_sublist) base

theorem Store.mem_matchExact (s : Store) (h : s.WF) (p : Prefix) (m : Mui) (st : Status) (a : AttrId) :
    (⟨m, st, a⟩ : Rec) ∈ s.matchExact p {} ↔ s.entry p m = some (st, a) := by
  simp only [Store.matchExact, if_true, List.mem_map, Store.entry]
  constructor
  · rintro ⟨⟨m', st', a'⟩, hmem, heq⟩
    have hm : m' = m := by
      have := congrArg Rec.mui heq
      rw [rewrite_mui] at this
      exact this
    subst hm
    rw [Store.mem_records s h] at hmem
    rw [hmem]
    unfold rewrite at heq
    by_cases hw : m' ∈ s.wd p.fam
    · simp only [hw, if_true, Rec.mk.injEq, true_and] at heq
      simp [hw, setWithdrawn, heq.1.symm, heq.2.symm]
    · simp only [hw, if_false, Rec.mk.injEq, true_and] at heq
      simp [hw, heq.1.symm, heq.2.symm]
  · intro he
    cases hg : s.get p m with
    | none => simp [hg] at he
    | some v =>
      obtain ⟨st0, a0⟩ := v
      simp only [hg, Option.some.injEq] at he
      refine ⟨⟨m, st0, a0⟩, (Store.mem_records s h p m st0 a0).mpr hg, ?_⟩
      unfold rewrite
      by_cases hw : m ∈ s.wd p.fam
      · simp only [hw, if_true, setWithdrawn, Prod.mk.injEq] at he ⊢
        simp [he.1.symm, he.2.symm]
      · simp only [hw, if_false, Prod.mk.injEq] at he ⊢
        simp [he.1.symm, he.2.symm]

theorem Store.matchExact_isEmpty (s : Store) (h : s.WF) (p : Prefix) :
    (s.matchExact p {}).isEmpty = true ↔ ∀ m, s.get p m = none := by
  constructor
  · intro he m
    cases hg : s.get p m with
    | none => rfl
    | some v =>
      exfalso
      have hent : s.entry p m = some (if m ∈ s.wd p.fam then setWithdrawn v else v) := by simp [Store.entry, hg]
      have := (Store.mem_matchExact s h p m _ _).mpr hent
      rw [List.isEmpty_iff.mp he] at this
      cases this
  · intro hall
    rw [List.isEmpty_iff]
    cases hl : s.matchExact p {} with
    | nil => rfl
    | cons r rs =>
      exfalso
      obtain ⟨m, st, a⟩ := r
      have hm : (⟨m, st, a⟩ : Rec) ∈ s.matchExact p {} := by rw [hl]; exact List.mem_cons_self
      have := (Store.mem_matchExact s h p m st a).mp hm
      simp [Store.entry, hall m] at this

theorem Rib.entry_eq_abs (r : Rib) (mc : Bool) (p : Prefix) (m : Mui) :
    r.entry mc p m = (r.abs mc p m).entry := by
  simp only [Rib.entry, Store.entry, Rib.abs, Abs.entry]
  cases (r.store mc).get p m with
  | none => rfl
  | some v => by_cases hw : m ∈ (r.store mc).wd p.fam <;> simp [hw]

/-- `Rib::match_prefix`: exactly one entry per source, always. -/
theorem Rib.nodup_query (r : Rib) (h : r.WF) (p : Prefix) (o : MatchOpts) :
    ((r.query p o).map Rec.mui).Nodup := by
  unfold Rib.query
  by_cases he : (r.unicast.matchExact p o).isEmpty = true
  · simp only [he, if_true]
    exact Store.nodup_matchExact _ h.2 p o
  · simp only [he, Bool.false_eq_true, if_false]
    exact Store.nodup_matchExact _ h.1 p o

/-- A query answer, when one of the two tables holds nothing for the prefix, is the other table's view. -/
theorem Rib.mem_query_of_empty (r : Rib) (h : r.WF) (p : Prefix) (mc : Bool)
    (hother : ∀ m, r.get (!mc) p m = none) (m : Mui) (st : Status) (a : AttrId) :
    (⟨m, st, a⟩ : Rec) ∈ r.query p {} ↔ r.entry mc p m = some (st, a) := by
  unfold Rib.query
  cases mc with
  | false =>
    -- the multicast table is empty for p
    have hm : (r.multicast.matchExact p {}).isEmpty = true := (Store.matchExact_isEmpty _ h.2 p).mpr hother
    by_cases he : (r.unicast.matchExact p {}).isEmpty = true
    · simp only [he, if_true]
      rw [List.isEmpty_iff.mp hm]
      have hall := (Store.matchExact_isEmpty _ h.1 p).mp he m
      simp [Rib.entry, Rib.store, Store.entry, hall]
    · simp only [he, Bool.false_eq_true, if_false]
      exact Store.mem_matchExact _ h.1 p m st a
  | true =>
    have hu : (r.unicast.matchExact p {}).isEmpty = true := (Store.matchExact_isEmpty _ h.1 p).mpr hother
    simp only [hu, if_true]
    exact Store.mem_matchExact _ h.2 p m st a

/-! ### From the per-table refinement to C01's SAFI-blind specification -/

theorem names_iff (ns : List Nlri) (p : Prefix) :
    names ns p = true ↔ (⟨p, .unicast⟩ : Nlri) ∈ ns ∨ (⟨p, .multicast⟩ : Nlri) ∈ ns := by
  simp only [names, List.any_eq_true, Bool.and_eq_true, decide_eq_true_eq, ne_eq]
  constructor
  · rintro ⟨⟨q, sf⟩, hmem, hq, hs⟩
    simp only at hq hs
    subst hq
    cases sf
    · exact Or.inl hmem
    · exact Or.inr hmem
    · exact absurd rfl hs
  · rintro (h | h)
    · exact ⟨_, h, rfl, by simp⟩
    · exact ⟨_, h, rfl, by simp⟩

theorem safiOf_not (mc : Bool) : safiOf (!mc) ≠ safiOf mc := by cases mc <;> simp [safiOf]

theorem names_of_single (ns : List Nlri) (p : Prefix) (mc : Bool) (h : (⟨p, safiOf (!mc)⟩ : Nlri) ∉ ns) :
    names ns p = decide ((⟨p, safiOf mc⟩ : Nlri) ∈ ns) := by
  have := names_iff ns p
  cases mc <;> simp only [safiOf, Bool.not_false, Bool.not_true, if_true, if_false, Bool.false_eq_true] at h ⊢ <;>
    by_cases hm : names ns p = true <;> simp_all

/-- A table that is never addressed for `p` holds no record of `p`. -/
theorem specRun_untouched (v : Variant) (mc : Bool) (p : Prefix) (m : Mui) (h : History)
    (hno : h.any (Ev.mentions mc p) = false) (s : Abs) (hs : s.e = none) :
    (h.foldl (specEv v mc p m) s).e = none := by
  induction h generalizing s with
  | nil => exact hs
  | cons e h ih =>
    simp only [List.any_cons, Bool.or_eq_false_iff] at hno
    apply ih hno.2
    cases e with
    | upd m' u =>
      simp only [specEv]
      by_cases hm : m' = m
      · simp only [hm, if_true]
        cases u with
        | malformed => simpa [specUpd] using hs
        | ok a ann wd =>
          have h1 := hno.1
          simp only [Ev.mentions, Bool.or_eq_false_iff, List.contains_eq_mem, decide_eq_false_iff_not] at h1
          simp [specUpd, h1.1, h1.2, hs]
      · simpa [hm] using hs
    | down m' =>
      simp only [specEv, specDown]
      by_cases hm : m' = m <;> by_cases hv : v.perRecordWithdraw = true <;> simp [hm, hv, hs]
    | downBulk ms =>
      simp only [specEv, specDown]
      by_cases hm : m ∈ ms <;> by_cases hv : v.perRecordWithdraw = true <;> simp [hm, hv, hs]

theorem specRun_down_false (v : Variant) (mc : Bool) (p : Prefix) (m : Mui) (h : History)
    (hu : h.all Ev.isUpd = true) (s : Abs) (hs : s.down = false) :
    (h.foldl (specEv v mc p m) s).down = false := by
  induction h generalizing s with
  | nil => exact hs
  | cons e h ih =>
    simp only [List.all_cons, Bool.and_eq_true] at hu
    apply ih hu.2
    cases e with
    | upd m' u => simp only [specEv]; by_cases hm : m' = m <;> simp [hm, hs]
    | down m' => simp [Ev.isUpd] at hu
    | downBulk ms => simp [Ev.isUpd] at hu

/-- On the table that `p` is used with, and with no announce+withdraw overlap inside an UPDATE (or
    with the overlap repair), the per-table fold is C01's specification `last`. -/
theorem specRun_eq_last (v : Variant) (mc : Bool) (p : Prefix) (m : Mui) (h : History)
    (hu : h.all Ev.isUpd = true) (hov : v.overlapFix = true ∨ h.all Ev.noOverlap = true)
    (hno : h.any (Ev.mentions (!mc) p) = false) (s : Abs) :
    (h.foldl (specEv v mc p m) s).e = h.foldl (lastStep p m) s.e := by
  induction h generalizing s with
  | nil => rfl
  | cons e h ih =>
    simp only [List.all_cons, Bool.and_eq_true] at hu
    simp only [List.any_cons, Bool.or_eq_false_iff] at hno
    have hov' : v.overlapFix = true ∨ h.all Ev.noOverlap = true := by
      rcases hov with h1 | h1
      · exact Or.inl h1
      · simp only [List.all_cons, Bool.and_eq_true] at h1; exact Or.inr h1.2
    rw [List.foldl_cons, List.foldl_cons, ih hu.2 hov' hno.2]
    congr 1
    cases e with
    | down m' => simp [Ev.isUpd] at hu
    | downBulk ms => simp [Ev.isUpd] at hu
    | upd m' u =>
      cases u with
      | malformed => simp only [specEv, lastStep]; by_cases hm : m' = m <;> simp [hm, specUpd]
      | ok a ann wd =>
        have h1 := hno.1
        simp only [Ev.mentions, Bool.or_eq_false_iff, List.contains_eq_mem, decide_eq_false_iff_not] at h1
        simp only [specEv, lastStep]
        by_cases hm : m' = m
        · simp only [hm, if_true, specUpd, names_of_single ann p mc h1.1, names_of_single wd p mc h1.2,
            decide_eq_true_eq]
          by_cases hA : (⟨p, safiOf mc⟩ : Nlri) ∈ ann <;> by_cases hW : (⟨p, safiOf mc⟩ : Nlri) ∈ wd <;>
            by_cases hv : v.overlapFix = true <;> simp [hA, hW, hv]
          -- the only remaining case: as written, announced and withdrawn in one UPDATE
          exfalso
          rcases hov with h2 | h2
          · exact hv h2
          · simp only [List.all_cons, Bool.and_eq_true, Ev.noOverlap, Upd.noOverlap, List.all_eq_true,
              Bool.not_eq_true', List.contains_eq_mem, decide_eq_false_iff_not] at h2
            exact h2.1 _ hA hW
        · simp [hm]

/-! ### Session-level events (C02 / C03) -/

theorem specEv_untouched (v : Variant) (mc : Bool) (p : Prefix) (m : Mui) (s : Abs) (e : Ev)
    (h : e.touches mc p m = false) : specEv v mc p m s e = s := by
  cases e with
  | upd m' u =>
    cases u with
    | malformed => simp only [specEv, specUpd]; by_cases hm : m' = m <;> simp [hm]
    | ok a ann wd =>
      simp only [specEv]
      by_cases hm : m' = m
      · simp only [Ev.touches, Ev.downs, hm, decide_true, Bool.true_and, Bool.false_or, Bool.or_eq_false_iff,
          List.contains_eq_mem, decide_eq_false_iff_not] at h
        simp [hm, specUpd, h.1, h.2]
      · simp [hm]
  | down m' =>
    simp only [Ev.touches, Ev.downs, Bool.or_false, decide_eq_false_iff_not] at h
    simp [specEv, h]
  | downBulk ms =>
    simp only [Ev.touches, Ev.downs, Bool.or_false, List.contains_eq_mem, decide_eq_false_iff_not] at h
    simp [specEv, h]

theorem foldl_untouched (v : Variant) (mc : Bool) (p : Prefix) (m : Mui) (h : History)
    (hu : h.all (fun e => !(e.touches mc p m)) = true) (s : Abs) :
    h.foldl (specEv v mc p m) s = s := by
  induction h generalizing s with
  | nil => rfl
  | cons e h ih =>
    simp only [List.all_cons, Bool.and_eq_true, Bool.not_eq_true'] at hu
    rw [List.foldl_cons, specEv_untouched v mc p m s e hu.1, ih hu.2]

/-- As written, the global marker of a source is set by its first session-level withdrawal and
    never cleared: after any history it is set iff such an event occurred. -/
theorem down_asWritten (mc : Bool) (p : Prefix) (m : Mui) (h : History) (s : Abs) :
    (h.foldl (specEv asWritten mc p m) s).down = (s.down || h.any (Ev.downs m)) := by
  induction h generalizing s with
  | nil => simp
  | cons e h ih =>
    rw [List.foldl_cons, ih, List.any_cons]
    cases e with
    | upd m' u => simp only [specEv, Ev.downs]; by_cases hm : m' = m <;> simp [hm]
    | down m' =>
      simp only [specEv, specDown, asWritten, Ev.downs]
      by_cases hm : m' = m <;> simp [hm]
    | downBulk ms =>
      simp only [specEv, specDown, asWritten, Ev.downs, List.contains_eq_mem]
      by_cases hm : m ∈ ms <;> simp [hm]

/-- With per-record withdrawal the global marker is never set. -/
theorem down_perRecord (v : Variant) (hv : v.perRecordWithdraw = true) (mc : Bool) (p : Prefix) (m : Mui)
    (h : History) (s : Abs) : (h.foldl (specEv v mc p m) s).down = s.down := by
  induction h generalizing s with
  | nil => rfl
  | cons e h ih =>
    rw [List.foldl_cons, ih]
    cases e with
    | upd m' u => simp only [specEv]; by_cases hm : m' = m <;> simp [hm]
    | down m' => simp only [specEv, specDown, hv]; by_cases hm : m' = m <;> simp [hm]
    | downBulk ms => simp only [specEv, specDown, hv]; by_cases hm : m ∈ ms <;> simp [hm]

/-- Already-withdrawn (or absent) reports are fixpoints. -/
def Abs.settled (s : Abs) : Prop := s.entry.map setWithdrawn = s.entry

theorem entry_specDown (v : Variant) (s : Abs) : (specDown v s).entry = s.entry.map setWithdrawn := by
  unfold specDown Abs.entry
  by_cases hv : v.perRecordWithdraw = true
  · simp only [hv, if_true]
    cases s.e with
    | none => rfl
    | some x => cases s.down <;> rfl
  · simp only [hv, Bool.false_eq_true, if_false, if_true]
    cases s.e with
    | none => rfl
    | some x => cases s.down <;> rfl

/-- An event that does not announce the key leaves a settled report unchanged. -/
theorem entry_specEv_settled (v : Variant) (mc : Bool) (p : Prefix) (m : Mui) (s : Abs) (e : Ev)
    (hs : s.settled) (hna : e.announces mc p m = false) : (specEv v mc p m s e).entry = s.entry := by
  cases e with
  | down m' =>
    simp only [specEv]
    by_cases hm : m' = m
    · simp only [hm, if_true, entry_specDown]; exact hs
    · simp [hm]
  | downBulk ms =>
    simp only [specEv]
    by_cases hm : m ∈ ms
    · simp only [hm, if_true, entry_specDown]; exact hs
    · simp [hm]
  | upd m' u =>
    simp only [specEv]
    by_cases hm : m' = m
    · simp only [hm, if_true]
      cases u with
      | malformed => rfl
      | ok a ann wd =>
        simp only [Ev.announces, hm, decide_true, Bool.true_and, List.contains_eq_mem, decide_eq_false_iff_not] at hna
        unfold Abs.settled Abs.entry at hs
        unfold Abs.entry
        simp only [specUpd, hna, decide_false, Bool.false_eq_true, if_false]
        by_cases hW : (⟨p, safiOf mc⟩ : Nlri) ∈ wd
        · cases hv : v.overlapFix <;> simp only [hW, decide_true, if_true, Bool.false_eq_true, if_false] <;>
            (cases he : s.e with
             | none => rfl
             | some x =>
               cases hd : s.down
               · simp only [he, hd, Option.map_some, Bool.false_eq_true, if_false, Option.some.injEq] at hs ⊢
                 exact hs
               · simp [setWithdrawn])
        · cases hv : v.overlapFix <;> simp [hW]
    · simp [hm]

theorem settled_of_entry_eq {s t : Abs} (hs : s.settled) (h : t.entry = s.entry) : t.settled := by
  unfold Abs.settled at *
  rw [h]; exact hs

theorem foldl_settled (v : Variant) (mc : Bool) (p : Prefix) (m : Mui) (h : History)
    (hna : h.all (fun e => !(e.announces mc p m)) = true) (s : Abs) (hs : s.settled) :
    (h.foldl (specEv v mc p m) s).entry = s.entry := by
  induction h generalizing s with
  | nil => rfl
  | cons e h ih =>
    simp only [List.all_cons, Bool.and_eq_true, Bool.not_eq_true'] at hna
    have h1 := entry_specEv_settled v mc p m s e hs hna.1
    rw [List.foldl_cons, ih hna.2 _ (settled_of_entry_eq hs h1), h1]

theorem entry_run_append (v : Variant) (h1 h2 : History) (mc : Bool) (p : Prefix) (m : Mui) :
    (run v (h1 ++ h2)).abs mc p m = h2.foldl (specEv v mc p m) ((run v h1).abs mc p m) := by
  rw [abs_run, abs_run, specRun, specRun, List.foldl_append]

end Rotonda.Rib
