import RotondaModel.Model.Http
import RotondaModel.Model.EscapePages
import RotondaModel.Generated.HttpPages
/-
HttpPages: the HTTP endpoints that C12's and C19's models leave out, with routers CONNECTED.

* `RouterInfoApi::process_request` (`bmp_tcp_in/http/router_info/request.rs`): which request paths a
  connected router's processor claims (percent-decoded path, `starts_with(api path)`, `split_at`,
  `split_once("/prefixes/")` before `split_once("/flags/")`, match by ingress id / router id / sysName /
  remote address), and the page it builds (`response.rs`) for any number of peer rows with the flags
  block and the prefixes block — assembled from the templates extracted into `Generated/Escape.lean`.
* `RouterListApi::process_request` + `sort_routers` + `build_response` with any number of routers:
  `sort_by` / `sort_order`, the order of the rows, the `&s[0..=60]` slices of the escaped sysName /
  sysDescr (a panic when byte 61 is not a character boundary — variant `listSlice`).
* `Manager::mk_svg_http_processor`: `/status/graph[/traces/<n>]`, the trace id (`strip_prefix` +
  `u8::from_str`), the traces table — from the templates extracted into `Generated/HttpPages.lean`;
  `extract_msg_indices` (the text written into a component's box of the SVG).
* the registry of a running manager: the routers' processors (sub-resources, newest first), tracer,
  graph, router list, RIB (routing and status from `Model/Http.lean`, here with a content type).

Bytes are `Http.Bytes` (`List Nat`); page text is `List Char` as in `Model/Escape.lean` (ASCII bytes are
themselves, every other byte is rendered `?`: only the structural ASCII characters matter).
-/
namespace Rotonda.HttpPages
open Rotonda.Http (Bytes startsWith stripPrefix parseUInt isCharBoundary Param getParam Matched)
open Rotonda.Escape (Template render envOf skeleton encodeSafe)
open Rotonda.Escape.Generated
open Rotonda.HttpPages.Generated

def toChars (b : Bytes) : List Char := b.map fun n => if n < 128 then Char.ofNat n else '?'

def natBytes (n : Nat) : Bytes := (Nat.toDigits 10 n).map Char.toNat

/-- `str::split_once(needle)`: around the first occurrence. -/
def splitOnce : Bytes → Bytes → Option (Bytes × Bytes)
  | [], needle => if needle.isEmpty then some ([], []) else none
  | a :: s, needle =>
    if startsWith (a :: s) needle then some ([], (a :: s).drop needle.length)
    else match splitOnce s needle with
      | some (l, r) => some (a :: l, r)
      | none => none

/-- `/prefixes/` -/
def sPrefixesSeg : Bytes := [47, 112, 114, 101, 102, 105, 120, 101, 115, 47]
/-- `/flags/` -/
def sFlagsSeg : Bytes := [47, 102, 108, 97, 103, 115, 47]

/-! ### The world: what is connected -/

structure Tlvs where
  sysName : Bytes
  sysDesc : Bytes
  extra : List Bytes
  deriving DecidableEq, Repr

structure Peer where
  /-- `format!("{}", pph)` -/
  key : Bytes
  /-- number of entries `get_announced_prefixes(pph)` yields -/
  announced : Nat
  deriving DecidableEq, Repr

structure Router where
  id : Nat
  /-- Display of the ingress' `remote_addr` (empty when there is none) -/
  addr : Bytes
  /-- `sm.router_id()` -/
  routerId : Bytes
  /-- `Some` in the Dumping / Updating phases -/
  tlvs : Option Tlvs
  /-- the peer table in its iteration order (a `HashMap`: supplied by the engine as observed) -/
  peers : List Peer
  /-- the nine numeric sort keys (`state` … `hard_parse_errors`) -/
  sortVals : List Nat
  deriving DecidableEq, Repr

structure World where
  /-- `http_api_path` of the bmp-tcp-in unit -/
  api : Bytes
  /-- connected routers in connection order (= order of `router_info` and `router_states`) -/
  routers : List Router
  /-- base path of the RIB unit's `PrefixesApi` and its `more_specifics` limits -/
  ribBase : Bytes
  v4min : Nat
  v6min : Nat
  /-- registered non-sub resources of component type `rib` -/
  ribs : Nat
  /-- messages of the traces the engine supplies, by trace id -/
  traces : List (Nat × List Bytes)
  deriving Repr

/-! ### Pages (structured; `Page.render` is the text) -/

/-- what follows a peer row -/
inductive Block where
  | none
  | flags
  | prefixes (n : Nat)
  deriving DecidableEq, Repr

structure InfoView where
  base : List Char
  sysName : List Char
  sysDesc : List Char
  extra : List (List Char)
  /-- `none`: no peer table (`peer_states` is `None`) -/
  peers : Option (List Block)
  ribs : Nat
  deriving DecidableEq, Repr

inductive Page where
  | info (v : InfoView)
  | list (rows : List (Option (List Char × List Char)))
  /-- `/status/graph…`: `none` = no trace selected, `some msgs` = the traces table -/
  | graph (msgs : Option (List (List Char)))
  | json
  | text
  deriving DecidableEq, Repr

def prefixLine (ribs : Nat) : List Char :=
  render routerInfo_build_response_body_25 (envOf [])
  ++ (List.replicate ribs (render routerInfo_build_response_body_26 (envOf []))).flatten
  ++ ['\n']

/-- the `Focus::Prefixes` block (`response.rs:239-254`) -/
def prefixesBlock (base : List Char) (n ribs : Nat) : List Char :=
  render routerInfo_build_response_body_23 (envOf [])
  ++ render routerInfo_build_response_body_24 (envOf [("base_http_path", base)])
  ++ (List.replicate n (prefixLine ribs)).flatten
  ++ render routerInfo_build_response_body_27 (envOf [])

def blockText (base : List Char) (ribs : Nat) : Block → List Char
  | .none => []
  | .flags => Escape.flagsBlock base
  | .prefixes n => prefixesBlock base n ribs

def peerRowText (base : List Char) (ribs : Nat) (b : Block) : List Char :=
  render routerInfo_build_response_body_9 (envOf [("&base_http_path", base)]) ++ blockText base ribs b

def peerReport (v : InfoView) : List Char :=
  match v.peers with
  | none => []
  | some rows =>
    render routerInfo_build_response_body_5 (envOf []) ++ render routerInfo_build_response_body_6 (envOf [])
    ++ rows.flatMap (peerRowText v.base v.ribs)
    ++ render routerInfo_build_response_body_28 (envOf [])

def infoPage (v : InfoView) : List Char :=
  render routerInfo_build_response_header_0 (envOf [])
  ++ render routerInfo_build_response_body_29 (envOf
      [("sys_name", v.sysName), ("sys_desc", v.sysDesc), ("sys_extra", Escape.joinBar v.extra),
       ("error_report", []), ("peer_report", peerReport v)])
  ++ render routerInfo_build_response_footer_0 (envOf [])
  ++ render routerInfo_build_response_footer_1 (envOf [])
  ++ render routerInfo_build_response_footer_2 (envOf [])

def traceRow (m : List Char) : List Char := render graphTracesRow (envOf [(traceMsgExpr, m)])

def tracesTable (msgs : List (List Char)) : List Char :=
  render graphTracesHead (envOf []) ++ msgs.flatMap traceRow ++ render graphTracesEnd (envOf [])

/-- the page of `/status/graph…` with the SVG left out (`svg` is rendered as nothing) -/
def graphPageText (msgs : Option (List (List Char))) : List Char :=
  render graphPage (envOf [("traces", match msgs with | none => [] | some ms => tracesTable ms)])

def Page.render : Page → List Char
  | .info v => infoPage v
  | .list rows => Escape.listPage rows
  | .graph msgs => graphPageText msgs
  | .json => []
  | .text => []

/-- `Content-Type` -/
def Page.ctype : Page → String
  | .info _ => "text/html"
  | .list _ => "text/html"
  | .graph _ => "text/html"
  | .json => "application/json"
  | .text => "text/plain"

/-! ### Responses -/

structure Resp where
  status : Nat
  page : Page
  /-- ingress ids of the routers shown, in page order -/
  ids : List Nat
  deriving DecidableEq, Repr

inductive Site where
  | listSlice     -- router_list/response.rs: `&sys_name[0..=MAX_INFO_TLV_LEN]` inside a character
  | dep           -- a panic of `Model/Http.lean`'s RIB processor (dependency parser)
  deriving DecidableEq, Repr

inductive PR where
  | none
  | resp (r : Resp)
  | panic (s : Site)
  deriving DecidableEq, Repr

inductive Out where
  | resp (r : Resp)
  | panic (s : Site)
  deriving DecidableEq, Repr

/-- Defect site: `true` = code as written. -/
structure Variant where
  listSlice : Bool
  deriving DecidableEq, Repr

def asWritten : Variant := ⟨true⟩
def repaired : Variant := ⟨false⟩

/-! ### `RouterInfoApi` -/

inductive Focus where
  | none
  | flags (k : Bytes)
  | prefixes (k : Bytes)
  deriving DecidableEq, Repr

/-- the `split_once` cascade of `process_request` -/
def splitFocus (router : Bytes) : Bytes × Focus :=
  match splitOnce router sPrefixesSeg with
  | some (r, p) => (r, .prefixes p)
  | none =>
    match splitOnce router sFlagsSeg with
    | some (r, p) => (r, .flags p)
    | none => (router, .none)

def Router.sysName (r : Router) : Bytes :=
  match r.tlvs with
  | some t => t.sysName
  | none => []

/-- `router == ingress_id.to_string() || router == router_id || router == sys_name || router == addr` -/
def Router.answersTo (r : Router) (tok : Bytes) : Bool :=
  tok == natBytes r.id || tok == r.routerId || tok == r.sysName || tok == r.addr

def blockOf (f : Focus) (p : Peer) : Block :=
  match f with
  | .none => .none
  | .flags k => if p.key = k then .flags else .none
  | .prefixes k => if p.key = k then .prefixes p.announced else .none

def viewOf (w : World) (r : Router) (tok : Bytes) (f : Focus) : InfoView :=
  match r.tlvs with
  | some t =>
    { base := toChars (w.api ++ tok), sysName := toChars t.sysName, sysDesc := toChars t.sysDesc,
      extra := t.extra.map toChars, peers := some (r.peers.map (blockOf f)), ribs := w.ribs }
  | none =>
    { base := toChars (w.api ++ tok), sysName := [], sysDesc := [], extra := [], peers := none, ribs := w.ribs }

/-- one connected router's processor -/
def infoProc (w : World) (r : Router) (dec : Bytes) : PR :=
  if startsWith dec w.api then
    let router := dec.drop w.api.length
    if router.isEmpty then .none
    else
      let rf := splitFocus router
      if r.answersTo rf.1 then .resp ⟨200, .info (viewOf w r rf.1 rf.2), [r.id]⟩
      else .none
  else .none

/-! ### `RouterListApi` -/

def bytesLe : Bytes → Bytes → Bool
  | [], _ => true
  | _ :: _, [] => false
  | a :: s, b :: t => if a < b then true else if b < a then false else bytesLe s t

/-- stable insertion (what `sort_unstable_by` does on the short vectors of this page) -/
def insertBy {α : Type} (le : α → α → Bool) (x : α) : List α → List α
  | [] => [x]
  | y :: ys => if le y x then y :: insertBy le x ys else x :: y :: ys

def isort {α : Type} (le : α → α → Bool) (l : List α) : List α := l.foldl (fun acc x => insertBy le x acc) []

def sSysName : Bytes := [115, 121, 115, 95, 110, 97, 109, 101]
def sSysDesc : Bytes := [115, 121, 115, 95, 100, 101, 115, 99]
def sAddr : Bytes := [97, 100, 100, 114]

/-- position of a numeric sort key among `state … hard_parse_errors` -/
def numericIdx (v : Bytes) : Option Nat :=
  match (Http.sortByValues.drop 3).idxOf? v with
  | some i => some i
  | none => none

def Router.textKey (r : Router) (desc : Bool) : Bytes :=
  match r.tlvs with
  | some t => if desc then t.sysDesc else t.sysName
  | none => [45]

def Router.numKey (r : Router) (i : Nat) : Nat :=
  match r.tlvs with
  | some _ => r.sortVals.getD i 0
  | none => 0

/-- `sort_routers`, the `sort_by` part: `none` = `Err` (400) -/
def sortKeys (w : World) (ps : List Param) : Option (List Router) :=
  match (getParam Http.sSortBy ps).map Matched.value with
  | none => some w.routers
  | some v =>
    if v = sAddr then some w.routers
    else if v = sSysName then some (isort (fun a b => bytesLe (a.textKey false) (b.textKey false)) w.routers)
    else if v = sSysDesc then some (isort (fun a b => bytesLe (a.textKey true) (b.textKey true)) w.routers)
    else match numericIdx v with
      | some i => some (isort (fun a b => a.numKey i ≤ b.numKey i) w.routers)
      | none => none

/-- `sort_routers`, the `sort_order` part -/
def applyOrder (ps : List Param) (ks : List Router) : Option (List Router) :=
  match (getParam Http.sSortOrder ps).map Matched.value with
  | none => some ks
  | some o =>
    if o = Http.sAsc then some ks
    else if o = Http.sDesc then some ks.reverse
    else none

/-- `sort_routers`: `none` = `Err` (400) -/
def sortRouters (w : World) (ps : List Param) : Option (List Router) :=
  (sortKeys w ps).bind (applyOrder ps)

/-- `html_escape::encode_safe` on bytes (for lengths and character boundaries) -/
def encB (s : Bytes) : Bytes := s.flatMap fun b =>
  if b = 38 then [38, 97, 109, 112, 59]
  else if b = 60 then [38, 108, 116, 59]
  else if b = 62 then [38, 103, 116, 59]
  else if b = 34 then [38, 113, 117, 111, 116, 59]
  else if b = 39 then [38, 35, 120, 50, 55, 59]
  else if b = 47 then [38, 35, 120, 50, 70, 59]
  else [b]

/-- `&s[0..=60]` of an escaped text longer than 60 bytes panics unless byte 61 starts a character -/
def sliceOk (s : Bytes) : Bool :=
  let e := encB s
  !(e.length > 60) || isCharBoundary e 61

def Router.sliceOk (r : Router) : Bool :=
  match r.tlvs with
  | some t => HttpPages.sliceOk t.sysName && HttpPages.sliceOk t.sysDesc
  | none => true

def listRowOf (r : Router) : Option (List Char × List Char) :=
  match r.tlvs with
  | some t => some (toChars t.sysName, toChars t.sysDesc)
  | none => none

def listProc (v : Variant) (w : World) (dec : Bytes) (ps : List Param) : PR :=
  if dec = w.api then
    match sortRouters w ps with
    | none => .resp ⟨400, .text, []⟩
    | some ks =>
      if v.listSlice && !(ks.all Router.sliceOk) then .panic .listSlice
      else .resp ⟨200, .list (ks.map listRowOf), ks.map (·.id)⟩
  else .none

/-! ### `/status/graph[/traces/<n>]`, `/status/traces` -/

def traceIdOf (dec : Bytes) : Option Nat :=
  (stripPrefix (dec.drop Http.sGraph.length) Http.sTracesSeg).bind (parseUInt 255)

def lookupTrace (n : Nat) : List (Nat × List Bytes) → Option (List Bytes)
  | [] => none
  | e :: l => if e.1 = n then some e.2 else lookupTrace n l

inductive GraphR where
  | none
  | page (msgs : Option (List (List Char)))
  /-- the engine did not supply the trace the model selects -/
  | missing (n : Nat)

def graphProc (w : World) (dec : Bytes) : PR :=
  if startsWith dec Http.sGraph then
    match traceIdOf dec with
    | none => .resp ⟨200, .graph none, []⟩
    | some n => .resp ⟨200, .graph (some (((lookupTrace n w.traces).getD []).map toChars)), [n]⟩
  else .none

def tracerProc (dec : Bytes) : PR := if dec = Http.sTracer then .resp ⟨200, .text, []⟩ else .none

/-! ### RIB (status from `Model/Http.lean`, repaired variant: this tree has the C12 fixes) -/

def ribProc (d : Http.Deps) (w : World) (raw dec : Bytes) (ps : List Param) : PR :=
  match Http.ribProc Http.repaired d w.ribBase w.v4min w.v6min raw dec ps with
  | .none => .none
  | .resp r =>
    -- the ingress-id query (raw path of exactly three segments) and `format=dump` answer in `text/plain`
    .resp ⟨r.status, if r.status = 200 && !(Http.countByte 47 raw + 1 = 3) && (getParam Http.sFormat ps).isNone
                     then .json else .text, []⟩
  | .panic _ => .panic .dep

/-! ### The registry of the running manager and `Server::handle_request` -/

def firstInfo (w : World) (dec : Bytes) : List Router → PR
  | [] => .none
  | r :: rest =>
    match infoProc w r dec with
    | .none => firstInfo w dec rest
    | x => x

def orElse (a : PR) (b : Unit → PR) : PR :=
  match a with
  | .none => b ()
  | x => x

/-- `Resources::process_request`: the routers' processors (sub-resources, newest first), the manager's
    tracer and graph processors, then the units' own resources in start-up order. -/
def process (v : Variant) (d : Http.Deps) (w : World) (raw dec : Bytes) (ps : List Param) : PR :=
  orElse (firstInfo w dec w.routers.reverse) fun _ =>
  orElse (tracerProc dec) fun _ =>
  orElse (graphProc w dec) fun _ =>
  orElse (listProc v w dec ps) fun _ =>
  ribProc d w raw dec ps

/-- `extract_params` -/
def queryParams (req : Http.Req) : List Param :=
  match req.query with
  | some q => Http.parseQuery q
  | none => []

def respond (v : Variant) (d : Http.Deps) (w : World) (req : Http.Req) : Out :=
  match req.method with
  | .other => .resp ⟨405, .text, []⟩
  | .get =>
    let dec := Http.decodedPath req.path
    if dec = Http.sMetrics || dec = Http.sStatus then .resp ⟨200, .text, []⟩
    else
      match process v d w req.path dec (queryParams req) with
      | .none => .resp ⟨404, .text, []⟩
      | .resp r => .resp r
      | .panic s => .panic s

/-! ### `extract_msg_indices` (manager.rs): the index list written into a component's box -/

/-- the fold's state: text so far, first and last of the open run -/
structure Run where
  out : List String
  first : Option Nat
  last : Option Nat
  deriving Repr

def runStep (s : Run) (idx : Nat) : Run :=
  match s.first, s.last with
  | none, _ => { s with first := some idx }
  | some f, none =>
    if idx = f + 1 then { s with last := some idx }
    else if idx > f + 1 then { out := s.out ++ [toString f], first := some idx, last := none }
    else s      -- `unreachable!()`: indices are strictly increasing
  | some f, some l =>
    if idx = l + 1 then { s with last := some idx }
    else if idx > l + 1 then { out := s.out ++ [s!"{f}-{l}"], first := some idx, last := none }
    else s

def extractMsgIndices (idxs : List Nat) : String :=
  let s := idxs.foldl runStep ⟨[], none, none⟩
  let parts := match s.first, s.last with
    | none, _ => s.out
    | some f, none => s.out ++ [toString f]
    | some f, some l => s.out ++ [s!"{f}-{l}"]
  "[" ++ ", ".intercalate parts ++ "]"

end Rotonda.HttpPages
