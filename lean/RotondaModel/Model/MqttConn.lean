import RotondaModel.Model.OutStream
/-!
# mqtt-out: run loop, connection handling, reconfiguration, termination (MqttConn, extends C17)

Hand transliteration of
* `src/targets/mqtt/target.rs:162-273` — `do_run` (a new `Connection` per round) and
  `process_events`: a *biased* `select!` over (1) `connection.process()`, (2) the command
  channel, (3) the publish queue `pub_q`;
* `target.rs:275-320` — `reconfigure`: which changes force a reconnect, which value the
  running connection's retry delay gets, the wholesale store of the new configuration;
* `target.rs:323-393` — `publish_msg` / `do_publish`: `timeout(publish_max_secs, client.publish(..))`,
  a failed or timed-out publish is counted and dropped, **a publish with no client is `Ok(())`**;
* `target.rs:466-485` — `direct_update`: topic from the template held *at that moment*, push on `pub_q`;
* `src/targets/mqtt/connection.rs:93-205` — `Connection::process` (`New`: spawn the event-loop
  task and wait for the client hand-over; `Running`: wait for the task), `disconnect`, `client`;
* `connection.rs:209-292` — `mqtt_event_loop`: hand the client over *before* anything is
  connected, then poll for ever; `ConnAck(Success)` = connected, any other `ConnAck` or an `Err`
  = count an error and sleep `retry_delay` (read at that moment) before the next poll.

Granularity. The target is observed at *quiescent points*: after each script step the run loop
and the event-loop task have run until neither can move (that is what the engine's
current-thread runtime with paused, auto-advancing time does). A script step is a burst of
target inputs (messages through `direct_update`, `Reconfigure`, `Terminate`), a broker event,
a change of how the broker answers `publish`, or one second passing. Because the `select!` is
biased, at each quiescent point the run loop first handles **all** queued commands, then the
queued messages in FIFO order; a slow `publish` blocks the run loop (commands included) until it
returns or `publish_max_secs` pass.

The `New` window. A fresh `Connection` is in state `New`; `process()` spawns the event-loop task
and waits for the hand-over, which cannot complete within the same poll. Whatever is in the
command channel or in `pub_q` at that moment is therefore taken *before* a client exists:
commands are handled normally, **messages are "published" to no client and counted as
published** (`void`). `voidFix` models the repair (the `pub_q` branch is enabled only while
`connection.client()` is `Some`).

Time. Seconds. Two timers exist: the run loop's publish timeout and the event-loop task's
back-off. When both expire within the same second the one that was armed at the earlier instant
*within its second* fires first; `phase` records that instant as the number of the script step in
which the chain of timers started (a timer armed by a firing timer inherits its phase).

Not modelled: tokio's cooperative budget (a run-loop poll takes at most 128 queue items; bursts
are shorter), `connect_retry_secs = 0` (tokio's `interval(0)` panics the event-loop task),
`publish_max_secs = 0`, `ReportLinks`, upstream links (`do_run` is entered with `sources = None`
as in the repository's tests), what rumqttc does below the `Client`/`EventLoop` seam.
-/
namespace Rotonda.MqttConn

open Rotonda.OutStream (Str digits fillTemplate)

/-- The settings of `mqtt::config::Config`, as small numbers (the driver maps them to text). -/
structure Cfg where
  cid : Nat
  dest : Nat
  qs : Nat
  tmpl : Nat
  retry : Nat
  pmax : Nat
  qos : Nat
  user : Nat
  deriving DecidableEq, Repr, Inhabited

inductive Cmd where
  | reconf (k : Nat)
  | term
  deriving DecidableEq, Repr

inductive Inp where
  | msg (topic : Nat)
  | cmd (c : Cmd)
  deriving DecidableEq, Repr

inductive Ev where
  | accept | refuse | drop | other
  deriving DecidableEq, Repr

inductive Mode where
  | accept | fail | slow (d : Nat)
  deriving DecidableEq, Repr

inductive Step where
  | burst (is : List Inp)
  | ev (e : Ev)
  | mode (m : Mode)
  | tick
  deriving DecidableEq, Repr

/-- Defect sites: `true` = repaired. -/
structure Variants where
  voidFix : Bool
  retryFix : Bool
  credFix : Bool
  deriving DecidableEq, Repr

def asWritten : Variants := ⟨false, false, false⟩
def repaired : Variants := ⟨true, true, true⟩

/-- A message on `pub_q`: its number and the topic `direct_update` gave it. -/
structure QMsg where
  id : Nat
  topic : Nat
  tmpl : Nat
  deriving DecidableEq, Repr

inductive PubOut where
  | ok | err | pending
  deriving DecidableEq, Repr

/-- What happens at the seam (and, for `void`, what does not). -/
inductive Obs where
  /-- `client.publish` on connection `conn` -/
  | publish (conn : Nat) (m : QMsg) (qos : Nat) (out : PubOut)
  /-- a pending publish returned `Ok` -/
  | done (id : Nat)
  /-- a pending publish was cancelled by the timeout -/
  | cancel (id : Nat)
  /-- `client.disconnect` -/
  | disconnect (conn : Nat)
  /-- a message taken from `pub_q` while there is no client: nothing is called, `publish_ok` is counted -/
  | void (id : Nat)
  /-- the event-loop task of a connection built from `cfg` starts polling -/
  | opened (conn : Nat) (cfg : Cfg)
  | enter (conn : Nat)
  | polled (conn : Nat) (e : Ev)
  deriving DecidableEq, Repr

/-- The event-loop task (`mqtt_event_loop`). -/
structure EvLoop where
  conn : Nat
  connCount : Nat
  /-- sleeping until `(second, phase)` -/
  backoff : Option (Nat × Nat)
  /-- broker events not yet returned by `poll` -/
  evq : List Ev
  deriving DecidableEq, Repr

inductive ConnSt where
  | fresh
  | running (conn : Nat)
  deriving DecidableEq, Repr

structure Blocked where
  m : QMsg
  conn : Nat
  until_ : Nat
  phase : Nat
  ok : Bool
  deriving DecidableEq, Repr

structure St where
  cfgs : List Cfg
  /-- `self.config` -/
  cur : Cfg
  /-- the configuration the current `Connection` was built from -/
  connCfg : Cfg
  /-- the current connection's `retry_delay` -/
  retry : Nat
  conn : ConnSt
  ev : Option EvLoop
  nextConn : Nat
  cmds : List Cmd
  q : List QMsg
  blocked : Option Blocked
  mode : Mode
  clock : Nat
  stepNo : Nat
  nextId : Nat
  term : Bool
  up : Bool
  okCnt : Nat
  peCnt : Nat
  ceCnt : Nat
  clCnt : Nat
  /-- everything observed so far, oldest first -/
  log : List Obs
  /-- ghost: the numbers of the messages accepted on `pub_q`, in order -/
  enq : List Nat
  deriving DecidableEq, Repr

def init (cfgs : List Cfg) : St :=
  let c := cfgs.headD default
  { cfgs, cur := c, connCfg := c, retry := c.retry, conn := .fresh, ev := none, nextConn := 0,
    cmds := [], q := [], blocked := none, mode := .accept, clock := 0, stepNo := 0, nextId := 0,
    term := false, up := false, okCnt := 0, peCnt := 0, ceCnt := 0, clCnt := 0, log := [], enq := [] }

/-! ## the run loop -/

/-- `reconfigure`'s reconnect test (`target.rs:299-301`); `credFix` adds the credentials. -/
def needsReconnect (v : Variants) (old new : Cfg) : Bool :=
  new.cid != old.cid || new.dest != old.dest || new.qs != old.qs || (v.credFix && new.user != old.user)

/-- `Connection::disconnect`: only a `Running` connection has a client to tell and a task to abort. -/
def disconnect (st : St) : St :=
  match st.conn with
  | .running c => { st with log := st.log ++ [.disconnect c], up := false, ev := none }
  | .fresh => st

/-- One command, taken by the biased `select!` (in `New` as well as in `Running`). -/
def handleCmd (v : Variants) (st : St) : Cmd → St
  | .term => { disconnect st with term := true }
  | .reconf k =>
    let new := st.cfgs.getD k st.cur
    if needsReconnect v st.cur new then
      -- `connection.disconnect()`, leave `process_events`, `F::connect(&self.config.load(), ..)`
      { disconnect st with cur := new, connCfg := new, retry := new.retry, conn := .fresh }
    else
      -- `connection.set_retry_delay(config.connect_retry_secs)` with `config` loaded *before* the store
      { st with cur := new, retry := if v.retryFix then new.retry else st.cur.retry }

def handleCmds (v : Variants) (st : St) : List Cmd → St
  | [] => st
  | c :: cs => if st.term then st else handleCmds v (handleCmd v st c) cs

/-- `publish_msg` with `connection.client() = None`: `do_publish` returns `Ok(())`. -/
def voidAll (st : St) : St :=
  { st with log := st.log ++ st.q.map (fun m => .void m.id), okCnt := st.okCnt + st.q.length, q := [] }

/-- The hand-over completes: `Running(client, task)`, the task enters `poll`. -/
def openConn (st : St) : St :=
  let c := st.nextConn
  { st with conn := .running c, nextConn := c + 1,
            ev := some { conn := c, connCount := 0, backoff := none, evq := [] },
            log := st.log ++ [.opened c st.connCfg, .enter c] }

/-- Messages in `Running`, FIFO, until one blocks. `qos` and `publish_max_secs` are read per message. -/
def publishQ (phase : Nat) (c : Nat) (st : St) : List QMsg → St
  | [] => { st with q := [] }
  | m :: ms =>
    match st.mode with
    | .accept =>
      publishQ phase c { st with log := st.log ++ [.publish c m st.cur.qos .ok], okCnt := st.okCnt + 1 } ms
    | .fail =>
      publishQ phase c { st with log := st.log ++ [.publish c m st.cur.qos .err], peCnt := st.peCnt + 1 } ms
    | .slow d =>
      { st with log := st.log ++ [.publish c m st.cur.qos .pending], q := ms,
                blocked := some { m, conn := c, until_ := st.clock + min d st.cur.pmax, phase,
                                  ok := decide (d ≤ st.cur.pmax) } }

/-- The run loop runs until it cannot move (it is not blocked in a publish when this is called). -/
def drain (v : Variants) (phase : Nat) (st : St) : St :=
  let st := handleCmds v { st with cmds := [] } st.cmds
  if st.term then st else
  let st := match st.conn with
    | .fresh => openConn (if v.voidFix then st else voidAll st)
    | .running _ => st
  match st.conn with
  | .running c => publishQ phase c st st.q
  | .fresh => st

def settle (v : Variants) (st : St) : St :=
  if st.term || st.blocked.isSome then st else drain v st.stepNo st

/-! ## the event-loop task -/

/-- `poll` returns the queued events one by one until one starts a back-off. -/
def pump (phase : Nat) (st : St) (e : EvLoop) : List Ev → St
  | [] => { st with ev := some { e with evq := [] } }
  | x :: rest =>
    let st : St := { st with log := st.log ++ [Obs.polled e.conn x] }
    match x with
    | .accept =>
      pump phase { st with up := true, log := st.log ++ [Obs.enter e.conn] } { e with connCount := e.connCount + 1 } rest
    | .other => pump phase { st with log := st.log ++ [Obs.enter e.conn] } e rest
    | _ =>
      -- `connection_error`, then `reconnecting` if it had been connected before; `reconnecting` counts a lost
      -- connection only if the established flag was still set (`swap(false)`, /repo 5c958b4: a failed attempt to
      -- re-connect during an outage is not another loss; before that commit every such error counted)
      { st with ceCnt := st.ceCnt + 1,
                up := if e.connCount > 0 then false else st.up,
                clCnt := if e.connCount > 0 && st.up then st.clCnt + 1 else st.clCnt,
                ev := some { e with backoff := some (st.clock + st.retry, phase), evq := rest } }

def brokerEvent (st : St) (x : Ev) : St :=
  match st.ev with
  | none => st
  | some e =>
    match e.backoff with
    | some _ => { st with ev := some { e with evq := e.evq ++ [x] } }
    | none => pump st.stepNo st e (e.evq ++ [x])

/-! ## time -/

def fireT (v : Variants) (st : St) (b : Blocked) : St :=
  let st := if b.ok
    then { st with blocked := none, log := st.log ++ [.done b.m.id], okCnt := st.okCnt + 1 }
    else { st with blocked := none, log := st.log ++ [.cancel b.m.id], peCnt := st.peCnt + 1 }
  drain v b.phase st

def fireE (st : St) : St :=
  match st.ev with
  | some e =>
    match e.backoff with
    | some (d, ph) =>
      if d = st.clock then
        pump ph { st with log := st.log ++ [.enter e.conn] } { e with backoff := none } e.evq
      else st
    | none => st
  | none => st

def tDue (st : St) : Option Blocked :=
  match st.blocked with
  | some b => if b.until_ = st.clock then some b else none
  | none => none

def ePhase (st : St) : Option Nat :=
  match st.ev with
  | some e => match e.backoff with
    | some (d, ph) => if d = st.clock then some ph else none
    | none => none
  | none => none

def tick (v : Variants) (st : St) : St :=
  let st := { st with clock := st.clock + 1 }
  match tDue st, ePhase st with
  | some b, some ph => if ph < b.phase then fireT v (fireE st) b else fireE (fireT v st b)
  | some b, none => fireT v st b
  | none, _ => fireE st

/-! ## script steps -/

def enqueue (st : St) : Inp → St
  | .msg t =>
    if st.term then { st with nextId := st.nextId + 1 } else
    { st with q := st.q ++ [{ id := st.nextId, topic := t, tmpl := st.cur.tmpl }],
              enq := st.enq ++ [st.nextId], nextId := st.nextId + 1 }
  | .cmd c => if st.term then st else { st with cmds := st.cmds ++ [c] }

/-- After `Terminate` the run loop has returned and the event-loop task is aborted: nothing moves;
messages still handed to `direct_update` fail on the closed queue (they keep their numbers). -/
def act (v : Variants) (st : St) (s : Step) : St :=
  if st.term then
    match s with
    | .burst is => is.foldl enqueue st
    | _ => st
  else
    match s with
    | .burst is => is.foldl enqueue st
    | .ev x => brokerEvent st x
    | .mode m => { st with mode := m }
    | .tick => tick v st

def step (v : Variants) (st : St) (s : Step) : St :=
  let st := settle v (act v st s)
  { st with stepNo := st.stepNo + 1 }

def run (v : Variants) (cfgs : List Cfg) (steps : List Step) : St :=
  steps.foldl (step v) (init cfgs)

/-! ## the ledger -/

/-- Numbers of the messages taken from `pub_q` (handed to a client, or to nobody), in order. -/
def consumed : List Obs → List Nat
  | [] => []
  | .publish _ m _ _ :: l => m.id :: consumed l
  | .void id :: l => id :: consumed l
  | _ :: l => consumed l

/-- Numbers of the messages handed to a client, in order. -/
def attempted : List Obs → List Nat
  | [] => []
  | .publish _ m _ _ :: l => m.id :: attempted l
  | _ :: l => attempted l

/-- Numbers of the messages a client accepted (`publish` returned `Ok` in time), in order of hand-over. -/
def voided : List Obs → List Nat
  | [] => []
  | .void id :: l => id :: voided l
  | _ :: l => voided l

/-- `publish` calls that did not return `Ok`: client error, or cancelled by the timeout. -/
def failed : List Obs → List Nat
  | [] => []
  | .publish _ m _ .err :: l => m.id :: failed l
  | .cancel id :: l => id :: failed l
  | _ :: l => failed l

/-- Messages a client accepted: `Ok` at once, or a pending publish that completed. -/
def accepted : List Obs → List Nat
  | [] => []
  | .publish _ m _ .ok :: l => m.id :: accepted l
  | .done id :: l => id :: accepted l
  | _ :: l => accepted l

/-- Publishes that did not return at once, in order. -/
def pendingIds : List Obs → List Nat
  | [] => []
  | .publish _ m _ .pending :: l => m.id :: pendingIds l
  | _ :: l => pendingIds l

/-- Pending publishes that returned or were cancelled, in order. -/
def completedIds : List Obs → List Nat
  | [] => []
  | .done id :: l => id :: completedIds l
  | .cancel id :: l => id :: completedIds l
  | _ :: l => completedIds l

/-- A step during which the broker accepts every publish and nobody terminates the target. -/
def healthy : Step → Bool
  | .mode .accept => true
  | .mode _ => false
  | .burst is => is.all (fun i => i != .cmd .term)
  | _ => true

/-- No `publish` on a connection after its `disconnect`: `none` if violated, else the disconnected ones. -/
def discCheck (acc : Option (List Nat)) (o : Obs) : Option (List Nat) :=
  match acc, o with
  | none, _ => none
  | some ds, .disconnect c => some (c :: ds)
  | some ds, .publish c _ _ _ => if c ∈ ds then none else some ds
  | some ds, _ => some ds

/-! ## text (shared with the engine's observation format) -/

def templates : List String := ["rotonda/{id}", "a/{id}/b", "fixed"]

def topicStr (m : QMsg) : String :=
  String.ofList (fillTemplate ('t' :: digits m.topic) (templates.getD m.tmpl "").toList)

end Rotonda.MqttConn
