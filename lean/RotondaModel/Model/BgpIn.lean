import RotondaModel.Model.Rib
/-!
# BgpIn — the bgp-tcp-in unit (`src/units/bgp_tcp_in/{unit,router_handler,peer_config}.rs`) ∘ RIB

What is transliterated, and from where
--------------------------------------
* `Key`, `Key.lt`, `get` = `PeerConfigs(BTreeMap<PrefixOrExact, PeerConfig>)::get` (`peer_config.rs:92`):
  iterate the map in key order and take the first key that contains the address. The key order is the
  derived `Ord` of `PrefixOrExact` (`Exact(IpAddr)` before `Prefix(Prefix)`, exact keys by address) over
  inetnum 0.1.1's `Ord for Prefix` (equal length: by bits; else if the shorter one covers the longer one:
  more specific first; else by bits). "First in key order that matches" = the minimum of the matching
  entries (`pick`). IPv4 only (the family split of both orders is not modelled).
* `Asns.accepts` = `PeerConfig::accept_remote_asn` (`One(n)`, `Many([])` = any, `Many(l)`).
* `World.conn` = the accept loop (`unit.rs:305-351`): no matching config ⇒ the stream is dropped and **no id
  is taken**; a match ⇒ `ingresses.register()` (a fresh id per accepted TCP connection, no lookup) and a
  task running `handle_connection`; then the peer's OPEN: the FSM answers NOTIFICATION(bad peer AS) and
  `tick` returns `Err` (⇒ `break`, nothing negotiated, nothing to clean up) or sends `SessionNegotiated`, on
  which `Processor::process` (`router_handler.rs:448-488`) rejects the connection if `(remote addr, remote
  AS)` is already in `live_sessions` (`rejected = true; break`: **no removal, no withdraw**) or inserts it.
* `upd` = `Message::UpdateMessage` ⇒ `process_update` ⇒ one `Update::Bulk` under the session's id (C01's `ingest`).
* `fin`/`rst`/`garbage 1` = `ConnectionLost` / `tick` `Err` ⇒ `break` ⇒ the epilogue (`router_handler.rs:506-544`):
  `if !rejected && negotiated { live_sessions.remove(key); Update::Withdraw(id, None) }`. Never an end-of-stream.
* `hold` (the FSM's hold timer expires: `Session::disconnect` drops the connection and `tick` returns `Ok`,
  **no message is sent to the processor**): the processor keeps looping with a session that no longer
  reads: phase `zombie`. `terminate` (`Err(Terminated)` ⇒ `Command::Disconnect(Shutdown)`, the `break` is
  commented out; the unit's gate is gone, so `gate.process()` answers `Err(Terminated)` at once, again and
  again): phase `flooding`, which ends (with the epilogue) only when the peer closes or resets the
  connection and a NOTIFICATION write fails (`ConnectionLost(None)` from the writer task).
  Site `fsmdrop`: `asWritten` / `repaired` (the loop ends once the session has no connection).
* `garbage 0` = a header whose length field is below 19: routecore 0.5.1 `Connection::parse_frame`
  (`session.rs:1917`) computes `len - 18` ⇒ the task panics and unwinds (phase `dead`: no epilogue). Site `frame`.
* The routecore FSM and parser are parameters: the events above are what they report; the assumptions
  are listed in `notes/BgpIn.md`.
`hist` is the history in C01's vocabulary that the gate output denotes; `rib` is `Rib.apply` of every update.
Import-free apart from `Model/Rib.lean`, so that the driver links. Theorems: `Props/BgpIn.lean`.
-/
namespace Rotonda.BgpIn

open Rotonda

inductive Site where
  | asWritten | repaired
  deriving DecidableEq, Repr

structure Variant where
  fsmdrop : Site := .asWritten
  frame : Site := .asWritten
  rib : Rib.Variant := {}
  deriving DecidableEq, Repr

def asWritten : Variant := {}
def repaired : Variant := { fsmdrop := .repaired, frame := .repaired }

/-! ### `PeerConfigs` -/

abbrev Addr := Nat

inductive Key where
  | exact (a : Addr)
  | pfx (len bits : Nat)
  deriving DecidableEq, Repr

def Key.contains : Key → Addr → Bool
  | .exact a, x => a == x
  | .pfx l b, x => x >>> (32 - l) == b

/-- The address form of a prefix (`Prefix.bits`). -/
def pfxAddr (l b : Nat) : Nat := b <<< (32 - l)

/-- `Ord for PrefixOrExact` (derived) over `Ord for Prefix` (inetnum), strict. -/
def Key.lt : Key → Key → Bool
  | .exact a, .exact b => a < b
  | .exact _, .pfx .. => true
  | .pfx .., .exact _ => false
  | .pfx l1 b1, .pfx l2 b2 =>
    let a1 := pfxAddr l1 b1
    let a2 := pfxAddr l2 b2
    if l1 = l2 then a1 < a2
    else
      let m := min l1 l2
      if a1 >>> (32 - m) == a2 >>> (32 - m) then l2 < l1 else a1 < a2

inductive Asns where
  | one (n : Nat)
  | many (l : List Nat)
  deriving DecidableEq, Repr

def Asns.accepts : Asns → Nat → Bool
  | .one n, x => n == x
  | .many [], _ => true
  | .many l, x => l.contains x

structure Entry where
  key : Key
  asns : Asns
  hold : Nat := 0
  deriving DecidableEq, Repr

def pick (best : Option Entry) (e : Entry) : Option Entry :=
  match best with
  | none => some e
  | some b => if e.key.lt b.key then some e else some b

/-- `PeerConfigs::get`. -/
def get (cfg : List Entry) (a : Addr) : Option Entry :=
  (cfg.filter (·.key.contains a)).foldl pick none

/-! ### Sessions -/

inductive Phase where
  | running   -- the processor loops over a session that reads from its connection
  | zombie    -- the FSM dropped the connection, the processor still loops (nothing can reach it any more)
  | flooding  -- after unit termination: the FSM dropped the connection and the processor spins on its closed
              -- gate, sending `Disconnect` (one NOTIFICATION each) until a write to the peer fails
  | dead      -- the task unwound (panic): no epilogue
  | done      -- `process` returned
  deriving DecidableEq, Repr

structure Sess where
  id : Nat            -- `connector_ingress_id` (0: none taken)
  addr : Addr
  neg : Option Nat    -- `session.negotiated()`: the remote AS
  rejected : Bool
  ph : Phase
  copen : Bool        -- the peer still holds its end of the TCP connection
  deriving DecidableEq, Repr

structure World where
  cfg : List Entry
  next : Nat := 1                       -- `Register.serial`
  live : List (Addr × Nat) := []        -- `live_sessions` keys
  sess : List Sess := []                -- one slot per TCP connection attempt, in order
  term : Bool := false
  rib : Rib.Rib := {}
  hist : Rib.History := []
  deriving DecidableEq, Repr

/-- What the peer / the gate observes for one operation. -/
inductive Out where
  | refused | nocfg | badas | rejected | neg | nc
  | sent (id n : Nat)       -- an UPDATE that left the gate as a Bulk of `n` payloads under `id`
  | lostupd                 -- an UPDATE written to a connection nobody reads
  | notified
  | ended (id : Nat)        -- the session ended with `Withdraw(id)`
  | endedQuiet              -- the session ended, nothing was negotiated
  | noend
  | expired (w : Option Nat)
  | term (ws : List Nat)
  deriving DecidableEq, Repr

inductive Op where
  | conn (a : Addr) (asn : Nat)
  | upd (k : Nat) (u : Rib.Upd)
  | notif (k : Nat)
  | fin (k : Nat)
  | rst (k : Nat)
  | garbage (k : Nat) (kind : Nat)
  | hold (k : Nat)
  | terminate
  deriving DecidableEq, Repr

def emit (v : Variant) (w : World) (e : Rib.Ev) : World :=
  { w with rib := w.rib.applyAll v.rib (e.updates v.rib), hist := w.hist ++ [e] }

def setSess (w : World) (k : Nat) (s : Sess) : World := { w with sess := w.sess.set k s }

/-- The epilogue of `Processor::process` for slot `k`. -/
def finish (v : Variant) (w : World) (k : Nat) (s : Sess) : World × Option Nat :=
  match s.neg, s.rejected with
  | some asn, false =>
    let w1 := emit v { w with live := w.live.erase (s.addr, asn) } (.down s.id)
    (setSess w1 k { s with ph := .done, copen := false }, some s.id)
  | _, _ => (setSess w k { s with ph := .done, copen := false }, none)

def endOut : Option Nat → Out
  | some id => .ended id
  | none => .endedQuiet

def payloadCount : Rib.Upd → Nat
  | .malformed => 0
  | .ok _ ann wd => (Rib.explodeList ann 0).length + (Rib.explodeList wd 0).length

/-- `Terminated` reaches every processor: as written each becomes a zombie. -/
def terminateAll (v : Variant) : Nat → List Sess → World → List Nat → World × List Nat
  | _, [], w, acc => (w, acc)
  | k, s :: rest, w, acc =>
    if s.ph = .running then
      match v.fsmdrop with
      | .asWritten => terminateAll v (k + 1) rest (setSess w k { s with ph := .flooding }) acc
      | .repaired =>
        let r := finish v w k { s with copen := s.copen }
        terminateAll v (k + 1) rest (setSess r.1 k { s with ph := .done }) (acc ++ r.2.toList)
    else terminateAll v (k + 1) rest w acc

def step (v : Variant) (w : World) : Op → World × Out
  | .conn a asn =>
    let slot (s : Sess) : World := { w with sess := w.sess ++ [s] }
    if w.term then (slot ⟨0, a, none, false, .done, false⟩, .refused)
    else match get w.cfg a with
      | none => (slot ⟨0, a, none, false, .done, false⟩, .nocfg)
      | some e =>
        let id := w.next
        let w1 := { w with next := w.next + 1 }
        if !e.asns.accepts asn then ({ w1 with sess := w.sess ++ [⟨id, a, none, false, .done, false⟩] }, .badas)
        else if w.live.contains (a, asn) then
          ({ w1 with sess := w.sess ++ [⟨id, a, some asn, true, .done, false⟩] }, .rejected)
        else ({ w1 with live := (a, asn) :: w.live, sess := w.sess ++ [⟨id, a, some asn, false, .running, true⟩] }, .neg)
  | .upd k u =>
    match w.sess[k]? with
    | none => (w, .nc)
    | some s =>
      if !s.copen then (w, .nc)
      else if s.ph = .running then (emit v w (.upd s.id u), .sent s.id (payloadCount u))
      else (w, .lostupd)
  | .notif k =>
    match w.sess[k]? with
    | none => (w, .nc)
    | some s => if s.copen then (w, .notified) else (w, .nc)
  | .fin k | .rst k =>
    match w.sess[k]? with
    | none => (w, .nc)
    | some s =>
      if !s.copen then (w, .nc)
      else if s.ph = .running ∨ s.ph = .flooding then let r := finish v w k s; (r.1, endOut r.2)
      else (setSess w k { s with copen := false }, .noend)
  | .garbage k kind =>
    match w.sess[k]? with
    | none => (w, .nc)
    | some s =>
      if !s.copen then (w, .nc)
      else if s.ph = .running then
        if kind = 0 ∧ v.frame = .asWritten then (setSess w k { s with ph := .dead, copen := false }, .noend)
        else let r := finish v w k s; (r.1, endOut r.2)
      else if s.ph = .flooding then let r := finish v w k s; (r.1, endOut r.2)
      else (setSess w k { s with copen := false }, .noend)
  | .hold k =>
    match w.sess[k]? with
    | none => (w, .nc)
    | some s =>
      if !s.copen then (w, .nc)
      else if s.ph = .running then
        match v.fsmdrop with
        | .asWritten => (setSess w k { s with ph := .zombie, copen := false }, .expired none)
        | .repaired => let r := finish v w k s; (r.1, .expired r.2)
      else (setSess w k { s with copen := false }, .noend)
  | .terminate =>
    if w.term then (w, .nc)
    else
      let r := terminateAll v 0 w.sess { w with term := true } []
      (r.1, .term r.2)

def runFrom (v : Variant) (w : World) : List Op → World × List Out
  | [] => (w, [])
  | o :: os =>
    let r := step v w o
    let q := runFrom v r.1 os
    (q.1, r.2 :: q.2)

def World.init (cfg : List Entry) : World := { cfg := cfg }

def run (v : Variant) (cfg : List Entry) (ops : List Op) : World × List Out := runFrom v (World.init cfg) ops

/-- The world after `ops` only. -/
def exec (v : Variant) (w : World) (ops : List Op) : World := ops.foldl (fun w o => (step v w o).1) w

end Rotonda.BgpIn
