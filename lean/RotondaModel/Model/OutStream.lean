/-!
# Output-stream targets (C17): file-out and mqtt-out

Hand transliteration of
* `src/targets/file/target.rs:150-199` — which `Update`s produce output, the
  branch order per record shape and per format;
* `src/targets/mqtt/target.rs:395-425,466-485` — `direct_update` and
  `output_stream_message_to_msg` (name filter, topic template, payload);
* the serde shapes of `OutputStreamMessageRecord`, `CustomLogEntry`,
  `LogEntry`, `MinimalLogEntry` (`src/roto_runtime/types.rs:435-554`) and
  `IngressInfo` (`src/ingress.rs:184-200`) as written by `serde_json`
  (compact formatter) and `csv` (no headers);
* `serde_json`'s string escaping (`format_escaped_str_contents`).

Everything is over `List Char`. A route's attribute serialisation is opaque:
a route line is the abstract `Line.route prefix` (the harness recognises the
real bytes as "the JSON/CSV serialisation of that route").

Variants (both are models of some code):
* `entry = asWritten`: a `LogEntry` record is caught by the first
  `if let Entry(e)` and written only if it has custom text — an entry without
  custom text is written nowhere. `repaired`: such an entry falls through to
  the per-format branch.
* `nl = asWritten`: custom text is written verbatim, so a `'\n'` inside it
  splits the line. `repaired`: `\`, LF, CR are written as `\\`, `\n`, `\r`.
-/
namespace Rotonda.OutStream

abbrev Str := List Char

/-! ## serde_json string escaping -/

def hexDigit (n : Nat) : Char :=
  if n < 10 then Char.ofNat (48 + n) else Char.ofNat (87 + n)

/-- `serde_json::ser::format_escaped_str_contents` for one char: `"` `\` and
    everything below 0x20 are escaped; all else (incl. 0x7f and non-ASCII) is verbatim. -/
def escapeChar (c : Char) : Str :=
  if c = '"' then ['\\', '"']
  else if c = '\\' then ['\\', '\\']
  else if c = '\n' then ['\\', 'n']
  else if c = '\r' then ['\\', 'r']
  else if c = '\t' then ['\\', 't']
  else if c.toNat = 8 then ['\\', 'b']
  else if c.toNat = 12 then ['\\', 'f']
  else if c.toNat < 32 then ['\\', 'u', '0', '0', hexDigit (c.toNat / 16), hexDigit (c.toNat % 16)]
  else [c]

def jsonStrBody : Str → Str
  | [] => []
  | c :: cs => escapeChar c ++ jsonStrBody cs

def jsonStr (s : Str) : Str := '"' :: (jsonStrBody s ++ ['"'])

def hexVal (c : Char) : Option Nat :=
  if '0'.toNat ≤ c.toNat ∧ c.toNat ≤ '9'.toNat then some (c.toNat - 48)
  else if 'a'.toNat ≤ c.toNat ∧ c.toNat ≤ 'f'.toNat then some (c.toNat - 87)
  else if 'A'.toNat ≤ c.toNat ∧ c.toNat ≤ 'F'.toNat then some (c.toNat - 55)
  else none

def hex4 (a b c d : Char) : Option Nat :=
  match hexVal a, hexVal b, hexVal c, hexVal d with
  | some a, some b, some c, some d => some (((a * 16 + b) * 16 + c) * 16 + d)
  | _, _, _, _ => none

def unescapeChar (e : Char) : Option Char :=
  if e = '"' then some '"'
  else if e = '\\' then some '\\'
  else if e = '/' then some '/'
  else if e = 'n' then some '\n'
  else if e = 'r' then some '\r'
  else if e = 't' then some '\t'
  else if e = 'b' then some (Char.ofNat 8)
  else if e = 'f' then some (Char.ofNat 12)
  else none

/-- JSON string body parser (after the opening quote): returns the decoded
    string and what follows the closing quote. Raw control characters are
    rejected, as by every JSON parser. `fuel` = input length. -/
def parseStrBody : Nat → Str → Option (Str × Str)
  | 0, _ => none
  | _, [] => none
  | fuel + 1, c :: rest =>
    if c = '"' then some ([], rest)
    else if c = '\\' then
      match rest with
      | [] => none
      | e :: rest2 =>
        if e = 'u' then
          match rest2 with
          | a :: b :: c' :: d :: rest3 =>
            match hex4 a b c' d, parseStrBody fuel rest3 with
            | some v, some (s, r) => some (Char.ofNat v :: s, r)
            | _, _ => none
          | _ => none
        else
          match unescapeChar e, parseStrBody fuel rest2 with
          | some ch, some (s, r) => some (ch :: s, r)
          | _, _ => none
    else if c.toNat < 32 then none
    else
      match parseStrBody fuel rest with
      | some (s, r) => some (c :: s, r)
      | none => none

abbrev P (α : Type) := Str → Option (α × Str)

def pStr : P Str
  | '"' :: rest => parseStrBody (rest.length + 1) rest
  | _ => none

/-! ## small parser kit -/

def lit : Str → Str → Option Str
  | [], l => some l
  | _ :: _, [] => none
  | c :: s, d :: l => if c = d then lit s l else none

def pNat : P Nat := fun l =>
  match l.takeWhile Char.isDigit with
  | [] => none
  | ds => some (Nat.ofDigitChars 10 ds 0, l.dropWhile Char.isDigit)

def nullLit : Str := ['n', 'u', 'l', 'l']

def pOpt {α : Type} (p : P α) : P (Option α) := fun l =>
  match lit nullLit l with
  | some r => some (none, r)
  | none => match p l with
    | some (a, r) => some (some a, r)
    | none => none

def digits (n : Nat) : Str := Nat.toDigits 10 n

def optJson {α : Type} (f : α → Str) : Option α → Str
  | none => nullLit
  | some a => f a

def key (k : String) : Str := '"' :: (k.toList ++ ['"', ':'])

/-! ## records -/

structure LogEntry where
  timestamp : Nat            -- microseconds since the epoch (`ts_microseconds`), non-negative here
  originAs : Option Nat
  peerAs : Option Nat
  asPathHops : Option Nat
  convReach : Nat
  convUnreach : Nat
  mpReach : Option Nat
  mpReachAfiSafi : Option Str   -- serde name of the `AfiSafiType` variant, e.g. `Ipv6Unicast`
  mpUnreach : Option Nat
  mpUnreachAfiSafi : Option Str
  custom : Option Str
  deriving DecidableEq, Repr

/-- A route record: attributes are opaque except for one bit — whether the `csv`
    writer can serialise them (it cannot if they contain an extended community,
    whose serde shape has a map, or an attribute routecore kept as `Invalid`,
    an enum tuple variant: `csv::Writer::serialize` returns `Err`). -/
structure Route where
  pfx : Str
  csvOk : Bool
  deriving DecidableEq, Repr

inductive Record
  | route (r : Option Route)            -- `Route(Option<RotondaRoute>)`
  | peerdown (ip : Str) (asn : Nat)
  | custom (id value : Nat)
  | entry (e : LogEntry)
  deriving DecidableEq, Repr

structure Msg where
  name : Str
  topic : Str
  ingress : Option Nat
  record : Record
  deriving DecidableEq, Repr

/-- `payload::Update`; only what the targets look at. -/
inductive Update
  | single | bulk (n : Nat) | withdraw | withdrawBulk | queryResult | upstreamStatusChange
  | outputStream (ms : List Msg)
  deriving DecidableEq, Repr

inductive Format | csv | json | jsonMin
  deriving DecidableEq, Repr

inductive Site | asWritten | repaired
  deriving DecidableEq, Repr

structure Variant where
  entry : Site
  nl : Site
  csv : Site
  deriving DecidableEq, Repr

def asWritten : Variant := ⟨.asWritten, .asWritten, .asWritten⟩
def repaired : Variant := ⟨.repaired, .repaired, .repaired⟩

/-- One line of the output file. -/
inductive Line
  | text (l : Str)
  | route (pfx : Str)       -- the serialisation (JSON or CSV, by format) of the route with this prefix
  deriving DecidableEq, Repr

/-! ### JSON shapes (serde derive, compact) -/

def jsonPeerdown (ip : Str) (asn : Nat) : Str :=
  '[' :: (jsonStr ip ++ ',' :: (digits asn ++ [']']))

def jsonCustom (id value : Nat) : Str :=
  '{' :: (key "id" ++ (digits id ++ ',' :: (key "value" ++ (digits value ++ ['}']))))

/-- `,"k":v` followed by `rest`. -/
def fld (k : String) (v : Str) (rest : Str) : Str := ',' :: (key k ++ (v ++ rest))

/-- A field of a `skip_serializing_none` struct: absent when `none`. -/
def ofld {α : Type} (k : String) (f : α → Str) (o : Option α) (rest : Str) : Str :=
  match o with
  | none => rest
  | some a => fld k (f a) rest

def jsonEntry (e : LogEntry) : Str :=
  '{' :: (key "timestamp" ++ (digits e.timestamp ++ (
  fld "origin_as" (optJson digits e.originAs) <|
  fld "peer_as" (optJson digits e.peerAs) <|
  fld "as_path_hops" (optJson digits e.asPathHops) <|
  fld "conventional_reach" (digits e.convReach) <|
  fld "conventional_unreach" (digits e.convUnreach) <|
  fld "mp_reach" (optJson digits e.mpReach) <|
  fld "mp_reach_afisafi" (optJson jsonStr e.mpReachAfiSafi) <|
  fld "mp_unreach" (optJson digits e.mpUnreach) <|
  fld "mp_unreach_afisafi" (optJson jsonStr e.mpUnreachAfiSafi) <|
  fld "custom" (optJson jsonStr e.custom) ['}'])))

/-- `MinimalLogEntry`: `None` fields are skipped, there is no `custom`. -/
def jsonEntryMin (e : LogEntry) : Str :=
  '{' :: (key "timestamp" ++ (digits e.timestamp ++ (
  ofld "origin_as" digits e.originAs <|
  ofld "peer_as" digits e.peerAs <|
  ofld "as_path_hops" digits e.asPathHops <|
  fld "conventional_reach" (digits e.convReach) <|
  fld "conventional_unreach" (digits e.convUnreach) <|
  ofld "mp_reach" digits e.mpReach <|
  ofld "mp_reach_afisafi" jsonStr e.mpReachAfiSafi <|
  ofld "mp_unreach" digits e.mpUnreach <|
  ofld "mp_unreach_afisafi" jsonStr e.mpUnreachAfiSafi ['}'])))

/-! ### CSV shapes (`csv::Writer::serialize`, no headers; no field here needs quoting
    except the empty single field of `Route(None)`) -/

def csvOpt {α : Type} (f : α → Str) : Option α → Str
  | none => []
  | some a => f a

def csvPeerdown (ip : Str) (asn : Nat) : Str := ip ++ ',' :: digits asn
def csvCustom (id value : Nat) : Str := digits id ++ ',' :: digits value
def csvEntry (e : LogEntry) : Str :=
  digits e.timestamp ++ ',' :: (csvOpt digits e.originAs ++ ',' :: (csvOpt digits e.peerAs ++
  ',' :: (csvOpt digits e.asPathHops ++ ',' :: (digits e.convReach ++ ',' :: (digits e.convUnreach ++
  ',' :: (csvOpt digits e.mpReach ++ ',' :: (csvOpt id e.mpReachAfiSafi ++ ',' :: (csvOpt digits e.mpUnreach ++
  ',' :: (csvOpt id e.mpUnreachAfiSafi ++ ',' :: csvOpt id e.custom)))))))))

/-! ## file-out -/

/-- Split on LF; always at least one segment. `lines (body ++ "\n")` of the real file. -/
def splitNl : Str → List Str
  | [] => [[]]
  | c :: cs =>
    match splitNl cs with
    | [] => [[c]]            -- unreachable
    | seg :: segs => if c = '\n' then [] :: seg :: segs else (c :: seg) :: segs

/-- The repaired custom-text writer: `\` → `\\`, LF → `\n`, CR → `\r`. -/
def escNl : Str → Str
  | [] => []
  | c :: cs =>
    if c = '\\' then '\\' :: '\\' :: escNl cs
    else if c = '\n' then '\\' :: 'n' :: escNl cs
    else if c = '\r' then '\\' :: 'r' :: escNl cs
    else c :: escNl cs

def unescNl : Str → Option Str
  | [] => some []
  | '\\' :: 'n' :: cs => (unescNl cs).map ('\n' :: ·)
  | '\\' :: 'r' :: cs => (unescNl cs).map ('\r' :: ·)
  | '\\' :: '\\' :: cs => (unescNl cs).map ('\\' :: ·)
  | '\\' :: _ => none
  | c :: cs => (unescNl cs).map (c :: ·)

/-- The per-format branch (`match self.config.format`), for a record that
    reached it and that the format's writer can serialise. -/
def formatLine (fmt : Format) (r : Record) : Line :=
  match fmt with
  | .csv =>
    match r with
    | .route none => .text ['"', '"']
    | .route (some rt) => .route rt.pfx
    | .peerdown ip asn => .text (csvPeerdown ip asn)
    | .custom i v => .text (csvCustom i v)
    | .entry e => .text (csvEntry e)
  | .json =>
    match r with
    | .route none => .text nullLit
    | .route (some rt) => .route rt.pfx
    | .peerdown ip asn => .text (jsonPeerdown ip asn)
    | .custom i v => .text (jsonCustom i v)
    | .entry e => .text (jsonEntry e)
  | .jsonMin =>
    match r with
    | .entry e => .text (jsonEntryMin e)        -- `if let Entry(e) = m` inside the JsonMin arm
    | .route none => .text nullLit
    | .route (some rt) => .route rt.pfx
    | .peerdown ip asn => .text (jsonPeerdown ip asn)
    | .custom i v => .text (jsonCustom i v)

/-- `wrt.serialize(m)` fails (csv arm only). -/
def csvFails (fmt : Format) (r : Record) : Bool :=
  match fmt, r with
  | .csv, .route (some rt) => !rt.csvOk
  | _, _ => false

inductive Step
  | lines (ls : List Line)
  | panic
  deriving DecidableEq, Repr

/-- The per-format branch including the csv `unwrap()` (target.rs:164). -/
def formatStep (v : Variant) (fmt : Format) (r : Record) : Step :=
  if csvFails fmt r then
    match v.csv with
    | .asWritten => .panic                       -- `wrt.serialize(m).unwrap()`
    | .repaired => .lines []                     -- `if wrt.serialize(m).is_ok() { … }`: logged, skipped
  else .lines [formatLine fmt r]

/-- What the target does for one message (`for m in msgs { … }` body). -/
def emit (v : Variant) (fmt : Format) (r : Record) : Step :=
  match r with
  | .entry e =>
    match e.custom with
    | some s =>
      match v.nl with
      | .asWritten => .lines ((splitNl s).map .text)   -- `write_all(custom_str); write_all(b"\n")`
      | .repaired => .lines [.text (escNl s)]
    | none =>
      match v.entry with
      | .asWritten => .lines []                  -- first `if let Entry` arm, `custom == None`: nothing
      | .repaired => formatStep v fmt r
  | r => formatStep v fmt r

inductive Outcome (α : Type)
  | ok (a : α)
  | panic (site : String)
  deriving DecidableEq, Repr

def csvSite : String := "file/target.rs:164 csv serialize unwrap"

def emitAll (v : Variant) (fmt : Format) : List Msg → Outcome (List Line)
  | [] => .ok []
  | m :: ms =>
    match emit v fmt m.record with
    | .panic => .panic csvSite
    | .lines ls =>
      match emitAll v fmt ms with
      | .ok rest => .ok (ls ++ rest)
      | .panic s => .panic s

/-- The update loop of `FileRunner::run` from start until the gate closes: the
    lines of the flushed file, or the panic that killed the task (nothing is
    flushed then). The other `unwrap`s on the path are on I/O results. -/
def write (v : Variant) (fmt : Format) : List Update → Outcome (List Line)
  | [] => .ok []
  | .outputStream ms :: us =>
    match emitAll v fmt ms with
    | .panic s => .panic s
    | .ok ls =>
      match write v fmt us with
      | .ok rest => .ok (ls ++ rest)
      | .panic s => .panic s
  | _ :: us => write v fmt us

/-- All output-stream messages of an update sequence, in emission order. -/
def messages : List Update → List Msg
  | [] => []
  | .outputStream ms :: us => ms ++ messages us
  | _ :: us => messages us

/-! ## mqtt-out -/

structure IngressInfo where
  unitName : Option Str
  parent : Option Nat
  remoteAddr : Option Str
  remoteAsn : Option Nat
  filename : Option Str
  name : Option Str
  desc : Option Str
  deriving DecidableEq, Repr

/-- `skip_serializing_none` object: present fields comma-separated. -/
def jsonInfo (i : IngressInfo) : Str :=
  let fields :=
    ofld "unit_name" jsonStr i.unitName <|
    ofld "parent_ingress" digits i.parent <|
    ofld "remote_addr" jsonStr i.remoteAddr <|
    ofld "remote_asn" digits i.remoteAsn <|
    ofld "filename" jsonStr i.filename <|
    ofld "name" jsonStr i.name <|
    ofld "desc" jsonStr i.desc []
  '{' :: (fields.drop 1 ++ ['}'])

/-- Payload pieces: the route's JSON is opaque. -/
inductive Payload
  | text (l : Str)
  | withRoute (before : Str) (pfx : Str) (after : Str)
  deriving DecidableEq, Repr

def jsonRecord (r : Record) : Payload :=
  match r with
  | .route none => .text nullLit
  | .route (some rt) => .withRoute [] rt.pfx []
  | .peerdown ip asn => .text (jsonPeerdown ip asn)
  | .custom i v => .text (jsonCustom i v)
  | .entry e => .text (jsonEntry e)

/-- `serde_json::to_string(&(ingress_info, osm.get_record()))`. -/
def payload (info : Option IngressInfo) (r : Record) : Payload :=
  let pre := '[' :: (optJson jsonInfo info ++ [','])
  match jsonRecord r with
  | .text l => .text (pre ++ (l ++ [']']))
  | .withRoute b p a => .withRoute (pre ++ b) p (a ++ [']'])

def idPat : Str := ['{', 'i', 'd', '}']

/-- `str::replace("{id}", topic)`: non-overlapping, left to right, replaced text is not rescanned. -/
def fillTemplate (topic : Str) : Str → Str
  | [] => []
  | c :: cs =>
    match lit idPat (c :: cs) with
    | some _ => topic ++ fillTemplate topic (cs.drop 3)
    | none => c :: fillTemplate topic cs
termination_by l => l.length
decreasing_by
  all_goals simp only [List.length_cons, List.length_drop]
  all_goals omega

abbrev Registry := List (Nat × IngressInfo)

def Registry.get (reg : Registry) (id : Nat) : Option IngressInfo :=
  match reg.find? (·.1 = id) with
  | some e => some e.2
  | none => none

/-- `output_stream_message_to_msg`. -/
def toMsg (comp : Str) (tmpl : Str) (reg : Registry) (m : Msg) : Option (Str × Payload) :=
  if m.name = comp then
    let info := match m.ingress with
      | some id => reg.get id
      | none => none
    some (fillTemplate m.topic tmpl, payload info m.record)
  else none

def publishAll (comp tmpl : Str) (reg : Registry) : List Msg → List (Str × Payload)
  | [] => []
  | m :: ms =>
    match toMsg comp tmpl reg m with
    | some x => x :: publishAll comp tmpl reg ms
    | none => publishAll comp tmpl reg ms

/-- `direct_update`: what is pushed on the publish queue, in order. -/
def directUpdate (comp tmpl : Str) (reg : Registry) : Update → List (Str × Payload)
  | .outputStream ms => publishAll comp tmpl reg ms
  | _ => []

/-! ### the register changes while the target runs

`Register::update_info` (`src/ingress.rs`, `update_field!` per field): a field the call supplies
replaces the stored one, a field it does not supply is kept; an id without an entry gets the new
info as it is. The mqtt target reads the register when it builds a message (`ingresses.get(id)` in
`output_stream_message_to_msg`), so the metadata attached is the register's content at that moment. -/

def IngressInfo.merge (old new : IngressInfo) : IngressInfo :=
  ⟨new.unitName.or old.unitName, new.parent.or old.parent, new.remoteAddr.or old.remoteAddr,
   new.remoteAsn.or old.remoteAsn, new.filename.or old.filename, new.name.or old.name, new.desc.or old.desc⟩

def Registry.update : Registry → Nat → IngressInfo → Registry
  | [], id, new => [(id, new)]
  | e :: es, id, new => if e.1 = id then (id, e.2.merge new) :: es else e :: Registry.update es id new

/-- What happens around a running target: an update arrives, or a source's register entry is edited. -/
inductive Ev
  | upd (u : Update)
  | info (id : Nat) (i : IngressInfo)
  deriving DecidableEq, Repr

/-- The register after a history. -/
def regAfter : Registry → List Ev → Registry
  | reg, [] => reg
  | reg, .upd _ :: es => regAfter reg es
  | reg, .info id i :: es => regAfter (reg.update id i) es

/-- Everything the target queues for publishing over a history, in order. -/
def session (comp tmpl : Str) : Registry → List Ev → List (Str × Payload)
  | _, [] => []
  | reg, .upd u :: es => directUpdate comp tmpl reg u ++ session comp tmpl reg es
  | reg, .info id i :: es => session comp tmpl (reg.update id i) es

end Rotonda.OutStream
