/-
Model of `src/common/frim.rs` (`FrimMap`): a copy-on-write association list
behind an `ArcSwap`.  Import-free (core Lean only) so that the driver links.

Granularity: one model step per shared-memory access of the real code.
* `get`, `len`, `guard` (iteration), `contains_key` : one `ArcSwap::load`.
* `replace`                                         : one `ArcSwap::store`.
* `insert`, `retain`, `remove`                      : `ArcSwap::rcu`, i.e.
    `cur := load; loop { new := f(cur); prev := CAS(cur,new);
                         if prev == cur { return } else { cur := prev } }`
  = one *load* step followed by one or more *closure + CAS* steps.  The closure
  reads only the immutable snapshot, so merging its computation into the CAS
  step loses no interleaving.

`remove`'s captured `found` lives outside the closure and therefore survives an
rcu retry in the code as written (`Variant.foundSurvivesRetry = true`); the
one-line repair resets it at the top of the closure (`false`).
-/
namespace Rotonda.Frim

abbrev Map := List (Nat × Nat)

/-- Predicates offered to `retain` by the harness (closed under what the callers in
    rotonda do: keep-by-key, keep-by-value). -/
inductive Pred where
  | keyNe (k : Nat) | keyLt (k : Nat) | valNe (v : Nat) | all | none
  deriving DecidableEq, Repr

def Pred.eval : Pred → Nat × Nat → Bool
  | .keyNe k, e => e.1 != k
  | .keyLt k, e => e.1 < k
  | .valNe v, e => e.2 != v
  | .all, _ => true
  | .none, _ => false

inductive Op where
  | ins (k v : Nat) | rem (k : Nat) | get (k : Nat) | retain (p : Pred)
  | replace (m : Map) | len | iter
  deriving DecidableEq, Repr

inductive Ret where
  | unit | val (o : Option Nat) | num (n : Nat) | snap (m : Map)
  deriving DecidableEq, Repr

/-- `iter().position(|(k,_)| k == key)` -/
def position (k : Nat) : Map → Option Nat
  | [] => none
  | e :: m => if e.1 = k then some 0 else (position k m).map (· + 1)

def lookup (k : Nat) : Map → Option Nat
  | [] => none
  | e :: m => if e.1 = k then some e.2 else lookup k m

/-- `SmallVec::remove(pos)` on a clone. -/
def removeFirst (k : Nat) : Map → Map
  | [] => []
  | e :: m => if e.1 = k then m else e :: removeFirst k m

def insertKV (k v : Nat) (m : Map) : Map := m.filter (fun e => e.1 != k) ++ [(k, v)]

/-- The sequential specification: an ordinary association list. -/
def seqStep (m : Map) : Op → Map × Ret
  | .ins k v => (insertKV k v m, .unit)
  | .rem k => (removeFirst k m, .val (lookup k m))
  | .get k => (m, .val (lookup k m))
  | .retain p => (m.filter p.eval, .unit)
  | .replace m' => (m', .unit)
  | .len => (m, .num m.length)
  | .iter => (m, .snap m)

def seqRun (m : Map) : List Op → Map × List Ret
  | [] => (m, [])
  | op :: ops =>
    let r := seqStep m op
    let rest := seqRun r.1 ops
    (rest.1, r.2 :: rest.2)

/-! ### Concurrent model -/

structure Variant where
  /-- `true` = frim.rs as written: `found` is captured by the closure and keeps
      its value when `rcu` re-runs the closure. -/
  foundSurvivesRetry : Bool
  deriving DecidableEq, Repr

inductive PC where
  | idle
  | loaded (op : Op) (snap : Nat) (found : Option Nat)
  deriving DecidableEq, Repr

structure Thread where
  prog : List Op
  pc : PC
  rets : List (Op × Ret)     -- completed ops with the value returned, in program order
  deriving DecidableEq, Repr

structure Sys where
  heap : List Map            -- every version ever published; a pointer is an index
  cur : Nat                  -- what the ArcSwap points at
  threads : List Thread
  lin : List (Nat × Op × Ret) -- GHOST: (thread, op, returned) in order of linearization points
  deriving DecidableEq, Repr

def Sys.content (s : Sys) : Map := s.heap.getD s.cur []

def init (m0 : Map) (progs : List (List Op)) : Sys :=
  { heap := [m0], cur := 0, threads := progs.map (fun p => ⟨p, .idle, []⟩), lin := [] }

/-- One run of the closure passed to `rcu` on snapshot `snap`.  Returns the new
    content and the value of the captured `found` afterwards. -/
def closure (v : Variant) (snap : Map) (op : Op) (found : Option Nat) : Map × Option Nat :=
  match op with
  | .ins k x => (insertKV k x snap, found)
  | .retain p => (snap.filter p.eval, found)
  | .rem k =>
    let found0 := if v.foundSurvivesRetry then found else none
    match lookup k snap with
    | some x => (removeFirst k snap, some x)
    | none => (snap, found0)
  | _ => (snap, found)

def retOf (op : Op) (found : Option Nat) : Ret :=
  match op with
  | .rem _ => .val found
  | _ => .unit

def setThread (ts : List Thread) (i : Nat) (t : Thread) : List Thread := ts.set i t

/-- Thread `i` performs its next shared-memory access. -/
def step (v : Variant) (s : Sys) (i : Nat) : Sys :=
  match s.threads[i]? with
  | none => s
  | some t =>
    match t.pc with
    | .idle =>
      match t.prog with
      | [] => s
      | op :: rest =>
        match op with
        | .get _ | .len | .iter =>
          -- a single load; reads linearize here
          let r := (seqStep s.content op).2
          { s with threads := setThread s.threads i { prog := rest, pc := .idle, rets := t.rets ++ [(op, r)] },
                   lin := s.lin ++ [(i, op, r)] }
        | .replace m' =>
          -- a single store
          { heap := s.heap ++ [m'], cur := s.heap.length,
            threads := setThread s.threads i { prog := rest, pc := .idle, rets := t.rets ++ [(op, .unit)] },
            lin := s.lin ++ [(i, op, .unit)] }
        | .ins _ _ | .rem _ | .retain _ =>
          -- rcu: the initial load
          { s with threads := setThread s.threads i { prog := rest, pc := .loaded op s.cur none, rets := t.rets } }
    | .loaded op snap found =>
      let c := closure v (s.heap.getD snap []) op found
      if s.cur = snap then
        -- CAS succeeds: publish, linearize, return
        let r := retOf op c.2
        { heap := s.heap ++ [c.1], cur := s.heap.length,
          threads := setThread s.threads i { prog := t.prog, pc := .idle, rets := t.rets ++ [(op, r)] },
          lin := s.lin ++ [(i, op, r)] }
      else
        -- CAS fails: retry on the version observed
        { s with threads := setThread s.threads i { t with pc := .loaded op s.cur c.2 } }

def run (v : Variant) (s : Sys) (sched : List Nat) : Sys := sched.foldl (step v) s

/-- Replay a linearization log on the sequential map; `none` if some recorded
    return value is not what the sequential map returns. -/
def replay (m : Map) : List (Nat × Op × Ret) → Option Map
  | [] => some m
  | (_, op, r) :: rest =>
    let s := seqStep m op
    if s.2 = r then replay s.1 rest else none

def asWritten : Variant := ⟨true⟩
def repaired : Variant := ⟨false⟩

end Rotonda.Frim
